(* Uniform case representation shared by the in-kernel and the extracted correspondence runners. *)
From Gws Require Import Lib.Base Lib.Hex.
From Coq Require Import Strings.String.

Inductive val : Type :=
| VN (n : N)
| VZ (z : Z)
| VB (b : list N)          (* bytes *)
| VL (l : list val).

(* in-kernel literal for bytes *)
Definition VH (s : string) : val := VB (hex s).

Definition vnat (v : val) : nat := match v with VN n => N.to_nat n | _ => O end.
Definition vn (v : val) : N := match v with VN n => n | _ => 0%N end.
Definition vz (v : val) : Z := match v with VZ z => z | VN n => Z.of_N n | _ => 0%Z end.
Definition vb (v : val) : list N := match v with VB b => b | _ => [] end.
Definition vl (v : val) : list val := match v with VL l => l | _ => [] end.
Definition vbool (v : val) : bool := match v with VN 0%N => false | VN _ => true | _ => false end.
Definition vget (i : nat) (v : val) : val := nth i (vl v) (VN 0%N).

Definition run_checks (chk : val -> bool) (cs : list val) : list nat := mismatches chk cs.
