(* Compact byte literals for generated case files: a Coq string of hex digits. *)
From Coq Require Import Strings.String Strings.Ascii.
From Gws Require Import Lib.Base.
Local Open Scope N_scope.

Definition hexval (c : ascii) : N :=
  let n := N_of_ascii c in
  if (48 <=? n) && (n <=? 57) then n - 48
  else if (97 <=? n) && (n <=? 102) then n - 87
  else if (65 <=? n) && (n <=? 70) then n - 55 else 0.

Fixpoint hex (s : string) : list N :=
  match s with
  | String a (String b r) => (16 * hexval a + hexval b) :: hex r
  | _ => []
  end.

(* plain text, one byte per character *)
Fixpoint str (s : string) : list N :=
  match s with String a r => N_of_ascii a :: str r | EmptyString => [] end.
