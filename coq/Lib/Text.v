(* Byte-string vocabulary shared by the handshake model and its specification: ASCII case mapping,
   prefix / substring tests, splitting at a separator byte, trimming.  Strings are `list N` (bytes);
   literals are written `str "..."` (Lib/Hex.v).  Definitions only - lemmas are in Proofs/TextProofs.v. *)
From Gws Require Import Lib.Base Lib.Hex.
Local Open Scope N_scope.

Definition bytes := list N.

Definition is_nil {A} (l : list A) : bool := match l with [] => true | _ => false end.

(* ASCII letter case *)
Definition is_upper (b : N) : bool := (65 <=? b) && (b <=? 90).
Definition is_lower (b : N) : bool := (97 <=? b) && (b <=? 122).
Definition lower (b : N) : N := if is_upper b then b + 32 else b.
Definition upper (b : N) : N := if is_lower b then b - 32 else b.
Definition lower_s (s : bytes) : bytes := map lower s.

(* equality ignoring ASCII letter case *)
Definition eq_nocase (a b : bytes) : bool := bytes_eqb (lower_s a) (lower_s b).

Fixpoint prefixb (p s : bytes) : bool :=
  match p, s with
  | [], _ => true
  | x :: p', y :: s' => (x =? y) && prefixb p' s'
  | _ :: _, [] => false
  end.

(* strings.Contains: pat occurs in s as a contiguous substring *)
Fixpoint contains (s pat : bytes) : bool :=
  prefixb pat s || match s with [] => false | _ :: s' => contains s' pat end.

(* strings.Split(s, sep) for a one-byte separator: always at least one piece *)
Fixpoint split_on (sep : N) (s : bytes) : list bytes :=
  match s with
  | [] => [[]]
  | c :: s' =>
    if c =? sep then [] :: split_on sep s'
    else match split_on sep s' with
         | [] => [[c]]            (* unreachable: split_on never returns [] *)
         | p :: ps => (c :: p) :: ps
         end
  end.

Fixpoint join (sep : N) (ps : list bytes) : bytes :=
  match ps with
  | [] => []
  | [p] => p
  | p :: ps' => p ++ sep :: join sep ps'
  end.

(* the ASCII part of Go's unicode.IsSpace / strings.TrimSpace: \t \n \v \f \r and space *)
Definition is_space (b : N) : bool := ((9 <=? b) && (b <=? 13)) || (b =? 32).

(* trimming of the bytes satisfying sp at both ends *)
Fixpoint trim_left_by (sp : N -> bool) (s : bytes) : bytes :=
  match s with
  | c :: s' => if sp c then trim_left_by sp s' else s
  | [] => []
  end.
Definition trim_by (sp : N -> bool) (s : bytes) : bytes := rev (trim_left_by sp (rev (trim_left_by sp s))).
Definition trim (s : bytes) : bytes := trim_by is_space s.

(* association lists keyed by byte strings: first match *)
Fixpoint lookup {V} (k : bytes) (l : list (bytes * V)) : option V :=
  match l with
  | [] => None
  | (k', v) :: r => if bytes_eqb k' k then Some v else lookup k r
  end.

Definition mem (x : bytes) (l : list bytes) : bool := existsb (bytes_eqb x) l.

(* decimal rendering of a natural number (strconv.Itoa on a non-negative int) *)
Fixpoint dec_digits (fuel : nat) (n : N) (acc : bytes) : bytes :=
  match fuel with
  | O => acc
  | S f => let acc' := (48 + n mod 10) :: acc in
           if n <? 10 then acc' else dec_digits f (n / 10) acc'
  end.
Definition itoa (n : N) : bytes := dec_digits (S (N.to_nat (N.log2 n))) n [].

Definition is_ascii (s : bytes) : bool := forallb (fun b => b <? 128) s.
