(* Shared vocabulary of the gws models: bytes as N, checked slicing, Go copy/append,
   option monad, lastn.  No property theorems here. *)
From Coq Require Export List Bool Arith NArith ZArith Lia.
From Coq Require Export ZifyN ZifyNat ZifyBool.
Export ListNotations.

Definition byte_ok (b : N) : Prop := (b < 2 ^ 8)%N.
Definition wf_bytes (l : list N) : Prop := Forall byte_ok l.
Definition byte_okb (b : N) : bool := (b <? 2 ^ 8)%N.
Definition wf_bytesb (l : list N) : bool := forallb byte_okb l.

Definition obind {X Y} (o : option X) (f : X -> option Y) : option Y :=
  match o with Some x => f x | None => None end.
Notation "x <- o ;; k" := (obind o (fun x => k)) (at level 61, o at next level, right associativity).

Section Lists.
Context {A : Type}.

Definition lastn (n : nat) (l : list A) : list A := skipn (length l - n) l.

(* Go slice expression l[lo:hi] on a slice whose len = cap: panics (None) unless lo <= hi <= len *)
Definition slice (lo hi : nat) (l : list A) : option (list A) :=
  if (lo <=? hi) && (hi <=? length l) then Some (firstn (hi - lo) (skipn lo l)) else None.

(* Go copy(dst, src): overwrites the first min(len dst, len src) elements of dst *)
Definition copy (dst src : list A) : list A :=
  firstn (length dst) src ++ skipn (length src) dst.

Lemma copy_full dst src : length dst = length src -> copy dst src = src.
Proof. intro H. unfold copy. rewrite H, firstn_all, skipn_all2 by lia. apply app_nil_r. Qed.

Lemma copy_length dst src : length (copy dst src) = length dst.
Proof. unfold copy. rewrite app_length, firstn_length, skipn_length. lia. Qed.

Lemma lastn_length n l : length (lastn n l) = Nat.min n (length l).
Proof. unfold lastn. rewrite skipn_length. lia. Qed.

Lemma lastn_all n l : length l <= n -> lastn n l = l.
Proof. intro H. unfold lastn. replace (length l - n) with 0 by lia. reflexivity. Qed.

Lemma skipn_app_le n (l1 l2 : list A) : n <= length l1 -> skipn n (l1 ++ l2) = skipn n l1 ++ l2.
Proof. intro H. rewrite skipn_app. replace (n - length l1) with 0 by lia. reflexivity. Qed.

Lemma skipn_app_ge n (l1 l2 : list A) : length l1 <= n -> skipn n (l1 ++ l2) = skipn (n - length l1) l2.
Proof. intro H. rewrite skipn_app. rewrite (skipn_all2 l1) by lia. reflexivity. Qed.

Lemma skipn_skipn' a b (l : list A) : skipn a (skipn b l) = skipn (a + b) l.
Proof.
  revert l. induction b as [|b IH]; intro l; simpl.
  - rewrite Nat.add_0_r. reflexivity.
  - destruct l as [|x l]; [rewrite !skipn_nil; reflexivity|].
    rewrite Nat.add_succ_r. simpl. apply IH.
Qed.

Lemma lastn_app_lastn n (h p : list A) : lastn n (lastn n h ++ p) = lastn n (h ++ p).
Proof.
  unfold lastn. rewrite !app_length, skipn_length.
  destruct (Nat.le_gt_cases (length h) n) as [Hle|Hgt].
  - replace (length h - n) with 0 by lia. cbn [skipn]. rewrite Nat.sub_0_r. reflexivity.
  - replace (length h - (length h - n)) with n by lia.
    destruct (Nat.le_gt_cases n (length p)) as [Hp|Hp].
    + rewrite skipn_app_ge by (rewrite skipn_length; lia).
      rewrite skipn_app_ge by lia. rewrite skipn_length. f_equal. lia.
    + rewrite skipn_app_le by (rewrite skipn_length; lia).
      rewrite skipn_app_le by lia. rewrite skipn_skipn'. f_equal. f_equal. lia.
Qed.

Lemma Forall_firstn (P : A -> Prop) n : forall l, Forall P l -> Forall P (firstn n l).
Proof. induction n as [|n IH]; intros [|x l] H; cbn; auto. inversion H; subst. constructor; auto. Qed.

Lemma Forall_skipn (P : A -> Prop) n : forall l, Forall P l -> Forall P (skipn n l).
Proof. induction n as [|n IH]; intros [|x l] H; cbn; auto. inversion H; subst. auto. Qed.

Lemma slice_ok lo hi (l : list A) : lo <= hi -> hi <= length l ->
  slice lo hi l = Some (firstn (hi - lo) (skipn lo l)).
Proof.
  intros H1 H2. unfold slice.
  replace (lo <=? hi) with true by (symmetry; apply Nat.leb_le; lia).
  replace (hi <=? length l) with true by (symmetry; apply Nat.leb_le; lia).
  reflexivity.
Qed.
End Lists.

(* decidable equality on byte lists, used by the correspondence runners *)
Fixpoint list_eqb {A} (eqb : A -> A -> bool) (a b : list A) : bool :=
  match a, b with
  | [], [] => true
  | x :: a', y :: b' => eqb x y && list_eqb eqb a' b'
  | _, _ => false
  end.
Definition bytes_eqb := list_eqb N.eqb.

Lemma bytes_eqb_eq a : forall b, bytes_eqb a b = true <-> a = b.
Proof.
  induction a as [|x a IH]; intros [|y b]; cbn; split; intro H; try discriminate; auto.
  - apply andb_true_iff in H as [H1 H2]. apply N.eqb_eq in H1. apply IH in H2. congruence.
  - inversion H; subst. rewrite N.eqb_refl. cbn. apply IH. reflexivity.
Qed.

(* indices of failing cases: what every in-kernel correspondence run prints *)
Fixpoint bad_from {C} (chk : C -> bool) (i : nat) (cs : list C) : list nat :=
  match cs with
  | [] => []
  | c :: r => if chk c then bad_from chk (S i) r else i :: bad_from chk (S i) r
  end.
Definition mismatches {C} (chk : C -> bool) (cs : list C) : list nat := bad_from chk 0 cs.
