(* C13 - Read size limit is enforced on frames, fragments and inflated size. *)
From Gws Require Import Lib.Base Spec.MaskSpec Spec.Rfc6455 Spec.Rfc6455Recv Model.Header Model.CloseCode Model.Reader
  Proofs.FrameProofs Proofs.ReaderProofs Proofs.ReaderRefine Proofs.FragmentProofs
  Model.LimitReader Proofs.LimitReaderProofs Gen.Funcs Proofs.GenLimitProofs.
Local Open Scope N_scope.

Section C13.
Variable utf8_valid : list N -> bool.
Variable inflate : list N -> list N -> Z -> option (list N).
Variable W : Type.
Variable wdict : W -> list N.
Variable wwrite : W -> list N -> W.
(* the inflater is driven through limitReader (compress.go:89-92,257-272): what it returns is within the limit *)
Hypothesis inflate_limited : forall d s l out, inflate d s l = Some out -> (Z.of_nat (length out) <= l)%Z.

(* never delivered: for every byte string, every message handed to the application - single frame, reassembled from
   fragments, or inflated - is at most ReadMaxPayloadSize bytes long *)
Theorem C13_no_oversize_delivery : forall c, limit_ok c -> forall fuel st bs op p,
  wf_bytes bs -> (length bs < fuel)%nat ->
  In (EvMsg op p) (fst (read_stream utf8_valid inflate W wdict wwrite fuel c st bs)) ->
  (Z.of_nat (length p) <= r_limit c)%Z.
Proof.
  intros c Hc fuel st bs op p Hw Hf Hin.
  pose proof (read_stream_safe utf8_valid inflate W wdict wwrite inflate_limited c Hc fuel st bs Hw Hf) as H.
  destruct (read_stream _ _ _ _ _ fuel c st bs) as [evs o]. destruct H as (_ & _ & Hall).
  rewrite Forall_forall in Hall. exact (Hall _ Hin).
Qed.

(* a frame whose declared length exceeds the limit is answered 1009 from the header alone: the result does not depend on
   whether any payload byte has arrived (`rest` is arbitrary, possibly empty), i.e. nothing is buffered first.
   This includes 64-bit lengths with the top bit set (negative after int()). *)
Theorem C13_frame_too_large : forall c st bs h rest,
  parse_header bs = POk h rest -> ((h_len h < 0)%Z \/ (h_len h > r_limit c)%Z) ->
  read_message utf8_valid inflate W wdict wwrite c st bs = SStop W [] (OFail W 1009).
Proof.
  intros c st bs h rest Hp Hl. unfold Reader.read_message. rewrite Hp.
  replace ((h_len h <? 0)%Z || (h_len h >? r_limit c)%Z) with true by (destruct Hl; lia). reflexivity.
Qed.

(* the running sum of fragments: a continuation frame that takes the message above the limit is a size violation of that
   frame (status 1009 acceptable), and by C03_frame_refines the model fails there with an acceptable status *)
Theorem C13_fragments_too_large : forall c (sst : sstate W) f m mop comp b,
  s_cur W sst = Some (mop, comp, b) -> f_op f = 0 ->
  (s_limit c < Z.of_nat (length b) + Z.of_nat (length (f_payload f)))%Z ->
  In 1009 (violations W c sst f m).
Proof.
  intros c sst f m mop comp b Hcur Hop Hsz. unfold violations. rewrite Hcur, Hop.
  repeat (apply in_or_app; right).
  replace (s_limit c <? Z.of_nat (length b) + Z.of_nat (length (f_payload f)))%Z with true by lia.
  left. reflexivity.
Qed.

(* no false rejection: an uncompressed data message in one frame, correctly masked for the role, with no reserved bit,
   whose length is within the limit - including exactly at it - is delivered unchanged (text: when valid UTF-8 or
   checking is off) *)
Theorem C13_within_limit_delivered : forall c st lf f rest,
  frame_wf f -> lenform_ok lf (N.of_nat (length (f_payload f))) -> N.of_nat (length (f_payload f)) < 2 ^ 63 ->
  limit_ok c -> cf_init W st = false ->
  (f_op f = 1 \/ f_op f = 2) -> f_fin f = true -> f_rsv1 f = false -> f_rsv2 f = false -> f_rsv3 f = false ->
  f_masked f = r_server c -> (Z.of_nat (length (f_payload f)) <= r_limit c)%Z ->
  (r_utf8 c && (f_op f =? 1) && negb (utf8_valid (f_payload f))) = false ->
  exists st', read_message utf8_valid inflate W wdict wwrite c st (encode_frame lf f ++ rest)
              = SCont W [EvMsg (f_op f) (f_payload f)] st' rest.
Proof. exact (within_limit_delivered utf8_valid inflate W wdict wwrite). Qed.

(* ... and in every other shape: a message in any number of fragments (any boundaries, ping/pong frames in between),
   compressed or not, whose reassembled wire size is within the limit - including exactly at it - and which, when
   compressed, inflates to d within the limit, is delivered as d, once, after the control callbacks *)
Theorem C13_within_limit_delivered_fragmented : forall c st fuel comp op lf0 k0 p0 cs0 mids lfl kl pl d,
  limit_ok c -> cf_init W st = false ->
  (op = 1 \/ op = 2) -> (comp = true -> r_pmd c = true) ->
  Forall (ctl_ok (scfg_of c)) cs0 -> Forall (fun m => Forall (ctl_ok (scfg_of c)) (midw_ctls m)) mids ->
  let wire := message_wire (r_server c) comp op lf0 k0 p0 cs0 mids lfl kl pl in
  let payload := p0 ++ concat (map midw_payload mids) ++ pl in
  Forall sendable wire -> (Z.of_nat (length payload) <= r_limit c)%Z -> (length (enc_stream wire) < fuel)%nat ->
  (if comp then inflate (wdict (r_dps W st)) (payload ++ inflate_tail) (r_limit c) = Some d else d = payload) ->
  (r_utf8 c && (op =? 1) && negb (utf8_valid d)) = false ->
  exists st', read_stream utf8_valid inflate W wdict wwrite fuel c st (enc_stream wire)
              = (map ev_map (map ctl_event (cs0 ++ flat_map midw_ctls mids)) ++ [EvMsg op d], OMore W st' false).
Proof. exact (reader_fragmented_delivered utf8_valid inflate W wdict wwrite). Qed.
End C13.

(* The hypothesis inflate_limited discharged for the code that exists: deflater.Decompress copies from
   limitReader(flate reader, limit) into a buffer and returns it only if the copy ended without error.  Whatever the
   flate reader hands out per Read call (flate_reads: any chunk contents and sizes, any stopping point, any error), the
   copy loop over limitedReader.Read - Model/LimitReader.v, whose Read is proved equal to the definition REGENERATED from
   compress.go on this run (the running count, `c.N > c.M`, the 1009 error) - returns at most `limit` bytes ... *)
Theorem C13_inflated_size_limit : forall flate_reads d s l out,
  inflate_via_limit flate_reads d s l = Some out -> (Z.of_nat (length out) <= l)%Z.
Proof. exact inflate_via_limit_limited. Qed.

Theorem C13_limit_reader_from_source : forall reads cN cM acc, lr_copy_src cN cM reads acc = lr_copy cN cM reads acc.
Proof. exact limit_copy_from_source. Qed.

(* ... and everything the inflater produced, in order, when that is within the limit (exactly at it included) *)
Theorem C13_within_limit_inflated : forall reads cM,
  Forall (fun r => snd r = 0%Z) (removelast reads) -> (exists p, last reads ([], 0%Z) = (p, err_eof)) -> reads <> [] ->
  (Z.of_nat (length (concat (map fst reads))) <= cM)%Z ->
  lr_copy 0 cM reads [] = Some (concat (map fst reads)).
Proof. intros reads cM H1 H2 H3 H4. exact (lr_copy_complete reads 0%Z cM [] eq_refl H1 H2 H3 H4). Qed.

(* so with Decompress as the inflater, no hypothesis is left in "never delivered above the limit" *)
Theorem C13_no_oversize_delivery_decompress : forall utf8_valid flate_reads (W : Type) wdict wwrite c, limit_ok c -> forall fuel st bs op p,
  wf_bytes bs -> (length bs < fuel)%nat ->
  In (EvMsg op p) (fst (read_stream utf8_valid (inflate_via_limit flate_reads) W wdict wwrite fuel c st bs)) ->
  (Z.of_nat (length p) <= r_limit c)%Z.
Proof.
  intros utf8_valid flate_reads W wdict wwrite.
  exact (C13_no_oversize_delivery utf8_valid (inflate_via_limit flate_reads) W wdict wwrite (inflate_via_limit_limited flate_reads)).
Qed.

(* a bomb: the inflater keeps producing 4-byte chunks; with limit 10 the copy fails at the third chunk *)
Example C13_limit_nonvacuous :
  lr_copy 0 10 [([1; 2; 3; 4]%N, 0%Z); ([1; 2; 3; 4]%N, 0%Z); ([1; 2; 3; 4]%N, 0%Z); ([]%N, err_eof)] [] = None
  /\ lr_copy 0 10 [([1; 2; 3; 4]%N, 0%Z); ([1; 2; 3; 4; 5; 6]%N, err_eof)] [] = Some [1; 2; 3; 4; 1; 2; 3; 4; 5; 6]%N.
Proof. vm_compute. split; reflexivity. Qed.

(* non-vacuity: limit 4; a 4-byte message is delivered, a 5-byte one answered 1009, 3+2 bytes in fragments answered 1009 *)
Example C13_nonvacuous :
  let c := {| r_server := false; r_pmd := false; r_limit := 4; r_utf8 := false |} in
  let run bs := read_stream (fun _ => true) (fun _ _ _ => None) unit (fun _ => []) (fun w _ => w) 30 c (r_init unit tt) bs in
  run [130; 4; 1; 2; 3; 4] = ([EvMsg 2 [1; 2; 3; 4]], OMore unit (r_init unit tt) false)
  /\ run [130; 5; 1; 2; 3; 4; 5] = ([], OFail unit 1009)
  /\ run [2; 3; 1; 2; 3; 128; 2; 4; 5] = ([], OFail unit 1009).
Proof. vm_compute. repeat split; reflexivity. Qed.

Print Assumptions C13_no_oversize_delivery.
Print Assumptions C13_frame_too_large.
Print Assumptions C13_fragments_too_large.
Print Assumptions C13_within_limit_delivered.
Print Assumptions C13_within_limit_delivered_fragmented.
Print Assumptions C13_inflated_size_limit.
Print Assumptions C13_limit_reader_from_source.
Print Assumptions C13_within_limit_inflated.
Print Assumptions C13_no_oversize_delivery_decompress.
