(* C13 placeholder: statements follow *)
From Gws Require Import Lib.Base.
Theorem C13_placeholder : True. Proof. exact I. Qed.
Print Assumptions C13_placeholder.
