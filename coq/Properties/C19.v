(* C19 - Session storage and ConcurrentMap are linearizable maps.
   Only statements, each closed by an existing lemma.
   Model: Model/ShardMap.v (sharded association lists + interleaving semantics with per-shard locks),
   Spec: Spec/AtomicMap.v (one atomic map, linearizability).  smap is the 1-shard instance.
   ix is the shard-index function of a key; every theorem holds for EVERY ix with ix k < n, in
   particular for Go's  hash(k) & (num-1)  with num a power of two, and for  hash(k) mod n, any n > 0,
   for every hash function (C19_index_go, C19_index_mod). *)
From Gws Require Import Lib.Base Model.ShardMap Spec.AtomicMap
  Proofs.LinProofs Proofs.ShardMapSeq Proofs.ShardMapConc Proofs.ShardMapLin Proofs.ShardMapLen
  Proofs.ShardMapRange Proofs.ShardMapMutex Proofs.ShardMapExample Gen.Funcs Proofs.GenShardProofs.

(* ---- 1. sequential refinement ---- *)

(* GetSharding's index is hash mod num and in range when num is a power of two; hash mod n is in range for n > 0 *)
Theorem C19_index_go : forall hash p k,
  cm_index hash (2 ^ p) k = N.to_nat (hash k mod 2 ^ p) /\ cm_index hash (2 ^ p) k < N.to_nat (2 ^ p).
Proof. intros. split; [apply cm_index_pow2|apply cm_index_lt]. Qed.

Theorem C19_index_mod : forall hash n k, 0 < n -> mod_index hash n k < n.
Proof. exact mod_index_lt. Qed.

(* one step: under the invariant "n shards, key k only in shard ix k, no key twice", every operation
   returns what it returns on abs = union of the shards, commutes with abs, and keeps the invariant *)
Theorem C19_refines_map_step : forall ix n, (forall k, ix k < n) -> forall M, shard_inv ix n M ->
  (forall k, cm_load ix M k = abs M k) /\
  (forall k v, shard_inv ix n (cm_store ix M k v) /\
               forall k', abs (cm_store ix M k v) k' = fst (m_apply (abs M) (MStore k v)) k') /\
  (forall k, shard_inv ix n (cm_delete ix M k) /\
             forall k', abs (cm_delete ix M k) k' = fst (m_apply (abs M) (MDelete k)) k') /\
  has_size (abs M) (cm_len M).
Proof. exact refines_step. Qed.

(* all operation sequences from the empty map, all n, all index functions: same outputs as ONE map *)
Theorem C19_refines_map : forall ix n ops, (forall k, ix k < n) ->
  shard_inv ix n (fst (cm_run ix (cm_new n) ops)) /\
  exists s', spec_run m_empty (map q_of ops) (map qres_of (snd (cm_run ix (cm_new n) ops))) s' /\
             forall k, s' k = abs (fst (cm_run ix (cm_new n) ops)) k.
Proof. intros ix n ops Hix. apply refines_new. exact Hix. Qed.

(* sequential Range: whatever the iteration order inside each shard, a callback that never stops sees
   exactly the entries of abs, every key once; any callback sees a prefix of such a traversal *)
Theorem C19_range_seq : forall ix n M ess f, (forall k, ix k < n) -> shard_inv ix n M -> perm_of ess M ->
  (exists rest, concat ess = cm_range f ess ++ rest) /\
  ((forall l, f l = true) ->
     NoDup (keys (cm_range f ess)) /\ forall k v, In (k, v) (cm_range f ess) <-> abs M k = Some v).
Proof.
  intros ix n M ess f Hix Hinv Hp. split; [apply (range_run_prefix f ess [])|].
  intro Hf. eapply cm_range_once; eauto.
Qed.

(* ---- 2. linearizability ---- *)

(* the general lemma: a history in which every operation takes effect atomically at one instant inside
   its interval is (well formed and) linearizable - any sequential object *)
Theorem C19_atomic_points_linearizable : forall (Op Res St : Type) (apply : St -> Op -> St * Res) init tr s m,
  atomic_points Op Res St apply init tr s m ->
  hist_wf Op Res (erase tr) /\ linearizable Op Res St apply init (erase tr).
Proof. exact atomic_points_linearizable. Qed.

(* EVERY run (any number of threads, any programs, any interleaving) of the lock-per-shard semantics:
   the recorded history of Load/Store/Delete is linearizable with respect to one atomic map *)
Theorem C19_linearizable : forall ix n, (forall k, ix k < n) -> forall progs st, reach ix n progs st ->
  hist_wf mop mres (history (trace st)) /\ map_linearizable (history (trace st)).
Proof. exact runs_linearizable. Qed.

(* the lock discipline of the model: two threads are never inside the critical section of one shard *)
Theorem C19_mutex : forall ix n progs st t t' i, reach ix n progs st ->
  holds (t_st (threads st t)) i -> holds (t_st (threads st t')) i -> t = t'.
Proof. intros. eapply runs_mutex; eauto. Qed.

(* ---- 3. Len ---- *)
(* ins / dels count the Store bodies that inserted a new key / the Delete bodies that removed a present
   key; msize tr = ins tr - dels tr is the number of entries after tr: *)
Theorem C19_msize_is_size : forall ix n, (forall k, ix k < n) -> forall progs st, reach ix n progs st ->
  msize (trace st) = cm_len (shards st) /\ has_size (abs (shards st)) (msize (trace st)).
Proof. exact runs_msize. Qed.

(* in EVERY run, a Len invoked after tr1 and returning c after tr2 satisfies
   entries(tr1) - removals in tr2 <= c <= entries(tr1) + insertions in tr2 *)
Theorem C19_len_bounds : forall ix n, (forall k, ix k < n) -> forall progs st, reach ix n progs st ->
  forall tr1 tr2 tr3 id t c, trace st = tr1 ++ MInv id t OLen :: tr2 ++ MRes id OLen (RLen c) :: tr3 ->
    msize tr1 - dels tr2 <= c /\ c <= msize tr1 + ins tr2.
Proof. exact runs_len_bounds. Qed.

(* ---- 4. Range ---- *)
(* in EVERY run, a completed Range (callback f, visited entries vis in order): no key twice; the
   callback is never called again after its first false; and if f never returns false, every entry
   (k,v) present when the Range was invoked and not stored/deleted during it is visited (hence,
   with the first clause, exactly once) *)
Theorem C19_range_once : forall ix n, (forall k, ix k < n) -> forall progs st, reach ix n progs st ->
  forall tr1 tr2 tr3 id t f vis nx,
    trace st = tr1 ++ MInv id t (ORange f) :: tr2 ++ MRes id (ORange f) (RRange vis nx) :: tr3 ->
    NoDup (keys vis) /\ stops_after_false f vis /\
    ((forall l, f l = true) ->
       forall k v, replay tr1 k = Some v -> untouched k tr2 -> In (k, v) vis).
Proof. exact runs_range_once. Qed.

(* replay is the content of the map: it agrees with abs of the shards in every reachable state *)
Theorem C19_replay_is_abs : forall ix n, (forall k, ix k < n) -> forall progs st, reach ix n progs st ->
  forall k, replay (trace st) k = abs (shards st) k.
Proof. intros ix n Hix progs st Hr. apply (B_replay _ _ _ (reach_base ix n Hix progs st Hr)). Qed.

(* NOT proved (stated only): every entry a Range visits was an entry of the map at some instant of the
   Range's interval (no phantom entries); per-thread sequentiality of the history (a thread's next
   invocation follows its previous response) - both hold by construction of the step relation. *)

(* ---- non-vacuity ---- *)
(* 2 shards, thread 0: Store(1,5); Len; Range   thread 1: Load(1); Store(2,7).
   The Store and the Load overlap and the Load sees 5; the Len has read shard 0 when key 2 is inserted
   there, so it returns 1 although 2 entries exist when it returns (1 <= 1 <= 1 + 1 insertion);
   the Range visits both entries. *)
Example C19_nonvacuous :
  (forall k, ex_ix k < 2) /\
  exists st, reach ex_ix 2 ex_progs st /\ trace st = ex_trace /\ cm_len (shards st) = 2 /\
    history (trace st) =
      [EInv 0 0 (MStore 1 5); EInv 1 1 (MLoad 1); ERes 0 MRUnit; ERes 1 (MRVal (Some 5%N));
       EInv 7 1 (MStore 2 7); ERes 7 MRUnit] /\
    In (MRes 6 OLen (RLen 1)) (trace st) /\ msize (firstn 6 ex_trace) = 1 /\ ins (firstn 3 (skipn 7 ex_trace)) = 1.
Proof.
  split; [intro k; apply mod_index_lt; lia|]. destruct ex_run as (st & Hr & Ht & Hm).
  exists st. rewrite Ht, Hm. repeat split; auto. cbn. tauto.
Qed.

(* Tie to the source: the shard count NewConcurrentMap rounds its argument up to (internal.ToBinaryNumber, regenerated
   loop and all from internal/utils.go on every run) is the model's to_binary_number, for every request up to 65536 *)
Theorem C19_shard_count_from_source : forall n : N, (n <= 65536)%N ->
  gf_internal_ToBinaryNumber (Z.of_N n) = Z.of_N (to_binary_number n).
Proof. exact gen_ToBinaryNumber_is. Qed.

(* ... and the shard a key goes to: `hashCode & (c.num - 1)` as regenerated from GetSharding is the model's cm_index *)
Theorem C19_shard_index_from_source : forall (hash : N -> N) num k, (1 <= num < 2 ^ 64)%N ->
  Z.to_nat (gf_gws_ConcurrentMap_GetSharding_index (Z.of_N num) (Z.of_N (hash k))) = cm_index hash num k.
Proof. exact gen_shard_index_is. Qed.

Print Assumptions C19_index_go.
Print Assumptions C19_index_mod.
Print Assumptions C19_refines_map_step.
Print Assumptions C19_refines_map.
Print Assumptions C19_range_seq.
Print Assumptions C19_atomic_points_linearizable.
Print Assumptions C19_linearizable.
Print Assumptions C19_mutex.
Print Assumptions C19_msize_is_size.
Print Assumptions C19_len_bounds.
Print Assumptions C19_range_once.
Print Assumptions C19_replay_is_abs.
Print Assumptions C19_shard_count_from_source.
Print Assumptions C19_shard_index_from_source.
