(* C07 - Callback lifecycle: open first, close once and last, bounded parallelism.
   Proved over the skeleton of ReadLoop (both roles) regenerated from /repo on every run. *)
From Coq Require Import List Bool Arith.
From Gws Require Import Skel.IR Skel.Checker Skel.Monitors Skel.Lifecycle Skel.Obligations Skel.OblLifecycle Skel.Link Skel.GlobalSem.
Import ListNotations.

(* every complete execution of the read loop - however the connection ends: peer close, local close, protocol error,
   transport error are all paths of the skeleton - performs exactly: OnOpen, then any number of OnPing / OnPong /
   OnMessage (sequential handling), then OnClose; and then returns *)
Theorem C07_lifecycle : forall s, In s readers ->
  forall t k, exec s t k -> k <> KB ->
  exists mids, cbs t = CbOpen :: mids ++ [CbClose] /\ Forall is_mid mids.
Proof.
  intros s Hin. destruct skel_ok_lifecycle as [H _]. rewrite forallb_forall in H. exact (lifecycle_complete s (H _ Hin)).
Qed.

(* at every moment of an unfinished execution the callbacks so far are a prefix of that shape: nothing before OnOpen,
   nothing after OnClose, OnOpen and OnClose at most once *)
Theorem C07_lifecycle_prefix : forall s, In s readers ->
  forall p, thread_trace s p -> shape (mrun mcb0 p) (cbs p).
Proof.
  intros s Hin. destruct skel_ok_lifecycle as [H _]. rewrite forallb_forall in H. exact (lifecycle_prefix s (H _ Hin)).
Qed.

(* parallel handling: the read loop starts a handler goroutine only after taking a semaphore slot, one slot per
   goroutine (monitor M_cb: ASpawn requires a pending acquire, ASemAcq requires none pending) - this is the back-pressure;
   and each handler goroutine delivers its message exactly once and releases its slot exactly once, after the handler
   returned (the deferred recovery function runs inside the handler call, before the release) *)
Theorem C07_handlers : forall g, In g handlers ->
  forall t k, exec g t k -> k <> KB ->
  mh_final (run mh mh_step mh0 t) = true.
Proof.
  intros g Hin. destruct skel_ok_handlers as [H _]. rewrite forallb_forall in H.
  exact (check_final mh mh_eqb mh_eqb_spec mh_step h_bad 200 mh_final g mh0 (H _ Hin)).
Qed.

(* the GLOBAL bound: one read loop (thread 0, any program of `readers`) and any number of handler goroutines (programs of
   `handlers`), interleaved in ANY way consistent with the semaphore being a channel of capacity cap (a send is possible
   only while it holds fewer than cap tokens, a receive only while non-empty) and with goroutine creation (a handler's
   first action needs a spawn of the read loop that no other goroutine consumed).  At every moment of every such run the
   number of goroutines that have entered the message callback and not yet released their slot - hence the number inside
   the callback - is at most cap (Config.ParallelGolimit). *)
Theorem C07_parallel_bound : forall (prog : nat -> stmt) cap,
  In (prog 0) readers -> (forall t, t <> 0 -> In (prog t) handlers) ->
  forall tr g, (forall t, thread_trace (prog t) (proj t tr)) ->
  sruns cap s0 tr = Some g -> in_handler g <= cap.
Proof.
  intros prog cap H0 Hh. apply system_handlers_bounded.
  - destruct skel_ok_lifecycle as [H _]. rewrite forallb_forall in H. exact (H _ H0).
  - intros t Ht. destruct skel_ok_handlers as [H _]. rewrite forallb_forall in H. exact (H _ (Hh t Ht)).
Qed.

(* non-vacuity: capacity 2; the read loop takes a slot and spawns three times - the third acquire has to wait until a
   handler released; two handlers are inside the callback at that moment *)
Example C07_parallel_bound_nonvacuous :
  let rd a := (0, a) in
  let tr := [rd (ACb CbOpen); rd ASemAcq; rd ASpawn; rd ASemAcq; rd ASpawn; (1, ACb CbMessage); (2, ACb CbMessage)] in
  (exists g, sruns 2 s0 tr = Some g /\ in_handler g = 2 /\ snobad g)
  /\ sruns 2 s0 (tr ++ [rd ASemAcq]) = None
  /\ (exists g, sruns 2 s0 (tr ++ [(1, ASemRel); rd ASemAcq; rd ASpawn; (3, ACb CbMessage)]) = Some g /\ in_handler g = 2).
Proof.
  cbv zeta. split; [eexists; split; [vm_compute; reflexivity|split; [reflexivity|split; [reflexivity|intro t; do 3 (destruct t as [|t]; [reflexivity|]); reflexivity]]]|].
  split; [vm_compute; reflexivity|]. eexists; split; [vm_compute; reflexivity|reflexivity].
Qed.

Theorem C07_skeleton_obligations :
  (forallb cb_ok readers = true /\ (2 <=? List.length readers) = true)
  /\ (forallb handler_ok handlers = true /\ (1 <=? List.length handlers) = true).
Proof. exact (conj skel_ok_lifecycle skel_ok_handlers). Qed.

Print Assumptions C07_lifecycle.
Print Assumptions C07_lifecycle_prefix.
Print Assumptions C07_handlers.
Print Assumptions C07_skeleton_obligations.
Print Assumptions C07_parallel_bound.
