(* C07 - Callback lifecycle: open first, close once and last, bounded parallelism.
   Proved over the skeleton of ReadLoop (both roles) regenerated from /repo on every run. *)
From Coq Require Import List Bool Arith.
From Gws Require Import Skel.IR Skel.Checker Skel.Monitors Skel.Lifecycle Skel.Obligations.
Import ListNotations.

(* every complete execution of the read loop - however the connection ends: peer close, local close, protocol error,
   transport error are all paths of the skeleton - performs exactly: OnOpen, then any number of OnPing / OnPong /
   OnMessage (sequential handling), then OnClose; and then returns *)
Theorem C07_lifecycle : forall s, In s readers ->
  forall t k, exec s t k -> k <> KB ->
  exists mids, cbs t = CbOpen :: mids ++ [CbClose] /\ Forall is_mid mids.
Proof.
  intros s Hin. destruct skel_ok_lifecycle as [H _]. rewrite forallb_forall in H. exact (lifecycle_complete s (H _ Hin)).
Qed.

(* at every moment of an unfinished execution the callbacks so far are a prefix of that shape: nothing before OnOpen,
   nothing after OnClose, OnOpen and OnClose at most once *)
Theorem C07_lifecycle_prefix : forall s, In s readers ->
  forall p, thread_trace s p -> shape (mrun mcb0 p) (cbs p).
Proof.
  intros s Hin. destruct skel_ok_lifecycle as [H _]. rewrite forallb_forall in H. exact (lifecycle_prefix s (H _ Hin)).
Qed.

(* parallel handling: the read loop starts a handler goroutine only after taking a semaphore slot, one slot per
   goroutine (monitor M_cb: ASpawn requires a pending acquire, ASemAcq requires none pending) - this is the back-pressure;
   and each handler goroutine delivers its message exactly once and releases its slot exactly once, after the handler
   returned (the deferred recovery function runs inside the handler call, before the release) *)
Theorem C07_handlers : forall g, In g handlers ->
  forall t k, exec g t k -> k <> KB ->
  mh_final (run mh mh_step mh0 t) = true.
Proof.
  intros g Hin. destruct skel_ok_handlers as [H _]. rewrite forallb_forall in H.
  exact (check_final mh mh_eqb mh_eqb_spec mh_step h_bad 200 mh_final g mh0 (H _ Hin)).
Qed.

Theorem C07_skeleton_obligations :
  (forallb cb_ok readers = true /\ (2 <=? List.length readers) = true)
  /\ (forallb handler_ok handlers = true /\ (1 <=? List.length handlers) = true).
Proof. exact (conj skel_ok_lifecycle skel_ok_handlers). Qed.

Print Assumptions C07_lifecycle.
Print Assumptions C07_lifecycle_prefix.
Print Assumptions C07_handlers.
Print Assumptions C07_skeleton_obligations.
