(* C08 - Concurrent writers never corrupt or interleave frames on the wire.
   Schedule-quantified clauses, proved over the concurrency skeleton regenerated from /repo on every run:
   for ANY number of goroutines running ANY mix of the write APIs (and the read loop) on one connection, in ANY
   interleaving consistent with the mutexes and the atomic closed flag. *)
From Coq Require Import List Bool Arith.
From Gws Require Import Skel.IR Skel.Checker Skel.Monitors Skel.GlobalClose Skel.GlobalGuard Skel.Link Skel.Obligations Skel.OblClose Skel.OblFrame Skel.OblLock Skel.OblMisc Gen.Skel.
Import ListNotations.

(* every frame that reaches the transport is written by the thread that owns Conn.mu at that moment *)
Theorem C08_wire_by_owner : forall prog : nat -> stmt,
  (forall t, In (prog t) conn_programs) ->
  forall tr1 t a tr2 g, (forall t', thread_trace (prog t') (proj t' (tr1 ++ (t, a) :: tr2))) ->
  gruns g0 (ctrace (tr1 ++ (t, a) :: tr2)) = Some g ->
  (abs_close a = CData \/ abs_close a = CClose) ->
  exists g1, gruns g0 (ctrace tr1) = Some g1 /\ owner g1 = Some t.
Proof.
  intros prog Hin. apply system_wire_by_owner. intro t.
  pose proof skel_ok_close as H. rewrite forallb_forall in H. exact (H _ (Hin t)).
Qed.

(* ... and one call writes all its data frames inside ONE critical section (monitor M_frame: a data frame in a second
   critical section of the same call is Bad).  With C08_wire_by_owner: while that section lasts every frame on the wire
   is this call's, so the frames of a message - in particular of a streamed one - are contiguous; with C05
   (each Write call carries exactly one whole frame) the wire is a concatenation of whole frames. *)
Theorem C08_single_critical_section : forall s, In s conn_programs ->
  forall p, thread_trace s p -> f_bad (run mframe mframe_step mframe0 p) = false.
Proof.
  intros s Hin. pose proof skel_ok_frame as H. rewrite forallb_forall in H.
  exact (check_sound mframe mframe_eqb mframe_eqb_spec mframe_step f_bad mframe_bad_abs 200 (fun _ => true) s mframe0 (H _ Hin)).
Qed.

(* data-race freedom of the library's shared state: every access to a lock-guarded field (compression window,
   compressor, inflater state, async queue, map shards, session map) is made by the current owner of its guard, in
   every interleaving; fields confined to the read loop are touched by no other thread (M_lock, mode MOther). *)
Theorem C08_guarded_accesses : forall (prog : nat -> stmt) (mode : nat -> lmode),
  (forall t, In (mode t, prog t) lock_programs) ->
  forall tr1 t f w tr2 g l, (forall t', thread_trace (prog t') (proj t' (tr1 ++ (t, AAcc f w) :: tr2))) ->
  lruns mode ls0 (tr1 ++ (t, AAcc f w) :: tr2) = Some g ->
  mode t <> MConstruct -> guard_of f = GLock l ->
  exists g1, lruns mode ls0 tr1 = Some g1 /\ lowner g1 l = Some t.
Proof.
  intros prog mode Hin. apply system_guarded. intro t.
  pose proof skel_ok_lock as H. rewrite forallb_forall in H. exact (H _ (Hin t)).
Qed.

Theorem C08_skeleton_obligations :
  forallb close_ok conn_programs = true /\ forallb frame_ok conn_programs = true
  /\ forallb (fun p => lock_ok (fst p) (snd p)) lock_programs = true /\ translator_unknowns = 0.
Proof. exact (conj skel_ok_close (conj skel_ok_frame (conj skel_ok_lock translator_understood_everything))). Qed.

Print Assumptions C08_wire_by_owner.
Print Assumptions C08_single_critical_section.
Print Assumptions C08_guarded_accesses.
Print Assumptions C08_skeleton_obligations.
