(* C01 - End-to-end message fidelity, exactly-once delivery and ordering (one direction of a connection; the other
   direction is the same theorem with the roles exchanged, since it quantifies over both roles). *)
From Gws Require Import Lib.Base Spec.Rfc6455 Model.Header Model.Writer Model.Window Model.Reader Model.EndToEnd
  Proofs.WriterProofs Proofs.WindowProofs Proofs.EndToEndProofs Proofs.ReaderProofs Proofs.StreamFidelity.
Local Open Scope N_scope.

Section C01.
Variable utf8_valid : list N -> bool.
Variable deflate_raw : list N -> list N -> list N.
Variable inflate : list N -> list N -> Z -> option (list N).
Hypothesis deflate_wf : forall d p, wf_bytes (deflate_raw d p).
Hypothesis deflate_small : forall d p, (Z.of_nat (length (deflate_raw d p)) < 2 ^ 63)%Z.
Hypothesis H_flate : forall d p lim, (Z.of_nat (length p) <= lim)%Z ->
  inflate d (strip_tail (deflate_raw d p) ++ flate_tail9) lim = Some p.

(* For every sequence of text/binary messages - with pings and pongs carrying payloads interleaved - (any lengths from 0 up to the limits - every length-encoding boundary -,
   any contents, one or several slices), any sender configuration (role, compression negotiated or not, any
   threshold, any window size / takeover via the window value ws) and a receiver of the opposite role with the same
   negotiated compression and a read limit the messages fit: the bytes produced by the sender's write path, fed to the
   receiver's read loop, make it deliver exactly those messages - same opcode, byte-identical payload, once each, in
   order - and then wait for more; both compression windows are equal again at the end. *)
Theorem C01_fidelity : forall c rc,
  r_server rc = negb (w_server c) -> r_pmd rc = w_pmd c -> limit_ok rc ->
  forall ops ws hist st bs w fuel,
  Forall (msg_ok utf8_valid deflate_raw rc) ops -> win_inv ws hist ->
  r_dps _ st = ws -> cf_init _ st = false ->
  send_all utf8_valid deflate_raw c ws ops = Some (bs, w) -> (length bs < fuel)%nat ->
  exists st', read_stream utf8_valid inflate window sw_dict wwrite_total fuel rc st bs = (delivered ops, OMore _ st' false)
              /\ r_dps _ st' = w /\ cf_init _ st' = false.
Proof. exact (fidelity utf8_valid deflate_raw inflate deflate_wf deflate_small H_flate). Qed.

(* Streamed sends (WriteFile), permessage-deflate off: whatever the io.Reader returns per Read call (`reads`: any
   chunk sizes, empty chunks included, ending with the chunk that comes with io.EOF), the frames split_reader writes -
   first frame with the opcode, continuation frames, FIN on the last - fed to the peer's read loop deliver exactly ONE
   message, same opcode, payload = the concatenation of the chunks in order. *)
Theorem C01_stream_plain : forall c rc op reads keys frs st fuel,
  r_server rc = negb (w_server c) -> w_pmd c = false -> limit_ok rc -> cf_init window st = false ->
  (op = 1 \/ op = 2) -> reads_ok c reads keys ->
  split_reader utf8_valid deflate_raw c op 0 reads keys = (frs, FOk) ->
  (Z.of_nat (length (reads_payload reads)) <= r_limit rc)%Z ->
  (r_utf8 rc && (op =? 1) && negb (utf8_valid (reads_payload reads))) = false ->
  (length (concat frs) < fuel)%nat ->
  exists st', read_stream utf8_valid inflate window sw_dict wwrite_total fuel rc st (concat frs)
              = ([EvMsg op (reads_payload reads)], OMore window st' false).
Proof. exact (stream_fidelity_plain utf8_valid deflate_raw inflate). Qed.

(* Streamed sends with permessage-deflate: the compressor's output for the payload (preset dictionary = the window,
   equal on both sides by C02_dict_is_history), handed to flateWriter in ANY sequence of Write calls, cut by it into
   segments, framed (RSV1 on the first frame only) and read by the peer: exactly one message, the payload itself, and
   the receiver's window advances by the payload. *)
Theorem C01_stream_compressed : forall rc op server payload writes segs keys st fuel,
  r_server rc = negb server -> r_pmd rc = true -> limit_ok rc -> cf_init window st = false ->
  (op = 1 \/ op = 2) ->
  concat writes = deflate_raw (sw_dict (r_dps window st)) payload ->
  fw_run {| fw_index := 0; fw_buffers := [] |} writes = Some segs ->
  (length segs <= length keys)%nat -> Forall (fun k => length k = 4%nat /\ wf_bytes k) keys ->
  (Z.of_nat (length payload) <= r_limit rc)%Z ->
  (Z.of_nat (length (strip_tail (concat writes))) <= r_limit rc)%Z ->
  (r_utf8 rc && (op =? 1) && negb (utf8_valid payload)) = false ->
  let wire := concat (map (encode_frame LShortest) (file_frames server true op 0 (seg_reads segs) keys)) in
  (length wire < fuel)%nat ->
  exists st', read_stream utf8_valid inflate window sw_dict wwrite_total fuel rc st wire = ([EvMsg op payload], OMore window st' false)
              /\ r_dps window st' = wwrite_total (r_dps window st) payload.
Proof. exact (stream_fidelity_compressed utf8_valid deflate_raw inflate deflate_wf H_flate). Qed.

(* Broadcasts mixed with direct sends on one connection, in ANY order.  A broadcast frame is built once by the first
   connection cg of the compression class (same role and same negotiated compression as this connection c; cg's own
   threshold, limit and UTF-8 setting decide how it is built), WITHOUT a dictionary, and the same bytes go out on c;
   c's window takes the payload when the frame is compressed, and so does the peer's.  The peer inflates with its
   current history as dictionary - harmless because a DEFLATE stream produced without a preset dictionary refers to
   nothing before its start; that fact about the flate library is the extra oracle assumption H_flate_nodict. *)
Hypothesis H_flate_nodict : forall d p lim, (Z.of_nat (length p) <= lim)%Z ->
  inflate d (strip_tail (deflate_raw [] p) ++ flate_tail9) lim = Some p.

Theorem C01_fidelity_mixed : forall c rc,
  r_server rc = negb (w_server c) -> r_pmd rc = w_pmd c -> limit_ok rc ->
  forall l ws hist st bs w fuel,
  Forall (send_ok utf8_valid deflate_raw c rc) l -> win_inv ws hist ->
  r_dps _ st = ws -> cf_init _ st = false ->
  send_mixed utf8_valid deflate_raw c ws l = Some (bs, w) -> (length bs < fuel)%nat ->
  exists st', read_stream utf8_valid inflate window sw_dict wwrite_total fuel rc st bs = (delivered_mixed l, OMore _ st' false)
              /\ r_dps _ st' = w /\ cf_init _ st' = false.
Proof. exact (fidelity_mixed utf8_valid deflate_raw inflate deflate_wf deflate_small H_flate H_flate_nodict). Qed.
End C01.

(* How the remaining clauses are covered:
   - any splitting of the byte stream into network reads: the reader model is a function of the byte string (harness varies chunking);
   - broadcasts: C01_fidelity_mixed above;
   - streamed sends: C01_stream_plain / C01_stream_compressed above (built on C05_stream_frames, C05_flate_segments and
     the fragment theorem C03_fragmented_message);
   - asynchronous API: tasks of one goroutine start in submission order and never overlap (C15_fifo, C15_mutual_exclusion),
     and each task writes its frame before returning (skeleton), so they reach the wire in queueing order;
   - concurrent senders: C08_wire_by_owner + C08_single_critical_section reduce any interleaving to some sequential order of whole messages;
   - parallel handling: each message handed to a handler goroutine exactly once (C07_handlers). *)

Example C01_nonvacuous :
  let c := {| w_server := false; w_pmd := false; w_threshold := 512; w_wlimit := 1000; w_utf8 := false |} in
  let rc := {| r_server := true; r_pmd := false; r_limit := 1000; r_utf8 := false |} in
  let ops : list sop := [(1, [[104; 105]], [1; 2; 3; 4]); (2, [[]; [0; 255]], [9; 9; 9; 9]); (2, [], [5; 6; 7; 8])] in
  match send_all (fun _ => true) (fun _ p => p) c sw_disabled ops with
  | Some (bs, _) => fst (recv_all (fun _ => true) (fun _ _ _ => None) rc sw_disabled bs) = [EvMsg 1 [104; 105]; EvMsg 2 [0; 255]; EvMsg 2 []]
  | None => False
  end.
Proof. vm_compute. reflexivity. Qed.

(* a streamed send of three chunks (the middle one empty) from a client: three frames, one message *)
Example C01_stream_nonvacuous :
  let c := {| w_server := false; w_pmd := false; w_threshold := 512; w_wlimit := 1000; w_utf8 := false |} in
  let rc := {| r_server := true; r_pmd := false; r_limit := 1000; r_utf8 := false |} in
  let reads := [([104; 105], false); ([], false); ([33], true)] in
  match split_reader (fun _ => true) (fun _ p => p) c 1 0 reads [[1; 2; 3; 4]; [5; 6; 7; 8]; [9; 9; 9; 9]] with
  | (frs, FOk) => length frs = 3%nat /\ fst (recv_all (fun _ => true) (fun _ _ _ => None) rc sw_disabled (concat frs)) = [EvMsg 1 [104; 105; 33]]
  | _ => False
  end.
Proof. vm_compute. split; reflexivity. Qed.

(* a broadcast between two direct sends, server side *)
Example C01_mixed_nonvacuous :
  let c := {| w_server := true; w_pmd := false; w_threshold := 512; w_wlimit := 1000; w_utf8 := false |} in
  let cg := {| w_server := true; w_pmd := false; w_threshold := 8; w_wlimit := 500; w_utf8 := true |} in
  let rc := {| r_server := false; r_pmd := false; r_limit := 1000; r_utf8 := false |} in
  let l := [SDirect (1, [[104; 105]], [0; 0; 0; 0]); SBroadcast cg 2 [7; 7; 7] [0; 0; 0; 0]; SDirect (9, [[1]], [0; 0; 0; 0])] in
  match send_mixed (fun _ => true) (fun _ p => p) c sw_disabled l with
  | Some (bs, _) => fst (recv_all (fun _ => true) (fun _ _ _ => None) rc sw_disabled bs) = [EvMsg 1 [104; 105]; EvMsg 2 [7; 7; 7]; EvPing [1]]
  | None => False
  end.
Proof. vm_compute. reflexivity. Qed.

Print Assumptions C01_fidelity.
Print Assumptions C01_fidelity_mixed.
Print Assumptions C01_stream_plain.
Print Assumptions C01_stream_compressed.
