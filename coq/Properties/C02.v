(* C02 - permessage-deflate context stays in sync with an RFC 7692 peer.
   Sender model: doWrite of Model/Writer.v with the REAL window model of Model/Window.v (slideWindow.Write, C17).
   The LZ77 encoder is a parameter (deflate_raw: whatever flate.Writer emits for a dictionary and a payload). *)
From Gws Require Import Lib.Base Spec.Rfc6455 Model.Header Model.Writer Model.Window Model.Reader Model.EndToEnd
  Proofs.WriterProofs Proofs.WindowProofs Proofs.EndToEndProofs Proofs.ReaderProofs.
Local Open Scope N_scope.

Section C02.
Variable utf8_valid : list N -> bool.
Variable deflate_raw : list N -> list N -> list N.
Variable inflate : list N -> list N -> Z -> option (list N).
Hypothesis deflate_wf : forall d p, wf_bytes (deflate_raw d p).
Hypothesis deflate_small : forall d p, (Z.of_nat (length (deflate_raw d p)) < 2 ^ 63)%Z.

(* After ANY history of sends through the buffered write path - data messages above or below the threshold, text or
   binary, pings and pongs carrying payloads, in any order - the compression window holds exactly the last 2^bits bytes
   of the payloads of the messages that were sent COMPRESSED (RSV1), and nothing else: control-frame payloads and
   uncompressed messages do not enter it (they did before fix 0eb4270: findings D2, D8).  A disabled window (no
   context takeover) stays empty.  The dictionary handed to the compressor for the next message is sw_dict of that window. *)
Theorem C02_dict_is_history : forall c ops w0 h0 bs w,
  Forall (fun o : sop => let '(op, slices, key) := o in
            op < 16 /\ length key = 4%nat /\ wf_bytes key /\ wf_bytes (concat slices) /\ (Z.of_nat (length (concat slices)) < 2 ^ 63)%Z) ops ->
  win_inv w0 h0 -> send_all utf8_valid deflate_raw c w0 ops = Some (bs, w) ->
  win_inv w (h0 ++ compressed_history utf8_valid deflate_raw c w0 ops) /\ sw_enabled w = sw_enabled w0 /\ sw_size w = sw_size w0.
Proof. exact (dict_is_history utf8_valid deflate_raw deflate_wf deflate_small). Qed.

(* what a compressed frame carries: the compressor's output for (window contents, payload) minus the 00 00 ff ff tail
   (RFC 7692 7.2.1), marked RSV1; an uncompressed one carries the payload itself and leaves the window untouched *)
Theorem C02_frame_contents : forall c w op slices key fr w',
  op < 16 -> length key = 4%nat -> wf_bytes key -> wf_bytes (concat slices) ->
  (Z.of_nat (length (concat slices)) < 2 ^ 63)%Z ->
  send_one utf8_valid deflate_raw c w op slices key = (Some fr, w', WOk) ->
  exists rsv1 payload,
    fr = encode_frame LShortest (out_frame (w_server c) true rsv1 op key payload)
    /\ is_compressed_frame fr = rsv1 /\ wf_bytes payload
    /\ (rsv1 = false -> payload = concat slices /\ w' = w)
    /\ (rsv1 = true -> w_pmd c = true /\ is_data op = true
                       /\ payload = strip_tail (deflate_raw (sw_dict w) (concat slices))
                       /\ w' = fold_left wwrite_total slices w).
Proof. exact (send_one_shape utf8_valid deflate_raw deflate_wf deflate_small). Qed.

(* the receiving side keeps the same window (histories may interleave pings/pongs with payloads, which are delivered to
   OnPing/OnPong and touch neither window): under the inflate/deflate round-trip hypothesis the reader model, started
   with a window equal to the sender's, delivers every message intact and ends with a window equal to the sender's *)
Hypothesis H_flate : forall d p lim, (Z.of_nat (length p) <= lim)%Z ->
  inflate d (strip_tail (deflate_raw d p) ++ flate_tail9) lim = Some p.

Theorem C02_windows_agree : forall c rc,
  r_server rc = negb (w_server c) -> r_pmd rc = w_pmd c -> limit_ok rc ->
  forall ops ws hist st bs w fuel,
  Forall (msg_ok utf8_valid deflate_raw rc) ops -> win_inv ws hist ->
  r_dps _ st = ws -> cf_init _ st = false ->
  send_all utf8_valid deflate_raw c ws ops = Some (bs, w) -> (length bs < fuel)%nat ->
  exists st', read_stream utf8_valid inflate window sw_dict wwrite_total fuel rc st bs = (delivered ops, OMore _ st' false)
              /\ r_dps _ st' = w /\ cf_init _ st' = false.
Proof. exact (fidelity utf8_valid deflate_raw inflate deflate_wf deflate_small H_flate). Qed.

(* Broadcasts share one frame among connections, so it is compressed WITHOUT a dictionary; each connection's window
   still takes the payload (the peer's inflater sees it as history).  Over any mix of direct sends and broadcasts the
   window is the suffix of everything that went out compressed ... *)
Theorem C02_dict_is_history_mixed : forall c l w0 h0 bs w,
  Forall send_wf l -> win_inv w0 h0 -> send_mixed utf8_valid deflate_raw c w0 l = Some (bs, w) ->
  win_inv w (h0 ++ compressed_history_mixed utf8_valid deflate_raw c w0 l) /\ sw_enabled w = sw_enabled w0 /\ sw_size w = sw_size w0.
Proof. exact (dict_is_history_mixed utf8_valid deflate_raw deflate_wf deflate_small). Qed.

(* ... and the peer's window stays equal to it (H_flate_nodict: a stream made without a dictionary inflates to the
   same bytes whatever dictionary the inflater holds) *)
Hypothesis H_flate_nodict : forall d p lim, (Z.of_nat (length p) <= lim)%Z ->
  inflate d (strip_tail (deflate_raw [] p) ++ flate_tail9) lim = Some p.

Theorem C02_windows_agree_mixed : forall c rc,
  r_server rc = negb (w_server c) -> r_pmd rc = w_pmd c -> limit_ok rc ->
  forall l ws hist st bs w fuel,
  Forall (send_ok utf8_valid deflate_raw c rc) l -> win_inv ws hist ->
  r_dps _ st = ws -> cf_init _ st = false ->
  send_mixed utf8_valid deflate_raw c ws l = Some (bs, w) -> (length bs < fuel)%nat ->
  exists st', read_stream utf8_valid inflate window sw_dict wwrite_total fuel rc st bs = (delivered_mixed l, OMore _ st' false)
              /\ r_dps _ st' = w /\ cf_init _ st' = false.
Proof. exact (fidelity_mixed utf8_valid deflate_raw inflate deflate_wf deflate_small H_flate H_flate_nodict). Qed.
End C02.

(* window updates by segments equal one update by the whole (streamed sends, vectored sends): C17_compose lifted *)
Theorem C02_segmented_updates : forall slices w hist, win_inv w hist ->
  fold_left wwrite_total slices w = wwrite_total w (concat slices).
Proof. exact fold_wwrite_concat. Qed.

(* non-vacuity: takeover window of 16 bytes, threshold 0: ping payload does not enter the window, two data messages do *)
Example C02_nonvacuous :
  let c := {| w_server := true; w_pmd := true; w_threshold := 0; w_wlimit := 1000; w_utf8 := false |} in
  let ops : list sop := [(2, [[1; 2; 3]], [0; 0; 0; 0]); (9, [[9; 9; 9; 9]], [0; 0; 0; 0]); (2, [[4; 5]; [6]], [0; 0; 0; 0])] in
  match send_all (fun _ => true) (fun _ p => p ++ [0; 0; 255; 255]) c (sw_make 16) ops with
  | Some (_, w) => sw_dict w = [1; 2; 3; 4; 5; 6]
  | None => False
  end.
Proof. vm_compute. reflexivity. Qed.

(* a broadcast (compressed with no dictionary) between two direct sends: all three payloads are in the window *)
Example C02_mixed_nonvacuous :
  let c := {| w_server := true; w_pmd := true; w_threshold := 0; w_wlimit := 1000; w_utf8 := false |} in
  let l := [SDirect (2, [[1; 2; 3]], [0; 0; 0; 0]); SBroadcast c 2 [7; 8] [0; 0; 0; 0]; SDirect (2, [[4; 5]; [6]], [0; 0; 0; 0])] in
  match send_mixed (fun _ => true) (fun _ p => p ++ [0; 0; 255; 255]) c (sw_make 16) l with
  | Some (_, w) => sw_dict w = [1; 2; 3; 7; 8; 4; 5; 6]
  | None => False
  end.
Proof. vm_compute. reflexivity. Qed.

Print Assumptions C02_dict_is_history.
Print Assumptions C02_dict_is_history_mixed.
Print Assumptions C02_windows_agree_mixed.
Print Assumptions C02_frame_contents.
Print Assumptions C02_windows_agree.
Print Assumptions C02_segmented_updates.
