(* C05 placeholder: statements follow *)
From Gws Require Import Lib.Base.
Theorem C05_placeholder : True. Proof. exact I. Qed.
Print Assumptions C05_placeholder.
