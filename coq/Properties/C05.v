(* C05 - Outbound bytes are a sequence of well-formed RFC 6455 frames.
   Statements only; every theorem is closed by a lemma of Proofs/WriterProofs.v or Proofs/FrameProofs.v.
   The deflate encoder is a parameter: `deflate_raw dict payload` is whatever flate.Writer emits after
   ResetDict/Write/Flush; the only facts assumed about it are that it returns bytes and fewer than 2^63 of them. *)
From Gws Require Import Lib.Base Spec.MaskSpec Spec.Rfc6455 Model.Mask Model.Header Model.Writer Model.CloseCode
  Proofs.FrameProofs Proofs.WriterProofs Proofs.CloseFrameProofs Gen.Funcs Proofs.GenHeaderProofs Proofs.GenWriterProofs.
Local Open Scope N_scope.

Section C05.
Variable utf8_valid : list N -> bool.
Variable deflate_raw : list N -> list N -> list N.
Hypothesis deflate_wf : forall d p, wf_bytes (deflate_raw d p).
Hypothesis deflate_small : forall d p, (Z.of_nat (length (deflate_raw d p)) < 2 ^ 63)%Z.

(* Whatever genFrame returns, for every role, opcode, flag combination, mask key, payload (of any length
   below 2^63, i.e. every length-encoding boundary) and compression setting, the INDEPENDENT decoder of
   Spec/Rfc6455.v reads back exactly one frame followed by the untouched rest: shortest length form,
   mask bit and key iff the sender is a client, RSV2/RSV3 clear, RSV1 only when the payload is the
   compressor's output (data opcodes only), and the unmasked payload equal to what was asked. *)
Theorem C05_decode_gen : forall c op slices fc key dict bytes rest,
  op < 16 -> length key = 4%nat -> wf_bytes key -> wf_bytes (concat slices) ->
  (Z.of_nat (length (concat slices)) < 2 ^ 63)%Z ->
  gen_frame utf8_valid deflate_raw c op slices fc key dict = GFrame bytes ->
  exists rsv1 payload,
    decode_frame (bytes ++ rest)
      = DFrame {| f_fin := fc_fin fc; f_rsv1 := rsv1; f_rsv2 := false; f_rsv3 := false; f_op := op;
                  f_masked := negb (w_server c); f_key := if w_server c then [] else key; f_payload := payload |}
               true rest
    /\ (rsv1 = false -> payload = concat slices)
    /\ (rsv1 = true -> fc_compress fc = true /\ is_data op = true
                      /\ payload = strip_tail (deflate_raw (if fc_broadcast fc then [] else dict) (concat slices))).
Proof. exact (decode_gen_frame utf8_valid deflate_raw deflate_wf deflate_small). Qed.

(* ... and that frame passes the outbound well-formedness predicate of the spec (control frames: FIN, <= 125 bytes, no RSV1) *)
Theorem C05_outbound_wf : forall c op slices fc key dict bytes rest,
  op_known op = true -> length key = 4%nat -> wf_bytes key -> wf_bytes (concat slices) ->
  (Z.of_nat (length (concat slices)) < 2 ^ 63)%Z ->
  (is_control op = true -> fc_fin fc = true /\ (length (concat slices) <= 125)%nat) ->
  gen_frame utf8_valid deflate_raw c op slices fc key dict = GFrame bytes ->
  exists f, decode_frame (bytes ++ rest) = DFrame f true rest /\ outbound_wf (w_server c) f true = true.
Proof. exact (gen_frame_outbound_wf utf8_valid deflate_raw deflate_wf deflate_small). Qed.

(* every buffered write API (WriteMessage, WriteString, Writev, Write*Async, ping/pong; doWrite) hands the transport
   exactly one complete frame with FIN set, in one Write call *)
Theorem C05_do_write_one_frame : forall (W : Type) (wdict : W -> list N) (wwrite : W -> list N -> W)
  c closed w op slices key fr w' rest,
  op < 16 -> length key = 4%nat -> wf_bytes key -> wf_bytes (concat slices) ->
  (Z.of_nat (length (concat slices)) < 2 ^ 63)%Z ->
  do_write utf8_valid deflate_raw W wdict wwrite c closed w op slices key = (Some fr, w', WOk) ->
  exists f, decode_frame (fr ++ rest) = DFrame f true rest /\ f_fin f = true /\ f_op f = op.
Proof.
  intros W wdict wwrite c closed w op slices key fr w' rest Hop Hk Hkw Hp Hn H.
  unfold do_write in H. destruct (negb (op =? 8) && closed); [discriminate|].
  destruct (gen_frame _ _ _ _ _ _ _ _) as [b| | |] eqn:E; try discriminate.
  injection H as <- _.
  destruct (decode_gen_frame utf8_valid deflate_raw deflate_wf deflate_small _ _ _ _ _ _ _ rest Hop Hk Hkw Hp Hn E)
    as (rsv1 & payload & Hd & _).
  eexists. split; [exact Hd|]. split; reflexivity.
Qed.

(* the Close frames gws originates itself - WriteClose with any code and reason, and emitError after a transport fault or
   a violation by the peer, whatever the length of the error text - are well-formed control frames: FIN set, at most
   125 payload bytes in the 7-bit length form, no reserved bit, masked iff sent by a client *)
Theorem C05_local_close_frame : forall c code reason fc key dict bytes rest,
  code < 2 ^ 16 -> wf_bytes reason -> fc_fin fc = true -> length key = 4%nat -> wf_bytes key ->
  gen_frame utf8_valid deflate_raw c 8 [local_close_body code reason] fc key dict = GFrame bytes ->
  exists f, decode_frame (bytes ++ rest) = DFrame f true rest /\ outbound_wf (w_server c) f true = true /\ f_op f = 8.
Proof. exact (local_close_frame_wf utf8_valid deflate_raw deflate_wf deflate_small). Qed.

Theorem C05_error_close_frame : forall c reading e text fc key dict bytes rest,
  0 < emit_error_status reading e < 2 ^ 16 -> wf_bytes text -> fc_fin fc = true -> length key = 4%nat -> wf_bytes key ->
  gen_frame utf8_valid deflate_raw c 8 [error_close_body reading e text] fc key dict = GFrame bytes ->
  exists f, decode_frame (bytes ++ rest) = DFrame f true rest /\ outbound_wf (w_server c) f true = true /\ f_op f = 8.
Proof. exact (error_close_frame_wf utf8_valid deflate_raw deflate_wf deflate_small). Qed.

(* Tie to the source: genFrame and doWrite of the model, written with the conditions regenerated from writer.go on every
   run (text gate, write limit, compress decision; closed test for non-Close opcodes; window updated iff the frame that
   went out is compressed) *)
Theorem C05_gen_frame_from_source : forall c op slices fc key dict,
  let payload := concat slices in
  let n := Z.of_nat (length payload) in
  gen_frame utf8_valid deflate_raw c op slices fc key dict
  = if gf_gws_Conn_genFrame_cond1 (payload_check utf8_valid (fc_check fc) op slices) (Z.of_N op) then GErrEncoding
    else if gf_gws_Conn_genFrame_cond2 (w_wlimit c) n then GErrTooLarge
    else if gf_gws_Conn_genFrame_cond3 (w_threshold c) (fc_compress fc) n (Z.of_N op) then compress_data deflate_raw c op payload fc key dict
    else backfill (w_server c) (generate_header (w_server c) (fc_fin fc) false op n key) key (repeat 0%N header_size ++ payload).
Proof. exact (gen_frame_from_source utf8_valid deflate_raw unit (fun w _ => w)). Qed.

Theorem C05_do_write_from_source : forall (W : Type) (wdict : W -> list N) (wwrite : W -> list N -> W) c closed w op slices key,
  do_write utf8_valid deflate_raw W wdict wwrite c closed w op slices key
  = if gf_gws_Conn_doWrite_cond1 closed (Z.of_N op) then (None, w, WErrClosed) else
    match gen_frame utf8_valid deflate_raw c op slices {| fc_fin := true; fc_compress := w_pmd c; fc_broadcast := false; fc_check := w_utf8 c |} key (wdict w) with
    | GFrame fr => (Some fr, (if gf_gws_Conn_doWrite_cond3 (is_compressed_frame fr) then fold_left wwrite slices w else w), WOk)
    | GErrEncoding => (None, w, WErrEncoding)
    | GErrTooLarge => (None, w, WErrTooLarge)
    | GPanic => (None, w, WPanic)
    end.
Proof. exact (do_write_from_source utf8_valid deflate_raw). Qed.
End C05.

(* streamed sends (WriteFile without compression): for EVERY sequence of reader results the frames are the RFC
   encodings of: first frame with the message opcode (RSV1 iff compression was negotiated), continuation frames
   after it, FIN exactly on the frame that carried EOF *)
Theorem C05_stream_frames : forall utf8_valid deflate_raw c op, op < 16 -> forall reads index keys frs,
  reads_ok c reads keys ->
  split_reader utf8_valid deflate_raw c op index reads keys = (frs, FOk) ->
  frs = map (encode_frame LShortest) (file_frames (w_server c) (w_pmd c) op index reads keys)
  /\ exists k, (k < length reads)%nat /\ snd (nth k reads ([], false)) = true
               /\ forall j, (j < k)%nat -> snd (nth j reads ([], false)) = false.
Proof. exact split_reader_frames. Qed.

(* ... and that frame list is exactly ONE message whose payload is the concatenation of everything read *)
Theorem C05_stream_one_message : forall server pmd op reads keys,
  (op = 1 \/ op = 2) -> reads_terminated reads = true ->
  exists k, group_messages None (file_frames server pmd op 0 reads keys) = Some [WData op pmd (reads_payload reads) k].
Proof. exact (file_frames_one_message (fun _ => true) (fun _ _ => [])). Qed.

(* compressed streamed sends: for EVERY way the compressor cuts its output into Write calls, the segments that
   flateWriter hands to the frame callback are numbered 0,1,2.., only the last one is final, and concatenated they are
   the compressed stream with the 00 00 ff ff sync-flush tail removed (RFC 7692 7.2.1) *)
Theorem C05_flate_segments : forall writes segs,
  fw_run {| fw_index := 0; fw_buffers := [] |} writes = Some segs ->
  concat (map snd segs) = strip_tail (concat writes)
  /\ map (fun x => fst (fst x)) segs = seq 0 (length segs)
  /\ exists init lst, segs = init ++ [lst] /\ snd (fst lst) = true /\ Forall (fun x => snd (fst x) = false) init.
Proof.
  intros writes segs H. split.
  - rewrite (fw_run_concat _ _ _ H). reflexivity.
  - exact (fw_run_shape _ _ _ H).
Qed.

(* the spec decoder inverts the spec encoder for every frame and every length form a peer may choose *)
(* ... and so a compressed streamed send is ONE message on the wire whatever the compressor's write pattern: the frames
   built from those segments regroup (under the RFC 6455 fragmentation grammar) into a single compressed data message
   whose payload is the compressor's output without the trailing 00 00 ff ff *)
Theorem C05_stream_compressed : forall server pmd op writes segs keys,
  (op = 1 \/ op = 2) ->
  fw_run {| fw_index := 0; fw_buffers := [] |} writes = Some segs ->
  exists k, group_messages None (file_frames server pmd op 0 (seg_reads segs) keys)
            = Some [WData op pmd (strip_tail (concat writes)) k].
Proof. exact compressed_stream_one_message. Qed.

Theorem C05_spec_roundtrip : forall lf f rest,
  frame_wf f -> lenform_ok lf (N.of_nat (length (f_payload f))) -> N.of_nat (length (f_payload f)) < 2 ^ 63 ->
  decode_frame (encode_frame lf f ++ rest) = DFrame f (minimal_of lf (N.of_nat (length (f_payload f)))) rest.
Proof. exact decode_encode. Qed.

(* Tie to the source: the branch structure of frameHeader.SetLength (thresholds 125 / 65535, the comparison operators, the
   number of extension bytes) and Opcode.isDataFrame, as regenerated from types.go on every run, are the model's *)
Theorem C05_header_writer_from_source : forall n op,
  gf_gws_frameHeader_SetLength (Z.of_N n) = Z.of_nat (length (snd (set_length n)))
  /\ gf_gws_Opcode_isDataFrame (Z.of_N op) = is_data op.
Proof. exact header_writer_from_source. Qed.

(* ... the first header byte GenerateHeader stores (opcode, +128 for FIN, +64 for a compressed frame, in uint8), regenerated
   from types.go, is the first byte of the model's header *)
Theorem C05_header_byte0_from_source : forall server fin compress op len key, op < 256 ->
  Z.of_N (hd 0 (generate_header server fin compress op len key))
  = gf_gws_frameHeader_GenerateHeader_b0 server fin compress (Z.of_N op) len.
Proof. exact gen_header_b0_is. Qed.

(* ... and the gates of genFrame in front of the frame construction (text validation, write limit, the decision to
   compress: flag, data opcode, threshold with >=; masking iff client), as regenerated from writer.go, are the model's *)
Theorem C05_gates_from_source : forall opcode n limit threshold compress server check_ok,
  gf_gws_Conn_genFrame_nconds = 4%nat
  /\ gf_gws_Conn_genFrame_cond1 check_ok (Z.of_N opcode) = ((opcode =? 1)%N && negb check_ok)
  /\ gf_gws_Conn_genFrame_cond2 limit n = (n >? limit)%Z
  /\ gf_gws_Conn_genFrame_cond3 threshold compress n (Z.of_N opcode) = (compress && is_data opcode && (n >=? threshold)%Z)
  /\ gf_gws_Conn_genFrame_cond4 server = negb server.
Proof. exact gen_genFrame_conditions_are. Qed.

(* non-vacuity: a client text frame of 200 bytes (16-bit length form, masked) built by the model decodes to itself *)
Example C05_nonvacuous :
  let c := {| w_server := false; w_pmd := false; w_threshold := 512; w_wlimit := 1000; w_utf8 := false |} in
  let p := map N.of_nat (seq 0 200) in
  let key := [7; 8; 9; 10] in
  match gen_frame (fun _ => true) (fun _ _ => []) c 1 [p]
          {| fc_fin := true; fc_compress := false; fc_broadcast := false; fc_check := false |} key [] with
  | GFrame b => length b = 208%nat /\ nth 1 b 0 = 254 /\
                match decode_frame (b ++ [1; 2; 3]) with
                | DFrame f true [1; 2; 3] => f_payload f = p /\ f_masked f = true
                | _ => False
                end
  | _ => False
  end.
Proof. vm_compute. repeat split; reflexivity. Qed.

Print Assumptions C05_decode_gen.
Print Assumptions C05_outbound_wf.
Print Assumptions C05_do_write_one_frame.
Print Assumptions C05_local_close_frame.
Print Assumptions C05_error_close_frame.
Print Assumptions C05_stream_frames.
Print Assumptions C05_stream_one_message.
Print Assumptions C05_flate_segments.
Print Assumptions C05_stream_compressed.
Print Assumptions C05_spec_roundtrip.
Print Assumptions C05_header_writer_from_source.
Print Assumptions C05_header_byte0_from_source.
Print Assumptions C05_gates_from_source.
Print Assumptions C05_gen_frame_from_source.
Print Assumptions C05_do_write_from_source.
