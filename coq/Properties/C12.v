(* C12 - Extension negotiation: both endpoints always hold the same parameters.

   Model: Model/Negotiate.v (string level: strings.Split/TrimSpace/SplitN/Contains/Join, strconv.Itoa/Atoi
   with saturation at 2^63-1 / -2^63, internal.Split/WithDefault/Min/SelectValue, genRequestHeader,
   genResponseHeader, permessageNegotiation, both getPermessageDeflate, setThreshold, the PermessageDeflate
   part of initServerOption / initClientOption), composed into
       server_view s c / client_view s c = Conn.pd of the server / client after a gws-to-gws handshake
   where the offer header is absent when the client has compression off and the response header is absent
   when the server's negotiated pd is disabled.  s, c : PD carry ANY integers as window bits / threshold / level.

   OUTSIDE the statements below (not claimed):
   - white space around '=' and quoted values ("server_max_window_bits = 9", server_max_window_bits="9"):
     the code does not accept them (Atoi fails -> 15); the harness pins this behaviour against the model only;
   - non-ASCII Unicode white space (strings.TrimSpace trims U+0085, U+00A0, U+1680, U+2000.. as well): the model's
     trim_space knows the six ASCII white-space bytes; theorems speak about ASCII padding;
   - signed values ("+9", "-3"), a value-less server_max_window_bits, names given a value they do not take
     ("server_no_context_takeover=1") and a second extension after ',': modelled faithfully (Atoi, SplitN, the switch)
     and exercised by the harness, but the order / white-space THEOREMS range over lists of the five known
     parameters with digit-string values plus arbitrary unknown parameters (C12_order_partial note below);
   - PoolSize; the HTTP layer (header value assumed to arrive unchanged - checked by real handshakes).

   Observation recorded while proving (not a violation of C12, both ends agree): the server answers with ITS OWN
   configured window sizes and ignores the sizes the client asked for, and it may answer client_max_window_bits=N
   to an offer that did not contain client_max_window_bits (RFC 7692 7.1.2.1/7.1.2.2 forbid both). The gws client
   adopts whatever the response says, so a gws-to-gws pair still agrees: see C12_note_requested_bits_ignored. *)
From Gws Require Import Lib.Base Lib.Hex Model.Negotiate Spec.NegotiationSpec
  Proofs.StrProofs Proofs.NegotiateProofs Proofs.NegotiateAgree.
From Coq Require Import Permutation Strings.String.
From Gws Require Import Gen.Consts Gen.Funcs Proofs.GenOptionsProofs.
Local Open Scope Z_scope.

(* Agreement, for every pair of settings (all booleans, all integers). *)
Theorem C12_agree : forall s c,
  let sv := server_view s c in let cl := client_view s c in
  enabled sv = enabled cl /\ enabled sv = (enabled s && enabled c) /\
  (enabled sv = true ->
     sct sv = sct cl /\ cct sv = cct cl /\ smwb sv = smwb cl /\ cmwb sv = cmwb cl
     /\ sct sv = (sct s && sct c) /\ cct sv = (cct s && cct c)
     /\ 8 <= smwb sv <= 15 /\ 8 <= cmwb sv <= 15).
Proof. exact negotiation_agree. Qed.

(* The same against the independent statement of Spec/NegotiationSpec.v. *)
Theorem C12_agree_spec : forall s c,
  negotiation_ok (side_of s) (side_of c) (held_of (server_view s c)) (held_of (client_view s c)).
Proof. exact negotiation_meets_spec. Qed.

(* String-level round trip the agreement factors through: what either generator writes for in-range window
   sizes is read back as exactly those parameters (atoi (itoa n) = n, Split/Join/TrimSpace on the real bytes). *)
Theorem C12_header_roundtrip : forall p, 8 <= smwb p <= 15 -> 8 <= cmwb p <= 15 ->
  permessage_negotiation (gen_request_header p) = mkPD false (sct p) (cct p) (smwb p) (cmwb p) 0 0 /\
  permessage_negotiation (gen_response_header p) = mkPD false (sct p) (cct p) (smwb p) (cmwb p) 0 0.
Proof. intros p Hs Hc. split; [apply parse_request|apply parse_response]; assumption. Qed.

(* The decimal conversions of the model are inverse on the whole range of a Go int (64-bit). *)
Theorem C12_atoi_itoa : forall z, - 2 ^ 63 <= z <= 2 ^ 63 - 1 -> atoi (itoa z) = z.
Proof. exact atoi_itoa. Qed.

(* A side that keeps its own sending context compresses every message (setThreshold) - used by C02. *)
Theorem C12_threshold_zero_under_takeover : forall s c,
  (sct (server_view s c) = true -> threshold (server_view s c) = 0) /\
  (cct (client_view s c) = true -> threshold (client_view s c) = 0).
Proof. exact threshold_zero_under_takeover. Qed.

(* "Extension parameters are understood": a list of well-formed parameters (the five known ones and any
   unknown ones, which are ignored), separated by ';' with arbitrary ASCII white space around each and with
   empty segments (";;", trailing ";") anywhere, is read as its meaning (Spec/NegotiationSpec.v: takeover unless declined,
   smallest stated window, 0 and values above 15 count as 15, below 8 is raised to 8).  Values are arbitrary
   non-empty digit strings (leading zeros, magnitudes beyond 2^64 included: Atoi's saturation is proved harmless). *)
Theorem C12_understood : forall l, Forall pad_ok l ->
  permessage_negotiation (render_padded l) = pd_of_reading (meaning (params_of l)).
Proof. exact parse_render_padded. Qed.

(* ... regardless of their order (duplicates allowed: the minimum wins, which is order independent) *)
Theorem C12_param_order : forall ps qs, Forall wf_param ps -> Permutation ps qs ->
  permessage_negotiation (render ps) = permessage_negotiation (render qs).
Proof. exact parse_permutation. Qed.

(* ... and surrounding white space *)
Theorem C12_whitespace : forall l, Forall pad_ok l ->
  permessage_negotiation (render_padded l) = permessage_negotiation (render (params_of l)).
Proof. exact parse_whitespace. Qed.

(* both at once *)
Theorem C12_order_and_whitespace : forall l1 l2, Forall pad_ok l1 -> Forall pad_ok l2 ->
  Permutation (params_of l1) (params_of l2) ->
  permessage_negotiation (render_padded l1) = permessage_negotiation (render_padded l2).
Proof. exact parse_padded_permutation. Qed.

(* C12_order_partial (note, nothing to prove here): the four theorems above quantify over lists of the five
   known parameters (digit-string values) and unknown parameters, with empty segments.  NOT proved: invariance
   in the presence of signed values ("+9"), a value-less server_max_window_bits, or a flag parameter carrying a
   value; these are covered by the harness sweep (model comparison + order/white-space oracle) only. *)

(* Non-vacuity: out-of-range settings on both sides, one direction declined by the server only. *)
Example C12_nonvacuous :
  let s := mkPD true true false 7 16 0 0 in
  let c := mkPD true true true 10 (-1) 100 0 in
  offer_header c = str "permessage-deflate; server_max_window_bits=10; client_max_window_bits"
  /\ server_view s c = mkPD true true false 12 15 0 1
  /\ response_header s c = str "permessage-deflate; client_no_context_takeover; server_max_window_bits=12"
  /\ client_view s c = mkPD true true false 12 15 100 1.
Proof. vm_compute. repeat split; reflexivity. Qed.

Example C12_nonvacuous_parser :
  let l := [ ([32; 9]%N, Some (PClientMaxWindowBits (Some (str "010"))), []);
             ([], Some PServerNoContextTakeover, [13; 10]%N);
             ([32]%N, None, []);
             ([32]%N, Some PName, [32]%N);
             ([], Some (POther (str "x-unknown") (Some (str "a=b"))), []);
             ([], Some (PClientMaxWindowBits (Some (str "12"))), []);
             ([], None, []) ] in
  Forall pad_ok l
  /\ render_padded l = ([32; 9]%N ++ str "client_max_window_bits=010;server_no_context_takeover" ++ [13; 10]%N
                        ++ str "; ; permessage-deflate ;x-unknown=a=b;client_max_window_bits=12;")
  /\ permessage_negotiation (render_padded l) = mkPD false false true 15 10 0 0.
Proof.
  split; [|vm_compute; split; reflexivity].
  repeat (apply Forall_cons || apply Forall_nil);
    cbv [pad_ok wf_param wf_value wf_other all_space]; repeat split; try reflexivity; try discriminate.
  - cbn. intuition discriminate.
  - right. reflexivity.
Qed.

(* Observation (not a C12 violation): the client asks the server to use a 2^8 window and to be allowed 2^9
   itself; the server, configured with 15/15, answers without window parameters; both ends hold 15/15. *)
Example C12_note_requested_bits_ignored :
  let s := mkPD true false false 15 15 0 0 in
  let c := mkPD true false false 8 9 0 0 in
  offer_header c = str "permessage-deflate; server_no_context_takeover; client_no_context_takeover; server_max_window_bits=8; client_max_window_bits=9"
  /\ response_header s c = str "permessage-deflate; server_no_context_takeover; client_no_context_takeover"
  /\ smwb (server_view s c) = 15 /\ cmwb (server_view s c) = 15
  /\ smwb (client_view s c) = 15 /\ cmwb (client_view s c) = 15.
Proof. vm_compute. repeat split; reflexivity. Qed.

(* Tie to the source: what initServerOption / initClientOption make of the configured PermessageDeflate - the window-bit
   range 8..15 with its default (12 or 15 on the server depending on the takeover flag, 15 on the client), the default
   threshold and level, pool size 1 on the client - and of the limits, buffer sizes, handler limit and handshake time-out
   (non-positive = default), in the definitions REGENERATED from option.go on this run, is the model's norm_server /
   norm_client that the agreement theorems start from *)
Theorem C12_server_options_from_source : forall p hs pg rb rmax wb wmax pool ic vc,
  let '(_, rmax', pg', rb', wmax', wb', hs', s, c, th, lv, _) :=
    gf_gws_initServerOption hs pg (cct p) (cmwb p) (enabled p) (level p) pool (sct p) (smwb p) (threshold p) rb rmax wb wmax ic vc in
  mkPD (enabled p) (sct p) (cct p) s c th lv = norm_server p
  /\ rmax' = opt_default rmax gws_defaultReadMaxPayloadSize /\ wmax' = opt_default wmax gws_defaultWriteMaxPayloadSize
  /\ rb' = opt_default rb gws_defaultReadBufferSize /\ wb' = opt_default wb gws_defaultWriteBufferSize
  /\ pg' = opt_default pg gws_defaultParallelGolimit /\ hs' = opt_default hs gws_defaultHandshakeTimeout.
Proof. exact gen_init_server_is. Qed.

Theorem C12_client_options_from_source : forall p hs pg rb rmax wb wmax pool ic vc,
  let '(_, rmax', pg', rb', wmax', wb', hs', s, c, th, lv, pool') :=
    gf_gws_initClientOption hs pg (cmwb p) (enabled p) (level p) pool (smwb p) (threshold p) rb rmax wb wmax ic vc in
  mkPD (enabled p) (sct p) (cct p) s c th lv = norm_client p
  /\ (enabled p = true -> pool' = 1)
  /\ rmax' = opt_default rmax gws_defaultReadMaxPayloadSize /\ wmax' = opt_default wmax gws_defaultWriteMaxPayloadSize
  /\ rb' = opt_default rb gws_defaultReadBufferSize /\ wb' = opt_default wb gws_defaultWriteBufferSize
  /\ pg' = opt_default pg gws_defaultParallelGolimit /\ hs' = opt_default hs gws_defaultHandshakeTimeout.
Proof. exact gen_init_client_is. Qed.

Print Assumptions C12_agree.
Print Assumptions C12_agree_spec.
Print Assumptions C12_header_roundtrip.
Print Assumptions C12_atoi_itoa.
Print Assumptions C12_threshold_zero_under_takeover.
Print Assumptions C12_understood.
Print Assumptions C12_param_order.
Print Assumptions C12_whitespace.
Print Assumptions C12_order_and_whitespace.
Print Assumptions C12_server_options_from_source.
Print Assumptions C12_client_options_from_source.
