(* C20 - the arena deque (internal/deque.go) behaves like a plain sequence under all operations.
   Only statements, each closed by a lemma of Proofs/DequeProofs.v.  V is the element type T of Deque[T],
   zero its zero value; nothing below depends on what V is.

   Vocabulary:  repr zero d l   (Proofs/DequeInv.v)  - deque d represents the sequence l of (handle, value)
                seq_step/seq_pre (Spec/PlainSeq.v)    - the plain-sequence meaning of a call / the caller's duty
                dq_step          (Proofs/DequeProofs.v) - the model's API call, returning what the caller sees
   A model function returning None is a Go runtime panic. *)
From Gws Require Import Lib.Base Model.Deque Spec.PlainSeq Proofs.DequeSeg Proofs.DequeInv Proofs.DequeProofs Gen.Funcs Proofs.DequeFromSource.

(* New(n) (n >= 0) does not panic; New(n) and the zero value represent the empty sequence *)
Theorem C20_fresh : forall (V : Type) (zero : V),
  repr zero dq_zero [] /\
  (forall n, (0 <= n)%Z -> exists d, dq_new zero n = Some d) /\
  (forall n d, dq_new zero n = Some d -> repr zero d []).
Proof. intros. split; [apply zero_repr | split; [apply new_ok | apply new_repr]]. Qed.

(* one call: on a live (or Nil) handle argument the call does not panic, returns a result the plain
   sequence allows (a new element's handle is fresh, Pop returns the end's value or the zero value, ...)
   and the deque then represents the sequence transformed by the corresponding list operation *)
Theorem C20_step_refines : forall (V : Type) (zero : V) d l o,
  repr zero d l -> seq_pre l o ->
  exists d' r l', dq_step zero d o = Some (d', r) /\ seq_step zero l o r l' /\ repr zero d' l'.
Proof. intros V zero. exact (step_refines zero). Qed.

(* all call sequences, from New(n) or from the zero value (refines unfolds to: repr now, and if the next
   call's handle argument is Nil/live then the call succeeds as in C20_step_refines and refines holds
   for the rest) *)
Theorem C20_refines_list : forall (V : Type) (zero : V) (ops : list (op V)),
  refines zero dq_zero [] ops /\
  (forall n d, dq_new zero n = Some d -> refines zero d [] ops).
Proof.
  intros. split; [apply run_refines, zero_repr | intros n d E; apply run_refines, (new_repr zero n d E)].
Qed.

(* the same for an executed run: if the model ran ops to completion producing results rs, and every handle
   argument was Nil or live at its call (judged on the plain sequence driven by those results), then the
   plain sequence allows every result and the final deque represents the final sequence *)
Theorem C20_run_trace : forall (V : Type) (zero : V) ops d l d' rs,
  repr zero d l -> dq_run zero d ops = Some (d', rs) -> live_trace l ops rs ->
  seq_trace zero l ops rs /\ repr zero d' (seq_fold l ops rs).
Proof. intros V zero ops. exact (run_trace zero ops). Qed.

(* what can be observed of a deque that represents l: Len, Front, Back, Range (order and contents) *)
Theorem C20_len_range_agree : forall (V : Type) (zero : V) d l, repr zero d l ->
  dq_len d = Z.of_nat (length l) /\
  dq_front d = Some (match l with [] => None | x :: _ => Some (fst x) end) /\
  dq_back d = Some (match l with [] => None | _ => Some (last (handles l) 0) end) /\
  (exists es, dq_range d (fun _ => true) = RangeOk es /\ map proj es = l) /\
  (forall f, exists es k, dq_range d f = RangeOk es /\ map proj es = firstn k l).
Proof.
  intros V zero d l H. split; [apply (repr_len zero), H|]. split; [apply (repr_front zero), H|].
  split; [apply (repr_back zero), H|]. split; [apply (repr_range zero), H|].
  intro f. apply (repr_range_prefix zero), H.
Qed.

(* Get on a live handle returns the element with that address and its current value *)
Theorem C20_get_live : forall (V : Type) (zero : V) d l a v, repr zero d l -> In (a, v) l ->
  get d a = Some (Some a) /\ exists q m, rd d a = Some (Elem q a m v).
Proof. intros V zero. exact (repr_slot zero). Qed.

(* handles stay valid: an element that the call does not remove (value_after = Some v') is, after the call,
   still found at the same address, with value v' (= v unless the call was Update on it) - across arena
   growth, slot reuse, auto-reset and the removal or relinking of other elements *)
Theorem C20_handles_stable : forall (V : Type) (zero : V) d l o d' r a v v',
  repr zero d l -> seq_pre l o -> dq_step zero d o = Some (d', r) ->
  In (a, v) l -> value_after l o a v = Some v' ->
  get d' a = Some (Some a) /\ exists q m, rd d' a = Some (Elem q a m v').
Proof. intros V zero. exact (handles_stable zero). Qed.

(* Clone returns an equal value.  Independence of clone and original holds by construction in a pure
   model (no sharing exists); on the implementation it is the harness that checks it. *)
Theorem C20_clone : forall (V : Type) (zero : V) d l, repr zero d l ->
  dq_clone d = d /\ repr zero (dq_clone d) l.
Proof. intros V zero. exact (clone_repr zero). Qed.

(* non-vacuity: a run from the zero value through growth, insertion in the middle, moves, removal down to
   empty (auto-reset) and slot reuse; every handle argument is live (live_trace), so all hypotheses above
   are met, and the outcome is the expected sequence *)
Example C20_nonvacuous :
  let ops := [OPushBack 10; OPushFront 20; OInsertAfter 30 2; OInsertBefore 40 1; OMoveToBack 2;
              OMoveToFront 4; OUpdate 3 33; ORemove 1; OPopFront; OPopBack; OPopBack; OPopBack;
              OPushBack 50; OPushBack 60; ORemove 1; OPushFront 70]%Z in
  exists d rs, dq_run 0%Z dq_zero ops = Some (d, rs) /\ live_trace [] ops rs /\
    seq_fold [] ops rs = [(1%nat, 70%Z); (2%nat, 60%Z)] /\
    (exists es, dq_range d (fun _ => true) = RangeOk es /\ map proj es = [(1%nat, 70%Z); (2%nat, 60%Z)]).
Proof.
  cbv zeta. eexists _, _. split; [vm_compute; reflexivity|].
  split; [cbn; intuition auto|]. split; [reflexivity|].
  eexists. split; vm_compute; reflexivity.
Qed.

(* Tie to the source: the head / tail / length bookkeeping of the three link operations every mutating method goes
   through - doRemove (its `state` counter, the four cases, the nil tests), doPushBack and doPushFront (first element:
   head and tail together; otherwise the one end) - in the definitions REGENERATED from internal/deque.go on this run,
   applied to the values the model reads through its element pointers, yields the head, tail and length of the model's
   result.  (The stores into the neighbouring elements are the model's, tied by the correspondence run.) *)
Theorem C20_remove_links_from_source : forall (V : Type) (d d' : @dq V) i (e : @elem V) ip inx ve,
  rd d i = Some e -> do_remove d i = Some d' ->
  gf_internal_Deque_doRemove (Z.of_nat (head d)) (dlen d) (Z.of_nat (tail d)) inx ip
    (Z.of_nat (enext e)) (Z.of_nat (eprev e)) (addr_at d (enext e)) (addr_at d (eprev e)) ve
  = (0%Z, Z.of_nat (head d'), Z.of_nat (tail d'), dlen d').
Proof. intro V. exact (@gen_doRemove_is V). Qed.

Theorem C20_push_links_from_source : forall (V : Type) (d d' : @dq V) i (e : @elem V) x ve,
  rd d i = Some e ->
  (do_push_back d i = Some d' ->
   gf_internal_Deque_doPushBack (Z.of_nat (head d)) (dlen d) (Z.of_nat (tail d)) x (Z.of_nat (eaddr e)) ve
   = (0%Z, Z.of_nat (head d'), Z.of_nat (tail d'), dlen d'))
  /\ (do_push_front d i = Some d' ->
      gf_internal_Deque_doPushFront (Z.of_nat (head d)) (dlen d) (Z.of_nat (tail d)) x (Z.of_nat (eaddr e)) ve
      = (0%Z, Z.of_nat (head d'), Z.of_nat (tail d'), dlen d')).
Proof.
  intros V d d' i e x ve Hrd. split; intro H.
  - exact (@gen_doPushBack_is V d d' i e x ve Hrd H).
  - exact (@gen_doPushFront_is V d d' i e x ve Hrd H).
Qed.

Print Assumptions C20_fresh.
Print Assumptions C20_step_refines.
Print Assumptions C20_refines_list.
Print Assumptions C20_run_trace.
Print Assumptions C20_len_range_agree.
Print Assumptions C20_get_live.
Print Assumptions C20_handles_stable.
Print Assumptions C20_clone.
Print Assumptions C20_remove_links_from_source.
Print Assumptions C20_push_links_from_source.
