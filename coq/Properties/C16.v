(* C16 - UTF-8 is enforced on whole text payloads, in both directions.
   Only statements, each closed by a lemma of Proofs/Utf8*.v.

   What is proved here: (1) the model of Go's utf8.Valid (first table, acceptRanges, fuel, 8-byte ASCII
   fast path) accepts EXACTLY the well-formed UTF-8 of RFC 3629, for byte strings of every length;
   (2) CheckEncoding / Bytes.CheckEncoding / Buffers.CheckEncoding / genFrame's gate / emitMessage's gate /
   emitClose's reason check, as functions of (CheckUtf8Enabled, opcode, payload), depend on the payload only
   through the validity of the CONCATENATION of its slices or fragments; binary is never checked; checking
   off never rejects; (3) the pre-fix per-slice rule differs (defect D6, repaired by ad94fcf).

   (4) the read side as a whole (C16_read_side, at the end of the file): the reader model, fed the bytes of a text
   message cut into any fragments with any ping/pong frames in between, delivers it iff the CONCATENATION of the
   fragments is valid (or checking is off) and otherwise fails the connection with 1007 having delivered nothing but the
   control callbacks.  The harness (harness/c16.go part c) ties the composition to the implementation on real
   connections. *)
From Gws Require Import Lib.Base Model.Utf8 Spec.Rfc3629 Proofs.Utf8Loop Proofs.Utf8Proofs.
Local Open Scope N_scope.

(* Go's validator = RFC 3629: a byte string is accepted iff it is the concatenation of the (shortest-form,
   by construction) encodings of Unicode scalar values - no overlongs, no surrogates, nothing above
   U+10FFFF, no truncated sequence.  Both directions, all lengths. *)
Theorem C16_valid_iff_rfc3629 : forall b, wf_bytes b ->
  (utf8_valid b = true <-> exists cps, Forall scalar cps /\ b = concat (map utf8_encode cps)).
Proof. exact utf8_valid_iff_rfc3629. Qed.

(* the model of utf8.Valid neither runs out of fuel nor indexes out of range (p[i+1..i+3] are in bounds),
   and the 8-byte ASCII fast path does not change the verdict *)
Theorem C16_valid_total : forall b, wf_bytes b ->
  utf8_valid_opt b = Some (utf8_valid b) /\ utf8_valid b = utf8_valid_slow b.
Proof. intros b Hw. split; [apply utf8_valid_total|apply utf8_valid_fast_path]; exact Hw. Qed.

(* current Buffers.CheckEncoding: the verdict on a slice list is the verdict on the concatenation, for
   every slicing - a code point split across slices is fine *)
Theorem C16_whole_payload_slices : forall slices,
  buffers_check true 1 slices = utf8_valid (concat slices).
Proof. exact buffers_check_text. Qed.

Theorem C16_slices_any_config : forall enabled op slices,
  buffers_check enabled op slices = bytes_check enabled op (concat slices).
Proof. exact buffers_check_whole. Qed.

(* the pre-fix rule (validate slice by slice) rejects a valid message: U+4E2D split 2+1.  Defect D6. *)
Theorem C16_per_slice_refuted : exists slices,
  buffers_check_prefix true 1 slices = false
  /\ buffers_check true 1 slices = true
  /\ concat slices = utf8_encode 0x4E2D /\ scalarb 0x4E2D = true.
Proof. exists [[0xE4; 0xB8]; [0xAD]]. vm_compute. repeat split; reflexivity. Qed.

(* ... while it never accepted an invalid one: the old rule was too strict, not unsound *)
Theorem C16_per_slice_sound : forall slices, Forall wf_bytes slices ->
  buffers_check_prefix true 1 slices = true -> utf8_valid (concat slices) = true.
Proof. exact prefix_rule_sound. Qed.

(* CheckEncoding: binary (and every opcode other than text and close) is never checked, checking off never rejects *)
Theorem C16_gate : forall enabled op p,
  check_encoding enabled op p = true <-> (enabled = false \/ (op <> 1 /\ op <> 8) \/ utf8_valid p = true).
Proof. exact check_encoding_gate. Qed.

(* write side (genFrame): a send goes on to the wire iff checking is off, or it is not a text message, or the
   concatenation of its slices is valid *)
Theorem C16_write_gate : forall enabled op slices,
  write_gate_buffers enabled op slices = true <->
  (enabled = false \/ op <> 1 \/ utf8_valid (concat slices) = true).
Proof. exact write_gate_buffers_iff. Qed.

Theorem C16_write_gate_single : forall enabled op p,
  write_gate_bytes enabled op p = write_gate_buffers enabled op [p].
Proof. exact write_gate_bytes_buffers. Qed.

(* read side (emitMessage on the reassembled, inflated payload): delivered iff ..., otherwise status 1007 *)
Theorem C16_read_gate : forall enabled op p,
  (read_gate enabled op p = None <-> (enabled = false \/ (op <> 1 /\ op <> 8) \/ utf8_valid p = true))
  /\ (read_gate enabled op p <> None -> read_gate enabled op p = Some 1007).
Proof. exact read_gate_iff. Qed.

(* fragment boundaries are irrelevant: any two fragmentations of the same payload get the same verdict
   (and the same as the unfragmented message).  Full read-side statement: C16_read_side at the end of the file. *)
Theorem C16_fragmentation_independent : forall enabled op frags frags' p,
  concat frags = p -> concat frags' = p ->
  read_gate enabled op (concat frags) = read_gate enabled op (concat frags')
  /\ read_gate enabled op (concat frags) = read_gate enabled op p.
Proof. intros enabled op frags frags' p H1 H2. rewrite H1, H2. split; reflexivity. Qed.

(* close reason (emitClose): the reply status is 1007 exactly when checking is on and the reason is invalid *)
Theorem C16_close_reason : forall enabled code reason,
  close_response_code enabled code reason = 1007 <-> (enabled = true /\ utf8_valid reason = false).
Proof. exact close_response_1007_iff. Qed.

(* non-vacuity: a string with all four sequence lengths (A, e-acute, U+4E2D, U+1F600, and the extreme scalar
   values U+D7FF, U+E000, U+10FFFF, preceded by 9 ASCII bytes so that the fast path runs once) is a
   byte string, is accepted, and is the encoding of scalar values; its 2+1 split passes the current rule
   and fails the old one; an overlong, a surrogate and a truncation are rejected. *)
Example C16_nonvacuous :
  let cps := [0x30; 0x31; 0x32; 0x33; 0x34; 0x35; 0x36; 0x37; 0x38; 0x41; 0xE9; 0x4E2D; 0x1F600; 0xD7FF; 0xE000; 0x10FFFF] in
  let b := concat (map utf8_encode cps) in
  forallb scalarb cps = true /\ wf_bytesb b = true /\ length b = 29%nat /\ utf8_valid b = true
  /\ utf8_valid [0xC0; 0x80] = false /\ utf8_valid [0xED; 0xA0; 0x80] = false /\ utf8_valid [0xE4; 0xB8] = false
  /\ utf8_valid [0xF4; 0x90; 0x80; 0x80] = false
  /\ write_gate_buffers true 1 [[0xE4; 0xB8]; [0xAD]] = true /\ write_gate_buffers true 1 [[0xE4; 0xB8]; [0x41]] = false
  /\ write_gate_buffers true 2 [[0xE4; 0xB8]; [0x41]] = true /\ write_gate_buffers false 1 [[0xE4; 0xB8]; [0x41]] = true
  /\ read_gate true 1 [0xE4; 0xB8] = Some 1007 /\ close_response_code true 1000 [0xE4; 0xB8] = 1007.
Proof. vm_compute. repeat split; reflexivity. Qed.

Print Assumptions C16_valid_iff_rfc3629.
Print Assumptions C16_valid_total.
Print Assumptions C16_whole_payload_slices.
Print Assumptions C16_slices_any_config.
Print Assumptions C16_per_slice_refuted.
Print Assumptions C16_per_slice_sound.
Print Assumptions C16_gate.
Print Assumptions C16_write_gate.
Print Assumptions C16_write_gate_single.
Print Assumptions C16_read_gate.
Print Assumptions C16_fragmentation_independent.
Print Assumptions C16_close_reason.

(* ---- the read-side gate on the reader model of Model/Reader.v, instantiated with the UTF-8 validator proved above:
   a single-frame text message (correct masking for the role, no reserved bits, within the read limit, idle reassembly
   state) is delivered unchanged iff checking is off or its payload is well-formed UTF-8 (RFC 3629); otherwise nothing
   is delivered and the connection is failed with status 1007.  Fragmented and compressed messages reach the same check
   with the reassembled / inflated payload (C03_frame_refines: `complete`). *)
From Gws Require Import Spec.Rfc6455 Spec.Rfc6455Recv Model.Header Model.CloseCode Model.Reader Proofs.FrameProofs Proofs.ReaderProofs Proofs.ReaderRefine Proofs.FragmentProofs.

Theorem C16_reader_text_gate :
  forall (inflate : list N -> list N -> Z -> option (list N)) (W : Type) (wdict : W -> list N) (wwrite : W -> list N -> W)
         c st lf f rest,
  frame_wf f -> lenform_ok lf (N.of_nat (length (f_payload f))) -> (N.of_nat (length (f_payload f)) < 2 ^ 63)%N ->
  limit_ok c -> cf_init W st = false ->
  f_op f = 1%N -> f_fin f = true -> f_rsv1 f = false -> f_rsv2 f = false -> f_rsv3 f = false ->
  f_masked f = r_server c -> (Z.of_nat (length (f_payload f)) <= r_limit c)%Z ->
  if r_utf8 c && negb (utf8_valid (f_payload f))
  then read_message utf8_valid inflate W wdict wwrite c st (encode_frame lf f ++ rest) = SStop W [] (OFail W 1007%N)
  else exists st', read_message utf8_valid inflate W wdict wwrite c st (encode_frame lf f ++ rest)
                   = SCont W [EvMsg 1%N (f_payload f)] st' rest.
Proof.
  intros inflate W wdict wwrite c st lf f rest Hwf Hlf Hn Hc Hinit Hop Hfin H1 H2 H3 Hm Hsz.
  destruct (r_utf8 c && negb (utf8_valid (f_payload f))) eqn:E.
  - assert (Hst : st_ok W st) by (unfold st_ok; rewrite Hinit; discriminate).
    pose proof (read_message_refines utf8_valid inflate W wdict wwrite c st lf f rest Hwf Hlf Hn Hc Hst) as R.
    assert (Hcur : s_cur W (abs W st) = None) by (unfold abs; cbn; rewrite Hinit; reflexivity).
    assert (Hnil : violations W (scfg_of c) (abs W st) f (minimal_of lf (N.of_nat (length (f_payload f)))) = []).
    { unfold violations. rewrite Hcur, H1, H2, H3, Hm, Hop. cbn [scfg_of s_server s_pmd s_limit].
      rewrite Bool.eqb_reflx. cbn.
      replace (r_limit c <? Z.of_nat (length (f_payload f)))%Z with false by lia. reflexivity. }
    unfold Rfc6455Recv.recv_frame in R. rewrite Hnil, Hop in R. cbn in R. rewrite Hfin, H1 in R.
    unfold complete in R. cbn [scfg_of s_utf8] in R.
    apply andb_true_iff in E as [E1 E2]. rewrite E1, E2 in R. cbn in R.
    destruct R as (x & -> & [<-|[]]). reflexivity.
  - pose proof (within_limit_delivered utf8_valid inflate W wdict wwrite c st lf f rest) as D. rewrite Hop in D. apply D; auto.
    cbn. destruct (r_utf8 c); cbn in *; [exact E|reflexivity].
Qed.

Print Assumptions C16_reader_text_gate.

(* the read side as a whole: a text message in any number of fragments (any boundaries - inside a code point too -, length
   forms, masking keys), with any ping/pong frames in between, read by an idle reader of either role: the control
   callbacks come first in wire order; then the message is delivered iff the concatenation of its fragments is valid
   UTF-8 or checking is off; otherwise nothing more is delivered and the connection is failed with status 1007 *)
Theorem C16_read_side :
  forall (inflate : list N -> list N -> Z -> option (list N)) (W : Type) (wdict : W -> list N) (wwrite : W -> list N -> W)
         c st fuel lf0 k0 p0 cs0 mids lfl kl pl,
  limit_ok c -> cf_init W st = false ->
  Forall (ctl_ok (scfg_of c)) cs0 -> Forall (fun m => Forall (ctl_ok (scfg_of c)) (midw_ctls m)) mids ->
  let wire := message_wire (r_server c) false 1 lf0 k0 p0 cs0 mids lfl kl pl in
  let payload := p0 ++ concat (map midw_payload mids) ++ pl in
  let ctls := map (ev_map) (map ctl_event (cs0 ++ flat_map midw_ctls mids)) in
  Forall sendable wire -> (Z.of_nat (length payload) <= r_limit c)%Z -> (length (enc_stream wire) < fuel)%nat ->
  let r := read_stream utf8_valid inflate W wdict wwrite fuel c st (enc_stream wire) in
  if r_utf8 c && negb (utf8_valid payload)
  then fst r = ctls /\ snd r = OFail W 1007%N
  else fst r = ctls ++ [EvMsg 1%N payload] /\ exists st', snd r = OMore W st' false.
Proof. exact (reader_fragmented_text utf8_valid). Qed.

(* non-vacuity: U+4E2D (e4 b8 ad) split after its first byte, a ping in between, server role, checking on: delivered;
   the same with the last byte replaced by 'A': 1007 after the ping *)
Example C16_read_side_nonvacuous :
  let c := {| r_server := true; r_pmd := false; r_limit := 100; r_utf8 := true |} in
  let wire last := message_wire true false 1 LShortest [1; 2; 3; 4] [0xE4] [(9, [5; 6; 7; 8], [112])] [] L16 [9; 9; 9; 9] [0xB8; last] in
  read_stream utf8_valid (fun _ _ _ => None) unit (fun _ => []) (fun w _ => w) 100 c (r_init unit tt) (enc_stream (wire 0xAD))
    = ([EvPing [112]; EvMsg 1 [0xE4; 0xB8; 0xAD]], OMore unit (r_init unit tt) false)
  /\ read_stream utf8_valid (fun _ _ _ => None) unit (fun _ => []) (fun w _ => w) 100 c (r_init unit tt) (enc_stream (wire 0x41))
    = ([EvPing [112]], OFail unit 1007).
Proof. vm_compute. split; reflexivity. Qed.

Print Assumptions C16_read_side.
