(* C17 - the compression history window always equals the suffix of what was written.
   Only statements, each closed by a lemma of Proofs/WindowProofs.v.
   Scope: the model Model/Window.v of slideWindow.Write (tied to compress.go by harness/c17.go);
   the capacity is ANY nat (the code builds 2^bits only; C17_suffix_bits is that instance).
   Not proved here: that internal.BinaryPow(bits) = 2^bits without overflow (bits <= 15 by
   negotiation, C12) and that connections call Write with the right payloads (C02). *)
From Gws Require Import Lib.Base Model.Window Spec.Suffix Proofs.WindowProofs Gen.Funcs Proofs.GenWindowProofs.

(* for every capacity and every history of chunks (any number, any sizes, any contents): no write
   panics (Some), and the window holds exactly the last min(total, cap) bytes, in order *)
Theorem C17_suffix : forall cap chunks,
  exists w, sw_writes (sw_make cap) chunks = Some w
            /\ sw_dict w = window_spec cap chunks /\ sw_size w = cap /\ sw_enabled w = true.
Proof. exact sw_suffix. Qed.

(* the instance the code builds: initialize(windowBits) *)
Theorem C17_suffix_bits : forall bits chunks,
  exists w, sw_writes (sw_init bits) chunks = Some w /\ sw_dict w = lastn (2 ^ bits) (concat chunks).
Proof.
  intros bits chunks. destruct (sw_suffix (2 ^ bits) chunks) as [w [Hw [Hd _]]]. exists w. split; assumption.
Qed.

(* the specification read back: window_spec is a suffix of the concatenation of length min(cap, total) *)
Theorem C17_spec_meaning : forall cap chunks,
  exists pre, concat chunks = pre ++ window_spec cap chunks
              /\ length (window_spec cap chunks) = Nat.min cap (length (concat chunks)).
Proof. exact window_spec_meaning. Qed.

(* a disabled window stays exactly as it is (empty) and never panics *)
Theorem C17_disabled : forall chunks, sw_writes sw_disabled chunks = Some sw_disabled /\ sw_dict sw_disabled = [].
Proof. intro chunks. split; [apply sw_writes_disabled|]; reflexivity. Qed.

(* writing a then b leaves the same state as writing a ++ b (what segmented sends need, C02);
   for every window - enabled or not - whose contents fit its capacity *)
Theorem C17_compose : forall w a b, length (sw_dict w) <= sw_size w ->
  (w' <- sw_write w a ;; sw_write w' b) = sw_write w (a ++ b).
Proof. exact sw_write_app. Qed.

(* the contents depend only on the bytes written, not on how they were cut into writes: two histories with the
   same concatenation leave the same window *)
Theorem C17_chunking_independent : forall cap c1 c2 w1 w2, concat c1 = concat c2 ->
  sw_writes (sw_make cap) c1 = Some w1 -> sw_writes (sw_make cap) c2 = Some w2 -> sw_dict w1 = sw_dict w2.
Proof.
  intros cap c1 c2 w1 w2 Hc H1 H2.
  destruct (sw_suffix cap c1) as [w1' [E1 [D1 _]]]. destruct (sw_suffix cap c2) as [w2' [E2 [D2 _]]].
  rewrite H1 in E1. rewrite H2 in E2. injection E1 as <-. injection E2 as <-.
  rewrite D1, D2. unfold window_spec. rewrite Hc. reflexivity.
Qed.

Theorem C17_length_bounded : forall cap chunks w,
  sw_writes (sw_make cap) chunks = Some w -> length (sw_dict w) <= cap.
Proof. exact sw_length_bounded. Qed.

(* non-vacuity: capacity 4, a history that takes the append, fill, shift-left-and-append and
   overwrite (n >= size) branches in turn and ends with contents different from any single chunk *)
Example C17_nonvacuous :
  let chunks := [[1; 2]; [3; 4; 5]; [6]; [7; 8; 9; 10; 11; 12]; []; [13]]%N in
  option_map sw_dict (sw_writes (sw_make 4) [[1; 2]%N]) = Some [1; 2]%N
  /\ option_map sw_dict (sw_writes (sw_make 4) [[1; 2]; [3; 4; 5]]%N) = Some [2; 3; 4; 5]%N
  /\ option_map sw_dict (sw_writes (sw_make 4) [[1; 2]; [3; 4; 5]; [6]]%N) = Some [3; 4; 5; 6]%N
  /\ option_map sw_dict (sw_writes (sw_make 4) chunks) = Some [10; 11; 12; 13]%N
  /\ window_spec 4 chunks = [10; 11; 12; 13]%N.
Proof. vm_compute. repeat split; reflexivity. Qed.

(* Tie to the source: the capacity a window is created with is internal.BinaryPow(bits) as regenerated (loop and all)
   from internal/utils.go on every run, and that is 2^bits for every negotiable size *)
Theorem C17_capacity_from_source : forall bits, (bits <= 15)%nat ->
  Z.of_nat (sw_size (sw_init bits)) = gf_internal_BinaryPow (Z.of_nat bits)
  /\ gf_internal_BinaryPow (Z.of_nat bits) = (2 ^ Z.of_nat bits)%Z.
Proof. intros bits H. split; [apply window_capacity_from_source; exact H|apply gen_BinaryPow_is; lia]. Qed.

(* Tie to the source: the four branch conditions of slideWindow.Write (disabled; fits; free space left; chunk at least
   as long as the window), as regenerated from compress.go on every run, are the conditions of the model sw_write *)
Theorem C17_conditions_from_source : forall (w : window) (p : list N),
  let n := length p in let len := length (sw_dict w) in let m := (sw_size w - len)%nat in
  gf_gws_slideWindow_Write_nconds = 4%nat
  /\ gf_gws_slideWindow_Write_cond1 (sw_enabled w) = negb (sw_enabled w)
  /\ gf_gws_slideWindow_Write_cond2 (Z.of_nat (sw_size w)) (Z.of_nat len) (Z.of_nat n) = (n + len <=? sw_size w)%nat
  /\ (gf_gws_slideWindow_Write_cond3 (Z.of_nat (sw_size w) - Z.of_nat len) = (0 <? m)%nat)
  /\ forall n1 : nat, gf_gws_slideWindow_Write_cond4 (Z.of_nat (sw_size w)) (Z.of_nat n1) = (sw_size w <=? n1)%nat.
Proof. exact window_conditions_from_source. Qed.

Print Assumptions C17_suffix.
Print Assumptions C17_suffix_bits.
Print Assumptions C17_spec_meaning.
Print Assumptions C17_disabled.
Print Assumptions C17_compose.
Print Assumptions C17_chunking_independent.
Print Assumptions C17_length_bounded.
Print Assumptions C17_conditions_from_source.
Print Assumptions C17_capacity_from_source.
