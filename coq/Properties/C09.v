(* C09 - Transport faults and stalls always end in one clean teardown.
   The skeleton's transport is an adversary: every AWire / AConnRead / AConnDeadline may fail (the error branches are
   ordinary paths of the extracted programs), at every position and in every schedule.  Proved here, for the skeleton
   regenerated from /repo on every run:
     - teardown happens once: the transport is closed at most once, at most one Close frame, nothing after it;
     - no path of any call - error returns included - leaves a gws lock held;
     - locks are acquired in a fixed rank order: no deadlock cycle among gws locks;
     - the read loop, however it ends, delivers OnClose exactly once and returns (also C07_lifecycle).
   NOT proved (runtime behaviour, measured by the harness): wall-clock bounds, deadline expiry, that Close unblocks a
   pending read, the goroutine census.  Known finding D10: WriteClose waits for Conn.mu behind a writer stalled in the
   transport (the extracted ep_Conn_WriteClose takes LConn before it writes: no bound if the owner never returns). *)
From Coq Require Import List Bool Arith.
From Gws Require Import Skel.IR Skel.Checker Skel.Monitors Skel.GlobalClose Skel.Link Skel.Lifecycle Skel.Obligations Skel.OblClose Skel.OblLifecycle Skel.OblLock.
Import ListNotations.

Theorem C09_teardown_once : forall prog : nat -> stmt,
  (forall t, In (prog t) conn_programs) ->
  forall tr g, (forall t, thread_trace (prog t) (proj t tr)) ->
  gruns g0 (ctrace tr) = Some g ->
  conncloses (log g) <= 1 /\ closes (log g) <= 1 /\ nda (log g) = true.
Proof.
  intros prog Hin tr g Htr Hr.
  assert (Hok : forall t, close_ok (prog t) = true).
  { intro t. pose proof skel_ok_close as H. rewrite forallb_forall in H. exact (H _ (Hin t)). }
  split; [exact (system_transport_closed_once prog Hok tr g Htr Hr)|exact (system_one_close prog Hok tr g Htr Hr)].
Qed.

Theorem C09_no_lock_left_held : forall m s, In (m, s) lock_programs ->
  forall t k, exec s t k -> k <> KB -> l_held (run mlock (mlock_step m) mlock0 t) = [].
Proof.
  intros m s Hin. pose proof skel_ok_lock as H. rewrite forallb_forall in H. exact (call_releases_locks m s (H _ Hin)).
Qed.

Theorem C09_lock_order : forall m s, In (m, s) lock_programs ->
  forall p l, thread_trace s (p ++ [ALock l]) ->
  forallb (fun x => rank x <? rank l) (l_held (run mlock (mlock_step m) mlock0 p)) = true
  /\ holds_lock l (l_held (run mlock (mlock_step m) mlock0 p)) = false.
Proof.
  intros m s Hin. pose proof skel_ok_lock as H. rewrite forallb_forall in H. exact (lock_order_respected m s (H _ Hin)).
Qed.

Theorem C09_read_loop_reports_closure : forall s, In s readers ->
  forall t k, exec s t k -> k <> KB -> exists mids, cbs t = CbOpen :: mids ++ [CbClose] /\ Forall is_mid mids.
Proof.
  intros s Hin. destruct skel_ok_lifecycle as [H _]. rewrite forallb_forall in H. exact (lifecycle_complete s (H _ Hin)).
Qed.

Print Assumptions C09_teardown_once.
Print Assumptions C09_no_lock_left_held.
Print Assumptions C09_lock_order.
Print Assumptions C09_read_loop_reports_closure.
