(* C18 - Masking transform equals RFC 6455 byte-wise XOR for all lengths and keys.
   Only statements, each closed by an existing lemma. *)
From Gws Require Import Lib.Base Model.Mask Spec.MaskSpec Proofs.MaskProofs Gen.Funcs Proofs.GenMaskProofs.
Local Open Scope N_scope.

(* the word-unrolled implementation never panics on a 4-byte key and equals the RFC transform,
   for every buffer length and key *)
Theorem C18_impl_is_xor : forall key b,
  length key = 4%nat -> wf_bytes key -> wf_bytes b -> mask_impl key b = Some (mask_spec key b).
Proof. exact mask_impl_eq_spec. Qed.

(* byte i becomes byte i XOR key[i mod 4] *)
Theorem C18_pointwise : forall key b i, (i < length b)%nat ->
  nth i (mask_spec key b) 0 = N.lxor (nth i b 0) (nth (N.to_nat (N.of_nat i mod 4)) key 0).
Proof. intros key b i H. unfold mask_spec. rewrite mask_from_nth by exact H. reflexivity. Qed.

(* applying it twice restores the input *)
Theorem C18_involutive : forall key b, mask_spec key (mask_spec key b) = b.
Proof. intros. apply mask_from_involutive. Qed.

Theorem C18_length : forall key b, length (mask_spec key b) = length b.
Proof. intros. apply mask_from_length. Qed.

(* the transform maps bytes to bytes (no value leaves 0..255), for every key of bytes *)
Theorem C18_bytes : forall key b, wf_bytes key -> wf_bytes b -> wf_bytes (mask_spec key b).
Proof. intros key b Hk Hb. unfold mask_spec. apply mask_from_wf; assumption. Qed.

(* nothing outside the buffer is touched: masking the region [off, off+len) of a backing array *)
Theorem C18_in_place : forall off len key arr, (off + len <= length arr)%nat ->
  firstn off (mask_region off len key arr) = firstn off arr
  /\ skipn (off + len) (mask_region off len key arr) = skipn (off + len) arr
  /\ length (mask_region off len key arr) = length arr.
Proof. exact mask_region_shape. Qed.

(* ... and inside the region byte off+i becomes byte off+i XOR key[i mod 4]: the key index counts from the start
   of the slice, for every offset of the slice within its backing array (every alignment) *)
Theorem C18_region_pointwise : forall off len key arr i, (off + len <= length arr)%nat -> (i < len)%nat ->
  nth (off + i) (mask_region off len key arr) 0
  = N.lxor (nth (off + i) arr 0) (nth (N.to_nat (N.of_nat i mod 4)) key 0).
Proof. exact mask_region_inside. Qed.

(* masking distributes over concatenation with the key index carried on, so a payload cut at a multiple of 4
   (the 64- and 8-byte loops, a frame payload masked segment by segment) may restart the key at index 0 *)
Theorem C18_concat : forall key a b i,
  mask_from i key (a ++ b) = mask_from i key a ++ mask_from (i + N.of_nat (length a)) key b.
Proof. intros key a b i. apply mask_from_app. Qed.

Theorem C18_concat_aligned : forall key a b, (N.of_nat (length a)) mod 4 = 0 ->
  mask_spec key (a ++ b) = mask_spec key a ++ mask_spec key b.
Proof. exact mask_spec_app_aligned. Qed.

(* non-vacuity: a 5-byte slice at the odd offset 3 of a 12-byte array *)
Example C18_region_nonvacuous :
  let arr := map N.of_nat (seq 100 12) in
  mask_region 3 5 [1; 2; 4; 8] arr = [100; 101; 102; 102; 106; 109; 98; 106; 108; 109; 110; 111].
Proof. vm_compute. reflexivity. Qed.

(* consequently: a client-masked payload unmasks (by the implementation) to the original *)
Theorem C18_unmask_roundtrip : forall key p,
  length key = 4%nat -> wf_bytes key -> wf_bytes p ->
  (m <- mask_impl key p ;; mask_impl key m) = Some p.
Proof.
  intros key p Hl Hk Hp. rewrite mask_impl_eq_spec by assumption. cbn [obind].
  rewrite mask_impl_eq_spec by (auto; apply mask_from_wf; assumption).
  f_equal. apply mask_from_involutive.
Qed.

(* non-vacuity: a 70-byte buffer goes through the 64-byte loop, no 8-byte word, and a 6-byte tail *)
Example C18_nonvacuous :
  let key := [1; 2; 3; 250] in let b := map N.of_nat (seq 0 70) in
  length key = 4%nat /\ wf_bytesb key = true /\ wf_bytesb b = true
  /\ mask_impl key b = Some (mask_spec key b) /\ mask_spec key b <> b.
Proof. vm_compute. repeat split; try reflexivity. discriminate. Qed.

(* Tie to the source: the model of MaskXOR rebuilt on the pieces REGENERATED from internal/utils.go on this run - the
   64-bit key expression `uint64(maskKey)<<32 + uint64(maskKey)`, the conditions of the three loops (`len(b) >= 64`,
   `len(b) >= 8`, `i < n`) and the key index `i & 3` of the byte loop - is the model the theorems above are about.
   (The word loads / stores and slice bounds inside the loops are hand-transcribed and tied by the correspondence run.) *)
Theorem C18_mask_from_source : forall key b, wf_bytes key -> mask_impl_src key b = mask_impl key b.
Proof. exact mask_from_source. Qed.

Theorem C18_mask_pieces_from_source : forall m i len n,
  ((m < 2 ^ 32)%N -> gf_internal_MaskXOR_key64 (Z.of_N m) = Z.of_N (key64 m))
  /\ gf_internal_MaskXOR_idx (Z.of_N i) = Z.of_N (N.land i 3) /\ gf_internal_MaskByByte_idx (Z.of_N i) = Z.of_N (N.land i 3)
  /\ gf_internal_MaskXOR_loop1 (Z.of_N len) = (N.of_nat 64 <=? len)%N
  /\ gf_internal_MaskXOR_loop2 (Z.of_N len) = (N.of_nat 8 <=? len)%N
  /\ gf_internal_MaskXOR_loop3 (Z.of_N i) (Z.of_N n) = (i <? n)%N.
Proof.
  intros m i len n. split; [apply gen_key64_is|]. destruct (gen_mask_idx_is i) as [H1 H2].
  destruct (gen_mask_loops_are len i n) as (L1 & L2 & L3 & _). auto.
Qed.

Print Assumptions C18_impl_is_xor.
Print Assumptions C18_pointwise.
Print Assumptions C18_involutive.
Print Assumptions C18_length.
Print Assumptions C18_bytes.
Print Assumptions C18_in_place.
Print Assumptions C18_region_pointwise.
Print Assumptions C18_concat.
Print Assumptions C18_concat_aligned.
Print Assumptions C18_unmask_roundtrip.
Print Assumptions C18_mask_from_source.
Print Assumptions C18_mask_pieces_from_source.
