(* C15 - async task queue: every task once, one at a time, in FIFO order, never stranded.
   Only statements, each closed by a lemma of Proofs/QueueProofs.v.
   Scope: the event system of Model/Queue.v - getJob is ONE atomic step (justified by the lock
   discipline: it holds workerQueue.mu throughout; checked elsewhere), any number of submitters and
   workers, every finite event sequence.  Tasks are numbered by the order of their Push linearisation
   points, so "submission order" is 0, 1, 2, ...
   Not proved here: fairness of the Go scheduler (a live worker goroutine does eventually take its
   next step - C15_worker_progress shows the step is always enabled), that a task's own body
   terminates, and the atomicity of getJob. *)
From Gws Require Import Lib.Base Model.Queue Spec.FifoServer Proofs.QueueProofs Gen.Funcs Proofs.GenQueueProofs.
Local Open Scope Z_scope.

(* every submitted task is either started or still queued, never both, never twice, in order *)
Theorem C15_runs_once : forall maxc evs s, 0 <= maxc -> q_runs (q_init maxc) evs = Some s ->
  s_started s ++ wq_q (s_wq s) = s_submitted s
  /\ s_submitted s = seq 0 (length (s_submitted s))
  /\ NoDup (s_started s ++ wq_q (s_wq s)).
Proof.
  intros maxc evs s Hm H. pose proof (InvG_runs maxc Hm evs s H) as HG.
  split; [apply HG|]. split; [apply HG|]. eapply InvG_nodup; exact HG.
Qed.

(* FIFO: the k-th task to start is the k-th submitted, and the queue holds exactly the rest, oldest first *)
Theorem C15_fifo : forall maxc evs s, 0 <= maxc -> q_runs (q_init maxc) evs = Some s ->
  s_started s = seq 0 (length (s_started s))
  /\ wq_q (s_wq s) = pending (length (s_started s)) (length (s_submitted s)).
Proof. intros maxc evs s Hm H. eapply InvG_started_ids, InvG_runs; eassumption. Qed.

(* curConcurrency counts the live workers and never exceeds the limit; so at most maxc tasks run *)
Theorem C15_bounded_concurrency : forall maxc evs s, 0 <= maxc -> q_runs (q_init maxc) evs = Some s ->
  wq_cur (s_wq s) = Z.of_nat (length (s_workers s)) /\ wq_cur (s_wq s) <= maxc
  /\ Z.of_nat (length (running_tasks (s_workers s))) <= maxc.
Proof.
  intros maxc evs s Hm H. destruct (InvG_runs maxc Hm evs s H) as [Hmax Hcur Hle _ _ _].
  pose proof (running_tasks_length (s_workers s)). repeat split; try assumption. lia.
Qed.

(* Conn.writeQueue has maxConcurrency 1: the whole start/end history is that of a FIFO single server -
   tasks 0..k-1 started and ended one after the other, in submission order, and at most task k running *)
Theorem C15_mutual_exclusion : forall evs s, q_runs (q_init 1) evs = Some s ->
  exists k running, s_log s = serial_log LStart LEnd k running
    /\ running_tasks (s_workers s) = (if running then [k] else [])
    /\ length (s_started s) = (k + (if running then 1 else 0))%nat.
Proof. intros evs s H. destruct (Inv1_runs evs s H) as [HG H1]. apply Inv1_log; assumption. Qed.

(* tasks wait only while every worker slot is live; hence with no live worker nothing is left behind *)
Theorem C15_not_stranded : forall maxc evs s, 1 <= maxc -> q_runs (q_init maxc) evs = Some s ->
  (wq_q (s_wq s) <> [] -> wq_cur (s_wq s) = maxc /\ s_workers s <> [])
  /\ (s_workers s = [] -> s_started s = s_submitted s).
Proof.
  intros maxc evs s Hm H. assert (HG : InvG maxc s) by (apply (InvG_runs maxc) with evs; [lia|exact H]).
  split; [|apply (InvG_not_stranded maxc); assumption].
  intro Hq. pose proof (ig_busy _ _ HG Hq) as Hc. split; [exact Hc|].
  intro Hw. pose proof (ig_cur _ _ HG) as Hcur. rewrite Hw in Hcur. cbn in Hcur. lia.
Qed.

(* the race of the property text: a Submit that lands after the last worker's empty fetch (no live
   worker) starts its task itself; one that lands before it is taken by that fetch (C15_worker_progress) *)
Theorem C15_submit_when_idle : forall maxc evs s, 1 <= maxc -> q_runs (q_init maxc) evs = Some s ->
  s_workers s = [] ->
  exists s', q_step s Submit = Some s' /\ running_tasks (s_workers s') = [length (s_submitted s)]
             /\ s_started s' = s_submitted s'.
Proof.
  intros maxc evs s Hm H Hw. assert (HG : InvG maxc s) by (apply (InvG_runs maxc) with evs; [lia|exact H]).
  destruct (submit_when_idle maxc s Hm HG Hw) as [s' [H1 [H2 [H3 _]]]]. exists s'. auto.
Qed.

(* a live worker's next step is always enabled, and its fetch takes the head of a non-empty queue *)
Theorem C15_worker_progress : forall maxc evs s w st, 0 <= maxc -> q_runs (q_init maxc) evs = Some s ->
  w_lookup w (s_workers s) = Some st ->
  (exists e s', (e = TaskEnd w \/ e = Fetch w) /\ q_step s e = Some s')
  /\ (st = WFetch -> forall t r, wq_q (s_wq s) = t :: r ->
        exists s', q_step s (Fetch w) = Some s' /\ s_started s' = s_started s ++ [t] /\ wq_q (s_wq s') = r).
Proof.
  intros maxc evs s w st Hm H Hl. split; [eapply worker_enabled; exact Hl|].
  intros -> t r Hq. eapply fetch_takes_head; [eapply InvG_runs; eassumption|exact Hl|exact Hq].
Qed.

(* every task runs: from every reachable state, letting the worker take its steps (no further
   submission needed) reaches a state with no live worker in which every submitted task has started
   and ended exactly once, in submission order *)
Theorem C15_drains : forall evs s, q_runs (q_init 1) evs = Some s ->
  exists evs' s', no_submit evs' /\ q_runs s evs' = Some s' /\ s_workers s' = []
    /\ s_started s' = s_submitted s /\ s_log s' = serial_log LStart LEnd (length (s_submitted s)) false.
Proof.
  intros evs s H. destruct (Inv1_runs evs s H) as [HG H1].
  destruct (drain1 _ s HG H1 eq_refl) as [evs' [s' [Hns [Hr Hw]]]].
  destruct (Inv_runs_from _ _ _ (conj HG H1) Hr) as [HG' H1'].
  exists evs', s'. repeat split; try assumption.
  - rewrite <- (no_submit_submitted _ _ _ Hns Hr). apply (InvG_not_stranded 1); [lia|assumption|assumption].
  - unfold Inv1 in H1'. rewrite Hw in H1'. rewrite H1'.
    rewrite (InvG_not_stranded 1 s') by (try lia; assumption).
    rewrite (no_submit_submitted _ _ _ Hns Hr). reflexivity.
Qed.

(* Tie to the source: the counter arithmetic and the order of the three tests of getJob - queue the new job if there is
   one, add delta, give up when the count has reached the maximum, pop, give up on an empty queue, count the job - in
   the definition REGENERATED from task.go on this run (the queue operations themselves are inputs: what PopFront
   returns) agree with the model's get_job on the returned job and on the new count *)
Theorem C15_get_job_from_source : forall st new delta,
  let q1 := match new with Some t => wq_q st ++ [t] | None => wq_q st end in
  gf_gws_workerQueue_getJob (wq_cur st) (wq_max st) (job_code (hd_error q1)) (job_code new) delta
  = (job_code (snd (get_job st new delta)), wq_cur (fst (get_job st new delta))).
Proof. exact gen_getJob_is. Qed.

(* non-vacuity: two submitters' tasks 0,1,2 arrive while task 0 runs; the worker drains them in order,
   finds the queue empty and exits; task 3 arrives afterwards and is started by its own Submit *)
Example C15_nonvacuous :
  let evs := [Submit; Submit; Submit; TaskEnd 0; Fetch 0; TaskEnd 0; Fetch 0; TaskEnd 0; Fetch 0; Submit]%nat in
  exists s, q_runs (q_init 1) evs = Some s
    /\ s_log s = [LStart 0; LEnd 0; LStart 1; LEnd 1; LStart 2; LEnd 2; LStart 3]%nat
    /\ s_workers s = [(1, WRun 3)]%nat /\ wq_q (s_wq s) = [] /\ s_submitted s = [0; 1; 2; 3]%nat
    /\ q_step s (Fetch 0%nat) = None.
Proof. eexists. vm_compute. repeat split; reflexivity. Qed.

Print Assumptions C15_runs_once.
Print Assumptions C15_fifo.
Print Assumptions C15_bounded_concurrency.
Print Assumptions C15_mutual_exclusion.
Print Assumptions C15_not_stranded.
Print Assumptions C15_submit_when_idle.
Print Assumptions C15_worker_progress.
Print Assumptions C15_drains.
Print Assumptions C15_get_job_from_source.
