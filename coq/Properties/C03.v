(* C03 - Inbound frames: accept exactly what RFC 6455/7692 allows, else fail 1002.
   The reader model (Model/Reader.v: readMessage, readControl, emitMessage, reassembly state) REFINES the receive
   automaton of Spec/Rfc6455Recv.v, which is written from the RFCs: for every frame a peer can encode - every
   FIN/RSV/opcode/mask combination, every length form, every payload - in every reassembly state, both roles,
   compression negotiated or not.  The UTF-8 validator, the inflater and the LZ77 window are parameters. *)
From Gws Require Import Lib.Base Spec.MaskSpec Spec.Rfc6455 Spec.Rfc6455Recv Model.Header Model.CloseCode Model.Reader
  Proofs.FrameProofs Proofs.ReaderProofs Proofs.ReaderRefine Proofs.FragmentProofs Gen.Funcs Proofs.GenHeaderProofs Proofs.GenReaderProofs Model.Pool.
Local Open Scope N_scope.

Section C03.
Variable utf8_valid : list N -> bool.
Variable inflate : list N -> list N -> Z -> option (list N).
Variable W : Type.
Variable wdict : W -> list N.
Variable wwrite : W -> list N -> W.

(* One frame.  If the frame violates the protocol in the current state (violations <> []), the model delivers nothing
   and fails the connection with a status that belongs to one of the violations present in THAT frame; otherwise it
   does exactly what the specification says: ping/pong delivered and the reassembly state untouched, Close handed to the
   close handshake, data appended / completed (inflated, validated, delivered). *)
Theorem C03_frame_refines : forall c st lf f rest,
  frame_wf f -> lenform_ok lf (N.of_nat (length (f_payload f))) -> N.of_nat (length (f_payload f)) < 2 ^ 63 ->
  limit_ok c -> st_ok W st ->
  refines_step utf8_valid W c rest
    (recv_frame utf8_valid inflate W wdict wwrite (scfg_of c) (abs W st) f (minimal_of lf (N.of_nat (length (f_payload f)))))
    (read_message utf8_valid inflate W wdict wwrite c st (encode_frame lf f ++ rest)).
Proof. exact (read_message_refines utf8_valid inflate W wdict wwrite). Qed.

(* Every frame sequence.  The callbacks of the read loop are exactly those of the longest protocol-valid prefix, in
   order; at the first violating frame nothing later is delivered and the close status is one the violations of that
   frame allow; a Close frame ends the run in the close handshake; if all frames are valid the loop waits for more. *)
Theorem C03_stream_refines : forall c, limit_ok c -> forall fs fuel st,
  Forall sendable fs -> st_ok W st -> (length (enc_stream fs) < fuel)%nat ->
  refines_run utf8_valid W c
    (recv_frames utf8_valid inflate W wdict wwrite (scfg_of c) (abs W st) (spec_frames fs))
    (read_stream utf8_valid inflate W wdict wwrite fuel c st (enc_stream fs)).
Proof. exact (read_stream_refines utf8_valid inflate W wdict wwrite). Qed.

(* control frames interleaved inside a fragmented message do not disturb its reassembly: an acceptable ping leaves
   the (abstract) reassembly state exactly as it was *)
Theorem C03_control_inside_fragments : forall c (sst : sstate W) f m,
  violations W c sst f m = [] -> (f_op f = 9 \/ f_op f = 10) ->
  exists ev, recv_frame utf8_valid inflate W wdict wwrite c sst f m = RNext W [ev] sst.
Proof.
  intros c sst f m Hv Hop. unfold Rfc6455Recv.recv_frame. rewrite Hv.
  destruct Hop as [-> | ->]; cbn; eexists; reflexivity.
Qed.

(* ... and the whole-message form of that clause, for the reader model itself: a message sent as a first frame, any
   number of continuation frames and a final frame - any fragment boundaries, length forms and masking keys - with any
   ping/pong frames in between, read from an idle reader: the ping/pong callbacks come in wire order, and the message is
   treated exactly as `complete` treats the CONCATENATED payload (inflated when compressed, checked, delivered once). *)
Theorem C03_fragmented_message : forall c st fuel comp op lf0 k0 p0 cs0 mids lfl kl pl,
  limit_ok c -> cf_init W st = false ->
  (op = 1 \/ op = 2) -> (comp = true -> r_pmd c = true) ->
  Forall (ctl_ok (scfg_of c)) cs0 -> Forall (fun m => Forall (ctl_ok (scfg_of c)) (midw_ctls m)) mids ->
  let wire := message_wire (r_server c) comp op lf0 k0 p0 cs0 mids lfl kl pl in
  let payload := p0 ++ concat (map midw_payload mids) ++ pl in
  Forall sendable wire -> (Z.of_nat (length payload) <= r_limit c)%Z -> (length (enc_stream wire) < fuel)%nat ->
  refines_run utf8_valid W c
    (map ctl_event (cs0 ++ flat_map midw_ctls mids)
       ++ fst (as_run W (complete utf8_valid inflate W wdict wwrite (scfg_of c) (r_dps W st) op comp payload)),
     snd (as_run W (complete utf8_valid inflate W wdict wwrite (scfg_of c) (r_dps W st) op comp payload)))
    (read_stream utf8_valid inflate W wdict wwrite fuel c st (enc_stream wire)).
Proof. exact (reader_fragmented_message utf8_valid inflate W wdict wwrite). Qed.

(* Tie to the source.  The header checks of readMessage - read limit, reserved bits, mask bit against the role, RSV1 on
   control/continuation frames, dispatch of control frames - are regenerated from reader.go on every run as the ladder
   gf_gws_Conn_readMessage (Gen/Funcs.v: the leading statements of readMessage up to the first buffer operation, with
   checkMask and Opcode.isDataFrame translated too).  Fed with the header the model parsed, the ladder says what the
   model does: a positive value is the status the model fails with, -1 means the model runs readControl, 0 means every
   header check passed for a data frame.  A reordered, dropped, added or altered check in the source breaks this. *)
Theorem C03_header_checks_from_source : forall c st bs h rest,
  parse_header bs = POk h rest ->
  let g := gen_guards c h in
  (0 < g -> read_message utf8_valid inflate W wdict wwrite c st bs = SStop W [] (OFail W (Z.to_N g)))%Z
  /\ (g = -1 -> read_message utf8_valid inflate W wdict wwrite c st bs = read_control utf8_valid W c st h rest)%Z
  /\ (g = 0 -> is_data_op (get_opcode (h_b0 h)) = true
               /\ ((h_len h <? 0) || (h_len h >? r_limit c))%Z = false
               /\ (get_rsv2 (h_b0 h) || get_rsv3 (h_b0 h) || (get_rsv1 (h_b0 h) && negb (r_pmd c))) = false
               /\ ((r_server c && negb (get_mask (h_b1 h))) || (negb (r_server c) && get_mask (h_b1 h))) = false
               /\ (r_pmd c && get_rsv1 (h_b0 h) && (negb (is_data_op (get_opcode (h_b0 h))) || (get_opcode (h_b0 h) =? 0)%N)) = false)%Z
  /\ (g = 1009 \/ g = 1002 \/ g = -1 \/ g = 0)%Z.
Proof. exact (read_message_guards_from_source utf8_valid inflate W wdict wwrite). Qed.

(* ... and the rest of readMessage: once the payload has been read and unmasked, the model goes through the conditions of
   the source's remaining `if` statements (continuation without a message / new message inside one, final frame of an
   unfragmented message, first fragment, fragment limit, non-final fragment), regenerated from reader.go as
   gf_gws_Conn_readMessage_cond9..14, in the source's order *)
Theorem C03_reassembly_from_source : forall c st bs h rest raw rest' p,
  parse_header bs = POk h rest -> gen_guards c h = 0%Z ->
  (Pool.pool_cap (h_len h + 9) <? h_len h)%Z = false ->
  read_n (Z.to_nat (h_len h)) rest = inl (Some (raw, rest')) ->
  unmask (get_mask (h_b1 h)) (h_key h) raw = Some p ->
  read_message utf8_valid inflate W wdict wwrite c st bs
  = reassemble_src utf8_valid inflate W wdict wwrite c st (get_opcode (h_b0 h)) (get_fin (h_b0 h)) (r_pmd c && get_rsv1 (h_b0 h)) p rest'.
Proof. exact (read_message_tail_from_source utf8_valid inflate W wdict wwrite). Qed.

Theorem C03_control_checks_from_source : forall c st h rest,
  let g := gf_gws_Conn_readControl (get_fin (h_b0 h)) (Z.of_N (get_lencode (h_b1 h))) in
  (g = 1002 \/ g = 0)%Z /\ (g = 1002%Z -> read_control utf8_valid W c st h rest = SStop W [] (OFail W 1002)).
Proof. exact (read_control_guards_from_source utf8_valid inflate W wwrite). Qed.
End C03.

(* Tie to the source: the header accessors the reader model uses (FIN, RSV1-3, opcode, mask bit, length code) are the
   functions translator/funcs.go regenerates from types.go on every run, for every header byte *)
Theorem C03_header_accessors_from_source : forall b, b < 256 ->
  gf_gws_frameHeader_GetFIN (Z.of_N b) = get_fin b /\ gf_gws_frameHeader_GetRSV1 (Z.of_N b) = get_rsv1 b
  /\ gf_gws_frameHeader_GetRSV2 (Z.of_N b) = get_rsv2 b /\ gf_gws_frameHeader_GetRSV3 (Z.of_N b) = get_rsv3 b
  /\ gf_gws_frameHeader_GetOpcode (Z.of_N b) = Z.of_N (get_opcode b)
  /\ gf_gws_frameHeader_GetMask (Z.of_N b) = get_mask b /\ gf_gws_frameHeader_GetLengthCode (Z.of_N b) = Z.of_N (get_lencode b).
Proof. exact header_accessors_from_source. Qed.

(* the reader is a function of the byte string alone: how the bytes are cut into network reads cannot matter in the
   model; the harness varies the chunking (whole, byte by byte, random) against the real code *)

(* non-vacuity: server role, a text message in two fragments (the second with a non-minimal 16-bit length) with a
   ping in between, then a frame with RSV2 set, then a frame that is never looked at *)
Definition ex_frame (fin : bool) (op : N) (r2 : bool) (p : list N) : frame :=
  {| f_fin := fin; f_rsv1 := false; f_rsv2 := r2; f_rsv3 := false; f_op := op; f_masked := true; f_key := [1; 2; 3; 4]; f_payload := p |}.
Definition ex_frames : list (lenform * frame) :=
  [(LShortest, ex_frame false 1 false [104; 101]); (LShortest, ex_frame true 9 false [7]); (L16, ex_frame true 0 false [108]);
   (LShortest, ex_frame true 2 true [9]); (LShortest, ex_frame true 2 false [10])].

Example C03_nonvacuous :
  read_stream (fun _ => true) (fun _ _ _ => None) unit (fun _ => []) (fun w _ => w) 100
    {| r_server := true; r_pmd := false; r_limit := 100; r_utf8 := false |} (r_init unit tt) (enc_stream ex_frames)
  = ([EvPing [7]; EvMsg 1 [104; 101; 108]], OFail unit 1002).
Proof. vm_compute. reflexivity. Qed.

Example C03_nonvacuous_hyp : Forall sendable ex_frames.
Proof.
  unfold ex_frames, sendable, frame_wf, ex_frame, wf_bytes, byte_ok. cbn [fst snd f_op f_payload f_masked f_key length lenform_ok].
  repeat (apply Forall_cons || apply Forall_nil); repeat split; try reflexivity; try (cbn; lia); repeat (apply Forall_cons || apply Forall_nil); cbn; lia.
Qed.

Print Assumptions C03_frame_refines.
Print Assumptions C03_stream_refines.
Print Assumptions C03_control_inside_fragments.
Print Assumptions C03_fragmented_message.
Print Assumptions C03_header_accessors_from_source.
Print Assumptions C03_header_checks_from_source.
Print Assumptions C03_control_checks_from_source.
Print Assumptions C03_reassembly_from_source.
