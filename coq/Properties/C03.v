(* C03 placeholder: statements follow *)
From Gws Require Import Lib.Base.
Theorem C03_placeholder : True. Proof. exact I. Qed.
Print Assumptions C03_placeholder.
