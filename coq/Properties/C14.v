(* C14 - Buffer ownership: no mutation of caller data, no sharing of pooled memory.
   Proved here (skeleton regenerated from /repo each run): the per-connection compression window - a pooled slice on
   the server - is accessed only by the thread that holds that connection's lock, in every interleaving, including the
   reclamation at the end of the read loop racing with writers still in flight (finding D9 before fix 6589020); the
   shared compressor only under its own lock (D13, D16); the decompression window and the reader state only by the
   read loop.  NOT proved (Go aliasing is not expressible in the pure models): that caller payloads are never written
   or retained, that delivered messages are in no pool until Message.Close, that broadcast frames are released once
   after the last user - these are decided by the harness (checksums, pool scribbler, -race scenarios): testing. *)
From Coq Require Import List Bool Arith.
From Gws Require Import Skel.IR Skel.Checker Skel.Monitors Skel.GlobalGuard Skel.Link Skel.Obligations Skel.OblLock.
Import ListNotations.

Theorem C14_window_single_owner : forall (prog : nat -> stmt) (mode : nat -> lmode),
  (forall t, In (mode t, prog t) lock_programs) ->
  forall tr1 t w tr2 g, (forall t', thread_trace (prog t') (proj t' (tr1 ++ (t, AAcc FCpsWindow w) :: tr2))) ->
  lruns mode ls0 (tr1 ++ (t, AAcc FCpsWindow w) :: tr2) = Some g ->
  mode t <> MConstruct ->
  exists g1, lruns mode ls0 tr1 = Some g1 /\ lowner g1 LConn = Some t.
Proof.
  intros prog mode Hin tr1 t w tr2 g Htr Hr Hm.
  apply (system_guarded prog mode) with (f := FCpsWindow) (w := w) (tr2 := tr2) (g := g); try assumption; [|reflexivity].
  intro t'. pose proof skel_ok_lock as H. rewrite forallb_forall in H. exact (H _ (Hin t')).
Qed.

Theorem C14_compressor_single_owner : forall (prog : nat -> stmt) (mode : nat -> lmode),
  (forall t, In (mode t, prog t) lock_programs) ->
  forall tr1 t w tr2 g, (forall t', thread_trace (prog t') (proj t' (tr1 ++ (t, AAcc FCpsWriter w) :: tr2))) ->
  lruns mode ls0 (tr1 ++ (t, AAcc FCpsWriter w) :: tr2) = Some g ->
  mode t <> MConstruct ->
  exists g1, lruns mode ls0 tr1 = Some g1 /\ lowner g1 LCps = Some t.
Proof.
  intros prog mode Hin tr1 t w tr2 g Htr Hr Hm.
  apply (system_guarded prog mode) with (f := FCpsWriter) (w := w) (tr2 := tr2) (g := g); try assumption; [|reflexivity].
  intro t'. pose proof skel_ok_lock as H. rewrite forallb_forall in H. exact (H _ (Hin t')).
Qed.

Theorem C14_reader_state_confined : forall s, In (MOther, s) lock_programs ->
  forall p f w, thread_trace s (p ++ [AAcc f w]) -> guard_of f <> GReader.
Proof.
  intros s Hin. pose proof skel_ok_lock as H. rewrite forallb_forall in H. exact (reader_confined MOther s (H _ Hin) eq_refl).
Qed.

Print Assumptions C14_window_single_owner.
Print Assumptions C14_compressor_single_owner.
Print Assumptions C14_reader_state_confined.
