(* C06 - Close handshake: right reply, one Close frame, nothing after it.
   This file holds the DATA clauses (reply table, reported code/reason, local close body), proved for all 65536
   status codes and all reasons by interval case analysis.  The schedule clauses (at most one Close frame, nothing
   after it, later writes rejected - for every interleaving) are the skeleton obligations of Properties/Skel*.v. *)
From Gws Require Import Lib.Base Model.CloseCode Spec.CloseReply Proofs.CloseProofs.
Local Open Scope N_scope.

(* On receiving a Close frame with any body: the code and reason reported to the application are the peer's, and the
   body of the Close frame sent in reply is one the statement's table allows: empty for an empty body; 1002 for a
   one-byte body or a forbidden code (<1000, 1004-1006, 1015, 1016-2999, >=5000); 1007 for a non-UTF-8 reason when
   checking is on; the same status for 3000-4999; otherwise 1000. *)
Theorem C06_reply : forall (utf8_valid : list N -> bool) utf8_on body,
  wf_bytes body ->
  reply_ok utf8_on utf8_valid body (close_reply_body utf8_valid utf8_on body)
  /\ (let '(code, reason, _) := emit_close utf8_valid utf8_on body in (code, reason)) = peer_code_reason body.
Proof. exact close_reply_correct. Qed.

(* a locally requested close carries the caller's status (at least 1000) and the reason cut to 123 bytes *)
Theorem C06_local_close : forall code reason, code < 2 ^ 16 ->
  local_close_body code reason = local_close_spec code reason /\ (length (local_close_body code reason) <= 125)%nat.
Proof. exact local_close_correct. Qed.

(* the registered code 1014 (not forbidden by RFC 6455 7.4) is answered 1000 - it was answered 1002 before fix ffeca41 *)
Example C06_1014 : close_reply_body (fun _ => true) true [3; 246] = be16 1000.
Proof. vm_compute. reflexivity. Qed.

Example C06_nonvacuous :
  close_reply_body (fun _ => false) true [15; 160; 255] = be16 1007            (* 4000 with a non-UTF-8 reason *)
  /\ close_reply_body (fun _ => true) true [15; 160; 104] = be16 4000
  /\ close_reply_body (fun _ => true) true [3; 237] = be16 1002                (* 1005 *)
  /\ close_reply_body (fun _ => true) true [] = []
  /\ local_close_body 7 [1; 2; 3] = [3; 232; 1; 2; 3].
Proof. vm_compute. repeat split; reflexivity. Qed.

Print Assumptions C06_reply.
Print Assumptions C06_local_close.
