(* C06 - Close handshake: right reply, one Close frame, nothing after it.
   This file holds the DATA clauses (reply table, reported code/reason, local close body), proved for all 65536
   status codes and all reasons by interval case analysis, and the SCHEDULE clauses (at most one Close frame, no data
   frame after it - for every number of threads and every interleaving) for the concurrency skeleton that the
   translator regenerates from /repo on every run (Gen/Skel.v). *)
From Gws Require Import Lib.Base Model.CloseCode Spec.CloseReply Proofs.CloseProofs Gen.Funcs Proofs.GenCloseProofs.
From Gws Require Import Skel.IR Skel.Checker Skel.Monitors Skel.GlobalClose Skel.Link Skel.Obligations Skel.OblClose.
Local Open Scope N_scope.

(* On receiving a Close frame with any body: the code and reason reported to the application are the peer's, and the
   body of the Close frame sent in reply is one the statement's table allows: empty for an empty body; 1002 for a
   one-byte body or a forbidden code (<1000, 1004-1006, 1015, 1016-2999, >=5000); 1007 for a non-UTF-8 reason when
   checking is on; the same status for 3000-4999; otherwise 1000. *)
Theorem C06_reply : forall (utf8_valid : list N -> bool) utf8_on body,
  wf_bytes body ->
  reply_ok utf8_on utf8_valid body (close_reply_body utf8_valid utf8_on body)
  /\ (let '(code, reason, _) := emit_close utf8_valid utf8_on body in (code, reason)) = peer_code_reason body.
Proof. exact close_reply_correct. Qed.

(* a locally requested close carries the caller's status (at least 1000) and the reason cut to 123 bytes *)
Theorem C06_local_close : forall code reason, code < 2 ^ 16 ->
  local_close_body code reason = local_close_spec code reason /\ (length (local_close_body code reason) <= 125)%nat.
Proof. exact local_close_correct. Qed.

(* a close caused by an error - a transport fault or a violation by the peer, whatever the length of the error text -
   carries a two-byte status and at most 123 bytes of text: a valid control-frame payload *)
Theorem C06_error_close : forall reading e text,
  let st := emit_error_status reading e in
  0 < st < 2 ^ 16 ->
  error_close_body reading e text = error_close_spec st text /\ (length (error_close_body reading e text) <= 125)%nat.
Proof. exact error_close_correct. Qed.

(* Tie to the source: the reply-status table (`switch realCode` in emitClose) and StatusCode.Bytes, as regenerated from
   conn.go / internal/error.go on every run, are the model's close_class and status_bytes, for all 65536 status codes *)
Theorem C06_close_table_from_source : forall real dflt, real < 65536 ->
  gf_gws_Conn_emitClose_responseCode (Z.of_N real) dflt = Z.of_N (close_class real)
  /\ gf_internal_StatusCode_Bytes (Z.of_N real) = map Z.of_N (status_bytes real).
Proof. exact close_table_from_source. Qed.

(* ... and the truncation in writeClose (`if len(reason) > ThresholdV1`), regenerated from writer.go, is truncate_body *)
Theorem C06_truncation_from_source : forall b : list N,
  truncate_body b = (if gf_gws_Conn_writeClose_cond1 (Z.of_nat (length b)) then firstn 125 b else b)
  /\ gf_gws_Conn_writeClose_nconds = 1%nat.
Proof. exact truncate_from_source. Qed.

(* the registered code 1014 (not forbidden by RFC 6455 7.4) is answered 1000 - it was answered 1002 before fix ffeca41 *)
Example C06_1014 : close_reply_body (fun _ => true) true [3; 246] = be16 1000.
Proof. vm_compute. reflexivity. Qed.

Example C06_nonvacuous :
  close_reply_body (fun _ => false) true [15; 160; 255] = be16 1007            (* 4000 with a non-UTF-8 reason *)
  /\ close_reply_body (fun _ => true) true [15; 160; 104] = be16 4000
  /\ close_reply_body (fun _ => true) true [3; 237] = be16 1002                (* 1005 *)
  /\ close_reply_body (fun _ => true) true [] = []
  /\ local_close_body 7 [1; 2; 3] = [3; 232; 1; 2; 3].
Proof. vm_compute. repeat split; reflexivity. Qed.

(* ---- schedule clauses.  A system = any assignment of programs to thread ids, each program being one of the
   connection-level entry points of gws (WriteMessage, Writev, WriteAsync, WriteFile, Broadcast, WriteClose, ReadLoop,
   SetDeadline ... in either role) or a goroutine such a call starts (async queue worker, parallel handler), as extracted
   from the current source.  tr = any global interleaving of their actions that respects the connection mutex and the
   atomic closed flag (gruns ... = Some g).  Then the wire log has at most one Close frame and no data frame after it. *)
Theorem C06_one_close_nothing_after : forall prog : nat -> stmt,
  (forall t, In (prog t) conn_programs) ->
  forall tr g, (forall t, thread_trace (prog t) (proj t tr)) ->
  gruns g0 (ctrace tr) = Some g ->
  (closes (log g) <= 1)%nat /\ nda (log g) = true.
Proof.
  intros prog Hin. apply system_one_close. intro t.
  pose proof skel_ok_close as H. rewrite forallb_forall in H. exact (H _ (Hin t)).
Qed.

(* the thread-local discipline behind it, checked on the regenerated skeleton: a data frame is written only while holding
   Conn.mu and after reading closed = false under it; the Close frame only by the CAS winner, once, under the lock;
   the transport is closed only by that thread; a call that reads closed = true under the lock writes nothing *)
Theorem C06_skeleton_discipline : forallb close_ok conn_programs = true.
Proof. exact skel_ok_close. Qed.

Print Assumptions C06_reply.
Print Assumptions C06_local_close.
Print Assumptions C06_error_close.
Print Assumptions C06_one_close_nothing_after.
Print Assumptions C06_skeleton_discipline.
Print Assumptions C06_close_table_from_source.
Print Assumptions C06_truncation_from_source.
