(* C11 - Client handshake: fresh key, strict validation of the 101 response.
   Statements only; each is closed by a lemma of Proofs/ClientProofs.v.

   Scope: the model starts at the header map handed to net/http (request) and at the response as parsed
   by net/http.  NOT provable in this model and checked by the harness only:
   - key FRESHNESS / unpredictability (a property of the random source; the harness checks that 2000
     handshakes use pairwise distinct keys);
   - "an error closes the transport", the bound by HandshakeTimeout when the server never answers, no
     goroutine left behind (runtime behaviour; D11 was found and fixed there);
   - frames glued behind the 101 are not lost (the bufio.Reader that parsed the response is the one stored
     in the connection: a data-flow fact about pointers, exercised by the harness with frames in the same
     chunk and in a following one). *)
From Coq Require Import Strings.String.
From Gws Require Import Lib.Base Lib.Hex Lib.Text Gen.Consts Model.Sha1 Model.Base64 Model.Handshake
  Spec.UpgradeRule Proofs.TextProofs Proofs.HandshakeProofs Proofs.Base64Proofs Proofs.ClientProofs.
Local Open Scope string_scope.
Local Open Scope list_scope.
Local Open Scope N_scope.

(* The client accepts iff: status 101, Upgrade = websocket (any letter case), Connection has the upgrade
   token, Sec-WebSocket-Accept = base64(SHA-1(ITS key ++ RFC GUID)) byte for byte and, when it requested
   subprotocols, the response selects one of them.  Hypotheses as in C10_upgrade_iff. *)
Theorem C11_accepts_iff : forall key request_header rs,
  canonical_keys (rs_headers rs) ->
  is_ascii (field (str "Upgrade") (rs_headers rs)) = true ->
  connection_unambiguous (field (str "Connection") (rs_headers rs)) ->
  ((exists sub, client_handshake key request_header rs = CAccepted sub) <->
   should_accept key (requested_protocols request_header) (rs_status rs) (rs_headers rs)).
Proof. exact client_accepts_iff. Qed.

(* The subprotocol the connection reports: none when none was requested; otherwise one that was requested
   and is in the response - THE selected one when the response names a single subprotocol s. *)
Theorem C11_subprotocol : forall key request_header rs sub,
  canonical_keys (rs_headers rs) ->
  client_handshake key request_header rs = CAccepted sub ->
  let req := requested_protocols request_header in
  let sel := field (str "Sec-WebSocket-Protocol") (rs_headers rs) in
  ((forall t, ~ offers req t) -> sub = [])
  /\ ((exists t, offers req t) -> offers req sub /\ offers sel sub)
  /\ (forall s, (forall t, offers sel t -> t = s) -> (exists t, offers req t) -> sub = s).
Proof. exact client_subprotocol. Qed.

(* The requested list is found under EVERY spelling of the RequestHeader key (the defect D14 was: only the
   canonical spelling), provided the map holds one entry of that name. *)
Theorem C11_requested_any_spelling : forall pre k v post,
  lower_s k = lower_s (str "Sec-WebSocket-Protocol") -> is_ascii k = true ->
  (forall kv, In kv (pre ++ post) -> is_ascii (fst kv) = true /\ lower_s (fst kv) <> lower_s (str "Sec-WebSocket-Protocol")) ->
  requested_protocols (pre ++ (k, v) :: post) = v.
Proof. exact requested_any_spelling. Qed.

(* The request: Connection: Upgrade, Upgrade: websocket, Sec-WebSocket-Version: 13, the extension offer when
   enabled, a key that is the 24-character base64 text of exactly 16 bytes - for EVERY pair of draws x, y -
   and decoding it gives those 16 bytes back; every other configured header is passed through. *)
Theorem C11_request_wellformed : forall request_header pmd x y,
  let m := client_request request_header pmd x y in
  hget m K_connection = str "Upgrade" /\ hget m K_upgrade = str "websocket" /\ hget m K_version = str "13"
  /\ hget m K_key = gen_key x y
  /\ (forall e, pmd = Some e -> hget m K_extensions = e)
  /\ length (gen_key x y) = 24%nat
  /\ b64_decode (gen_key x y) = Some (key_bytes x y)
  /\ length (key_bytes x y) = 16%nat
  /\ (forall k, ~ In (canon k) (map canon [K_connection; K_upgrade; K_version; K_extensions; K_key]) ->
                hget m k = hget request_header k).
Proof. exact request_wellformed. Qed.

(* the 16 bytes are the two draws, big-endian: nothing of a 64-bit draw is lost *)
Theorem C11_key_bytes_are_the_draws : forall x y, x < 2 ^ 64 -> y < 2 ^ 64 ->
  be_value (firstn 8 (key_bytes x y)) = x /\ be_value (skipn 8 (key_bytes x y)) = y.
Proof.
  intros x y Hx Hy. unfold key_bytes.
  rewrite firstn_app, skipn_app, be_bytes_length, Nat.sub_diag, firstn_all2, skipn_all2 by (rewrite be_bytes_length; lia).
  cbn [firstn skipn app]. rewrite app_nil_r, !be_bytes_value. change (2 ^ (8 * N.of_nat 8)) with (2 ^ 64).
  split; apply N.mod_small; assumption.
Qed.

(* base64 loses nothing, for all byte strings (used above for 16 bytes) *)
Theorem C11_base64_roundtrip : forall l, wf_bytes l -> b64_decode (b64_encode l) = Some l.
Proof. exact b64_roundtrip. Qed.

(* ---- non-vacuity ---- *)
Definition ex_response (accept : bytes) : response :=
  {| rs_status := 101;
     rs_headers := [(str "Upgrade", str "WebSocket"); (str "Connection", str "keep-alive, upgrade");
                    (str "Sec-Websocket-Accept", accept); (str "Sec-Websocket-Protocol", str "chat")] |}.

Example C11_nonvacuous :
  let key := gen_key 1311768467463790320 81985529216486895 in
  let rh := [(str "sec-websocket-protocol", str "mqtt, chat"); (str "X-Token", str "t")] in
  key = str "EjRWeJq83vABI0VniavN7w=="
  /\ client_handshake key rh (ex_response (compute_accept_key key)) = CAccepted (str "chat")
  /\ client_handshake key rh (ex_response (compute_accept_key (str "dGhlIHNhbXBsZSBub25jZQ=="))) = CRejected CAccept
  /\ client_handshake key [(str "Sec-WebSocket-Protocol", str "mqtt")] (ex_response (compute_accept_key key)) = CRejected CSubprotocol
  /\ client_handshake key rh {| rs_status := 200; rs_headers := rs_headers (ex_response (compute_accept_key key)) |} = CRejected CStatus
  /\ hget (client_request rh (Some (str "permessage-deflate")) 1311768467463790320 81985529216486895) (str "x-token") = str "t".
Proof. vm_compute. repeat split. Qed.

Print Assumptions C11_accepts_iff.
Print Assumptions C11_subprotocol.
Print Assumptions C11_requested_any_spelling.
Print Assumptions C11_request_wellformed.
Print Assumptions C11_key_bytes_are_the_draws.
Print Assumptions C11_base64_roundtrip.
