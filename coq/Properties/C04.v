(* C04 - No input from the peer can crash, hang or over-allocate the endpoint (modelled part: the read loop).
   For EVERY byte string - not only frame sequences - the reader model never reaches a Go panic (slice bounds in
   readMessage, index in MaskXOR), never runs out of fuel |bytes|+1 (every iteration consumes at least two bytes,
   so the loop cannot spin on input it already has), and always ends in one of the terminal outcomes that make
   ReadLoop report closure and return (stream ended, failed with a status, peer close).
   Hypothesis limit_ok: 0 <= ReadMaxPayloadSize and ReadMaxPayloadSize + 9 <= 2^31; without it the uint32 rounding
   in BufferPool.Get makes the model panic: C04_large_limit_refuted (finding D12). *)
From Gws Require Import Lib.Base Model.Header Model.Pool Model.CloseCode Model.Reader Proofs.ReaderProofs Gen.Funcs Proofs.GenPoolProofs.
Local Open Scope N_scope.

Theorem C04_never_panics_terminates :
  forall (utf8_valid : list N -> bool) (inflate : list N -> list N -> Z -> option (list N))
         (W : Type) (wdict : W -> list N) (wwrite : W -> list N -> W),
  (forall d s l out, inflate d s l = Some out -> (Z.of_nat (length out) <= l)%Z) ->
  forall c, limit_ok c -> forall fuel st bs, wf_bytes bs -> (length bs < fuel)%nat ->
  let '(evs, o) := read_stream utf8_valid inflate W wdict wwrite fuel c st bs in
  o <> OPanic W /\ o <> OFuel W /\ Forall (ev_small c) evs.
Proof. intros u i W wd ww Hi c Hc. exact (read_stream_safe u i W wd ww Hi c Hc). Qed.

(* each call of readMessage that continues has consumed input: the loop makes progress *)
Theorem C04_progress :
  forall (utf8_valid : list N -> bool) (inflate : list N -> list N -> Z -> option (list N))
         (W : Type) (wdict : W -> list N) (wwrite : W -> list N -> W),
  (forall d s l out, inflate d s l = Some out -> (Z.of_nat (length out) <= l)%Z) ->
  forall c st bs, wf_bytes bs -> limit_ok c ->
  step_safe W c bs (read_message utf8_valid inflate W wdict wwrite c st bs).
Proof. intros u i W wd ww Hi c st bs Hw Hc. exact (read_message_safe u i W wd ww Hi c st bs Hw Hc). Qed.

(* the buffer obtained from the pool is always large enough for the declared payload, for requests up to 2^31 *)
Theorem C04_pool_cap_sufficient : forall n : Z, (1 <= n <= 2 ^ 31)%Z -> (n <= pool_cap n)%Z.
Proof. exact pool_cap_ge. Qed.

(* Tie to the source: the uint32 rounding of BufferPool.Get (binaryCeil), as regenerated from internal/pool.go on every
   run, is the model's binary_ceil *)
Theorem C04_pool_rounding_from_source : forall v, (v < 2 ^ 32)%N ->
  gf_internal_binaryCeil (Z.of_N v) = Z.of_N (binary_ceil v).
Proof. exact pool_rounding_from_source. Qed.

(* D12: with a read limit of 2^32 a 10-byte header declaring 2^31-1 bytes makes readMessage slice a 128-byte buffer *)
Theorem C04_large_limit_refuted :
  exists c bs, wf_bytesb bs = true /\ (0 <= r_limit c)%Z /\
    read_message (fun _ => true) (fun _ _ _ => None) unit (fun _ => []) (fun w _ => w) c (r_init unit tt) bs
    = SStop unit [] (OPanic unit).
Proof.
  exists {| r_server := false; r_pmd := false; r_limit := 2 ^ 32; r_utf8 := false |},
         [130; 127; 0; 0; 0; 0; 127; 255; 255; 255].
  vm_compute. repeat split; try reflexivity. discriminate.
Qed.

(* non-vacuity: a hostile prefix (64-bit length with the top bit set) is answered with 1009, garbage ends cleanly *)
Example C04_nonvacuous :
  let c := {| r_server := true; r_pmd := true; r_limit := 1000; r_utf8 := true |} in
  limit_ok c
  /\ read_stream (fun _ => true) (fun _ _ _ => None) unit (fun _ => []) (fun w _ => w) 20 c (r_init unit tt)
       [130; 255; 128; 0; 0; 0; 0; 0; 0; 0; 1; 2; 3; 4] = ([], OFail unit 1009)
  /\ read_stream (fun _ => true) (fun _ _ _ => None) unit (fun _ => []) (fun w _ => w) 20 c (r_init unit tt)
       [137; 130; 1; 2; 3; 4; 96; 96; 129] = ([EvPing [97; 98]], OMore unit (r_init unit tt) true).
Proof. split; [unfold limit_ok; cbn; lia|]. vm_compute. split; reflexivity. Qed.

Print Assumptions C04_never_panics_terminates.
Print Assumptions C04_progress.
Print Assumptions C04_pool_cap_sufficient.
Print Assumptions C04_pool_rounding_from_source.
Print Assumptions C04_large_limit_refuted.
