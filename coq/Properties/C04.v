(* C04 placeholder: statements follow *)
From Gws Require Import Lib.Base.
Theorem C04_placeholder : True. Proof. exact I. Qed.
Print Assumptions C04_placeholder.
