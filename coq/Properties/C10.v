(* C10 - Server handshake: upgrade exactly the valid, authorised requests.
   Statements only; each is closed by a lemma of Proofs/HandshakeProofs.v.

   Scope: the model (Model/Handshake.v) starts at the request as parsed by net/http and assumes a
   transport that accepts every write.  NOT proved here (checked by the harness only): that the session
   object handed to Authorize is the one in the returned connection and is fresh per upgrade (object
   identity is outside the sequential model); write faults during the handshake (C09). *)
From Coq Require Import Strings.String.
From Gws Require Import Lib.Base Lib.Hex Lib.Text Gen.Consts Model.Sha1 Model.Base64 Model.Handshake
  Spec.UpgradeRule Proofs.TextProofs Proofs.HandshakeProofs.
Local Open Scope string_scope.
Local Open Scope list_scope.
Local Open Scope N_scope.

(* The server returns a connection iff the request is a GET with version 13, Upgrade = websocket
   (any letter case), a Connection header with the upgrade token, a non-empty key, the authorisation
   callback agrees and, when the server lists subprotocols, one is shared with the client.
   Hypotheses = domain of the statement:
   - header keys canonical: what net/http's parser produces;
   - Upgrade value ASCII: Go's EqualFold also folds U+212A (Kelvin) to k and U+017F (long s) to s,
     see C10_unicode_fold_refuted - outside the statement's "any letter case";
   - connection_unambiguous: no list element of Connection merely contains "upgrade" (gws matches
     substrings, its unit test asserts that): the property does not decide those requests. *)
Theorem C10_upgrade_iff : forall (authorize : request -> bool) (pmd_response : bytes -> bytes) opts req,
  canonical_keys (r_headers req) ->
  is_ascii (field (str "Upgrade") (r_headers req)) = true ->
  connection_unambiguous (field (str "Connection") (r_headers req)) ->
  ((exists u, do_upgrade authorize pmd_response opts req = Upgraded u) <->
   should_upgrade (authorize req) (so_subprotocols opts) (r_method req) (r_headers req)).
Proof. exact upgrade_iff. Qed.

(* The header lines the server itself writes are exactly: Upgrade, Connection, [the extension response],
   Sec-WebSocket-Accept = base64(SHA-1(key ++ RFC GUID)) - the model's GUID is the constant generated from
   /repo -, [Sec-WebSocket-Protocol = the first entry of the SERVER's list that the client offers].
   The extension is negotiated iff the server enables it and the client's offer contains the token.
   Configured extra headers: a line whose name is one of the five protected names (any letter case) has an
   empty value, whatever the spelling of the configured keys; with canonical keys (Header.Set/Add) no such
   line is written at all. *)
Theorem C10_response_fields : forall (authorize : request -> bool) (pmd_response : bytes -> bytes) opts req u,
  canonical_keys (r_headers req) ->
  do_upgrade authorize pmd_response opts req = Upgraded u ->
  let h := r_headers req in
  let ext := field (str "Sec-WebSocket-Extensions") h in
  let offer := field (str "Sec-WebSocket-Protocol") h in
  u_fixed u = response_fields (if u_pmd u then Some (pmd_response ext) else None)
                              (field (str "Sec-WebSocket-Key") h)
                              (if is_nil (so_subprotocols opts) then None else Some (u_subprotocol u))
  /\ (u_pmd u = true <-> so_pmd opts = true /\ offers_pmd ext)
  /\ (so_subprotocols opts = [] -> u_subprotocol u = [])
  /\ (so_subprotocols opts <> [] -> first_common (so_subprotocols opts) offer (u_subprotocol u))
  /\ (forall k v, In (k, v) (u_extra u) -> protected_name k -> v = [])
  /\ (canonical_keys (so_extra opts) -> forall k v, In (k, v) (u_extra u) -> ~ protected_name k).
Proof. exact response_fields_spec. Qed.

(* the generated constant is the RFC's GUID (fails to compile if /repo's MagicNumber changes) *)
Theorem C10_guid_is_rfc : str internal_MagicNumber = RFC_GUID.
Proof. exact magic_is_rfc_guid. Qed.

(* what goes on the wire and what is returned after a successful upgrade *)
Theorem C10_upgraded_outcome : forall authorize pmd_response date opts req u,
  do_upgrade authorize pmd_response opts req = Upgraded u ->
  let out := upgrade_from_conn authorize pmd_response date opts req in
  o_conn out = Some u /\ o_closed out = false /\ o_written out = response_bytes u.
Proof. exact upgraded_outcome. Qed.

(* Otherwise: no connection, the transport is closed, what was written starts with an HTTP 400 status
   line and not with a 101. *)
Theorem C10_reject_no_101 : forall authorize pmd_response date opts req e,
  do_upgrade authorize pmd_response opts req = Rejected e ->
  let out := upgrade_from_conn authorize pmd_response date opts req in
  o_conn out = None /\ o_closed out = true
  /\ (exists rest, o_written out = str "HTTP/1.1 400 Bad Request" ++ [13; 10] ++ rest)
  /\ prefixb (str "HTTP/1.1 101") (o_written out) = false.
Proof. exact reject_outcome. Qed.

(* ---- SHA-1 / base64: FIPS 180 and RFC 4648 / RFC 6455 vectors, by computation ---- *)
Example C10_sha1_vectors :
  sha1 [] = hex "da39a3ee5e6b4b0d3255bfef95601890afd80709"
  /\ sha1 (str "abc") = hex "a9993e364706816aba3e25717850c26c9cd0d89d"
  /\ sha1 (str "abcdbcdecdefdefgefghfghighijhijkijkljklmklmnlmnomnopnopq") = hex "84983e441c3bd26ebaae4aa1f95129e5e54670f1"
  /\ sha1 (repeat 97 55) = hex "c1c8bbdc22796e28c0e15163d20899b65621d65a"
  /\ sha1 (repeat 97 64) = hex "0098ba824b5c16427bd7a1122a5a442a25ec644d"
  /\ sha1 (repeat 97 119) = hex "ee971065aaa017e0632a8ca6c77bb3bf8b1dfc56"
  /\ sha1 (repeat 97 120) = hex "f34c1488385346a55709ba056ddd08280dd4c6d6".
Proof. vm_compute. repeat split. Qed.

Example C10_base64_vectors :
  b64_encode [] = [] /\ b64_encode (str "f") = str "Zg==" /\ b64_encode (str "fo") = str "Zm8="
  /\ b64_encode (str "foo") = str "Zm9v" /\ b64_encode (str "foob") = str "Zm9vYg=="
  /\ b64_encode (str "fooba") = str "Zm9vYmE=" /\ b64_encode (str "foobar") = str "Zm9vYmFy"
  /\ b64_encode [251; 239; 190; 255] = str "++++/w==".
Proof. vm_compute. repeat split. Qed.

Example C10_rfc6455_accept :
  compute_accept_key (str "dGhlIHNhbXBsZSBub25jZQ==") = str "s3pPLMBiTxaQ9kYGzzhZRbK+xOo=".
Proof. vm_compute. reflexivity. Qed.

(* ---- non-vacuity: a request satisfying every hypothesis is upgraded, with the expected fields ---- *)
Definition ex_request : request :=
  {| r_method := str "GET";
     r_headers := [(str "Connection", str "keep-alive, UpGrade"); (str "Upgrade", str "WebSocket");
                   (str "Sec-Websocket-Version", str "13"); (str "Sec-Websocket-Key", str "dGhlIHNhbXBsZSBub25jZQ==");
                   (str "Sec-Websocket-Protocol", str "superchat , chat"); (str "Origin", str "http://example.com");
                   (str "Sec-Websocket-Extensions", str "permessage-deflate; client_max_window_bits")] |}.
Definition ex_opts : server_opts :=
  {| so_subprotocols := [str "mqtt"; str "chat"; str "superchat"]; so_pmd := true;
     so_extra := [(str "X-Server", str "gws"); (str "Upgrade", str "h2c"); (str "sec-websocket-accept", str "evil")] |}.

Example C10_nonvacuous :
  Forall (fun kv => canon (fst kv) = fst kv) (r_headers ex_request)
  /\ is_ascii (field (str "Upgrade") (r_headers ex_request)) = true
  /\ do_upgrade (fun _ => true) (fun _ => str "permessage-deflate") ex_opts ex_request
     = Upgraded {| u_fixed := [(str "Upgrade", str "websocket"); (str "Connection", str "Upgrade");
                               (str "Sec-WebSocket-Extensions", str "permessage-deflate");
                               (str "Sec-WebSocket-Accept", str "s3pPLMBiTxaQ9kYGzzhZRbK+xOo=");
                               (str "Sec-WebSocket-Protocol", str "chat")];
                   u_extra := [(str "X-Server", str "gws"); (str "sec-websocket-accept", [])];
                   u_subprotocol := str "chat"; u_pmd := true |}
  /\ do_upgrade (fun _ => false) (fun _ => []) ex_opts ex_request = Rejected EUnauthorized
  /\ do_upgrade (fun _ => true) (fun _ => []) {| so_subprotocols := [str "mqtt"]; so_pmd := false; so_extra := [] |} ex_request
     = Rejected ESubprotocol.
Proof. vm_compute. repeat split; repeat constructor. Qed.

Example C10_nonvacuous_unambiguous : connection_unambiguous (field (str "Connection") (r_headers ex_request)).
Proof.
  intros t Hin Hc. vm_compute in Hin. destruct Hin as [<-|[<-|[]]]; [vm_compute in Hc; discriminate|reflexivity].
Qed.

(* ---- finding (outside the statement's domain, hence the is_ascii hypothesis above): strings.EqualFold
   is Unicode simple folding, so an Upgrade value spelled with U+212A KELVIN SIGN is accepted ---- *)
Example C10_unicode_fold_refuted : exists req,
  canonical_keys (r_headers req)
  /\ lower_s (field (str "Upgrade") (r_headers req)) <> str "websocket"
  /\ exists u, do_upgrade (fun _ => true) (fun _ => []) {| so_subprotocols := []; so_pmd := false; so_extra := [] |} req = Upgraded u.
Proof.
  exists {| r_method := str "GET";
            r_headers := [(str "Connection", str "Upgrade"); (str "Upgrade", str "websoc" ++ [226; 132; 170] ++ str "et");
                          (str "Sec-Websocket-Version", str "13"); (str "Sec-Websocket-Key", str "x")] |}.
  split; [repeat constructor|]. split; [vm_compute; discriminate|]. eexists. vm_compute. reflexivity.
Qed.

Print Assumptions C10_upgrade_iff.
Print Assumptions C10_response_fields.
Print Assumptions C10_guid_is_rfc.
Print Assumptions C10_upgraded_outcome.
Print Assumptions C10_reject_no_101.
