(* From checked thread programs to global guarantees: if every thread of a system runs a program accepted by the
   checker, every consistent interleaving enjoys the global theorems of GlobalClose / GlobalGuard. *)
From Coq Require Import List Bool Arith Lia.
From Gws Require Import Skel.IR Skel.Checker Skel.Monitors Skel.GlobalClose Skel.GlobalGuard.
Import ListNotations.

Definition proj (t : nat) (tr : list (nat * act)) : list act :=
  map snd (filter (fun x => Nat.eqb (fst x) t) tr).

Lemma proj_cons_same t a tr : proj t ((t, a) :: tr) = a :: proj t tr.
Proof. unfold proj. cbn. rewrite Nat.eqb_refl. reflexivity. Qed.
Lemma proj_cons_other t t' a tr : t' <> t -> proj t ((t', a) :: tr) = proj t tr.
Proof. intro H. unfold proj. cbn. replace (t' =? t) with false by (symmetry; apply Nat.eqb_neq; exact H). reflexivity. Qed.

Lemma thread_trace_prefix s p q : thread_trace s (p ++ q) -> thread_trace s p.
Proof. intros [r [k H]]. exists (q ++ r), k. rewrite app_assoc. exact H. Qed.

(* ---------------------------------------------------------------- close discipline *)
Definition ctrace (tr : list (nat * act)) : list (GlobalClose.tid * cact) := map (fun x => (fst x, abs_close (snd x))) tr.

Lemma gstep_ms g t a g' : gstep g t a = Some g' -> ms g' = GlobalClose.upd (ms g) t (cstep (ms g t) a).
Proof.
  unfold gstep. intro H. destruct a; repeat match type of H with context [match ?x with _ => _ end] => destruct x; try discriminate end;
  inversion H; reflexivity.
Qed.

Definition crun := run mclose mclose_step.

Lemma gruns_ms : forall tr g1 g, gruns g1 (ctrace tr) = Some g ->
  forall t, ms g t = crun (ms g1 t) (proj t tr).
Proof.
  induction tr as [|[t0 a0] tr IH]; intros g1 g H t; cbn in H.
  - inversion H; subst. reflexivity.
  - destruct (gstep g1 t0 (abs_close a0)) as [g2|] eqn:E; [|discriminate].
    rewrite (IH _ _ H t). rewrite (gstep_ms _ _ _ _ E).
    destruct (Nat.eq_dec t t0) as [->|Hne].
    + rewrite proj_cons_same, GlobalClose.upd_same. reflexivity.
    + rewrite proj_cons_other by congruence. rewrite GlobalClose.upd_other by assumption. reflexivity.
Qed.

Definition close_ok (s : stmt) : bool := check mclose mclose_eqb mclose_step c_bad 200 (fun _ => true) s mclose0.

Theorem system_one_close (prog : nat -> stmt) :
  (forall t, close_ok (prog t) = true) ->
  forall tr g, (forall t, thread_trace (prog t) (proj t tr)) ->
  gruns g0 (ctrace tr) = Some g ->
  closes (log g) <= 1 /\ nda (log g) = true.
Proof.
  intros Hok tr g Htr Hr. apply (one_close_nothing_after (ctrace tr) g Hr).
  intro t. rewrite (gruns_ms _ _ _ Hr t). cbn [ms g0].
  apply (check_sound mclose mclose_eqb mclose_eqb_spec mclose_step c_bad mclose_bad_abs 200 (fun _ => true) (prog t) mclose0 (Hok t)).
  apply Htr.
Qed.

(* ---------------------------------------------------------------- lock discipline *)
Definition lock_ok (m : lmode) (s : stmt) : bool := check mlock mlock_eqb (mlock_step m) l_bad 200 mlock_final s mlock0.

Lemma lruns_ms mode : forall tr g1 g, lruns mode g1 tr = Some g ->
  forall t, lms g t = run mlock (mlock_step (mode t)) (lms g1 t) (proj t tr).
Proof.
  induction tr as [|[t0 a0] tr IH]; intros g1 g H t; cbn in H.
  - inversion H; subst. reflexivity.
  - destruct (lstep mode g1 t0 a0) as [g2|] eqn:E; [|discriminate].
    rewrite (IH _ _ H t). rewrite (lstep_ms mode _ _ _ _ E).
    destruct (Nat.eq_dec t t0) as [->|Hne].
    + rewrite proj_cons_same, updm_same. reflexivity.
    + rewrite proj_cons_other by congruence. rewrite updm_other by assumption. reflexivity.
Qed.

Theorem system_guarded (prog : nat -> stmt) (mode : nat -> lmode) :
  (forall t, lock_ok (mode t) (prog t) = true) ->
  forall tr1 t f w tr2 g l, (forall t', thread_trace (prog t') (proj t' (tr1 ++ (t, AAcc f w) :: tr2))) ->
  lruns mode ls0 (tr1 ++ (t, AAcc f w) :: tr2) = Some g ->
  mode t <> MConstruct -> guard_of f = GLock l ->
  exists g1, lruns mode ls0 tr1 = Some g1 /\ lowner g1 l = Some t.
Proof.
  intros Hok tr1 t f w tr2 g l Htr Hr Hm Hg.
  apply (guarded_access_exclusive mode tr1 t f w tr2 g l Hr); try assumption.
  intro t'. rewrite (lruns_ms mode _ _ _ Hr t'). cbn [lms ls0].
  apply (check_sound mlock mlock_eqb mlock_eqb_spec (mlock_step (mode t')) l_bad (mlock_bad_abs (mode t')) 200 mlock_final (prog t') mlock0 (Hok t')).
  apply Htr.
Qed.

(* a completed call holds no lock (lock/unlock are balanced on every path, including error returns) *)
Theorem call_releases_locks m s : lock_ok m s = true ->
  forall t k, exec s t k -> k <> KB -> l_held (run mlock (mlock_step m) mlock0 t) = [].
Proof.
  intros Hok t k He Hk.
  pose proof (check_final mlock mlock_eqb mlock_eqb_spec (mlock_step m) l_bad 200 mlock_final s mlock0 Hok t k He Hk) as H.
  unfold mlock_final in H. destruct (l_held _); [reflexivity|discriminate].
Qed.

(* frames are written only by the owner of the connection lock *)
Theorem system_wire_by_owner (prog : nat -> stmt) :
  (forall t, close_ok (prog t) = true) ->
  forall tr1 t a tr2 g, (forall t', thread_trace (prog t') (proj t' (tr1 ++ (t, a) :: tr2))) ->
  gruns g0 (ctrace (tr1 ++ (t, a) :: tr2)) = Some g ->
  (abs_close a = CData \/ abs_close a = CClose) ->
  exists g1, gruns g0 (ctrace tr1) = Some g1 /\ owner g1 = Some t.
Proof.
  intros Hok tr1 t a tr2 g Htr Hr Ha.
  unfold ctrace in Hr. rewrite map_app in Hr. cbn [map fst snd] in Hr.
  apply (wire_by_owner _ t (abs_close a) _ g Hr); [|exact Ha].
  intro t'.
  assert (Hr' : gruns g0 (ctrace (tr1 ++ (t, a) :: tr2)) = Some g) by (unfold ctrace; rewrite map_app; exact Hr).
  rewrite (gruns_ms _ _ _ Hr' t'). cbn [ms g0].
  apply (check_sound mclose mclose_eqb mclose_eqb_spec mclose_step c_bad mclose_bad_abs 200 (fun _ => true) (prog t') mclose0 (Hok t')).
  apply Htr.
Qed.

Theorem system_transport_closed_once (prog : nat -> stmt) :
  (forall t, close_ok (prog t) = true) ->
  forall tr g, (forall t, thread_trace (prog t) (proj t tr)) ->
  gruns g0 (ctrace tr) = Some g -> conncloses (log g) <= 1.
Proof.
  intros Hok tr g Htr Hr. apply (transport_closed_once (ctrace tr) g Hr).
  intro t. rewrite (gruns_ms _ _ _ Hr t). cbn [ms g0].
  apply (check_sound mclose mclose_eqb mclose_eqb_spec mclose_step c_bad mclose_bad_abs 200 (fun _ => true) (prog t) mclose0 (Hok t)).
  apply Htr.
Qed.

Lemma run_snoc {M} (step : M -> act -> M) m p a : run M step m (p ++ [a]) = step (run M step m p) a.
Proof. unfold run. rewrite fold_left_app. reflexivity. Qed.

(* lock order: whenever a checked thread acquires a lock, every lock it already holds has a strictly smaller rank
   (Conn.mu < deflater locks < queue / map / other leaf locks): no cycle of threads waiting for each other's gws locks *)
Theorem lock_order_respected m s : lock_ok m s = true ->
  forall p l, thread_trace s (p ++ [ALock l]) ->
  forallb (fun x => rank x <? rank l) (l_held (run mlock (mlock_step m) mlock0 p)) = true
  /\ holds_lock l (l_held (run mlock (mlock_step m) mlock0 p)) = false.
Proof.
  intros Hok p l Ht.
  pose proof (check_sound mlock mlock_eqb mlock_eqb_spec (mlock_step m) l_bad (mlock_bad_abs m) 200 mlock_final s mlock0 Hok) as Hs.
  pose proof (Hs _ Ht) as H1. pose proof (Hs _ (thread_trace_prefix _ _ _ Ht)) as H0.
  rewrite run_snoc in H1. set (st := run mlock (mlock_step m) mlock0 p) in *.
  unfold mlock_step in H1. rewrite H0 in H1.
  destruct (holds_lock l (l_held st)) eqn:Eh; destruct (forallb (fun x => rank x <? rank l) (l_held st)) eqn:Ef;
    cbn [orb negb l_bad] in H1; try discriminate. split; reflexivity.
Qed.

(* a thread that is not the read loop never touches a reader-confined field (dpsWindow, continuationFrame, fh, br) *)
Theorem reader_confined m s : lock_ok m s = true -> m = MOther ->
  forall p f w, thread_trace s (p ++ [AAcc f w]) -> guard_of f <> GReader.
Proof.
  intros Hok -> p f w Ht Hg.
  pose proof (check_sound mlock mlock_eqb mlock_eqb_spec (mlock_step MOther) l_bad (mlock_bad_abs MOther) 200 mlock_final s mlock0 Hok) as Hs.
  pose proof (Hs _ Ht) as H1. pose proof (Hs _ (thread_trace_prefix _ _ _ Ht)) as H0.
  rewrite run_snoc in H1. set (st := run mlock (mlock_step MOther) mlock0 p) in *.
  unfold mlock_step in H1. rewrite H0, Hg in H1. cbn in H1. discriminate.
Qed.
