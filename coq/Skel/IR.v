(* Concurrency-skeleton IR: what the translator (translator/skel.go) extracts from the Go source for every entry
   point - locks, reads/CAS of the closed flag, transport operations, callbacks, guarded-field accesses, queue and
   semaphore operations - with branching, loops, break/return, function scopes with their defers, and spawns.
   Thread-local semantics: exec s t k = "s can run to completion of kind k performing the action trace t". *)
From Coq Require Import List Bool Arith Strings.String.
Import ListNotations.

Inductive lockc := LConn | LQueue | LCps | LDps | LMap | LSmap | LOther.
Inductive wirek := KData | KClose | KAny | KHandshake.
Inductive cbk := CbOpen | CbClose | CbPing | CbPong | CbMessage | CbUser.
Inductive fieldc := FCpsWindow | FDpsWindow | FCpsWriter | FDpsState | FQueue | FMapData | FSmapData | FReaderState.
Inductive epclass := EWrite | EReader | EHandshake | EMap | EQueue.

Inductive act :=
| ALock (l : lockc) | AUnlock (l : lockc)
| ARead (b : bool)                (* atomic load of Conn.closed returned b *)
| ACas (b : bool)                 (* CompareAndSwap(&closed, 0, 1) returned b *)
| AWire (k : wirek)               (* one Write on the transport: a data/control frame, a Close frame, handshake bytes *)
| AConnClose | AConnRead | AConnDeadline
| AStoreEv | ALoadEv
| ACb (c : cbk)                   (* user code runs *)
| AAcc (f : fieldc) (w : bool)    (* access to a guarded field (w = write) *)
| AAtomicAdd
| ASemAcq | ASemRel               (* parallel-handler semaphore *)
| ASpawn                          (* a goroutine is started (its body is the Spawn node that follows) *)
| ABoundary                       (* a new call starts on this thread (a queued job begins) *)
| AUnknown.                       (* something the translator did not understand: no monitor accepts it *)

Inductive stmt :=
| Skip | Stuck
| Act (a : act)
| Seq (s1 s2 : stmt)
| Choice (s1 s2 : stmt)
| Loop (can_exit : bool) (s : stmt)
| Break | Return
| Scope (body defers : stmt)      (* an inlined function: returns end here, then the defers run *)
| CatchBreak (s : stmt)           (* switch / select body: break ends here *)
| Spawn (s : stmt).

Inductive kind := KN | KB | KR.

Inductive exec : stmt -> list act -> kind -> Prop :=
| ESkip : exec Skip [] KN
| EAct a : exec (Act a) [a] KN
| ESeqN s1 s2 t1 t2 k : exec s1 t1 KN -> exec s2 t2 k -> exec (Seq s1 s2) (t1 ++ t2) k
| ESeqB s1 s2 t : exec s1 t KB -> exec (Seq s1 s2) t KB
| ESeqR s1 s2 t : exec s1 t KR -> exec (Seq s1 s2) t KR
| EChL s1 s2 t k : exec s1 t k -> exec (Choice s1 s2) t k
| EChR s1 s2 t k : exec s2 t k -> exec (Choice s1 s2) t k
| ELoopExit b s : exec (Loop b s) [] KN            (* over-approximation: every loop may be left *)
| ELoopIter b s t1 t2 k : exec s t1 KN -> exec (Loop b s) t2 k -> exec (Loop b s) (t1 ++ t2) k
| ELoopBreak b s t : exec s t KB -> exec (Loop b s) t KN
| ELoopRet b s t : exec s t KR -> exec (Loop b s) t KR
| EBreak : exec Break [] KB
| EReturn : exec Return [] KR
| EScopeN body d t1 t2 : exec body t1 KN -> exec d t2 KN -> exec (Scope body d) (t1 ++ t2) KN
| EScopeR body d t1 t2 : exec body t1 KR -> exec d t2 KN -> exec (Scope body d) (t1 ++ t2) KN
| ECatchN s t : exec s t KN -> exec (CatchBreak s) t KN
| ECatchB s t : exec s t KB -> exec (CatchBreak s) t KN
| ECatchR s t : exec s t KR -> exec (CatchBreak s) t KR
| ESpawn s : exec (Spawn s) [] KN.

(* bodies of the goroutines a program starts, transitively *)
Fixpoint spawns (s : stmt) : list stmt :=
  match s with
  | Seq a b | Choice a b | Scope a b => spawns a ++ spawns b
  | Loop _ a | CatchBreak a => spawns a
  | Spawn a => a :: spawns a
  | _ => []
  end.

(* a thread's observable behaviour: a prefix of a complete execution of its program *)
Definition thread_trace (s : stmt) (p : list act) : Prop := exists q k, exec s (p ++ q) k.
