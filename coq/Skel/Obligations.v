(* Definitions for the per-run proof obligations (the obligations themselves are in Skel/Obl*.v, one file per monitor, so
   that a change that breaks one discipline breaks the properties resting on that discipline and no other).
   The per-run proof obligations: the checker, evaluated by the kernel (vm_compute) on the skeleton that the
   translator regenerated from /repo on THIS run (Gen/Skel.v).  A code change that moves a closed-flag check outside the
   lock, drops or splits a lock, writes after close, touches a guarded field without its guard, changes the callback
   order or loses a semaphore release turns one of these booleans into false: the Qed fails. *)
From Coq Require Import List Bool Arith Strings.String.
From Gws Require Import Skel.IR Skel.Checker Skel.Monitors Skel.Link Gen.Skel.
Import ListNotations.

Definition class_of (x : string * epclass * stmt) : epclass := snd (fst x).
Definition is_conn_class (c : epclass) : bool := match c with EWrite | EReader => true | _ => false end.

(* every program a thread of an established connection can run: the exported connection-level entry points (both roles)
   and every goroutine they start (async queue workers, parallel handlers) *)
Definition conn_programs : list stmt :=
  flat_map (fun x => if is_conn_class (class_of x) then snd x :: spawns (snd x) else []) entry_points.

Definition mode_of (c : epclass) : lmode := match c with EReader => MReader | EHandshake => MConstruct | _ => MOther end.
(* for the lock discipline: every entry point with its thread mode; goroutines started by a call are never the reader thread *)
Definition lock_programs : list (lmode * stmt) :=
  flat_map (fun x => (mode_of (class_of x), snd x) ::
                     map (fun g => (match class_of x with EHandshake => MConstruct | _ => MOther end, g)) (spawns (snd x))) entry_points.

Definition frame_ok (s : stmt) : bool := check mframe mframe_eqb mframe_step f_bad 200 (fun _ => true) s mframe0.
Definition cb_ok (s : stmt) : bool := check mcb mcb_eqb mcb_step b_bad 200 mcb_final s mcb0.
Definition handler_ok (s : stmt) : bool := check mh mh_eqb mh_step h_bad 200 mh_final s mh0.

Definition readers : list stmt := map snd (filter (fun x => match class_of x with EReader => true | _ => false end) entry_points).
(* the goroutines the read loop starts directly: the parallel message handlers *)
Definition handlers : list stmt := flat_map spawns readers.
