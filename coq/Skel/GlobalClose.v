(* What the thread-local close discipline (monitor M_close) implies globally: for ANY number of threads and ANY
   interleaving consistent with the mutex and the atomic closed flag, if every thread keeps M_close out of Bad then
   the wire carries at most one Close frame and no data frame after it, and only one thread closes the transport.
   Restated from design-spikes/SpikeGlobalClose.v against the real monitor. *)
From Coq Require Import List Bool Arith Lia.
From Gws Require Import Skel.IR Skel.Monitors.
Import ListNotations.

Definition tid := nat.
Inductive wev := WData | WClose | WConnClosed.

Record gst := mkg { closed : bool; owner : option tid; log : list wev; ms : tid -> mclose }.
Definition g0 := mkg false None [] (fun _ => mclose0).
Definition upd (f : tid -> mclose) (t : tid) (m : mclose) : tid -> mclose :=
  fun t' => if Nat.eqb t' t then m else f t'.

Definition gstep (g : gst) (t : tid) (a : cact) : option gst :=
  let f := upd (ms g) t (cstep (ms g t) a) in
  match a with
  | CLock => match owner g with None => Some (mkg (closed g) (Some t) (log g) f) | Some _ => None end
  | CUnlock => match owner g with
               | Some t' => if Nat.eqb t' t then Some (mkg (closed g) None (log g) f) else None
               | None => None end
  | CRead b => if Bool.eqb b (closed g) then Some (mkg (closed g) (owner g) (log g) f) else None
  | CCas b => if Bool.eqb b (negb (closed g)) then Some (mkg true (owner g) (log g) f) else None
  | CData => Some (mkg (closed g) (owner g) (log g ++ [WData]) f)
  | CClose => Some (mkg (closed g) (owner g) (log g ++ [WClose]) f)
  | CConnClose => Some (mkg (closed g) (owner g) (log g ++ [WConnClosed]) f)
  | CNop | CBad => Some (mkg (closed g) (owner g) (log g) f)
  end.

Fixpoint gruns (g : gst) (tr : list (tid * cact)) : option gst :=
  match tr with
  | [] => Some g
  | (t, a) :: r => match gstep g t a with Some g' => gruns g' r | None => None end
  end.

Definition nobad (g : gst) := forall t, c_bad (ms g t) = false.

Fixpoint closes (l : list wev) : nat :=
  match l with [] => 0 | WClose :: r => S (closes r) | _ :: r => closes r end.
(* no data after a close *)
Fixpoint nda (l : list wev) : bool :=
  match l with
  | [] => true
  | WClose :: r => negb (existsb (fun e => match e with WData => true | _ => false end) r) && nda r
  | _ :: r => nda r
  end.

Lemma closes_app l e : closes (l ++ [e]) = closes l + closes [e].
Proof. induction l as [|x l IH]; simpl; [lia|]. destruct x; simpl; rewrite IH; simpl; lia. Qed.

Lemma nda_app_nodata l e : nda l = true -> e <> WData -> nda (l ++ [e]) = true.
Proof.
  induction l as [|x l IH]; intros H He; simpl in *.
  - destruct e; try reflexivity; congruence.
  - destruct x; auto. apply andb_true_iff in H. destruct H as [H1 H2].
    apply andb_true_iff. split; [|auto].
    rewrite existsb_app. rewrite negb_orb. apply andb_true_iff. split; [exact H1|].
    destruct e; try reflexivity; congruence.
Qed.

Lemma nda_app_data l : nda l = true -> closes l = 0 -> nda (l ++ [WData]) = true.
Proof.
  induction l as [|x l IH]; intros H Hc; simpl in *; [reflexivity|].
  destruct x; auto. discriminate.
Qed.

Record Inv (g : gst) : Prop := {
  Ia : forall t, c_holds (ms g t) = true <-> owner g = Some t;
  Ib : closed g = false -> forall t, c_phase (ms g t) = 0;
  Ic : forall t1 t2, c_phase (ms g t1) >= 1 -> c_phase (ms g t2) >= 1 -> t1 = t2;
  Id : closes (log g) = 0 \/ (closes (log g) = 1 /\ exists t, c_phase (ms g t) >= 2);
  Ie : forall t, c_chk (ms g t) = true -> c_holds (ms g t) = true /\ closes (log g) = 0;
  If_ : nda (log g) = true
}.

Lemma inv0 : Inv g0.
Proof. split; simpl; intros; try discriminate; auto; try lia. split; intro H; discriminate. Qed.

Lemma upd_same f t m : upd f t m t = m.
Proof. unfold upd. rewrite Nat.eqb_refl. reflexivity. Qed.
Lemma upd_other f t m t' : t' <> t -> upd f t m t' = f t'.
Proof. unfold upd. intro H. apply Nat.eqb_neq in H. rewrite H. reflexivity. Qed.

Ltac split_tid t' t :=
  destruct (Nat.eq_dec t' t) as [->|?]; [rewrite ?upd_same in * | rewrite ?upd_other in * by assumption].

Lemma step_inv g t a g' : Inv g -> nobad g -> gstep g t a = Some g' -> nobad g' -> Inv g'.
Proof.
  intros [HA HB HC HD HE HF] Hnb Hs Hnb'.
  pose proof (Hnb t) as Hbt. pose proof (Hnb' t) as Hbt'.
  unfold gstep in Hs. unfold cstep in *.
  destruct a; rewrite Hbt in *.
  - (* Lock *)
    destruct (owner g) eqn:Eo; [discriminate|]. inversion Hs; subst g'; clear Hs. simpl in *.
    rewrite upd_same in Hbt'.
    destruct (c_holds (ms g t)) eqn:Eh; [simpl in Hbt'; discriminate|].
    split; simpl.
    + intro t'. split_tid t' t; simpl.
      * split; auto.
      * split; intro H; [apply HA in H; congruence|inversion H; congruence].
    + intros Hc t'. split_tid t' t; simpl; auto.
    + intros t1 t2. split_tid t1 t; split_tid t2 t; simpl; intros; auto; try (apply HC; assumption).
    + destruct HD as [HD|[HD [t' Ht']]]; [left; exact HD|right]. split; [exact HD|].
      exists t'. split_tid t' t; simpl; auto.
    + intros t'. split_tid t' t; simpl; [discriminate|apply HE].
    + exact HF.
  - (* Unlock *)
    destruct (owner g) as [t0|] eqn:Eo; [|discriminate].
    destruct (Nat.eqb_spec t0 t) as [->|]; [|discriminate].
    inversion Hs; subst g'; clear Hs. simpl in *. rewrite upd_same in Hbt'.
    destruct (c_holds (ms g t)) eqn:Eh; [|simpl in Hbt'; discriminate].
    split; simpl.
    + intro t'. split_tid t' t; simpl.
      * split; discriminate.
      * split; intro H; [apply HA in H; congruence|discriminate].
    + intros Hc t'. split_tid t' t; simpl; auto.
    + intros t1 t2. split_tid t1 t; split_tid t2 t; simpl; intros; auto; try (apply HC; assumption).
    + destruct HD as [HD|[HD [t' Ht']]]; [left; exact HD|right]. split; [exact HD|].
      exists t'. split_tid t' t; simpl; auto.
    + intros t'. split_tid t' t; simpl; [discriminate|apply HE].
    + exact HF.
  - (* Read b *)
    destruct (Bool.eqb b (closed g)) eqn:Eb; [|discriminate]. apply eqb_prop in Eb. subst b.
    inversion Hs; subst g'; clear Hs. simpl in *. rewrite upd_same in Hbt'.
    destruct (c_holds (ms g t)) eqn:Eh.
    + destruct (closed g) eqn:Ec; simpl in *.
      * (* read true under the lock: chk cleared *)
        split; simpl.
        -- intro t'. split_tid t' t; simpl; [rewrite <- HA; rewrite Eh; tauto|apply HA].
        -- discriminate.
        -- intros t1 t2. split_tid t1 t; split_tid t2 t; simpl; intros; auto; try (apply HC; assumption).
        -- destruct HD as [HD|[HD [t' Ht']]]; [left; exact HD|right]. split; [exact HD|].
           exists t'. split_tid t' t; simpl; auto.
        -- intros t'. split_tid t' t; simpl; [discriminate|apply HE].
        -- exact HF.
      * (* read false under the lock: chk set *)
        assert (Hc0 : closes (log g) = 0).
        { destruct HD as [HD|[_ [t' Ht']]]; [exact HD|]. rewrite (HB eq_refl t') in Ht'. lia. }
        split; simpl.
        -- intro t'. split_tid t' t; simpl; [rewrite <- HA; rewrite Eh; tauto|apply HA].
        -- intros _ t'. split_tid t' t; simpl; auto.
        -- intros t1 t2. split_tid t1 t; split_tid t2 t; simpl; intros; auto; try (apply HC; assumption).
        -- left; exact Hc0.
        -- intros t'. split_tid t' t; simpl; [auto|apply HE].
        -- exact HF.
    + (* no change *)
      assert (Hf : forall t', upd (ms g) t (ms g t) t' = ms g t') by (intro t'; split_tid t' t; reflexivity).
      split; simpl; intros; rewrite ?Hf in *; auto.
      destruct HD as [HD|[HD [t' Ht']]]; [left; auto|right; split; auto; exists t'; rewrite Hf; auto].
  - (* Cas b *)
    destruct (Bool.eqb b (negb (closed g))) eqn:Eb; [|discriminate]. apply eqb_prop in Eb. subst b.
    inversion Hs; subst g'; clear Hs. simpl in *. rewrite upd_same in Hbt'.
    destruct (closed g) eqn:Ec; simpl in *.
    + assert (Hf : forall t', upd (ms g) t (ms g t) t' = ms g t') by (intro t'; split_tid t' t; reflexivity).
      split; simpl; intros; rewrite ?Hf in *; auto; try discriminate.
      destruct HD as [HD|[HD [t' Ht']]]; [left; auto|right; split; auto; exists t'; rewrite Hf; auto].
    + pose proof (HB eq_refl) as H0.
      split; simpl.
      * intro t'. split_tid t' t; simpl; apply HA.
      * discriminate.
      * intros t1 t2. split_tid t1 t; split_tid t2 t; simpl; intros; auto;
          try (rewrite H0 in *; lia).
      * left. destruct HD as [HD|[_ [t' Ht']]]; [exact HD|]. rewrite H0 in Ht'. lia.
      * intros t'. split_tid t' t; simpl; apply HE.
      * exact HF.
  - (* Data *)
    inversion Hs; subst g'; clear Hs. simpl in *. rewrite upd_same in Hbt'.
    destruct (c_holds (ms g t) && c_chk (ms g t)) eqn:Ehc; [|simpl in Hbt'; discriminate].
    apply andb_true_iff in Ehc. destruct Ehc as [Eh Ek].
    destruct (HE t Ek) as [_ Hc0].
    assert (Hf : forall t', upd (ms g) t (ms g t) t' = ms g t') by (intro t'; split_tid t' t; reflexivity).
    split; simpl; intros; rewrite ?Hf in *; rewrite ?closes_app; simpl; rewrite ?Nat.add_0_r; auto.
    apply nda_app_data; assumption.
  - (* Close *)
    inversion Hs; subst g'; clear Hs. simpl in *. rewrite upd_same in Hbt'.
    destruct (c_holds (ms g t) && (c_phase (ms g t) =? 1)) eqn:Ehp; [|simpl in Hbt'; discriminate].
    apply andb_true_iff in Ehp. destruct Ehp as [Eh Ep]. apply Nat.eqb_eq in Ep.
    assert (Hc0 : closes (log g) = 0).
    { destruct HD as [HD|[_ [t' Ht']]]; [exact HD|].
      assert (t' = t) by (apply HC; lia). subst. lia. }
    split; simpl.
    + intro t'. split_tid t' t; simpl; [rewrite <- HA; rewrite Eh; tauto|apply HA].
    + intros Hc t'. rewrite (HB Hc t) in Ep. discriminate.
    + intros t1 t2. split_tid t1 t; split_tid t2 t; simpl; intros; auto;
        try (apply HC; lia).
    + right. rewrite closes_app, Hc0. simpl. split; [reflexivity|]. exists t. rewrite upd_same. simpl. lia.
    + intros t'. split_tid t' t; simpl; [discriminate|].
      intro Hk. destruct (HE t' Hk) as [Hh _]. apply HA in Hh. apply HA in Eh. congruence.
    + apply nda_app_nodata; [exact HF|discriminate].
  - (* ConnClose *)
    inversion Hs; subst g'; clear Hs. simpl in *. rewrite upd_same in Hbt'.
    destruct ((c_phase (ms g t) =? 1) || (c_phase (ms g t) =? 2)) eqn:Ep; [|simpl in Hbt'; discriminate].
    apply orb_true_iff in Ep. rewrite !Nat.eqb_eq in Ep.
    split; simpl.
    + intro t'. split_tid t' t; simpl; apply HA.
    + intros Hc t'. rewrite (HB Hc t) in Ep. lia.
    + intros t1 t2. split_tid t1 t; split_tid t2 t; simpl; intros; auto;
        try (apply HC; lia).
    + rewrite closes_app. simpl. rewrite Nat.add_0_r.
      destruct HD as [HD|[HD [t' Ht']]]; [left; exact HD|right]. split; [exact HD|].
      exists t'. split_tid t' t; simpl; lia.
    + intros t'. rewrite closes_app. simpl. rewrite Nat.add_0_r. split_tid t' t; simpl; apply HE.
    + apply nda_app_nodata; [exact HF|discriminate].
  - (* Nop *)
    inversion Hs; subst g'; clear Hs. simpl in *.
    assert (Hf : forall t', upd (ms g) t (ms g t) t' = ms g t') by (intro t'; split_tid t' t; reflexivity).
    split; simpl; intros; rewrite ?Hf in *; auto.
    destruct HD as [HD|[HD [t' Ht']]]; [left; auto|right; split; auto; exists t'; rewrite Hf; auto].
  - (* Bad: excluded by nobad *)
    inversion Hs; subst g'; clear Hs. simpl in *. rewrite upd_same in Hbt'. simpl in Hbt'. discriminate.
Qed.

Lemma cstep_bad_local m a : c_bad m = true -> c_bad (cstep m a) = true.
Proof. intro H. unfold cstep. rewrite H. exact H. Qed.

Lemma gstep_ms_local g t a g' : gstep g t a = Some g' -> ms g' = upd (ms g) t (cstep (ms g t) a).
Proof.
  unfold gstep. intro H. destruct a; repeat match type of H with context [match ?x with _ => _ end] => destruct x; try discriminate end;
  inversion H; reflexivity.
Qed.

Lemma step_nobad_back g t a g' : gstep g t a = Some g' -> nobad g' -> nobad g.
Proof.
  intros Hs Hn t'. specialize (Hn t').
  assert (Hm : ms g' = upd (ms g) t (cstep (ms g t) a)).
  { unfold gstep in Hs. destruct a; repeat match type of Hs with
      | context [match ?x with _ => _ end] => destruct x; try discriminate end;
      inversion Hs; reflexivity. }
  rewrite Hm in Hn. destruct (Nat.eq_dec t' t) as [->|Hne].
  - rewrite upd_same in Hn. destruct (c_bad (ms g t)) eqn:E; [|reflexivity].
    rewrite (cstep_bad_local _ a E) in Hn. discriminate.
  - rewrite upd_other in Hn by assumption. exact Hn.
Qed.

Lemma runs_nobad_back : forall tr g1 g, gruns g1 tr = Some g -> nobad g -> nobad g1.
Proof.
  induction tr as [|[t a] tr IH]; intros g1 g Hr Hn; simpl in Hr.
  - inversion Hr; subst. exact Hn.
  - destruct (gstep g1 t a) as [g2|] eqn:Es; [|discriminate].
    eapply step_nobad_back; [exact Es|]. eapply IH; eauto.
Qed.

Lemma runs_inv : forall tr g1 g, Inv g1 -> gruns g1 tr = Some g -> nobad g -> Inv g.
Proof.
  induction tr as [|[t a] tr IH]; intros g1 g HI Hr Hn; simpl in Hr.
  - inversion Hr; subst. exact HI.
  - destruct (gstep g1 t a) as [g2|] eqn:Es; [|discriminate].
    pose proof (runs_nobad_back _ _ _ Hr Hn) as Hn2.
    pose proof (step_nobad_back _ _ _ _ Es Hn2) as Hn1.
    eapply IH; [|exact Hr|exact Hn]. eapply step_inv; eauto.
Qed.

Theorem one_close_nothing_after : forall tr g,
  gruns g0 tr = Some g -> nobad g ->
  closes (log g) <= 1 /\ nda (log g) = true.
Proof.
  intros tr g Hr Hn. destruct (runs_inv tr g0 g inv0 Hr Hn) as [_ _ _ HD _ HF].
  split; [|exact HF]. destruct HD as [->|[-> _]]; lia.
Qed.


(* Frames are written only by the current owner of the connection lock: so while a thread is inside its critical
   section, every frame that reaches the wire is its own - the frames of one call are contiguous. *)
Lemma wire_step_owner g t a g' : Inv g -> nobad g -> gstep g t a = Some g' -> nobad g' ->
  (a = CData \/ a = CClose) -> owner g = Some t.
Proof.
  intros [HA _ _ _ _ _] Hnb Hs Hnb' Ha.
  pose proof (Hnb t) as Hbt. pose proof (Hnb' t) as Hbt'.
  rewrite (gstep_ms_local g t a g' Hs) in Hbt'. rewrite upd_same in Hbt'.
  unfold cstep in Hbt'. rewrite Hbt in Hbt'.
  apply HA.
  destruct Ha as [-> | ->].
  - destruct (c_holds (ms g t)); [reflexivity|cbn in Hbt'; discriminate].
  - destruct (c_holds (ms g t)); [reflexivity|cbn in Hbt'; discriminate].
Qed.

Theorem wire_by_owner : forall tr1 t a tr2 g,
  gruns g0 (tr1 ++ (t, a) :: tr2) = Some g -> nobad g -> (a = CData \/ a = CClose) ->
  exists g1, gruns g0 tr1 = Some g1 /\ owner g1 = Some t.
Proof.
  intros tr1 t a tr2 g Hr Hn Ha.
  assert (Hsplit : forall tr gs, gruns gs (tr ++ (t, a) :: tr2) = Some g ->
            exists g1 g2, gruns gs tr = Some g1 /\ gstep g1 t a = Some g2 /\ gruns g2 tr2 = Some g).
  { induction tr as [|[t0 a0] tr IH]; intros gs H; cbn [gruns app] in H.
    - destruct (gstep gs t a) as [g2|] eqn:E; [|discriminate]. exists gs, g2. split; [reflexivity|split; [exact E|exact H]].
    - destruct (gstep gs t0 a0) as [g'|] eqn:E; [|discriminate]. destruct (IH _ H) as (g1 & g2 & H1 & H2 & H3).
      exists g1, g2. split; [cbn [gruns]; rewrite E; exact H1|split; assumption]. }
  destruct (Hsplit tr1 g0 Hr) as (g1 & g2 & H1 & H2 & H3).
  exists g1. split; [exact H1|].
  pose proof (runs_nobad_back _ _ _ H3 Hn) as Hn2.
  pose proof (step_nobad_back _ _ _ _ H2 Hn2) as Hn1.
  pose proof (runs_inv _ _ _ inv0 H1 Hn1) as HI1.
  eapply wire_step_owner; eauto.
Qed.

(* The transport is closed at most once (teardown happens once): only the CAS winner reaches AConnClose, and it does so
   at most once. *)
Fixpoint conncloses (l : list wev) : nat :=
  match l with [] => 0 | WConnClosed :: r => S (conncloses r) | _ :: r => conncloses r end.

Lemma conncloses_app l e : conncloses (l ++ [e]) = conncloses l + conncloses [e].
Proof. induction l as [|x l IH]; simpl; [lia|]. destruct x; simpl; rewrite IH; simpl; lia. Qed.

Definition J (g : gst) : Prop :=
  conncloses (log g) = 0 \/ (conncloses (log g) = 1 /\ exists t, c_phase (ms g t) = 3).

Lemma step_J g t a g' : Inv g -> J g -> nobad g -> gstep g t a = Some g' -> nobad g' -> J g'.
Proof.
  intros [HA HB HC HD HE HF] HJ Hnb Hs Hnb'.
  pose proof (Hnb t) as Hbt. pose proof (Hnb' t) as Hbt'.
  pose proof (gstep_ms_local g t a g' Hs) as Hms.
  rewrite Hms in Hbt'. rewrite upd_same in Hbt'.
  assert (Hlog : forall e, log g' = log g \/ log g' = log g ++ [e] -> e <> WConnClosed -> conncloses (log g') = conncloses (log g)).
  { intros e [->| ->] He; [reflexivity|]. rewrite conncloses_app. destruct e; cbn; try lia. congruence. }
  (* phase of the acting thread after the step, when it was 3 before: stays 3 (except for the excluded cases) *)
  destruct a.
  - (* Lock *)
    assert (Hl : log g' = log g) by (unfold gstep in Hs; destruct (owner g); [discriminate|]; inversion Hs; reflexivity).
    unfold J in *. rewrite Hl, Hms.
    destruct HJ as [HJ|[HJ [t' Ht']]]; [left; exact HJ|right; split; [exact HJ|]]. exists t'.
    destruct (Nat.eq_dec t' t) as [->|Hne]; [rewrite upd_same|rewrite upd_other by assumption; exact Ht'].
    unfold cstep. rewrite Hbt. destruct (c_holds (ms g t)); cbn; exact Ht'.
  - (* Unlock *)
    assert (Hl : log g' = log g).
    { unfold gstep in Hs. destruct (owner g) as [t0|]; [|discriminate]. destruct (Nat.eqb t0 t); [|discriminate]. inversion Hs; reflexivity. }
    unfold J in *. rewrite Hl, Hms.
    destruct HJ as [HJ|[HJ [t' Ht']]]; [left; exact HJ|right; split; [exact HJ|]]. exists t'.
    destruct (Nat.eq_dec t' t) as [->|Hne]; [rewrite upd_same|rewrite upd_other by assumption; exact Ht'].
    unfold cstep. rewrite Hbt. destruct (c_holds (ms g t)); cbn; exact Ht'.
  - (* Read *)
    assert (Hl : log g' = log g) by (unfold gstep in Hs; destruct (Bool.eqb b (closed g)); [|discriminate]; inversion Hs; reflexivity).
    unfold J in *. rewrite Hl, Hms.
    destruct HJ as [HJ|[HJ [t' Ht']]]; [left; exact HJ|right; split; [exact HJ|]]. exists t'.
    destruct (Nat.eq_dec t' t) as [->|Hne]; [rewrite upd_same|rewrite upd_other by assumption; exact Ht'].
    unfold cstep. rewrite Hbt. destruct (c_holds (ms g t)); cbn; exact Ht'.
  - (* Cas *)
    unfold gstep in Hs. destruct (Bool.eqb b (negb (closed g))) eqn:Eb; [|discriminate]. apply eqb_prop in Eb.
    assert (Hl : log g' = log g) by (inversion Hs; reflexivity).
    unfold J in *. rewrite Hl, Hms.
    destruct HJ as [HJ|[HJ [t' Ht']]]; [left; exact HJ|right; split; [exact HJ|]]. exists t'.
    destruct (Nat.eq_dec t' t) as [->|Hne]; [rewrite upd_same|rewrite upd_other by assumption; exact Ht'].
    unfold cstep. rewrite Hbt. destruct b; cbn; [|exact Ht'].
    exfalso. assert (Hc : closed g = false) by (destruct (closed g); [discriminate|reflexivity]).
    rewrite (HB Hc t) in Ht'. discriminate.
  - (* Data *)
    assert (Hl : log g' = log g ++ [WData]) by (unfold gstep in Hs; inversion Hs; reflexivity).
    unfold J in *. rewrite (Hlog WData (or_intror Hl)) by discriminate. rewrite Hms.
    destruct HJ as [HJ|[HJ [t' Ht']]]; [left; exact HJ|right; split; [exact HJ|]]. exists t'.
    destruct (Nat.eq_dec t' t) as [->|Hne]; [rewrite upd_same|rewrite upd_other by assumption; exact Ht'].
    unfold cstep. rewrite Hbt. destruct (c_holds (ms g t) && c_chk (ms g t)); cbn; exact Ht'.
  - (* Close *)
    assert (Hl : log g' = log g ++ [WClose]) by (unfold gstep in Hs; inversion Hs; reflexivity).
    unfold J in *. rewrite (Hlog WClose (or_intror Hl)) by discriminate. rewrite Hms.
    destruct HJ as [HJ|[HJ [t' Ht']]]; [left; exact HJ|right; split; [exact HJ|]]. exists t'.
    destruct (Nat.eq_dec t' t) as [->|Hne]; [rewrite upd_same|rewrite upd_other by assumption; exact Ht'].
    unfold cstep. rewrite Hbt. destruct (c_holds (ms g t) && (c_phase (ms g t) =? 1)) eqn:E; cbn; [|exact Ht'].
    apply andb_true_iff in E as [_ E]. apply Nat.eqb_eq in E. rewrite E in Ht'. discriminate.
  - (* ConnClose *)
    assert (Hl : log g' = log g ++ [WConnClosed]) by (unfold gstep in Hs; inversion Hs; reflexivity).
    unfold cstep in Hbt'. rewrite Hbt in Hbt'.
    destruct ((c_phase (ms g t) =? 1) || (c_phase (ms g t) =? 2)) eqn:E; [|cbn in Hbt'; discriminate].
    pose proof E as E'. apply orb_true_iff in E'. rewrite !Nat.eqb_eq in E'.
    unfold J in *. rewrite Hl, conncloses_app. cbn [conncloses].
    destruct HJ as [HJ|[HJ [t' Ht']]].
    + right. split; [lia|]. exists t. rewrite Hms, upd_same. unfold cstep. rewrite Hbt, E. reflexivity.
    + exfalso. assert (t' = t) by (apply HC; lia). subst t'. lia.
  - (* Nop *)
    assert (Hl : log g' = log g) by (unfold gstep in Hs; inversion Hs; reflexivity).
    unfold J in *. rewrite Hl, Hms.
    destruct HJ as [HJ|[HJ [t' Ht']]]; [left; exact HJ|right; split; [exact HJ|]]. exists t'.
    destruct (Nat.eq_dec t' t) as [->|Hne]; [rewrite upd_same|rewrite upd_other by assumption; exact Ht'].
    unfold cstep. rewrite Hbt. exact Ht'.
  - (* Bad *) unfold cstep in Hbt'. rewrite Hbt in Hbt'. cbn in Hbt'. discriminate.
Qed.

Lemma runs_J : forall tr g1 g, Inv g1 -> J g1 -> gruns g1 tr = Some g -> nobad g -> J g.
Proof.
  induction tr as [|[t a] tr IH]; intros g1 g HI HJ Hr Hn; simpl in Hr.
  - inversion Hr; subst. exact HJ.
  - destruct (gstep g1 t a) as [g2|] eqn:Es; [|discriminate].
    pose proof (runs_nobad_back _ _ _ Hr Hn) as Hn2.
    pose proof (step_nobad_back _ _ _ _ Es Hn2) as Hn1.
    eapply IH; [| |exact Hr|exact Hn].
    + eapply step_inv; eauto.
    + eapply step_J; eauto.
Qed.

Theorem transport_closed_once : forall tr g, gruns g0 tr = Some g -> nobad g -> conncloses (log g) <= 1.
Proof.
  intros tr g Hr Hn. assert (J0 : J g0) by (left; reflexivity).
  destruct (runs_J tr g0 g inv0 J0 Hr Hn) as [->|[-> _]]; lia.
Qed.
