(* per-run obligations: the translator understood every statement; the program sets are not empty *)
From Coq Require Import List Bool Arith Strings.String.
From Gws Require Import Skel.IR Skel.Checker Skel.Monitors Skel.Link Gen.Skel Skel.Obligations.
Import ListNotations.

Theorem translator_understood_everything : translator_unknowns = 0.
Proof. vm_compute. reflexivity. Qed.

(* non-vacuity of the obligations: the sets are not empty and contain the write path *)
Theorem skel_nonvacuous : (20 <=? List.length conn_programs) = true /\ (40 <=? List.length lock_programs) = true.
Proof. vm_compute. split; reflexivity. Qed.
