(* per-run obligations: callback lifecycle of the read loop (M_cb) and the parallel handler goroutines (M_handler) *)
From Coq Require Import List Bool Arith Strings.String.
From Gws Require Import Skel.IR Skel.Checker Skel.Monitors Skel.Link Gen.Skel Skel.Obligations.
Import ListNotations.

Theorem skel_ok_lifecycle : forallb cb_ok readers = true /\ (2 <=? List.length readers) = true.
Proof. vm_compute. split; reflexivity. Qed.

Theorem skel_ok_handlers : forallb handler_ok handlers = true /\ (1 <=? List.length handlers) = true.
Proof. vm_compute. split; reflexivity. Qed.
