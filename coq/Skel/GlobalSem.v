(* Global bound on parallel message handlers (C07): one read-loop thread (tid 0) and any number of handler goroutines
   (tid > 0), interleaved in ANY way consistent with
     - the semaphore being a Go channel of capacity `cap`: a send (ASemAcq) is possible only while fewer than `cap`
       tokens are in it, a receive (ASemRel) only while it is non-empty;
     - goroutine creation: a handler goroutine performs its first action only after an ASpawn of the reader that no
       other goroutine has consumed.
   If the reader's actions keep the lifecycle monitor M_cb out of Bad (a slot is taken before every spawn, one slot per
   spawn) and every handler's actions keep M_handler out of Bad (the message callback once, the slot released once,
   after the callback), then at every moment the number of handler goroutines that have entered the message callback
   and not yet released their slot - a superset of those still inside the callback - is at most `cap`.
   No program syntax here; Skel/Link-style instantiation with checked programs is at the end. *)
From Coq Require Import List Bool Arith Lia.
From Gws Require Import Skel.IR Skel.Checker Skel.Monitors Skel.GlobalClose Skel.GlobalGuard Skel.Link.
Import ListNotations.

Record sst := mks { s_count : nat; s_rd : mcb; s_h : nat -> mh; s_spawned : nat; s_started : list nat }.
Definition s0 := mks 0 mcb0 (fun _ => mh0) 0 [].

Definition updh (f : nat -> mh) (t : nat) (m : mh) : nat -> mh := fun t' => if Nat.eqb t' t then m else f t'.
Lemma updh_same f t m : updh f t m t = m.
Proof. unfold updh. rewrite Nat.eqb_refl. reflexivity. Qed.
Lemma updh_other f t m t' : t' <> t -> updh f t m t' = f t'.
Proof. intro H. unfold updh. destruct (Nat.eqb_spec t' t); [contradiction|reflexivity]. Qed.

Definition memb (t : nat) (l : list nat) : bool := existsb (Nat.eqb t) l.
Lemma memb_In t l : memb t l = true <-> In t l.
Proof. unfold memb. rewrite existsb_exists. split; [intros [x [H E]]; apply Nat.eqb_eq in E; subst; exact H|intro H; exists t; split; [exact H|apply Nat.eqb_refl]]. Qed.

Definition sstep (cap : nat) (g : sst) (t : nat) (a : act) : option sst :=
  if Nat.eqb t 0 then
    match a with
    | ASemAcq => if s_count g <? cap then Some (mks (S (s_count g)) (mcb_step (s_rd g) a) (s_h g) (s_spawned g) (s_started g)) else None
    | ASpawn => Some (mks (s_count g) (mcb_step (s_rd g) a) (s_h g) (S (s_spawned g)) (s_started g))
    | _ => Some (mks (s_count g) (mcb_step (s_rd g) a) (s_h g) (s_spawned g) (s_started g))
    end
  else
    let started' := if memb t (s_started g) then Some (s_started g)
                    else if length (s_started g) <? s_spawned g then Some (t :: s_started g) else None in
    match started' with
    | None => None
    | Some st =>
        match a with
        | ASemRel => match s_count g with
                     | O => None
                     | S n => Some (mks n (s_rd g) (updh (s_h g) t (mh_step (s_h g t) a)) (s_spawned g) st)
                     end
        | _ => Some (mks (s_count g) (s_rd g) (updh (s_h g) t (mh_step (s_h g t) a)) (s_spawned g) st)
        end
    end.

Fixpoint sruns (cap : nat) (g : sst) (tr : list (nat * act)) : option sst :=
  match tr with
  | [] => Some g
  | (t, a) :: r => match sstep cap g t a with Some g' => sruns cap g' r | None => None end
  end.

Definition snobad (g : sst) : Prop := b_bad (s_rd g) = false /\ forall t, h_bad (s_h g t) = false.

Definition holding (g : sst) : nat := length (filter (fun t => Nat.eqb (h_rel (s_h g t)) 0) (s_started g)).
(* entered the message callback, slot not yet released *)
Definition in_handler (g : sst) : nat :=
  length (filter (fun t => Nat.eqb (h_msg (s_h g t)) 1 && Nat.eqb (h_rel (s_h g t)) 0) (s_started g)).

Definition SInv (cap : nat) (g : sst) : Prop :=
  s_count g <= cap /\ NoDup (s_started g) /\ ~ In 0 (s_started g)
  /\ length (s_started g) <= s_spawned g
  /\ (forall t, ~ In t (s_started g) -> s_h g t = mh0)
  /\ s_count g = (if b_pending (s_rd g) then 1 else 0) + (s_spawned g - length (s_started g)) + holding g.

Lemma filter_ext_in' {A} (f g : A -> bool) l : (forall x, In x l -> f x = g x) -> filter f l = filter g l.
Proof. induction l as [|x l IH]; intro H; cbn; [reflexivity|]. rewrite (H x (or_introl eq_refl)), IH; [reflexivity|]. intros y Hy. apply H. right. exact Hy. Qed.

(* changing the monitor of thread t changes the count over a duplicate-free list by that thread's contribution only *)
Lemma count_upd (P : mh -> bool) f t m l : NoDup l ->
  length (filter (fun x => P (updh f t m x)) l)
  = length (filter (fun x => P (f x)) l) - (if memb t l && P (f t) then 1 else 0) + (if memb t l && P m then 1 else 0).
Proof.
  induction l as [|x l IH]; intro Hnd; [reflexivity|].
  inversion Hnd as [|? ? Hnin Hnd']; subst. cbn [filter memb existsb].
  destruct (Nat.eqb_spec t x) as [->|Hne].
  - rewrite updh_same. cbn [orb andb].
    assert (Hrest : filter (fun y => P (updh f x m y)) l = filter (fun y => P (f y)) l).
    { apply filter_ext_in'. intros y Hy. rewrite updh_other; [reflexivity|]. intro E; subst. contradiction. }
    rewrite Hrest. destruct (P m), (P (f x)); cbn [length]; lia.
  - rewrite updh_other by congruence. cbn [orb]. specialize (IH Hnd'). fold (memb t l).
    destruct (P (f x)); cbn [length]; rewrite IH;
      destruct (memb t l && P (f t)) eqn:E1, (memb t l && P m); try lia.
    all: (* the subtraction is safe: t is counted in the filter *)
      apply andb_true_iff in E1; destruct E1 as [Hm Hp]; apply memb_In in Hm;
      assert (Hpos : 1 <= length (filter (fun x0 => P (f x0)) l))
        by (assert (Hin : In t (filter (fun x0 => P (f x0)) l)) by (apply filter_In; split; assumption);
            destruct (filter (fun x0 => P (f x0)) l); [contradiction|cbn; lia]);
      lia.
Qed.

Lemma nobad_back cap g t a g' : sstep cap g t a = Some g' -> snobad g' -> snobad g.
Proof.
  unfold sstep, snobad. intros H [Hr Hh].
  destruct (Nat.eqb t 0) eqn:Et.
  - assert (E : s_rd g' = mcb_step (s_rd g) a /\ s_h g' = s_h g).
    { destruct a; try (inversion H; subst; cbn; auto; fail).
      destruct (s_count g <? cap); inversion H; subst; cbn; auto. }
    destruct E as [E1 E2]. rewrite E1 in Hr. rewrite E2 in Hh. split; [|exact Hh].
    destruct (b_bad (s_rd g)) eqn:Eb; [|reflexivity]. rewrite (mcb_bad_abs _ a Eb) in Hr. discriminate.
  - destruct (if memb t (s_started g) then Some (s_started g) else if length (s_started g) <? s_spawned g then Some (t :: s_started g) else None) as [st|]; [|discriminate].
    assert (E : s_rd g' = s_rd g /\ s_h g' = updh (s_h g) t (mh_step (s_h g t) a)).
    { destruct a; try (inversion H; subst; cbn; auto; fail).
      destruct (s_count g); inversion H; subst; cbn; auto. }
    destruct E as [E1 E2]. rewrite E1 in Hr. split; [exact Hr|]. intro t'.
    specialize (Hh t'). rewrite E2 in Hh.
    destruct (Nat.eq_dec t' t) as [->|Hne].
    + rewrite updh_same in Hh. destruct (h_bad (s_h g t)) eqn:Eb; [|reflexivity]. rewrite (mh_bad_abs _ a Eb) in Hh. discriminate.
    + rewrite updh_other in Hh by assumption. exact Hh.
Qed.

Lemma sinv0 cap : SInv cap s0.
Proof. unfold SInv, s0, holding. cbn. repeat split; auto; try lia. constructor. Qed.

Lemma sstep_inv cap g t a g' : SInv cap g -> sstep cap g t a = Some g' -> snobad g' -> SInv cap g'.
Proof.
  intros HI H Hnb'. pose proof (nobad_back _ _ _ _ _ H Hnb') as Hnb.
  destruct HI as (Hcap & Hnd & H0 & Hle & Hfresh & Hcnt). destruct Hnb as [Hrb Hhb]. destruct Hnb' as [Hrb' Hhb'].
  unfold sstep in H. destruct (Nat.eqb_spec t 0) as [->|Ht].
  - (* the read loop *)
    assert (Hhold : forall r c sp, holding (mks c r (s_h g) sp (s_started g)) = holding g) by reflexivity.
    destruct a;
      try (inversion H; subst; clear H; unfold SInv; cbn [s_count s_rd s_h s_spawned s_started] in *;
           rewrite Hhold; repeat split; auto;
           match goal with |- context [mcb_step (s_rd g) ?x] =>
             assert (Hp : b_pending (mcb_step (s_rd g) x) = b_pending (s_rd g))
               by (unfold mcb_step; rewrite Hrb; try reflexivity;
                   repeat match goal with |- context [match ?c with _ => _ end] => destruct c end; reflexivity)
           end; rewrite Hp; exact Hcnt).
    + (* ASemAcq *)
      destruct (Nat.ltb_spec (s_count g) cap) as [Hlt|]; [|discriminate].
      inversion H; subst; clear H. cbn [s_rd] in Hrb'. unfold SInv; cbn [s_count s_rd s_h s_spawned s_started] in *. rewrite Hhold.
      unfold mcb_step in *. rewrite Hrb in *.
      destruct (b_pending (s_rd g) || negb (Nat.eqb (b_phase (s_rd g)) 1)) eqn:E; [cbn in Hrb'; discriminate|].
      apply orb_false_iff in E. destruct E as [Ep _]. rewrite Ep in Hcnt. cbn [b_pending].
      repeat split; auto; lia.
    + (* ASpawn *)
      inversion H; subst; clear H. cbn [s_rd] in Hrb'. unfold SInv; cbn [s_count s_rd s_h s_spawned s_started] in *. rewrite Hhold.
      unfold mcb_step in *. rewrite Hrb in *.
      destruct (b_pending (s_rd g)) eqn:Ep; [|cbn in Hrb'; discriminate]. cbn [b_pending].
      repeat split; auto; lia.
  - (* a handler goroutine *)
    destruct (Nat.eqb t 0) eqn:Et0; [apply Nat.eqb_eq in Et0; contradiction|].
    set (m' := mh_step (s_h g t) a) in *.
    (* the effect of the step on h_rel *)
    assert (Hrel : a <> ASemRel -> h_rel m' = h_rel (s_h g t)).
    { intro Ha. subst m'. unfold mh_step. rewrite (Hhb t). destruct a; try reflexivity; try congruence.
      destruct c; try reflexivity. destruct (Nat.eqb (h_msg (s_h g t)) 0 && Nat.eqb (h_rel (s_h g t)) 0) eqn:E; [|reflexivity].
      apply andb_true_iff in E. destruct E as [_ E]. apply Nat.eqb_eq in E. cbn. auto. }
    destruct (memb t (s_started g)) eqn:Em.
    + (* already running *)
      assert (Hin : In t (s_started g)) by (apply memb_In; exact Em).
      assert (Hhold' : forall c, holding (mks c (s_rd g) (updh (s_h g) t m') (s_spawned g) (s_started g))
                                 = holding g - (if Nat.eqb (h_rel (s_h g t)) 0 then 1 else 0) + (if Nat.eqb (h_rel m') 0 then 1 else 0)).
      { intro c. unfold holding. cbn [s_h s_started].
        rewrite (count_upd (fun m => Nat.eqb (h_rel m) 0) (s_h g) t m' (s_started g) Hnd). rewrite Em. reflexivity. }
      assert (Hpos : Nat.eqb (h_rel (s_h g t)) 0 = true -> 1 <= holding g).
      { intro E. unfold holding.
        assert (Hi : In t (filter (fun t0 => Nat.eqb (h_rel (s_h g t0)) 0) (s_started g))) by (apply filter_In; split; assumption).
        destruct (filter _ (s_started g)); [contradiction|cbn; lia]. }
      assert (Hfresh' : forall t', ~ In t' (s_started g) -> updh (s_h g) t m' t' = mh0).
      { intros t' Hn. rewrite updh_other; [apply Hfresh; exact Hn|]. intro E; subst. contradiction. }
      destruct (match a with ASemRel => true | _ => false end) eqn:Ea.
      * destruct a; try discriminate. destruct (s_count g) as [|n] eqn:Ec; [discriminate|].
        inversion H; subst; clear H. specialize (Hhb' t). cbn [s_h] in Hhb'. rewrite updh_same in Hhb'.
        unfold SInv; cbn [s_count s_rd s_h s_spawned s_started] in *. rewrite Hhold'.
        subst m'. unfold mh_step in *. rewrite (Hhb t) in *.
        destruct (Nat.eqb (h_rel (s_h g t)) 0) eqn:E0; [|cbn in Hhb'; discriminate]. cbn [h_rel]. cbn [Nat.eqb].
        specialize (Hpos eq_refl). repeat split; auto; lia.
      * assert (Ha : a <> ASemRel) by (intro; subst; discriminate).
        assert (H' : g' = mks (s_count g) (s_rd g) (updh (s_h g) t m') (s_spawned g) (s_started g))
          by (destruct a; try discriminate; inversion H; reflexivity).
        subst g'. unfold SInv; cbn [s_count s_rd s_h s_spawned s_started] in *. rewrite Hhold'. rewrite (Hrel Ha).
        destruct (Nat.eqb (h_rel (s_h g t)) 0) eqn:E0; [specialize (Hpos eq_refl)|]; repeat split; auto; lia.
    + (* its first action: consumes a spawn *)
      assert (Hnin : ~ In t (s_started g)) by (intro Hi; apply memb_In in Hi; congruence).
      destruct (Nat.ltb_spec (length (s_started g)) (s_spawned g)) as [Hlt|]; [|discriminate].
      pose proof (Hfresh t Hnin) as Hm0.
      assert (Hhold' : forall c, holding (mks c (s_rd g) (updh (s_h g) t m') (s_spawned g) (t :: s_started g))
                                 = holding g + (if Nat.eqb (h_rel m') 0 then 1 else 0)).
      { intro c. unfold holding. cbn [s_h s_started filter]. rewrite updh_same.
        assert (Hrest : filter (fun t0 => Nat.eqb (h_rel (updh (s_h g) t m' t0)) 0) (s_started g) = filter (fun t0 => Nat.eqb (h_rel (s_h g t0)) 0) (s_started g)).
        { apply filter_ext_in'. intros y Hy. rewrite updh_other; [reflexivity|]. intro E; subst. contradiction. }
        rewrite Hrest. destruct (Nat.eqb (h_rel m') 0); cbn [length]; lia. }
      assert (Hfresh' : forall t', ~ In t' (t :: s_started g) -> updh (s_h g) t m' t' = mh0).
      { intros t' Hn. rewrite updh_other; [apply Hfresh; intro Hi; apply Hn; right; exact Hi|]. intro E; subst. apply Hn. left. reflexivity. }
      assert (Hnd' : NoDup (t :: s_started g)) by (constructor; assumption).
      assert (H0' : ~ In 0 (t :: s_started g)) by (intros [E|Hi]; [congruence|contradiction]).
      destruct (match a with ASemRel => true | _ => false end) eqn:Ea.
      * destruct a; try discriminate. destruct (s_count g) as [|n] eqn:Ec; [discriminate|].
        inversion H; subst; clear H.
        unfold SInv; cbn [s_count s_rd s_h s_spawned s_started length] in *. rewrite Hhold'.
        repeat split; auto; subst m'; rewrite ?Hm0; cbn; lia.
      * assert (Ha : a <> ASemRel) by (intro; subst; discriminate).
        assert (H' : g' = mks (s_count g) (s_rd g) (updh (s_h g) t m') (s_spawned g) (t :: s_started g))
          by (destruct a; try discriminate; inversion H; reflexivity).
        subst g'. unfold SInv; cbn [s_count s_rd s_h s_spawned s_started length] in *. rewrite Hhold'. rewrite (Hrel Ha), Hm0.
        repeat split; auto; cbn; lia.
Qed.

Lemma sruns_nobad_back cap : forall tr g1 g, sruns cap g1 tr = Some g -> snobad g -> snobad g1.
Proof.
  induction tr as [|[t a] tr IH]; intros g1 g H Hn; cbn in H; [inversion H; subst; exact Hn|].
  destruct (sstep cap g1 t a) as [g2|] eqn:E; [|discriminate].
  exact (nobad_back _ _ _ _ _ E (IH _ _ H Hn)).
Qed.

Lemma sruns_inv cap : forall tr g1 g, SInv cap g1 -> sruns cap g1 tr = Some g -> snobad g -> SInv cap g.
Proof.
  induction tr as [|[t a] tr IH]; intros g1 g HI H Hn; cbn in H; [inversion H; subst; exact HI|].
  destruct (sstep cap g1 t a) as [g2|] eqn:E; [|discriminate].
  apply (IH g2 g); [|exact H|exact Hn].
  apply (sstep_inv _ _ _ _ _ HI E). exact (sruns_nobad_back _ _ _ _ H Hn).
Qed.

Lemma filter_sub_len {A} (f h : A -> bool) l : (forall x, f x = true -> h x = true) -> length (filter f l) <= length (filter h l).
Proof.
  intro Hs. induction l as [|x l IH]; cbn; [lia|].
  destruct (f x) eqn:Ef; [rewrite (Hs _ Ef); cbn; lia|destruct (h x); cbn; lia].
Qed.

(* at every moment, at most `cap` handler goroutines are between entering the message callback and releasing their slot *)
Theorem handlers_bounded cap tr g : sruns cap s0 tr = Some g -> snobad g -> in_handler g <= cap.
Proof.
  intros H Hn. destruct (sruns_inv cap tr s0 g (sinv0 cap) H Hn) as (Hcap & _ & _ & _ & _ & Hcnt).
  assert (in_handler g <= holding g).
  { unfold in_handler, holding. apply filter_sub_len. intros x E. apply andb_true_iff in E. tauto. }
  lia.
Qed.

(* the monitors of a global run are the thread-local runs over the projections *)
Lemma sstep_ms cap g t a g' : sstep cap g t a = Some g' ->
  s_rd g' = (if Nat.eqb t 0 then mcb_step (s_rd g) a else s_rd g)
  /\ s_h g' = (if Nat.eqb t 0 then s_h g else updh (s_h g) t (mh_step (s_h g t) a)).
Proof.
  unfold sstep. intro H. destruct (Nat.eqb t 0).
  - destruct a; try (inversion H; subst; cbn; auto; fail). destruct (s_count g <? cap); inversion H; subst; cbn; auto.
  - destruct (if memb t (s_started g) then Some (s_started g) else if length (s_started g) <? s_spawned g then Some (t :: s_started g) else None) as [st|]; [|discriminate].
    destruct a; try (inversion H; subst; cbn; auto; fail). destruct (s_count g); inversion H; subst; cbn; auto.
Qed.

Lemma sruns_ms cap : forall tr g1 g, sruns cap g1 tr = Some g ->
  s_rd g = run mcb mcb_step (s_rd g1) (proj 0 tr)
  /\ forall t, t <> 0 -> s_h g t = run mh mh_step (s_h g1 t) (proj t tr).
Proof.
  induction tr as [|[t0 a0] tr IH]; intros g1 g H; cbn in H.
  - inversion H; subst. split; [reflexivity|intros; reflexivity].
  - destruct (sstep cap g1 t0 a0) as [g2|] eqn:E; [|discriminate].
    destruct (IH _ _ H) as [I1 I2]. destruct (sstep_ms _ _ _ _ _ E) as [E1 E2].
    destruct (Nat.eqb_spec t0 0) as [->|Hne0].
    + split.
      * rewrite I1, E1. rewrite proj_cons_same. reflexivity.
      * intros t Ht. rewrite (I2 t Ht), E2. rewrite proj_cons_other by congruence. reflexivity.
    + split.
      * rewrite I1, E1. rewrite proj_cons_other by congruence. reflexivity.
      * intros t Ht. rewrite (I2 t Ht), E2. destruct (Nat.eq_dec t t0) as [->|Hne].
        -- rewrite proj_cons_same, updh_same. reflexivity.
        -- rewrite proj_cons_other by congruence. rewrite updh_other by assumption. reflexivity.
Qed.

Definition cb_ok' (s : stmt) : bool := check mcb mcb_eqb mcb_step b_bad 200 mcb_final s mcb0.
Definition handler_ok' (s : stmt) : bool := check mh mh_eqb mh_step h_bad 200 mh_final s mh0.

(* with checked programs: thread 0 runs a read loop accepted by M_cb, every other thread a handler accepted by M_handler *)
Theorem system_handlers_bounded (prog : nat -> stmt) cap :
  cb_ok' (prog 0) = true -> (forall t, t <> 0 -> handler_ok' (prog t) = true) ->
  forall tr g, (forall t, thread_trace (prog t) (proj t tr)) ->
  sruns cap s0 tr = Some g -> in_handler g <= cap.
Proof.
  intros Hr Hh tr g Htr Hrun. apply (handlers_bounded cap tr g Hrun).
  destruct (sruns_ms cap tr s0 g Hrun) as [I1 I2]. split.
  - rewrite I1. cbn [s_rd s0].
    exact (check_sound mcb mcb_eqb mcb_eqb_spec mcb_step b_bad mcb_bad_abs 200 mcb_final (prog 0) mcb0 Hr _ (Htr 0)).
  - intro t. destruct (Nat.eq_dec t 0) as [->|Hne].
    + (* the reader's slot in the handler table is never touched *)
      assert (F : forall tr g1 g, sruns cap g1 tr = Some g -> s_h g 0 = s_h g1 0).
      { induction tr0 as [|[t0 a0] tr0 IH]; intros g1 g2 H; cbn in H; [inversion H; reflexivity|].
        destruct (sstep cap g1 t0 a0) as [g3|] eqn:E; [|discriminate]. rewrite (IH _ _ H).
        destruct (sstep_ms _ _ _ _ _ E) as [_ E2]. rewrite E2. destruct (Nat.eqb_spec t0 0); [reflexivity|].
        rewrite updh_other; [reflexivity|congruence]. }
      rewrite (F _ _ _ Hrun). reflexivity.
    + rewrite (I2 t Hne). cbn [s_h s0].
      exact (check_sound mh mh_eqb mh_eqb_spec mh_step h_bad mh_bad_abs 200 mh_final (prog t) mh0 (Hh t Hne) _ (Htr t)).
Qed.
