(* The reflective checker: for a monitor automaton (finite state, absorbing Bad) compute the monitor states reachable
   along every execution of a skeleton program, and its soundness: if check = true, every prefix of every execution
   keeps the monitor out of Bad. Proved once, for all programs - hence valid for whatever Gen/Skel.v contains. *)
From Coq Require Import List Bool Arith Lia.
From Gws Require Import Skel.IR.
Import ListNotations.

Section Checker.
Variable mstate : Type.
Variable mstate_eqb : mstate -> mstate -> bool.
Hypothesis mstate_eqb_spec : forall a b, mstate_eqb a b = true <-> a = b.
Variable mstep : mstate -> act -> mstate.
Variable bad : mstate -> bool.
Hypothesis bad_absorbing : forall m a, bad m = true -> bad (mstep m a) = true.

Definition run (m : mstate) (t : list act) : mstate := fold_left mstep t m.

Definition mem (m : mstate) (X : list mstate) : bool := existsb (mstate_eqb m) X.
Definition subset (A B : list mstate) : bool := forallb (fun m => mem m B) A.
Fixpoint dedup (X : list mstate) : list mstate :=
  match X with [] => [] | x :: r => if mem x r then dedup r else x :: dedup r end.

Lemma mem_In m X : mem m X = true <-> In m X.
Proof.
  unfold mem. rewrite existsb_exists. split.
  - intros [x [Hx He]]. apply mstate_eqb_spec in He. subst. exact Hx.
  - intro H. exists m. split; [exact H|]. apply mstate_eqb_spec. reflexivity.
Qed.
Lemma subset_incl A B : subset A B = true -> incl A B.
Proof. unfold subset. rewrite forallb_forall. intros H x Hx. apply mem_In. apply H. exact Hx. Qed.
Lemma incl_subset A B : incl A B -> subset A B = true.
Proof. intro H. unfold subset. apply forallb_forall. intros x Hx. apply mem_In. apply H. exact Hx. Qed.
Lemma dedup_In x X : In x (dedup X) <-> In x X.
Proof.
  induction X as [|y r IH]; cbn; [tauto|].
  destruct (mem y r) eqn:E.
  - rewrite IH. split; [auto|]. intros [->|H]; [apply mem_In; exact E|exact H].
  - cbn. rewrite IH. tauto.
Qed.

(* result of analysing a statement from a set of monitor states: states at normal / break / return completion *)
Record res := mkres { rN : list mstate; rB : list mstate; rR : list mstate }.

Variable fuel0 : nat.

(* least set containing X and closed under the normal completion of f; accumulates break/return states *)
Fixpoint close (f : list mstate -> option res) (fuel : nat) (X : list mstate) : option (list mstate) :=
  match fuel with
  | O => None
  | S fuel1 =>
      match f X with
      | None => None
      | Some r => if subset (rN r) X then Some X else close f fuel1 (dedup (rN r ++ X))
      end
  end.

Fixpoint post (s : stmt) (X : list mstate) : option res :=
  match s with
  | Skip => Some (mkres X [] [])
  | Stuck => Some (mkres [] [] [])
  | Act a => Some (mkres (dedup (map (fun m => mstep m a) X)) [] [])
  | Seq s1 s2 =>
      match post s1 X with
      | Some r1 => match post s2 (rN r1) with
                   | Some r2 => Some (mkres (rN r2) (rB r1 ++ rB r2) (rR r1 ++ rR r2))
                   | None => None end
      | None => None
      end
  | Choice s1 s2 =>
      match post s1 X, post s2 X with
      | Some a, Some b => Some (mkres (dedup (rN a ++ rN b)) (rB a ++ rB b) (rR a ++ rR b))
      | _, _ => None
      end
  | Loop _ s1 =>
      match close (post s1) fuel0 X with
      | Some Xs => match post s1 Xs with
                   | Some r => Some (mkres (dedup (Xs ++ rB r)) [] (rR r))
                   | None => None end
      | None => None
      end
  | Break => Some (mkres [] X [])
  | Return => Some (mkres [] [] X)
  | Scope body d =>
      match post body X with
      | Some r => match post d (dedup (rN r ++ rR r)) with
                  | Some rd => Some (mkres (rN rd) [] [])
                  | None => None end
      | None => None
      end
  | CatchBreak s1 =>
      match post s1 X with
      | Some r => Some (mkres (dedup (rN r ++ rB r)) [] (rR r))
      | None => None
      end
  | Spawn _ => Some (mkres X [] [])
  end.

Definition sel (k : kind) (r : res) : list mstate := match k with KN => rN r | KB => rB r | KR => rR r end.

Definition all_good (X : list mstate) : bool := forallb (fun m => negb (bad m)) X.

(* final: an extra requirement on the monitor state when the program completes (e.g. "OnClose has been called") *)
Variable final_ok : mstate -> bool.

Definition check (s : stmt) (m0 : mstate) : bool :=
  match post s [m0] with
  | Some r => all_good (rN r) && all_good (rB r) && all_good (rR r) && forallb final_ok (rN r ++ rR r)
  | None => false
  end.

Lemma close_spec f : forall fuel X R, close f fuel X = Some R ->
  incl X R /\ exists r, f R = Some r /\ incl (rN r) R.
Proof.
  induction fuel as [|fuel IH]; intros X R H; cbn in H; [discriminate|].
  destruct (f X) as [r|] eqn:Ef; [|discriminate].
  destruct (subset (rN r) X) eqn:Es.
  - inversion H; subst. split; [apply incl_refl|]. exists r. split; [exact Ef|apply subset_incl; exact Es].
  - apply IH in H. destruct H as [Hi Hr]. split; [|exact Hr].
    intros x Hx. apply Hi. apply dedup_In. apply in_or_app. right. exact Hx.
Qed.

Lemma run_app m t1 t2 : run m (t1 ++ t2) = run (run m t1) t2.
Proof. unfold run. apply fold_left_app. Qed.

Lemma post_sound s t k : exec s t k -> forall X r m,
  post s X = Some r -> In m X -> In (run m t) (sel k r).
Proof.
  intro H. induction H; intros X r m HP Hm; cbn [post] in HP.
  - inversion HP; subst. exact Hm.
  - inversion HP; subst. cbn. apply dedup_In. apply (in_map (fun x => mstep x a)). exact Hm.
  - destruct (post s1 X) as [r1|] eqn:E1; [|discriminate].
    destruct (post s2 (rN r1)) as [r2|] eqn:E2; [|discriminate]. inversion HP; subst.
    rewrite run_app. specialize (IHexec1 _ _ _ E1 Hm). cbn in IHexec1. specialize (IHexec2 _ _ _ E2 IHexec1).
    destruct k; cbn in *; auto; apply in_or_app; right; exact IHexec2.
  - destruct (post s1 X) as [r1|] eqn:E1; [|discriminate].
    destruct (post s2 (rN r1)) as [r2|] eqn:E2; [|discriminate]. inversion HP; subst.
    cbn. apply in_or_app. left. exact (IHexec _ _ _ E1 Hm).
  - destruct (post s1 X) as [r1|] eqn:E1; [|discriminate].
    destruct (post s2 (rN r1)) as [r2|] eqn:E2; [|discriminate]. inversion HP; subst.
    cbn. apply in_or_app. left. exact (IHexec _ _ _ E1 Hm).
  - destruct (post s1 X) as [a|] eqn:E1; [|discriminate]. destruct (post s2 X) as [b|] eqn:E2; [|discriminate].
    inversion HP; subst. specialize (IHexec _ _ _ E1 Hm).
    destruct k; cbn in *; [apply dedup_In| |]; apply in_or_app; left; exact IHexec.
  - destruct (post s1 X) as [a|] eqn:E1; [|discriminate]. destruct (post s2 X) as [b|] eqn:E2; [|discriminate].
    inversion HP; subst. specialize (IHexec _ _ _ E2 Hm).
    destruct k; cbn in *; [apply dedup_In| |]; apply in_or_app; right; exact IHexec.
  - (* loop exit *)
    destruct (close (post s) fuel0 X) as [Xs|] eqn:Ec; [|discriminate].
    destruct (post s Xs) as [r1|] eqn:E1; [|discriminate]. inversion HP; subst.
    apply close_spec in Ec. destruct Ec as [Hi _]. cbn. apply dedup_In. apply in_or_app. left. apply Hi. exact Hm.
  - (* loop iteration *)
    destruct (close (post s) fuel0 X) as [Xs|] eqn:Ec; [|discriminate].
    destruct (post s Xs) as [r1|] eqn:E1; [|discriminate]. inversion HP; subst.
    pose proof Ec as Ec'. apply close_spec in Ec'. destruct Ec' as [Hi [r2 [Hf Hr]]].
    rewrite E1 in Hf. inversion Hf; subst r2.
    assert (Hin : In (run m t1) Xs).
    { apply Hr. exact (IHexec1 _ _ _ E1 (Hi _ Hm)). }
    rewrite run_app.
    (* re-run the analysis of the loop from Xs: same fixpoint *)
    assert (Hloop : post (Loop b s) Xs = Some (mkres (dedup (Xs ++ rB r1)) [] (rR r1))).
    { cbn [post]. assert (Hfuel : fuel0 <> 0) by (intro E; rewrite E in Ec; discriminate).
      destruct fuel0 as [|f0]; [congruence|]. cbn [close]. rewrite E1. rewrite (incl_subset _ _ Hr). rewrite E1. reflexivity. }
    exact (IHexec2 _ _ _ Hloop Hin).
  - (* loop left by break *)
    destruct (close (post s) fuel0 X) as [Xs|] eqn:Ec; [|discriminate].
    destruct (post s Xs) as [r1|] eqn:E1; [|discriminate]. inversion HP; subst.
    apply close_spec in Ec. destruct Ec as [Hi _]. cbn. apply dedup_In. apply in_or_app. right.
    exact (IHexec _ _ _ E1 (Hi _ Hm)).
  - (* loop left by return *)
    destruct (close (post s) fuel0 X) as [Xs|] eqn:Ec; [|discriminate].
    destruct (post s Xs) as [r1|] eqn:E1; [|discriminate]. inversion HP; subst.
    apply close_spec in Ec. destruct Ec as [Hi _]. cbn. exact (IHexec _ _ _ E1 (Hi _ Hm)).
  - inversion HP; subst. exact Hm.
  - inversion HP; subst. exact Hm.
  - destruct (post body X) as [r1|] eqn:E1; [|discriminate].
    destruct (post d (dedup (rN r1 ++ rR r1))) as [rd|] eqn:E2; [|discriminate]. inversion HP; subst.
    rewrite run_app. cbn. apply (IHexec2 _ _ _ E2). apply dedup_In. apply in_or_app. left. exact (IHexec1 _ _ _ E1 Hm).
  - destruct (post body X) as [r1|] eqn:E1; [|discriminate].
    destruct (post d (dedup (rN r1 ++ rR r1))) as [rd|] eqn:E2; [|discriminate]. inversion HP; subst.
    rewrite run_app. cbn. apply (IHexec2 _ _ _ E2). apply dedup_In. apply in_or_app. right. exact (IHexec1 _ _ _ E1 Hm).
  - destruct (post s X) as [r1|] eqn:E1; [|discriminate]. inversion HP; subst.
    cbn. apply dedup_In. apply in_or_app. left. exact (IHexec _ _ _ E1 Hm).
  - destruct (post s X) as [r1|] eqn:E1; [|discriminate]. inversion HP; subst.
    cbn. apply dedup_In. apply in_or_app. right. exact (IHexec _ _ _ E1 Hm).
  - destruct (post s X) as [r1|] eqn:E1; [|discriminate]. inversion HP; subst.
    cbn. exact (IHexec _ _ _ E1 Hm).
  - inversion HP; subst. exact Hm.
Qed.

Lemma bad_run m t : bad m = true -> bad (run m t) = true.
Proof.
  revert m. induction t as [|a t IH]; intros m H; cbn; [exact H|]. apply IH. apply bad_absorbing. exact H.
Qed.

Lemma all_good_In X m : all_good X = true -> In m X -> bad m = false.
Proof. unfold all_good. rewrite forallb_forall. intros H Hin. specialize (H _ Hin). destruct (bad m); [discriminate|reflexivity]. Qed.

(* every prefix of every execution of a checked program keeps the monitor out of Bad *)
Theorem check_sound s m0 : check s m0 = true ->
  forall p, thread_trace s p -> bad (run m0 p) = false.
Proof.
  unfold check. intros Hc p [q [k He]].
  destruct (post s [m0]) as [r|] eqn:EP; [|discriminate].
  rewrite !andb_true_iff in Hc. destruct Hc as [[[HN HB] HR] _].
  assert (Hin : In (run m0 (p ++ q)) (sel k r)) by (eapply post_sound; eauto; left; reflexivity).
  assert (Hg : bad (run m0 (p ++ q)) = false).
  { destruct k; cbn in Hin; [exact (all_good_In _ _ HN Hin)|exact (all_good_In _ _ HB Hin)|exact (all_good_In _ _ HR Hin)]. }
  destruct (bad (run m0 p)) eqn:Eb; [|reflexivity].
  rewrite run_app in Hg. rewrite (bad_run _ q Eb) in Hg. discriminate.
Qed.

(* and a complete execution (normal or by return) ends in a state accepted by final_ok *)
Theorem check_final s m0 : check s m0 = true ->
  forall t k, exec s t k -> k <> KB -> final_ok (run m0 t) = true.
Proof.
  unfold check. intros Hc t k He Hk.
  destruct (post s [m0]) as [r|] eqn:EP; [|discriminate].
  rewrite !andb_true_iff in Hc. destruct Hc as [_ HF]. rewrite forallb_forall in HF.
  assert (Hin : In (run m0 t) (sel k r)) by (eapply post_sound; eauto; left; reflexivity).
  apply HF. apply in_or_app. destruct k; cbn in Hin; [left|congruence|right]; exact Hin.
Qed.

(* a program together with every goroutine it starts *)
Definition check_all (s : stmt) (m0 : mstate) : bool := check s m0 && forallb (fun g => check g m0) (spawns s).

End Checker.
