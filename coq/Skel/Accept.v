(* Validation of the translator (DESIGN 3.4): an action sequence observed on the real code (transport operations and
   callbacks seen by the instrumented in-memory transport / handler) must be the observable projection of some
   execution of the skeleton of the API that was called.  Reuses the checker's reachability computation with a
   "position in the observed sequence" automaton. *)
From Coq Require Import List Bool Arith.
From Gws Require Import Skel.IR Skel.Checker.
Import ListNotations.

(* observable actions, as small numbers: 1 data/control frame written, 2 Close frame written, 3 transport closed,
   4 deadline set, 10 OnOpen, 11 OnClose, 12 OnPing, 13 OnPong, 14 OnMessage, 5 handshake bytes written;
   in an observed sequence 0 = a Write that failed before its kind could be seen (matches any AWire) *)
Definition obs_code (a : act) : option nat :=
  match a with
  | AWire KData => Some 1 | AWire KClose => Some 2 | AWire KAny => Some 1 | AWire KHandshake => Some 5
  | AConnClose => Some 3 | AConnDeadline => Some 4
  | ACb CbOpen => Some 10 | ACb CbClose => Some 11 | ACb CbPing => Some 12 | ACb CbPong => Some 13 | ACb CbMessage => Some 14
  | _ => None
  end.

Section A.
Variable obs : list nat.
(* state: Some i = the first i observed actions have been matched; None = this path does not match *)
Definition astep (m : option nat) (a : act) : option nat :=
  match m, obs_code a with
  | Some i, Some c => match nth_error obs i with
                      | Some c' => if Nat.eqb c c' || (Nat.eqb c' 0 && (Nat.eqb c 1 || Nat.eqb c 2 || Nat.eqb c 5)) then Some (S i) else None
                      | None => None end
  | m, None => m
  | None, _ => None
  end.
Definition aeqb (a b : option nat) : bool :=
  match a, b with Some x, Some y => Nat.eqb x y | None, None => true | _, _ => false end.

Definition accepted (s : stmt) : bool :=
  match post (option nat) aeqb astep 200 s [Some 0] with
  | Some r => existsb (aeqb (Some (length obs))) (rN _ r ++ rR _ r)
  | None => false
  end.
End A.
