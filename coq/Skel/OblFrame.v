(* per-run obligation: whole frames, one Write each (monitor M_frame) *)
From Coq Require Import List Bool Arith Strings.String.
From Gws Require Import Skel.IR Skel.Checker Skel.Monitors Skel.Link Gen.Skel Skel.Obligations.
Import ListNotations.

Theorem skel_ok_frame : forallb frame_ok conn_programs = true.
Proof. vm_compute. reflexivity. Qed.
