(* What acceptance by the lifecycle monitor M_cb means for the sequence of application callbacks of the read loop. *)
From Coq Require Import List Bool Arith Lia.
From Gws Require Import Skel.IR Skel.Checker Skel.Monitors.
Import ListNotations.

(* the lifecycle callbacks performed by a trace, in order (CbUser - recovery functions etc. - is not one of them) *)
Fixpoint cbs (t : list act) : list cbk :=
  match t with
  | [] => []
  | ACb c :: r => match c with CbUser => cbs r | _ => c :: cbs r end
  | _ :: r => cbs r
  end.

Definition is_mid (c : cbk) : Prop := c = CbPing \/ c = CbPong \/ c = CbMessage.

Lemma cbs_app a b : cbs (a ++ b) = cbs a ++ cbs b.
Proof.
  induction a as [|x a IH]; cbn; [reflexivity|]. destruct x; try exact IH. destruct c; cbn; rewrite ?IH; reflexivity.
Qed.

Definition mrun := run mcb mcb_step.

Lemma mrun_snoc m t a : mrun m (t ++ [a]) = mcb_step (mrun m t) a.
Proof. unfold mrun, run. rewrite fold_left_app. reflexivity. Qed.

Definition shape (m : mcb) (l : list cbk) : Prop :=
  match b_phase m with
  | 0 => l = []
  | 1 => exists mids, l = CbOpen :: mids /\ Forall is_mid mids
  | 2 => exists mids, l = CbOpen :: mids ++ [CbClose] /\ Forall is_mid mids
  | _ => False
  end.

Lemma lifecycle_shape : forall t, b_bad (mrun mcb0 t) = false -> shape (mrun mcb0 t) (cbs t).
Proof.
  induction t as [|a t IH] using rev_ind; intro Hb.
  - cbn. reflexivity.
  - rewrite mrun_snoc in *. rewrite cbs_app.
    assert (Hprev : b_bad (mrun mcb0 t) = false).
    { destruct (b_bad (mrun mcb0 t)) eqn:E; [|reflexivity]. rewrite (mcb_bad_abs _ a E) in Hb. discriminate. }
    specialize (IH Hprev). set (m := mrun mcb0 t) in *.
    unfold mcb_step in *. rewrite Hprev in *.
    destruct a; cbn [cbs app]; rewrite ?app_nil_r; try exact IH.
    + (* callback *)
      unfold shape in *.
      destruct c; cbn [cbs app].
      * destruct (Nat.eqb_spec (b_phase m) 0) as [E|E]; [|cbn in Hb; discriminate]. rewrite E in IH. cbn.
        rewrite IH. exists []. split; [reflexivity|constructor].
      * destruct (Nat.eqb_spec (b_phase m) 1) as [E|E]; [|cbn in Hb; discriminate]. rewrite E in IH. cbn.
        destruct IH as (mids & -> & Hm). exists mids. split; [reflexivity|exact Hm].
      * destruct (Nat.eqb_spec (b_phase m) 1) as [E|E]; [|cbn in Hb; discriminate]. rewrite E in *.
        destruct IH as (mids & -> & Hm). exists (mids ++ [CbPing]). split; [reflexivity|].
        apply Forall_app. split; [exact Hm|]. constructor; [left; reflexivity|constructor].
      * destruct (Nat.eqb_spec (b_phase m) 1) as [E|E]; [|cbn in Hb; discriminate]. rewrite E in *.
        destruct IH as (mids & -> & Hm). exists (mids ++ [CbPong]). split; [reflexivity|].
        apply Forall_app. split; [exact Hm|]. constructor; [right; left; reflexivity|constructor].
      * destruct (Nat.eqb_spec (b_phase m) 1) as [E|E]; [|cbn in Hb; discriminate]. rewrite E in *.
        destruct IH as (mids & -> & Hm). exists (mids ++ [CbMessage]). split; [reflexivity|].
        apply Forall_app. split; [exact Hm|]. constructor; [right; right; reflexivity|constructor].
      * rewrite app_nil_r. exact IH.
    + (* SemAcq *)
      destruct (b_pending m || negb (b_phase m =? 1)); [cbn in Hb; discriminate|]. exact IH.
    + (* Spawn *)
      destruct (b_pending m); [|cbn in Hb; discriminate]. exact IH.
Qed.

(* a read loop accepted by the checker: for every complete execution the application sees exactly
   OnOpen, then any number of OnPing/OnPong/OnMessage, then OnClose - and nothing else *)
Theorem lifecycle_complete s :
  check mcb mcb_eqb mcb_step b_bad 200 mcb_final s mcb0 = true ->
  forall t k, exec s t k -> k <> KB ->
  exists mids, cbs t = CbOpen :: mids ++ [CbClose] /\ Forall is_mid mids.
Proof.
  intros Hc t k He Hk.
  pose proof (check_final mcb mcb_eqb mcb_eqb_spec mcb_step b_bad 200 mcb_final s mcb0 Hc t k He Hk) as Hf.
  assert (Hb : b_bad (mrun mcb0 t) = false).
  { apply (check_sound mcb mcb_eqb mcb_eqb_spec mcb_step b_bad mcb_bad_abs 200 mcb_final s mcb0 Hc). exists [], k. rewrite app_nil_r. exact He. }
  pose proof (lifecycle_shape t Hb) as Hs. unfold mcb_final in Hf. apply andb_true_iff in Hf as [Hp _]. apply Nat.eqb_eq in Hp.
  unfold shape in Hs. fold (mrun mcb0 t) in Hp. rewrite Hp in Hs. exact Hs.
Qed.

(* and at every moment of every (possibly unfinished) execution the callbacks so far are a prefix of that shape *)
Theorem lifecycle_prefix s :
  check mcb mcb_eqb mcb_step b_bad 200 mcb_final s mcb0 = true ->
  forall p, thread_trace s p -> shape (mrun mcb0 p) (cbs p).
Proof.
  intros Hc p Hp. apply lifecycle_shape.
  exact (check_sound mcb mcb_eqb mcb_eqb_spec mcb_step b_bad mcb_bad_abs 200 mcb_final s mcb0 Hc p Hp).
Qed.
