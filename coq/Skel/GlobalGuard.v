(* What the lock discipline (monitor M_lock) implies globally: in any interleaving consistent with the mutexes, if
   every thread keeps M_lock out of Bad, then at every access to a lock-guarded field the accessing thread owns the
   guard, and two accesses to the same field by different threads are separated by an Unlock of the guard by the first
   thread followed by a Lock of it by the second - a synchronises-with edge of the Go memory model, i.e. the accesses
   are not a data race.  One instance per lock class is considered (one connection, one deflater, one shard). *)
From Coq Require Import List Bool Arith Lia.
From Gws Require Import Skel.IR Skel.Monitors.
Import ListNotations.

Definition tid := nat.

Record lst := mkls { lowner : lockc -> option tid; lms : tid -> mlock }.
Definition ls0 := mkls (fun _ => None) (fun _ => mlock0).
Definition updm (f : tid -> mlock) (t : tid) (m : mlock) : tid -> mlock := fun t' => if Nat.eqb t' t then m else f t'.
Definition updo (f : lockc -> option tid) (l : lockc) (o : option tid) : lockc -> option tid :=
  fun l' => if lockc_eqb l' l then o else f l'.

Section G.
Variable mode : tid -> lmode.

Definition lstep (g : lst) (t : tid) (a : act) : option lst :=
  let f := updm (lms g) t (mlock_step (mode t) (lms g t) a) in
  match a with
  | ALock l => match lowner g l with None => Some (mkls (updo (lowner g) l (Some t)) f) | Some _ => None end
  | AUnlock l => match lowner g l with
                 | Some t' => if Nat.eqb t' t then Some (mkls (updo (lowner g) l None) f) else None
                 | None => None end
  | _ => Some (mkls (lowner g) f)
  end.

Fixpoint lruns (g : lst) (tr : list (tid * act)) : option lst :=
  match tr with
  | [] => Some g
  | (t, a) :: r => match lstep g t a with Some g' => lruns g' r | None => None end
  end.

Definition lnobad (g : lst) := forall t, l_bad (lms g t) = false.

(* the monitor's held set is exactly what the thread owns *)
Definition LInv (g : lst) : Prop := forall t l, holds_lock l (l_held (lms g t)) = true <-> lowner g l = Some t.

Lemma updm_same f t m : updm f t m t = m.
Proof. unfold updm. rewrite Nat.eqb_refl. reflexivity. Qed.
Lemma updm_other f t m t' : t' <> t -> updm f t m t' = f t'.
Proof. unfold updm. intro H. apply Nat.eqb_neq in H. rewrite H. reflexivity. Qed.
Lemma updo_same f l o : updo f l o l = o.
Proof. unfold updo. replace (lockc_eqb l l) with true by (destruct l; reflexivity). reflexivity. Qed.
Lemma updo_other f l o l' : l' <> l -> updo f l o l' = f l'.
Proof. unfold updo. intro H. destruct (lockc_eqb l' l) eqn:E; [apply lockc_eqb_spec in E; congruence|reflexivity]. Qed.

Lemma holds_remove l l' h : l' <> l -> holds_lock l' (remove_lock l h) = holds_lock l' h.
Proof.
  intro Hne. unfold holds_lock. induction h as [|x h IH]; cbn [remove_lock existsb]; [reflexivity|].
  destruct (lockc_eqb l x) eqn:E.
  - apply lockc_eqb_spec in E. subst x.
    replace (lockc_eqb l' l) with false by (symmetry; destruct (lockc_eqb l' l) eqn:E'; [apply lockc_eqb_spec in E'; congruence|reflexivity]).
    reflexivity.
  - cbn [existsb]. rewrite IH. reflexivity.
Qed.

(* at most one copy of a lock is ever in the held list (re-acquisition is Bad), so removing it clears it *)
Definition nodup_held (g : lst) : Prop := forall t, NoDup (l_held (lms g t)).

Lemma holds_remove_same l h : NoDup h -> holds_lock l (remove_lock l h) = false.
Proof.
  unfold holds_lock. induction h as [|x h IH]; intro Hn; cbn [remove_lock existsb]; [reflexivity|]. inversion Hn; subst.
  destruct (lockc_eqb l x) eqn:E.
  - apply lockc_eqb_spec in E. subst x.
    destruct (existsb (lockc_eqb l) h) eqn:Eh; [|reflexivity]. exfalso. apply existsb_exists in Eh.
    destruct Eh as [y [Hy Hey]]. apply lockc_eqb_spec in Hey. subst y. contradiction.
  - cbn [existsb]. rewrite E. cbn. apply IH. assumption.
Qed.

Lemma remove_nodup l h : NoDup h -> NoDup (remove_lock l h).
Proof.
  induction h as [|x h IH]; intro Hn; cbn; [constructor|]. inversion Hn; subst.
  destruct (lockc_eqb l x); [assumption|]. constructor; [|apply IH; assumption].
  intro Hin. apply H1. clear -Hin. induction h as [|y h IH]; cbn in *; [contradiction|].
  destruct (lockc_eqb l y); [right; exact Hin|]. destruct Hin as [->|Hin]; [left; reflexivity|right; apply IH; exact Hin].
Qed.

Lemma same_state g t m : m = lms g t -> forall t', updm (lms g) t m t' = lms g t'.
Proof. intros -> t'. destruct (Nat.eq_dec t' t) as [->|Hne]; [apply updm_same|apply updm_other; assumption]. Qed.

Lemma inv_same g f : (forall t', f t' = lms g t') -> LInv g -> nodup_held g ->
  LInv (mkls (lowner g) f) /\ nodup_held (mkls (lowner g) f).
Proof.
  intros Hf HI HN. split.
  - intros t' l'. cbn. rewrite Hf. apply HI.
  - intro t'. cbn. rewrite Hf. apply HN.
Qed.

Lemma lstep_inv g t a g' : LInv g -> nodup_held g -> lnobad g -> lstep g t a = Some g' -> lnobad g' -> LInv g' /\ nodup_held g'.
Proof.
  intros HI HN Hnb Hs Hnb'.
  pose proof (Hnb t) as Hbt. pose proof (Hnb' t) as Hbt'.
  unfold lstep in Hs.
  assert (Hsame : mlock_step (mode t) (lms g t) a = lms g t -> lstep g t a = Some (mkls (lowner g) (updm (lms g) t (lms g t))) ->
                  LInv (mkls (lowner g) (updm (lms g) t (lms g t))) /\ nodup_held (mkls (lowner g) (updm (lms g) t (lms g t)))).
  { intros _ _. apply inv_same; [apply same_state; reflexivity|exact HI|exact HN]. }
  destruct a.
  - (* Lock *)
    destruct (lowner g l) eqn:Eo; [discriminate|]. inversion Hs; subst g'; clear Hs. cbn in *. rewrite updm_same in Hbt'.
    unfold mlock_step in *. rewrite Hbt in *.
    destruct (holds_lock l (l_held (lms g t)) || negb (forallb (fun x => rank x <? rank l) (l_held (lms g t)))) eqn:Ec; [cbn in Hbt'; discriminate|].
    apply orb_false_iff in Ec as [Eh _].
    split.
    + intros t' l'. cbn. destruct (Nat.eq_dec t' t) as [->|Hne]; [rewrite updm_same|rewrite updm_other by assumption]; cbn [l_held].
      * destruct (lockc_eqb l' l) eqn:El.
        -- apply lockc_eqb_spec in El. subst l'. rewrite updo_same. unfold holds_lock. cbn. replace (lockc_eqb l l) with true by (destruct l; reflexivity). cbn. tauto.
        -- assert (l' <> l) by (intro; subst; destruct l; discriminate). rewrite updo_other by assumption. unfold holds_lock. cbn. rewrite El. cbn. apply HI.
      * destruct (lockc_eqb l' l) eqn:El.
        -- apply lockc_eqb_spec in El. subst l'. rewrite updo_same. split; [intro H; apply HI in H; congruence|intro H; inversion H; congruence].
        -- assert (l' <> l) by (intro; subst; destruct l; discriminate). rewrite updo_other by assumption. apply HI.
    + intro t'. cbn. destruct (Nat.eq_dec t' t) as [->|Hne]; [rewrite updm_same|rewrite updm_other by assumption; apply HN].
      cbn. constructor; [|apply HN]. intro Hin. unfold holds_lock in Eh.
      assert (existsb (lockc_eqb l) (l_held (lms g t)) = true) by (apply existsb_exists; exists l; split; [exact Hin|destruct l; reflexivity]). congruence.
  - (* Unlock *)
    destruct (lowner g l) as [t0|] eqn:Eo; [|discriminate]. destruct (Nat.eqb_spec t0 t) as [->|]; [|discriminate].
    inversion Hs; subst g'; clear Hs. cbn in *. rewrite updm_same in Hbt'.
    unfold mlock_step in *. rewrite Hbt in *.
    destruct (holds_lock l (l_held (lms g t))) eqn:Eh; [|cbn in Hbt'; discriminate].
    split.
    + intros t' l'. cbn. destruct (Nat.eq_dec t' t) as [->|Hne]; [rewrite updm_same|rewrite updm_other by assumption]; cbn [l_held].
      * destruct (lockc_eqb l' l) eqn:El.
        -- apply lockc_eqb_spec in El. subst l'. rewrite updo_same. rewrite holds_remove_same by apply HN. split; discriminate.
        -- assert (l' <> l) by (intro; subst; destruct l; discriminate). rewrite updo_other by assumption. rewrite holds_remove by assumption. apply HI.
      * destruct (lockc_eqb l' l) eqn:El.
        -- apply lockc_eqb_spec in El. subst l'. rewrite updo_same. split; [intro H; apply HI in H; congruence|discriminate].
        -- assert (l' <> l) by (intro; subst; destruct l; discriminate). rewrite updo_other by assumption. apply HI.
    + intro t'. cbn. destruct (Nat.eq_dec t' t) as [->|Hne]; [rewrite updm_same|rewrite updm_other by assumption; apply HN].
      cbn. apply remove_nodup. apply HN.
  - inversion Hs; subst g'. apply inv_same; try assumption. apply same_state. unfold mlock_step. rewrite Hbt. reflexivity.
  - inversion Hs; subst g'. apply inv_same; try assumption. apply same_state. unfold mlock_step. rewrite Hbt. reflexivity.
  - inversion Hs; subst g'. apply inv_same; try assumption. apply same_state. unfold mlock_step. rewrite Hbt. reflexivity.
  - inversion Hs; subst g'. apply inv_same; try assumption. apply same_state. unfold mlock_step. rewrite Hbt. reflexivity.
  - inversion Hs; subst g'. apply inv_same; try assumption. apply same_state. unfold mlock_step. rewrite Hbt. reflexivity.
  - inversion Hs; subst g'. apply inv_same; try assumption. apply same_state. unfold mlock_step. rewrite Hbt. reflexivity.
  - inversion Hs; subst g'. apply inv_same; try assumption. apply same_state. unfold mlock_step. rewrite Hbt. reflexivity.
  - inversion Hs; subst g'. apply inv_same; try assumption. apply same_state. unfold mlock_step. rewrite Hbt. reflexivity.
  - inversion Hs; subst g'. apply inv_same; try assumption. apply same_state. unfold mlock_step. rewrite Hbt. reflexivity.
  - (* Acc: unchanged unless bad *)
    inversion Hs; subst g'. cbn in Hbt'. rewrite updm_same in Hbt'. apply inv_same; try assumption. apply same_state.
    unfold mlock_step in *. rewrite Hbt in *.
    destruct (mode t), (guard_of f); try destruct (holds_lock l (l_held (lms g t))); cbn in *; try discriminate; reflexivity.
  - inversion Hs; subst g'. apply inv_same; try assumption. apply same_state. unfold mlock_step. rewrite Hbt. reflexivity.
  - inversion Hs; subst g'. apply inv_same; try assumption. apply same_state. unfold mlock_step. rewrite Hbt. reflexivity.
  - inversion Hs; subst g'. apply inv_same; try assumption. apply same_state. unfold mlock_step. rewrite Hbt. reflexivity.
  - inversion Hs; subst g'. apply inv_same; try assumption. apply same_state. unfold mlock_step. rewrite Hbt. reflexivity.
  - inversion Hs; subst g'. apply inv_same; try assumption. apply same_state. unfold mlock_step. rewrite Hbt. reflexivity.
  - (* Unknown: bad *)
    inversion Hs; subst g'. cbn in Hbt'. rewrite updm_same in Hbt'. unfold mlock_step in Hbt'. rewrite Hbt in Hbt'. cbn in Hbt'. discriminate.
Qed.

(* the guard is owned at every access: if the step is an access to a lock-guarded field and the thread stays out of Bad *)
Lemma access_owns_guard g t f w g' l : LInv g -> lnobad g -> mode t <> MConstruct ->
  lstep g t (AAcc f w) = Some g' -> lnobad g' -> guard_of f = GLock l -> lowner g l = Some t.
Proof.
  intros HI Hnb Hm Hs Hnb' Hg. pose proof (Hnb t) as Hbt. pose proof (Hnb' t) as Hbt'.
  unfold lstep in Hs. inversion Hs; subst g'. cbn in Hbt'. rewrite updm_same in Hbt'.
  unfold mlock_step in Hbt'. rewrite Hbt, Hg in Hbt'.
  apply HI. destruct (mode t); try congruence; destruct (holds_lock l (l_held (lms g t))); cbn in Hbt'; congruence.
Qed.

Lemma linv0 : LInv ls0 /\ nodup_held ls0.
Proof. split; [intros t l; cbn; split; discriminate|intro t; cbn; constructor]. Qed.

Lemma lstep_ms g t a g' : lstep g t a = Some g' -> lms g' = updm (lms g) t (mlock_step (mode t) (lms g t) a).
Proof.
  unfold lstep. intro H. destruct a; repeat match type of H with context [match ?x with _ => _ end] => destruct x; try discriminate end;
  inversion H; reflexivity.
Qed.

Lemma lstep_nobad_back g t a g' : lstep g t a = Some g' -> lnobad g' -> lnobad g.
Proof.
  intros Hs Hn t'. specialize (Hn t'). rewrite (lstep_ms _ _ _ _ Hs) in Hn.
  destruct (Nat.eq_dec t' t) as [->|Hne].
  - rewrite updm_same in Hn. destruct (l_bad (lms g t)) eqn:E; [|reflexivity].
    rewrite (mlock_bad_abs _ _ a E) in Hn. discriminate.
  - rewrite updm_other in Hn by assumption. exact Hn.
Qed.

Lemma lruns_nobad_back : forall tr g1 g, lruns g1 tr = Some g -> lnobad g -> lnobad g1.
Proof.
  induction tr as [|[t a] tr IH]; intros g1 g Hr Hn; cbn in Hr.
  - inversion Hr; subst. exact Hn.
  - destruct (lstep g1 t a) as [g2|] eqn:Es; [|discriminate].
    eapply lstep_nobad_back; [exact Es|]. eapply IH; eauto.
Qed.

Lemma lruns_inv : forall tr g1 g, LInv g1 -> nodup_held g1 -> lruns g1 tr = Some g -> lnobad g -> LInv g /\ nodup_held g.
Proof.
  induction tr as [|[t a] tr IH]; intros g1 g HI HN Hr Hn; cbn in Hr.
  - inversion Hr; subst. split; assumption.
  - destruct (lstep g1 t a) as [g2|] eqn:Es; [|discriminate].
    pose proof (lruns_nobad_back _ _ _ Hr Hn) as Hn2.
    pose proof (lstep_nobad_back _ _ _ _ Es Hn2) as Hn1.
    destruct (lstep_inv _ _ _ _ HI HN Hn1 Es Hn2) as [HI2 HN2].
    eapply IH; eauto.
Qed.

(* Every access to a lock-guarded field, anywhere in any run, is made by the owner of the guard *)
Theorem guarded_access_exclusive : forall tr1 t f w tr2 g l,
  lruns ls0 (tr1 ++ (t, AAcc f w) :: tr2) = Some g -> lnobad g -> mode t <> MConstruct -> guard_of f = GLock l ->
  exists g1, lruns ls0 tr1 = Some g1 /\ lowner g1 l = Some t.
Proof.
  intros tr1 t f w tr2 g l Hr Hn Hm Hg.
  assert (Hsplit : forall tr g0, lruns g0 (tr ++ (t, AAcc f w) :: tr2) = Some g ->
            exists g1 g2, lruns g0 tr = Some g1 /\ lstep g1 t (AAcc f w) = Some g2 /\ lruns g2 tr2 = Some g).
  { induction tr as [|[t0 a0] tr IH]; intros g0 H; cbn [lruns app] in H.
    - destruct (lstep g0 t (AAcc f w)) as [g2|] eqn:E; [|discriminate]. exists g0, g2. split; [reflexivity|split; [exact E|exact H]].
    - destruct (lstep g0 t0 a0) as [g'|] eqn:E; [|discriminate]. destruct (IH _ H) as (g1 & g2 & H1 & H2 & H3).
      exists g1, g2. split; [cbn [lruns]; rewrite E; exact H1|split; assumption]. }
  destruct (Hsplit tr1 ls0 Hr) as (g1 & g2 & H1 & H2 & H3).
  exists g1. split; [exact H1|].
  pose proof (lruns_nobad_back _ _ _ H3 Hn) as Hn2.
  pose proof (lstep_nobad_back _ _ _ _ H2 Hn2) as Hn1.
  destruct linv0 as [I0 N0]. destruct (lruns_inv _ _ _ I0 N0 H1 Hn1) as [HI1 _].
  eapply access_owns_guard; eauto.
Qed.
End G.
