(* per-run obligation: lock order, balanced locks, guarded fields (monitor M_lock) *)
From Coq Require Import List Bool Arith Strings.String.
From Gws Require Import Skel.IR Skel.Checker Skel.Monitors Skel.Link Gen.Skel Skel.Obligations.
Import ListNotations.

Theorem skel_ok_lock : forallb (fun p => lock_ok (fst p) (snd p)) lock_programs = true.
Proof. vm_compute. reflexivity. Qed.
