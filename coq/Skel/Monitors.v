(* The monitors: small deterministic automata over a thread's action trace, each with an absorbing Bad state.
   What Bad means is the thread-local discipline; Skel/Global*.v prove what that discipline implies globally. *)
From Coq Require Import List Bool Arith Lia.
From Gws Require Import Skel.IR.
Import ListNotations.

Definition lockc_eqb (a b : lockc) : bool :=
  match a, b with
  | LConn, LConn | LQueue, LQueue | LCps, LCps | LDps, LDps | LMap, LMap | LSmap, LSmap | LOther, LOther => true
  | _, _ => false
  end.

(* ------------------------------------------------------------------ M_close *)
(* data/control frames only while holding Conn.mu AND having read closed = false since acquiring it; the Close frame
   only by the thread whose CAS succeeded, once, holding Conn.mu; the transport is closed only by that thread *)
Record mclose := mkc { c_holds : bool; c_chk : bool; c_phase : nat; c_bad : bool }.
Definition mclose0 := mkc false false 0 false.
Definition mclose_eqb (a b : mclose) : bool :=
  Bool.eqb (c_holds a) (c_holds b) && Bool.eqb (c_chk a) (c_chk b) && Nat.eqb (c_phase a) (c_phase b) && Bool.eqb (c_bad a) (c_bad b).
Lemma mclose_eqb_spec a b : mclose_eqb a b = true <-> a = b.
Proof.
  destruct a, b; unfold mclose_eqb; cbn. rewrite !andb_true_iff, !Bool.eqb_true_iff, Nat.eqb_eq.
  split; [intros [[[-> ->] ->] ->]; reflexivity|intro H; inversion H; auto].
Qed.
Definition cbad (m : mclose) := mkc (c_holds m) (c_chk m) (c_phase m) true.
(* the actions that matter for the close discipline *)
Inductive cact := CLock | CUnlock | CRead (b : bool) | CCas (b : bool) | CData | CClose | CConnClose | CNop | CBad.
Definition abs_close (a : act) : cact :=
  match a with
  | ALock LConn => CLock | AUnlock LConn => CUnlock
  | ARead b => CRead b | ACas b => CCas b
  | AWire KData => CData | AWire KClose => CClose | AWire KAny => CBad
  | AConnClose => CConnClose
  | AUnknown => CBad
  | _ => CNop
  end.
Definition cstep (m : mclose) (a : cact) : mclose :=
  if c_bad m then m else
  match a with
  | CLock => if c_holds m then cbad m else mkc true false (c_phase m) false
  | CUnlock => if c_holds m then mkc false false (c_phase m) false else cbad m
  | CRead b => if c_holds m then mkc true (negb b) (c_phase m) false else m
  | CCas b => if b then mkc (c_holds m) (c_chk m) 1 false else m
  | CData => if c_holds m && c_chk m then m else cbad m
  | CClose => if c_holds m && Nat.eqb (c_phase m) 1 then mkc true false 2 false else cbad m
  | CConnClose => if Nat.eqb (c_phase m) 1 || Nat.eqb (c_phase m) 2 then mkc (c_holds m) (c_chk m) 3 false else cbad m
  | CNop => m
  | CBad => cbad m
  end.
Definition mclose_step (m : mclose) (a : act) : mclose := cstep m (abs_close a).
Lemma cstep_bad m a : c_bad m = true -> c_bad (cstep m a) = true.
Proof. intro H. unfold cstep. rewrite H. exact H. Qed.
Lemma mclose_bad_abs m a : c_bad m = true -> c_bad (mclose_step m a) = true.
Proof. apply cstep_bad. Qed.

(* ------------------------------------------------------------------ M_frame *)
(* one call writes its data frames inside ONE critical section of Conn.mu (a streamed message cannot be interleaved) *)
Record mframe := mkf { f_holds : bool; f_cs : bool; f_prev : bool; f_bad : bool }.
Definition mframe0 := mkf false false false false.
Definition mframe_eqb (a b : mframe) : bool :=
  Bool.eqb (f_holds a) (f_holds b) && Bool.eqb (f_cs a) (f_cs b) && Bool.eqb (f_prev a) (f_prev b) && Bool.eqb (f_bad a) (f_bad b).
Lemma mframe_eqb_spec a b : mframe_eqb a b = true <-> a = b.
Proof.
  destruct a, b; unfold mframe_eqb; cbn. rewrite !andb_true_iff, !Bool.eqb_true_iff.
  split; [intros [[[-> ->] ->] ->]; reflexivity|intro H; inversion H; auto].
Qed.
Definition mframe_step (m : mframe) (a : act) : mframe :=
  if f_bad m then m else
  match a with
  | ALock LConn => mkf true false (f_prev m) false
  | AUnlock LConn => mkf false false (f_prev m || f_cs m) false
  | AWire KData => if negb (f_holds m) || (f_prev m && negb (f_cs m)) then mkf (f_holds m) (f_cs m) (f_prev m) true
                   else mkf true true (f_prev m) false
  | ABoundary => mkf (f_holds m) (f_cs m) false false
  | AUnknown => mkf (f_holds m) (f_cs m) (f_prev m) true
  | _ => m
  end.
Lemma mframe_bad_abs m a : f_bad m = true -> f_bad (mframe_step m a) = true.
Proof. intro H. unfold mframe_step. rewrite H. exact H. Qed.

(* ------------------------------------------------------------------ M_lock: lock order + guarded accesses *)
(* held locks as a list; acquiring l requires: not held, and rank l > rank of every held lock (acyclic order
   Conn.mu < deflater locks < queue/map/other leaf locks); unlocking requires held; an access to a guarded field requires
   its guard (reader-confined fields: only on the reader thread) *)
Definition rank (l : lockc) : nat :=
  match l with LConn => 1 | LCps => 2 | LDps => 2 | LQueue => 3 | LMap => 3 | LSmap => 3 | LOther => 4 end.
Inductive guard := GLock (l : lockc) | GReader.
Definition guard_of (f : fieldc) : guard :=
  match f with
  | FCpsWindow => GLock LConn | FCpsWriter => GLock LCps | FDpsState => GLock LDps | FQueue => GLock LQueue
  | FMapData => GLock LMap | FSmapData => GLock LSmap | FDpsWindow => GReader | FReaderState => GReader
  end.
Record mlock := mkl { l_held : list lockc; l_bad : bool }.
Definition mlock0 := mkl [] false.
Fixpoint held_eqb (a b : list lockc) : bool :=
  match a, b with [], [] => true | x :: a', y :: b' => lockc_eqb x y && held_eqb a' b' | _, _ => false end.
Lemma lockc_eqb_spec a b : lockc_eqb a b = true <-> a = b.
Proof. destruct a, b; cbn; split; intro H; try discriminate; auto. Qed.
Lemma held_eqb_spec a : forall b, held_eqb a b = true <-> a = b.
Proof.
  induction a as [|x a IH]; intros [|y b]; cbn; split; intro H; try discriminate; auto.
  - apply andb_true_iff in H as [H1 H2]. apply lockc_eqb_spec in H1. apply IH in H2. congruence.
  - inversion H; subst. apply andb_true_iff. split; [apply lockc_eqb_spec; reflexivity|apply IH; reflexivity].
Qed.
Definition mlock_eqb (a b : mlock) : bool := held_eqb (l_held a) (l_held b) && Bool.eqb (l_bad a) (l_bad b).
Lemma mlock_eqb_spec a b : mlock_eqb a b = true <-> a = b.
Proof.
  destruct a, b; unfold mlock_eqb; cbn. rewrite andb_true_iff, held_eqb_spec, Bool.eqb_true_iff.
  split; [intros [-> ->]; reflexivity|intro H; inversion H; auto].
Qed.
Definition holds_lock (l : lockc) (h : list lockc) : bool := existsb (lockc_eqb l) h.
Fixpoint remove_lock (l : lockc) (h : list lockc) : list lockc :=
  match h with [] => [] | x :: r => if lockc_eqb l x then r else x :: remove_lock l r end.
(* mode: MReader = the read-loop thread, MOther = any other thread of an established connection,
   MConstruct = a handshake function (the connection is not shared yet: field accesses are not checked) *)
Inductive lmode := MReader | MOther | MConstruct.
Definition mlock_step (mode : lmode) (m : mlock) (a : act) : mlock :=
  if l_bad m then m else
  match a with
  | ALock l => if holds_lock l (l_held m) || negb (forallb (fun x => rank x <? rank l) (l_held m)) then mkl (l_held m) true
               else mkl (l :: l_held m) false
  | AUnlock l => if holds_lock l (l_held m) then mkl (remove_lock l (l_held m)) false else mkl (l_held m) true
  | AAcc f _ => match mode, guard_of f with
                | MConstruct, _ => m
                | _, GLock l => if holds_lock l (l_held m) then m else mkl (l_held m) true
                | MReader, GReader => m
                | MOther, GReader => mkl (l_held m) true
                end
  | AUnknown => mkl (l_held m) true
  | _ => m
  end.
Lemma mlock_bad_abs r m a : l_bad m = true -> l_bad (mlock_step r m a) = true.
Proof. intro H. unfold mlock_step. rewrite H. exact H. Qed.
(* a completed call has released everything *)
Definition mlock_final (m : mlock) : bool := match l_held m with [] => true | _ => false end.

(* ------------------------------------------------------------------ M_cb: callback lifecycle of the read loop *)
Record mcb := mkb { b_phase : nat; b_pending : bool; b_bad : bool }.   (* phase 0 = before OnOpen, 1 = open, 2 = OnClose done *)
Definition mcb0 := mkb 0 false false.
Definition mcb_eqb (a b : mcb) : bool := Nat.eqb (b_phase a) (b_phase b) && Bool.eqb (b_pending a) (b_pending b) && Bool.eqb (b_bad a) (b_bad b).
Lemma mcb_eqb_spec a b : mcb_eqb a b = true <-> a = b.
Proof.
  destruct a, b; unfold mcb_eqb; cbn. rewrite !andb_true_iff, Nat.eqb_eq, !Bool.eqb_true_iff.
  split; [intros [[-> ->] ->]; reflexivity|intro H; inversion H; auto].
Qed.
Definition bbad (m : mcb) := mkb (b_phase m) (b_pending m) true.
Definition mcb_step (m : mcb) (a : act) : mcb :=
  if b_bad m then m else
  match a with
  | ACb CbOpen => if Nat.eqb (b_phase m) 0 then mkb 1 (b_pending m) false else bbad m
  | ACb CbClose => if Nat.eqb (b_phase m) 1 then mkb 2 (b_pending m) false else bbad m
  | ACb CbPing | ACb CbPong | ACb CbMessage => if Nat.eqb (b_phase m) 1 then m else bbad m
  | ASemAcq => if b_pending m || negb (Nat.eqb (b_phase m) 1) then bbad m else mkb (b_phase m) true false
  | ASpawn => if b_pending m then mkb (b_phase m) false false else bbad m   (* a handler goroutine only after taking a semaphore slot *)
  | AUnknown => bbad m
  | _ => m
  end.
Lemma mcb_bad_abs m a : b_bad m = true -> b_bad (mcb_step m a) = true.
Proof. intro H. unfold mcb_step. rewrite H. exact H. Qed.
Definition mcb_final (m : mcb) : bool := Nat.eqb (b_phase m) 2 && negb (b_pending m).

(* ------------------------------------------------------------------ M_handler: a parallel message handler goroutine *)
(* delivers the message exactly once and releases its semaphore slot exactly once, after the callback *)
Record mh := mkh { h_msg : nat; h_rel : nat; h_bad : bool }.
Definition mh0 := mkh 0 0 false.
Definition mh_eqb (a b : mh) : bool := Nat.eqb (h_msg a) (h_msg b) && Nat.eqb (h_rel a) (h_rel b) && Bool.eqb (h_bad a) (h_bad b).
Lemma mh_eqb_spec a b : mh_eqb a b = true <-> a = b.
Proof.
  destruct a, b; unfold mh_eqb; cbn. rewrite !andb_true_iff, !Nat.eqb_eq, Bool.eqb_true_iff.
  split; [intros [[-> ->] ->]; reflexivity|intro H; inversion H; auto].
Qed.
Definition mh_step (m : mh) (a : act) : mh :=
  if h_bad m then m else
  match a with
  | ACb CbMessage => if Nat.eqb (h_msg m) 0 && Nat.eqb (h_rel m) 0 then mkh 1 0 false else mkh (h_msg m) (h_rel m) true
  | ASemRel => if Nat.eqb (h_rel m) 0 then mkh (h_msg m) 1 false else mkh (h_msg m) (h_rel m) true
  | AUnknown => mkh (h_msg m) (h_rel m) true
  | _ => m
  end.
Lemma mh_bad_abs m a : h_bad m = true -> h_bad (mh_step m a) = true.
Proof. intro H. unfold mh_step. rewrite H. exact H. Qed.
Definition mh_final (m : mh) : bool := Nat.eqb (h_msg m) 1 && Nat.eqb (h_rel m) 1.
