(* per-run obligation: the close discipline (monitor M_close) on the regenerated skeleton *)
From Coq Require Import List Bool Arith Strings.String.
From Gws Require Import Skel.IR Skel.Checker Skel.Monitors Skel.Link Gen.Skel Skel.Obligations.
Import ListNotations.

Theorem skel_ok_close : forallb close_ok conn_programs = true.
Proof. vm_compute. reflexivity. Qed.
