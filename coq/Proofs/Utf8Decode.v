(* C16 lemmas, part 3: validator => RFC 3629.  Every string accepted by valid_s is the concatenation of the
   encodings of Unicode scalar values (a decoder read off the validator's case analysis). *)
From Gws Require Import Lib.Base Model.Utf8 Spec.Rfc3629 Proofs.Utf8Loop Proofs.Utf8Digits.
Local Open Scope N_scope.

(* what acceptance of a non-empty string says about its head *)
Lemma valid_s_inv b0 r : valid_s (b0 :: r) = true ->
  (b0 < 0x80 /\ valid_s r = true) \/
  (exists c1 r1, r = c1 :: r1 /\ 0xC2 <= b0 <= 0xDF /\ 0x80 <= c1 <= 0xBF /\ valid_s r1 = true) \/
  (exists c1 c2 r2, r = c1 :: c2 :: r2 /\ 0xE0 <= b0 <= 0xEF /\ (b0 = 0xE0 -> 0xA0 <= c1) /\ (b0 = 0xED -> c1 <= 0x9F)
      /\ 0x80 <= c1 <= 0xBF /\ 0x80 <= c2 <= 0xBF /\ valid_s r2 = true) \/
  (exists c1 c2 c3 r3, r = c1 :: c2 :: c3 :: r3 /\ 0xF0 <= b0 <= 0xF4 /\ (b0 = 0xF0 -> 0x90 <= c1) /\ (b0 = 0xF4 -> c1 <= 0x8F)
      /\ 0x80 <= c1 <= 0xBF /\ 0x80 <= c2 <= 0xBF /\ 0x80 <= c3 <= 0xBF /\ valid_s r3 = true).
Proof.
  cbn [valid_s]. unfold in_rng, cont, in_rng.
  destruct (N.ltb_spec b0 0x80) as [Hlt|Hge]; [intro H; left; split; assumption|].
  destruct (N.leb_spec 0xC2 b0) as [H1|H1]; cbn [andb]; [|bdec; intro; discriminate].
  destruct (N.leb_spec b0 0xDF) as [H2|H2]; cbn [andb].
  { destruct r as [|c1 r1]; [intro; discriminate|].
    intro H. right; left. exists c1, r1.
    apply andb_true_iff in H as [Hc Hv]. apply andb_true_iff in Hc as [Hc1 Hc2].
    apply N.leb_le in Hc1, Hc2. repeat split; try assumption; lia. }
  destruct (N.leb_spec 0xE0 b0) as [H3|H3]; cbn [andb]; [|lia].
  destruct (N.leb_spec b0 0xEF) as [H4|H4]; cbn [andb].
  { destruct r as [|c1 [|c2 r2]]; [intro; discriminate..|].
    intro H. right; right; left. exists c1, c2, r2.
    apply andb_true_iff in H as [H Hv]. apply andb_true_iff in H as [H Hc2].
    apply andb_true_iff in H as [Hlo Hhi]. apply andb_true_iff in Hc2 as [Hc2a Hc2b].
    apply N.leb_le in Hlo, Hhi, Hc2a, Hc2b.
    destruct (N.eqb_spec b0 0xE0); destruct (N.eqb_spec b0 0xED); repeat split; try assumption; lia. }
  destruct (N.leb_spec 0xF0 b0) as [H5|H5]; cbn [andb]; [|lia].
  destruct (N.leb_spec b0 0xF4) as [H6|H6]; cbn [andb]; [|intro; discriminate].
  destruct r as [|c1 [|c2 [|c3 r3]]]; [intro; discriminate..|].
  intro H. right; right; right. exists c1, c2, c3, r3.
  apply andb_true_iff in H as [H Hv]. apply andb_true_iff in H as [H Hc3].
  apply andb_true_iff in H as [H Hc2].
  apply andb_true_iff in H as [Hlo Hhi]. apply andb_true_iff in Hc2 as [Hc2a Hc2b].
  apply andb_true_iff in Hc3 as [Hc3a Hc3b].
  apply N.leb_le in Hlo, Hhi, Hc2a, Hc2b, Hc3a, Hc3b.
  destruct (N.eqb_spec b0 0xF0); destruct (N.eqb_spec b0 0xF4); repeat split; try assumption; lia.
Qed.

(* the code point a well-formed sequence stands for, and that the RFC encoder gives the sequence back *)
Lemma decode1 b0 : b0 < 0x80 -> scalar b0 /\ utf8_encode b0 = [b0].
Proof.
  intro H. split; [unfold scalar; lia|]. unfold utf8_encode.
  rewrite (proj2 (N.leb_le _ _)) by lia. reflexivity.
Qed.

Lemma decode2 b0 c1 : 0xC2 <= b0 <= 0xDF -> 0x80 <= c1 <= 0xBF ->
  let cp := 64 * (b0 - 0xC0) + (c1 - 0x80) in scalar cp /\ utf8_encode cp = [b0; c1].
Proof.
  intros H0 H1 cp.
  destruct (digits2 (b0 - 0xC0) (c1 - 0x80)) as [Ea Eb]; [lia|]. cbv zeta in Ea, Eb. fold cp in Ea, Eb.
  assert (Hr : 0x80 <= cp <= 0x7FF) by (subst cp; lia).
  split; [unfold scalar; lia|]. unfold utf8_encode.
  rewrite (proj2 (N.leb_gt _ _)) by lia. rewrite (proj2 (N.leb_le cp 0x7FF)) by lia.
  rewrite Ea, Eb. f_equal; [lia|]. f_equal. lia.
Qed.

Lemma decode3 b0 c1 c2 : 0xE0 <= b0 <= 0xEF -> (b0 = 0xE0 -> 0xA0 <= c1) -> (b0 = 0xED -> c1 <= 0x9F) ->
  0x80 <= c1 <= 0xBF -> 0x80 <= c2 <= 0xBF ->
  let cp := 4096 * (b0 - 0xE0) + 64 * (c1 - 0x80) + (c2 - 0x80) in scalar cp /\ utf8_encode cp = [b0; c1; c2].
Proof.
  intros H0 Hlo Hhi H1 H2 cp.
  destruct (digits3 (b0 - 0xE0) (c1 - 0x80) (c2 - 0x80)) as (Ea & Eb & Ec); [lia..|].
  cbv zeta in Ea, Eb, Ec. fold cp in Ea, Eb, Ec.
  assert (Hr : 0x800 <= cp <= 0xFFFF).
  { subst cp. destruct (N.eq_dec b0 0xE0) as [E|E]; [specialize (Hlo E)|]; lia. }
  assert (Hs : ~ (0xD800 <= cp /\ cp <= 0xDFFF)).
  { subst cp. destruct (N.eq_dec b0 0xED) as [E|E]; [specialize (Hhi E)|]; lia. }
  split; [unfold scalar; split; [lia|exact Hs]|]. unfold utf8_encode.
  rewrite (proj2 (N.leb_gt cp 0x7F)) by lia. rewrite (proj2 (N.leb_gt cp 0x7FF)) by lia.
  rewrite (proj2 (N.leb_le cp 0xFFFF)) by lia.
  rewrite Ea, Eb, Ec. repeat (f_equal; try lia).
Qed.

Lemma decode4 b0 c1 c2 c3 : 0xF0 <= b0 <= 0xF4 -> (b0 = 0xF0 -> 0x90 <= c1) -> (b0 = 0xF4 -> c1 <= 0x8F) ->
  0x80 <= c1 <= 0xBF -> 0x80 <= c2 <= 0xBF -> 0x80 <= c3 <= 0xBF ->
  let cp := 262144 * (b0 - 0xF0) + 4096 * (c1 - 0x80) + 64 * (c2 - 0x80) + (c3 - 0x80) in
  scalar cp /\ utf8_encode cp = [b0; c1; c2; c3].
Proof.
  intros H0 Hlo Hhi H1 H2 H3 cp.
  destruct (digits4 (b0 - 0xF0) (c1 - 0x80) (c2 - 0x80) (c3 - 0x80)) as (Ea & Eb & Ec & Ed); [lia..|].
  cbv zeta in Ea, Eb, Ec, Ed. fold cp in Ea, Eb, Ec, Ed.
  assert (Hr : 0x10000 <= cp <= 0x10FFFF).
  { subst cp. destruct (N.eq_dec b0 0xF0) as [E|E]; [specialize (Hlo E)|];
      (destruct (N.eq_dec b0 0xF4) as [E'|E']; [specialize (Hhi E')|]); lia. }
  split; [unfold scalar; lia|]. unfold utf8_encode.
  rewrite (proj2 (N.leb_gt cp 0x7F)) by lia. rewrite (proj2 (N.leb_gt cp 0x7FF)) by lia.
  rewrite (proj2 (N.leb_gt cp 0xFFFF)) by lia.
  rewrite Ea, Eb, Ec, Ed. repeat (f_equal; try lia).
Qed.

Lemma valid_s_decode : forall n p, (length p <= n)%nat -> valid_s p = true ->
  exists cps, Forall scalar cps /\ p = concat (map utf8_encode cps).
Proof.
  induction n as [|n IH]; intros p Hl Hv.
  { destruct p; [|cbn in Hl; lia]. exists []. split; [constructor|reflexivity]. }
  destruct p as [|b0 r]; [exists []; split; [constructor|reflexivity]|].
  cbn [length] in Hl.
  destruct (valid_s_inv b0 r Hv) as [[H0 Hr]|[(c1 & r1 & -> & H0 & H1 & Hr)|[(c1 & c2 & r2 & -> & H0 & Hlo & Hhi & H1 & H2 & Hr)|(c1 & c2 & c3 & r3 & -> & H0 & Hlo & Hhi & H1 & H2 & H3 & Hr)]]].
  - destruct (IH r ltac:(lia) Hr) as (cps & Hs & ->).
    destruct (decode1 b0 H0) as [Hsc He].
    exists (b0 :: cps). split; [constructor; assumption|]. cbn [map concat]. rewrite He. reflexivity.
  - cbn [length] in Hl. destruct (IH r1 ltac:(lia) Hr) as (cps & Hs & ->).
    destruct (decode2 b0 c1 H0 H1) as [Hsc He].
    eexists (_ :: cps). split; [constructor; [exact Hsc|assumption]|]. cbn [map concat]. rewrite He. reflexivity.
  - cbn [length] in Hl. destruct (IH r2 ltac:(lia) Hr) as (cps & Hs & ->).
    destruct (decode3 b0 c1 c2 H0 Hlo Hhi H1 H2) as [Hsc He].
    eexists (_ :: cps). split; [constructor; [exact Hsc|assumption]|]. cbn [map concat]. rewrite He. reflexivity.
  - cbn [length] in Hl. destruct (IH r3 ltac:(lia) Hr) as (cps & Hs & ->).
    destruct (decode4 b0 c1 c2 c3 H0 Hlo Hhi H1 H2 H3) as [Hsc He].
    eexists (_ :: cps). split; [constructor; [exact Hsc|assumption]|]. cbn [map concat]. rewrite He. reflexivity.
Qed.
