(* C18: the word-wise implementation equals the byte-wise RFC transform. *)
From Gws Require Import Lib.Base Model.Mask Spec.MaskSpec.
Local Open Scope N_scope.
Ltac Zify.zify_post_hook ::= Z.div_mod_to_equations.

Lemma small_testbit_high u n : u < 2 ^ 8 -> 8 <= n -> N.testbit u n = false.
Proof.
  intros Hu Hn. destruct (N.eq_dec u 0) as [->|Hu0]; [apply N.bits_0|].
  apply N.bits_above_log2.
  assert (N.log2 u < 8) by (apply N.log2_lt_pow2; lia). lia.
Qed.

Lemma digit_as_lor u v : u < 2 ^ 8 -> u + 2 ^ 8 * v = N.lor u (N.shiftl v 8).
Proof.
  intro Hu. rewrite N.shiftl_mul_pow2, (N.mul_comm v).
  rewrite <- N.lxor_lor, <- N.add_nocarry_lxor; try reflexivity;
  (apply N.bits_inj; intro n; rewrite N.land_spec, N.bits_0;
   destruct (N.ltb_spec n 8);
   [ rewrite (N.mul_comm _ v), N.mul_pow2_bits_low by lia; apply andb_false_r
   | rewrite small_testbit_high by lia; reflexivity ]).
Qed.

Lemma testbit_digit u v n : u < 2 ^ 8 ->
  N.testbit (u + 2 ^ 8 * v) n = if n <? 8 then N.testbit u n else N.testbit v (n - 8).
Proof.
  intro Hu. rewrite digit_as_lor by assumption. rewrite N.lor_spec.
  destruct (N.ltb_spec n 8).
  - rewrite N.shiftl_spec_low by lia. apply orb_false_r.
  - rewrite N.shiftl_spec_high' by lia. rewrite small_testbit_high by lia. reflexivity.
Qed.

Lemma lxor_byte_lt x y : x < 2 ^ 8 -> y < 2 ^ 8 -> N.lxor x y < 2 ^ 8.
Proof.
  intros Hx Hy.
  destruct (N.eq_dec (N.lxor x y) 0) as [->|Hn]; [reflexivity|].
  apply N.log2_lt_pow2; [lia|].
  eapply N.le_lt_trans; [apply N.log2_lxor|].
  apply N.max_lub_lt.
  - destruct (N.eq_dec x 0) as [->|]; [reflexivity|apply N.log2_lt_pow2; lia].
  - destruct (N.eq_dec y 0) as [->|]; [reflexivity|apply N.log2_lt_pow2; lia].
Qed.

Lemma lxor_cons x y a b : x < 2 ^ 8 -> y < 2 ^ 8 ->
  N.lxor (x + 2 ^ 8 * a) (y + 2 ^ 8 * b) = N.lxor x y + 2 ^ 8 * N.lxor a b.
Proof.
  intros Hx Hy. pose proof (lxor_byte_lt x y Hx Hy) as Hxy.
  apply N.bits_inj; intro n.
  rewrite N.lxor_spec, !testbit_digit by assumption.
  destruct (n <? 8); rewrite N.lxor_spec; reflexivity.
Qed.

Lemma le_load_xor a : forall b, wf_bytes a -> wf_bytes b -> length a = length b ->
  N.lxor (le_load a) (le_load b) = le_load (xor_list a b).
Proof.
  induction a as [|x a IH]; intros [|y b] Ha Hb Hl; cbn [le_load xor_list length] in *; try discriminate; auto.
  inversion Ha; inversion Hb; subst.
  rewrite lxor_cons by assumption. rewrite IH; auto.
Qed.

Lemma le_store_load a : wf_bytes a -> le_store (length a) (le_load a) = a.
Proof.
  induction 1 as [|x a Hx Ha IH]; cbn [le_load le_store length]; [reflexivity|].
  assert (P : 2 ^ 8 <> 0) by (intro E; discriminate E).
  unfold byte_ok in Hx.
  f_equal.
  - rewrite (N.mul_comm (2 ^ 8)), N.mod_add by exact P. apply N.mod_small; assumption.
  - rewrite (N.mul_comm (2 ^ 8)), N.div_add by exact P. rewrite N.div_small by assumption. rewrite N.add_0_l. exact IH.
Qed.

Lemma xor_list_wf a : forall b, wf_bytes a -> wf_bytes b -> wf_bytes (xor_list a b).
Proof.
  induction a as [|x a IH]; intros [|y b] Ha Hb; cbn [xor_list]; try constructor.
  - inversion Ha; inversion Hb; subst. apply lxor_byte_lt; assumption.
  - inversion Ha; inversion Hb; subst. apply IH; assumption.
Qed.

Lemma xor_list_length a : forall b, length a = length b -> length (xor_list a b) = length a.
Proof.
  induction a as [|x a IH]; intros [|y b] H; cbn in *; try discriminate; auto.
Qed.

(* the 64-bit key is the little-endian load of key ++ key *)
Lemma key64_is_load k0 k1 k2 k3 :
  wf_bytes [k0; k1; k2; k3] ->
  key64 (le_load [k0; k1; k2; k3]) = le_load ([k0; k1; k2; k3] ++ [k0; k1; k2; k3]).
Proof.
  intro H. inversion H as [|? ? H0 H']; subst. inversion H' as [|? ? H1 H'']; subst.
  inversion H'' as [|? ? H2 H''']; subst. inversion H''' as [|? ? H3 _]; subst.
  unfold byte_ok in *. unfold key64. rewrite N.shiftl_mul_pow2.
  cbn [le_load app].
  change (2 ^ 8) with 256 in *. change (2 ^ 32) with 4294967296. change (2 ^ 64) with 18446744073709551616.
  rewrite N.mod_small; lia.
Qed.

Lemma xor_word8_spec k0 k1 k2 k3 w :
  wf_bytes [k0; k1; k2; k3] -> wf_bytes w -> length w = 8%nat ->
  xor_word8 (key64 (le_load [k0; k1; k2; k3])) w = xor_list w ([k0; k1; k2; k3] ++ [k0; k1; k2; k3]).
Proof.
  intros Hk Hw Hl. unfold xor_word8. rewrite key64_is_load by assumption.
  assert (Hkk : wf_bytes ([k0; k1; k2; k3] ++ [k0; k1; k2; k3])) by (apply Forall_app; split; assumption).
  rewrite le_load_xor by (auto; rewrite Hl; reflexivity).
  replace 8%nat with (length (xor_list w ([k0; k1; k2; k3] ++ [k0; k1; k2; k3])))
    by (rewrite xor_list_length; rewrite Hl; reflexivity).
  apply le_store_load. apply xor_list_wf; assumption.
Qed.

(* eight spec steps from an index that is a multiple of four *)
Lemma mask_from_word k0 k1 k2 k3 i w r :
  i mod 4 = 0 -> length w = 8%nat ->
  mask_from i [k0; k1; k2; k3] (w ++ r)
  = xor_list w ([k0; k1; k2; k3] ++ [k0; k1; k2; k3]) ++ mask_from (i + 8) [k0; k1; k2; k3] r.
Proof.
  intros Hi Hl.
  do 8 (destruct w as [|? w]; [discriminate Hl|]). destruct w; [|discriminate Hl].
  cbn [app mask_from xor_list].
  replace (i mod 4) with 0 by lia.
  replace ((i + 1) mod 4) with 1 by lia.
  replace ((i + 1 + 1) mod 4) with 2 by lia.
  replace ((i + 1 + 1 + 1) mod 4) with 3 by lia.
  replace ((i + 1 + 1 + 1 + 1) mod 4) with 0 by lia.
  replace ((i + 1 + 1 + 1 + 1 + 1) mod 4) with 1 by lia.
  replace ((i + 1 + 1 + 1 + 1 + 1 + 1) mod 4) with 2 by lia.
  replace ((i + 1 + 1 + 1 + 1 + 1 + 1 + 1) mod 4) with 3 by lia.
  replace (i + 1 + 1 + 1 + 1 + 1 + 1 + 1 + 1) with (i + 8) by lia.
  reflexivity.
Qed.

Lemma wf_firstn n l : wf_bytes l -> wf_bytes (firstn n l).
Proof. apply Forall_firstn. Qed.

Lemma wf_skipn n l : wf_bytes l -> wf_bytes (skipn n l).
Proof. apply Forall_skipn. Qed.

(* c consecutive words *)
Lemma xor_words_spec k0 k1 k2 k3 c : forall i b r,
  wf_bytes [k0; k1; k2; k3] -> wf_bytes b -> i mod 4 = 0 -> length b = (8 * c)%nat ->
  mask_from i [k0; k1; k2; k3] (b ++ r)
  = xor_words c (key64 (le_load [k0; k1; k2; k3])) b
    ++ mask_from (i + N.of_nat (8 * c)) [k0; k1; k2; k3] r.
Proof.
  induction c as [|c IH]; intros i b r Hk Hb Hi Hl.
  - destruct b; [|discriminate Hl]. cbn [xor_words app]. replace (i + N.of_nat (8 * 0)) with i by lia. reflexivity.
  - cbn [xor_words].
    rewrite <- (firstn_skipn 8 b) at 1. rewrite <- app_assoc.
    rewrite mask_from_word by (auto; rewrite firstn_length; lia).
    rewrite xor_word8_spec by (auto using wf_firstn; rewrite firstn_length; lia).
    rewrite <- app_assoc. f_equal.
    rewrite IH by (auto using wf_skipn; try lia; rewrite skipn_length; lia).
    f_equal. f_equal. lia.
Qed.

Lemma word_loop_spec k0 k1 k2 k3 c (Hc : (0 < c)%nat) : forall fuel i len b out len' b',
  wf_bytes [k0; k1; k2; k3] -> wf_bytes b -> i mod 4 = 0 -> len = N.of_nat (length b) ->
  word_loop fuel (8 * c) (key64 (le_load [k0; k1; k2; k3])) len b = (out, (len', b')) ->
  mask_from i [k0; k1; k2; k3] b = out ++ mask_from (i + (len - len')) [k0; k1; k2; k3] b'
  /\ len' = N.of_nat (length b') /\ (i + (len - len')) mod 4 = 0 /\ wf_bytes b' /\ len' <= len
  /\ ((length b / (8 * c) < fuel)%nat -> len' < N.of_nat (8 * c)).
Proof.
  induction fuel as [|f IH]; intros i len b out len' b' Hk Hb Hi Hlen Hw; cbn [word_loop] in Hw.
  - inversion Hw; subst. replace (i + (N.of_nat (length b') - N.of_nat (length b'))) with i by lia.
    repeat split; auto; try lia.
  - destruct (N.leb_spec (N.of_nat (8 * c)) len) as [Hge|Hlt].
    + destruct (word_loop f (8 * c) _ (len - N.of_nat (8 * c)) (skipn (8 * c) b)) as [o1 [l1 r1]] eqn:E.
      replace (8 * c / 8)%nat with c in Hw by (rewrite (Nat.mul_comm 8 c), Nat.div_mul; lia).
      injection Hw as Ho Hl' Hb'. subst out len' b'.
      eapply (IH (i + N.of_nat (8 * c))) in E; auto using wf_skipn; try lia;
        [| rewrite skipn_length; lia].
      destruct E as [E1 [E2 [E3 [E4 [E5 E6]]]]].
      rewrite <- (firstn_skipn (8 * c) b) at 1.
      rewrite (xor_words_spec k0 k1 k2 k3 c) by (auto using wf_firstn; rewrite firstn_length; lia).
      rewrite <- app_assoc. rewrite E1.
      replace (i + N.of_nat (8 * c) + (len - N.of_nat (8 * c) - l1)) with (i + (len - l1)) in * by lia.
      repeat split; auto; try lia.
      intro Hf. apply E6. rewrite skipn_length.
      assert (length b / (8 * c) = S ((length b - 8 * c) / (8 * c)))%nat.
      { replace (length b) with ((length b - 8 * c) + 1 * (8 * c))%nat at 1 by lia.
        rewrite Nat.div_add by lia. lia. }
      lia.
    + inversion Hw; subst. replace (i + (N.of_nat (length b') - N.of_nat (length b'))) with i by lia.
      repeat split; auto; try lia.
Qed.

Lemma byte_loop_spec key b : forall i j, j mod 4 = 0 ->
  byte_loop i key b = mask_from (j + i) key b.
Proof.
  induction b as [|x b IH]; intros i j Hj; cbn [byte_loop mask_from]; [reflexivity|].
  f_equal.
  - f_equal. f_equal. f_equal. change 3 with (N.ones 2). rewrite N.land_ones. change (2 ^ 2) with 4. lia.
  - rewrite (IH (i + 1) j Hj). f_equal. lia.
Qed.

Lemma mask_impl_eq_spec key b :
  length key = 4%nat -> wf_bytes key -> wf_bytes b -> mask_impl key b = Some (mask_spec key b).
Proof.
  intros Hl Hk Hb.
  do 4 (destruct key as [|? key]; [discriminate Hl|]). destruct key; [|discriminate Hl].
  unfold mask_impl, key32. cbn [slice length Nat.leb andb obind firstn skipn Nat.sub].
  destruct (word_loop (S (length b / 8)) 64 _ (N.of_nat (length b)) b) as [o1 [l1 b1]] eqn:E1.
  destruct (word_loop (S (length b / 8)) 8 _ l1 b1) as [o2 [l2 b2]] eqn:E2.
  change 64%nat with (8 * 8)%nat in E1. change 8%nat with (8 * 1)%nat in E2 at 2.
  eapply (word_loop_spec _ _ _ _ 8 ltac:(lia) _ 0) in E1; auto.
  destruct E1 as [A1 [A2 [A3 [A4 [A5 _]]]]].
  eapply (word_loop_spec _ _ _ _ 1 ltac:(lia)) in E2; eauto.
  destruct E2 as [B1 [B2 [B3 [B4 [B5 _]]]]].
  unfold mask_spec. rewrite A1, B1. f_equal. f_equal. f_equal.
  replace (0 + (N.of_nat (length b) - l1) + (l1 - l2)) with (0 + (N.of_nat (length b) - l1) + (l1 - l2) + 0) by lia.
  apply byte_loop_spec. replace (0 + (N.of_nat (length b) - l1) + (l1 - l2) + 0) with (0 + (N.of_nat (length b) - l1) + (l1 - l2)) by lia. assumption.
Qed.

(* pointwise form of the specification *)
Lemma mask_from_nth key b : forall i n, (n < length b)%nat ->
  nth n (mask_from i key b) 0 = N.lxor (nth n b 0) (nth (N.to_nat ((i + N.of_nat n) mod 4)) key 0).
Proof.
  induction b as [|x b IH]; intros i n Hn; cbn [length] in Hn; [lia|].
  destruct n as [|n]; cbn [mask_from nth].
  - replace (i + N.of_nat 0) with i by lia. reflexivity.
  - rewrite IH by lia. do 4 f_equal. lia.
Qed.

Lemma mask_from_length key b : forall i, length (mask_from i key b) = length b.
Proof. induction b as [|x b IH]; intro i; cbn; auto. Qed.

Lemma mask_from_involutive key b : forall i, mask_from i key (mask_from i key b) = b.
Proof.
  induction b as [|x b IH]; intro i; cbn [mask_from]; [reflexivity|].
  rewrite IH. f_equal. rewrite N.lxor_assoc, N.lxor_nilpotent. apply N.lxor_0_r.
Qed.

Lemma mask_from_wf key b : wf_bytes key -> wf_bytes b -> forall i, wf_bytes (mask_from i key b).
Proof.
  intros Hk Hb. induction Hb as [|x b Hx Hb IH]; intro i; cbn [mask_from]; constructor; [|apply IH].
  apply lxor_byte_lt; [exact Hx|].
  destruct (Nat.lt_ge_cases (N.to_nat (i mod 4)) (length key)) as [Hlt|Hge].
  - eapply Forall_forall in Hk; [exact Hk|]. apply nth_In. exact Hlt.
  - rewrite nth_overflow by exact Hge. reflexivity.
Qed.

(* masking a region leaves everything outside it untouched and has the same length *)
Lemma mask_region_shape off len key arr : (off + len <= length arr)%nat ->
  firstn off (mask_region off len key arr) = firstn off arr
  /\ skipn (off + len) (mask_region off len key arr) = skipn (off + len) arr
  /\ length (mask_region off len key arr) = length arr.
Proof.
  intro H. unfold mask_region, mask_spec.
  assert (L1 : length (firstn off arr) = off) by (rewrite firstn_length; lia).
  assert (L2 : length (mask_from 0 key (firstn len (skipn off arr))) = len)
    by (rewrite mask_from_length, firstn_length, skipn_length; lia).
  repeat split.
  - rewrite firstn_app, L1, Nat.sub_diag. cbn [firstn]. rewrite app_nil_r. rewrite firstn_firstn. f_equal. lia.
  - rewrite skipn_app, L1. rewrite (skipn_all2 (firstn off arr)) by lia. cbn [app].
    replace (off + len - off)%nat with len by lia.
    rewrite skipn_app, L2, Nat.sub_diag. rewrite skipn_all2 by lia. reflexivity.
  - rewrite !app_length, L1, L2, skipn_length. lia.
Qed.

Lemma nth_firstn_lt' (l : list N) : forall n i, (i < n)%nat -> nth i (firstn n l) 0 = nth i l 0.
Proof.
  induction l as [|x l IH]; intros n i H; [rewrite firstn_nil; reflexivity|].
  destruct n as [|n]; [lia|]. destruct i as [|i]; cbn [firstn nth]; [reflexivity|]. apply IH. lia.
Qed.

Lemma nth_skipn' (l : list N) : forall n i, nth i (skipn n l) 0 = nth (n + i) l 0.
Proof.
  induction l as [|x l IH]; intros n i; [rewrite skipn_nil; destruct i, n; reflexivity|].
  destruct n as [|n]; cbn [skipn Nat.add nth]; [reflexivity|]. apply IH.
Qed.

(* inside the region: byte off+i becomes byte off+i XOR key[i mod 4] - the key index counts from the start of the
   slice, whatever the offset of the slice in its backing array *)
Lemma mask_region_inside off len key arr i : (off + len <= length arr)%nat -> (i < len)%nat ->
  nth (off + i) (mask_region off len key arr) 0
  = N.lxor (nth (off + i) arr 0) (nth (N.to_nat (N.of_nat i mod 4)) key 0).
Proof.
  intros H Hi. unfold mask_region, mask_spec.
  assert (L1 : length (firstn off arr) = off) by (rewrite firstn_length; lia).
  assert (L0 : length (firstn len (skipn off arr)) = len) by (rewrite firstn_length, skipn_length; lia).
  rewrite app_nth2 by lia. rewrite L1. replace (off + i - off)%nat with i by lia.
  rewrite app_nth1 by (rewrite mask_from_length; lia).
  rewrite mask_from_nth by lia. rewrite N.add_0_l. f_equal.
  rewrite nth_firstn_lt' by exact Hi. rewrite nth_skipn'. reflexivity.
Qed.

(* masking distributes over concatenation, the key index carried on *)
Lemma mask_from_app key a : forall b i,
  mask_from i key (a ++ b) = mask_from i key a ++ mask_from (i + N.of_nat (length a)) key b.
Proof.
  induction a as [|x a IH]; intros b i; cbn [app mask_from length].
  - replace (i + N.of_nat 0) with i by lia. reflexivity.
  - rewrite IH. replace (i + N.of_nat (S (length a))) with (i + 1 + N.of_nat (length a)) by lia. reflexivity.
Qed.

(* the key index only matters modulo 4 *)
Lemma mask_from_mod key b : forall i j, i mod 4 = j mod 4 -> mask_from i key b = mask_from j key b.
Proof.
  induction b as [|x b IH]; intros i j H; cbn [mask_from]; [reflexivity|].
  rewrite H. f_equal. apply IH.
  rewrite <- (N.add_mod_idemp_l i 1 4), <- (N.add_mod_idemp_l j 1 4) by lia. rewrite H. reflexivity.
Qed.

(* a payload split at a multiple of 4 can be masked piece by piece with the same key *)
Lemma mask_spec_app_aligned key a b : (N.of_nat (length a)) mod 4 = 0 ->
  mask_spec key (a ++ b) = mask_spec key a ++ mask_spec key b.
Proof.
  intro H. unfold mask_spec. rewrite mask_from_app. f_equal. apply mask_from_mod.
  rewrite N.add_0_l, H. reflexivity.
Qed.
