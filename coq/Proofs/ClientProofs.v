(* Lemmas for C11: the client's acceptance rule and the request it builds. *)
From Coq Require Import Strings.String.
From Gws Require Import Lib.Base Lib.Hex Lib.Text Gen.Consts Model.Sha1 Model.Base64 Model.Handshake
  Spec.UpgradeRule Proofs.TextProofs Proofs.HandshakeProofs Proofs.Base64Proofs.
Local Open Scope string_scope.
Local Open Scope list_scope.
Local Open Scope N_scope.

Definition client_ok (key : bytes) (rh : headers) (rs : response) : bool :=
  let h := rs_headers rs in
  (rs_status rs =? 101) && header_contains (hget h K_connection) V_connection
  && equal_fold (hget h K_upgrade) V_upgrade && bytes_eqb (hget h K_accept) (compute_accept_key key)
  && negb (negb (is_nil (gws_split (requested_protocols rh)))
           && is_nil (intersection_elem (gws_split (requested_protocols rh)) (gws_split (hget h K_protocol)))).

Lemma client_handshake_ok key rh rs :
  (exists sub, client_handshake key rh rs = CAccepted sub) <-> client_ok key rh rs = true.
Proof.
  unfold client_handshake, check_headers, get_subprotocol, client_ok. cbv zeta.
  destruct (rs_status rs =? 101); cbn [negb andb]; [|split; [intros [u Hu]; discriminate|discriminate]].
  destruct (header_contains _ V_connection); cbn [negb andb]; [|split; [intros [u Hu]; discriminate|discriminate]].
  destruct (equal_fold _ V_upgrade); cbn [negb andb]; [|split; [intros [u Hu]; discriminate|discriminate]].
  destruct (bytes_eqb _ (compute_accept_key key)); cbn [negb andb]; [|split; [intros [u Hu]; discriminate|discriminate]].
  set (c := negb (is_nil _) && is_nil _).
  destruct c; cbn [negb]; split; try discriminate; try (intros [u Hu]; discriminate); eauto.
Qed.

Lemma client_sub_ok_iff req sel :
  negb (negb (is_nil (gws_split req)) && is_nil (intersection_elem (gws_split req) (gws_split sel))) = true
  <-> ((forall t, ~ offers req t) \/ exists s, offers req s /\ offers sel s).
Proof.
  destruct (gws_split req) as [|s0 a'] eqn:Ea; cbn [is_nil negb andb].
  - split; auto. intros _. left. intros t Ht. apply gws_split_offers in Ht. rewrite Ea in Ht. exact Ht.
  - rewrite <- Ea.
    destruct (intersection_elem_spec (gws_split sel) (gws_split_nonempty sel) (gws_split req)) as [[E Hn]|[pre [post [E [Hin Hn]]]]].
    + rewrite E. cbn. split; [discriminate|]. intros [H|[s [Hs Ho]]].
      * exfalso. apply (H s0). apply gws_split_offers. rewrite Ea. left. reflexivity.
      * exfalso. apply (Hn s); apply gws_split_offers; assumption.
    + assert (Hne : intersection_elem (gws_split req) (gws_split sel) <> []) by (apply (gws_split_nonempty sel); exact Hin).
      apply is_nil_false in Hne. rewrite Hne. cbn. split; [|reflexivity]. intros _. right.
      exists (intersection_elem (gws_split req) (gws_split sel)). split; apply gws_split_offers; [|exact Hin].
      rewrite E at 2. apply in_or_app. right. left. reflexivity.
Qed.

Lemma client_accepts_iff key rh rs :
  canonical_keys (rs_headers rs) ->
  is_ascii (field (str "Upgrade") (rs_headers rs)) = true ->
  connection_unambiguous (field (str "Connection") (rs_headers rs)) ->
  ((exists sub, client_handshake key rh rs = CAccepted sub) <->
   should_accept key (requested_protocols rh) (rs_status rs) (rs_headers rs)).
Proof.
  intros Hc Ha Hu. rewrite client_handshake_ok. unfold client_ok, should_accept. cbv zeta.
  destruct key_tokens_ok as [T1 [T2 [T3 [T4 [T5 [T6 T7]]]]]].
  rewrite !hget_field by assumption.
  change K_connection with (str "Connection"). change K_upgrade with (str "Upgrade").
  change K_accept with (str "Sec-WebSocket-Accept"). change K_protocol with (str "Sec-WebSocket-Protocol").
  rewrite !andb_true_iff, N.eqb_eq, (header_contains_token _ Hu), (equal_fold_ascii _ _ Ha), eq_nocase_spec,
    bytes_eqb_eq, client_sub_ok_iff, compute_accept_key_spec.
  change (lower_s V_upgrade) with (str "websocket"). tauto.
Qed.

(* which subprotocol the accepted connection reports *)
Lemma client_subprotocol key rh rs sub :
  canonical_keys (rs_headers rs) ->
  client_handshake key rh rs = CAccepted sub ->
  let req := requested_protocols rh in
  let sel := field (str "Sec-WebSocket-Protocol") (rs_headers rs) in
  ((forall t, ~ offers req t) -> sub = [])
  /\ ((exists t, offers req t) -> offers req sub /\ offers sel sub)
  /\ (forall s, (forall t, offers sel t -> t = s) -> (exists t, offers req t) -> sub = s).
Proof.
  intros Hc H. cbv zeta. destruct key_tokens_ok as [_ [_ [_ [_ [T5 _]]]]].
  unfold client_handshake in H. destruct (check_headers key rs); [discriminate|].
  unfold get_subprotocol in H. cbv zeta in H. rewrite hget_field in H by assumption.
  change K_protocol with (str "Sec-WebSocket-Protocol") in H.
  set (req := requested_protocols rh) in *. set (sel := field _ _) in *.
  destruct (negb (is_nil (gws_split req)) && is_nil (intersection_elem (gws_split req) (gws_split sel))) eqn:Ec;
    [discriminate|]. injection H as <-.
  assert (Hsome : (exists t, offers req t) -> offers req (intersection_elem (gws_split req) (gws_split sel))
                                          /\ offers sel (intersection_elem (gws_split req) (gws_split sel))).
  { intros [t Ht]. apply gws_split_offers in Ht.
    destruct (gws_split req) as [|s0 a'] eqn:Ea; [contradiction|]. rewrite <- Ea in *.
    destruct (intersection_elem_spec (gws_split sel) (gws_split_nonempty sel) (gws_split req)) as [[E Hn]|[pre [post [E [Hin Hn]]]]].
    - rewrite E, Ea in Ec. discriminate.
    - split; apply gws_split_offers; [|exact Hin]. rewrite E at 2. apply in_or_app. right. left. reflexivity. }
  split; [|split].
  - intro Hnone. destruct (gws_split req) as [|s0 a'] eqn:Ea; [reflexivity|].
    exfalso. apply (Hnone s0). apply gws_split_offers. rewrite Ea. left. reflexivity.
  - exact Hsome.
  - intros s Hs Hex. apply Hs. apply (Hsome Hex).
Qed.

(* ---- connector.getSubProtocol finds the requested list under every spelling of the key (D14) ---- *)

Lemma fold_requested_stable (l : headers) (req : bytes) :
  (forall kv, In kv l -> equal_fold (fst kv) K_protocol = false) ->
  fold_left (fun req kv => if is_nil req && equal_fold (fst kv) K_protocol then snd kv else req) l req = req.
Proof.
  revert req. induction l as [|kv l IH]; intros req H; [reflexivity|]. cbn [fold_left]. cbv beta.
  pose proof (H kv (or_introl eq_refl)) as E. unfold bytes in *. rewrite E, andb_false_r. apply IH. intros kv' Hin. apply H. right. exact Hin.
Qed.

Lemma fold_requested_nonnil (l : headers) (req : bytes) : req <> [] ->
  fold_left (fun req kv => if is_nil req && equal_fold (fst kv) K_protocol then snd kv else req) l req = req.
Proof.
  revert req. induction l as [|kv l IH]; intros req H; [reflexivity|]. cbn [fold_left]. cbv beta.
  apply is_nil_false in H. rewrite H. cbn [andb]. apply IH. apply is_nil_false. exact H.
Qed.

Lemma lookup_app_none {V} x (a b : list (bytes * V)) : lookup x a = None -> lookup x (a ++ b) = lookup x b.
Proof.
  induction a as [|[k v] a IH]; [reflexivity|]. cbn [lookup app]. destruct (bytes_eqb k x); [discriminate|]. exact IH.
Qed.

Lemma lookup_none_of_keys {V} x (a : list (bytes * V)) : (forall kv, In kv a -> fst kv <> x) -> lookup x a = None.
Proof.
  induction a as [|[k v] a IH]; intro H; [reflexivity|]. cbn [lookup].
  replace (bytes_eqb k x) with false. { apply IH. intros kv Hin. apply H. right. exact Hin. }
  symmetry. apply bytes_eqb_neq. apply (H (k, v)). left. reflexivity.
Qed.

Lemma requested_any_spelling pre k v post :
  lower_s k = lower_s K_protocol -> is_ascii k = true ->
  (forall kv, In kv (pre ++ post) -> is_ascii (fst kv) = true /\ lower_s (fst kv) <> lower_s K_protocol) ->
  requested_protocols (pre ++ (k, v) :: post) = v.
Proof.
  intros Hk Hak Hothers. unfold requested_protocols.
  assert (Hno : forall kv, In kv (pre ++ post) -> equal_fold (fst kv) K_protocol = false).
  { intros kv Hin. destruct (Hothers kv Hin) as [Ha Hl]. rewrite equal_fold_ascii by exact Ha.
    apply not_true_iff_false. intro E. apply eq_nocase_spec in E. contradiction. }
  assert (Hkf : equal_fold k K_protocol = true).
  { rewrite equal_fold_ascii by exact Hak. apply eq_nocase_spec. exact Hk. }
  assert (Hget : hget (pre ++ (k, v) :: post) K_protocol = [] \/ hget (pre ++ (k, v) :: post) K_protocol = v).
  { unfold hget. rewrite lookup_app_none.
    - cbn [lookup]. destruct (bytes_eqb k (canon K_protocol)); [right; reflexivity|].
      rewrite lookup_none_of_keys; [left; reflexivity|].
      intros kv Hin E. destruct (Hothers kv (in_or_app _ _ _ (or_intror Hin))) as [_ Hl]. apply Hl. rewrite E. apply lower_canon.
    - apply lookup_none_of_keys. intros kv Hin E.
      destruct (Hothers kv (in_or_app _ _ _ (or_introl Hin))) as [_ Hl]. apply Hl. rewrite E. apply lower_canon. }
  rewrite fold_left_app. cbn [fold_left fst snd]. rewrite Hkf, andb_true_r.
  rewrite (fold_requested_stable pre) by (intros kv Hin; apply Hno, in_or_app; left; exact Hin).
  destruct Hget as [-> | ->].
  - cbn [is_nil]. apply fold_requested_stable. intros kv Hin. apply Hno, in_or_app. right. exact Hin.
  - destruct v as [|c v']; cbn [is_nil];
      apply fold_requested_stable; intros kv Hin; apply Hno, in_or_app; right; exact Hin.
Qed.

(* ---- the request ---- *)

Lemma hget_hset_same h k v : hget (hset h k v) k = v.
Proof. unfold hget, hset. cbn [lookup]. rewrite bytes_eqb_refl. reflexivity. Qed.

Lemma lookup_hdel_other h k x : x <> canon k -> lookup x (hdel h k) = lookup x h.
Proof.
  intro Hne. unfold hdel. induction h as [|[k' v'] r IH]; [reflexivity|]. cbn [filter fst lookup].
  destruct (bytes_eqb k' (canon k)) eqn:E; cbn [negb lookup].
  - apply bytes_eqb_eq in E. subst k'. replace (bytes_eqb (canon k) x) with false; [exact IH|].
    symmetry. apply bytes_eqb_neq. congruence.
  - rewrite IH. reflexivity.
Qed.

Lemma hget_hset_other h k v k2 : canon k2 <> canon k -> hget (hset h k v) k2 = hget h k2.
Proof.
  intro Hne. unfold hget, hset. cbn [lookup].
  replace (bytes_eqb (canon k) (canon k2)) with false by (symmetry; apply bytes_eqb_neq; congruence).
  rewrite lookup_hdel_other by exact Hne. reflexivity.
Qed.

Lemma key_bytes_length x y : length (key_bytes x y) = 16%nat.
Proof. unfold key_bytes. rewrite app_length, !be_bytes_length. reflexivity. Qed.

Lemma key_bytes_wf x y : wf_bytes (key_bytes x y).
Proof. unfold key_bytes, wf_bytes. apply Forall_app. split; apply be_bytes_wf. Qed.

Lemma request_wellformed rh pmd x y :
  let m := client_request rh pmd x y in
  hget m K_connection = str "Upgrade" /\ hget m K_upgrade = str "websocket" /\ hget m K_version = str "13"
  /\ hget m K_key = gen_key x y
  /\ (forall e, pmd = Some e -> hget m K_extensions = e)
  /\ length (gen_key x y) = 24%nat
  /\ b64_decode (gen_key x y) = Some (key_bytes x y)
  /\ length (key_bytes x y) = 16%nat
  /\ (forall k, ~ In (canon k) (map canon [K_connection; K_upgrade; K_version; K_extensions; K_key]) -> hget m k = hget rh k).
Proof.
  cbv zeta. unfold client_request.
  assert (D : forall a b, In a [K_connection; K_upgrade; K_version; K_extensions; K_key] ->
                          In b [K_connection; K_upgrade; K_version; K_extensions; K_key] -> a <> b -> canon a <> canon b).
  { intros a b Ha Hb. cbn [In] in Ha, Hb.
    destruct Ha as [<-|[<-|[<-|[<-|[<-|[]]]]]]; destruct Hb as [<-|[<-|[<-|[<-|[<-|[]]]]]]; intro Hne;
      try (exfalso; apply Hne; reflexivity); vm_compute; discriminate. }
  assert (N1 : canon K_connection <> canon K_upgrade) by (vm_compute; discriminate).
  assert (N2 : canon K_connection <> canon K_version) by (vm_compute; discriminate).
  assert (N3 : canon K_connection <> canon K_extensions) by (vm_compute; discriminate).
  assert (N4 : canon K_connection <> canon K_key) by (vm_compute; discriminate).
  assert (N5 : canon K_upgrade <> canon K_version) by (vm_compute; discriminate).
  assert (N6 : canon K_upgrade <> canon K_extensions) by (vm_compute; discriminate).
  assert (N7 : canon K_upgrade <> canon K_key) by (vm_compute; discriminate).
  assert (N8 : canon K_version <> canon K_extensions) by (vm_compute; discriminate).
  assert (N9 : canon K_version <> canon K_key) by (vm_compute; discriminate).
  assert (N10 : canon K_extensions <> canon K_key) by (vm_compute; discriminate).
  clear D.
  split; [|split; [|split; [|split; [|split; [|split; [|split; [|split]]]]]]].
  - rewrite hget_hset_other by exact N4. destruct pmd; [rewrite hget_hset_other by exact N3|];
      rewrite hget_hset_other by exact N2; rewrite hget_hset_other by exact N1; apply hget_hset_same.
  - rewrite hget_hset_other by exact N7. destruct pmd; [rewrite hget_hset_other by exact N6|];
      rewrite hget_hset_other by exact N5; apply hget_hset_same.
  - rewrite hget_hset_other by exact N9. destruct pmd; [rewrite hget_hset_other by exact N8|]; apply hget_hset_same.
  - apply hget_hset_same.
  - intros e ->. rewrite hget_hset_other by exact N10. apply hget_hset_same.
  - unfold gen_key. rewrite b64_encode_length, key_bytes_length. reflexivity.
  - unfold gen_key. apply b64_roundtrip, key_bytes_wf.
  - apply key_bytes_length.
  - intros k Hk. cbn [map In] in Hk.
    rewrite hget_hset_other by (intro E; apply Hk; rewrite E; tauto).
    destruct pmd; [rewrite hget_hset_other by (intro E; apply Hk; rewrite E; tauto)|];
      rewrite !hget_hset_other by (intro E; apply Hk; rewrite E; tauto); reflexivity.
Qed.
