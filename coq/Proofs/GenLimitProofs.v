(* limitedReader.Read (compress.go) *)
From Gws Require Import Lib.Base Spec.Rfc6455 Gen.Consts Gen.Funcs Proofs.GenBase.
From Coq Require Import ZifyN ZifyNat ZifyBool.
Local Open Scope Z_scope.
From Gws Require Import Model.LimitReader.

(* ---- limitedReader.Read (compress.go): the accumulated count, the comparison with the limit, the error returned ---- *)
From Gws Require Import Model.LimitReader Model.Queue.

Lemma gen_limitedReader_Read_is cN cM n err p :
  gf_gws_limitedReader_Read cM cN err n p = lr_read cN cM n err.
Proof. reflexivity. Qed.

(* the copy loop of Decompress written with the regenerated Read *)
Fixpoint lr_copy_src (cN cM : Z) (reads : list (list N * Z)) (acc : list N) : option (list N) :=
  match reads with
  | [] => None
  | (p, err) :: r =>
      let '(n, e, cN') := gf_gws_limitedReader_Read cM cN err (Z.of_nat (length p)) 0 in
      let acc' := acc ++ p in
      if e =? 0 then lr_copy_src cN' cM r acc' else if e =? err_eof then Some acc' else None
  end.

Lemma limit_copy_from_source : forall reads cN cM acc, lr_copy_src cN cM reads acc = lr_copy cN cM reads acc.
Proof.
  induction reads as [|[p err] r IH]; intros cN cM acc; cbn [lr_copy_src lr_copy]; [reflexivity|].
  rewrite gen_limitedReader_Read_is. destruct (lr_read cN cM (Z.of_nat (length p)) err) as [[n e] cN'].
  rewrite IH. reflexivity.
Qed.
