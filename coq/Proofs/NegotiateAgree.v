(* C12 agreement: what the two connections of a gws-to-gws handshake hold, for ALL settings. *)
From Gws Require Import Lib.Base Model.Negotiate Spec.NegotiationSpec Proofs.StrProofs Proofs.NegotiateProofs.
Local Open Scope Z_scope.

(* ---- option normalisation, all integers ---- *)

Lemma norm_client_flags c :
  enabled (norm_client c) = enabled c /\ sct (norm_client c) = sct c /\ cct (norm_client c) = cct c.
Proof. unfold norm_client. destruct (enabled c) eqn:E; cbn; auto. Qed.

Lemma norm_server_flags s :
  enabled (norm_server s) = enabled s /\ sct (norm_server s) = sct s /\ cct (norm_server s) = cct s.
Proof. unfold norm_server. destruct (enabled s) eqn:E; cbn; auto. Qed.

Lemma norm_client_bits c : enabled c = true ->
  window_ok (smwb (norm_client c)) /\ window_ok (cmwb (norm_client c)).
Proof.
  intro H. unfold norm_client, window_ok. rewrite H. cbn [smwb cmwb].
  destruct (smwb c <? 8) eqn:A, (smwb c >? 15) eqn:B, (cmwb c <? 8) eqn:C, (cmwb c >? 15) eqn:D; cbn [orb]; lia.
Qed.

Lemma norm_server_bits s : enabled s = true ->
  window_ok (smwb (norm_server s)) /\ window_ok (cmwb (norm_server s)).
Proof.
  intro H. unfold norm_server, window_ok, select_value. rewrite H. cbn [smwb cmwb].
  destruct (smwb s <? 8) eqn:A, (smwb s >? 15) eqn:B, (cmwb s <? 8) eqn:C, (cmwb s >? 15) eqn:D, (sct s), (cct s); cbn [orb]; lia.
Qed.

(* ---- the two header generators render parameter lists ---- *)

Definition request_params (p : PD) : list param :=
  [PName]
  ++ (if sct p then [] else [PServerNoContextTakeover])
  ++ (if cct p then [] else [PClientNoContextTakeover])
  ++ (if smwb p =? 15 then [] else [PServerMaxWindowBits (itoa (smwb p))])
  ++ (if cmwb p =? 15 then (if cct p then [PClientMaxWindowBits None] else [])
      else [PClientMaxWindowBits (Some (itoa (cmwb p)))]).

Definition response_params (p : PD) : list param :=
  [PName]
  ++ (if sct p then [] else [PServerNoContextTakeover])
  ++ (if cct p then [] else [PClientNoContextTakeover])
  ++ (if smwb p =? 15 then [] else [PServerMaxWindowBits (itoa (smwb p))])
  ++ (if cmwb p =? 15 then [] else [PClientMaxWindowBits (Some (itoa (cmwb p)))]).

Lemma gen_request_render p : gen_request_header p = render (request_params p).
Proof.
  unfold gen_request_header, render. change sep_concat with join. apply (f_equal (join SEP_JOIN)).
  unfold gen_request_options, request_params, opt_if.
  destruct (sct p), (cct p), (smwb p =? 15), (cmwb p =? 15); reflexivity.
Qed.

Lemma gen_response_render p : gen_response_header p = render (response_params p).
Proof.
  unfold gen_response_header, render. change sep_concat with join. apply (f_equal (join SEP_JOIN)).
  unfold gen_response_options, response_params, opt_if.
  destruct (sct p), (cct p), (smwb p =? 15), (cmwb p =? 15); reflexivity.
Qed.

Lemma wf_itoa n : window_ok n -> wf_value (itoa n).
Proof. intro H. destruct (itoa_window n H) as (A & B & _). split; assumption. Qed.

Lemma request_params_wf p : window_ok (smwb p) -> window_ok (cmwb p) -> Forall wf_param (request_params p).
Proof.
  intros Hs Hc. unfold request_params.
  destruct (sct p), (cct p), (smwb p =? 15), (cmwb p =? 15); cbn [app];
    repeat constructor; try (apply wf_itoa; assumption).
Qed.

Lemma response_params_wf p : window_ok (smwb p) -> window_ok (cmwb p) -> Forall wf_param (response_params p).
Proof.
  intros Hs Hc. unfold response_params.
  destruct (sct p), (cct p), (smwb p =? 15), (cmwb p =? 15); cbn [app];
    repeat constructor; try (apply wf_itoa; assumption).
Qed.

Lemma dec_value_itoa n : window_ok n -> dec_value (itoa n) = n.
Proof. intro H. destruct (itoa_window n H) as (_ & _ & C). exact C. Qed.

(* string-level round trip: what either generator writes is read back as itself *)
Lemma meaning_request p : window_ok (smwb p) -> window_ok (cmwb p) ->
  meaning (request_params p) = mkReading (sct p) (cct p) (smwb p) (cmwb p).
Proof.
  intros Hs Hc. unfold meaning, request_params.
  destruct (sct p), (cct p), (smwb p =? 15) eqn:A, (cmwb p =? 15) eqn:B;
    cbn [app existsb is_snct is_cnct orb negb server_vals client_vals flat_map];
    rewrite ?dec_value_itoa, ?bits_meaning_single by assumption; f_equal;
    try reflexivity; unfold bits_meaning; cbn [fold_right]; lia.
Qed.

Lemma meaning_response p : window_ok (smwb p) -> window_ok (cmwb p) ->
  meaning (response_params p) = mkReading (sct p) (cct p) (smwb p) (cmwb p).
Proof.
  intros Hs Hc. unfold meaning, response_params.
  destruct (sct p), (cct p), (smwb p =? 15) eqn:A, (cmwb p =? 15) eqn:B;
    cbn [app existsb is_snct is_cnct orb negb server_vals client_vals flat_map];
    rewrite ?dec_value_itoa, ?bits_meaning_single by assumption; f_equal;
    try reflexivity; unfold bits_meaning; cbn [fold_right]; lia.
Qed.

Lemma parse_request p : window_ok (smwb p) -> window_ok (cmwb p) ->
  permessage_negotiation (gen_request_header p) = mkPD false (sct p) (cct p) (smwb p) (cmwb p) 0 0.
Proof.
  intros Hs Hc. rewrite gen_request_render, parse_render by (apply request_params_wf; assumption).
  rewrite meaning_request by assumption. reflexivity.
Qed.

Lemma parse_response p : window_ok (smwb p) -> window_ok (cmwb p) ->
  permessage_negotiation (gen_response_header p) = mkPD false (sct p) (cct p) (smwb p) (cmwb p) 0 0.
Proof.
  intros Hs Hc. rewrite gen_response_render, parse_render by (apply response_params_wf; assumption).
  rewrite meaning_response by assumption. reflexivity.
Qed.

(* ---- strings.Contains(extensions, "permessage-deflate") ---- *)

Lemma prefixb_app x y : prefixb x (x ++ y) = true.
Proof. induction x as [|a x IH]; [reflexivity|]. cbn. rewrite N.eqb_refl. exact IH. Qed.

Lemma contains_prefix x y : contains (x ++ y) x = true.
Proof.
  pose proof (prefixb_app x y) as P. destruct (x ++ y); cbn [contains]; rewrite P; reflexivity.
Qed.

Lemma contains_request p : contains (gen_request_header p) K_PMD = true.
Proof.
  unfold gen_request_header, gen_request_options. cbn [app]. rewrite join_cons. apply contains_prefix.
Qed.

Lemma contains_response p : contains (gen_response_header p) K_PMD = true.
Proof.
  unfold gen_response_header, gen_response_options. cbn [app]. rewrite join_cons. apply contains_prefix.
Qed.

Lemma contains_absent : contains [] K_PMD = false.
Proof. reflexivity. Qed.

(* ---- setThreshold ---- *)

Lemma set_threshold_fields b p :
  enabled (set_threshold b p) = enabled p /\ sct (set_threshold b p) = sct p /\ cct (set_threshold b p) = cct p
  /\ smwb (set_threshold b p) = smwb p /\ cmwb (set_threshold b p) = cmwb p /\ level (set_threshold b p) = level p.
Proof. unfold set_threshold. destruct (_ || _); cbn; auto 10. Qed.

Lemma set_threshold_server p : sct (set_threshold true p) = true -> threshold (set_threshold true p) = 0.
Proof. unfold set_threshold. destruct (sct p) eqn:E; cbn; rewrite ?E; cbn; congruence. Qed.

Lemma set_threshold_client p : cct (set_threshold false p) = true -> threshold (set_threshold false p) = 0.
Proof. unfold set_threshold. destruct (cct p) eqn:E; cbn; rewrite ?E; cbn; congruence. Qed.

(* ---- the two views ---- *)

Lemma server_view_on s c : enabled s = true -> enabled c = true ->
  server_view s c =
  set_threshold true (mkPD true (sct c && sct s) (cct c && cct s)
                           (smwb (norm_server s)) (cmwb (norm_server s))
                           (threshold (norm_server s)) (level (norm_server s))).
Proof.
  intros Hs Hc. unfold server_view, offer_header, server_get_pd.
  destruct (norm_client_flags c) as (E1 & E2 & E3). destruct (norm_server_flags s) as (F1 & F2 & F3).
  destruct (norm_client_bits c Hc) as [B1 B2].
  rewrite E1, Hc. rewrite parse_request by assumption. rewrite contains_request.
  cbn [sct cct]. rewrite E2, E3, F1, F2, F3, Hs. reflexivity.
Qed.

Lemma server_view_off s c : enabled s && enabled c = false -> enabled (server_view s c) = false.
Proof.
  intro H. unfold server_view, server_get_pd.
  destruct (set_threshold_fields true
    (mkPD (enabled (norm_server s) && contains (offer_header c) K_PMD)
          (sct (permessage_negotiation (offer_header c)) && sct (norm_server s))
          (cct (permessage_negotiation (offer_header c)) && cct (norm_server s))
          (smwb (norm_server s)) (cmwb (norm_server s)) (threshold (norm_server s)) (level (norm_server s)))) as [E _].
  rewrite E. cbn [enabled].
  destruct (norm_server_flags s) as (F1 & _). rewrite F1.
  destruct (enabled s); [|reflexivity]. cbn in H.
  unfold offer_header. destruct (norm_client_flags c) as (E1 & _). rewrite E1, H. reflexivity.
Qed.

Lemma client_view_off s c : enabled (server_view s c) = false -> enabled (client_view s c) = false.
Proof.
  intro H. unfold client_view, client_get_pd, response_header. rewrite H.
  match goal with |- enabled (set_threshold false ?p) = _ => destruct (set_threshold_fields false p) as [E _]; rewrite E end.
  cbn [enabled]. rewrite contains_absent. apply andb_false_r.
Qed.

Lemma client_view_on s c : enabled s = true -> enabled c = true ->
  let sv := server_view s c in
  client_view s c =
  set_threshold false (mkPD true (sct sv) (cct sv) (smwb sv) (cmwb sv)
                            (threshold (norm_client c)) (level (norm_client c))).
Proof.
  intros Hs Hc sv. unfold client_view, client_get_pd, response_header. fold sv.
  assert (Hsv := server_view_on s c Hs Hc). fold sv in Hsv.
  match type of Hsv with _ = set_threshold true ?p => destruct (set_threshold_fields true p) as (T1 & T2 & T3 & T4 & T5 & T6) end.
  rewrite <- Hsv in T1, T2, T3, T4, T5, T6. cbn [enabled sct cct smwb cmwb level] in T1, T2, T3, T4, T5, T6.
  destruct (norm_server_bits s Hs) as [B1 B2].
  rewrite T1. rewrite parse_response by (rewrite ?T4, ?T5; assumption).
  rewrite contains_response. destruct (norm_client_flags c) as (E1 & _). rewrite E1, Hc. reflexivity.
Qed.

(* the main statement, in the blueprint's form *)
Lemma negotiation_agree s c :
  let sv := server_view s c in let cl := client_view s c in
  enabled sv = enabled cl /\ enabled sv = (enabled s && enabled c) /\
  (enabled sv = true ->
     sct sv = sct cl /\ cct sv = cct cl /\ smwb sv = smwb cl /\ cmwb sv = cmwb cl
     /\ sct sv = (sct s && sct c) /\ cct sv = (cct s && cct c)
     /\ 8 <= smwb sv <= 15 /\ 8 <= cmwb sv <= 15).
Proof.
  intros sv cl. destruct (enabled s && enabled c) eqn:B.
  - apply andb_true_iff in B as [Hs Hc].
    assert (Hsv := server_view_on s c Hs Hc). assert (Hcl := client_view_on s c Hs Hc). cbv zeta in Hcl.
    fold sv in Hsv, Hcl. fold cl in Hcl.
    match type of Hsv with _ = set_threshold true ?p => destruct (set_threshold_fields true p) as (T1 & T2 & T3 & T4 & T5 & _) end.
    rewrite <- Hsv in T1, T2, T3, T4, T5. cbn [enabled sct cct smwb cmwb] in T1, T2, T3, T4, T5.
    match type of Hcl with _ = set_threshold false ?p => destruct (set_threshold_fields false p) as (U1 & U2 & U3 & U4 & U5 & _) end.
    rewrite <- Hcl in U1, U2, U3, U4, U5. cbn [enabled sct cct smwb cmwb] in U1, U2, U3, U4, U5.
    destruct (norm_server_bits s Hs) as [B1 B2]. unfold window_ok in B1, B2.
    rewrite T1, U1, U2, U3, U4, U5, T2, T3, T4, T5.
    split; [reflexivity|]. split; [reflexivity|]. intros _.
    clear - B1 B2. repeat split; try reflexivity; try apply andb_comm; lia.
  - assert (Hsv := server_view_off s c B). fold sv in Hsv.
    assert (Hcl := client_view_off s c Hsv). fold cl in Hcl.
    rewrite Hsv, Hcl. split; [reflexivity|]. split; [reflexivity|]. discriminate.
Qed.

Lemma threshold_zero_under_takeover s c :
  (sct (server_view s c) = true -> threshold (server_view s c) = 0) /\
  (cct (client_view s c) = true -> threshold (client_view s c) = 0).
Proof. split; [apply set_threshold_server|apply set_threshold_client]. Qed.

(* the same in the vocabulary of Spec/NegotiationSpec.v *)
Definition side_of (p : PD) : side := mkSide (enabled p) (sct p) (cct p).
Definition held_of (p : PD) : held := mkHeld (enabled p) (sct p) (cct p) (smwb p) (cmwb p).

Lemma negotiation_meets_spec s c :
  negotiation_ok (side_of s) (side_of c) (held_of (server_view s c)) (held_of (client_view s c)).
Proof.
  destruct (negotiation_agree s c) as (A & B & C).
  unfold negotiation_ok, side_of, held_of, window_ok. cbn.
  split; [exact B|]. split; [rewrite <- A; exact B|].
  intro H. destruct (C H) as (C1 & C2 & C3 & C4 & C5 & C6 & C7 & C8).
  rewrite <- C1, <- C2. auto 10.
Qed.
