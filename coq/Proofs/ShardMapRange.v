(* C19, concurrent layer, part 4: Range.  In every run, a completed Range never visits a key twice,
   never calls the callback again after it returned false, and - if the callback never stops - visits
   every entry whose key is present at the invocation and not stored/deleted during the Range. *)
From Gws Require Import Lib.Base Model.ShardMap Spec.AtomicMap Proofs.ShardMapSeq Proofs.LinProofs
  Proofs.ShardMapConc Proofs.ShardMapLen.
From Coq Require Import Sorting.Permutation.

(* the callback is not called again after the first false *)
Definition stops_after_false (f : callback) (vis : list (N * N)) : Prop :=
  forall p e q, vis = p ++ e :: q -> f (p ++ [e]) = false -> q = [].
Definition all_true (f : callback) (vis : list (N * N)) : Prop :=
  forall p e q, vis = p ++ e :: q -> f (p ++ [e]) = true.

(* THE STATEMENT about a trace *)
Definition range_ok (tr : list mark) : Prop :=
  forall tr1 tr2 tr3 id t f vis nx,
    tr = tr1 ++ MInv id t (ORange f) :: tr2 ++ MRes id (ORange f) (RRange vis nx) :: tr3 ->
    NoDup (keys vis) /\ stops_after_false f vis /\
    ((forall l, f l = true) ->
       forall k v, replay tr1 k = Some v -> untouched k tr2 -> In (k, v) vis).

Lemma all_true_stops f vis : all_true f vis -> stops_after_false f vis.
Proof. intros H p e q E Hf. rewrite (H p e q E) in Hf. discriminate. Qed.

Lemma all_true_snoc f vis e : all_true f vis -> f (vis ++ [e]) = true -> all_true f (vis ++ [e]).
Proof.
  intros H Hf p e0 q E. apply snoc_split in E as [(-> & -> & ->)|(q' & -> & ->)]; auto.
  eapply H; eauto.
Qed.

Lemma stops_snoc f vis e : all_true f vis -> stops_after_false f (vis ++ [e]).
Proof.
  intros H p e0 q E Hf. apply snoc_split in E as [(-> & -> & ->)|(q' & -> & ->)]; auto.
  rewrite (H p e0 q' eq_refl) in Hf. discriminate.
Qed.

Lemma visit_stops f es : forall vis, all_true f vis ->
  stops_after_false f (fst (visit f vis es)) /\
  (snd (visit f vis es) = true -> all_true f (fst (visit f vis es))).
Proof.
  induction es as [|e es IH]; intros vis H; cbn.
  - split; auto using all_true_stops.
  - destruct (f (vis ++ [e])) eqn:E.
    + apply IH. apply all_true_snoc; auto.
    + cbn. split; [apply stops_snoc; auto|discriminate].
Qed.

Lemma nodup_app_r {A} (a b : list A) : NoDup (a ++ b) -> NoDup b.
Proof. induction a as [|x a IH]; cbn; auto. intro H. inversion H; auto. Qed.

Lemma nth_error_split {A} (l : list A) i x : nth_error l i = Some x -> l = firstn i l ++ x :: skipn (S i) l.
Proof.
  revert i. induction l as [|y l IH]; intros [|i] H; cbn in *; try discriminate.
  - inversion H. reflexivity.
  - f_equal. apply IH. exact H.
Qed.

Section Range.
Variable ix : N -> nat.
Variable n : nat.
Hypothesis ix_lt : forall k, ix k < n.
Variable progs : nat -> list op.

Notation step := (step ix n).
Notation reach := (reach ix n progs).
Notation base := (base ix n).

Definition covers (tr : list mark) (id : nat) (vis : list (N * N)) (P : N -> Prop) : Prop :=
  forall k v, replay (firstn id tr) k = Some v -> untouched k (skipn (S id) tr) -> P k -> In (k, v) vis.

Definition range_thr (tr : list mark) (ts : tstate) : Prop :=
  match ts with
  | Run (Frame id (ORange f) i stg (RRange vis nx)) =>
      let b := match stg with Done => S i | _ => i end in
      NoDup (keys vis) /\ (forall k, In k (keys vis) -> ix k < b) /\
      stops_after_false f vis /\ (nx = true -> all_true f vis) /\ (stg <> Done -> nx = true) /\
      ((forall l, f l = true) -> nx = true /\ covers tr id vis (fun k => ix k < b))
  | Ret id (ORange f) (RRange vis nx) =>
      NoDup (keys vis) /\ stops_after_false f vis /\
      ((forall l, f l = true) -> covers tr id vis (fun _ => True))
  | _ => True
  end.

Lemma covers_env tr l id vis P : id < length tr -> covers tr id vis P -> covers (tr ++ l) id vis P.
Proof.
  intros Hid H k v Hr Hu Hp. rewrite firstn_app_le in Hr by lia. rewrite skipn_app_le in Hu by lia.
  apply untouched_app in Hu as [Hu _]. eapply H; eauto.
Qed.

Lemma range_thr_env tr l ts t st :
  base st -> trace st = tr -> cur_id ts = cur_id (t_st (threads st t)) ->
  range_thr tr ts -> range_thr (tr ++ l) ts.
Proof.
  intros HB Htr Hc H.
  destruct ts as [|[id o i stg a]|id o r]; cbn [range_thr] in *; auto.
  - destruct o; auto. destruct a; auto.
    assert (Hid : id < length tr) by (rewrite <- Htr; eapply (cur_id_lt ix n); eauto).
    destruct H as (H1 & H2 & H3 & H4 & H5 & H6). repeat split; auto; try (apply H6; auto).
    apply covers_env; auto. apply H6; auto.
  - destruct o; auto. destruct r; auto.
    assert (Hid : id < length tr) by (rewrite <- Htr; eapply (cur_id_lt ix n); eauto).
    destruct H as (H1 & H2 & H3). repeat split; auto. intro Hf. apply covers_env; auto.
Qed.

Lemma range_ok_snoc tr m : range_ok tr ->
  (forall tr1 tr2 id t f vis nx, m = MRes id (ORange f) (RRange vis nx) -> tr = tr1 ++ MInv id t (ORange f) :: tr2 ->
     NoDup (keys vis) /\ stops_after_false f vis /\
     ((forall l, f l = true) -> forall k v, replay tr1 k = Some v -> untouched k tr2 -> In (k, v) vis)) ->
  range_ok (tr ++ [m]).
Proof.
  intros H Hm tr1 tr2 tr3 id t f vis nx Heq. apply split2_snoc in Heq as [(-> & <- & ->)|(tr3' & -> & ->)].
  - eapply Hm; eauto.
  - eapply H; eauto.
Qed.

Definition range_inv (st : state) : Prop :=
  (forall t, range_thr (trace st) (t_st (threads st t))) /\ range_ok (trace st).

Lemma range_inv_init : range_inv (init_state n progs).
Proof.
  split; cbn; [intro t; exact I|]. intros tr1 tr2 tr3 id t f vis nx H. destruct tr1; discriminate.
Qed.

(* the body step of Range on shard i *)
Lemma range_body st t id f i vis nx es :
  base st -> nth_error (trace st) id = Some (MInv id t (ORange f)) ->
  range_thr (trace st) (Run (Frame id (ORange f) i Locked (RRange vis nx))) ->
  Permutation es (shard i (shards st)) ->
  range_thr (trace st) (Run (Frame id (ORange f) i Done (RRange (fst (visit f vis es)) (snd (visit f vis es))))).
Proof.
  intros HB Hid H Hp. cbn [range_thr] in *. destruct H as (H1 & H2 & H3 & H4 & H5 & H6).
  assert (Hnx : nx = true) by (apply H5; discriminate).
  destruct (B_inv _ _ _ HB) as [Hlen Hsh]. destruct (Hsh i) as [Hnd Hix]. cbn in Hnd, Hix.
  assert (Hkeys : Permutation (keys es) (keys (shard i (shards st)))) by (apply Permutation_map; auto).
  destruct (visit_prefix f es vis) as (pre & post & Hes & Hv & Hpost).
  assert (HndE : NoDup (keys es)) by (eapply Permutation_NoDup; [symmetry; eauto|auto]).
  assert (HixE : forall k, In k (keys es) -> ix k = i).
  { intros k Hk. apply Hix. eapply Permutation_in; eauto. }
  rewrite Hes, keys_app in HndE.
  split; [|split; [|split; [|split; [|split]]]].
  - rewrite Hv, keys_app. apply NoDup_app_intro; auto.
    + eapply nodup_app_r. rewrite <- keys_app. eapply Permutation_NoDup; [apply Permutation_map; apply Permutation_app_comm|]. rewrite keys_app. exact HndE.
    + intros k Hk Hk'. apply H2 in Hk. assert (ix k = i); [|lia].
      apply HixE. rewrite Hes, keys_app. apply in_or_app. auto.
  - intros k Hk. rewrite Hv, keys_app in Hk. apply in_app_or in Hk as [Hk|Hk].
    + apply H2 in Hk. lia.
    + assert (ix k = i); [|lia]. apply HixE. rewrite Hes, keys_app. apply in_or_app. auto.
  - apply visit_stops. auto.
  - apply visit_stops. auto.
  - intro Hc. exfalso. apply Hc. reflexivity.
  - intro Hf. rewrite (visit_true f vis es Hf). cbn [fst snd]. split; auto.
    destruct (H6 Hf) as [_ Hcov]. intros k v Hr Hu Hlt.
    apply in_or_app. destruct (Nat.eq_dec (ix k) i) as [E|E].
    + right. eapply Permutation_in; [symmetry; eauto|].
      apply a_load_in.
      assert (Hab : abs (shards st) k = Some v).
      { rewrite <- (B_replay _ _ _ HB). rewrite (nth_error_split _ _ _ Hid), replay_app, Hr.
        apply untouched_replay. unfold untouched in *. cbn. exact Hu. }
      rewrite <- (cm_load_abs ix n ix_lt) in Hab by (split; auto). unfold cm_load in Hab. rewrite E in Hab. exact Hab.
    + left. apply Hcov; auto. lia.
Qed.

Lemma step_range_inv st st' : base st -> range_inv st -> step st st' -> range_inv st'.
Proof.
  intros HB [HT HO] Hs.
  inversion Hs; subst; cbn [shards trace threads locks] in *.
  - (* invoke *)
    split; cbn [shards trace threads locks].
    + intro t'. destruct (Nat.eq_dec t' t) as [->|Hne].
      * rewrite set_eq. cbn [t_st]. destruct o; cbn [range_thr init_acc first_shard]; auto.
        repeat split; auto; try constructor.
        -- intros k [].
        -- intros p e q E. destruct p; discriminate.
        -- intros _ p e q E. destruct p; discriminate.
        -- intros k v _ _ Hlt. lia.
      * rewrite set_neq by auto.
        eapply (range_thr_env tr _ _ t' (State M L T tr)); eauto.
    + apply range_ok_snoc; auto. intros; discriminate.
  - (* lock *)
    split; cbn [shards trace threads locks]; auto.
    intro t'. destruct (Nat.eq_dec t' t) as [->|Hne]; [|rewrite set_neq by auto; auto].
    rewrite set_eq. specialize (HT t). rewrite H in HT. cbn [t_st range_thr] in *.
    destruct o; auto. destruct a; auto.
    destruct HT as (H1 & H2 & H3 & H4 & H5 & H6). repeat split; auto; try (apply H6; auto).
    intros _. apply H5. discriminate.
  - (* body *)
    split; cbn [shards trace threads locks].
    + intro t'. destruct (Nat.eq_dec t' t) as [->|Hne].
      * rewrite set_eq. specialize (HT t). rewrite H in HT. cbn [t_st] in *.
        inversion H0; subst; cbn [range_thr]; auto.
        cbn [pt_marks]. rewrite app_nil_r.
        eapply (range_body (State M' L T tr) t); [exact HB| |exact HT|cbn [shards]; eassumption].
        apply (B_thr _ _ _ HB t). cbn [threads]. rewrite H. reflexivity.
      * rewrite set_neq by auto.
        eapply (range_thr_env tr _ _ t' (State M L T tr)); eauto.
    + destruct o; cbn [pt_marks]; rewrite ?app_nil_r; auto; apply range_ok_snoc; auto; intros; discriminate.
  - (* unlock *)
    split; cbn [shards trace threads locks]; auto.
    intro t'. destruct (Nat.eq_dec t' t) as [->|Hne]; [|rewrite set_neq by auto; auto].
    rewrite set_eq. specialize (HT t). rewrite H in HT. cbn [t_st range_thr] in HT. cbn [t_st].
    unfold after_unlock. destruct o; cbn [range_thr]; auto.
    + destruct (S i <? n); exact I.
    + destruct a; try exact I.
      destruct HT as (H1 & H2 & H3 & H4 & H5 & H6).
      destruct next.
      * destruct (Nat.ltb_spec (S i) n) as [Hlt|Hge]; cbn [range_thr].
        -- repeat split; auto; apply H6; auto.
        -- repeat split; auto. intros Hf k v Hr Hu _. destruct (H6 Hf) as [_ Hc]. apply Hc; auto.
           pose proof (ix_lt k). lia.
      * cbn [range_thr]. repeat split; auto. intros Hf. destruct (H6 Hf) as [Hc _]. discriminate.
  - (* return *)
    split; cbn [shards trace threads locks].
    + intro t'. destruct (Nat.eq_dec t' t) as [->|Hne].
      * rewrite set_eq. exact I.
      * rewrite set_neq by auto.
        eapply (range_thr_env tr _ _ t' (State M L T tr)); eauto.
    + apply range_ok_snoc; auto. intros tr1 tr2 id' t' f vis nx Heq Htr. inversion Heq; subst.
      specialize (HT t). rewrite H in HT. cbn [t_st range_thr] in HT.
      assert (Hid : id' = length tr1).
      { eapply (B_pos _ _ _ HB). cbn [trace]. apply nth_error_mid. }
      subst id'. destruct HT as (H1 & H2 & H3). repeat split; auto.
      intros Hf k v Hr Hu. specialize (H3 Hf). unfold covers in H3.
      destruct (split_at tr1 (MInv (length tr1) t' (ORange f)) tr2) as [E1 E2]. rewrite E1, E2 in H3.
      apply H3; auto.
Qed.

Lemma reach_range_inv st : reach st -> range_inv st.
Proof.
  induction 1; [apply range_inv_init|]. eapply step_range_inv; eauto. eapply reach_base; eauto.
Qed.

Theorem runs_range_once st : reach st -> range_ok (trace st).
Proof. intro H. apply reach_range_inv in H. apply H. Qed.

End Range.
