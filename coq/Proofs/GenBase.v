(* Helpers shared by the Proofs/Gen*Proofs.v files (Tie A for the data path): each of those files proves that some of the
   Gallina definitions translator/funcs.go regenerates from /repo on every run (Gen/Funcs.v) are EQUAL to the hand-written
   models the theorems are about.  One file per area, so that a change in one source function breaks the obligations of the
   properties that rest on it and of no other. *)
From Gws Require Import Lib.Base.
From Coq Require Import ZifyN ZifyNat ZifyBool.
Local Open Scope Z_scope.

(* every value of a finite range satisfies a boolean predicate, by computation *)
Lemma range_forall (P : N -> bool) (n : N) :
  forallb P (map N.of_nat (seq 0 (N.to_nat n))) = true -> forall b, (b < n)%N -> P b = true.
Proof.
  intros F b Hb. rewrite forallb_forall in F. apply F. apply in_map_iff. exists (N.to_nat b).
  split; [lia|]. apply in_seq. lia.
Qed.

Lemma of_N_lor a b : Z.of_N (N.lor a b) = Z.lor (Z.of_N a) (Z.of_N b).
Proof. apply Z.bits_inj'. intros n Hn. rewrite Z.lor_spec, !Z.testbit_of_N' by lia. apply N.lor_spec. Qed.

Lemma of_N_shiftr a k : Z.of_N (N.shiftr a k) = Z.shiftr (Z.of_N a) (Z.of_N k).
Proof.
  apply Z.bits_inj'. intros n Hn. rewrite Z.shiftr_spec by lia. rewrite !Z.testbit_of_N' by lia.
  rewrite N.shiftr_spec by apply N.le_0_l. f_equal. lia.
Qed.

Lemma of_N_land a b : Z.of_N (N.land a b) = Z.land (Z.of_N a) (Z.of_N b).
Proof. apply Z.bits_inj'. intros n Hn. rewrite Z.land_spec, !Z.testbit_of_N' by lia. apply N.land_spec. Qed.

Lemma eqb0 op : (Z.of_N op =? 0)%Z = (op =? 0)%N.
Proof. lia. Qed.
