(* Fragmented messages with interleaved control frames: what the RFC automaton (Spec/Rfc6455Recv.v) does with
   them, and - through read_stream_refines - what the reader model does.  The outcome is that of `complete` on the
   CONCATENATION of the fragments' payloads: fragment boundaries and interleaved control frames are irrelevant to
   what is delivered, to the UTF-8 verdict and to the inflation. *)
From Gws Require Import Lib.Base Spec.Rfc6455 Spec.Rfc6455Recv Model.Header Model.CloseCode Model.Reader.
From Gws Require Import Proofs.FrameProofs Proofs.ReaderProofs Proofs.ReaderRefine.
Local Open Scope N_scope.

Section Frag.
Variable utf8_valid : list N -> bool.
Variable inflate : list N -> list N -> Z -> option (list N).
Variable W : Type.
Variable wdict : W -> list N.
Variable wwrite : W -> list N -> W.

Notation recv_frame := (Rfc6455Recv.recv_frame utf8_valid inflate W wdict wwrite).
Notation recv_frames := (Rfc6455Recv.recv_frames utf8_valid inflate W wdict wwrite).
Notation complete := (Rfc6455Recv.complete utf8_valid inflate W wdict wwrite).

(* frames as a peer of the given role sends them; server = the RECEIVER is a server (so the frames are masked) *)
Definition data_frame (server fin rsv1 : bool) (op : N) (key p : list N) : frame :=
  {| f_fin := fin; f_rsv1 := rsv1; f_rsv2 := false; f_rsv3 := false; f_op := op; f_masked := server; f_key := key; f_payload := p |}.

(* a control frame between two fragments: (opcode 9 or 10, key, payload) *)
Definition ctl := (N * list N * list N)%type.
Definition ctl_frame (server : bool) (x : ctl) : frame := let '(op, key, p) := x in data_frame server true false op key p.
Definition ctl_event (x : ctl) : sevent := let '(op, _, p) := x in if op =? 9 then SPing p else SPong p.
Definition ctl_ok (c : scfg) (x : ctl) : Prop :=
  let '(op, _, p) := x in (op = 9 \/ op = 10) /\ (length p <= 125)%nat /\ (Z.of_nat (length p) <= s_limit c)%Z.

(* a non-final continuation fragment: (payload, key, shortest length form used?, control frames that follow it) *)
Definition mid := (list N * list N * bool * list ctl)%type.
Definition mid_payload (m : mid) : list N := fst (fst (fst m)).
Definition mid_frames (server : bool) (m : mid) : list (frame * bool) :=
  let '(p, key, minimal, cs) := m in
  (data_frame server false false 0 key p, minimal) :: map (fun x => (ctl_frame server x, true)) cs.
Definition mid_ctls (m : mid) : list ctl := snd m.

Definition as_run (r : sres W) : list sevent * send W :=
  match r with
  | RNext _ evs st' => (evs, EndOfFrames W st')
  | RFail _ vs => ([], EndFail W vs)
  | RClose _ b => ([], EndClose W b)
  end.

Lemma ctl_viol_nil c st x : ctl_ok c x -> violations W c st (ctl_frame (s_server c) x) true = [].
Proof.
  destruct x as [[op key] p]. intros (Hop & Hl & Hlim). unfold violations, ctl_frame, data_frame. cbn -[Z.of_nat].
  rewrite Bool.eqb_reflx.
  assert (Hk : op_known op = true) by (destruct Hop as [-> | ->]; reflexivity).
  assert (Hc : is_control op = true) by (destruct Hop as [-> | ->]; reflexivity).
  assert (H0 : (op =? 0) = false) by (destruct Hop as [-> | ->]; reflexivity).
  assert (H1 : (op =? 1) = false) by (destruct Hop as [-> | ->]; reflexivity).
  assert (H2 : (op =? 2) = false) by (destruct Hop as [-> | ->]; reflexivity).
  rewrite Hk, Hc, H0, H1, H2. cbn [andb orb negb app].
  replace (125 <? Z.of_nat (length p))%Z with false by lia.
  replace (s_limit c <? Z.of_nat (length p))%Z with false by lia. reflexivity.
Qed.

Lemma ctl_step c st x : ctl_ok c x -> recv_frame c st (ctl_frame (s_server c) x) true = RNext W [ctl_event x] st.
Proof.
  intros H. unfold Rfc6455Recv.recv_frame. rewrite (ctl_viol_nil c st x H).
  destruct x as [[op key] p]. destruct H as ([-> | ->] & _); reflexivity.
Qed.

Lemma ctl_run c cs : Forall (ctl_ok c) cs -> forall st rest,
  recv_frames c st (map (fun x => (ctl_frame (s_server c) x, true)) cs ++ rest)
  = (map ctl_event cs ++ fst (recv_frames c st rest), snd (recv_frames c st rest)).
Proof.
  induction 1 as [|x cs Hx _ IH]; intros st rest.
  - cbn. destruct (recv_frames c st rest); reflexivity.
  - cbn [map app Rfc6455Recv.recv_frames]. rewrite (ctl_step c st x Hx). rewrite IH.
    destruct (recv_frames c st rest); reflexivity.
Qed.

(* a continuation frame inside a message in progress, within the limit *)
Lemma cont_viol_nil c hist mop comp acc fin key p m :
  (Z.of_nat (length acc) + Z.of_nat (length p) <= s_limit c)%Z ->
  violations W c {| s_cur := Some (mop, comp, acc); s_hist := hist |} (data_frame (s_server c) fin false 0 key p) m = [].
Proof.
  intros Hl. unfold violations, data_frame. cbn -[Z.of_nat]. rewrite Bool.eqb_reflx. cbn [app].
  replace (s_limit c <? Z.of_nat (length p))%Z with false by lia.
  replace (s_limit c <? Z.of_nat (length acc) + Z.of_nat (length p))%Z with false by lia. reflexivity.
Qed.

Lemma cont_step c hist mop comp acc key p m :
  (Z.of_nat (length acc) + Z.of_nat (length p) <= s_limit c)%Z ->
  recv_frame c {| s_cur := Some (mop, comp, acc); s_hist := hist |} (data_frame (s_server c) false false 0 key p) m
  = RNext W [] {| s_cur := Some (mop, comp, acc ++ p); s_hist := hist |}.
Proof. intros Hl. unfold Rfc6455Recv.recv_frame. rewrite cont_viol_nil by exact Hl. reflexivity. Qed.

Lemma final_step c hist mop comp acc key p m :
  (Z.of_nat (length acc) + Z.of_nat (length p) <= s_limit c)%Z ->
  recv_frame c {| s_cur := Some (mop, comp, acc); s_hist := hist |} (data_frame (s_server c) true false 0 key p) m
  = complete c hist mop comp (acc ++ p).
Proof. intros Hl. unfold Rfc6455Recv.recv_frame. rewrite cont_viol_nil by exact Hl. reflexivity. Qed.

Lemma first_step c hist op comp key p m :
  (op = 1 \/ op = 2) -> (comp = true -> s_pmd c = true) -> (Z.of_nat (length p) <= s_limit c)%Z ->
  recv_frame c {| s_cur := None; s_hist := hist |} (data_frame (s_server c) false comp op key p) m
  = RNext W [] {| s_cur := Some (op, comp, p); s_hist := hist |}.
Proof.
  intros Hop Hc Hl. unfold Rfc6455Recv.recv_frame.
  assert (Hv : violations W c {| s_cur := None; s_hist := hist |} (data_frame (s_server c) false comp op key p) m = []).
  { unfold violations, data_frame. cbn -[Z.of_nat]. rewrite Bool.eqb_reflx.
    assert (Hk : op_known op = true) by (destruct Hop as [-> | ->]; reflexivity).
    assert (Hnc : is_control op = false) by (destruct Hop as [-> | ->]; reflexivity).
    assert (H0 : (op =? 0) = false) by (destruct Hop as [-> | ->]; reflexivity).
    rewrite Hk, Hnc, H0. cbn [andb orb negb app]. rewrite !Bool.andb_false_r. cbn [app].
    replace (s_limit c <? Z.of_nat (length p))%Z with false by lia.
    destruct comp; [rewrite (Hc eq_refl)|]; reflexivity. }
  rewrite Hv. unfold data_frame. cbn [f_op f_fin f_rsv1 f_payload s_hist s_cur].
  replace (op =? 9) with false by (destruct Hop as [-> | ->]; reflexivity).
  replace (op =? 10) with false by (destruct Hop as [-> | ->]; reflexivity).
  replace (op =? 8) with false by (destruct Hop as [-> | ->]; reflexivity).
  replace (op =? 0) with false by (destruct Hop as [-> | ->]; reflexivity).
  reflexivity.
Qed.

(* the continuation part: from a message in progress with `acc` accumulated *)
Lemma conts_run c hist mop comp (mids : list mid) : forall acc klast plast mlast,
  Forall (fun m => Forall (ctl_ok c) (mid_ctls m)) mids ->
  (Z.of_nat (length acc) + Z.of_nat (length (concat (map mid_payload mids))) + Z.of_nat (length plast) <= s_limit c)%Z ->
  recv_frames c {| s_cur := Some (mop, comp, acc); s_hist := hist |}
    (flat_map (mid_frames (s_server c)) mids ++ [(data_frame (s_server c) true false 0 klast plast, mlast)])
  = (map ctl_event (flat_map mid_ctls mids) ++ fst (as_run (complete c hist mop comp (acc ++ concat (map mid_payload mids) ++ plast))),
     snd (as_run (complete c hist mop comp (acc ++ concat (map mid_payload mids) ++ plast)))).
Proof.
  induction mids as [|[[[p key] minimal] cs] mids IH]; intros acc klast plast mlast Hc Hl.
  - cbn [flat_map map concat app]. cbn [Rfc6455Recv.recv_frames]. cbn [map concat length] in Hl.
    rewrite final_step by lia.
    destruct (complete c hist mop comp (acc ++ plast)) as [vs|evs st'|b]; cbn; rewrite ?app_nil_r; reflexivity.
  - inversion Hc as [|? ? Hcs Hc']; subst. cbn [mid_ctls snd] in Hcs.
    cbn [flat_map mid_frames map concat mid_payload fst mid_ctls snd]. cbn [map concat mid_payload fst] in Hl.
    rewrite app_length in Hl.
    rewrite <- !app_assoc. cbn [app Rfc6455Recv.recv_frames].
    rewrite cont_step by lia.
    rewrite (ctl_run c cs Hcs).
    rewrite (IH (acc ++ p) klast plast mlast Hc') by (rewrite app_length; lia).
    cbn [fst snd]. rewrite map_app, <- !app_assoc. reflexivity.
Qed.

(* THE STATEMENT: a message sent as a first frame, any number of continuation frames and a final one, with ping/pong
   frames anywhere in between, from the idle state: the pings and pongs are reported in order, and the message is
   treated exactly like the single-frame message carrying the concatenated payload. *)
Theorem fragmented_message c hist op comp k0 p0 m0 (cs0 : list ctl) (mids : list mid) klast plast mlast :
  (op = 1 \/ op = 2) -> (comp = true -> s_pmd c = true) ->
  Forall (ctl_ok c) cs0 -> Forall (fun m => Forall (ctl_ok c) (mid_ctls m)) mids ->
  let payload := p0 ++ concat (map mid_payload mids) ++ plast in
  (Z.of_nat (length payload) <= s_limit c)%Z ->
  recv_frames c {| s_cur := None; s_hist := hist |}
    ((data_frame (s_server c) false comp op k0 p0, m0) :: map (fun x => (ctl_frame (s_server c) x, true)) cs0
       ++ flat_map (mid_frames (s_server c)) mids ++ [(data_frame (s_server c) true false 0 klast plast, mlast)])
  = (map ctl_event (cs0 ++ flat_map mid_ctls mids) ++ fst (as_run (complete c hist op comp payload)),
     snd (as_run (complete c hist op comp payload))).
Proof.
  intros Hop Hcomp Hc0 Hcm payload Hl. subst payload. rewrite !app_length in Hl.
  cbn [Rfc6455Recv.recv_frames]. rewrite first_step by (auto; lia).
  rewrite (ctl_run c cs0 Hc0).
  rewrite (conts_run c hist op comp mids p0 klast plast mlast Hcm) by lia.
  cbn [fst snd]. rewrite map_app, <- !app_assoc. reflexivity.
Qed.

(* its consequence for uncompressed text: delivered iff the CONCATENATION is valid UTF-8 (or checking is off) *)
Corollary fragmented_text_verdict c hist payload :
  as_run (complete c hist 1 false payload)
  = if s_utf8 c && negb (utf8_valid payload) then ([], EndFail W [1007])
    else ([SMsg 1 payload], EndOfFrames W {| s_cur := None; s_hist := hist |}).
Proof. unfold Rfc6455Recv.complete. cbn. rewrite Bool.andb_true_r. destruct (s_utf8 c && negb (utf8_valid payload)); reflexivity. Qed.

End Frag.

(* ---- transfer to the reader model ---- *)
Section FragReader.
Variable utf8_valid : list N -> bool.
Variable inflate : list N -> list N -> Z -> option (list N).
Variable W : Type.
Variable wdict : W -> list N.
Variable wwrite : W -> list N -> W.

Notation read_stream := (Reader.read_stream utf8_valid inflate W wdict wwrite).
Notation complete := (Rfc6455Recv.complete utf8_valid inflate W wdict wwrite).

(* a non-final continuation fragment on the wire: (payload, key, length form, control frames that follow) *)
Definition midw := (list N * list N * lenform * list ctl)%type.
Definition midw_payload (m : midw) : list N := fst (fst (fst m)).
Definition midw_ctls (m : midw) : list ctl := snd m.
Definition midw_wire (server : bool) (m : midw) : list (lenform * frame) :=
  let '(p, key, lf, cs) := m in
  (lf, data_frame server false false 0 key p) :: map (fun x => (LShortest, ctl_frame server x)) cs.
Definition mid_of (m : midw) : mid :=
  let '(p, key, lf, cs) := m in (p, key, minimal_of lf (N.of_nat (length p)), cs).

(* the frames of one fragmented message with interleaved control frames, as (length form, frame) pairs *)
Definition message_wire (server comp : bool) (op : N) (lf0 : lenform) (k0 p0 : list N) (cs0 : list ctl)
                        (mids : list midw) (lfl : lenform) (kl pl : list N) : list (lenform * frame) :=
  (lf0, data_frame server false comp op k0 p0) :: map (fun x => (LShortest, ctl_frame server x)) cs0
    ++ flat_map (midw_wire server) mids ++ [(lfl, data_frame server true false 0 kl pl)].

Lemma spec_frames_ctls server cs :
  spec_frames (map (fun x => (LShortest, ctl_frame server x)) cs) = map (fun x => (ctl_frame server x, true)) cs.
Proof. unfold spec_frames. rewrite map_map. apply map_ext. intros [[op k] p]. reflexivity. Qed.

Lemma spec_frames_app a b : spec_frames (a ++ b) = spec_frames a ++ spec_frames b.
Proof. unfold spec_frames. apply map_app. Qed.

Lemma spec_frames_mids server mids :
  spec_frames (flat_map (midw_wire server) mids) = flat_map (mid_frames server) (map mid_of mids).
Proof.
  induction mids as [|[[[p key] lf] cs] mids IH]; [reflexivity|].
  cbn [flat_map map mid_of midw_wire mid_frames]. rewrite spec_frames_app, IH.
  change (spec_frames ((lf, data_frame server false false 0 key p) :: map (fun x => (LShortest, ctl_frame server x)) cs))
    with ((data_frame server false false 0 key p, minimal_of lf (N.of_nat (length p)))
            :: spec_frames (map (fun x => (LShortest, ctl_frame server x)) cs)).
  rewrite spec_frames_ctls. reflexivity.
Qed.

Lemma mid_of_payloads mids : map mid_payload (map mid_of mids) = map midw_payload mids.
Proof. rewrite map_map. apply map_ext. intros [[[p key] lf] cs]. reflexivity. Qed.

Lemma mid_of_ctls mids : flat_map mid_ctls (map mid_of mids) = flat_map midw_ctls mids.
Proof. induction mids as [|[[[p key] lf] cs] mids IH]; [reflexivity|]. cbn. rewrite IH. reflexivity. Qed.

(* THE STATEMENT for the reader model: whatever the fragment boundaries, the length forms, the masking keys and the
   ping/pong frames in between, reading the bytes of the message from an idle reader gives the ping/pong callbacks in
   order and then exactly what `complete` gives on the concatenated payload: the message (inflated if compressed) when
   it passes the UTF-8 gate, the failure status otherwise. *)
Theorem reader_fragmented_message c st fuel comp op lf0 k0 p0 cs0 mids lfl kl pl :
  limit_ok c -> cf_init W st = false ->
  (op = 1 \/ op = 2) -> (comp = true -> r_pmd c = true) ->
  Forall (ctl_ok (scfg_of c)) cs0 -> Forall (fun m => Forall (ctl_ok (scfg_of c)) (midw_ctls m)) mids ->
  let wire := message_wire (r_server c) comp op lf0 k0 p0 cs0 mids lfl kl pl in
  let payload := p0 ++ concat (map midw_payload mids) ++ pl in
  Forall sendable wire -> (Z.of_nat (length payload) <= r_limit c)%Z -> (length (enc_stream wire) < fuel)%nat ->
  refines_run utf8_valid W c
    (map ctl_event (cs0 ++ flat_map midw_ctls mids)
       ++ fst (as_run W (complete (scfg_of c) (r_dps W st) op comp payload)),
     snd (as_run W (complete (scfg_of c) (r_dps W st) op comp payload)))
    (read_stream fuel c st (enc_stream wire)).
Proof.
  intros Hc Hinit Hop Hcomp Hc0 Hcm wire payload Hsend Hl Hfuel.
  assert (Hst : st_ok W st) by (unfold st_ok; rewrite Hinit; discriminate).
  pose proof (read_stream_refines utf8_valid inflate W wdict wwrite c Hc wire fuel st Hsend Hst Hfuel) as R.
  assert (Habs : abs W st = {| s_cur := None; s_hist := r_dps W st |}) by (unfold abs; rewrite Hinit; reflexivity).
  rewrite Habs in R.
  assert (Hspec : spec_frames wire
                  = (data_frame (r_server c) false comp op k0 p0, minimal_of lf0 (N.of_nat (length p0)))
                      :: map (fun x => (ctl_frame (r_server c) x, true)) cs0
                      ++ flat_map (mid_frames (r_server c)) (map mid_of mids)
                      ++ [(data_frame (r_server c) true false 0 kl pl, minimal_of lfl (N.of_nat (length pl)))]).
  { unfold wire, message_wire.
    change (spec_frames ((lf0, data_frame (r_server c) false comp op k0 p0) :: ?l))
      with ((data_frame (r_server c) false comp op k0 p0, minimal_of lf0 (N.of_nat (length p0))) :: spec_frames l).
    rewrite !spec_frames_app, spec_frames_ctls, spec_frames_mids. reflexivity. }
  rewrite Hspec in R.
  pose proof (fragmented_message utf8_valid inflate W wdict wwrite (scfg_of c) (r_dps W st) op comp k0 p0
                (minimal_of lf0 (N.of_nat (length p0))) cs0 (map mid_of mids) kl pl (minimal_of lfl (N.of_nat (length pl)))
                Hop Hcomp Hc0) as F.
  rewrite mid_of_payloads, mid_of_ctls in F.
  change (s_server (scfg_of c)) with (r_server c) in F.
  rewrite F in R.
  - exact R.
  - clear -Hcm. induction mids as [|[[[p key] lf] cs] mids IH]; [constructor|].
    inversion Hcm; subst. constructor; [assumption|apply IH; assumption].
  - exact Hl.
Qed.

(* uncompressed text: the pings/pongs are delivered in order; the message is delivered iff the CONCATENATION of the
   fragments is valid UTF-8 (or checking is off); otherwise nothing but the control callbacks is delivered and the
   connection is failed with status 1007 *)
Corollary reader_fragmented_text c st fuel lf0 k0 p0 cs0 mids lfl kl pl :
  limit_ok c -> cf_init W st = false ->
  Forall (ctl_ok (scfg_of c)) cs0 -> Forall (fun m => Forall (ctl_ok (scfg_of c)) (midw_ctls m)) mids ->
  let wire := message_wire (r_server c) false 1 lf0 k0 p0 cs0 mids lfl kl pl in
  let payload := p0 ++ concat (map midw_payload mids) ++ pl in
  let ctls := map (ev_map) (map ctl_event (cs0 ++ flat_map midw_ctls mids)) in
  Forall sendable wire -> (Z.of_nat (length payload) <= r_limit c)%Z -> (length (enc_stream wire) < fuel)%nat ->
  let r := read_stream fuel c st (enc_stream wire) in
  if r_utf8 c && negb (utf8_valid payload)
  then fst r = ctls /\ snd r = OFail W 1007
  else fst r = ctls ++ [EvMsg 1 payload] /\ exists st', snd r = OMore W st' false.
Proof.
  intros Hc Hinit Hc0 Hcm wire payload ctls Hsend Hl Hfuel r.
  pose proof (reader_fragmented_message c st fuel false 1 lf0 k0 p0 cs0 mids lfl kl pl Hc Hinit (or_introl eq_refl)
                ltac:(discriminate) Hc0 Hcm Hsend Hl Hfuel) as R.
  fold wire payload r in R. rewrite (fragmented_text_verdict utf8_valid inflate W wdict wwrite) in R.
  change (s_utf8 (scfg_of c)) with (r_utf8 c) in R.
  destruct (r_utf8 c && negb (utf8_valid payload)); destruct R as (R1 & R2); cbn [fst snd] in R1, R2.
  - split; [rewrite R1, app_nil_r; reflexivity|].
    destruct R2 as (x & Hx & [<- | []]). exact Hx.
  - split; [rewrite R1, map_app; reflexivity|].
    destruct R2 as (st' & Hs & _). exists st'. exact Hs.
Qed.

(* delivery in every shape: if the concatenated payload is within the limit and - when compressed - inflates to `d`
   within the limit, and `d` passes the text check, then the message is delivered (after the control callbacks), once *)
Corollary reader_fragmented_delivered c st fuel comp op lf0 k0 p0 cs0 mids lfl kl pl d :
  limit_ok c -> cf_init W st = false ->
  (op = 1 \/ op = 2) -> (comp = true -> r_pmd c = true) ->
  Forall (ctl_ok (scfg_of c)) cs0 -> Forall (fun m => Forall (ctl_ok (scfg_of c)) (midw_ctls m)) mids ->
  let wire := message_wire (r_server c) comp op lf0 k0 p0 cs0 mids lfl kl pl in
  let payload := p0 ++ concat (map midw_payload mids) ++ pl in
  Forall sendable wire -> (Z.of_nat (length payload) <= r_limit c)%Z -> (length (enc_stream wire) < fuel)%nat ->
  (if comp then inflate (wdict (r_dps W st)) (payload ++ inflate_tail) (r_limit c) = Some d else d = payload) ->
  (r_utf8 c && (op =? 1) && negb (utf8_valid d)) = false ->
  exists st', read_stream fuel c st (enc_stream wire)
              = (map ev_map (map ctl_event (cs0 ++ flat_map midw_ctls mids)) ++ [EvMsg op d], OMore W st' false).
Proof.
  intros Hc Hinit Hop Hcomp Hc0 Hcm wire payload Hsend Hl Hfuel Hd Hu.
  pose proof (reader_fragmented_message c st fuel comp op lf0 k0 p0 cs0 mids lfl kl pl Hc Hinit Hop Hcomp Hc0 Hcm Hsend Hl Hfuel) as R.
  fold wire payload in R. unfold Rfc6455Recv.complete in R. cbn [scfg_of s_limit s_utf8] in R.
  destruct comp.
  - rewrite Hd, Hu in R. destruct R as (R1 & st' & R2 & _). cbn [fst snd as_run] in R1, R2.
    exists st'. destruct (read_stream fuel c st (enc_stream wire)) as [evs o]. cbn [fst snd] in *. subst.
    rewrite map_app. reflexivity.
  - subst d. rewrite Hu in R. destruct R as (R1 & st' & R2 & _). cbn [fst snd as_run] in R1, R2.
    exists st'. destruct (read_stream fuel c st (enc_stream wire)) as [evs o]. cbn [fst snd] in *. subst.
    rewrite map_app. reflexivity.
Qed.

End FragReader.
