(* Proofs for C15: invariants of the workerQueue event system, for every event sequence. *)
From Gws Require Import Lib.Base Model.Queue Spec.FifoServer.
Local Open Scope Z_scope.

(* ---- lists of consecutive numbers ---- *)
Lemma seq_prefix_head (a : list nat) j b n : a ++ j :: b = seq 0 n -> j = length a.
Proof.
  intro H. assert (Hn : nth (length a) (a ++ j :: b) 0%nat = j) by apply nth_middle.
  rewrite H in Hn. assert (Hlen : (length a < n)%nat).
  { apply (f_equal (@length nat)) in H. rewrite app_length, seq_length in H. cbn in H. lia. }
  rewrite seq_nth in Hn by exact Hlen. lia.
Qed.

Lemma app_length_inj {A} : forall (a c b d : list A), length a = length c -> a ++ b = c ++ d -> a = c /\ b = d.
Proof.
  induction a as [|x a IH]; intros [|y c] b d Hl H; cbn in *; try discriminate; [auto|].
  inversion H; subst. destruct (IH c b d) as [-> ->]; [lia|assumption|auto].
Qed.

Lemma seq_prefix (a b : list nat) n : a ++ b = seq 0 n -> a = seq 0 (length a) /\ b = seq (length a) (n - length a).
Proof.
  intro H. assert (Hlen : (length a <= n)%nat).
  { apply (f_equal (@length nat)) in H. rewrite app_length, seq_length in H. lia. }
  replace n with (length a + (n - length a))%nat in H by lia. rewrite seq_app in H.
  apply app_length_inj in H; [exact H | rewrite seq_length; reflexivity].
Qed.

(* ---- the worker table ---- *)
Lemma w_set_length w st ws : length (w_set w st ws) = length ws.
Proof. induction ws as [|[w' st'] r IH]; cbn; [reflexivity|]. destruct (Nat.eqb w w'); cbn; congruence. Qed.

Lemma w_remove_length w ws st : w_lookup w ws = Some st -> S (length (w_remove w ws)) = length ws.
Proof.
  induction ws as [|[w' st'] r IH]; cbn; [discriminate|]. destruct (Nat.eqb w w'); cbn; [reflexivity|].
  intro H. rewrite IH by exact H. reflexivity.
Qed.

Lemma w_lookup_nonempty w ws st : w_lookup w ws = Some st -> (1 <= length ws)%nat.
Proof. destruct ws; cbn; [discriminate|lia]. Qed.

(* ---- the invariant, for any concurrency limit maxc >= 0 ---- *)
Record InvG (maxc : Z) (s : sys) : Prop := {
  ig_max : wq_max (s_wq s) = maxc;
  ig_cur : wq_cur (s_wq s) = Z.of_nat (length (s_workers s));       (* cur counts the live workers *)
  ig_le : wq_cur (s_wq s) <= maxc;
  ig_busy : wq_q (s_wq s) <> [] -> wq_cur (s_wq s) = maxc;          (* tasks wait only while all workers are live *)
  ig_part : s_started s ++ wq_q (s_wq s) = s_submitted s;           (* started, then queued = submitted, in order *)
  ig_ids : s_submitted s = seq 0 (length (s_submitted s))
}.

Lemma InvG_init maxc : 0 <= maxc -> InvG maxc (q_init maxc).
Proof. intro H. constructor; cbn; try reflexivity; try lia. intro C; contradiction. Qed.

Lemma InvG_step maxc s e s' : InvG maxc s -> q_step s e = Some s' -> InvG maxc s'.
Proof.
  intros [Hmax Hcur Hle Hbusy Hpart Hids] Hstep. destruct s as [[q cur mx] ws started submitted log nw].
  cbn [s_wq s_workers s_started s_submitted s_log s_nextw wq_q wq_cur wq_max] in *. subst mx.
  destruct e as [|w|w]; cbn [q_step s_wq s_workers s_started s_submitted s_log s_nextw] in Hstep.
  - (* Submit *)
    unfold get_job in Hstep. cbn [wq_q wq_cur wq_max] in Hstep. rewrite Z.add_0_r in Hstep.
    assert (Hids' : submitted ++ [length submitted] = seq 0 (length (submitted ++ [length submitted]))).
    { rewrite app_length. cbn [length]. rewrite Nat.add_1_r, seq_S. cbn. rewrite <- Hids. reflexivity. }
    destruct (Z.geb_spec cur maxc) as [Hge|Hlt].
    + inversion Hstep; subst s'; clear Hstep. constructor; cbn; try assumption; try reflexivity; try lia.
      rewrite app_assoc, Hpart. reflexivity.
    + assert (Hq : q = []) by (destruct q; [reflexivity|]; assert (cur = maxc) by (apply Hbusy; discriminate); lia).
      subst q. cbn [app] in Hstep. inversion Hstep; subst s'; clear Hstep.
      rewrite app_nil_r in Hpart. subst started.
      constructor; cbn; try assumption; try reflexivity; try lia.
      * rewrite app_length. cbn [length]. lia.
      * intro C; contradiction C; reflexivity.
      * rewrite app_nil_r. reflexivity.
  - (* TaskEnd *)
    destruct (w_lookup w ws) as [[t|]|] eqn:Hl; try discriminate. inversion Hstep; subst s'; clear Hstep.
    constructor; cbn; try assumption; try reflexivity. rewrite w_set_length. exact Hcur.
  - (* Fetch *)
    destruct (w_lookup w ws) as [[t|]|] eqn:Hl; try discriminate.
    pose proof (w_lookup_nonempty _ _ _ Hl) as Hne.
    unfold get_job in Hstep. cbn [wq_q wq_cur wq_max] in Hstep.
    destruct (Z.geb_spec (cur + -1) maxc) as [Hge|Hlt]; [lia|].
    destruct q as [|j q2]; inversion Hstep; subst s'; clear Hstep.
    + constructor; cbn; try assumption; try reflexivity; try lia.
      * pose proof (w_remove_length _ _ _ Hl). lia.
      * intro C; contradiction C; reflexivity.
    + assert (cur = maxc) by (apply Hbusy; discriminate).
      constructor; cbn; try assumption; try reflexivity; try lia.
      * rewrite w_set_length. lia.
      * rewrite <- app_assoc. exact Hpart.
Qed.

Lemma InvG_runs maxc : 0 <= maxc -> forall evs s, q_runs (q_init maxc) evs = Some s -> InvG maxc s.
Proof.
  intros Hm evs. assert (G : forall evs s0 s, InvG maxc s0 -> q_runs s0 evs = Some s -> InvG maxc s).
  { clear evs. induction evs as [|e r IH]; intros s0 s H0 H; cbn [q_runs] in H.
    - inversion H; subst; exact H0.
    - destruct (q_step s0 e) as [s1|] eqn:Hs; [|discriminate]. cbn [obind] in H.
      eapply IH; [|exact H]. eapply InvG_step; eassumption. }
  intros s H. eapply G; [apply InvG_init, Hm|exact H].
Qed.

(* consequences of InvG *)
Lemma InvG_started_ids maxc s : InvG maxc s ->
  s_started s = seq 0 (length (s_started s))
  /\ wq_q (s_wq s) = pending (length (s_started s)) (length (s_submitted s)).
Proof.
  intros [_ _ _ _ Hpart Hids]. rewrite <- Hpart in Hids at 1. apply seq_prefix in Hids. exact Hids.
Qed.

Lemma InvG_nodup maxc s : InvG maxc s -> NoDup (s_started s ++ wq_q (s_wq s)).
Proof. intros [_ _ _ _ Hpart Hids]. rewrite Hpart, Hids. apply seq_NoDup. Qed.

Lemma InvG_not_stranded maxc s : 1 <= maxc -> InvG maxc s -> s_workers s = [] -> s_started s = s_submitted s.
Proof.
  intros Hm [_ Hcur _ Hbusy Hpart _] Hw. rewrite Hw in Hcur. cbn in Hcur.
  destruct (wq_q (s_wq s)) as [|x q] eqn:Hq.
  - rewrite app_nil_r in Hpart. exact Hpart.
  - assert (wq_cur (s_wq s) = maxc) by (apply Hbusy; discriminate). lia.
Qed.

Lemma running_tasks_length ws : (length (running_tasks ws) <= length ws)%nat.
Proof. induction ws as [|[w [t|]] r IH]; cbn; lia. Qed.

(* ---- the single-server shape of the start/end log, maxc = 1 ---- *)
Definition Inv1 (s : sys) : Prop :=
  match s_workers s with
  | [] => s_log s = serial_log LStart LEnd (length (s_started s)) false
  | [(_, WFetch)] => s_log s = serial_log LStart LEnd (length (s_started s)) false
  | [(_, WRun t)] => S t = length (s_started s) /\ s_log s = serial_log LStart LEnd t true
  | _ => False
  end.

Lemma serial_start {E} (st en : nat -> E) k : serial_log st en k false ++ [st k] = serial_log st en k true.
Proof. unfold serial_log. rewrite app_nil_r. reflexivity. Qed.

Lemma serial_end {E} (st en : nat -> E) k : serial_log st en k true ++ [en k] = serial_log st en (S k) false.
Proof.
  unfold serial_log. rewrite app_nil_r, seq_S, flat_map_app. cbn [flat_map plus app].
  rewrite <- app_assoc. reflexivity.
Qed.

Lemma Inv1_step s e s' : InvG 1 s -> Inv1 s -> q_step s e = Some s' -> Inv1 s'.
Proof.
  intros HG H1 Hstep. pose proof HG as [Hmax Hcur Hle Hbusy Hpart Hids].
  destruct s as [[q cur mx] ws started submitted log nw]. unfold Inv1 in *.
  cbn [s_wq s_workers s_started s_submitted s_log s_nextw wq_q wq_cur wq_max] in *. subst mx.
  destruct e as [|w|w]; cbn [q_step s_wq s_workers s_started s_submitted s_log s_nextw] in Hstep.
  - unfold get_job in Hstep. cbn [wq_q wq_cur wq_max] in Hstep. rewrite Z.add_0_r in Hstep.
    destruct (Z.geb_spec cur 1) as [Hge|Hlt].
    + inversion Hstep; subst s'; clear Hstep. cbn. exact H1.
    + assert (Hws : ws = []) by (destruct ws; [reflexivity|cbn in Hcur; lia]). subst ws.
      assert (Hq : q = []) by (destruct q; [reflexivity|]; assert (cur = 1) by (apply Hbusy; discriminate); lia).
      subst q. cbn [app] in Hstep. inversion Hstep; subst s'; clear Hstep. cbn.
      rewrite app_nil_r in Hpart. subst submitted. rewrite app_length. cbn [length]. split; [lia|].
      rewrite H1. apply serial_start.
  - destruct (w_lookup w ws) as [[t|]|] eqn:Hl; try discriminate. inversion Hstep; subst s'; clear Hstep. cbn.
    destruct ws as [|[w1 st1] r]; [cbn in Hl; discriminate|].
    destruct r as [|x r]; [|destruct st1; contradiction].
    cbn in Hl |- *. destruct (Nat.eqb w w1); [|discriminate]. inversion Hl; subst st1.
    cbn. destruct H1 as [Hk Hlog]. rewrite <- Hk, Hlog. apply serial_end.
  - destruct (w_lookup w ws) as [[t|]|] eqn:Hl; try discriminate.
    destruct ws as [|[w1 st1] r]; [cbn in Hl; discriminate|].
    destruct r as [|x r]; [|destruct st1; contradiction].
    cbn [w_lookup w_set w_remove] in Hl, Hstep. destruct (Nat.eqb w w1); [|discriminate]. inversion Hl; subst st1.
    unfold get_job in Hstep. cbn [wq_q wq_cur wq_max] in Hstep. cbn in Hcur.
    destruct (Z.geb_spec (cur + -1) 1) as [Hge|Hlt]; [lia|].
    destruct q as [|j q2]; inversion Hstep; subst s'; clear Hstep; cbn.
    + exact H1.
    + rewrite Hids in Hpart. apply seq_prefix_head in Hpart. subst j.
      rewrite app_length. cbn [length]. split; [lia|]. rewrite H1. apply serial_start.
Qed.

Lemma Inv1_runs : forall evs s, q_runs (q_init 1) evs = Some s -> InvG 1 s /\ Inv1 s.
Proof.
  assert (G : forall evs s0 s, InvG 1 s0 /\ Inv1 s0 -> q_runs s0 evs = Some s -> InvG 1 s /\ Inv1 s).
  { induction evs as [|e r IH]; intros s0 s H0 H; cbn [q_runs] in H.
    - inversion H; subst; exact H0.
    - destruct (q_step s0 e) as [s1|] eqn:Hs; [|discriminate]. cbn [obind] in H.
      eapply IH; [|exact H]. destruct H0 as [HG H1]. split; [eapply InvG_step|eapply Inv1_step]; eassumption. }
  intros evs s H. eapply G; [|exact H]. split; [apply InvG_init; lia|reflexivity].
Qed.

(* the log in one formula: k tasks done, possibly task k running *)
Lemma Inv1_log s : InvG 1 s -> Inv1 s ->
  exists k running, s_log s = serial_log LStart LEnd k running
    /\ running_tasks (s_workers s) = (if running then [k] else [])
    /\ length (s_started s) = (k + (if running then 1 else 0))%nat.
Proof.
  intros _ H1. unfold Inv1 in H1. destruct (s_workers s) as [|[w1 [t1|]] [|x r]]; try contradiction.
  - exists (length (s_started s)), false. cbn. split; [exact H1|split; [reflexivity|lia]].
  - destruct H1 as [Hk Hlog]. exists t1, true. cbn. split; [exact Hlog|split; [reflexivity|lia]].
  - exists (length (s_started s)), false. cbn. split; [exact H1|split; [reflexivity|lia]].
Qed.

(* progress: a live worker can always take its next step, so the queue itself never deadlocks *)
Lemma worker_enabled s w st : w_lookup w (s_workers s) = Some st ->
  exists e s', (e = TaskEnd w \/ e = Fetch w) /\ q_step s e = Some s'.
Proof.
  intro Hl. destruct st as [t|].
  - exists (TaskEnd w). eexists. split; [left; reflexivity|]. cbn [q_step]. rewrite Hl. reflexivity.
  - exists (Fetch w). cbn [q_step]. rewrite Hl.
    destruct (get_job (s_wq s) None (-1)) as [wq' [j|]]; eexists; (split; [right; reflexivity|reflexivity]).
Qed.

(* a fetching worker facing a non-empty queue starts its head *)
Lemma fetch_takes_head maxc s w t r : InvG maxc s -> w_lookup w (s_workers s) = Some WFetch ->
  wq_q (s_wq s) = t :: r -> exists s', q_step s (Fetch w) = Some s' /\ s_started s' = s_started s ++ [t] /\ wq_q (s_wq s') = r.
Proof.
  intros [Hmax Hcur Hle Hbusy Hpart Hids] Hl Hq. cbn [q_step]. rewrite Hl. unfold get_job. rewrite Hq.
  destruct (Z.geb_spec (wq_cur (s_wq s) + -1) (wq_max (s_wq s))) as [Hge|Hlt]; [lia|].
  eexists. split; [reflexivity|]. cbn. auto.
Qed.

(* a Submit that lands when no worker is live (e.g. right after the last worker's empty fetch) starts
   the task itself *)
Lemma submit_when_idle maxc s : 1 <= maxc -> InvG maxc s -> s_workers s = [] ->
  exists s', q_step s Submit = Some s' /\ running_tasks (s_workers s') = [length (s_submitted s)]
             /\ s_started s' = s_submitted s' /\ s_submitted s' = s_submitted s ++ [length (s_submitted s)].
Proof.
  intros Hm HG Hw. pose proof (InvG_not_stranded _ _ Hm HG Hw) as Hall.
  destruct HG as [Hmax Hcur Hle Hbusy Hpart Hids]. rewrite Hw in Hcur. cbn in Hcur.
  assert (Hq : wq_q (s_wq s) = []).
  { destruct (wq_q (s_wq s)); [reflexivity|]. assert (wq_cur (s_wq s) = maxc) by (apply Hbusy; discriminate). lia. }
  cbn [q_step]. unfold get_job. rewrite Hq, Hmax, Hcur, Hw. cbn [app].
  destruct (Z.geb_spec (0 + 0) maxc) as [Hge|Hlt]; [lia|].
  eexists. split; [reflexivity|]. cbn. rewrite Hall. auto.
Qed.

(* ---- draining: without further submissions the live worker runs everything that is queued ---- *)
Definition no_submit (evs : list event) : Prop := Forall (fun e => e <> Submit) evs.

Lemma q_runs_app s evs1 evs2 : q_runs s (evs1 ++ evs2) = (s' <- q_runs s evs1 ;; q_runs s' evs2).
Proof.
  revert s. induction evs1 as [|e r IH]; intro s; cbn [app q_runs obind]; [reflexivity|].
  destruct (q_step s e); cbn [obind]; [apply IH|reflexivity].
Qed.

Lemma Inv_runs_from : forall evs s0 s, InvG 1 s0 /\ Inv1 s0 -> q_runs s0 evs = Some s -> InvG 1 s /\ Inv1 s.
Proof.
  induction evs as [|e r IH]; intros s0 s H0 H; cbn [q_runs] in H.
  - inversion H; subst; exact H0.
  - destruct (q_step s0 e) as [s1|] eqn:Hs; [|discriminate]. cbn [obind] in H.
    eapply IH; [|exact H]. destruct H0 as [HG H1]. split; [eapply InvG_step|eapply Inv1_step]; eassumption.
Qed.

Lemma no_submit_submitted : forall evs s s', no_submit evs -> q_runs s evs = Some s' -> s_submitted s' = s_submitted s.
Proof.
  induction evs as [|e r IH]; intros s s' Hn H; cbn [q_runs] in H; [inversion H; reflexivity|].
  inversion Hn as [|? ? He Hr]; subst. destruct (q_step s e) as [s1|] eqn:Hs; [|discriminate]. cbn [obind] in H.
  rewrite (IH _ _ Hr H). destruct e as [|w|w]; [contradiction He; reflexivity| |]; cbn [q_step] in Hs.
  - destruct (w_lookup w (s_workers s)) as [[t|]|]; try discriminate. inversion Hs; reflexivity.
  - destruct (w_lookup w (s_workers s)) as [[t|]|]; try discriminate.
    destruct (get_job (s_wq s) None (-1)) as [wq' [j|]]; inversion Hs; reflexivity.
Qed.

Lemma drain1 : forall n s, InvG 1 s -> Inv1 s -> length (wq_q (s_wq s)) = n ->
  exists evs s', no_submit evs /\ q_runs s evs = Some s' /\ s_workers s' = [].
Proof.
  induction n as [n IH] using lt_wf_ind. intros s HG H1 Hn.
  destruct (s_workers s) as [|[w st] r] eqn:Hw.
  - exists [], s. split; [constructor|]. split; [reflexivity|exact Hw].
  - assert (Hr : r = []).
    { destruct r; [reflexivity|]. unfold Inv1 in H1. rewrite Hw in H1. destruct st; contradiction. }
    subst r.
    (* bring the worker to its fetch *)
    assert (Hf : exists evs0 s0, no_submit evs0 /\ q_runs s evs0 = Some s0 /\ s_workers s0 = [(w, WFetch)]
                                 /\ wq_q (s_wq s0) = wq_q (s_wq s)).
    { destruct st as [t|].
      - exists [TaskEnd w]. eexists. split; [repeat constructor; discriminate|].
        cbn [q_runs q_step]. rewrite Hw. cbn [w_lookup]. rewrite Nat.eqb_refl. cbn [obind].
        split; [reflexivity|]. cbn. rewrite Nat.eqb_refl. auto.
      - exists [], s. split; [constructor|]. auto. }
    destruct Hf as [evs0 [s0 [Hns0 [Hr0 [Hw0 Hq0]]]]].
    destruct (Inv_runs_from _ _ _ (conj HG H1) Hr0) as [HG0 H10].
    destruct (wq_q (s_wq s0)) as [|t q2] eqn:Hq.
    + (* empty queue: the worker exits *)
      exists (evs0 ++ [Fetch w]). destruct HG0 as [Hmax Hcur Hle Hbusy Hpart Hids].
      rewrite Hw0 in Hcur. cbn in Hcur.
      eexists. split; [apply Forall_app; split; [exact Hns0|repeat constructor; discriminate]|].
      rewrite q_runs_app, Hr0. cbn [obind q_runs q_step]. rewrite Hw0. cbn [w_lookup]. rewrite Nat.eqb_refl.
      unfold get_job. rewrite Hq, Hmax, Hcur. cbn. rewrite Nat.eqb_refl. split; reflexivity.
    + (* the worker takes the head; the queue got shorter *)
      assert (Hl : w_lookup w (s_workers s0) = Some WFetch) by (rewrite Hw0; cbn; rewrite Nat.eqb_refl; reflexivity).
      destruct (fetch_takes_head 1 s0 w t q2 HG0 Hl Hq) as [s1 [Hs1 [_ Hq1]]].
      assert (Hr1 : q_runs s0 [Fetch w] = Some s1) by (cbn [q_runs]; rewrite Hs1; reflexivity).
      destruct (Inv_runs_from _ _ _ (conj HG0 H10) Hr1) as [HG1 H11].
      destruct (IH (length q2)) with (s := s1) as [evs2 [s2 [Hns2 [Hr2 Hw2]]]]; try assumption.
      { rewrite <- Hn, <- Hq0. cbn. lia. }
      { rewrite Hq1. reflexivity. }
      exists (evs0 ++ Fetch w :: evs2), s2.
      split; [apply Forall_app; split; [exact Hns0|constructor; [discriminate|exact Hns2]]|].
      split; [|exact Hw2]. rewrite q_runs_app, Hr0. cbn [obind q_runs]. rewrite Hs1. cbn [obind]. exact Hr2.
Qed.
