(* C13 / C04: whatever the inflater hands out, a successful Decompress returns at most `limit` bytes. *)
From Gws Require Import Lib.Base Model.LimitReader.
Local Open Scope Z_scope.

Lemma lr_copy_inv : forall reads cN cM acc out,
  cN = Z.of_nat (length acc) ->
  lr_copy cN cM reads acc = Some out -> Z.of_nat (length out) <= cM /\ exists t, out = acc ++ t.
Proof.
  induction reads as [|[p err] r IH]; intros cN cM acc out Hn H; cbn [lr_copy] in H; [discriminate|].
  unfold lr_read in H.
  destruct (cN + Z.of_nat (length p) >? cM) eqn:E.
  - (* over the limit: the copy fails whatever the underlying error was *)
    unfold err_too_large, err_eof in H. cbn in H. discriminate.
  - destruct (err =? 0) eqn:E0.
    + apply IH in H; [|rewrite app_length; lia].
      destruct H as (H1 & t & ->). split; [exact H1|]. exists (p ++ t). rewrite app_assoc. reflexivity.
    + destruct (err =? err_eof); [|discriminate]. injection H as <-.
      split; [rewrite app_length; lia|]. exists p. reflexivity.
Qed.

Theorem lr_copy_limited reads cM out : lr_copy 0 cM reads [] = Some out -> Z.of_nat (length out) <= cM.
Proof. intro H. exact (proj1 (lr_copy_inv reads 0 cM [] out eq_refl H)). Qed.

Theorem inflate_via_limit_limited flate_reads d s l out :
  inflate_via_limit flate_reads d s l = Some out -> Z.of_nat (length out) <= l.
Proof. apply lr_copy_limited. Qed.

(* the output is exactly what the inflater produced, in order, when it ends with io.EOF within the limit *)
Theorem lr_copy_complete : forall reads cN cM acc,
  cN = Z.of_nat (length acc) ->
  Forall (fun r => snd r = 0) (removelast reads) -> (exists p, last reads ([], 0) = (p, err_eof)) -> reads <> [] ->
  Z.of_nat (length (acc ++ concat (map fst reads))) <= cM ->
  lr_copy cN cM reads acc = Some (acc ++ concat (map fst reads)).
Proof.
  induction reads as [|[p err] r IH]; intros cN cM acc Hn Hall Hlast Hne Hlim; [congruence|].
  cbn [lr_copy map concat fst]. unfold lr_read.
  rewrite !app_length in Hlim. cbn [map concat fst] in Hlim. rewrite app_length in Hlim.
  replace (cN + Z.of_nat (length p) >? cM) with false by lia.
  destruct r as [|x r'].
  - destruct Hlast as (p' & Hl). cbn in Hl. injection Hl as -> ->. cbn. rewrite app_nil_r. reflexivity.
  - cbn [removelast] in Hall. inversion Hall as [|? ? Hh Ht]; subst. cbn in Hh. subst err. cbn [Z.eqb].
    rewrite app_assoc. apply IH.
    + rewrite app_length. lia.
    + exact Ht.
    + exact Hlast.
    + discriminate.
    + rewrite !app_length. cbn [map concat fst] in *. rewrite app_length in *. lia.
Qed.
