(* C16 lemmas: six-bit digit arithmetic of code points (div/mod by 64, 4096, 262144), shared by both
   directions of the RFC 3629 characterisation. *)
From Gws Require Import Lib.Base.
Local Open Scope N_scope.

(* ---------------------------------------------------------------------------------------------- *)
(* six-bit digits of a code point *)
Lemma digits2 a b : b < 64 -> let cp := 64 * a + b in cp / 64 = a /\ cp mod 64 = b.
Proof.
  intros Hb cp. subst cp. split; symmetry.
  - apply N.div_unique with (r := b); lia.
  - apply N.mod_unique with (q := a); lia.
Qed.

Lemma digits3 a b c : b < 64 -> c < 64 ->
  let cp := 4096 * a + 64 * b + c in cp / 4096 = a /\ (cp / 64) mod 64 = b /\ cp mod 64 = c.
Proof.
  intros Hb Hc cp. subst cp.
  assert (E : (4096 * a + 64 * b + c) / 64 = 64 * a + b)
    by (symmetry; apply N.div_unique with (r := c); lia).
  rewrite E. repeat split; symmetry.
  - apply N.div_unique with (r := 64 * b + c); lia.
  - apply N.mod_unique with (q := a); lia.
  - apply N.mod_unique with (q := 64 * a + b); lia.
Qed.

Lemma digits4 a b c d : b < 64 -> c < 64 -> d < 64 ->
  let cp := 262144 * a + 4096 * b + 64 * c + d in
  cp / 262144 = a /\ (cp / 4096) mod 64 = b /\ (cp / 64) mod 64 = c /\ cp mod 64 = d.
Proof.
  intros Hb Hc Hd cp. subst cp.
  assert (E1 : (262144 * a + 4096 * b + 64 * c + d) / 64 = 4096 * a + 64 * b + c)
    by (symmetry; apply N.div_unique with (r := d); lia).
  assert (E2 : (262144 * a + 4096 * b + 64 * c + d) / 4096 = 64 * a + b)
    by (symmetry; apply N.div_unique with (r := 64 * c + d); lia).
  rewrite E1, E2. repeat split; symmetry.
  - apply N.div_unique with (r := 4096 * b + 64 * c + d); lia.
  - apply N.mod_unique with (q := a); lia.
  - apply N.mod_unique with (q := 64 * a + b); lia.
  - apply N.mod_unique with (q := 4096 * a + 64 * b + c); lia.
Qed.

(* every code point is its digits *)
Lemma split2 cp : exists a b, b < 64 /\ cp = 64 * a + b.
Proof. exists (cp / 64), (cp mod 64). split; [apply N.mod_lt; lia|apply N.div_mod; lia]. Qed.

Lemma split3 cp : exists a b c, b < 64 /\ c < 64 /\ cp = 4096 * a + 64 * b + c.
Proof.
  destruct (split2 cp) as (q & c & Hc & E). destruct (split2 q) as (a & b & Hb & E').
  exists a, b, c. repeat split; try assumption. lia.
Qed.

Lemma split4 cp : exists a b c d, b < 64 /\ c < 64 /\ d < 64 /\ cp = 262144 * a + 4096 * b + 64 * c + d.
Proof.
  destruct (split3 cp) as (q & c & d & Hc & Hd & E). destruct (split2 q) as (a & b & Hb & E').
  exists a, b, c, d. repeat split; try assumption. lia.
Qed.

