(* the reply-status table of emitClose, StatusCode.Bytes / Uint16, the truncation of a Close body (conn.go, writer.go) *)
From Gws Require Import Lib.Base Spec.Rfc6455 Gen.Consts Gen.Funcs Proofs.GenBase.
From Coq Require Import ZifyN ZifyNat ZifyBool.
Local Open Scope Z_scope.
From Gws Require Import Model.Header Model.CloseCode.

(* ---- emitClose: the reply-status table, all 65536 status codes ---- *)
Lemma gen_close_class_is real dflt : (real < 65536)%N ->
  gf_gws_Conn_emitClose_responseCode (Z.of_N real) dflt = Z.of_N (close_class real).
Proof.
  intro H. unfold gf_gws_Conn_emitClose_responseCode, close_class.
  change sc_protocol with 1002%N. change sc_normal with 1000%N.
  destruct ((real =? 1004) || (real =? 1005) || (real =? 1006) || (real =? 1015))%N eqn:E1.
  - replace ((Z.of_N real =? 1004) || (Z.of_N real =? 1005) || (Z.of_N real =? 1006) || (Z.of_N real =? 1015))%bool with true by lia. reflexivity.
  - replace ((Z.of_N real =? 1004) || (Z.of_N real =? 1005) || (Z.of_N real =? 1006) || (Z.of_N real =? 1015))%bool with false by lia.
    destruct ((real <? 1000) || (5000 <=? real) || ((1016 <=? real) && (real <? 3000)))%N eqn:E2.
    + replace (((Z.of_N real <? 1000) || (Z.of_N real >=? 5000)) || ((Z.of_N real >=? 1016) && (Z.of_N real <? 3000)))%bool with true by lia. reflexivity.
    + replace (((Z.of_N real <? 1000) || (Z.of_N real >=? 5000)) || ((Z.of_N real >=? 1016) && (Z.of_N real <? 3000)))%bool with false by lia.
      destruct (real <? 1016)%N eqn:E3.
      * replace (Z.of_N real <? 1016) with true by lia. reflexivity.
      * replace (Z.of_N real <? 1016) with false by lia. cbn zeta. rewrite Z.mod_small by lia. reflexivity.
Qed.

(* ---- StatusCode.Bytes: the same shifts and truncations, term for term (no enumeration: coqchk re-checks this file
   without the VM) ---- *)
Lemma gen_status_bytes_is c : (c < 65536)%N -> gf_internal_StatusCode_Bytes (Z.of_N c) = map Z.of_N (status_bytes c).
Proof.
  intros _. unfold gf_internal_StatusCode_Bytes, status_bytes.
  replace (Z.of_N c =? 0) with (c =? 0)%N by (destruct (N.eqb_spec c 0), (Z.eqb_spec (Z.of_N c) 0); lia).
  destruct (c =? 0)%N; [reflexivity|]. cbn [map].
  rewrite !N.shiftr_div_pow2, N.shiftl_mul_pow2, !Z.shiftr_div_pow2, Z.shiftl_mul_pow2 by lia.
  rewrite !N2Z.inj_mod, !N2Z.inj_div, N2Z.inj_mod, N2Z.inj_mul, !N2Z.inj_pow. reflexivity.
Qed.

Lemma gen_Uint16_is c : (c < 65536)%N -> gf_internal_StatusCode_Uint16 (Z.of_N c) = Z.of_N c.
Proof. intro H. unfold gf_internal_StatusCode_Uint16. apply Z.mod_small. lia. Qed.

Theorem close_table_from_source real dflt : (real < 65536)%N ->
  gf_gws_Conn_emitClose_responseCode (Z.of_N real) dflt = Z.of_N (close_class real)
  /\ gf_internal_StatusCode_Bytes (Z.of_N real) = map Z.of_N (status_bytes real).
Proof. intro H. split; [apply gen_close_class_is|apply gen_status_bytes_is]; exact H. Qed.

Lemma truncate_from_source (b : list N) :
  truncate_body b = (if gf_gws_Conn_writeClose_cond1 (Z.of_nat (length b)) then firstn 125 b else b)
  /\ gf_gws_Conn_writeClose_nconds = 1%nat.
Proof.
  split; [|reflexivity]. unfold truncate_body, gf_gws_Conn_writeClose_cond1. change (Z.to_nat internal_ThresholdV1) with 125%nat.
  destruct (Z.of_nat (length b) >? 125) eqn:E; [reflexivity|]. apply firstn_all2. lia.
Qed.

(* slideWindow.Write: the four branch conditions, in order *)
