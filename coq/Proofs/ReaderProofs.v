(* Facts about the reader model: accessor semantics, parse of an encoded frame, no panic, termination,
   size limit.  Refinement of the RFC receive automaton is in Proofs/ReaderRefine.v. *)
From Gws Require Import Lib.Base Spec.MaskSpec Spec.Rfc6455 Model.Mask Model.Header Model.Pool Model.CloseCode Model.Reader
  Gen.Consts Proofs.MaskProofs Proofs.FrameProofs.
Local Open Scope N_scope.
Ltac Zify.zify_post_hook ::= Z.div_mod_to_equations.

(* ---- the Go accessors (uint8 shifts) mean what the RFC decoder reads: finite sweep over all 256 byte values *)
Definition acc_ok_b0 (b0 : N) : bool :=
  Bool.eqb (get_fin b0) (128 <=? b0) && Bool.eqb (get_rsv1 b0) (N.testbit b0 6) && Bool.eqb (get_rsv2 b0) (N.testbit b0 5)
  && Bool.eqb (get_rsv3 b0) (N.testbit b0 4) && (get_opcode b0 =? b0 mod 16).
Definition acc_ok_b1 (b1 : N) : bool :=
  Bool.eqb (get_mask b1) (128 <=? b1) && (get_lencode b1 =? b1 mod 128).

Lemma bytes_sweep (P : N -> bool) : forallb P (map N.of_nat (seq 0 256)) = true -> forall b, b < 256 -> P b = true.
Proof.
  intros F b Hb. rewrite forallb_forall in F. apply F.
  apply in_map_iff. exists (N.to_nat b). split; [lia|]. apply in_seq. lia.
Qed.

Lemma acc_b0 b0 : b0 < 256 ->
  get_fin b0 = (128 <=? b0) /\ get_rsv1 b0 = N.testbit b0 6 /\ get_rsv2 b0 = N.testbit b0 5
  /\ get_rsv3 b0 = N.testbit b0 4 /\ get_opcode b0 = b0 mod 16.
Proof.
  intro H. assert (A : acc_ok_b0 b0 = true) by (apply bytes_sweep; [vm_compute; reflexivity|exact H]).
  unfold acc_ok_b0 in A. rewrite !andb_true_iff in A. destruct A as ((((A1 & A2) & A3) & A4) & A5).
  apply Bool.eqb_prop in A1, A2, A3, A4. apply N.eqb_eq in A5. auto.
Qed.

Lemma acc_b1 b1 : b1 < 256 -> get_mask b1 = (128 <=? b1) /\ get_lencode b1 = b1 mod 128.
Proof.
  intro H. assert (A : acc_ok_b1 b1 = true) by (apply bytes_sweep; [vm_compute; reflexivity|exact H]).
  unfold acc_ok_b1 in A. rewrite andb_true_iff in A. destruct A as (A1 & A2).
  apply Bool.eqb_prop in A1. apply N.eqb_eq in A2. auto.
Qed.

(* ---- read_n *)
Lemma read_n_app {k} (a b : list N) : k = length a -> read_n k (a ++ b) = inl (Some (a, b)).
Proof.
  intros ->. unfold read_n. rewrite app_length.
  replace (length a <=? length a + length b)%nat with true by (symmetry; apply Nat.leb_le; lia).
  rewrite firstn_app_exact, skipn_app_exact by reflexivity. reflexivity.
Qed.

Lemma read_n_ok k bs x r : read_n k bs = inl (Some (x, r)) -> bs = x ++ r /\ length x = k.
Proof.
  unfold read_n. destruct (k <=? length bs)%nat eqn:E; [|discriminate].
  intro H. injection H as <- <-. apply Nat.leb_le in E. split; [symmetry; apply firstn_skipn|].
  rewrite firstn_length. lia.
Qed.

Lemma read_n_not_none k bs : read_n k bs <> inl None.
Proof. unfold read_n. destruct (k <=? length bs)%nat; discriminate. Qed.

(* ---- parse_header: structure of a successful parse *)
Lemma parse_header_ok bs h rest : parse_header bs = POk h rest ->
  exists hb, bs = hb ++ rest /\ (2 <= length hb)%nat /\ (if get_mask (h_b1 h) then length (h_key h) = 4%nat else h_key h = []).
Proof.
  unfold parse_header. destruct (read_n 2 bs) as [[[x r]|]|p] eqn:E0; try discriminate.
  destruct (read_n_ok _ _ _ _ E0) as (-> & Hx).
  destruct x as [|b0 [|b1 [|? ?]]]; try discriminate.
  set (lc := get_lencode b1).
  destruct (lc =? 126) eqn:E126.
  - destruct (read_n 2 r) as [[[l r']|]|p] eqn:E1; try discriminate.
    destruct (read_n_ok _ _ _ _ E1) as (-> & Hl).
    destruct (get_mask b1) eqn:Em.
    + destruct (read_n 4 r') as [[[k r2]|]|p] eqn:E2; try discriminate.
      destruct (read_n_ok _ _ _ _ E2) as (-> & Hk).
      intro H. injection H as <- <-. cbn [h_b1 h_key]. rewrite Em.
      exists ([b0; b1] ++ l ++ k). rewrite <- !app_assoc. split; [reflexivity|]. split; [cbn; lia|exact Hk].
    + intro H. injection H as <- <-. cbn [h_b1 h_key]. rewrite Em.
      exists ([b0; b1] ++ l). rewrite <- !app_assoc. split; [reflexivity|]. split; [cbn; lia|reflexivity].
  - destruct (lc =? 127) eqn:E127.
    + destruct (read_n 8 r) as [[[l r']|]|p] eqn:E1; try discriminate.
      destruct (read_n_ok _ _ _ _ E1) as (-> & Hl).
      destruct (get_mask b1) eqn:Em.
      * destruct (read_n 4 r') as [[[k r2]|]|p] eqn:E2; try discriminate.
        destruct (read_n_ok _ _ _ _ E2) as (-> & Hk).
        intro H. injection H as <- <-. cbn [h_b1 h_key]. rewrite Em.
        exists ([b0; b1] ++ l ++ k). rewrite <- !app_assoc. split; [reflexivity|]. split; [cbn; lia|exact Hk].
      * intro H. injection H as <- <-. cbn [h_b1 h_key]. rewrite Em.
        exists ([b0; b1] ++ l). rewrite <- !app_assoc. split; [reflexivity|]. split; [cbn; lia|reflexivity].
    + destruct (get_mask b1) eqn:Em.
      * destruct (read_n 4 r) as [[[k r2]|]|p] eqn:E2; try discriminate.
        destruct (read_n_ok _ _ _ _ E2) as (-> & Hk).
        intro H. injection H as <- <-. cbn [h_b1 h_key]. rewrite Em.
        exists ([b0; b1] ++ k). rewrite <- !app_assoc. split; [reflexivity|]. split; [cbn; lia|exact Hk].
      * intro H. injection H as <- <-. cbn [h_b1 h_key]. rewrite Em.
        exists [b0; b1]. split; [reflexivity|]. split; [cbn; lia|reflexivity].
Qed.

(* ---- BufferPool.Get: for requests up to 2^31 the buffer is large enough *)
Lemma lor_ge_l a b : a <= N.lor a b.
Proof.
  assert (E : N.lor a b = a + N.ldiff b a).
  { rewrite N.add_nocarry_lxor.
    - rewrite N.lxor_lor.
      + apply N.bits_inj. intro n. rewrite !N.lor_spec, N.ldiff_spec. destruct (N.testbit a n), (N.testbit b n); reflexivity.
      + apply N.bits_inj. intro n. rewrite N.land_spec, N.ldiff_spec, N.bits_0. destruct (N.testbit a n), (N.testbit b n); reflexivity.
    - apply N.bits_inj. intro n. rewrite N.land_spec, N.ldiff_spec, N.bits_0. destruct (N.testbit a n), (N.testbit b n); reflexivity. }
  rewrite E. lia.
Qed.

Lemma lor_lt_pow2 a b k : a < 2 ^ k -> b < 2 ^ k -> N.lor a b < 2 ^ k.
Proof.
  intros Ha Hb.
  destruct (N.eq_dec k 0) as [->|Hk].
  { cbn in *. assert (a = 0) by lia. assert (b = 0) by lia. subst. cbn. lia. }
  destruct (N.eq_dec (N.lor a b) 0) as [E|E]; [rewrite E; apply N.neq_0_lt_0, N.pow_nonzero; discriminate|].
  apply N.log2_lt_pow2; [lia|]. rewrite N.log2_lor.
  apply N.max_lub_lt.
  - destruct (N.eq_dec a 0) as [->|]; [cbn; lia|apply N.log2_lt_pow2; lia].
  - destruct (N.eq_dec b 0) as [->|]; [cbn; lia|apply N.log2_lt_pow2; lia].
Qed.

Lemma shiftr_lt_pow2 a s k : a < 2 ^ k -> N.shiftr a s < 2 ^ k.
Proof.
  intro H. rewrite N.shiftr_div_pow2.
  eapply N.le_lt_trans; [|exact H]. apply N.div_le_upper_bound; [apply N.pow_nonzero; discriminate|].
  assert (1 <= 2 ^ s) by (pose proof (N.pow_nonzero 2 s); lia). nia.
Qed.

Lemma binary_ceil_ge v : 1 <= v -> v <= 2 ^ 31 -> v <= binary_ceil v.
Proof.
  intros H1 H2. unfold binary_ceil.
  replace ((v + (2 ^ 32 - 1)) mod 2 ^ 32) with (v - 1).
  2:{ replace (v + (2 ^ 32 - 1)) with ((v - 1) + 1 * 2 ^ 32) by lia. rewrite N.mod_add by discriminate.
      rewrite N.mod_small; [reflexivity|]. change (2 ^ 31) with 2147483648 in H2. change (2 ^ 32) with 4294967296. lia. }
  set (x0 := v - 1).
  assert (Hx0 : x0 < 2 ^ 31) by (subst x0; lia).
  set (x1 := N.lor x0 (N.shiftr x0 1)).
  set (x2 := N.lor x1 (N.shiftr x1 2)).
  set (x3 := N.lor x2 (N.shiftr x2 4)).
  set (x4 := N.lor x3 (N.shiftr x3 8)).
  set (x5 := N.lor x4 (N.shiftr x4 16)).
  assert (L1 : x0 <= x1 /\ x1 < 2 ^ 31) by (subst x1; split; [apply lor_ge_l|apply lor_lt_pow2; [|apply shiftr_lt_pow2]; assumption]).
  assert (L2 : x1 <= x2 /\ x2 < 2 ^ 31) by (subst x2; split; [apply lor_ge_l|apply lor_lt_pow2; [|apply shiftr_lt_pow2]; tauto]).
  assert (L3 : x2 <= x3 /\ x3 < 2 ^ 31) by (subst x3; split; [apply lor_ge_l|apply lor_lt_pow2; [|apply shiftr_lt_pow2]; tauto]).
  assert (L4 : x3 <= x4 /\ x4 < 2 ^ 31) by (subst x4; split; [apply lor_ge_l|apply lor_lt_pow2; [|apply shiftr_lt_pow2]; tauto]).
  assert (L5 : x4 <= x5 /\ x5 < 2 ^ 31) by (subst x5; split; [apply lor_ge_l|apply lor_lt_pow2; [|apply shiftr_lt_pow2]; tauto]).
  rewrite N.mod_small.
  - subst x0. lia.
  - change (2 ^ 31) with 2147483648 in *. change (2 ^ 32) with 4294967296. lia.
Qed.

Lemma pool_cap_ge (n : Z) : (1 <= n <= 2 ^ 31)%Z -> (n <= pool_cap n)%Z.
Proof.
  intro H. unfold pool_cap.
  destruct (Z.max _ _ <=? pool_end)%Z; [|lia].
  assert (E : u32_of_int n = Z.to_N n).
  { unfold u32_of_int. rewrite Z.mod_small; [reflexivity|]. change (2 ^ 31)%Z with 2147483648%Z in H. change (2 ^ 32)%Z with 4294967296%Z. lia. }
  rewrite E.
  assert (B : Z.to_N n <= binary_ceil (Z.to_N n)).
  { apply binary_ceil_ge; [lia|]. change (2 ^ 31) with 2147483648. change (2 ^ 31)%Z with 2147483648%Z in H. lia. }
  lia.
Qed.

(* ------------------------------------------------------------------------------------------ *)
Section Safety.
Variable utf8_valid : list N -> bool.
Variable inflate : list N -> list N -> Z -> option (list N).
Variable W : Type.
Variable wdict : W -> list N.
Variable wwrite : W -> list N -> W.
(* the inflater is used through limitReader: whatever it returns is within the limit (compress.go:89-92) *)
Hypothesis inflate_limited : forall d s l out, inflate d s l = Some out -> (Z.of_nat (length out) <= l)%Z.

Notation read_message := (read_message utf8_valid inflate W wdict wwrite).
Notation read_control := (read_control utf8_valid W).
Notation emit_message := (emit_message utf8_valid inflate W wdict wwrite).
Notation read_stream := (read_stream utf8_valid inflate W wdict wwrite).

(* 0 <= limit, and limit + 9 fits the uint32 size arithmetic of BufferPool.Get (finding D12 otherwise) *)
Definition limit_ok (c : rcfg) : Prop := (0 <= r_limit c /\ r_limit c + 9 <= 2 ^ 31)%Z.

Definition ev_small (c : rcfg) (e : event) : Prop :=
  match e with
  | EvMsg _ p => (Z.of_nat (length p) <= r_limit c)%Z
  | EvPing p | EvPong p => (length p <= 125)%nat
  end.

Definition step_safe (c : rcfg) (bs : list N) (s : step W) : Prop :=
  match s with
  | SCont _ evs st' rest => (length rest < length bs)%nat /\ wf_bytes rest /\ Forall (ev_small c) evs
  | SStop _ evs o => o <> OPanic W /\ o <> OFuel W /\ Forall (ev_small c) evs
  end.

Lemma emit_message_safe c st op data comp rest bs :
  (Z.of_nat (length data) <= r_limit c)%Z -> (length rest < length bs)%nat -> wf_bytes rest ->
  step_safe c bs (emit_message c st op data comp rest).
Proof.
  intros Hd Hr Hw. unfold emit_message.
  destruct comp.
  - destruct (inflate _ _ _) as [out|] eqn:Ei.
    + destruct (check_enc _ _ _ _); cbn; repeat split; try discriminate; auto.
      constructor; [|constructor]. cbn. eapply inflate_limited; exact Ei.
    + cbn. repeat split; try discriminate. constructor.
  - destruct (check_enc _ _ _ _); cbn; repeat split; try discriminate; auto.
Qed.

Lemma unmask_some masked key p : (masked = true -> length key = 4%nat) -> wf_bytes key -> wf_bytes p ->
  exists q, unmask masked key p = Some q /\ length q = length p.
Proof.
  intros Hk Hkw Hp. unfold unmask. destruct masked.
  - rewrite mask_impl_eq_spec by auto. eexists. split; [reflexivity|]. apply mask_from_length.
  - eexists. split; reflexivity.
Qed.

Lemma wf_app_inv (a b : list N) : wf_bytes (a ++ b) -> wf_bytes a /\ wf_bytes b.
Proof. intro H. apply Forall_app in H. exact H. Qed.

Lemma read_control_safe c st h rest bs :
  wf_bytes rest -> wf_bytes (h_key h) -> (if get_mask (h_b1 h) then length (h_key h) = 4%nat else h_key h = []) ->
  (length rest < length bs)%nat ->
  step_safe c bs (read_control c st h rest).
Proof.
  intros Hw Hkw Hk Hr. unfold Reader.read_control.
  destruct (negb (get_fin (h_b0 h))); [cbn; repeat split; try discriminate; constructor|].
  destruct (thresholdV1 <? get_lencode (h_b1 h)) eqn:En; [cbn; repeat split; try discriminate; constructor|].
  apply N.ltb_ge in En. change thresholdV1 with 125 in En.
  set (n := get_lencode (h_b1 h)) in *.
  assert (Hrd : forall raw rest', (if 0 <? n then read_n (N.to_nat n) rest else inl (Some ([], rest))) = inl (Some (raw, rest')) ->
            rest = raw ++ rest' /\ length raw = N.to_nat n).
  { intros raw rest'. destruct (0 <? n) eqn:E0.
    - apply read_n_ok.
    - intro H. injection H as <- <-. apply N.ltb_ge in E0. split; [reflexivity|]. replace n with 0 by lia. reflexivity. }
  destruct (if 0 <? n then read_n (N.to_nat n) rest else inl (Some ([], rest))) as [[[raw rest']|]|p] eqn:Erd.
  - destruct (Hrd _ _ eq_refl) as (-> & Hl). apply wf_app_inv in Hw as (Hraw & Hrest').
    assert (Hu : exists payload, (if 0 <? n then unmask (get_mask (h_b1 h)) (h_key h) raw else Some raw) = Some payload
                                 /\ length payload = length raw).
    { destruct (0 <? n); [|eexists; split; reflexivity].
      apply unmask_some; try assumption. intro Em. rewrite Em in Hk. exact Hk. }
    destruct Hu as (payload & -> & Hpl).
    assert (Hsmall : (length payload <= 125)%nat) by lia.
    assert (Hlen : (length rest' < length bs)%nat) by (rewrite app_length in Hr; lia).
    destruct (_ =? Z.to_N gws_OpcodePing); [cbn; repeat split; auto; repeat constructor; exact Hsmall|].
    destruct (_ =? Z.to_N gws_OpcodePong); [cbn; repeat split; auto; repeat constructor; exact Hsmall|].
    destruct (_ =? Z.to_N gws_OpcodeCloseConnection).
    + destruct (emit_close _ _ _) as [[code reason] reply]. cbn. repeat split; try discriminate. constructor.
    + cbn. repeat split; try discriminate. constructor.
  - exfalso. destruct (0 <? n); [eapply read_n_not_none; exact Erd|discriminate].
  - cbn. repeat split; try discriminate. constructor.
Qed.

Theorem read_message_safe c st bs :
  wf_bytes bs -> limit_ok c -> step_safe c bs (read_message c st bs).
Proof.
  intros Hw (Hl0 & Hl1). unfold Reader.read_message.
  destruct (parse_header bs) as [h rest|p] eqn:Ep; [|cbn; repeat split; try discriminate; constructor].
  destruct (parse_header_ok _ _ _ Ep) as (hb & -> & Hhb & Hkey).
  apply wf_app_inv in Hw as (Hhbw & Hrest).
  assert (Hkw : wf_bytes (h_key h)).
  { (* the key bytes are part of the header bytes *)
    clear - Ep Hhbw Hrest. unfold parse_header in Ep.
    assert (Hall : wf_bytes (hb ++ rest)) by (apply Forall_app; split; assumption).
    revert Ep. generalize (hb ++ rest) Hall. clear. intros bs Hall.
    destruct (read_n 2 bs) as [[[x r]|]|p] eqn:E0; try discriminate.
    destruct (read_n_ok _ _ _ _ E0) as (-> & _). apply wf_app_inv in Hall as (_ & Hr).
    destruct x as [|b0 [|b1 [|? ?]]]; try discriminate.
    assert (K : forall r1, wf_bytes r1 -> forall plen,
              (if get_mask b1 then match read_n 4 r1 with
                                   | inl (Some (k, r2)) => POk {| h_b0 := b0; h_b1 := b1; h_len := plen; h_key := k |} r2
                                   | inl None => PEof true | inr p => PEof p end
               else POk {| h_b0 := b0; h_b1 := b1; h_len := plen; h_key := [] |} r1) = POk h rest -> wf_bytes (h_key h)).
    { intros r1 Hr1 plen. destruct (get_mask b1).
      - destruct (read_n 4 r1) as [[[k r2]|]|p] eqn:E2; try discriminate.
        destruct (read_n_ok _ _ _ _ E2) as (-> & _). apply wf_app_inv in Hr1 as (Hk & _).
        intro H. injection H as <- _. exact Hk.
      - intro H. injection H as <- _. constructor. }
    destruct (get_lencode b1 =? 126).
    - destruct (read_n 2 r) as [[[l r']|]|p] eqn:E1; try discriminate.
      destruct (read_n_ok _ _ _ _ E1) as (-> & _). apply wf_app_inv in Hr as (_ & Hr'). apply K. exact Hr'.
    - destruct (get_lencode b1 =? 127).
      + destruct (read_n 8 r) as [[[l r']|]|p] eqn:E1; try discriminate.
        destruct (read_n_ok _ _ _ _ E1) as (-> & _). apply wf_app_inv in Hr as (_ & Hr'). apply K. exact Hr'.
      + apply K. exact Hr. }
  assert (Hrl : (length rest < length (hb ++ rest))%nat) by (rewrite app_length; lia).
  destruct ((h_len h <? 0)%Z || (h_len h >? r_limit c)%Z) eqn:Esz; [cbn; repeat split; try discriminate; constructor|].
  apply orb_false_iff in Esz as (Esz0 & Esz1).
  destruct (get_rsv2 _ || get_rsv3 _ || _); [cbn; repeat split; try discriminate; constructor|].
  destruct (_ && negb (get_mask _) || _); [cbn; repeat split; try discriminate; constructor|].
  destruct (r_pmd c && get_rsv1 (h_b0 h) && _); [cbn; repeat split; try discriminate; constructor|].
  destruct (negb (is_data_op _)).
  { apply read_control_safe; assumption. }
  destruct (pool_cap (h_len h + 9) <? h_len h)%Z eqn:Ecap.
  { exfalso. assert (h_len h + 9 <= pool_cap (h_len h + 9))%Z by (apply pool_cap_ge; lia). lia. }
  destruct (read_n (Z.to_nat (h_len h)) rest) as [[[raw rest']|]|p] eqn:Erd.
  2:{ exfalso. eapply read_n_not_none; exact Erd. }
  2:{ cbn. repeat split; try discriminate. constructor. }
  destruct (read_n_ok _ _ _ _ Erd) as (-> & Hrawl). apply wf_app_inv in Hrest as (Hraw & Hrest').
  destruct (unmask_some (get_mask (h_b1 h)) (h_key h) raw) as (p & -> & Hpl); try assumption.
  { intro Em. rewrite Em in Hkey. exact Hkey. }
  assert (Hlen' : (length rest' < length (hb ++ raw ++ rest'))%nat) by (rewrite !app_length; lia).
  assert (Hp : (Z.of_nat (length p) <= r_limit c)%Z) by lia.
  destruct (negb (get_opcode (h_b0 h) =? 0) && cf_init _ st); [cbn; repeat split; try discriminate; constructor|].
  destruct (get_fin (h_b0 h) && negb (get_opcode (h_b0 h) =? 0)).
  { apply emit_message_safe; assumption. }
  match goal with |- context [negb (cf_init _ ?s)] => destruct (negb (cf_init _ s)) end;
    [cbn; repeat split; try discriminate; constructor|].
  match goal with |- context [(Z.of_nat (length ?b) >? r_limit c)%Z] => destruct (Z.of_nat (length b) >? r_limit c)%Z eqn:Eb end;
    [cbn; repeat split; try discriminate; constructor|].
  destruct (negb (get_fin (h_b0 h))).
  - cbn. repeat split; auto.
  - apply emit_message_safe; try assumption. cbn [cf_buf]. lia.
Qed.

(* the read loop on any finite byte string: never panics, never runs out of fuel |bs|+1 (every iteration consumes at
   least two bytes), and every delivered message is within the read limit *)
Theorem read_stream_safe c : limit_ok c -> forall fuel st bs,
  wf_bytes bs -> (length bs < fuel)%nat ->
  let '(evs, o) := read_stream fuel c st bs in
  o <> OPanic W /\ o <> OFuel W /\ Forall (ev_small c) evs.
Proof.
  intros Hc. induction fuel as [|f IH]; intros st bs Hw Hf; [lia|].
  cbn [Reader.read_stream].
  pose proof (read_message_safe c st bs Hw Hc) as Hs.
  destruct (read_message c st bs) as [evs st' rest|evs o]; cbn in Hs.
  - destruct Hs as (Hlt & Hrw & Hev).
    specialize (IH st' rest Hrw ltac:(lia)).
    destruct (read_stream f c st' rest) as [evs' o']. destruct IH as (I1 & I2 & I3).
    repeat split; auto. apply Forall_app; split; assumption.
  - exact Hs.
Qed.
End Safety.
