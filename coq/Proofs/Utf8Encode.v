(* C16 lemmas, part 2: RFC 3629 => validator.  The encoding of every Unicode scalar value is consumed by
   valid_s. *)
From Gws Require Import Lib.Base Model.Utf8 Spec.Rfc3629 Proofs.Utf8Loop Proofs.Utf8Digits.
Local Open Scope N_scope.

(* ---------------------------------------------------------------------------------------------- *)
(* RFC => model: the encoding of a scalar value is consumed by the validator *)
Lemma valid_s_encode cp rest : scalar cp -> valid_s (utf8_encode cp ++ rest) = valid_s rest.
Proof.
  intros [Hmax Hsur]. unfold utf8_encode.
  destruct (N.leb_spec cp 0x7F) as [H1|H1].
  { cbn [app valid_s]. bdec. reflexivity. }
  destruct (N.leb_spec cp 0x7FF) as [H2|H2].
  { destruct (split2 cp) as (a & b & Hb & E). subst cp.
    destruct (digits2 a b Hb) as [Ea Eb]. cbv zeta in Ea, Eb. rewrite Ea, Eb.
    cbn [app valid_s]. unfold in_rng, cont, in_rng. bdec. reflexivity. }
  destruct (N.leb_spec cp 0xFFFF) as [H3|H3].
  { destruct (split3 cp) as (a & b & c & Hb & Hc & E). subst cp.
    destruct (digits3 a b c Hb Hc) as (Ea & Eb & Ec). cbv zeta in Ea, Eb, Ec. rewrite Ea, Eb, Ec.
    cbn [app valid_s]. unfold in_rng, cont, in_rng. bdec; reflexivity. }
  destruct (split4 cp) as (a & b & c & d & Hb & Hc & Hd & E). subst cp.
  destruct (digits4 a b c d Hb Hc Hd) as (Ea & Eb & Ec & Ed). cbv zeta in Ea, Eb, Ec, Ed.
  rewrite Ea, Eb, Ec, Ed.
  cbn [app valid_s]. unfold in_rng, cont, in_rng. bdec; reflexivity.
Qed.

Lemma valid_s_encode_all : forall cps, Forall scalar cps -> valid_s (concat (map utf8_encode cps)) = true.
Proof.
  induction cps as [|cp cps IH]; intro H; [reflexivity|].
  inversion H; subst. cbn [map concat]. rewrite valid_s_encode by assumption. apply IH. assumption.
Qed.
