(* ToBinaryNumber (shard count) and the shard index of GetSharding (session_storage.go, internal/utils.go) *)
From Gws Require Import Lib.Base Spec.Rfc6455 Gen.Consts Gen.Funcs Proofs.GenBase.
From Coq Require Import ZifyN ZifyNat ZifyBool.
Local Open Scope Z_scope.
From Gws Require Import Model.ShardMap.

(* ToBinaryNumber: the model's to_binary_number.  Both are fuelled doubling loops (200 rounds generated, 64 in the
   model); with the same fuel they agree step by step, and 64 rounds already suffice for every n <= 2^64. *)
Lemma tb_loop_same_fuel n : forall f x,
  gf_loop f (fun st => st <? Z.of_N n) (fun st => st * 2) (Z.of_N x) = Z.of_N (to_binary_from f x n).
Proof.
  induction f as [|f IH]; intro x; cbn [gf_loop to_binary_from]; [reflexivity|].
  replace (Z.of_N x <? Z.of_N n) with (x <? n)%N by (destruct (N.ltb_spec x n), (Z.ltb_spec (Z.of_N x) (Z.of_N n)); lia).
  destruct (x <? n)%N; [|reflexivity].
  replace (Z.of_N x * 2) with (Z.of_N (2 * x)) by lia. apply IH.
Qed.

Lemma tb_fuel_enough n : forall f k x, (n <= x * 2 ^ N.of_nat f)%N -> to_binary_from (f + k) x n = to_binary_from f x n.
Proof.
  induction f as [|f IH]; intros k x H.
  - cbn [Nat.add to_binary_from]. destruct k as [|k]; cbn [to_binary_from]; [reflexivity|].
    replace (x <? n)%N with false; [reflexivity|]. symmetry. apply N.ltb_ge. cbn in H. lia.
  - cbn [Nat.add to_binary_from]. destruct (x <? n)%N; [|reflexivity]. apply IH.
    replace (N.of_nat (S f)) with (N.succ (N.of_nat f)) in H by lia. rewrite N.pow_succ_r' in H. lia.
Qed.

Lemma gen_ToBinaryNumber_is n : (n <= 65536)%N -> gf_internal_ToBinaryNumber (Z.of_N n) = Z.of_N (to_binary_number n).
Proof.
  intro H. unfold gf_internal_ToBinaryNumber, to_binary_number. cbv zeta.
  change 1 with (Z.of_N 1).
  rewrite (tb_loop_same_fuel n 200 1). apply (f_equal Z.of_N).
  change 200%nat with (64 + 136)%nat. apply tb_fuel_enough.
  assert (2 ^ 16 <= 2 ^ N.of_nat 64)%N by (apply N.pow_le_mono_r; lia). change (2 ^ 16)%N with 65536%N in *. lia.
Qed.

(* ---- ConcurrentMap.GetSharding: the shard index `hashCode & (c.num - 1)` ---- *)
Lemma gen_shard_index_is (hash : N -> N) num k : (1 <= num < 2 ^ 64)%N ->
  Z.to_nat (gf_gws_ConcurrentMap_GetSharding_index (Z.of_N num) (Z.of_N (hash k))) = cm_index hash num k.
Proof.
  intro H. unfold gf_gws_ConcurrentMap_GetSharding_index, cm_index.
  replace (Z.of_N num - 1) with (Z.of_N (num - 1)) by lia.
  rewrite Z.mod_small by (split; [lia|]; change (2 ^ 64) with (Z.of_N (2 ^ 64)); lia).
  rewrite <- of_N_land. lia.
Qed.
