(* Streamed sends (WriteFile) end to end: the frame sequence the write path produces for a reader-fed message
   (Proofs/WriterProofs.v: file_frames, for the plain path the output of split_reader, for the compressed path the
   frames built from flateWriter's segments), read by the reader model, is ONE message whose payload is the
   concatenation of what the reader returned (plain) / the inflation of the compressor's output (compressed). *)
From Gws Require Import Lib.Base Spec.Rfc6455 Spec.Rfc6455Recv Model.Header Model.CloseCode Model.Writer Model.Reader Model.Window Model.EndToEnd.
From Gws Require Import Proofs.FrameProofs Proofs.WriterProofs Proofs.ReaderProofs Proofs.ReaderRefine Proofs.FragmentProofs.
Local Open Scope N_scope.

Section Stream.
Variable utf8_valid : list N -> bool.
Variable inflate : list N -> list N -> Z -> option (list N).
Variable W : Type.
Variable wdict : W -> list N.
Variable wwrite : W -> list N -> W.

Notation recv_frames := (Rfc6455Recv.recv_frames utf8_valid inflate W wdict wwrite).
Notation complete := (Rfc6455Recv.complete utf8_valid inflate W wdict wwrite).
Notation read_stream := (Reader.read_stream utf8_valid inflate W wdict wwrite).

Lemma out_frame_data server fin rsv1 op key p :
  out_frame server fin rsv1 op key p = data_frame (negb server) fin rsv1 op (if server then [] else key) p.
Proof. reflexivity. Qed.

Definition with_min (fs : list frame) : list (frame * bool) := map (fun f => (f, true)) fs.

(* continuation part: index >= 1, a message in progress *)
Lemma file_frames_conts c hist server pmd op mop comp : s_server c = negb server -> forall reads index keys acc,
  (0 < index)%nat -> reads_terminated reads = true ->
  (Z.of_nat (length acc) + Z.of_nat (length (reads_payload reads)) <= s_limit c)%Z ->
  recv_frames c {| s_cur := Some (mop, comp, acc); s_hist := hist |} (with_min (file_frames server pmd op index reads keys))
  = as_run W (complete c hist mop comp (acc ++ reads_payload reads)).
Proof.
  intros Hrole. induction reads as [|[p eof] rest IH]; intros index keys acc Hi Ht Hl; [discriminate|].
  cbn [file_frames with_min map reads_payload].
  replace (0 <? index)%nat with true by (symmetry; apply Nat.ltb_lt; exact Hi).
  replace (index =? 0)%nat with false by (symmetry; apply Nat.eqb_neq; lia). rewrite Bool.andb_false_r.
  rewrite out_frame_data, <- Hrole. cbn [reads_payload] in Hl.
  destruct eof.
  - rewrite app_nil_r in *. cbn [map Rfc6455Recv.recv_frames].
    rewrite (final_step utf8_valid inflate W wdict wwrite) by lia.
    destruct (complete c hist mop comp (acc ++ p)) as [vs|evs st'|b]; cbn; rewrite ?app_nil_r; reflexivity.
  - cbn [reads_terminated orb] in Ht. rewrite app_length in Hl.
    cbn [map Rfc6455Recv.recv_frames].
    rewrite (cont_step utf8_valid inflate W wdict wwrite) by lia.
    fold (with_min (file_frames server pmd op (S index) rest (tl keys))).
    rewrite (IH (S index) (tl keys) (acc ++ p)) by (try lia; try exact Ht; rewrite app_length; lia).
    rewrite <- app_assoc. destruct (complete c hist mop comp (acc ++ p ++ reads_payload rest)); reflexivity.
Qed.

Lemma single_step c hist op comp key p m :
  (op = 1 \/ op = 2) -> (comp = true -> s_pmd c = true) -> (Z.of_nat (length p) <= s_limit c)%Z ->
  Rfc6455Recv.recv_frame utf8_valid inflate W wdict wwrite c {| s_cur := None; s_hist := hist |} (data_frame (s_server c) true comp op key p) m
  = complete c hist op comp p.
Proof.
  intros Hop Hc Hl. unfold Rfc6455Recv.recv_frame.
  assert (Hv : violations W c {| s_cur := None; s_hist := hist |} (data_frame (s_server c) true comp op key p) m = []).
  { unfold violations, data_frame. cbn -[Z.of_nat]. rewrite Bool.eqb_reflx.
    assert (Hk : op_known op = true) by (destruct Hop as [-> | ->]; reflexivity).
    assert (Hnc : is_control op = false) by (destruct Hop as [-> | ->]; reflexivity).
    assert (H0 : (op =? 0) = false) by (destruct Hop as [-> | ->]; reflexivity).
    rewrite Hk, Hnc, H0. cbn [andb orb negb app]. rewrite !Bool.andb_false_r. cbn [app].
    replace (s_limit c <? Z.of_nat (length p))%Z with false by lia.
    destruct comp; [rewrite (Hc eq_refl)|]; reflexivity. }
  rewrite Hv. unfold data_frame. cbn [f_op f_fin f_rsv1 f_payload s_hist s_cur].
  replace (op =? 9) with false by (destruct Hop as [-> | ->]; reflexivity).
  replace (op =? 10) with false by (destruct Hop as [-> | ->]; reflexivity).
  replace (op =? 8) with false by (destruct Hop as [-> | ->]; reflexivity).
  replace (op =? 0) with false by (destruct Hop as [-> | ->]; reflexivity).
  reflexivity.
Qed.

(* the whole frame sequence of one streamed send, received from the idle state *)
Theorem file_frames_recv c hist server pmd op reads keys :
  s_server c = negb server -> (op = 1 \/ op = 2) -> (pmd = true -> s_pmd c = true) ->
  reads_terminated reads = true -> (Z.of_nat (length (reads_payload reads)) <= s_limit c)%Z ->
  recv_frames c {| s_cur := None; s_hist := hist |} (with_min (file_frames server pmd op 0 reads keys))
  = as_run W (complete c hist op pmd (reads_payload reads)).
Proof.
  intros Hrole Hop Hpmd Ht Hl. destruct reads as [|[p eof] rest]; [discriminate|].
  cbn [file_frames with_min map reads_payload]. cbn [Nat.ltb Nat.leb Nat.eqb]. rewrite Bool.andb_true_r.
  rewrite out_frame_data, <- Hrole. cbn [reads_payload] in Hl.
  destruct eof.
  - rewrite app_nil_r in *. cbn [map Rfc6455Recv.recv_frames].
    rewrite single_step by (auto; lia).
    destruct (complete c hist op pmd p) as [vs|evs st'|b]; cbn; rewrite ?app_nil_r; reflexivity.
  - cbn [reads_terminated orb] in Ht. rewrite app_length in Hl.
    cbn [map Rfc6455Recv.recv_frames].
    rewrite (first_step utf8_valid inflate W wdict wwrite) by (auto; lia).
    fold (with_min (file_frames server pmd op 1 rest (tl keys))).
    rewrite (file_frames_conts c hist server pmd op op pmd Hrole rest 1%nat (tl keys) p) by (try lia; exact Ht).
    destruct (complete c hist op pmd (p ++ reads_payload rest)); reflexivity.
Qed.

(* ---- the reader model on the encoded frames ---- *)
Definition frames_wire (fs : list frame) : list (lenform * frame) := map (fun f => (LShortest, f)) fs.

Lemma spec_frames_wire fs : spec_frames (frames_wire fs) = with_min fs.
Proof. unfold spec_frames, frames_wire, with_min. rewrite map_map. reflexivity. Qed.

Lemma enc_stream_wire fs : enc_stream (frames_wire fs) = concat (map (encode_frame LShortest) fs).
Proof. unfold enc_stream, frames_wire. rewrite map_map. reflexivity. Qed.

Definition reads_sendable (server : bool) (reads : list (list N * bool)) (keys : list (list N)) : Prop :=
  Forall (fun r => wf_bytes (fst r) /\ (Z.of_nat (length (fst r)) < 2 ^ 63)%Z) reads
  /\ (length reads <= length keys)%nat /\ Forall (fun k => length k = 4%nat /\ wf_bytes k) keys.

Lemma file_frames_sendable server pmd op : op < 16 -> forall reads index keys,
  reads_sendable server reads keys -> Forall sendable (frames_wire (file_frames server pmd op index reads keys)).
Proof.
  intros Hop. induction reads as [|[p eof] rest IH]; intros index keys (Hr & Hlen & Hk); [constructor|].
  cbn [file_frames frames_wire map].
  inversion Hr as [|? ? (Hp & Hn) Hr']; subst. cbn [fst] in *.
  destruct keys as [|k keys]; [cbn in Hlen; lia|]. inversion Hk as [|? ? (Hk4 & Hkw) Hk']; subst.
  constructor.
  - unfold sendable. cbn [fst snd hd]. split; [|split; [exact I|]].
    + apply out_frame_wf; try assumption. destruct (0 <? index)%nat; lia.
    + unfold out_frame. cbn [f_payload]. lia.
  - destruct eof; [constructor|]. apply IH. split; [exact Hr'|]. split; [cbn in Hlen |- *; lia|exact Hk'].
Qed.

Theorem stream_recv rc st fuel server pmd op reads keys :
  limit_ok rc -> cf_init W st = false -> r_server rc = negb server -> (op = 1 \/ op = 2) -> (pmd = true -> r_pmd rc = true) ->
  reads_terminated reads = true -> reads_sendable server reads keys ->
  (Z.of_nat (length (reads_payload reads)) <= r_limit rc)%Z ->
  let wire := concat (map (encode_frame LShortest) (file_frames server pmd op 0 reads keys)) in
  (length wire < fuel)%nat ->
  refines_run utf8_valid W rc (as_run W (complete (scfg_of rc) (r_dps W st) op pmd (reads_payload reads))) (read_stream fuel rc st wire).
Proof.
  intros Hc Hinit Hrole Hop Hpmd Ht Hs Hl wire Hf.
  assert (Hst : st_ok W st) by (unfold st_ok; rewrite Hinit; discriminate).
  assert (Hop16 : op < 16) by (destruct Hop; subst; lia).
  pose proof (read_stream_refines utf8_valid inflate W wdict wwrite rc Hc (frames_wire (file_frames server pmd op 0 reads keys)) fuel st
                (file_frames_sendable server pmd op Hop16 reads 0%nat keys Hs) Hst) as R.
  rewrite enc_stream_wire, spec_frames_wire in R. specialize (R Hf).
  assert (Habs : abs W st = {| s_cur := None; s_hist := r_dps W st |}) by (unfold abs; rewrite Hinit; reflexivity).
  rewrite Habs in R.
  rewrite (file_frames_recv (scfg_of rc) (r_dps W st) server pmd op reads keys Hrole Hop Hpmd Ht Hl) in R. exact R.
Qed.

End Stream.

(* ---- end to end ---- *)
Section StreamE2E.
Variable utf8_valid : list N -> bool.
Variable deflate_raw : list N -> list N -> list N.
Variable inflate : list N -> list N -> Z -> option (list N).

Notation read_stream := (Reader.read_stream utf8_valid inflate window sw_dict wwrite_total).

(* plain streamed send (permessage-deflate off): what split_reader writes, read by the peer, is exactly one message
   carrying the concatenation of what the io.Reader returned, in order *)
Theorem stream_fidelity_plain c rc op reads keys frs st fuel :
  r_server rc = negb (w_server c) -> w_pmd c = false -> limit_ok rc -> cf_init window st = false ->
  (op = 1 \/ op = 2) -> reads_ok c reads keys ->
  split_reader utf8_valid deflate_raw c op 0 reads keys = (frs, FOk) ->
  (Z.of_nat (length (reads_payload reads)) <= r_limit rc)%Z ->
  (r_utf8 rc && (op =? 1) && negb (utf8_valid (reads_payload reads))) = false ->
  (length (concat frs) < fuel)%nat ->
  exists st', read_stream fuel rc st (concat frs) = ([EvMsg op (reads_payload reads)], OMore window st' false).
Proof.
  intros Hrole Hpmd Hc Hinit Hop Hok Hsplit Hl Hu Hf.
  assert (Hop16 : op < 16) by (destruct Hop; subst; lia).
  destruct (split_reader_frames utf8_valid deflate_raw c op Hop16 reads 0%nat keys frs Hok Hsplit) as (-> & k & Hk & Heof & _).
  assert (Ht : reads_terminated reads = true).
  { clear -Hk Heof. revert k Hk Heof. induction reads as [|[p e] rest IH]; intros k Hk Heof; [cbn in Hk; lia|].
    cbn [reads_terminated]. destruct k as [|k]; [cbn in Heof; rewrite Heof; reflexivity|].
    cbn in Hk, Heof. rewrite (IH k) by (lia || exact Heof). apply Bool.orb_true_r. }
  assert (Hs : reads_sendable (w_server c) reads keys).
  { destruct Hok as (Hr & Hlen & Hkeys). split; [|split; assumption].
    eapply Forall_impl; [|exact Hr]. intros r (Hw & _ & Hn). split; assumption. }
  rewrite Hpmd in *.
  pose proof (stream_recv utf8_valid inflate window sw_dict wwrite_total rc st fuel (w_server c) false op reads keys
                Hc Hinit Hrole Hop ltac:(discriminate) Ht Hs Hl Hf) as R.
  unfold Rfc6455Recv.complete in R. cbn [scfg_of s_utf8] in R. rewrite Hu in R.
  destruct R as (R1 & st' & R2 & _). cbn [fst snd as_run map ev_map] in R1, R2.
  exists st'. destruct (read_stream fuel rc st _) as [evs o]. cbn [fst snd] in *. subst. reflexivity.
Qed.

(* compressed streamed send: the compressor's output for the payload (preset dictionary d = the sender's window, which
   equals the receiver's - Proofs/EndToEndProofs.v dict_is_history), cut by the flate library into ANY sequence of Write
   calls, cut again by flateWriter into segments, framed, and read by the peer: exactly one message, the payload itself *)
Hypothesis deflate_wf : forall d p, wf_bytes (deflate_raw d p).
Hypothesis H_flate : forall d p lim, (Z.of_nat (length p) <= lim)%Z ->
  inflate d (strip_tail (deflate_raw d p) ++ flate_tail9) lim = Some p.

Lemma strip_tail_wf' b : wf_bytes b -> wf_bytes (strip_tail b).
Proof. apply strip_tail_wf. Qed.

Theorem stream_fidelity_compressed rc op server payload writes segs keys st fuel :
  r_server rc = negb server -> r_pmd rc = true -> limit_ok rc -> cf_init window st = false ->
  (op = 1 \/ op = 2) ->
  concat writes = deflate_raw (sw_dict (r_dps window st)) payload ->
  fw_run {| fw_index := 0; fw_buffers := [] |} writes = Some segs ->
  (length segs <= length keys)%nat -> Forall (fun k => length k = 4%nat /\ wf_bytes k) keys ->
  (Z.of_nat (length payload) <= r_limit rc)%Z ->
  (Z.of_nat (length (strip_tail (concat writes))) <= r_limit rc)%Z ->
  (r_utf8 rc && (op =? 1) && negb (utf8_valid payload)) = false ->
  let wire := concat (map (encode_frame LShortest) (file_frames server true op 0 (seg_reads segs) keys)) in
  (length wire < fuel)%nat ->
  exists st', read_stream fuel rc st wire = ([EvMsg op payload], OMore window st' false)
              /\ r_dps window st' = wwrite_total (r_dps window st) payload.
Proof.
  intros Hrole Hpmd Hc Hinit Hop Hw Hrun Hlen Hkeys Hl Hlw Hu wire Hf.
  destruct (fw_run_shape _ _ _ Hrun) as (_ & init & lst & Hsegs & Hlst & Hinit').
  destruct (reads_payload_init init lst Hinit' Hlst) as (Hp & Ht). rewrite <- Hsegs in Hp, Ht.
  pose proof (fw_run_concat _ _ _ Hrun) as Hcat. cbn [fw_buffers] in Hcat.
  change (bufs_bytes []) with (@nil N) in Hcat. cbn [app] in Hcat. rewrite Hcat in Hp.
  assert (Hwf : wf_bytes (strip_tail (concat writes))) by (apply strip_tail_wf; rewrite Hw; apply deflate_wf).
  assert (Hs : reads_sendable server (seg_reads segs) keys).
  { split; [|split; [unfold seg_reads; rewrite map_length; exact Hlen|exact Hkeys]].
    rewrite <- Hcat in Hwf, Hlw. unfold wf_bytes in Hwf. rewrite Forall_concat in Hwf.
    clear -Hwf Hlw Hc. unfold seg_reads. rewrite Forall_map. rewrite Forall_map in Hwf.
    assert (Hb : forall x, In x segs -> (Z.of_nat (length (snd x)) <= Z.of_nat (length (concat (map snd segs))))%Z).
    { intros x Hin. clear -Hin. induction segs as [|y segs IH]; [destruct Hin|].
      cbn [map concat]. rewrite app_length. destruct Hin as [-> | Hin]; [lia|]. specialize (IH Hin). lia. }
    rewrite Forall_forall in *. intros x Hin. cbn [fst]. split; [apply Hwf; exact Hin|].
    specialize (Hb x Hin). destruct Hc as (_ & Hc). lia. }
  pose proof (stream_recv utf8_valid inflate window sw_dict wwrite_total rc st fuel server true op (seg_reads segs) keys
                Hc Hinit Hrole Hop (fun _ => Hpmd) Ht Hs) as R.
  rewrite Hp in R. specialize (R Hlw Hf).
  unfold Rfc6455Recv.complete in R. cbn [scfg_of s_utf8 s_limit] in R.
  change inflate_tail with flate_tail9 in R. rewrite Hw in R. rewrite (H_flate _ _ _ Hl) in R. rewrite Hu in R.
  destruct R as (R1 & st' & R2 & Habs). cbn [fst snd as_run map ev_map] in R1, R2, Habs.
  exists st'. split.
  - fold wire in R1, R2. destruct (read_stream fuel rc st wire) as [evs o]. cbn [fst snd] in *. subst. reflexivity.
  - unfold abs in Habs. destruct (cf_init window st'); [discriminate|]. injection Habs as Hd. exact Hd.
Qed.

End StreamE2E.
