(* the write path: the gates of genFrame, the closed test and window update of doWrite, the dictionary choice of compressData (writer.go) *)
From Gws Require Import Lib.Base Spec.Rfc6455 Gen.Consts Gen.Funcs Proofs.GenBase.
From Coq Require Import ZifyN ZifyNat ZifyBool.
Local Open Scope Z_scope.
From Gws Require Import Model.Header Model.Writer Proofs.GenHeaderProofs.

(* ---- genFrame: the gates in front of the frame construction ---- *)
Lemma gen_genFrame_conditions_are opcode n limit threshold compress server check_ok :
  gf_gws_Conn_genFrame_nconds = 4%nat
  /\ gf_gws_Conn_genFrame_cond1 check_ok (Z.of_N opcode) = ((opcode =? 1)%N && negb check_ok)
  /\ gf_gws_Conn_genFrame_cond2 limit n = (n >? limit)%Z
  /\ gf_gws_Conn_genFrame_cond3 threshold compress n (Z.of_N opcode) = (compress && is_data opcode && (n >=? threshold)%Z)
  /\ gf_gws_Conn_genFrame_cond4 server = negb server.
Proof.
  unfold gf_gws_Conn_genFrame_cond1, gf_gws_Conn_genFrame_cond2, gf_gws_Conn_genFrame_cond3, gf_gws_Conn_genFrame_cond4.
  rewrite gen_isDataFrame_is. repeat split. f_equal. lia.
Qed.

(* ---- the write path: genFrame's gates, doWrite's closed test and window update, compressData's dictionary choice,
   writeClose's truncation, slideWindow.Write's branch conditions - each model follows the conditions regenerated from
   the source ---- *)
From Gws Require Import Model.Window.

Section WriterTies.
Variable utf8_valid : list N -> bool.
Variable deflate_raw : list N -> list N -> list N.
Variable W : Type.
Variable wdict : W -> list N.
Variable wwrite : W -> list N -> W.
Notation gen_frame := (Writer.gen_frame utf8_valid deflate_raw).
Notation do_write := (Writer.do_write utf8_valid deflate_raw W wdict wwrite).
Notation compress_data := (Writer.compress_data deflate_raw).

Theorem gen_frame_from_source c op slices fc key dict :
  let payload := concat slices in
  let n := Z.of_nat (length payload) in
  gen_frame c op slices fc key dict
  = if gf_gws_Conn_genFrame_cond1 (payload_check utf8_valid (fc_check fc) op slices) (Z.of_N op) then GErrEncoding
    else if gf_gws_Conn_genFrame_cond2 (w_wlimit c) n then GErrTooLarge
    else if gf_gws_Conn_genFrame_cond3 (w_threshold c) (fc_compress fc) n (Z.of_N op) then compress_data c op payload fc key dict
    else backfill (w_server c) (generate_header (w_server c) (fc_fin fc) false op n key) key (repeat 0%N header_size ++ payload).
Proof.
  cbv zeta. unfold Writer.gen_frame, gf_gws_Conn_genFrame_cond1, gf_gws_Conn_genFrame_cond2, gf_gws_Conn_genFrame_cond3.
  rewrite gen_isDataFrame_is. replace (Z.of_N op =? 1)%Z with (op =? 1)%N by lia. reflexivity.
Qed.

Theorem do_write_from_source c closed w op slices key :
  do_write c closed w op slices key
  = if gf_gws_Conn_doWrite_cond1 closed (Z.of_N op) then (None, w, WErrClosed) else
    match gen_frame c op slices {| fc_fin := true; fc_compress := w_pmd c; fc_broadcast := false; fc_check := w_utf8 c |} key (wdict w) with
    | GFrame fr => (Some fr, (if gf_gws_Conn_doWrite_cond3 (is_compressed_frame fr) then fold_left wwrite slices w else w), WOk)
    | GErrEncoding => (None, w, WErrEncoding)
    | GErrTooLarge => (None, w, WErrTooLarge)
    | GPanic => (None, w, WPanic)
    end.
Proof.
  unfold Writer.do_write, gf_gws_Conn_doWrite_cond1, gf_gws_Conn_doWrite_cond3.
  replace (Z.of_N op =? 8)%Z with (op =? 8)%N by lia. reflexivity.
Qed.

Lemma compress_dict_from_source c op payload fc key dict :
  compress_data c op payload fc key dict
  = compress_data c op payload fc key (if gf_gws_Conn_compressData_cond1 (fc_broadcast fc) then dict else [])
  /\ gf_gws_Conn_compressData_nconds = 3%nat.
Proof.
  split; [|reflexivity]. unfold Writer.compress_data, gf_gws_Conn_compressData_cond1.
  destruct (fc_broadcast fc); reflexivity.
Qed.
End WriterTies.

(* writeClose: `if len(reason) > ThresholdV1 { reason = reason[:ThresholdV1] }` *)
