(* C20, part 2: the representation invariant and one lemma per primitive of deque.go
   (getElement, doPushBack, doPushFront, doRemove, putElement, autoReset). *)
From Gws Require Import Lib.Base Model.Deque Spec.PlainSeq Proofs.DequeSeg.

Section DequeInv.
Context {V : Type} (zero : V).

Notation elem := (elem V).
Notation dq := (dq V).
Notation seq := (seq V).
Notation template := (template zero).

(* l is linked from head to tail; the free stack holds distinct blank slots, none of them live;
   `out` = allocated slots that are neither live nor free; together they cover slots 1 .. len-1.
   Slot 0 (the sentinel) is never read, nothing is said about it - and the arena may even be empty
   (the zero-value deque), in which case l, stack and out are empty. *)
Record inv (d : dq) (l : seq) (out : list nat) : Prop := {
  i_nodup : NoDup (handles l);
  i_lseg : lseg (elems d) 0 l 0;
  i_head : head d = hd_or 0 l;
  i_tail : tail d = last_or 0 l;
  i_free_nodup : NoDup (stack d);
  i_free_blank : forall a, In a (stack d) -> a <> 0 /\ nth_error (elems d) a = Some template;
  i_disj : forall a, In a (stack d) -> ~ In a (handles l);
  i_out : forall a, In a out -> a <> 0 /\ a < length (elems d) /\ ~ In a (stack d) /\ ~ In a (handles l);
  i_cover : forall a, 0 < a < length (elems d) -> In a (stack d) \/ In a (handles l) \/ In a out
}.

Definition repr (d : dq) (l : seq) : Prop := inv d l [] /\ dlen d = Z.of_nat (length l).

Ltac dsimpl := unfold rd, wr, with_elems, with_head, with_tail, with_len, with_stack in *;
               cbn [elems head tail dlen stack] in *.

Lemma get_live (d : dq) a : a <> 0 -> a < length (elems d) -> get d a = Some (Some a).
Proof.
  intros H0 H1. unfold get.
  replace (0 <? a) with true by (symmetry; apply Nat.ltb_lt; lia).
  replace (a <? length (elems d)) with true by (symmetry; apply Nat.ltb_lt; lia). reflexivity.
Qed.

Lemma get_nil (d : dq) : get d 0 = Some None.
Proof. reflexivity. Qed.

Lemma inv_live_bound d l out a : inv d l out -> In a (handles l) -> a <> 0 /\ a < length (elems d).
Proof. intros H Ha. eapply lseg_bound; [apply (i_lseg _ _ _ H) | exact Ha]. Qed.

(* the arena changes outside the free slots, its size and the free stack stay: re-establish inv *)
Lemma inv_change d l out h' t' n' es' l' out' :
  inv d l out ->
  length es' = length (elems d) ->
  (forall b, In b (stack d) -> nth_error es' b = nth_error (elems d) b) ->
  NoDup (handles l') -> lseg es' 0 l' 0 -> h' = hd_or 0 l' -> t' = last_or 0 l' ->
  (forall b, In b (handles l') \/ In b out' <-> In b (handles l) \/ In b out) ->
  (forall b, In b out' -> ~ In b (handles l')) ->
  inv (Dq h' t' n' (stack d) es') l' out'.
Proof.
  intros [Hnd Hl Hh Ht Hfn Hfb Hdj Hout Hcv] Hlen Hsame Hnd' Hl' -> -> Hset Hout'.
  assert (Hnf : forall b, In b (handles l) \/ In b out -> b <> 0 /\ b < length (elems d) /\ ~ In b (stack d)).
  { intros b [Hb|Hb].
    - destruct (lseg_bound _ _ _ _ _ Hl Hb). repeat split; auto. intro Hs. exact (Hdj _ Hs Hb).
    - destruct (Hout _ Hb) as (? & ? & ? & ?). auto. }
  split; cbn [elems head tail dlen stack]; auto.
  - intros a Ha. destruct (Hfb _ Ha). split; auto. rewrite Hsame by auto. auto.
  - intros a Ha Hin. destruct (Hnf a) as (_ & _ & Hns); [apply Hset; auto | auto].
  - intros a Ha. destruct (Hnf a) as (H0 & H1 & Hns); [apply Hset; auto |].
    rewrite Hlen. repeat split; auto.
  - intros a Ha. rewrite Hlen in Ha. destruct (Hcv a Ha) as [H|H]; [auto|].
    right. apply Hset. exact H.
Qed.

(* ---------------------------------------------------------------- getElement *)

Definition ensure_sentinel (d : dq) : dq :=
  if (length (elems d) =? 0)%nat then with_elems d (elems d ++ [template]) else d.

Lemma inv_sentinel d l : inv d l [] ->
  inv (ensure_sentinel d) l [] /\ 0 < length (elems (ensure_sentinel d)) /\ dlen (ensure_sentinel d) = dlen d.
Proof.
  intros H. unfold ensure_sentinel. destruct (length (elems d) =? 0)%nat eqn:E.
  - apply Nat.eqb_eq in E. destruct (elems d) as [|? ?] eqn:Ees; [|discriminate].
    destruct H as [Hnd Hl Hh Ht Hfn Hfb Hdj Hout Hcv]. rewrite Ees in *.
    assert (l = []) as ->.
    { destruct l as [|x r]; [reflexivity|]. destruct Hl as (_ & He & _). destruct (fst x); discriminate. }
    assert (stack d = []) as Hs.
    { destruct (stack d) as [|a st]; [reflexivity|]. destruct (Hfb a) as [_ He]; [left; reflexivity|].
      destruct a; discriminate. }
    dsimpl. cbn. split; [|split; [lia|reflexivity]].
    split; cbn [elems head tail dlen stack]; rewrite ?Hs;
      try solve [auto | constructor | intros ? [] | cbn; intros; lia].
  - apply Nat.eqb_neq in E. split; [exact H | split; [lia | reflexivity]].
Qed.

Lemma get_element_spec d l : inv d l [] ->
  exists d1 a, get_element zero d = Some (d1, a) /\ inv d1 l [a] /\
               nth_error (elems d1) a = Some (Elem 0 a 0 zero) /\ dlen d1 = dlen d.
Proof.
  intros H0. apply inv_sentinel in H0 as (H & Hpos & Hlen).
  unfold get_element. change (if (length (elems d) =? 0)%nat then with_elems d (elems d ++ [template]) else d)
    with (ensure_sentinel d).
  rewrite <- Hlen. clear Hlen. generalize dependent (ensure_sentinel d). clear d. intros d H Hpos.
  destruct H as [Hnd Hl Hh Ht Hfn Hfb Hdj Hout Hcv].
  destruct (stack d) as [|a st] eqn:Est.
  - (* grow *)
    cbn [length Nat.ltb Nat.leb]. set (a := length (elems d)).
    assert (Hal : ~ In a (handles l)).
    { intro Hin. destruct (lseg_bound _ _ _ _ _ Hl Hin). unfold a in *. lia. }
    rewrite get_live by (dsimpl; rewrite ?app_length; cbn; unfold a; lia).
    cbn [obind]. eexists _, a. split; [reflexivity|].
    assert (Hslot : nth_error (upd (elems d ++ [template]) a (set_addr a)) a = Some (Elem 0 a 0 zero)).
    { erewrite upd_eq by apply nth_error_snoc. reflexivity. }
    dsimpl. split; [|split; [exact Hslot | reflexivity]].
    split; cbn [elems head tail dlen stack]; rewrite ?Est.
    + exact Hnd.
    + apply lseg_frame; auto. apply lseg_grow; auto.
    + exact Hh.
    + exact Ht.
    + constructor.
    + intros b [].
    + intros b [].
    + intros b [<-|[]]. rewrite upd_length, app_length. cbn. unfold a. repeat split; auto; lia.
    + intros b Hb. rewrite upd_length, app_length in Hb. cbn in Hb.
      destruct (Nat.eq_dec b a) as [->|Hne]; [right; right; left; reflexivity|].
      destruct (Hcv b) as [Hin|[Hin|[]]]; [unfold a in *; lia | destruct Hin | auto].
  - (* reuse *)
    cbn [length Nat.ltb Nat.leb stack_pop obind].
    destruct (Hfb a) as [Ha0 Hab]; [left; reflexivity|].
    assert (Hal : ~ In a (handles l)) by (apply Hdj; left; reflexivity).
    inversion Hfn as [|? ? Hast Hfn']; subst.
    rewrite get_live by (dsimpl; auto; eapply nth_error_lt; eauto).
    cbn [obind]. eexists _, a. split; [reflexivity|].
    dsimpl. split; [|split; [erewrite upd_eq by eauto; reflexivity | reflexivity]].
    split; cbn [elems head tail dlen stack].
    + exact Hnd.
    + apply lseg_frame; auto.
    + exact Hh.
    + exact Ht.
    + exact Hfn'.
    + intros b Hb. destruct (Hfb b) as [Hb0 Hbb]; [right; auto|]. split; auto.
      rewrite upd_ne by (intro; subst; auto). exact Hbb.
    + intros b Hb. apply Hdj. right; auto.
    + intros b [<-|[]]. rewrite upd_length. repeat split; auto. eapply nth_error_lt; eauto.
    + intros b Hb. rewrite upd_length in Hb.
      destruct (Hcv b Hb) as [[<-|Hin]|[Hin|[]]]; auto. right; right; left; reflexivity.
Qed.

Lemma list_eq_nil_dec' (l : seq) : {l = []} + {l <> []}.
Proof. destruct l; [left; reflexivity | right; discriminate]. Qed.

(* ---------------------------------------------------------------- a write to a detached slot *)

Lemma inv_wr_out d l a f : inv d l [a] -> inv (wr d a f) l [a].
Proof.
  intros H. pose proof H as [Hnd Hl Hh Ht Hfn Hfb Hdj Hout Hcv].
  destruct (Hout a (or_introl eq_refl)) as (Ha0 & Halt & Hans & Hanl).
  destruct d as [h t n st es]. dsimpl.
  apply (inv_change _ _ _ h t n _ l [a] H); cbn [elems stack]; auto.
  - apply upd_length.
  - intros b Hb. apply upd_ne. intro; subst; auto.
  - apply lseg_frame; auto.
  - tauto.
  - intros b [<-|[]]. auto.
Qed.

(* ---------------------------------------------------------------- doPushBack / doPushFront *)

Lemma nodup_snoc (l : seq) a v : NoDup (handles l) -> ~ In a (handles l) -> NoDup (handles (l ++ [(a, v)])).
Proof.
  intros Hnd Ha. rewrite handles_app. apply NoDup_app_iff. repeat split; auto.
  - constructor; [intros [] | constructor].
  - intros x Hx [<-|[]]. auto.
Qed.

Lemma do_push_back_spec d l a v : inv d l [a] -> nth_error (elems d) a = Some (Elem 0 a 0 v) ->
  exists d', do_push_back d a = Some d' /\ inv d' (l ++ [(a, v)]) [] /\ dlen d' = (dlen d + 1)%Z.
Proof.
  intros H Ha. pose proof H as [Hnd Hl Hh Ht Hfn Hfb Hdj Hout Hcv].
  destruct (Hout a (or_introl eq_refl)) as (Ha0 & Halt & Hans & Hanl).
  pose proof (nodup_snoc l a v Hnd Hanl) as Hnd'.
  unfold do_push_back. dsimpl. rewrite Ht.
  destruct (list_eq_nil_dec' l) as [->|Hne].
  - change (last_or 0 []) with 0. cbn [Nat.eqb]. rewrite Ha. cbn [obind eaddr].
    eexists; split; [reflexivity|]. split; [|reflexivity].
    apply (inv_change _ _ _ _ _ _ _ _ [] H); cbn [elems stack app]; auto.
    + cbn. repeat split; auto.
    + cbn. tauto.
  - set (t := last_or 0 l).
    assert (Ht0 : t <> 0) by (eapply lseg_last_ne; eauto).
    assert (Htin : In t (handles l)) by (apply last_or_in; auto).
    destruct (lseg_bound _ _ _ _ _ Hl Htin) as [_ Htlt].
    destruct (lseg_last_slot _ _ _ _ Hl Hne) as (q & w & Hts). fold t in Hts.
    assert (Hta : t <> a) by (intro; subst; auto).
    destruct (Nat.eqb_spec t 0) as [|_]; [contradiction|].
    rewrite get_live by (cbn [elems]; auto). cbn [obind]. rewrite Ha. cbn [obind eaddr].
    erewrite upd_eq by eauto. cbn [obind eaddr set_next].
    erewrite upd_eq by (rewrite upd_ne by auto; eauto). cbn [obind eaddr set_prev].
    eexists; split; [reflexivity|]. split; [|reflexivity].
    apply (inv_change _ _ _ _ _ _ _ _ [] H); cbn [elems stack]; auto.
    + rewrite !upd_length. reflexivity.
    + intros b Hb. rewrite !upd_ne; auto; intro; subst; auto. eapply Hdj; eauto.
    + apply lseg_app. split.
      * cbn [hd_or fst]. apply lseg_frame; auto. apply lseg_retarget with (n := 0); auto.
      * cbn [lseg fst snd hd_or]. repeat split; auto.
        erewrite upd_eq by (rewrite upd_ne by auto; eauto). reflexivity.
    + rewrite hd_or_app, Hh. destruct l; [congruence | reflexivity].
    + rewrite last_or_snoc. reflexivity.
    + intros b. rewrite handles_app, in_app_iff. cbn. tauto.
Qed.


Lemma do_push_front_spec d l a v : inv d l [a] -> nth_error (elems d) a = Some (Elem 0 a 0 v) ->
  exists d', do_push_front d a = Some d' /\ inv d' ((a, v) :: l) [] /\ dlen d' = (dlen d + 1)%Z.
Proof.
  intros H Ha. pose proof H as [Hnd Hl Hh Ht Hfn Hfb Hdj Hout Hcv].
  destruct (Hout a (or_introl eq_refl)) as (Ha0 & Halt & Hans & Hanl).
  assert (Hnd' : NoDup (handles ((a, v) :: l))) by (cbn; constructor; auto).
  unfold do_push_front. dsimpl. rewrite Hh.
  destruct l as [|x r].
  - cbn [hd_or Nat.eqb]. rewrite Ha. cbn [obind eaddr].
    eexists; split; [reflexivity|]. split; [|reflexivity].
    apply (inv_change _ _ _ _ _ _ _ _ [] H); cbn [elems stack]; auto.
    + cbn. repeat split; auto.
    + cbn. tauto.
  - cbn [hd_or]. set (h := fst x). pose proof Hl as (Hh0 & Hhs & Hr). fold h in Hh0, Hhs.
    assert (Hhin : In h (handles (x :: r))) by (left; reflexivity).
    destruct (lseg_bound _ _ _ _ _ Hl Hhin) as [_ Hhlt].
    assert (Hha : h <> a) by (intro; subst; auto).
    destruct (Nat.eqb_spec h 0) as [|_]; [contradiction|].
    rewrite get_live by (cbn [elems]; auto). cbn [obind]. rewrite Ha. cbn [obind eaddr].
    erewrite upd_eq by eauto. cbn [obind eaddr set_prev].
    erewrite upd_eq by (rewrite upd_ne by auto; eauto). cbn [obind eaddr set_next].
    eexists; split; [reflexivity|]. split; [|reflexivity].
    apply (inv_change _ _ _ _ _ _ _ _ [] H); cbn [elems stack]; auto.
    + rewrite !upd_length. reflexivity.
    + intros b Hb. rewrite !upd_ne; auto; intro; subst; auto. eapply Hdj; eauto.
    + change ((a, v) :: x :: r) with ([(a, v)] ++ x :: r). apply lseg_app. split.
      * cbn [lseg fst snd hd_or]. repeat split; auto.
        erewrite upd_eq by (rewrite upd_ne by auto; eauto). reflexivity.
      * change (last_or 0 [(a, v)]) with a. apply lseg_frame; auto.
        apply (lseg_resource _ 0 (x :: r) 0 a); auto. discriminate.
    + intros b. cbn. tauto.
Qed.

(* ---------------------------------------------------------------- putElement, autoReset *)

Lemma put_element_spec d l a e : inv d l [a] -> nth_error (elems d) a = Some e -> eaddr e = a ->
  exists d', put_element zero d a = Some d' /\ inv d' l [] /\ dlen d' = dlen d.
Proof.
  intros H Ha Hea. destruct H as [Hnd Hl Hh Ht Hfn Hfb Hdj Hout Hcv].
  destruct (Hout a (or_introl eq_refl)) as (Ha0 & Halt & Hans & Hanl).
  unfold put_element. dsimpl. rewrite Ha. cbn [obind]. rewrite Hea.
  eexists; split; [reflexivity|]. split; [|reflexivity].
  split; cbn [elems head tail dlen stack]; auto.
  - apply lseg_frame; auto.
  - constructor; auto.
  - intros b [<-|Hb].
    + split; auto. erewrite upd_eq by eauto. reflexivity.
    + destruct (Hfb b Hb). split; auto. rewrite upd_ne by (intro; subst; auto). auto.
  - intros b [<-|Hb]; auto.
  - intros b [].
  - intros b Hb. rewrite upd_length in Hb. destruct (Hcv b Hb) as [Hin|[Hin|[<-|[]]]]; auto.
    + left. right. auto.
    + left. left. reflexivity.
Qed.

Lemma auto_reset_spec (d : dq) : inv (auto_reset d) [] [] /\ dlen (auto_reset d) = 0%Z.
Proof.
  unfold auto_reset. split; [|reflexivity].
  split; cbn [elems head tail dlen stack]; try solve [constructor | reflexivity | intros ? []].
  intros a Ha. exfalso. destruct (1 <? length (elems d)) eqn:E.
  - rewrite firstn_length in Ha. lia.
  - apply Nat.ltb_ge in E. lia.
Qed.

(* ---------------------------------------------------------------- doRemove *)

Definition unlink_arena (es : list elem) (p n : nat) : list elem :=
  let es1 := if (p =? 0)%nat then es else upd es p (set_next n) in
  if (n =? 0)%nat then es1 else upd es1 n (set_prev p).

Lemma lseg_addr es p (l : seq) n b : lseg es p l n -> In b (handles l) ->
  exists e, nth_error es b = Some e /\ eaddr e = b.
Proof.
  revert p. induction l as [|x r IH]; intros p Hl Hb; [destruct Hb|].
  destruct Hl as (_ & He & Hr). destruct Hb as [<-|Hb]; eauto.
Qed.

Lemma last_or_indep x y (l : seq) : l <> [] -> last_or x l = last_or y l.
Proof.
  intro Hne. destruct (exists_last' l Hne) as (l' & z & ->). rewrite !last_or_snoc. reflexivity.
Qed.

Lemma hd_or_indep x y (l : seq) : l <> [] -> hd_or x l = hd_or y l.
Proof. destruct l; [congruence | reflexivity]. Qed.

Lemma unlink_facts es (l1 : seq) a v (l2 : seq) :
  NoDup (handles (l1 ++ (a, v) :: l2)) -> lseg es 0 (l1 ++ (a, v) :: l2) 0 ->
  let p := last_or 0 l1 in let n := hd_or 0 l2 in
  nth_error es a = Some (Elem p a n v) /\
  (p = 0 <-> l1 = []) /\ (n = 0 <-> l2 = []) /\
  lseg (unlink_arena es p n) 0 (l1 ++ l2) 0 /\
  nth_error (unlink_arena es p n) a = Some (Elem p a n v) /\
  length (unlink_arena es p n) = length es /\
  (forall b, b <> p -> b <> n -> nth_error (unlink_arena es p n) b = nth_error es b) /\
  NoDup (handles (l1 ++ l2)) /\ ~ In a (handles (l1 ++ l2)) /\ a <> 0.
Proof.
  intros Hnd Hl p n. rewrite handles_app in Hnd. apply NoDup_app_iff in Hnd as (Hnd1 & Hnd2 & Hdis).
  cbn [handles map fst] in Hnd2, Hdis. inversion Hnd2 as [|? ? Ha2 Hnd2']; subst.
  fold (handles l2) in Ha2, Hnd2', Hdis. fold (handles l1) in Hdis, Hnd1.
  assert (Ha1 : ~ In a (handles l1)) by (intro Hin; apply (Hdis a Hin); left; reflexivity).
  assert (Hdis12 : forall x, In x (handles l1) -> ~ In x (handles l2))
    by (intros x Hx Hx2; apply (Hdis x Hx); right; exact Hx2).
  apply lseg_app in Hl as [Hl1 Hl2]. cbn [hd_or fst] in Hl1. destruct Hl2 as (Ha0 & Hea & Hl2).
  cbn [fst snd] in Ha0, Hea, Hl2. fold p in Hea. fold n in Hea.
  assert (Hp0 : p = 0 <-> l1 = []).
  { split; [|intros ->; reflexivity]. intro Hp. destruct l1 as [|x l1']; [reflexivity|]. exfalso.
    eapply (lseg_last_ne _ _ _ _ Hl1); [discriminate | exact Hp]. }
  assert (Hn0 : n = 0 <-> l2 = []).
  { split; [|intros ->; reflexivity]. intro Hn. destruct l2 as [|x l2']; [reflexivity|]. exfalso.
    eapply (lseg_hd_ne _ _ _ _ Hl2); [discriminate | exact Hn]. }
  assert (Hpin : p <> 0 -> In p (handles l1)) by (intro H; apply last_or_in; tauto).
  assert (Hnin : n <> 0 -> In n (handles l2)) by (intro H; apply hd_or_in; tauto).
  assert (Hs1 : lseg (unlink_arena es p n) 0 l1 n).
  { unfold unlink_arena. destruct (Nat.eqb_spec p 0) as [Hp|Hp].
    - apply Hp0 in Hp. subst l1. exact I.
    - assert (H : lseg (upd es p (set_next n)) 0 l1 n) by (apply lseg_retarget with (n := a); tauto).
      destruct (Nat.eqb_spec n 0) as [Hn|Hn]; [exact H|]. apply lseg_frame; [|exact H].
      intro Hin. exact (Hdis12 _ Hin (Hnin Hn)). }
  assert (Hs2 : lseg (unlink_arena es p n) p l2 0).
  { unfold unlink_arena. destruct (Nat.eqb_spec n 0) as [Hn|Hn].
    - apply Hn0 in Hn. subst l2. exact I.
    - apply (lseg_resource _ a l2 0 p); [tauto | exact Hnd2' |].
      destruct (Nat.eqb_spec p 0) as [Hp|Hp]; [exact Hl2|]. apply lseg_frame; [|exact Hl2].
      intro Hin. exact (Hdis12 _ (Hpin Hp) Hin). }
  assert (Hother : forall b, b <> p -> b <> n -> nth_error (unlink_arena es p n) b = nth_error es b).
  { intros b Hbp Hbn. unfold unlink_arena.
    destruct (Nat.eqb_spec p 0), (Nat.eqb_spec n 0); rewrite ?upd_ne by auto; reflexivity. }
  assert (Hap : a <> p) by (intro E; destruct (Nat.eq_dec p 0); [congruence | apply Ha1; rewrite E; auto]).
  assert (Han : a <> n) by (intro E; destruct (Nat.eq_dec n 0); [congruence | apply Ha2; rewrite E; auto]).
  split; [exact Hea|]. split; [exact Hp0|]. split; [exact Hn0|].
  split; [apply lseg_app; split; [exact Hs1 | exact Hs2]|].
  split; [rewrite Hother by auto; exact Hea|].
  split. { unfold unlink_arena. destruct (Nat.eqb_spec p 0), (Nat.eqb_spec n 0); rewrite ?upd_length; reflexivity. }
  split; [exact Hother|].
  split. { rewrite handles_app. apply NoDup_app_iff. auto. }
  split; [|exact Ha0]. rewrite handles_app, in_app_iff. tauto.
Qed.

Ltac fin_unlink :=
  cbn [elems]; unfold unlink_arena;
  repeat match goal with |- context [(?x =? 0)%nat] => destruct (Nat.eqb_spec x 0) end;
  try contradiction; try congruence; try reflexivity.

Lemma do_remove_spec d (l1 : seq) a v (l2 : seq) : inv d (l1 ++ (a, v) :: l2) [] ->
  exists d' p n, do_remove d a = Some d' /\ inv d' (l1 ++ l2) [a] /\
                 nth_error (elems d') a = Some (Elem p a n v) /\ dlen d' = (dlen d - 1)%Z.
Proof.
  intros H. pose proof H as [Hnd Hl Hh Ht Hfn Hfb Hdj Hout Hcv].
  destruct (unlink_facts _ _ _ _ _ Hnd Hl) as (Hea & Hp0 & Hn0 & Hseg & Hslot & Hlen & Hother & Hnd' & Hal & Ha0).
  set (p := last_or 0 l1) in *. set (n := hd_or 0 l2) in *.
  assert (Hpin : p <> 0 -> In p (handles (l1 ++ (a, v) :: l2))).
  { intro Hp. rewrite handles_app, in_app_iff. left. apply last_or_in. tauto. }
  assert (Hnin : n <> 0 -> In n (handles (l1 ++ (a, v) :: l2))).
  { intro Hn. rewrite handles_app, in_app_iff. right. right. apply hd_or_in. tauto. }
  assert (Hgoal : forall h' t' es', es' = unlink_arena (elems d) p n ->
            h' = (if (p =? 0)%nat then n else head d) -> t' = (if (n =? 0)%nat then p else tail d) ->
            inv (Dq h' t' (dlen d - 1)%Z (stack d) es') (l1 ++ l2) [a] /\
            nth_error es' a = Some (Elem p a n v) /\ (dlen d - 1 = dlen d - 1)%Z).
  { intros h' t' es' -> -> ->. split; [|split; [exact Hslot | reflexivity]].
    apply (inv_change _ _ _ _ _ _ _ _ [a] H); auto.
    - intros b Hb. apply Hother.
      + intro E. destruct (Nat.eq_dec p 0) as [Hp|Hp]; [destruct (Hfb b Hb); congruence|].
        apply (Hdj b Hb). rewrite E. auto.
      + intro E. destruct (Nat.eq_dec n 0) as [Hn|Hn]; [destruct (Hfb b Hb); congruence|].
        apply (Hdj b Hb). rewrite E. auto.
    - destruct (Nat.eqb_spec p 0) as [Hp|Hp].
      + apply Hp0 in Hp. rewrite Hp. reflexivity.
      + rewrite Hh. destruct l1 as [|? ?]; [exfalso; apply Hp; apply Hp0; reflexivity | reflexivity].
    - destruct (Nat.eqb_spec n 0) as [Hn|Hn].
      + apply Hn0 in Hn. rewrite Hn, app_nil_r. reflexivity.
      + rewrite Ht, !last_or_app, last_or_cons. apply last_or_indep. tauto.
    - intros b. rewrite !handles_app, !in_app_iff. cbn. tauto.
    - intros b [<-|[]]. exact Hal. }
  unfold do_remove. dsimpl. rewrite Hea. cbn [obind eprev enext].
  destruct (Nat.eqb_spec p 0) as [Hp|Hp]; destruct (Nat.eqb_spec n 0) as [Hn|Hn]; cbn [negb obind].
  - (* default *)
    eexists _, p, n. split; [reflexivity|]. apply Hgoal; auto. fin_unlink.
  - (* case 2 *)
    destruct (inv_live_bound _ _ _ _ H (Hnin Hn)) as [_ Hnlt].
    destruct (lseg_addr _ _ _ _ _ Hl (Hnin Hn)) as (en & Hen & Hena).
    rewrite get_live by auto. cbn [obind]. erewrite upd_eq by eauto. cbn [obind eaddr set_prev]. rewrite Hena.
    eexists _, p, n. split; [reflexivity|]. apply Hgoal; auto. fin_unlink.
  - (* case 1 *)
    destruct (inv_live_bound _ _ _ _ H (Hpin Hp)) as [_ Hplt].
    destruct (lseg_addr _ _ _ _ _ Hl (Hpin Hp)) as (ep & Hep & Hepa).
    rewrite get_live by auto. cbn [obind]. erewrite upd_eq by eauto. cbn [obind eaddr set_next]. rewrite Hepa.
    eexists _, p, n. split; [reflexivity|]. apply Hgoal; auto. fin_unlink.
  - (* case 3 *)
    destruct (inv_live_bound _ _ _ _ H (Hpin Hp)) as [_ Hplt].
    destruct (lseg_addr _ _ _ _ _ Hl (Hpin Hp)) as (ep & Hep & Hepa).
    destruct (inv_live_bound _ _ _ _ H (Hnin Hn)) as [_ Hnlt].
    destruct (lseg_addr _ _ _ _ _ Hl (Hnin Hn)) as (en & Hen & Hena).
    rewrite !get_live by auto. cbn [obind]. rewrite Hen. cbn [obind]. rewrite Hena.
    erewrite upd_eq by eauto. cbn [obind eaddr set_next]. rewrite Hepa.
    eexists _, p, n. split; [reflexivity|]. apply Hgoal; auto. fin_unlink.
Qed.

End DequeInv.
