(* C19, concurrent layer, part 3: Len.  In every run, the value returned by a Len lies between
   (entries at its invocation - removals taking effect during it) and (entries at its invocation +
   insertions taking effect during it).  Invariant (by shards visited): count so far + sizes of the
   shards still to visit stays within these bounds. *)
From Gws Require Import Lib.Base Model.ShardMap Spec.AtomicMap Proofs.ShardMapSeq Proofs.LinProofs Proofs.ShardMapConc.

Lemma split2_snoc {A} (tr tr1 tr2 tr3 : list A) m a b :
  tr ++ [m] = tr1 ++ a :: tr2 ++ b :: tr3 ->
  (tr3 = [] /\ b = m /\ tr = tr1 ++ a :: tr2) \/ (exists tr3', tr3 = tr3' ++ [m] /\ tr = tr1 ++ a :: tr2 ++ b :: tr3').
Proof.
  intro H. replace (tr1 ++ a :: tr2 ++ b :: tr3) with ((tr1 ++ a :: tr2) ++ b :: tr3) in H
    by (rewrite <- app_assoc; reflexivity).
  apply snoc_split in H as [(-> & -> & ->)|(q' & -> & ->)].
  - left. auto.
  - right. exists q'. rewrite <- app_assoc. auto.
Qed.

Lemma app_inv_length {A} (a b a' b' : list A) x x' :
  a ++ x :: b = a' ++ x' :: b' -> length a = length a' -> a = a' /\ x = x' /\ b = b'.
Proof.
  revert a'. induction a as [|y a IH]; intros [|y' a'] H Hl; cbn in *; try discriminate.
  - inversion H; auto.
  - inversion H; subst. destruct (IH a' H2) as (-> & -> & ->); auto.
Qed.

Lemma split_at {A} (l1 : list A) x l2 :
  firstn (length l1) (l1 ++ x :: l2) = l1 /\ skipn (S (length l1)) (l1 ++ x :: l2) = l2.
Proof.
  split.
  - rewrite firstn_app, Nat.sub_diag, firstn_O, firstn_all. apply app_nil_r.
  - rewrite skipn_app_ge by lia. replace (S (length l1) - length l1) with 1 by lia. reflexivity.
Qed.

(* THE STATEMENT about a trace: every completed Len respects the bounds *)
Definition len_ok (tr : list mark) : Prop :=
  forall tr1 tr2 tr3 id t c, tr = tr1 ++ MInv id t OLen :: tr2 ++ MRes id OLen (RLen c) :: tr3 ->
    msize tr1 - dels tr2 <= c /\ c <= msize tr1 + ins tr2.

Section Len.
Variable ix : N -> nat.
Variable n : nat.
Hypothesis ix_lt : forall k, ix k < n.
Variable progs : nat -> list op.

Notation step := (step ix n).
Notation reach := (reach ix n progs).
Notation base := (base ix n).

Definition len_bounds (tr : list mark) (id c rest : nat) : Prop :=
  msize (firstn id tr) <= c + rest + dels (skipn (S id) tr) /\
  c + rest <= msize (firstn id tr) + ins (skipn (S id) tr).

Definition len_thr (tr : list mark) (M : list amap) (ts : tstate) : Prop :=
  match ts with
  | Run (Frame id OLen i stg (RLen c)) =>
      len_bounds tr id c (cm_len (skipn (match stg with Done => S i | _ => i end) M))
  | Ret id OLen (RLen c) => len_bounds tr id c 0
  | _ => True
  end.

Lemma len_bounds_mono tr l id c rest rest' :
  len_bounds tr id c rest -> id < length tr -> rest <= rest' + dels l -> rest' <= rest + ins l ->
  len_bounds (tr ++ l) id c rest'.
Proof.
  intros [H1 H2] Hid Ha Hb. unfold len_bounds.
  rewrite firstn_app_le by lia. rewrite skipn_app_le by lia. rewrite dels_app, ins_app. lia.
Qed.

Lemma len_thr_env tr M l M' ts t st :
  base st -> trace st = tr -> cur_id ts = cur_id (t_st (threads st t)) ->
  len_thr tr M ts ->
  (forall b, cm_len (skipn b M) <= cm_len (skipn b M') + dels l /\ cm_len (skipn b M') <= cm_len (skipn b M) + ins l) ->
  len_thr (tr ++ l) M' ts.
Proof.
  intros HB Htr Hc H Henv.
  destruct ts as [|[id o i stg a]|id o r]; cbn in *; auto.
  - destruct o; auto. destruct a; auto.
    assert (Hid : id < length tr) by (rewrite <- Htr; eapply (cur_id_lt ix n); eauto).
    eapply len_bounds_mono; eauto; apply Henv.
  - destruct o; auto. destruct r; auto.
    assert (Hid : id < length tr) by (rewrite <- Htr; eapply (cur_id_lt ix n); eauto).
    eapply len_bounds_mono; eauto; lia.
Qed.

Lemma len_ok_snoc tr m : len_ok tr ->
  (forall tr1 tr2 id t c, m = MRes id OLen (RLen c) -> tr = tr1 ++ MInv id t OLen :: tr2 ->
     msize tr1 - dels tr2 <= c /\ c <= msize tr1 + ins tr2) ->
  len_ok (tr ++ [m]).
Proof.
  intros H Hm tr1 tr2 tr3 id t c Heq. apply split2_snoc in Heq as [(-> & <- & ->)|(tr3' & -> & ->)].
  - eapply Hm; eauto.
  - eapply H; eauto.
Qed.

Lemma env_of_body st id o i a M' a' :
  base st -> key_shard_ok ix (Frame id o i Locked a) -> body o i (shards st) a M' a' ->
  forall b, cm_len (skipn b (shards st)) <= cm_len (skipn b M') + dels (pt_marks id o i (shards st)) /\
            cm_len (skipn b M') <= cm_len (skipn b (shards st)) + ins (pt_marks id o i (shards st)).
Proof.
  intros HB Hk Hb b. destruct (body_effect ix n ix_lt progs _ id o i a M' a' HB Hk Hb) as (_ & _ & E & _).
  destruct (E b) as [E1|E1]; [destruct (b <=? i)|]; lia.
Qed.

Lemma env_refl (M : list amap) (l : list mark) :
  forall b, cm_len (skipn b M) <= cm_len (skipn b M) + dels l /\ cm_len (skipn b M) <= cm_len (skipn b M) + ins l.
Proof. intro b. lia. Qed.

Definition len_inv (st : state) : Prop :=
  (forall t, len_thr (trace st) (shards st) (t_st (threads st t))) /\ len_ok (trace st).

Lemma len_inv_init : len_inv (init_state n progs).
Proof.
  split; cbn; [intro t; exact I|]. intros tr1 tr2 tr3 id t c H. destruct tr1; discriminate.
Qed.

Lemma step_len_inv st st' : base st -> len_inv st -> step st st' -> len_inv st'.
Proof.
  intros HB [HT HO] Hs. pose proof (B_key _ _ _ HB) as Bkey.
  inversion Hs; subst; cbn [shards trace threads locks] in *.
  - (* invoke *)
    split; cbn [shards trace threads locks].
    + intro t'. destruct (Nat.eq_dec t' t) as [->|Hne].
      * rewrite set_eq. cbn [t_st]. destruct o; cbn; auto.
        unfold len_bounds. rewrite firstn_app_le, firstn_all by lia.
        rewrite skipn_all2 by (rewrite app_length; cbn; lia). cbn.
        pose proof (B_size _ _ _ HB) as Bs. cbn [shards trace] in Bs. unfold msize. lia.
      * rewrite set_neq by auto.
        eapply (len_thr_env tr M _ M _ t' (State M L T tr)); eauto. apply env_refl.
    + apply len_ok_snoc; auto. intros; discriminate.
  - (* lock *)
    split; cbn [shards trace threads locks]; auto.
    intro t'. destruct (Nat.eq_dec t' t) as [->|Hne]; [|rewrite set_neq by auto; auto].
    rewrite set_eq. specialize (HT t). rewrite H in HT. cbn in *. exact HT.
  - (* body *)
    assert (Hk : key_shard_ok ix (Frame id o i Locked a)) by (apply (Bkey t); rewrite H; reflexivity).
    pose proof (env_of_body _ id o i a M' a' HB Hk H0) as Henv. cbn [shards] in Henv.
    split; cbn [shards trace threads locks].
    + intro t'. destruct (Nat.eq_dec t' t) as [->|Hne].
      * rewrite set_eq. specialize (HT t). rewrite H in HT. cbn [t_st len_thr] in HT. cbn [t_st].
        inversion H0; subst; cbn [len_thr pt_marks]; auto.
        rewrite app_nil_r. unfold len_bounds in *. unfold shard.
        rewrite (cm_len_skipn_S i M') in HT. lia.
      * rewrite set_neq by auto.
        eapply (len_thr_env tr M _ M' _ t' (State M L T tr)); eauto.
    + destruct o; cbn [pt_marks]; rewrite ?app_nil_r; auto; apply len_ok_snoc; auto; intros; discriminate.
  - (* unlock *)
    split; cbn [shards trace threads locks]; auto.
    intro t'. destruct (Nat.eq_dec t' t) as [->|Hne]; [|rewrite set_neq by auto; auto].
    rewrite set_eq. specialize (HT t). rewrite H in HT. cbn [t_st len_thr] in HT. cbn [t_st].
    unfold after_unlock. destruct o; cbn [len_thr]; auto.
    + destruct a; try (destruct (S i <? n); exact I).
      destruct (Nat.ltb_spec (S i) n) as [Hlt|Hge]; cbn [len_thr]; auto.
      rewrite cm_len_skipn_all in HT; auto. destruct (B_inv _ _ _ HB) as [Hl _]. cbn [shards] in Hl. lia.
    + destruct a; try exact I. destruct next; try exact I. destruct (S i <? n); exact I.
  - (* return *)
    split; cbn [shards trace threads locks].
    + intro t'. destruct (Nat.eq_dec t' t) as [->|Hne].
      * rewrite set_eq. exact I.
      * rewrite set_neq by auto.
        eapply (len_thr_env tr M _ M _ t' (State M L T tr)); eauto. apply env_refl.
    + apply len_ok_snoc; auto. intros tr1 tr2 id' t' c Heq Htr. inversion Heq; subst.
      specialize (HT t). rewrite H in HT. cbn [t_st len_thr] in HT.
      assert (Hid : id' = length tr1).
      { eapply (B_pos _ _ _ HB). cbn [trace]. apply nth_error_mid. }
      subst id'. unfold len_bounds in HT.
      destruct (split_at tr1 (MInv (length tr1) t' OLen) tr2) as [E1 E2]. rewrite E1, E2 in HT. lia.
Qed.

Lemma reach_len_inv st : reach st -> len_inv st.
Proof.
  induction 1; [apply len_inv_init|]. eapply step_len_inv; eauto. eapply reach_base; eauto.
Qed.

Theorem runs_len_bounds st : reach st -> len_ok (trace st).
Proof. intro H. apply reach_len_inv in H. apply H. Qed.

(* msize of the trace IS the number of entries of the map at that moment *)
Theorem runs_msize st : reach st -> msize (trace st) = cm_len (shards st) /\ has_size (abs (shards st)) (msize (trace st)).
Proof.
  intro H. apply (reach_base ix n ix_lt) in H. pose proof (B_size _ _ _ H) as Bs.
  assert (E : msize (trace st) = cm_len (shards st)) by (unfold msize; lia).
  split; auto. rewrite E. apply (cm_len_size ix n ix_lt). exact (B_inv _ _ _ H).
Qed.

End Len.
