(* C05: what genFrame produces is the RFC encoding (shortest length form, mask iff client) of the
   requested frame; the independent decoder recovers it. *)
From Gws Require Import Lib.Base Spec.MaskSpec Spec.Rfc6455 Model.Mask Model.Header Model.Pool Model.Writer Gen.Consts
  Proofs.MaskProofs Proofs.FrameProofs.
Local Open Scope N_scope.
Ltac Zify.zify_post_hook ::= Z.div_mod_to_equations.

(* constants regenerated from /repo: if one changes, these stop checking *)
Lemma Consts_thresholdV1_is : thresholdV1 = 125. Proof. reflexivity. Qed.
Lemma Consts_thresholdV2_is : thresholdV2 = 65535. Proof. reflexivity. Qed.
Lemma Consts_header_size_is : header_size = 14%nat. Proof. reflexivity. Qed.
Lemma Consts_segment_size_is : segment_size = N.to_nat 131072. Proof. reflexivity. Qed.

Lemma lor_128_small lc : lc < 128 -> N.lor lc 128 = 128 + lc.
Proof.
  intro H.
  assert (F : forallb (fun x => N.lor x 128 =? 128 + x) (map N.of_nat (seq 0 128)) = true) by (vm_compute; reflexivity).
  rewrite forallb_forall in F. apply N.eqb_eq. apply F.
  apply in_map_iff. exists (N.to_nat lc). split; [lia|]. apply in_seq. lia.
Qed.

Lemma set_length_spec n : n < 2 ^ 64 ->
  set_length n = len_field LShortest n.
Proof.
  intro Hn. unfold set_length, len_field. rewrite Consts_thresholdV1_is, Consts_thresholdV2_is.
  destruct (N.leb_spec n 125).
  - rewrite N.mod_small by (change (2 ^ 8) with 256; lia). reflexivity.
  - destruct (N.leb_spec n 65535).
    + rewrite N.mod_small by (change (2 ^ 16) with 65536; lia). reflexivity.
    + rewrite N.mod_small by exact Hn. reflexivity.
Qed.

Lemma len_field_lc_small n : fst (len_field LShortest n) < 128.
Proof. cbn [len_field]. destruct (n <=? 125) eqn:E; [cbn; lia|]. destruct (n <=? 65535); cbn; lia. Qed.

Definition out_frame (server fin rsv1 : bool) (op : N) (key payload : list N) : frame :=
  {| f_fin := fin; f_rsv1 := rsv1; f_rsv2 := false; f_rsv3 := false; f_op := op;
     f_masked := negb server; f_key := if server then [] else key; f_payload := payload |}.

Lemma u64_of_int_nat (k : nat) : (Z.of_nat k < 2 ^ 64)%Z -> u64_of_int (Z.of_nat k) = N.of_nat k.
Proof. intro H. unfold u64_of_int. rewrite Z.mod_small by lia. lia. Qed.

Lemma generate_header_spec server fin rsv1 op key payload :
  op < 16 -> (Z.of_nat (length payload) < 2 ^ 63)%Z ->
  generate_header server fin rsv1 op (Z.of_nat (length payload)) key
  ++ (if server then payload else mask_spec key payload)
  = encode_frame LShortest (out_frame server fin rsv1 op key payload).
Proof.
  intros Hop Hn. unfold generate_header, encode_frame, out_frame.
  cbn [f_fin f_rsv1 f_rsv2 f_rsv3 f_op f_masked f_key f_payload].
  rewrite u64_of_int_nat by lia. rewrite set_length_spec by lia.
  pose proof (len_field_lc_small (N.of_nat (length payload))) as Hlc.
  destruct (len_field LShortest (N.of_nat (length payload))) as [lc ext]. cbn [fst] in Hlc.
  assert (Hb0 : (op + (if fin then 128 else 0) + (if rsv1 then 64 else 0)) mod 2 ^ 8
                = 128 * b2n fin + 64 * b2n rsv1 + 32 * b2n false + 16 * b2n false + op).
  { change (2 ^ 8) with 256. destruct fin, rsv1; cbn [b2n]; rewrite N.mod_small; lia. }
  rewrite Hb0. destruct server; cbn [negb b2n].
  - rewrite <- app_assoc. cbn [app]. reflexivity.
  - rewrite lor_128_small by exact Hlc. rewrite <- !app_assoc. cbn [app].
    replace (128 * 1 + lc) with (128 + lc) by lia. reflexivity.
Qed.

Lemma generate_header_length server fin rsv1 op len key :
  length key = 4%nat -> (length (generate_header server fin rsv1 op len key) <= 14)%nat.
Proof.
  intro Hk. unfold generate_header, set_length.
  destruct (u64_of_int len <=? thresholdV1); [|destruct (u64_of_int len <=? thresholdV2)];
    destruct server; cbn [app length]; rewrite ?app_length, ?be_store_length, ?Hk; cbn; lia.
Qed.

Lemma repeat_skipn {A} (x : A) n m : skipn m (repeat x n) = repeat x (n - m).
Proof.
  revert m. induction n as [|n IH]; intro m; cbn [repeat].
  - rewrite skipn_nil. reflexivity.
  - destruct m; cbn [skipn]; [reflexivity|]. rewrite IH. reflexivity.
Qed.

Lemma repeat_firstn {A} (x : A) n m : firstn m (repeat x n) = repeat x (Nat.min m n).
Proof.
  revert m. induction n as [|n IH]; intro m; cbn [repeat].
  - rewrite firstn_nil, Nat.min_0_r. reflexivity.
  - destruct m; cbn [firstn Nat.min repeat]; [reflexivity|]. rewrite IH. reflexivity.
Qed.

Lemma backfill_spec server hdr key p :
  (length hdr <= 14)%nat -> length key = 4%nat -> wf_bytes key -> wf_bytes p ->
  backfill server hdr key (repeat 0 header_size ++ p) = GFrame (hdr ++ (if server then p else mask_spec key p)).
Proof.
  intros Hh Hk Hkw Hp. unfold backfill. rewrite Consts_header_size_is.
  rewrite skipn_app_exact by (rewrite repeat_length; reflexivity).
  rewrite firstn_app_exact by (rewrite repeat_length; reflexivity).
  set (body := if server then p else mask_spec key p).
  assert (Hbody : (if server then Some p else mask_impl key p) = Some body).
  { subst body. destruct server; [reflexivity|]. apply mask_impl_eq_spec; assumption. }
  rewrite Hbody.
  replace (length hdr <=? 14)%nat with true by (symmetry; apply Nat.leb_le; exact Hh).
  f_equal.
  set (m := (14 - length hdr)%nat).
  assert (Hm1 : firstn m (repeat 0 14 ++ body) = repeat 0 m).
  { rewrite firstn_app, repeat_length. replace (m - 14)%nat with 0%nat by lia. cbn [firstn]. rewrite app_nil_r.
    rewrite repeat_firstn. f_equal. lia. }
  assert (Hm2 : skipn m (repeat 0 14 ++ body) = repeat 0 (length hdr) ++ body).
  { rewrite skipn_app, repeat_length. replace (m - 14)%nat with 0%nat by lia. cbn [skipn].
    rewrite repeat_skipn. f_equal. f_equal. lia. }
  rewrite Hm1, Hm2.
  rewrite skipn_app_exact by (rewrite repeat_length; reflexivity).
  unfold copy. rewrite app_length, repeat_length.
  rewrite firstn_all2 by lia.
  rewrite skipn_app_exact by (rewrite repeat_length; reflexivity). reflexivity.
Qed.

Section WithParams.
Variable utf8_valid : list N -> bool.
Variable deflate_raw : list N -> list N -> list N.
Hypothesis deflate_wf : forall d p, wf_bytes (deflate_raw d p).
Hypothesis deflate_small : forall d p, (Z.of_nat (length (deflate_raw d p)) < 2 ^ 63)%Z.

Lemma strip_tail_wf b : wf_bytes b -> wf_bytes (strip_tail b).
Proof. intro H. unfold strip_tail. destruct (_ && _); [apply Forall_firstn|]; assumption. Qed.

Lemma strip_tail_length b : (length (strip_tail b) <= length b)%nat.
Proof. unfold strip_tail. destruct (_ && _); [rewrite firstn_length|]; lia. Qed.

(* every successful genFrame is the RFC encoding, with the shortest length form, of exactly one frame *)
Theorem gen_frame_encodes c op slices fc key dict bytes :
  op < 16 -> length key = 4%nat -> wf_bytes key -> wf_bytes (concat slices) ->
  (Z.of_nat (length (concat slices)) < 2 ^ 63)%Z ->
  gen_frame utf8_valid deflate_raw c op slices fc key dict = GFrame bytes ->
  exists rsv1 payload,
    bytes = encode_frame LShortest (out_frame (w_server c) (fc_fin fc) rsv1 op key payload)
    /\ wf_bytes payload /\ (length payload <= Nat.max (length (concat slices)) (length (deflate_raw (if fc_broadcast fc then [] else dict) (concat slices))))%nat
    /\ (rsv1 = false -> payload = concat slices)
    /\ (rsv1 = true -> fc_compress fc = true /\ is_data op = true
                      /\ payload = strip_tail (deflate_raw (if fc_broadcast fc then [] else dict) (concat slices))).
Proof.
  intros Hop Hk Hkw Hp Hn. unfold gen_frame.
  destruct ((op =? 1) && negb _); [discriminate|].
  destruct (_ >? _)%Z; [discriminate|].
  destruct (fc_compress fc && is_data op && _) eqn:Ec.
  - (* compressed *)
    unfold compress_data.
    set (out := strip_tail (deflate_raw (if fc_broadcast fc then [] else dict) (concat slices))).
    assert (Hout : wf_bytes out) by (apply strip_tail_wf, deflate_wf).
    assert (Hol : (length out <= length (deflate_raw (if fc_broadcast fc then [] else dict) (concat slices)))%nat) by apply strip_tail_length.
    rewrite backfill_spec; try assumption; [|apply generate_header_length; exact Hk].
    intro H. injection H as <-. exists true, out. split.
    + apply generate_header_spec; [exact Hop|].
      specialize (deflate_small (if fc_broadcast fc then [] else dict) (concat slices)). lia.
    + split; [exact Hout|]. split; [lia|]. split; [discriminate|]. intros _.
      apply andb_true_iff in Ec as [Ec _]. apply andb_true_iff in Ec as [E1 E2]. auto.
  - rewrite backfill_spec; try assumption; [|apply generate_header_length; exact Hk].
    intro H. injection H as <-. exists false, (concat slices). split.
    + apply generate_header_spec; assumption.
    + split; [exact Hp|]. split; [lia|]. split; [reflexivity|discriminate].
Qed.
End WithParams.

(* ------------------------------------------------------------------------------------------ *)
(* decode (genFrame ...) : the independent decoder recovers the frame, shortest form *)
Section Decode.
Variable utf8_valid : list N -> bool.
Variable deflate_raw : list N -> list N -> list N.
Hypothesis deflate_wf : forall d p, wf_bytes (deflate_raw d p).
Hypothesis deflate_small : forall d p, (Z.of_nat (length (deflate_raw d p)) < 2 ^ 63)%Z.

Lemma out_frame_wf server fin rsv1 op key payload :
  op < 16 -> length key = 4%nat -> wf_bytes key -> wf_bytes payload ->
  frame_wf (out_frame server fin rsv1 op key payload).
Proof.
  intros Hop Hk Hkw Hp. unfold frame_wf, out_frame. cbn. repeat split; try assumption.
  destruct server; cbn; auto.
Qed.

Theorem decode_gen_frame c op slices fc key dict bytes rest :
  op < 16 -> length key = 4%nat -> wf_bytes key -> wf_bytes (concat slices) ->
  (Z.of_nat (length (concat slices)) < 2 ^ 63)%Z ->
  gen_frame utf8_valid deflate_raw c op slices fc key dict = GFrame bytes ->
  exists rsv1 payload,
    decode_frame (bytes ++ rest) = DFrame (out_frame (w_server c) (fc_fin fc) rsv1 op key payload) true rest
    /\ (rsv1 = false -> payload = concat slices)
    /\ (rsv1 = true -> fc_compress fc = true /\ is_data op = true
                      /\ payload = strip_tail (deflate_raw (if fc_broadcast fc then [] else dict) (concat slices))).
Proof.
  intros Hop Hk Hkw Hp Hn Hg.
  destruct (gen_frame_encodes utf8_valid deflate_raw deflate_wf deflate_small c op slices fc key dict bytes Hop Hk Hkw Hp Hn Hg)
    as (rsv1 & payload & -> & Hpw & Hlen & H0 & H1).
  exists rsv1, payload. split; [|split; assumption].
  assert (Hsz : N.of_nat (length payload) < 2 ^ 63).
  { specialize (deflate_small (if fc_broadcast fc then [] else dict) (concat slices)). lia. }
  rewrite decode_encode.
  - reflexivity.
  - apply out_frame_wf; assumption.
  - exact I.
  - exact Hsz.
Qed.

(* and it satisfies everything C05 demands of an outbound frame, for calls within the documented limits:
   a known opcode and, for control frames, at most 125 bytes *)
Theorem gen_frame_outbound_wf c op slices fc key dict bytes rest :
  op_known op = true -> length key = 4%nat -> wf_bytes key -> wf_bytes (concat slices) ->
  (Z.of_nat (length (concat slices)) < 2 ^ 63)%Z ->
  (is_control op = true -> fc_fin fc = true /\ (length (concat slices) <= 125)%nat) ->
  gen_frame utf8_valid deflate_raw c op slices fc key dict = GFrame bytes ->
  exists f, decode_frame (bytes ++ rest) = DFrame f true rest /\ outbound_wf (w_server c) f true = true.
Proof.
  intros Hk0 Hk Hkw Hp Hn Hctl Hg.
  assert (Hop : op < 16). { unfold op_known in Hk0. lia. }
  destruct (decode_gen_frame c op slices fc key dict bytes rest Hop Hk Hkw Hp Hn Hg) as (rsv1 & payload & Hd & H0 & H1).
  eexists. split; [exact Hd|].
  unfold outbound_wf, out_frame. cbn [f_fin f_rsv1 f_rsv2 f_rsv3 f_op f_masked f_key f_payload].
  rewrite Hk0. rewrite Bool.eqb_reflx. cbn [andb negb].
  destruct (is_control op) eqn:Ec.
  - destruct (Hctl eq_refl) as (Hfin & Hlen). rewrite Hfin.
    destruct rsv1.
    + destruct (H1 eq_refl) as (_ & Hd' & _). unfold is_control, is_data in *. lia.
    + rewrite (H0 eq_refl). cbn [negb andb].
      replace (length (concat slices) <=? 125)%nat with true by (symmetry; apply Nat.leb_le; exact Hlen).
      destruct (w_server c); cbn; [reflexivity|]. rewrite Hk. reflexivity.
  - destruct (w_server c); cbn; [reflexivity|]. rewrite Hk. reflexivity.
Qed.
End Decode.

(* ------------------------------------------------------------------------------------------ *)
(* streamed sends without compression: the frame sequence of splitReader *)
Fixpoint file_frames (server pmd : bool) (op : N) (index : nat) (reads : list (list N * bool)) (keys : list (list N)) : list frame :=
  match reads with
  | [] => []
  | (p, eof) :: rest =>
      out_frame server eof (pmd && (index =? 0)%nat) (if (0 <? index)%nat then 0 else op) (hd [] keys) p
      :: (if eof then [] else file_frames server pmd op (S index) rest (tl keys))
  end.

Lemma lor_64_clear b0 : b0 < 256 -> N.testbit b0 6 = false -> N.lor b0 64 = b0 + 64.
Proof.
  intros H Hb.
  assert (F : forallb (fun x => if N.testbit x 6 then true else N.lor x 64 =? x + 64) (map N.of_nat (seq 0 256)) = true)
    by (vm_compute; reflexivity).
  rewrite forallb_forall in F. specialize (F b0). rewrite Hb in F. apply N.eqb_eq. apply F.
  apply in_map_iff. exists (N.to_nat b0). split; [lia|]. apply in_seq. lia.
Qed.

Lemma set_rsv1_encode lf server fin op key p :
  op < 16 ->
  set_rsv1 (encode_frame lf (out_frame server fin false op key p)) = encode_frame lf (out_frame server fin true op key p).
Proof.
  intro Hop. unfold encode_frame, out_frame. cbn [f_fin f_rsv1 f_rsv2 f_rsv3 f_op f_masked f_key f_payload].
  destruct (len_field lf (N.of_nat (length p))) as [lc ext]. cbn [app set_rsv1 b2n].
  f_equal. rewrite lor_64_clear.
  - destruct fin; cbn [b2n]; lia.
  - destruct fin; cbn [b2n]; lia.
  - rewrite N.testbit_eqb. change (2 ^ 6) with 64. destruct fin; cbn [b2n]; lia.
Qed.

Section File.
Variable utf8_valid : list N -> bool.
Variable deflate_raw : list N -> list N -> list N.

Definition reads_ok (c : wcfg) (reads : list (list N * bool)) (keys : list (list N)) : Prop :=
  Forall (fun r => wf_bytes (fst r) /\ (Z.of_nat (length (fst r)) <= w_wlimit c)%Z /\ (Z.of_nat (length (fst r)) < 2 ^ 63)%Z) reads
  /\ (length reads <= length keys)%nat /\ Forall (fun k => length k = 4%nat /\ wf_bytes k) keys.

Lemma gen_frame_plain c op p fin key :
  op < 16 -> length key = 4%nat -> wf_bytes key -> wf_bytes p ->
  (Z.of_nat (length p) <= w_wlimit c)%Z -> (Z.of_nat (length p) < 2 ^ 63)%Z ->
  gen_frame utf8_valid deflate_raw c op [p] {| fc_fin := fin; fc_compress := false; fc_broadcast := false; fc_check := false |} key []
  = GFrame (encode_frame LShortest (out_frame (w_server c) fin false op key p)).
Proof.
  intros Hop Hk Hkw Hp Hl Hn. unfold gen_frame. cbn [concat fc_check fc_compress fc_fin fc_broadcast].
  rewrite app_nil_r.
  unfold payload_check, check_encoding. cbn [andb negb]. rewrite Bool.andb_false_r.
  replace (Z.of_nat (length p) >? w_wlimit c)%Z with false by lia.
  cbn [andb].
  rewrite backfill_spec; try assumption; [|apply generate_header_length; exact Hk].
  f_equal. apply generate_header_spec; assumption.
Qed.

Theorem split_reader_frames c op : op < 16 -> forall reads index keys frs,
  reads_ok c reads keys ->
  split_reader utf8_valid deflate_raw c op index reads keys = (frs, FOk) ->
  frs = map (encode_frame LShortest) (file_frames (w_server c) (w_pmd c) op index reads keys)
  /\ exists k, (k < length reads)%nat /\ snd (nth k reads ([], false)) = true
               /\ forall j, (j < k)%nat -> snd (nth j reads ([], false)) = false.
Proof.
  intros Hop. induction reads as [|[p eof] rest IH]; intros index keys frs (Hr & Hlen & Hkeys) H; cbn [split_reader] in H.
  - discriminate.
  - inversion Hr as [|? ? (Hp & Hl & Hn) Hr']; subst. cbn [fst] in *.
    destruct keys as [|key keys']; [cbn in Hlen; lia|].
    inversion Hkeys as [|? ? (Hk & Hkw) Hkeys']; subst.
    cbn [hd tl] in H.
    unfold file_cb in H.
    assert (Hop' : (if (0 <? index)%nat then 0 else op) < 16) by (destruct (0 <? index)%nat; lia).
    rewrite gen_frame_plain in H by assumption.
    cbn [file_frames hd tl map].
    destruct eof.
    + injection H as <-. split.
      * f_equal. destruct (w_pmd c && (index =? 0)%nat) eqn:E; [apply set_rsv1_encode; exact Hop'|reflexivity].
      * exists 0%nat. cbn. split; [lia|]. split; [reflexivity|]. intros j Hj. lia.
    + destruct (split_reader utf8_valid deflate_raw c op (S index) rest keys') as [frs' r'] eqn:E.
      injection H as <- ->.
      destruct (IH (S index) keys' frs') as (Hf & k & Hk1 & Hk2 & Hk3).
      * repeat split; try assumption. cbn in Hlen. lia.
      * exact E.
      * split.
        -- rewrite Hf. f_equal. destruct (w_pmd c && (index =? 0)%nat) eqn:E2; [apply set_rsv1_encode; exact Hop'|reflexivity].
        -- exists (S k). cbn [length nth]. split; [lia|]. split; [exact Hk2|].
           intros [|j] Hj; [reflexivity|]. apply Hk3. lia.
Qed.

(* the frame sequence of a streamed send is ONE message: first frame with the opcode (and RSV1 iff compression is
   negotiated), then continuation frames, FIN exactly on the last; its payload is the concatenation of what was read *)
Fixpoint reads_payload (reads : list (list N * bool)) : list N :=
  match reads with [] => [] | (p, eof) :: rest => p ++ (if eof then [] else reads_payload rest) end.

Fixpoint reads_terminated (reads : list (list N * bool)) : bool :=
  match reads with [] => false | (_, eof) :: rest => eof || reads_terminated rest end.

Lemma file_frames_group_cont server pmd op : is_control op = false -> forall reads index keys opc comp acc k,
  (0 < index)%nat -> reads_terminated reads = true ->
  exists k', group_messages (Some (opc, comp, acc, k)) (file_frames server pmd op index reads keys)
             = Some [WData opc comp (acc ++ reads_payload reads) k'].
Proof.
  intros Hc. induction reads as [|[p eof] rest IH]; intros index keys opc comp acc k Hi Ht; [discriminate|].
  cbn [file_frames group_messages reads_payload].
  unfold out_frame. cbn [f_op f_rsv1 f_fin f_payload].
  replace (0 <? index)%nat with true by (symmetry; apply Nat.ltb_lt; exact Hi).
  cbn [is_control]. change (8 <=? 0) with false. cbn [N.eqb].
  replace (index =? 0)%nat with false by (symmetry; apply Nat.eqb_neq; lia).
  rewrite Bool.andb_false_r.
  destruct eof.
  - cbn [group_messages]. rewrite app_nil_r. eexists. reflexivity.
  - cbn [reads_terminated orb] in Ht.
    destruct (IH (S index) (tl keys) opc comp (acc ++ p) (S k)) as (k' & Hk'); [lia|exact Ht|].
    rewrite Hk'. rewrite <- app_assoc. eexists. reflexivity.
Qed.

Theorem file_frames_one_message server pmd op reads keys :
  (op = 1 \/ op = 2) -> reads_terminated reads = true ->
  exists k, group_messages None (file_frames server pmd op 0 reads keys) = Some [WData op pmd (reads_payload reads) k].
Proof.
  intros Hop Ht. destruct reads as [|[p eof] rest]; [discriminate|].
  cbn [file_frames group_messages reads_payload]. unfold out_frame. cbn [f_op f_rsv1 f_fin f_payload].
  change (0 <? 0)%nat with false. cbn [Nat.eqb].
  assert (Hc : is_control op = false) by (unfold is_control; destruct Hop; subst; reflexivity).
  rewrite Hc. replace (op =? 0) with false by (destruct Hop; subst; reflexivity).
  rewrite Bool.andb_true_r.
  destruct eof.
  - cbn [group_messages]. rewrite app_nil_r. eexists. reflexivity.
  - cbn [reads_terminated orb] in Ht.
    destruct (file_frames_group_cont server pmd op Hc rest 1%nat (tl keys) op pmd p 1%nat) as (k' & Hk'); [lia|exact Ht|].
    rewrite Hk'. eexists. reflexivity.
Qed.
End File.

(* ------------------------------------------------------------------------------------------ *)
(* flateWriter: for EVERY way the compressor cuts its output into Write calls, the segments handed to the
   frame callback concatenate to the compressed stream with the sync-flush tail 00 00 ff ff removed *)
Lemma strip_tail_app a b : (4 <= length b)%nat -> strip_tail (a ++ b) = a ++ strip_tail b.
Proof.
  intro Hb. unfold strip_tail. rewrite app_length.
  replace (4 <=? length a + length b)%nat with true by (symmetry; apply Nat.leb_le; lia).
  replace (4 <=? length b)%nat with true by (symmetry; apply Nat.leb_le; lia).
  replace (length a + length b - 4)%nat with (length a + (length b - 4))%nat by lia.
  rewrite skipn_app_ge by lia. replace (length a + (length b - 4) - length a)%nat with (length b - 4)%nat by lia.
  cbn [andb]. destruct (bytes_eqb (skipn (length b - 4) b) flate_tail4); [|reflexivity].
  rewrite firstn_app. rewrite firstn_all2 by lia.
  replace (length a + (length b - 4) - length a)%nat with (length b - 4)%nat by lia. reflexivity.
Qed.

Definition bufs_bytes (bs : list (list N * nat)) : list N := concat (map fst bs).

Lemma bufs_bytes_app a b : bufs_bytes (a ++ b) = bufs_bytes a ++ bufs_bytes b.
Proof. unfold bufs_bytes. rewrite map_app, concat_app. reflexivity. Qed.

Lemma fw_write_buf_bytes s p : bufs_bytes (fw_buffers (fw_write_buf s p)) = bufs_bytes (fw_buffers s) ++ p.
Proof.
  unfold fw_write_buf.
  match goal with |- context [last ?b _] => remember b as bufs eqn:Eb end.
  assert (Hb : bufs_bytes bufs = bufs_bytes (fw_buffers s)) by (subst bufs; destruct (fw_buffers s); reflexivity).
  assert (Hne : bufs <> []) by (subst bufs; destruct (fw_buffers s); discriminate).
  clear Eb.
  destruct (last bufs ([], 0%nat)) as [tail tcap] eqn:El.
  pose proof (app_removelast_last ([], 0%nat) Hne) as Hsplit. rewrite El in Hsplit.
  destruct (tcap <? length tail + length p + header_size)%nat; cbn [fw_buffers].
  - rewrite bufs_bytes_app, Hb. unfold bufs_bytes at 2. cbn. rewrite app_nil_r. reflexivity.
  - rewrite <- Hb. rewrite Hsplit at 2. rewrite !bufs_bytes_app. unfold bufs_bytes at 2 4. cbn.
    rewrite !app_nil_r, app_assoc. reflexivity.
Qed.

Lemma fold_left_len_acc (l : list (list N * nat)) a :
  fold_left (fun a b => (a + length (fst b))%nat) l a = (a + length (bufs_bytes l))%nat.
Proof.
  revert a. induction l as [|x l IH]; intro a; cbn [fold_left]; [unfold bufs_bytes; cbn; lia|].
  rewrite IH. unfold bufs_bytes. cbn [map concat]. rewrite app_length. lia.
Qed.

Theorem fw_run_concat : forall writes s segs,
  fw_run s writes = Some segs ->
  concat (map snd segs) = strip_tail (bufs_bytes (fw_buffers s) ++ concat writes).
Proof.
  induction writes as [|p rest IH]; intros s segs H; cbn [fw_run] in H.
  - unfold fw_flush in H. destruct (fw_buffers s) as [|[b0 c0] r] eqn:E; [discriminate|].
    injection H as <-. cbn [map snd concat]. rewrite !app_nil_r. unfold bufs_bytes. reflexivity.
  - unfold fw_write in H. cbn [concat].
    pose proof (fw_write_buf_bytes s p) as Hbytes.
    destruct (fw_should_call (fw_write_buf s p)) eqn:Ec.
    + unfold fw_should_call in Ec.
      destruct (fw_buffers (fw_write_buf s p)) as [|[b0 c0] r] eqn:E; [discriminate|].
      destruct (fw_run {| fw_index := S (fw_index (fw_write_buf s p)); fw_buffers := r |} rest) as [l|] eqn:Er; [|discriminate].
      injection H as <-. cbn [map snd concat].
      rewrite (IH _ _ Er). cbn [fw_buffers].
      apply andb_true_iff in Ec as [_ Ec]. rewrite fold_left_len_acc in Ec.
      rewrite <- strip_tail_app by (rewrite app_length; apply Nat.leb_le in Ec; lia).
      f_equal. rewrite (app_assoc (bufs_bytes (fw_buffers s))). rewrite <- Hbytes.
      unfold bufs_bytes. cbn [map concat fst]. rewrite <- !app_assoc. reflexivity.
    + destruct (fw_run (fw_write_buf s p) rest) as [l|] eqn:Er; [|discriminate].
      injection H as <-. rewrite (IH _ _ Er). rewrite Hbytes, <- app_assoc. reflexivity.
Qed.

(* shape of the segments: consecutive indices, eof exactly on the last one *)
Theorem fw_run_shape : forall writes s segs,
  fw_run s writes = Some segs ->
  map (fun x => fst (fst x)) segs = seq (fw_index s) (length segs)
  /\ exists init lst, segs = init ++ [lst] /\ snd (fst lst) = true /\ Forall (fun x => snd (fst x) = false) init.
Proof.
  induction writes as [|p rest IH]; intros s segs H; cbn [fw_run] in H.
  - unfold fw_flush in H. destruct (fw_buffers s) as [|[b0 c0] r]; [discriminate|].
    injection H as <-. cbn. split; [reflexivity|]. exists [], (fw_index s, true, strip_tail (b0 ++ concat (map fst r))).
    repeat split. constructor.
  - unfold fw_write in H.
    assert (Hidx : fw_index (fw_write_buf s p) = fw_index s).
    { unfold fw_write_buf. destruct (last _ _) as [t tc]. destruct (_ <? _)%nat; reflexivity. }
    destruct (fw_should_call (fw_write_buf s p)).
    + destruct (fw_buffers (fw_write_buf s p)) as [|[b0 c0] r].
      * destruct (fw_run (fw_write_buf s p) rest) as [l|] eqn:Er; [|discriminate].
        injection H as <-. rewrite <- Hidx. apply (IH _ _ Er).
      * destruct (fw_run _ rest) as [l|] eqn:Er; [|discriminate].
        injection H as <-. destruct (IH _ _ Er) as (Hi & init & lst & -> & Hl & Hf). cbn [fw_index] in Hi.
        split.
        -- cbn [map length seq fst]. rewrite Hi, Hidx. reflexivity.
        -- exists ((fw_index (fw_write_buf s p), false, b0) :: init), lst. repeat split; try assumption.
           constructor; [reflexivity|assumption].
    + destruct (fw_run (fw_write_buf s p) rest) as [l|] eqn:Er; [|discriminate].
      injection H as <-. rewrite <- Hidx. apply (IH _ _ Er).
Qed.

(* ------------------------------------------------------------------------------------------ *)
(* compressed streamed sends: flateWriter hands its segments to the same frame callback as splitReader, with the
   same index sequence - so the frames are those of `split_reader` run on the segments *)
Definition seg_reads (segs : list (nat * bool * list N)) : list (list N * bool) :=
  map (fun s => (snd s, snd (fst s))) segs.

Lemma reads_payload_init init lst :
  Forall (fun x : nat * bool * list N => snd (fst x) = false) init -> snd (fst lst) = true ->
  reads_payload (seg_reads (init ++ [lst])) = concat (map snd (init ++ [lst]))
  /\ reads_terminated (seg_reads (init ++ [lst])) = true.
Proof.
  intros Hinit Hl. induction init as [|[[i e] b] init IH]; cbn.
  - destruct lst as [[i e] b]. cbn in *. subst e. cbn. rewrite !app_nil_r. split; reflexivity.
  - inversion Hinit as [|? ? He Hinit']; subst. cbn in He. subst e.
    destruct (IH Hinit') as (IH1 & IH2). unfold seg_reads in *. cbn. rewrite IH1, IH2. split; reflexivity.
Qed.

Theorem compressed_stream_one_message server pmd op writes segs keys :
  (op = 1 \/ op = 2) ->
  fw_run {| fw_index := 0; fw_buffers := [] |} writes = Some segs ->
  exists k, group_messages None (file_frames server pmd op 0 (seg_reads segs) keys)
            = Some [WData op pmd (strip_tail (concat writes)) k].
Proof.
  intros Hop Hrun.
  destruct (fw_run_shape _ _ _ Hrun) as (_ & init & lst & -> & Hl & Hinit).
  destruct (reads_payload_init init lst Hinit Hl) as (Hp & Ht).
  destruct (file_frames_one_message (fun _ => true) (fun _ _ => []) server pmd op (seg_reads (init ++ [lst])) keys Hop Ht) as (k & Hk).
  exists k. rewrite Hk. rewrite Hp. rewrite (fw_run_concat _ _ _ Hrun). reflexivity.
Qed.
