(* slideWindow.Write conditions and the window capacity BinaryPow (compress.go, internal/utils.go) *)
From Gws Require Import Lib.Base Spec.Rfc6455 Gen.Consts Gen.Funcs Proofs.GenBase.
From Coq Require Import ZifyN ZifyNat ZifyBool.
Local Open Scope Z_scope.
From Gws Require Import Model.Window.

Lemma window_conditions_from_source (w : window) (p : list N) :
  let n := length p in let len := length (sw_dict w) in let m := (sw_size w - len)%nat in
  gf_gws_slideWindow_Write_nconds = 4%nat
  /\ gf_gws_slideWindow_Write_cond1 (sw_enabled w) = negb (sw_enabled w)
  /\ gf_gws_slideWindow_Write_cond2 (Z.of_nat (sw_size w)) (Z.of_nat len) (Z.of_nat n) = (n + len <=? sw_size w)%nat
  /\ (gf_gws_slideWindow_Write_cond3 (Z.of_nat (sw_size w) - Z.of_nat len) = (0 <? m)%nat)
  /\ forall n1 : nat, gf_gws_slideWindow_Write_cond4 (Z.of_nat (sw_size w)) (Z.of_nat n1) = (sw_size w <=? n1)%nat.
Proof.
  cbv zeta. unfold gf_gws_slideWindow_Write_cond1, gf_gws_slideWindow_Write_cond2, gf_gws_slideWindow_Write_cond3, gf_gws_slideWindow_Write_cond4.
  repeat split; try reflexivity; intros; lia.
Qed.

(* ---- loops: BinaryPow (the window capacity) and ToBinaryNumber (shard count, pool size) ---- *)
From Gws Require Import Model.ShardMap.

(* BinaryPow(n) = 2^n for every n a window can be created with (and 1 for n <= 0) *)
Lemma gen_BinaryPow_is n : 0 <= n <= 62 -> gf_internal_BinaryPow n = 2 ^ n.
Proof.
  intro H. apply Z.eqb_eq.
  assert (F : forall b, (b < 63)%N -> (fun b => gf_internal_BinaryPow (Z.of_N b) =? 2 ^ Z.of_N b) b = true)
    by (apply range_forall; vm_compute; reflexivity).
  specialize (F (Z.to_N n) ltac:(lia)). cbv beta in F. rewrite Z2N.id in F by lia. exact F.
Qed.

Lemma window_capacity_from_source bits : (bits <= 15)%nat ->
  Z.of_nat (sw_size (sw_init bits)) = gf_internal_BinaryPow (Z.of_nat bits).
Proof.
  intro H. rewrite gen_BinaryPow_is by lia. unfold sw_init, sw_make. cbn [sw_size].
  rewrite Nat2Z.inj_pow. reflexivity.
Qed.
