(* General lemma of C19: a history in which every operation takes effect atomically at one instant
   inside its interval (Spec.AtomicMap.atomic_points) is linearizable; the witness is the sequence of
   those instants.  Generic in the sequential object. *)
From Gws Require Import Lib.Base Spec.AtomicMap.

Section LinProofs.
Variables (Op Res St : Type).
Variable apply : St -> Op -> St * Res.
Variable init : St.

Notation lop := (lop Op Res).
Notation lid := (lid Op Res).
Notation seq_legal := (seq_legal Op Res St apply).
Notation linearizable := (linearizable Op Res St apply init).
Notation atomic_points := (atomic_points Op Res St apply init).
Notation hist_wf := (hist_wf Op Res).

Fixpoint final (s : St) (l : list lop) : St :=
  match l with [] => s | (_, o, _) :: l' => final (fst (apply s o)) l' end.

Lemma seq_legal_snoc s l id o r :
  seq_legal s (l ++ [(id, o, r)]) <-> seq_legal s l /\ snd (apply (final s l) o) = r.
Proof.
  revert s. induction l as [|[[i' o'] r'] l IH]; intro s; cbn.
  - tauto.
  - rewrite IH. tauto.
Qed.

Lemma final_snoc s l id o r : final s (l ++ [(id, o, r)]) = fst (apply (final s l) o).
Proof. revert s. induction l as [|[[i' o'] r'] l IH]; intro s; cbn; auto. Qed.

Lemma erase_app (a b : list (imark Op Res)) : erase (a ++ b) = erase a ++ erase b.
Proof. induction a as [|[id t o|id|id r] a IH]; cbn; rewrite ?IH; reflexivity. Qed.

Lemma exists_last_or_nil {A} (l : list A) : l = [] \/ exists l' z, l = l' ++ [z].
Proof. induction l as [|x l IH] using rev_ind; [left; reflexivity|right; eauto]. Qed.

Lemma NoDup_app_snoc {A} (l : list A) x : NoDup l -> ~ In x l -> NoDup (l ++ [x]).
Proof.
  induction l as [|y l IH]; cbn; intros Hn Hx.
  - constructor; [tauto|constructor].
  - inversion Hn; subst. constructor.
    + rewrite in_app_iff. cbn. intuition congruence.
    + apply IH; tauto.
Qed.

(* ---- precedes ---- *)
Lemma precedes_snoc_inv {A} (a b c : A) l :
  precedes a b (l ++ [c]) -> precedes a b l \/ (b = c /\ In a l).
Proof.
  intros (l1 & l2 & l3 & H).
  destruct (@exists_last_or_nil A l3) as [->|(l3' & z & ->)].
  - right. replace (l1 ++ a :: l2 ++ [b]) with ((l1 ++ a :: l2) ++ [b]) in H
      by (rewrite <- app_assoc; reflexivity).
    apply app_inj_tail in H as [H1 H2]. subst. split; auto. apply in_or_app. right. left. reflexivity.
  - left. replace (l1 ++ a :: l2 ++ b :: l3' ++ [z]) with ((l1 ++ a :: l2 ++ b :: l3') ++ [z]) in H
      by (rewrite <- !app_assoc; cbn; rewrite <- !app_assoc; reflexivity).
    apply app_inj_tail in H as [H1 H2]. subst. exists l1, l2, l3'. reflexivity.
Qed.

Lemma precedes_app_r {A} (a b : A) l l' : precedes a b l -> precedes a b (l ++ l').
Proof.
  intros (l1 & l2 & l3 & ->). exists l1, l2, (l3 ++ l').
  rewrite <- !app_assoc. cbn. rewrite <- !app_assoc. reflexivity.
Qed.

Lemma precedes_last {A} (a b : A) l : In a l -> precedes a b (l ++ [b]).
Proof.
  intro H. apply in_split in H as (l1 & l2 & ->). exists l1, l2, [].
  rewrite <- app_assoc. reflexivity.
Qed.

(* ---- the invariant ---- *)
Definition st_op (x : ost Op Res) : Op := match x with Pend o => o | Lind o _ => o | Retd o _ => o end.

Record J (h : list (event Op Res)) (s : St) (m : nat -> option (ost Op Res)) (lin : list lop) : Prop := {
  J1 : NoDup (map lid lin);
  J2 : seq_legal init lin /\ final init lin = s;
  J3 : forall id t o, In (EInv id t o) h -> exists st, m id = Some st /\ st_op st = o;
  J4 : forall id r, In (ERes id r) h -> exists o, m id = Some (Retd o r);
  J5 : forall id st, m id = Some st -> exists t, In (EInv id t (st_op st)) h;
  J6 : forall id o r, In (id, o, r) lin <-> (m id = Some (Lind o r) \/ m id = Some (Retd o r));
  J7 : forall id1 r1 id2 t2 o2 x1 x2, precedes (ERes id1 r1) (EInv id2 t2 o2) h ->
         In x1 lin -> lid x1 = id1 -> In x2 lin -> lid x2 = id2 -> precedes x1 x2 lin;
  (* history well-formedness facts *)
  J8 : hist_wf h
}.

Lemma mset_eq {A} (m : nat -> A) i x : mset m i x i = x.
Proof. unfold mset. rewrite Nat.eqb_refl. reflexivity. Qed.
Lemma mset_neq {A} (m : nat -> A) i j x : j <> i -> mset m i x j = m j.
Proof. intro H. unfold mset. destruct (Nat.eqb_spec j i); congruence. Qed.

Lemma lin_id_status h s m lin : J h s m lin -> forall x, In x lin ->
  m (lid x) = Some (Lind (snd (fst x)) (snd x)) \/ m (lid x) = Some (Retd (snd (fst x)) (snd x)).
Proof. intros HJ [[i o] r] Hin. apply (J6 _ _ _ _ HJ). exact Hin. Qed.

Lemma in_snoc {A} (x y : A) l : In x (l ++ [y]) <-> In x l \/ x = y.
Proof. rewrite in_app_iff. cbn. intuition congruence. Qed.

Lemma snoc_split {A} (l p q : list A) (m x : A) :
  l ++ [m] = p ++ x :: q ->
  (q = [] /\ l = p /\ x = m) \/ (exists q', q = q' ++ [m] /\ l = p ++ x :: q').
Proof.
  intro H. destruct (@exists_last_or_nil A q) as [->|(q' & z & ->)].
  - left. apply app_inj_tail in H as [H1 H2]. auto.
  - right. replace (p ++ x :: q' ++ [z]) with ((p ++ x :: q') ++ [z]) in H
      by (rewrite <- app_assoc; reflexivity).
    apply app_inj_tail in H as [H1 H2]. subst. eauto.
Qed.

Theorem atomic_points_J tr s m : atomic_points tr s m -> exists lin, J (erase tr) s m lin.
Proof.
  induction 1 as [|tr s m id t o Hap [lin HJ] Hm|tr s m id o Hap [lin HJ] Hm|tr s m id o r Hap [lin HJ] Hm].
  - exists []. constructor; cbn; try tauto; try (intros; discriminate).
    + constructor.
    + intros id o r. split; [tauto|intros [H|H]; discriminate].
    + split; intros h1 h2 *; destruct h1; discriminate.
  - (* invocation *)
    exists lin. rewrite erase_app. cbn [erase]. destruct HJ as [K1 K2 K3 K4 K5 K6 K7 K8].
    constructor; auto.
    + intros id' t' o' Hin. apply in_snoc in Hin as [Hin|Heq].
      * destruct (Nat.eq_dec id' id) as [->|Hne].
        -- apply K3 in Hin as (st & Hs & _). congruence.
        -- rewrite mset_neq by auto. eauto.
      * inversion Heq; subst. rewrite mset_eq. eexists; split; eauto.
    + intros id' r' Hin. apply in_snoc in Hin as [Hin|Heq]; [|discriminate].
      destruct (Nat.eq_dec id' id) as [->|Hne].
      * apply K4 in Hin as (o' & Hs). congruence.
      * rewrite mset_neq by auto. eauto.
    + intros id' st Hs. destruct (Nat.eq_dec id' id) as [->|Hne].
      * rewrite mset_eq in Hs. inversion Hs; subst. exists t. apply in_snoc. right. reflexivity.
      * rewrite mset_neq in Hs by auto. apply K5 in Hs as (t' & Hin). exists t'. apply in_snoc. auto.
    + intros id' o' r'. rewrite K6. destruct (Nat.eq_dec id' id) as [->|Hne].
      * rewrite mset_eq, Hm. split; intros [H|H]; discriminate.
      * rewrite mset_neq by auto. tauto.
    + intros id1 r1 id2 t2 o2 x1 x2 Hp Hx1 Hi1 Hx2 Hi2.
      apply precedes_snoc_inv in Hp as [Hp|[Heq _]]; [eapply K7; eauto|].
      inversion Heq; subst.
      assert (HJ : J (erase tr) s m lin) by (constructor; auto).
      destruct (lin_id_status _ _ _ _ HJ x2 Hx2) as [E|E]; congruence.
    + destruct K8 as [W1 W2]. split.
      * intros h1 h2 id' t' o' Heq. apply snoc_split in Heq as [(-> & <- & Heq)|(q' & -> & Heq)].
        -- inversion Heq; subst. repeat split.
           ++ intros t'' o'' Hin. apply K3 in Hin as (st & Hs & _). congruence.
           ++ intros t'' o'' [].
           ++ intros r Hin. apply K4 in Hin as (o'' & Hs). congruence.
        -- destruct (W1 _ _ _ _ _ Heq) as (A1 & A2 & A3). repeat split; auto.
           intros t'' o'' Hin. apply in_snoc in Hin as [Hin|Hin]; [eapply A2; eauto|].
           injection Hin as -> -> ->.
           assert (Hin' : In (EInv id t' o') (erase tr)) by (rewrite Heq; apply in_or_app; right; left; reflexivity).
           apply K3 in Hin' as (st & Hs & _). congruence.
      * intros h1 h2 id' r' Heq. apply snoc_split in Heq as [(-> & <- & Heq)|(q' & -> & Heq)]; [discriminate|].
        destruct (W2 _ _ _ _ Heq) as (A1 & A2 & A3). repeat split; auto.
        intros r'' Hin. apply in_snoc in Hin as [Hin|Hin]; [eapply A3; eauto|discriminate].
  - (* linearization point *)
    exists (lin ++ [(id, o, snd (apply s o))]). rewrite erase_app. cbn [erase]. rewrite app_nil_r.
    pose proof HJ as HJ0. destruct HJ as [K1 K2 K3 K4 K5 K6 K7 K8].
    assert (Hnotin : ~ In id (map lid lin)).
    { intro Hin. apply in_map_iff in Hin as (x & Hx & Hin).
      destruct (lin_id_status _ _ _ _ HJ0 x Hin) as [E|E]; rewrite Hx in E; congruence. }
    constructor; auto.
    + rewrite map_app. cbn. apply NoDup_app_snoc; auto.
    + destruct K2 as [K2 K2']. split.
      * apply seq_legal_snoc. split; auto. rewrite K2'. reflexivity.
      * rewrite final_snoc, K2'. reflexivity.
    + intros id' t' o' Hin. destruct (Nat.eq_dec id' id) as [->|Hne].
      * rewrite mset_eq. apply K3 in Hin as (st & Hs & Ho). rewrite Hm in Hs. inversion Hs; subst.
        eexists; split; eauto.
      * rewrite mset_neq by auto. eauto.
    + intros id' r' Hin. destruct (Nat.eq_dec id' id) as [->|Hne].
      * apply K4 in Hin as (o' & Hs). congruence.
      * rewrite mset_neq by auto. eauto.
    + intros id' st Hs. destruct (Nat.eq_dec id' id) as [->|Hne].
      * rewrite mset_eq in Hs. inversion Hs; subst. cbn. apply (K5 _ _ Hm).
      * rewrite mset_neq in Hs by auto. eauto.
    + intros id' o' r'. rewrite in_snoc, K6. destruct (Nat.eq_dec id' id) as [->|Hne].
      * rewrite mset_eq, Hm. split.
        -- intros [[H|H]|H]; try discriminate. inversion H; subst. auto.
        -- intros [H|H]; inversion H; subst. auto.
      * rewrite mset_neq by auto. split; [intros [H|H]; auto; inversion H; congruence|tauto].
    + intros id1 r1 id2 t2 o2 x1 x2 Hp Hx1 Hi1 Hx2 Hi2.
      apply in_snoc in Hx1 as [Hx1|Hx1].
      * apply in_snoc in Hx2 as [Hx2|Hx2].
        -- apply precedes_app_r. eapply K7; eauto.
        -- subst x2. apply precedes_last. exact Hx1.
      * subst x1. cbn in Hi1. subst id1.
        destruct Hp as (l1 & l2 & l3 & Hp).
        assert (Hin : In (ERes id r1) (erase tr)) by (rewrite Hp; apply in_or_app; right; left; reflexivity).
        apply K4 in Hin as (o' & Hs). congruence.
  - (* response *)
    exists lin. rewrite erase_app. cbn [erase].
    pose proof HJ as HJ0. destruct HJ as [K1 K2 K3 K4 K5 K6 K7 K8].
    constructor; auto.
    + intros id' t' o' Hin. apply in_snoc in Hin as [Hin|Heq]; [|discriminate].
      destruct (Nat.eq_dec id' id) as [->|Hne].
      * rewrite mset_eq. apply K3 in Hin as (st & Hs & Ho). rewrite Hm in Hs. inversion Hs; subst.
        eexists; split; eauto.
      * rewrite mset_neq by auto. eauto.
    + intros id' r' Hin. apply in_snoc in Hin as [Hin|Heq].
      * destruct (Nat.eq_dec id' id) as [->|Hne].
        -- apply K4 in Hin as (o' & Hs). congruence.
        -- rewrite mset_neq by auto. eauto.
      * inversion Heq; subst. rewrite mset_eq. eauto.
    + intros id' st Hs. destruct (Nat.eq_dec id' id) as [->|Hne].
      * rewrite mset_eq in Hs. inversion Hs; subst. cbn. destruct (K5 _ _ Hm) as (t & Hin).
        exists t. apply in_snoc. auto.
      * rewrite mset_neq in Hs by auto. apply K5 in Hs as (t & Hin). exists t. apply in_snoc. auto.
    + intros id' o' r'. rewrite K6. destruct (Nat.eq_dec id' id) as [->|Hne].
      * rewrite mset_eq, Hm. split.
        -- intros [H|H]; inversion H; subst. auto.
        -- intros [H|H]; inversion H; subst. auto.
      * rewrite mset_neq by auto. tauto.
    + intros id1 r1 id2 t2 o2 x1 x2 Hp Hx1 Hi1 Hx2 Hi2.
      apply precedes_snoc_inv in Hp as [Hp|[Heq _]]; [eapply K7; eauto|discriminate].
    + destruct K8 as [W1 W2]. split.
      * intros h1 h2 id' t' o' Heq. apply snoc_split in Heq as [(-> & <- & Heq)|(q' & -> & Heq)]; [discriminate|].
        destruct (W1 _ _ _ _ _ Heq) as (A1 & A2 & A3). repeat split; auto.
        intros t'' o'' Hin. apply in_snoc in Hin as [Hin|Hin]; [eapply A2; eauto|discriminate].
      * intros h1 h2 id' r' Heq. apply snoc_split in Heq as [(-> & <- & Heq)|(q' & -> & Heq)].
        -- inversion Heq; subst. repeat split.
           ++ destruct (K5 _ _ Hm) as (t & Hin). eauto.
           ++ intros r'' Hin. apply K4 in Hin as (o'' & Hs). congruence.
           ++ intros r'' [].
        -- destruct (W2 _ _ _ _ Heq) as (A1 & A2 & A3). repeat split; auto.
           intros r'' Hin. apply in_snoc in Hin as [Hin|Hin]; [eapply A3; eauto|].
           injection Hin as -> ->.
           assert (Hin' : In (ERes id r') (erase tr)) by (rewrite Heq; apply in_or_app; right; left; reflexivity).
           apply K4 in Hin' as (o'' & Hs). congruence.
Qed.

(* THE GENERAL LEMMA *)
Theorem atomic_points_linearizable tr s m :
  atomic_points tr s m -> hist_wf (erase tr) /\ linearizable (erase tr).
Proof.
  intro H. apply atomic_points_J in H as [lin HJ]. split; [apply (J8 _ _ _ _ HJ)|].
  exists lin. destruct HJ as [K1 K2 K3 K4 K5 K6 K7 K8]. repeat split; auto.
  - intros id t o r Hi Hr. apply K6. apply K3 in Hi as (st & Hs & Ho). apply K4 in Hr as (o' & Hs').
    rewrite Hs in Hs'. inversion Hs'; subst. cbn. auto.
  - apply K6 in H as [H|H]; apply K5 in H; exact H.
  - intros r' Hr. apply K4 in Hr as (o' & Hs'). apply K6 in H as [H|H]; congruence.
  - apply K2.
Qed.

End LinProofs.
