(* A concrete run of the concurrent model (non-vacuity of the C19 theorems): 2 shards, 2 threads,
   a Store and a Load of the same key overlapping, then a Len and a Range over both shards. *)
From Gws Require Import Lib.Base Model.ShardMap Spec.AtomicMap Proofs.ShardMapSeq Proofs.ShardMapConc.
From Coq Require Import Sorting.Permutation.

Section Fwd.
Variable ix : N -> nat.
Variable n : nat.
Variable progs : nat -> list op.

Inductive steps : state -> state -> Prop :=
| steps_refl st : steps st st
| steps_cons st st1 st2 : step ix n st st1 -> steps st1 st2 -> steps st st2.

Lemma reach_steps st st' : reach ix n progs st -> steps st st' -> reach ix n progs st'.
Proof. intros H Hs. induction Hs; auto. apply IHHs. eapply reach_step; eauto. Qed.
End Fwd.

Definition ex_ix : N -> nat := mod_index (fun k => k) 2.
Definition ex_progs (t : nat) : list op :=
  match t with
  | 0 => [OStore 1 5; OLen; ORange (fun _ => true)]
  | 1 => [OLoad 1; OStore 2 7]
  | _ => []
  end.

Definition ex_trace : list mark :=
  [MInv 0 0 (OStore 1 5); MInv 1 1 (OLoad 1); MPt 0 (OStore 1 5) EIns; MPt 1 (OLoad 1) ENone;
   MRes 0 (OStore 1 5) RUnit; MRes 1 (OLoad 1) (RLoad (Some 5%N));
   MInv 6 0 OLen; MInv 7 1 (OStore 2 7); MPt 7 (OStore 2 7) EIns; MRes 6 OLen (RLen 1);
   MRes 7 (OStore 2 7) RUnit; MInv 11 0 (ORange (fun _ => true));
   MRes 11 (ORange (fun _ => true)) (RRange [(2, 7); (1, 5)]%N true)].

Ltac stp r tid := eapply steps_cons; [eapply r with (t := tid); try reflexivity; try (constructor; fail)|]; cbn [first_shard init_acc after_unlock length app pt_marks Nat.ltb Nat.leb].

Lemma ex_run : exists st, reach ex_ix 2 ex_progs st /\ trace st = ex_trace /\ shards st = [[(2, 7)]; [(1, 5)]]%N.
Proof.
  eexists. split.
  - eapply reach_steps; [apply reach_init|]. unfold init_state.
    stp s_invoke 0. stp s_invoke 1.
    stp s_lock 0. stp s_body 0. stp s_unlock 0.
    stp s_lock 1. stp s_body 1.
    stp s_return 0. stp s_unlock 1. stp s_return 1.
    (* Len by thread 0 reads shard 0 (empty), then thread 1 inserts key 2 into shard 0, then shard 1 *)
    stp s_invoke 0. stp s_lock 0. stp s_body 0. stp s_unlock 0.
    stp s_invoke 1. stp s_lock 1. stp s_body 1. stp s_unlock 1.
    stp s_lock 0. stp s_body 0. stp s_unlock 0. stp s_return 0. stp s_return 1.
    (* Range by thread 0 over both shards *)
    stp s_invoke 0. stp s_lock 0.
    eapply steps_cons; [eapply s_body with (t := 0); [reflexivity|apply b_range; apply Permutation_refl]|].
    stp s_unlock 0. stp s_lock 0.
    eapply steps_cons; [eapply s_body with (t := 0); [reflexivity|apply b_range; apply Permutation_refl]|].
    stp s_unlock 0. stp s_return 0.
    apply steps_refl.
  - split; reflexivity.
Qed.
