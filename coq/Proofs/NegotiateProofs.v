(* Proofs for C12: parsing a rendered parameter list gives its meaning (any order, any ASCII padding),
   and the two endpoints of a gws-to-gws handshake hold the same parameters. *)
From Gws Require Import Lib.Base Model.Negotiate Spec.NegotiationSpec Proofs.StrProofs.
From Coq Require Import Permutation.
Local Open Scope Z_scope.

(* ---- the spec's vocabulary is the model's ---- *)

Lemma sep_concat_join sep l : sep_concat sep l = join sep l.
Proof.
  induction l as [|x l IH]; [reflexivity|]. destruct l as [|y l]; [reflexivity|].
  change (x ++ sep ++ sep_concat sep (y :: l) = x ++ sep ++ join sep (y :: l)). rewrite IH. reflexivity.
Qed.

Lemma ascii_space_is_space b : ascii_space b = is_space b.
Proof. unfold ascii_space, is_space. lia. Qed.

Lemma all_space_allsp w : all_space w -> allsp w = true.
Proof.
  unfold all_space, allsp. intro H. rewrite forallb_forall in *. intros x Hx.
  rewrite <- ascii_space_is_space. apply H. exact Hx.
Qed.

(* ---- one parameter ---- *)

(* permessageNegotiation's loop body, at parameter level *)
Definition pstep (o : PD) (p : param) : PD :=
  match p with
  | PName => o
  | PServerNoContextTakeover => mkPD (enabled o) false (cct o) (smwb o) (cmwb o) (threshold o) (level o)
  | PClientNoContextTakeover => mkPD (enabled o) (sct o) false (smwb o) (cmwb o) (threshold o) (level o)
  | PServerMaxWindowBits v =>
    mkPD (enabled o) (sct o) (cct o) (Z.min (smwb o) (eff (Z.min (dec_value v) int_max))) (cmwb o) (threshold o) (level o)
  | PClientMaxWindowBits (Some v) =>
    mkPD (enabled o) (sct o) (cct o) (smwb o) (Z.min (cmwb o) (eff (Z.min (dec_value v) int_max))) (threshold o) (level o)
  | PClientMaxWindowBits None => o
  | POther _ _ => o
  end.

Lemma go_min_min a b : go_min a b = Z.min a b.
Proof. unfold go_min. destruct (a <? b) eqn:E; lia. Qed.

Lemma lacks_no_byte x k : lacks x k = no_byte x k.
Proof. reflexivity. Qed.

Lemma starts_clean_edge_ok t : starts_clean t = edge_ok t.
Proof. destruct t; [reflexivity|]. cbn. rewrite ascii_space_is_space. reflexivity. Qed.

Lemma bytes_neq a b : a <> b -> bytes_eqb a b = false.
Proof. intro H. destruct (bytes_eqb a b) eqn:E; [|reflexivity]. apply bytes_eqb_eq in E. contradiction. Qed.

Lemma neg_step_unknown o s k v : cut_eq s = (k, v) -> ~ In k known_names -> neg_step o s = o.
Proof.
  intros H Hn. unfold neg_step. rewrite H.
  assert (forall x, In x known_names -> bytes_eqb k x = false) as Hx
    by (intros x Hin; apply bytes_neq; intro E; apply Hn; rewrite E; exact Hin).
  rewrite (Hx K_PMD), (Hx K_SNCT), (Hx K_CNCT), (Hx K_SMWB), (Hx K_CMWB) by (cbn; tauto).
  reflexivity.
Qed.

Lemma neg_step_render o p : wf_param p -> neg_step o (render_param p) = pstep o p.
Proof.
  destruct p as [| | |v|[v|]|k [v|]]; intro H; try reflexivity.
  - destruct H as [Hne Hd].
    change (neg_step o (render_param (PServerMaxWindowBits v)))
      with (mkPD (enabled o) (sct o) (cct o) (go_min (smwb o) (with_default (atoi v) 15)) (cmwb o) (threshold o) (level o)).
    rewrite atoi_digits by assumption. rewrite go_min_min. reflexivity.
  - destruct H as [Hne Hd].
    change (neg_step o (render_param (PClientMaxWindowBits (Some v))))
      with (mkPD (enabled o) (sct o) (cct o) (smwb o) (go_min (cmwb o) (with_default (atoi v) 15)) (threshold o) (level o)).
    rewrite atoi_digits by assumption. rewrite go_min_min. reflexivity.
  - destruct H as (_ & _ & _ & He & Hn & _). cbn [pstep].
    apply (neg_step_unknown o _ k (Some v)); [|exact Hn]. apply (cut_eq_some k v). exact He.
  - destruct H as (_ & _ & _ & He & Hn & _). cbn [pstep].
    apply (neg_step_unknown o _ k None); [|exact Hn]. apply cut_eq_none. exact He.
Qed.

Lemma digit_not_space a : is_digit a = true -> is_space a = false.
Proof. unfold is_digit, is_space. lia. Qed.

Lemma digit_not_semi a : is_digit a = true -> negb (N.eqb a b_semi) = true.
Proof. unfold is_digit, b_semi. lia. Qed.

Lemma value_tail_ok (k v : bstr) : wf_value v -> edge_ok k = true -> no_byte b_semi k = true ->
  tok_ok (k ++ [61%N] ++ v) = true.
Proof.
  intros [Hne Hd] Hk Hs. unfold tok_ok. rewrite !andb_true_iff. repeat split.
  - destruct k; [discriminate|exact Hk].
  - rewrite !rev_app_distr. destruct (rev v) as [|a r] eqn:E.
    + exfalso. apply Hne. rewrite <- (rev_involutive v), E. reflexivity.
    + cbn. rewrite digit_not_space; [reflexivity|].
      rewrite forallb_forall in Hd. apply Hd. apply in_rev. rewrite E. left. reflexivity.
  - rewrite !no_byte_app, Hs. cbn. unfold no_byte. apply forallb_forall. intros x Hx.
    apply digit_not_semi. rewrite forallb_forall in Hd. apply Hd. exact Hx.
Qed.

Lemma edge_ok_app t r : edge_ok t = true -> edge_ok (t ++ r) = true.
Proof. destruct t; [discriminate|]. intro H; exact H. Qed.

Lemma tok_ok_other k v : wf_other k v -> tok_ok (render_param (POther k v)) = true.
Proof.
  intros (A & B & C & _ & _ & D). rewrite starts_clean_edge_ok in A, B. rewrite lacks_no_byte in C.
  destruct v as [v|]; cbn [render_param]; unfold tok_ok.
  - destruct D as [D1 D2]. rewrite lacks_no_byte in D1. rewrite !andb_true_iff. repeat split.
    + apply edge_ok_app. exact A.
    + rewrite !rev_app_distr. destruct D2 as [->|D2]; [reflexivity|].
      rewrite starts_clean_edge_ok in D2. rewrite <- app_assoc. apply edge_ok_app. exact D2.
    + unfold b_semi. rewrite !no_byte_app, C, D1. reflexivity.
  - unfold b_semi. rewrite A, B, C. reflexivity.
Qed.

Lemma tok_ok_render p : wf_param p -> tok_ok (render_param p) = true.
Proof.
  destruct p as [| | |v|[v|]|k v]; intro H; try reflexivity;
    try (apply value_tail_ok; try exact H; reflexivity).
  apply tok_ok_other. exact H.
Qed.

Lemma render_param_nonempty p : wf_param p -> nonempty (render_param p) = true.
Proof.
  intro H. apply edge_ok_nonempty. pose proof (tok_ok_render p H) as T. unfold tok_ok in T.
  rewrite !andb_true_iff in T. tauto.
Qed.

(* ---- a whole list ---- *)

Lemma fold_neg_step ps : Forall wf_param ps -> forall o,
  fold_left neg_step (map render_param ps) o = fold_left pstep ps o.
Proof.
  induction 1 as [|p ps Hp _ IH]; intro o; [reflexivity|].
  cbn [map fold_left]. rewrite neg_step_render by exact Hp. apply IH.
Qed.

Lemma fold_min_init a x l : fold_right Z.min (Z.min a x) l = Z.min x (fold_right Z.min a l).
Proof. induction l as [|y l IH]; cbn; [lia|]. rewrite IH. lia. Qed.

Lemma fold_min_le a l : fold_right Z.min a l <= a.
Proof. induction l; cbn; lia. Qed.

Lemma eff_sat d r : r <= 15 -> Z.min r (eff (Z.min d int_max)) = Z.min r (eff d).
Proof. unfold eff, int_max. intro H. destruct (d =? 0) eqn:E1; destruct (Z.min d _ =? 0) eqn:E2; lia. Qed.

Lemma fold_pstep ps : forall o, smwb o <= 15 -> cmwb o <= 15 ->
  fold_left pstep ps o =
  mkPD (enabled o) (sct o && negb (existsb is_snct ps)) (cct o && negb (existsb is_cnct ps))
       (fold_right Z.min (smwb o) (server_vals ps)) (fold_right Z.min (cmwb o) (client_vals ps))
       (threshold o) (level o).
Proof.
  induction ps as [|p ps IH]; intros o Hs Hc.
  - cbn. rewrite !andb_true_r. destruct o; reflexivity.
  - cbn [fold_left]. destruct p as [| | |v|[v|]|k ov]; cbn [pstep]; rewrite IH; cbn [enabled sct cct smwb cmwb threshold level];
      try assumption; try lia; cbn [existsb is_snct is_cnct server_vals client_vals flat_map app orb negb fold_right];
      rewrite ?andb_false_r, ?eff_sat by assumption; try reflexivity.
    + rewrite fold_min_init. reflexivity.
    + rewrite fold_min_init. reflexivity.
Qed.

Definition pd_of_reading (r : reading) : PD :=
  mkPD false (r_server_takeover r) (r_client_takeover r) (r_server_bits r) (r_client_bits r) 0 0.

Lemma clamp_max x : select_value (x <? 8) 8 x = Z.max 8 x.
Proof. unfold select_value. destruct (x <? 8) eqn:E; lia. Qed.

Lemma negotiate_tokens ps : Forall wf_param ps ->
  neg_clamp (fold_left neg_step (map render_param ps) neg_init) = pd_of_reading (meaning ps).
Proof.
  intro H. rewrite fold_neg_step by exact H. rewrite fold_pstep by (cbn; lia).
  unfold neg_clamp, pd_of_reading, meaning, bits_meaning.
  cbn [enabled sct cct smwb cmwb threshold level neg_init r_server_takeover r_client_takeover r_server_bits r_client_bits].
  rewrite !clamp_max. reflexivity.
Qed.

Definition to_triple (x : padded) : triple :=
  let '(w1, p, w2) := x in (w1, match p with Some p => render_param p | None => [] end, w2).

Lemma pad_ok_triple l : Forall pad_ok l -> forallb triple_ok (map to_triple l) = true.
Proof.
  induction 1 as [|[[w1 p] w2] l [H1 [H2 Hp]] _ IH]; [reflexivity|].
  cbn [map forallb to_triple triple_ok]. rewrite IH, (all_space_allsp w1), (all_space_allsp w2) by assumption.
  destruct p as [p|]; [rewrite tok_ok_render by exact Hp|]; reflexivity.
Qed.

Lemma params_of_wf l : Forall pad_ok l -> Forall wf_param (params_of l).
Proof.
  induction 1 as [|[[w1 p] w2] l [H1 [H2 Hp]] _ IH]; [constructor|].
  unfold params_of. cbn [flat_map fst snd]. destruct p as [p|]; [constructor; assumption|exact IH].
Qed.

Lemma tokens_of_padded l : Forall pad_ok l ->
  filter nonempty (map tok3 (map to_triple l)) = map render_param (params_of l).
Proof.
  induction 1 as [|[[w1 p] w2] l [H1 [H2 Hp]] _ IH]; [reflexivity|].
  unfold params_of. cbn [map to_triple tok3 fst snd filter flat_map]. destruct p as [p|].
  - rewrite render_param_nonempty by exact Hp. cbn [app map]. f_equal. exact IH.
  - cbn [nonempty app]. exact IH.
Qed.

(* parsing a padded rendering gives the meaning of the list *)
Lemma parse_render_padded l : Forall pad_ok l ->
  permessage_negotiation (render_padded l) = pd_of_reading (meaning (params_of l)).
Proof.
  intro H. unfold permessage_negotiation, render_padded. change sep_concat with join.
  replace (map render_segment l) with (map seg3 (map to_triple l))
    by (rewrite map_map; apply map_ext; intros [[w1 p] w2]; reflexivity).
  change [59%N] with [b_semi]. rewrite utils_split_padded by (apply pad_ok_triple; exact H).
  rewrite tokens_of_padded by exact H.
  apply negotiate_tokens. apply params_of_wf. exact H.
Qed.

(* the canonical "; " spelling is one particular padding *)
Definition canon_pad (ps : list param) : list padded :=
  match ps with
  | [] => []
  | p :: r => ([], Some p, []) :: map (fun q => ([32%N], Some q, [])) r
  end.

Lemma render_canon ps : render ps = render_padded (canon_pad ps).
Proof.
  unfold render, render_padded. change sep_concat with join.
  destruct ps as [|p r]; [reflexivity|].
  cbn [canon_pad map]. rewrite !join_cons. cbn [render_segment app]. rewrite app_nil_r.
  f_equal. f_equal. rewrite !map_map. apply map_ext. intro q. cbn. rewrite app_nil_r. reflexivity.
Qed.

Lemma params_of_canon ps : params_of (canon_pad ps) = ps.
Proof.
  assert (T : forall r, params_of (map (fun q => ([32%N], Some q, [])) r) = r)
    by (induction r as [|q r IH]; [reflexivity|]; unfold params_of in *; cbn; f_equal; exact IH).
  destruct ps as [|p r]; [reflexivity|]. unfold params_of in *. cbn. f_equal. apply T.
Qed.

Lemma pad_ok_canon ps : Forall wf_param ps -> Forall pad_ok (canon_pad ps).
Proof.
  destruct 1 as [|p r Hp Hr]; [constructor|]. cbn. constructor.
  - cbn. repeat split; try reflexivity. exact Hp.
  - apply Forall_forall. intros x Hin. apply in_map_iff in Hin as [q [<- Hin]].
    rewrite Forall_forall in Hr. cbn. repeat split; try reflexivity. apply Hr. exact Hin.
Qed.

Lemma parse_render ps : Forall wf_param ps ->
  permessage_negotiation (render ps) = pd_of_reading (meaning ps).
Proof.
  intro H. rewrite render_canon, parse_render_padded by (apply pad_ok_canon; exact H).
  rewrite params_of_canon. reflexivity.
Qed.

(* ---- order ---- *)

Lemma existsb_perm {A} (f : A -> bool) l1 l2 : Permutation l1 l2 -> existsb f l1 = existsb f l2.
Proof.
  induction 1 as [|x l1 l2 _ IH|x y l|l1 l2 l3 _ IH1 _ IH2]; cbn; try congruence.
  destruct (f x), (f y); reflexivity.
Qed.

Lemma fold_min_perm a l1 l2 : Permutation l1 l2 -> fold_right Z.min a l1 = fold_right Z.min a l2.
Proof.
  induction 1 as [|x l1 l2 _ IH|x y l|l1 l2 l3 _ IH1 _ IH2]; cbn; try congruence; lia.
Qed.

Lemma meaning_perm ps qs : Permutation ps qs -> meaning ps = meaning qs.
Proof.
  intro H. unfold meaning, bits_meaning, server_vals, client_vals.
  rewrite (existsb_perm is_snct _ _ H), (existsb_perm is_cnct _ _ H).
  rewrite (fold_min_perm 15 _ _ (Permutation_flat_map _ H)).
  f_equal. f_equal. apply fold_min_perm. apply Permutation_flat_map. exact H.
Qed.

Lemma wf_perm ps qs : Permutation ps qs -> Forall wf_param ps -> Forall wf_param qs.
Proof. intros H F. rewrite Forall_forall in *. intros x Hx. apply F. eapply Permutation_in; [symmetry; exact H|exact Hx]. Qed.

Lemma parse_permutation ps qs : Forall wf_param ps -> Permutation ps qs ->
  permessage_negotiation (render ps) = permessage_negotiation (render qs).
Proof.
  intros F H. rewrite !parse_render by (try exact F; eapply wf_perm; eassumption).
  rewrite (meaning_perm _ _ H). reflexivity.
Qed.

Lemma parse_padded_permutation l1 l2 : Forall pad_ok l1 -> Forall pad_ok l2 ->
  Permutation (params_of l1) (params_of l2) ->
  permessage_negotiation (render_padded l1) = permessage_negotiation (render_padded l2).
Proof.
  intros F1 F2 H. rewrite !parse_render_padded by assumption. rewrite (meaning_perm _ _ H). reflexivity.
Qed.

Lemma parse_whitespace l : Forall pad_ok l ->
  permessage_negotiation (render_padded l) = permessage_negotiation (render (params_of l)).
Proof.
  intro F. rewrite parse_render_padded by exact F. rewrite parse_render; [reflexivity|].
  apply params_of_wf. exact F.
Qed.

(* an RFC-valid single value means itself *)
Lemma bits_meaning_single n : 8 <= n <= 15 -> bits_meaning [eff n] = n.
Proof. unfold bits_meaning, eff. cbn. intro H. destruct (n =? 0) eqn:E; lia. Qed.
