(* C19, concurrent layer, part 1: what is observed of a run (history, replayed map contents, effect
   counters) and the base invariant of every reachable state. *)
From Gws Require Import Lib.Base Model.ShardMap Spec.AtomicMap Proofs.ShardMapSeq Proofs.LinProofs.
From Coq Require Import Sorting.Permutation.

(* ------------------------------------------------------------------------------------------- *)
(* observations on the recorded trace                                                           *)

Definition mop_of (o : op) : option mop :=
  match o with
  | OLoad k => Some (MLoad k) | OStore k v => Some (MStore k v) | ODelete k => Some (MDelete k)
  | OLen | ORange _ => None
  end.
Definition mres_of (r : res) : mres := match r with RLoad v => MRVal v | _ => MRUnit end.

(* the single-key operations of the trace, as an instrumented history of the atomic map *)
Definition proj1 (m : mark) : list (imark mop mres) :=
  match m with
  | MInv id t o => match mop_of o with Some mo => [IInv id t mo] | None => [] end
  | MPt id o _ => match mop_of o with Some _ => [IPt id] | None => [] end
  | MRes id o r => match mop_of o with Some _ => [IRes id (mres_of r)] | None => [] end
  end.
Definition proj (tr : list mark) : list (imark mop mres) := flat_map proj1 tr.
(* THE HISTORY of Load/Store/Delete invocations and responses *)
Definition history (tr : list mark) : list (event mop mres) := erase (proj tr).

(* value of key k after the effects recorded in tr (last writer wins) *)
Definition replay1 (k : N) (cur : option N) (m : mark) : option N :=
  match m with
  | MPt _ (OStore k' v) _ => if N.eqb k k' then Some v else cur
  | MPt _ (ODelete k') _ => if N.eqb k k' then None else cur
  | _ => cur
  end.
Definition replay (tr : list mark) (k : N) : option N := fold_left (replay1 k) tr None.

(* no Store/Delete of key k takes effect in tr *)
Definition touches (k : N) (m : mark) : bool :=
  match m with
  | MPt _ (OStore k' _) _ => N.eqb k k'
  | MPt _ (ODelete k') _ => N.eqb k k'
  | _ => false
  end.
Definition untouched (k : N) (tr : list mark) : Prop := forallb (fun m => negb (touches k m)) tr = true.

(* number of Store bodies that inserted a new key / Delete bodies that removed a present key *)
Definition is_ins (m : mark) : bool := match m with MPt _ _ EIns => true | _ => false end.
Definition is_del (m : mark) : bool := match m with MPt _ _ EDel => true | _ => false end.
Definition ins (tr : list mark) : nat := length (filter is_ins tr).
Definition dels (tr : list mark) : nat := length (filter is_del tr).
(* number of entries after tr *)
Definition msize (tr : list mark) : nat := ins tr - dels tr.

Lemma ins_app a b : ins (a ++ b) = ins a + ins b.
Proof. unfold ins. rewrite filter_app, app_length. reflexivity. Qed.
Lemma dels_app a b : dels (a ++ b) = dels a + dels b.
Proof. unfold dels. rewrite filter_app, app_length. reflexivity. Qed.
Lemma replay_app a b k : replay (a ++ b) k = fold_left (replay1 k) b (replay a k).
Proof. apply fold_left_app. Qed.
Lemma proj_app a b : proj (a ++ b) = proj a ++ proj b.
Proof. apply flat_map_app. Qed.
Lemma untouched_app k a b : untouched k (a ++ b) <-> untouched k a /\ untouched k b.
Proof. unfold untouched. rewrite forallb_app, andb_true_iff. tauto. Qed.

Lemma untouched_replay k b : untouched k b -> forall c, fold_left (replay1 k) b c = c.
Proof.
  induction b as [|m b IH]; cbn; auto. unfold untouched. cbn. intros H c.
  apply andb_true_iff in H as [H1 H2]. rewrite (IH H2).
  destruct m as [id t o|id o e|id o r]; cbn in *; auto.
  destruct o; cbn in *; auto; destruct (N.eqb k k0); cbn in *; congruence.
Qed.

(* ---- small list facts ---- *)
Lemma set_eq {A} (g : nat -> A) i x : set g i x i = x.
Proof. unfold set. rewrite Nat.eqb_refl. reflexivity. Qed.
Lemma set_neq {A} (g : nat -> A) i j x : j <> i -> set g i x j = g j.
Proof. intro H. unfold set. destruct (Nat.eqb_spec j i); congruence. Qed.

Lemma nth_error_app_some {A} (l l' : list A) p x : nth_error l p = Some x -> nth_error (l ++ l') p = Some x.
Proof. intro H. rewrite nth_error_app1; auto. apply nth_error_Some. congruence. Qed.

Lemma nth_error_app_inv {A} (l l' : list A) p x : nth_error (l ++ l') p = Some x ->
  nth_error l p = Some x \/ (length l <= p /\ nth_error l' (p - length l) = Some x).
Proof.
  intro H. destruct (Nat.lt_ge_cases p (length l)) as [Hlt|Hge].
  - left. rewrite nth_error_app1 in H; auto.
  - right. rewrite nth_error_app2 in H; auto.
Qed.

Lemma nth_error_mid {A} (l : list A) x l' : nth_error (l ++ x :: l') (length l) = Some x.
Proof. rewrite nth_error_app2 by lia. rewrite Nat.sub_diag. reflexivity. Qed.

Lemma firstn_app_le {A} p (l l' : list A) : p <= length l -> firstn p (l ++ l') = firstn p l.
Proof. intro H. rewrite firstn_app. replace (p - length l) with 0 by lia. cbn. apply app_nil_r. Qed.

Lemma cm_len_skipn_upd b j f M : j < length M ->
  cm_len (skipn b (upd j f M)) + (if b <=? j then length (nth j M []) else 0)
  = cm_len (skipn b M) + (if b <=? j then length (f (nth j M [])) else 0).
Proof.
  revert b j. induction M as [|x M IH]; intros b j Hj; cbn in Hj; [lia|].
  destruct b as [|b]; destruct j as [|j]; cbn [skipn upd nth Nat.leb cm_len].
  - lia.
  - specialize (IH 0 j). cbn [skipn Nat.leb] in IH. specialize (IH ltac:(lia)). lia.
  - lia.
  - apply IH. lia.
Qed.

Lemma cm_len_skipn_S i M : cm_len (skipn i M) = length (nth i M []) + cm_len (skipn (S i) M).
Proof.
  revert i. induction M as [|x M IH]; intro i.
  - destruct i; reflexivity.
  - destruct i as [|i]; [reflexivity|]. cbn [skipn nth]. rewrite IH. reflexivity.
Qed.

Lemma cm_len_skipn_all i M : length M <= i -> cm_len (skipn i M) = 0.
Proof. intro H. rewrite skipn_all2 by auto. reflexivity. Qed.

Section Conc.
Variable ix : N -> nat.
Variable n : nat.
Hypothesis ix_lt : forall k, ix k < n.
Variable progs : nat -> list op.

Notation step := (step ix n).
Notation reach := (reach ix n progs).
Notation shard_inv := (shard_inv ix n).

Definition cur_id (ts : tstate) : option (nat * op) :=
  match ts with Idle => None | Run fr => Some (f_id fr, f_op fr) | Ret id o _ => Some (id, o) end.
Definition key_shard_ok (fr : frame) : Prop :=
  match f_op fr with OLoad k | OStore k _ | ODelete k => f_shard fr = ix k | _ => True end.
Definition pos_ok (tr : list mark) : Prop :=
  forall p id t o, nth_error tr p = Some (MInv id t o) -> id = p.

Record base (st : state) : Prop := {
  B_inv : shard_inv (shards st);
  B_pos : pos_ok (trace st);
  B_thr : forall t id o, cur_id (t_st (threads st t)) = Some (id, o) ->
            nth_error (trace st) id = Some (MInv id t o);
  B_key : forall t fr, t_st (threads st t) = Run fr -> key_shard_ok fr;
  B_replay : forall k, replay (trace st) k = abs (shards st) k;
  B_size : cm_len (shards st) + dels (trace st) = ins (trace st)
}.

Lemma pos_ok_app tr l : pos_ok tr ->
  (forall q id t o, nth_error l q = Some (MInv id t o) -> id = length tr + q) -> pos_ok (tr ++ l).
Proof.
  intros H Hl p id t o Hn. apply nth_error_app_inv in Hn as [Hn|[Hle Hn]]; [eauto|].
  apply Hl in Hn. lia.
Qed.

Lemma pt_marks_noinv id o i M q id' t' o' : nth_error (pt_marks id o i M) q <> Some (MInv id' t' o').
Proof. destruct o; cbn; destruct q as [|[|q]]; cbn; congruence. Qed.

(* what a body step does to the shards, the replayed map and the counters *)
Lemma body_effect st id o i a M' a' :
  base st -> key_shard_ok (Frame id o i Locked a) -> body o i (shards st) a M' a' ->
  shard_inv M' /\
  (forall k, fold_left (replay1 k) (pt_marks id o i (shards st)) (abs (shards st) k) = abs M' k) /\
  (forall b, cm_len (skipn b M') + dels (pt_marks id o i (shards st))
             = cm_len (skipn b (shards st)) + (if b <=? i then ins (pt_marks id o i (shards st)) else 0)
     \/ cm_len (skipn b M') = cm_len (skipn b (shards st))) /\
  cm_len M' + dels (pt_marks id o i (shards st)) = cm_len (shards st) + ins (pt_marks id o i (shards st)).
Proof.
  intros HB Hk Hb. pose proof (B_inv _ HB) as Hinv. cbn in Hk.
  inversion Hb; subst; cbn [pt_marks fold_left replay1 key_shard_ok f_op f_shard] in *.
  - (* load *) split; [|split; [|split]]; auto.
  - (* store *)
    subst i. fold (cm_store ix (shards st) k v). split; [|split; [|split]].
    + apply shard_inv_store; auto.
    + intro k'. rewrite (cm_store_abs ix n ix_lt) by auto. reflexivity.
    + intro b. left. unfold cm_store.
      assert (Hlt : ix k < length (shards st)) by (destruct Hinv as [-> _]; apply ix_lt).
      pose proof (cm_len_skipn_upd b (ix k) (a_store k v) (shards st) Hlt) as E.
      destruct Hinv as [_ Hs]. destruct (Hs (ix k)) as [Hnd _]. cbn in Hnd.
      rewrite (a_store_length k v _ Hnd) in E. unfold shard.
      destruct (a_mem k (nth (ix k) (shards st) [])); cbn; destruct (b <=? ix k); lia.
    + unfold cm_store.
      assert (Hlt : ix k < length (shards st)) by (destruct Hinv as [-> _]; apply ix_lt).
      pose proof (cm_len_skipn_upd 0 (ix k) (a_store k v) (shards st) Hlt) as E. cbn [skipn Nat.leb] in E.
      destruct Hinv as [_ Hs]. destruct (Hs (ix k)) as [Hnd _]. cbn in Hnd.
      rewrite (a_store_length k v _ Hnd) in E. unfold shard.
      destruct (a_mem k (nth (ix k) (shards st) [])); cbn; lia.
  - (* delete *)
    subst i. fold (cm_delete ix (shards st) k). split; [|split; [|split]].
    + apply shard_inv_delete; auto.
    + intro k'. rewrite (cm_delete_abs ix n ix_lt) by auto. reflexivity.
    + intro b. unfold cm_delete.
      assert (Hlt : ix k < length (shards st)) by (destruct Hinv as [-> _]; apply ix_lt).
      pose proof (cm_len_skipn_upd b (ix k) (a_delete k) (shards st) Hlt) as E.
      destruct Hinv as [_ Hs]. destruct (Hs (ix k)) as [Hnd _]. cbn in Hnd.
      pose proof (a_delete_length k _ Hnd) as E2. unfold shard.
      destruct (a_mem k (nth (ix k) (shards st) [])); cbn; destruct (b <=? ix k); [left|right|left|right]; lia.
    + unfold cm_delete.
      assert (Hlt : ix k < length (shards st)) by (destruct Hinv as [-> _]; apply ix_lt).
      pose proof (cm_len_skipn_upd 0 (ix k) (a_delete k) (shards st) Hlt) as E. cbn [skipn Nat.leb] in E.
      destruct Hinv as [_ Hs]. destruct (Hs (ix k)) as [Hnd _]. cbn in Hnd.
      pose proof (a_delete_length k _ Hnd) as E2. unfold shard.
      destruct (a_mem k (nth (ix k) (shards st) [])); cbn; lia.
  - (* len *) split; [|split; [|split]]; auto.
  - (* range *) split; [|split; [|split]]; auto.
Qed.

Lemma base_init : base (init_state n progs).
Proof.
  constructor; cbn.
  - apply shard_inv_new.
  - intros p id t o H. destruct p; discriminate.
  - intros t id o H. discriminate.
  - intros t fr H. discriminate.
  - intro k. unfold replay, abs. cbn. clear. induction n; cbn; auto.
  - unfold cm_new. clear. induction n; cbn; auto.
Qed.

Lemma step_base st st' : base st -> step st st' -> base st'.
Proof.
  intros HB Hs. pose proof HB as [B1 B2 B3 B4 B5 B6].
  inversion Hs; subst; cbn [shards trace threads locks] in *.
  - (* invoke *)
    constructor; cbn [shards trace threads locks]; auto.
    + apply pos_ok_app; auto. intros [|q] id' t' o' Hq; cbn in Hq; [|destruct q; discriminate].
      inversion Hq; subst. lia.
    + intros t' id' o' Hc. destruct (Nat.eq_dec t' t) as [->|Hne].
      * rewrite set_eq in Hc. cbn in Hc. inversion Hc; subst. apply nth_error_mid.
      * rewrite set_neq in Hc by auto. apply nth_error_app_some. auto.
    + intros t' fr Hc. destruct (Nat.eq_dec t' t) as [->|Hne].
      * rewrite set_eq in Hc. cbn in Hc. inversion Hc; subst. unfold key_shard_ok. cbn. destruct o; auto.
      * rewrite set_neq in Hc by auto. eauto.
    + intro k. rewrite replay_app. cbn. auto.
    + rewrite ins_app, dels_app. cbn. lia.
  - (* lock *)
    constructor; cbn [shards trace threads locks]; auto.
    + intros t' id' o' Hc. destruct (Nat.eq_dec t' t) as [->|Hne].
      * rewrite set_eq in Hc. cbn in Hc. apply B3. rewrite H. exact Hc.
      * rewrite set_neq in Hc by auto. auto.
    + intros t' fr Hc. destruct (Nat.eq_dec t' t) as [->|Hne].
      * rewrite set_eq in Hc. cbn in Hc. inversion Hc; subst.
        specialize (B4 t _ ltac:(rewrite H; reflexivity)). exact B4.
      * rewrite set_neq in Hc by auto. eauto.
  - (* body *)
    assert (Hk : key_shard_ok (Frame id o i Locked a)) by (apply (B4 t); rewrite H; reflexivity).
    destruct (body_effect _ id o i a M' a' HB Hk H0) as (E1 & E2 & E3 & E4). cbn [shards] in *.
    constructor; cbn [shards trace threads locks]; auto.
    + apply pos_ok_app; auto. intros q id' t' o' Hq. exfalso. eapply pt_marks_noinv; eauto.
    + intros t' id' o' Hc. apply nth_error_app_some. destruct (Nat.eq_dec t' t) as [->|Hne].
      * rewrite set_eq in Hc. cbn in Hc. apply B3. rewrite H. exact Hc.
      * rewrite set_neq in Hc by auto. auto.
    + intros t' fr Hc. destruct (Nat.eq_dec t' t) as [->|Hne].
      * rewrite set_eq in Hc. cbn in Hc. inversion Hc; subst. exact Hk.
      * rewrite set_neq in Hc by auto. eauto.
    + intro k. rewrite replay_app, B5. apply E2.
    + rewrite ins_app, dels_app. lia.
  - (* unlock *)
    constructor; cbn [shards trace threads locks]; auto.
    + intros t' id' o' Hc. destruct (Nat.eq_dec t' t) as [->|Hne].
      * rewrite set_eq in Hc. cbn [t_st] in Hc. apply B3. rewrite H. cbn.
        unfold after_unlock in Hc. destruct o; try exact Hc;
          repeat (match type of Hc with context [match ?x with _ => _ end] => destruct x end); exact Hc.
      * rewrite set_neq in Hc by auto. auto.
    + intros t' fr Hc. destruct (Nat.eq_dec t' t) as [->|Hne].
      * rewrite set_eq in Hc. cbn [t_st] in Hc. unfold after_unlock in Hc.
        destruct o; try discriminate;
          repeat (match type of Hc with context [match ?x with _ => _ end] => destruct x end);
          try discriminate; inversion Hc; subst; exact I.
      * rewrite set_neq in Hc by auto. eauto.
  - (* return *)
    constructor; cbn [shards trace threads locks]; auto.
    + apply pos_ok_app; auto. intros [|q] id' t' o' Hq; cbn in Hq; [discriminate|destruct q; discriminate].
    + intros t' id' o' Hc. destruct (Nat.eq_dec t' t) as [->|Hne].
      * rewrite set_eq in Hc. discriminate.
      * rewrite set_neq in Hc by auto. apply nth_error_app_some. auto.
    + intros t' fr Hc. destruct (Nat.eq_dec t' t) as [->|Hne].
      * rewrite set_eq in Hc. discriminate.
      * rewrite set_neq in Hc by auto. eauto.
    + intro k. rewrite replay_app. cbn. auto.
    + rewrite ins_app, dels_app. cbn. lia.
Qed.

Lemma reach_base st : reach st -> base st.
Proof. induction 1; [apply base_init|eapply step_base; eauto]. Qed.

(* two threads never work on the same operation id *)
Lemma ids_distinct st t t' id o o' : base st ->
  cur_id (t_st (threads st t)) = Some (id, o) -> cur_id (t_st (threads st t')) = Some (id, o') -> t = t'.
Proof.
  intros HB H1 H2. apply (B_thr _ HB) in H1. apply (B_thr _ HB) in H2. congruence.
Qed.

Lemma cur_id_lt st t id o : base st -> cur_id (t_st (threads st t)) = Some (id, o) -> id < length (trace st).
Proof. intros HB H. apply (B_thr _ HB) in H. apply nth_error_Some. congruence. Qed.

End Conc.
