(* the reader's guard ladders and reassembly conditions (reader.go) *)
From Gws Require Import Lib.Base Spec.Rfc6455 Gen.Consts Gen.Funcs Proofs.GenBase.
From Coq Require Import ZifyN ZifyNat ZifyBool.
Local Open Scope Z_scope.
From Gws Require Import Model.Header Model.CloseCode Model.Pool Proofs.GenHeaderProofs.

(* ---- the reader's guard ladders (reader.go: checkMask, the leading statements of readMessage and readControl) ---- *)
From Gws Require Import Model.Reader.

Lemma gen_checkMask_is server masked :
  gf_gws_Conn_checkMask server masked = if (server && negb masked) || (negb server && masked) then 1002 else 0.
Proof. reflexivity. Qed.

Ltac fin := repeat split; intros; first [reflexivity | assumption | exfalso; lia | discriminate | auto 6].

Section ReaderGuards.
Variable utf8_valid : list N -> bool.
Variable inflate : list N -> list N -> Z -> option (list N).
Variable W : Type.
Variable wdict : W -> list N.
Variable wwrite : W -> list N -> W.
Notation read_message := (Reader.read_message utf8_valid inflate W wdict wwrite).
Notation read_control := (Reader.read_control utf8_valid W).

(* the generated ladder, fed with the header the model parsed *)
Definition gen_guards (c : rcfg) (h : pheader) : Z :=
  gf_gws_Conn_readMessage (r_limit c) (r_server c) (r_pmd c) (get_fin (h_b0 h)) (get_mask (h_b1 h))
    (Z.of_N (get_opcode (h_b0 h))) (get_rsv1 (h_b0 h)) (get_rsv2 (h_b0 h)) (get_rsv3 (h_b0 h)) (h_len h) 0.

Lemma opcode_is_data op : gf_gws_Opcode_isDataFrame (Z.of_N op) = is_data_op op.
Proof. unfold gf_gws_Opcode_isDataFrame, is_data_op. change (Z.to_N gws_OpcodeBinary) with 2%N. lia. Qed.

(* What readMessage does before it touches the payload is what the source says, guard by guard and in the source's
   order: a positive result is the close status the model fails with; -1 means the frame is handed to readControl; 0 means
   all header checks passed for a data frame. *)
Theorem read_message_guards_from_source c st bs h rest :
  parse_header bs = POk h rest ->
  let g := gen_guards c h in
  (0 < g -> read_message c st bs = SStop W [] (OFail W (Z.to_N g)))
  /\ (g = -1 -> read_message c st bs = read_control c st h rest)
  /\ (g = 0 -> is_data_op (get_opcode (h_b0 h)) = true
               /\ ((h_len h <? 0) || (h_len h >? r_limit c))%Z = false
               /\ (get_rsv2 (h_b0 h) || get_rsv3 (h_b0 h) || (get_rsv1 (h_b0 h) && negb (r_pmd c))) = false
               /\ ((r_server c && negb (get_mask (h_b1 h))) || (negb (r_server c) && get_mask (h_b1 h))) = false
               /\ (r_pmd c && get_rsv1 (h_b0 h) && (negb (is_data_op (get_opcode (h_b0 h))) || (get_opcode (h_b0 h) =? 0)%N)) = false)
  /\ (g = 1009 \/ g = 1002 \/ g = -1 \/ g = 0).
Proof.
  intros Hp g. subst g. unfold gen_guards, gf_gws_Conn_readMessage, Reader.read_message. rewrite Hp.
  rewrite gen_checkMask_is, opcode_is_data. cbn [Z.eqb negb].
  change sc_too_large with 1009%N. change sc_protocol with 1002%N.
  destruct ((h_len h <? 0) || (h_len h >? r_limit c))%Z eqn:E1.
  { fin. }
  destruct (get_rsv2 (h_b0 h) || get_rsv3 (h_b0 h) || (get_rsv1 (h_b0 h) && negb (r_pmd c))) eqn:E2.
  { fin. }
  destruct ((r_server c && negb (get_mask (h_b1 h))) || (negb (r_server c) && get_mask (h_b1 h))) eqn:E3.
  { cbn [Z.eqb negb]. fin. }
  cbn [Z.eqb negb].
  replace (Z.of_N (get_opcode (h_b0 h)) =? 0)%Z with (get_opcode (h_b0 h) =? 0)%N by lia.
  destruct (r_pmd c && get_rsv1 (h_b0 h) && (negb (is_data_op (get_opcode (h_b0 h))) || (get_opcode (h_b0 h) =? 0)%N)) eqn:E4.
  { fin. }
  destruct (negb (is_data_op (get_opcode (h_b0 h)))) eqn:E5.
  { fin. }
  apply Bool.negb_false_iff in E5.
  fin.
Qed.

(* readControl's leading checks: not FIN or a length code above 125 -> 1002 *)
Theorem read_control_guards_from_source c st h rest :
  let g := gf_gws_Conn_readControl (get_fin (h_b0 h)) (Z.of_N (get_lencode (h_b1 h))) in
  (g = 1002 \/ g = 0) /\ (g = 1002 -> read_control c st h rest = SStop W [] (OFail W 1002%N)).
Proof.
  cbv zeta. unfold gf_gws_Conn_readControl, Reader.read_control. change sc_protocol with 1002%N.
  unfold thresholdV1. change (Z.to_N internal_ThresholdV1) with 125%N.
  destruct (get_fin (h_b0 h)); cbn [negb].
  - replace (Z.of_N (get_lencode (h_b1 h)) >? 125)%Z with (125 <? get_lencode (h_b1 h))%N by lia.
    destruct (125 <? get_lencode (h_b1 h))%N; split; auto; intro; try reflexivity; discriminate.
  - split; auto.
Qed.

(* ---- the rest of readMessage: after the payload has been read and unmasked, the model goes through the conditions of
   the source's remaining top-level `if` statements (#9 .. #14 of readMessage, regenerated as gf_..._cond9 .. cond14), in
   the source's order ---- *)
Notation emit_message := (Reader.emit_message utf8_valid inflate W wdict wwrite).

Definition reassemble_src (c : rcfg) (st : rstate W) (op : N) (fin compressed : bool) (p rest : list N) : step W :=
  if gf_gws_Conn_readMessage_cond9 (cf_init W st) (Z.of_N op) then SStop W [] (OFail W 1002%N) else
  if gf_gws_Conn_readMessage_cond10 fin (Z.of_N op) then emit_message c st op p compressed rest else
  let st1 := if gf_gws_Conn_readMessage_cond11 fin (Z.of_N op)
             then {| cf_init := true; cf_comp := compressed; cf_op := op; cf_buf := []; r_dps := r_dps W st |}
             else st in
  if gf_gws_Conn_readMessage_cond12 (cf_init W st1) then SStop W [] (OFail W 1002%N) else
  let buf := cf_buf W st1 ++ p in
  let st2 := {| cf_init := cf_init W st1; cf_comp := cf_comp W st1; cf_op := cf_op W st1; cf_buf := buf; r_dps := r_dps W st1 |} in
  if gf_gws_Conn_readMessage_cond13 (r_limit c) (Z.of_nat (length buf)) then SStop W [] (OFail W 1009%N) else
  if gf_gws_Conn_readMessage_cond14 fin then SCont W [] st2 rest else
  emit_message c (cf_reset W st2) (cf_op W st2) buf (cf_comp W st2) rest.


Theorem read_message_tail_from_source c st bs h rest raw rest' p :
  parse_header bs = POk h rest -> gen_guards c h = 0 ->
  (Pool.pool_cap (h_len h + 9) <? h_len h)%Z = false ->
  read_n (Z.to_nat (h_len h)) rest = inl (Some (raw, rest')) ->
  unmask (get_mask (h_b1 h)) (h_key h) raw = Some p ->
  read_message c st bs
  = reassemble_src c st (get_opcode (h_b0 h)) (get_fin (h_b0 h)) (r_pmd c && get_rsv1 (h_b0 h)) p rest'.
Proof.
  intros Hp Hg Hpool Hread Hunmask.
  destruct (read_message_guards_from_source c st bs h rest Hp) as (_ & _ & G0 & _).
  destruct (G0 Hg) as (Hdata & H2 & H3 & H4 & H5).
  unfold Reader.read_message. rewrite Hp, H2, H3, H4, H5, Hdata. cbn [negb]. rewrite Hpool, Hread, Hunmask.
  unfold reassemble_src, gf_gws_Conn_readMessage_cond9, gf_gws_Conn_readMessage_cond10, gf_gws_Conn_readMessage_cond11,
    gf_gws_Conn_readMessage_cond12, gf_gws_Conn_readMessage_cond13, gf_gws_Conn_readMessage_cond14.
  rewrite eqb0. change sc_protocol with 1002%N. change sc_too_large with 1009%N. reflexivity.
Qed.

(* the conditions regenerated from the source are the ones the prefix ladder and the tail above use: 14 in all *)
Lemma read_message_conditions_counted : gf_gws_Conn_readMessage_nconds = 14%nat.
Proof. reflexivity. Qed.
End ReaderGuards.
