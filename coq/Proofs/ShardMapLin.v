(* C19, concurrent layer, part 2: every run's history of Load/Store/Delete is linearizable.
   The body step of a single-key operation is its linearization point: the projected trace is accepted
   by Spec.AtomicMap.atomic_points (simulation invariant `sim`), then Proofs.LinProofs applies. *)
From Gws Require Import Lib.Base Model.ShardMap Spec.AtomicMap Proofs.ShardMapSeq Proofs.LinProofs Proofs.ShardMapConc.

Section Lin.
Variable ix : N -> nat.
Variable n : nat.
Hypothesis ix_lt : forall k, ix k < n.
Variable progs : nat -> list op.

Notation step := (step ix n).
Notation reach := (reach ix n progs).
Notation base := (base ix n).
Notation ap := (atomic_points mop mres mmap m_apply m_empty).

Definition thr_sim (m : nat -> option (ost mop mres)) (ts : tstate) : Prop :=
  match ts with
  | Idle => True
  | Run fr => forall mo, mop_of (f_op fr) = Some mo ->
      match f_stage fr with
      | Done => m (f_id fr) = Some (Lind mo (mres_of (f_acc fr)))
      | _ => m (f_id fr) = Some (Pend mo)
      end
  | Ret id o r => forall mo, mop_of o = Some mo -> m id = Some (Lind mo (mres_of r))
  end.

Record sim (st : state) (s : mmap) (m : nat -> option (ost mop mres)) : Prop := {
  S_ap : ap (proj (trace st)) s m;
  S_abs : forall k, s k = abs (shards st) k;
  S_lt : forall id, m id <> None -> id < length (trace st);
  S_thr : forall t, thr_sim m (t_st (threads st t))
}.

Lemma thr_sim_mset m ts id x :
  thr_sim m ts -> (forall id' o', cur_id ts = Some (id', o') -> id' <> id) -> thr_sim (mset m id x) ts.
Proof.
  intros H Hd. destruct ts as [|fr|id' o' r']; cbn in *; auto.
  - intros mo Hmo. specialize (H mo Hmo). destruct (f_stage fr); rewrite mset_neq by (eapply Hd; eauto); exact H.
  - intros mo Hmo. specialize (H mo Hmo). rewrite mset_neq by (eapply Hd; eauto). exact H.
Qed.

Lemma after_unlock_cases id o i a :
  after_unlock n id o i a = Ret id o a \/
  (mop_of o = None /\ after_unlock n id o i a = Run (Frame id o (S i) WantLock a)).
Proof.
  unfold after_unlock. destruct o; auto.
  - destruct (S i <? n); auto.
  - destruct a; auto. destruct next; auto. destruct (S i <? n); auto.
Qed.

Lemma sim_init : sim (init_state n progs) m_empty (fun _ => None).
Proof.
  constructor; cbn.
  - constructor.
  - intro k. unfold abs, m_empty. clear. induction n; cbn; auto.
  - intros id H. congruence.
  - intro t. exact I.
Qed.

Lemma step_sim st st' s m : base st -> sim st s m -> step st st' -> exists s' m', sim st' s' m'.
Proof.
  intros HB [A1 A2 A3 A4] Hs. pose proof (B_key _ _ _ HB) as Bkey.
  inversion Hs; subst; cbn [shards trace threads locks] in *.
  - (* invoke *)
    destruct (mop_of o) as [mo|] eqn:Hmo.
    + exists s, (mset m (length tr) (Some (Pend mo))). constructor; cbn [shards trace threads locks]; auto.
      * rewrite proj_app. cbn. rewrite Hmo. cbn. apply ap_inv; auto.
        destruct (m (length tr)) eqn:E; auto. exfalso.
        assert (length tr < length tr) by (apply A3; congruence). lia.
      * intros id Hid. rewrite app_length. cbn. destruct (Nat.eq_dec id (length tr)) as [->|Hne]; [lia|].
        rewrite mset_neq in Hid by auto. apply A3 in Hid. lia.
      * intro t'. destruct (Nat.eq_dec t' t) as [->|Hne].
        -- rewrite set_eq. cbn. intros mo' Hmo'. rewrite mset_eq. congruence.
        -- rewrite set_neq by auto. apply thr_sim_mset; auto. intros id' o' Hc.
           apply (cur_id_lt ix n (State M L T tr) t') in Hc; auto. cbn in Hc. lia.
    + exists s, m. constructor; cbn [shards trace threads locks]; auto.
      * rewrite proj_app. cbn. rewrite Hmo. cbn. rewrite app_nil_r. auto.
      * intros id Hid. rewrite app_length. apply A3 in Hid. lia.
      * intro t'. destruct (Nat.eq_dec t' t) as [->|Hne].
        -- rewrite set_eq. cbn. intros mo' Hmo'. congruence.
        -- rewrite set_neq by auto. auto.
  - (* lock *)
    exists s, m. constructor; cbn [shards trace threads locks]; auto.
    intro t'. destruct (Nat.eq_dec t' t) as [->|Hne].
    + rewrite set_eq. specialize (A4 t). rewrite H in A4. cbn in *. exact A4.
    + rewrite set_neq by auto. auto.
  - (* body *)
    assert (Hk : key_shard_ok ix (Frame id o i Locked a)) by (apply (Bkey t); rewrite H; reflexivity).
    pose proof (A4 t) as At. rewrite H in At. cbn in At.
    pose proof (B_inv _ _ _ HB) as Hinv. cbn in Hinv.
    assert (Hothers : forall x t', t' <> t -> thr_sim (mset m id x) (t_st (T t'))).
    { intros x t' Hne. apply thr_sim_mset; auto. intros id' o' Hc Heq. subst id'.
      apply Hne. eapply (ids_distinct ix n); eauto. cbn. rewrite H. reflexivity. }
    unfold key_shard_ok in Hk. cbn in Hk.
    inversion H0; subst; cbn [pt_marks mop_of] in *.
    + (* load *)
      specialize (At _ eq_refl).
      exists (fst (m_apply s (MLoad k))), (mset m id (Some (Lind (MLoad k) (snd (m_apply s (MLoad k)))))).
      constructor; cbn [shards trace threads locks]; auto.
      * rewrite proj_app. exact (ap_pt mop mres mmap m_apply m_empty _ _ _ _ _ A1 At).
      * intros id' Hid. rewrite app_length. cbn. destruct (Nat.eq_dec id' id) as [->|Hne].
        -- assert (id < length tr) by (apply A3; congruence). lia.
        -- rewrite mset_neq in Hid by auto. apply A3 in Hid. lia.
      * intro t'. destruct (Nat.eq_dec t' t) as [->|Hne]; [|rewrite set_neq by auto; auto].
        rewrite set_eq. cbn. intros mo Hmo. inversion Hmo; subst. rewrite mset_eq. cbn.
        rewrite A2. rewrite <- (cm_load_abs ix n) by auto. reflexivity.
    + (* store *)
      specialize (At _ eq_refl).
      exists (fst (m_apply s (MStore k v))), (mset m id (Some (Lind (MStore k v) (snd (m_apply s (MStore k v)))))).
      constructor; cbn [shards trace threads locks]; auto.
      * rewrite proj_app. exact (ap_pt mop mres mmap m_apply m_empty _ _ _ _ _ A1 At).
      * intro k'. cbn. replace (upd i (a_store k v) M) with (cm_store ix M k v) by (unfold cm_store; congruence). rewrite (cm_store_abs ix n ix_lt) by auto. rewrite A2. reflexivity.
      * intros id' Hid. rewrite app_length. cbn. destruct (Nat.eq_dec id' id) as [->|Hne].
        -- assert (id < length tr) by (apply A3; congruence). lia.
        -- rewrite mset_neq in Hid by auto. apply A3 in Hid. lia.
      * intro t'. destruct (Nat.eq_dec t' t) as [->|Hne]; [|rewrite set_neq by auto; auto].
        rewrite set_eq. cbn. intros mo Hmo. inversion Hmo; subst. rewrite mset_eq. reflexivity.
    + (* delete *)
      specialize (At _ eq_refl).
      exists (fst (m_apply s (MDelete k))), (mset m id (Some (Lind (MDelete k) (snd (m_apply s (MDelete k)))))).
      constructor; cbn [shards trace threads locks]; auto.
      * rewrite proj_app. exact (ap_pt mop mres mmap m_apply m_empty _ _ _ _ _ A1 At).
      * intro k'. cbn. replace (upd i (a_delete k) M) with (cm_delete ix M k) by (unfold cm_delete; congruence). rewrite (cm_delete_abs ix n ix_lt) by auto. rewrite A2. reflexivity.
      * intros id' Hid. rewrite app_length. cbn. destruct (Nat.eq_dec id' id) as [->|Hne].
        -- assert (id < length tr) by (apply A3; congruence). lia.
        -- rewrite mset_neq in Hid by auto. apply A3 in Hid. lia.
      * intro t'. destruct (Nat.eq_dec t' t) as [->|Hne]; [|rewrite set_neq by auto; auto].
        rewrite set_eq. cbn. intros mo Hmo. inversion Hmo; subst. rewrite mset_eq. reflexivity.
    + (* len *)
      exists s, m. rewrite app_nil_r. constructor; cbn [shards trace threads locks]; auto.
      intro t'. destruct (Nat.eq_dec t' t) as [->|Hne]; [|rewrite set_neq by auto; auto].
      rewrite set_eq. cbn. intros mo Hmo. discriminate.
    + (* range *)
      exists s, m. rewrite app_nil_r. constructor; cbn [shards trace threads locks]; auto.
      intro t'. destruct (Nat.eq_dec t' t) as [->|Hne]; [|rewrite set_neq by auto; auto].
      rewrite set_eq. cbn. intros mo Hmo. discriminate.
  - (* unlock *)
    exists s, m. constructor; cbn [shards trace threads locks]; auto.
    intro t'. destruct (Nat.eq_dec t' t) as [->|Hne]; [|rewrite set_neq by auto; auto].
    rewrite set_eq. cbn [t_st]. specialize (A4 t). rewrite H in A4. cbn in A4.
    destruct (after_unlock_cases id o i a) as [->|[Hn ->]]; cbn; auto.
    intros mo Hmo. congruence.
  - (* return *)
    pose proof (A4 t) as At. rewrite H in At. cbn in At.
    destruct (mop_of o) as [mo|] eqn:Hmo.
    + specialize (At _ eq_refl).
      exists s, (mset m id (Some (Retd mo (mres_of r)))). constructor; cbn [shards trace threads locks]; auto.
      * rewrite proj_app. cbn. rewrite Hmo. cbn. eapply ap_res; eauto.
      * intros id' Hid. rewrite app_length. cbn. destruct (Nat.eq_dec id' id) as [->|Hne].
        -- assert (id < length tr) by (apply A3; congruence). lia.
        -- rewrite mset_neq in Hid by auto. apply A3 in Hid. lia.
      * intro t'. destruct (Nat.eq_dec t' t) as [->|Hne].
        -- rewrite set_eq. exact I.
        -- rewrite set_neq by auto. apply thr_sim_mset; auto. intros id' o' Hc Heq. subst id'.
           apply Hne. eapply (ids_distinct ix n); eauto. cbn. rewrite H. reflexivity.
    + exists s, m. constructor; cbn [shards trace threads locks]; auto.
      * rewrite proj_app. cbn. rewrite Hmo. cbn. rewrite app_nil_r. auto.
      * intros id' Hid. rewrite app_length. apply A3 in Hid. lia.
      * intro t'. destruct (Nat.eq_dec t' t) as [->|Hne].
        -- rewrite set_eq. exact I.
        -- rewrite set_neq by auto. auto.
Qed.

Lemma reach_sim st : reach st -> exists s m, sim st s m.
Proof.
  induction 1 as [|st st' Hr (s & m & IH) Hs].
  - eexists _, _. apply sim_init.
  - eapply step_sim; eauto. eapply reach_base; eauto.
Qed.

(* every run: the history of single-key operations is well formed and linearizable w.r.t. ONE atomic map *)
Theorem runs_linearizable st : reach st ->
  hist_wf mop mres (history (trace st)) /\ map_linearizable (history (trace st)).
Proof.
  intro Hr. destruct (reach_sim _ Hr) as (s & m & HS). unfold history, map_linearizable.
  eapply atomic_points_linearizable. apply (S_ap _ _ _ HS).
Qed.

(* the linearization order can be taken to be the order of the body steps, and the atomic map it
   produces is abs of the shards *)
Theorem runs_sim_abs st : reach st ->
  exists s m, atomic_points mop mres mmap m_apply m_empty (proj (trace st)) s m /\ forall k, s k = abs (shards st) k.
Proof. intro Hr. destruct (reach_sim _ Hr) as (s & m & HS). exists s, m. split; apply HS. Qed.

End Lin.
