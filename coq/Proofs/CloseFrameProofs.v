(* The Close frames gws itself originates (WriteClose, the reply to a peer's Close, emitError after a fault or a
   violation): their bodies (Model/CloseCode.v) handed to genFrame (Model/Writer.v) give a well-formed control frame. *)
From Gws Require Import Lib.Base Spec.MaskSpec Spec.Rfc6455 Spec.CloseReply Model.Mask Model.Header Model.Writer Model.CloseCode.
From Gws Require Import Proofs.FrameProofs Proofs.WriterProofs Proofs.CloseProofs.
Local Open Scope N_scope.

Lemma be16_wf c : c < 2 ^ 16 -> wf_bytes (be16 c).
Proof.
  intro H. unfold be16, wf_bytes. repeat constructor; unfold byte_ok; change (2 ^ 8) with 256; change (2 ^ 16) with 65536 in H.
  - apply N.div_lt_upper_bound; lia.
  - apply N.mod_lt. lia.
Qed.

Section CloseFrames.
Variable utf8_valid : list N -> bool.
Variable deflate_raw : list N -> list N -> list N.
Hypothesis deflate_wf : forall d p, wf_bytes (deflate_raw d p).
Hypothesis deflate_small : forall d p, (Z.of_nat (length (deflate_raw d p)) < 2 ^ 63)%Z.

(* any body of at most 125 bytes *)
Lemma close_body_frame_wf c body fc key dict bytes rest :
  wf_bytes body -> (length body <= 125)%nat -> fc_fin fc = true ->
  length key = 4%nat -> wf_bytes key ->
  gen_frame utf8_valid deflate_raw c 8 [body] fc key dict = GFrame bytes ->
  exists f, decode_frame (bytes ++ rest) = DFrame f true rest /\ outbound_wf (w_server c) f true = true /\ f_op f = 8.
Proof.
  intros Hw Hl Hfin Hk Hkw Hg.
  assert (Hc : concat [body] = body) by (cbn; apply app_nil_r).
  destruct (decode_gen_frame utf8_valid deflate_raw deflate_wf deflate_small c 8 [body] fc key dict bytes rest) as (rsv1 & payload & Hd & _);
    try assumption; try (rewrite Hc; assumption); try lia.
  { rewrite Hc. lia. }
  destruct (gen_frame_outbound_wf utf8_valid deflate_raw deflate_wf deflate_small c 8 [body] fc key dict bytes rest) as (f & Hf & Hwf);
    try assumption; try reflexivity; try (rewrite Hc; assumption).
  { rewrite Hc. lia. }
  { intros _. rewrite Hc. split; assumption. }
  exists f. split; [exact Hf|]. split; [exact Hwf|].
  rewrite Hd in Hf. injection Hf as <-. reflexivity.
Qed.

(* a locally requested close *)
Theorem local_close_frame_wf c code reason fc key dict bytes rest :
  code < 2 ^ 16 -> wf_bytes reason -> fc_fin fc = true -> length key = 4%nat -> wf_bytes key ->
  gen_frame utf8_valid deflate_raw c 8 [local_close_body code reason] fc key dict = GFrame bytes ->
  exists f, decode_frame (bytes ++ rest) = DFrame f true rest /\ outbound_wf (w_server c) f true = true /\ f_op f = 8.
Proof.
  intros Hc Hr. destruct (local_close_correct code reason Hc) as (E & Hl).
  apply close_body_frame_wf; [|exact Hl].
  rewrite E. unfold local_close_spec. apply Forall_app. split; [apply be16_wf; lia|apply Forall_firstn; exact Hr].
Qed.

(* a close caused by an error, whatever the length of the error text *)
Theorem error_close_frame_wf c reading e text fc key dict bytes rest :
  0 < emit_error_status reading e < 2 ^ 16 -> wf_bytes text -> fc_fin fc = true -> length key = 4%nat -> wf_bytes key ->
  gen_frame utf8_valid deflate_raw c 8 [error_close_body reading e text] fc key dict = GFrame bytes ->
  exists f, decode_frame (bytes ++ rest) = DFrame f true rest /\ outbound_wf (w_server c) f true = true /\ f_op f = 8.
Proof.
  intros Hs Ht. destruct (error_close_correct reading e text Hs) as (E & Hl).
  apply close_body_frame_wf; [|exact Hl].
  rewrite E. unfold error_close_spec. apply Forall_app. split; [apply be16_wf; lia|apply Forall_firstn; exact Ht].
Qed.
End CloseFrames.
