(* Tie A for the data path: the Gallina definitions that translator/funcs.go regenerates from /repo on every run
   (Gen/Funcs.v) are EQUAL to the hand-written models the theorems are about.  A change of a threshold, a comparison
   operator, a shift amount or a table entry in the Go source changes Gen/Funcs.v and breaks one of these lemmas. *)
From Gws Require Import Lib.Base Spec.Rfc6455 Gen.Consts Gen.Funcs Model.Header Model.CloseCode Model.Pool Model.Writer.
From Coq Require Import ZifyN ZifyNat ZifyBool.
Local Open Scope Z_scope.

(* every value of a finite range satisfies a boolean predicate, by computation *)
Lemma range_forall (P : N -> bool) (n : N) :
  forallb P (map N.of_nat (seq 0 (N.to_nat n))) = true -> forall b, (b < n)%N -> P b = true.
Proof.
  intros F b Hb. rewrite forallb_forall in F. apply F. apply in_map_iff. exists (N.to_nat b).
  split; [lia|]. apply in_seq. lia.
Qed.

(* ---- frameHeader accessors (types.go) on a header byte ---- *)
Lemma gen_GetFIN_is b : (b < 256)%N -> gf_gws_frameHeader_GetFIN (Z.of_N b) = get_fin b.
Proof. intro H. apply Bool.eqb_prop. revert b H. apply (range_forall (fun b => Bool.eqb (gf_gws_frameHeader_GetFIN (Z.of_N b)) (get_fin b)) 256). vm_compute. reflexivity. Qed.

Lemma gen_GetRSV1_is b : (b < 256)%N -> gf_gws_frameHeader_GetRSV1 (Z.of_N b) = get_rsv1 b.
Proof. intro H. apply Bool.eqb_prop. revert b H. apply (range_forall (fun b => Bool.eqb (gf_gws_frameHeader_GetRSV1 (Z.of_N b)) (get_rsv1 b)) 256). vm_compute. reflexivity. Qed.

Lemma gen_GetRSV2_is b : (b < 256)%N -> gf_gws_frameHeader_GetRSV2 (Z.of_N b) = get_rsv2 b.
Proof. intro H. apply Bool.eqb_prop. revert b H. apply (range_forall (fun b => Bool.eqb (gf_gws_frameHeader_GetRSV2 (Z.of_N b)) (get_rsv2 b)) 256). vm_compute. reflexivity. Qed.

Lemma gen_GetRSV3_is b : (b < 256)%N -> gf_gws_frameHeader_GetRSV3 (Z.of_N b) = get_rsv3 b.
Proof. intro H. apply Bool.eqb_prop. revert b H. apply (range_forall (fun b => Bool.eqb (gf_gws_frameHeader_GetRSV3 (Z.of_N b)) (get_rsv3 b)) 256). vm_compute. reflexivity. Qed.

Lemma gen_GetMask_is b : (b < 256)%N -> gf_gws_frameHeader_GetMask (Z.of_N b) = get_mask b.
Proof. intro H. apply Bool.eqb_prop. revert b H. apply (range_forall (fun b => Bool.eqb (gf_gws_frameHeader_GetMask (Z.of_N b)) (get_mask b)) 256). vm_compute. reflexivity. Qed.

Lemma gen_GetOpcode_is b : (b < 256)%N -> gf_gws_frameHeader_GetOpcode (Z.of_N b) = Z.of_N (get_opcode b).
Proof. intro H. apply Z.eqb_eq. revert b H. apply (range_forall (fun b => gf_gws_frameHeader_GetOpcode (Z.of_N b) =? Z.of_N (get_opcode b)) 256). vm_compute. reflexivity. Qed.

Lemma gen_GetLengthCode_is b : (b < 256)%N -> gf_gws_frameHeader_GetLengthCode (Z.of_N b) = Z.of_N (get_lencode b).
Proof. intro H. apply Z.eqb_eq. revert b H. apply (range_forall (fun b => gf_gws_frameHeader_GetLengthCode (Z.of_N b) =? Z.of_N (get_lencode b)) 256). vm_compute. reflexivity. Qed.

(* ---- SetLength: the branch structure (thresholds, comparison operators) and the offsets returned ---- *)
Lemma be_store_length k v : length (be_store k v) = k.
Proof. revert v. induction k as [|k IH]; intro v; [reflexivity|]. cbn [be_store]. rewrite app_length, IH. cbn. lia. Qed.

Lemma gen_SetLength_is n : gf_gws_frameHeader_SetLength (Z.of_N n) = Z.of_nat (length (snd (set_length n))).
Proof.
  unfold gf_gws_frameHeader_SetLength, set_length, thresholdV1, thresholdV2.
  change (Z.to_N internal_ThresholdV1) with 125%N. change (Z.to_N internal_ThresholdV2) with 65535%N.
  destruct (n <=? 125)%N eqn:E1.
  - replace (Z.of_N n <=? 125) with true by lia. reflexivity.
  - replace (Z.of_N n <=? 125) with false by lia. destruct (n <=? 65535)%N eqn:E2.
    + replace (Z.of_N n <=? 65535) with true by lia. cbn [snd]. rewrite be_store_length. reflexivity.
    + replace (Z.of_N n <=? 65535) with false by lia. cbn [snd]. rewrite be_store_length. reflexivity.
Qed.

(* the length code that goes with each branch (the Go code adds it to byte 1 next to the return) is the model's *)
Lemma set_length_code n : (n < 2 ^ 64)%N ->
  fst (set_length n) = (if (n <=? 125)%N then n else if (n <=? 65535)%N then 126 else 127)%N.
Proof.
  intro H. unfold set_length, thresholdV1, thresholdV2.
  change (Z.to_N internal_ThresholdV1) with 125%N. change (Z.to_N internal_ThresholdV2) with 65535%N.
  destruct (n <=? 125)%N eqn:E1; [cbn [fst]; apply N.mod_small; change (2 ^ 8)%N with 256%N; lia|].
  destruct (n <=? 65535)%N; reflexivity.
Qed.

(* ---- Opcode.isDataFrame ---- *)
Lemma gen_isDataFrame_is op : gf_gws_Opcode_isDataFrame (Z.of_N op) = is_data op.
Proof. unfold gf_gws_Opcode_isDataFrame, is_data. lia. Qed.

(* ---- emitClose: the reply-status table, all 65536 status codes ---- *)
Lemma gen_close_class_is real dflt : (real < 65536)%N ->
  gf_gws_Conn_emitClose_responseCode (Z.of_N real) dflt = Z.of_N (close_class real).
Proof.
  intro H. unfold gf_gws_Conn_emitClose_responseCode, close_class.
  change sc_protocol with 1002%N. change sc_normal with 1000%N.
  destruct ((real =? 1004) || (real =? 1005) || (real =? 1006) || (real =? 1015))%N eqn:E1.
  - replace ((Z.of_N real =? 1004) || (Z.of_N real =? 1005) || (Z.of_N real =? 1006) || (Z.of_N real =? 1015))%bool with true by lia. reflexivity.
  - replace ((Z.of_N real =? 1004) || (Z.of_N real =? 1005) || (Z.of_N real =? 1006) || (Z.of_N real =? 1015))%bool with false by lia.
    destruct ((real <? 1000) || (5000 <=? real) || ((1016 <=? real) && (real <? 3000)))%N eqn:E2.
    + replace (((Z.of_N real <? 1000) || (Z.of_N real >=? 5000)) || ((Z.of_N real >=? 1016) && (Z.of_N real <? 3000)))%bool with true by lia. reflexivity.
    + replace (((Z.of_N real <? 1000) || (Z.of_N real >=? 5000)) || ((Z.of_N real >=? 1016) && (Z.of_N real <? 3000)))%bool with false by lia.
      destruct (real <? 1016)%N eqn:E3.
      * replace (Z.of_N real <? 1016) with true by lia. reflexivity.
      * replace (Z.of_N real <? 1016) with false by lia. cbn zeta. rewrite Z.mod_small by lia. reflexivity.
Qed.

(* ---- StatusCode.Bytes: the same shifts and truncations, term for term (no enumeration: coqchk re-checks this file
   without the VM) ---- *)
Lemma gen_status_bytes_is c : (c < 65536)%N -> gf_internal_StatusCode_Bytes (Z.of_N c) = map Z.of_N (status_bytes c).
Proof.
  intros _. unfold gf_internal_StatusCode_Bytes, status_bytes.
  replace (Z.of_N c =? 0) with (c =? 0)%N by (destruct (N.eqb_spec c 0), (Z.eqb_spec (Z.of_N c) 0); lia).
  destruct (c =? 0)%N; [reflexivity|]. cbn [map].
  rewrite !N.shiftr_div_pow2, N.shiftl_mul_pow2, !Z.shiftr_div_pow2, Z.shiftl_mul_pow2 by lia.
  rewrite !N2Z.inj_mod, !N2Z.inj_div, N2Z.inj_mod, N2Z.inj_mul, !N2Z.inj_pow. reflexivity.
Qed.

Lemma gen_Uint16_is c : (c < 65536)%N -> gf_internal_StatusCode_Uint16 (Z.of_N c) = Z.of_N c.
Proof. intro H. unfold gf_internal_StatusCode_Uint16. apply Z.mod_small. lia. Qed.

(* ---- Min / Max ---- *)
Lemma gen_Min_is a b : gf_internal_Min a b = Z.min a b.
Proof. unfold gf_internal_Min. destruct (a <? b) eqn:E; lia. Qed.
Lemma gen_Max_is a b : gf_internal_Max a b = Z.max a b.
Proof. unfold gf_internal_Max. destruct (a >? b) eqn:E; lia. Qed.

(* ---- binaryCeil (uint32): the same sequence of operations, in Z and in N ---- *)
Lemma of_N_lor a b : Z.of_N (N.lor a b) = Z.lor (Z.of_N a) (Z.of_N b).
Proof. apply Z.bits_inj'. intros n Hn. rewrite Z.lor_spec, !Z.testbit_of_N' by lia. apply N.lor_spec. Qed.

Lemma of_N_shiftr a k : Z.of_N (N.shiftr a k) = Z.shiftr (Z.of_N a) (Z.of_N k).
Proof.
  apply Z.bits_inj'. intros n Hn. rewrite Z.shiftr_spec by lia. rewrite !Z.testbit_of_N' by lia.
  rewrite N.shiftr_spec by apply N.le_0_l. f_equal. lia.
Qed.

Lemma gen_binaryCeil_is v : (v < 2 ^ 32)%N -> gf_internal_binaryCeil (Z.of_N v) = Z.of_N (binary_ceil v).
Proof.
  intro H. unfold gf_internal_binaryCeil, binary_ceil. cbv zeta.
  assert (E0 : (Z.of_N v - 1) mod 2 ^ 32 = Z.of_N ((v + (2 ^ 32 - 1)) mod 2 ^ 32)%N).
  { rewrite N2Z.inj_mod, N2Z.inj_add. change (Z.of_N (2 ^ 32 - 1)) with (2 ^ 32 - 1). change (Z.of_N (2 ^ 32)) with (2 ^ 32).
    replace (Z.of_N v + (2 ^ 32 - 1)) with (Z.of_N v - 1 + 1 * 2 ^ 32) by lia. rewrite Z.mod_add by lia. reflexivity. }
  rewrite E0. set (a := ((v + (2 ^ 32 - 1)) mod 2 ^ 32)%N).
  assert (S : forall x (k : Z) (kn : N), k = Z.of_N kn -> Z.lor (Z.of_N x) (Z.shiftr (Z.of_N x) k) = Z.of_N (N.lor x (N.shiftr x kn))).
  { intros x k kn ->. rewrite of_N_lor, of_N_shiftr. reflexivity. }
  rewrite (S a 1 1%N eq_refl). rewrite (S _ 2 2%N eq_refl). rewrite (S _ 4 4%N eq_refl).
  rewrite (S _ 8 8%N eq_refl). rewrite (S _ 16 16%N eq_refl).
  rewrite N2Z.inj_mod, N2Z.inj_add. reflexivity.
Qed.

(* the translator understood every target *)
Lemma funcs_all_translated : funcs_unsupported = [].
Proof. reflexivity. Qed.

(* ---- grouped, as cited by the property files ---- *)
Theorem header_accessors_from_source b : (b < 256)%N ->
  gf_gws_frameHeader_GetFIN (Z.of_N b) = get_fin b /\ gf_gws_frameHeader_GetRSV1 (Z.of_N b) = get_rsv1 b
  /\ gf_gws_frameHeader_GetRSV2 (Z.of_N b) = get_rsv2 b /\ gf_gws_frameHeader_GetRSV3 (Z.of_N b) = get_rsv3 b
  /\ gf_gws_frameHeader_GetOpcode (Z.of_N b) = Z.of_N (get_opcode b)
  /\ gf_gws_frameHeader_GetMask (Z.of_N b) = get_mask b /\ gf_gws_frameHeader_GetLengthCode (Z.of_N b) = Z.of_N (get_lencode b).
Proof.
  intro H. repeat split; [apply gen_GetFIN_is|apply gen_GetRSV1_is|apply gen_GetRSV2_is|apply gen_GetRSV3_is|apply gen_GetOpcode_is
                         |apply gen_GetMask_is|apply gen_GetLengthCode_is]; exact H.
Qed.

Theorem header_writer_from_source n op :
  gf_gws_frameHeader_SetLength (Z.of_N n) = Z.of_nat (length (snd (set_length n)))
  /\ gf_gws_Opcode_isDataFrame (Z.of_N op) = is_data op.
Proof. split; [apply gen_SetLength_is|apply gen_isDataFrame_is]. Qed.

Theorem close_table_from_source real dflt : (real < 65536)%N ->
  gf_gws_Conn_emitClose_responseCode (Z.of_N real) dflt = Z.of_N (close_class real)
  /\ gf_internal_StatusCode_Bytes (Z.of_N real) = map Z.of_N (status_bytes real).
Proof. intro H. split; [apply gen_close_class_is|apply gen_status_bytes_is]; exact H. Qed.

Theorem pool_rounding_from_source v : (v < 2 ^ 32)%N ->
  gf_internal_binaryCeil (Z.of_N v) = Z.of_N (binary_ceil v).
Proof. exact (gen_binaryCeil_is v). Qed.

(* ---- the reader's guard ladders (reader.go: checkMask, the leading statements of readMessage and readControl) ---- *)
From Gws Require Import Model.Reader.

Lemma gen_checkMask_is server masked :
  gf_gws_Conn_checkMask server masked = if (server && negb masked) || (negb server && masked) then 1002 else 0.
Proof. reflexivity. Qed.

Ltac fin := repeat split; intros; first [reflexivity | assumption | exfalso; lia | discriminate | auto 6].

Section ReaderGuards.
Variable utf8_valid : list N -> bool.
Variable inflate : list N -> list N -> Z -> option (list N).
Variable W : Type.
Variable wdict : W -> list N.
Variable wwrite : W -> list N -> W.
Notation read_message := (Reader.read_message utf8_valid inflate W wdict wwrite).
Notation read_control := (Reader.read_control utf8_valid W).

(* the generated ladder, fed with the header the model parsed *)
Definition gen_guards (c : rcfg) (h : pheader) : Z :=
  gf_gws_Conn_readMessage (r_limit c) (r_server c) (r_pmd c) (get_fin (h_b0 h)) (get_mask (h_b1 h))
    (Z.of_N (get_opcode (h_b0 h))) (get_rsv1 (h_b0 h)) (get_rsv2 (h_b0 h)) (get_rsv3 (h_b0 h)) (h_len h) 0.

Lemma opcode_is_data op : gf_gws_Opcode_isDataFrame (Z.of_N op) = is_data_op op.
Proof. unfold gf_gws_Opcode_isDataFrame, is_data_op. change (Z.to_N gws_OpcodeBinary) with 2%N. lia. Qed.

(* What readMessage does before it touches the payload is what the source says, guard by guard and in the source's
   order: a positive result is the close status the model fails with; -1 means the frame is handed to readControl; 0 means
   all header checks passed for a data frame. *)
Theorem read_message_guards_from_source c st bs h rest :
  parse_header bs = POk h rest ->
  let g := gen_guards c h in
  (0 < g -> read_message c st bs = SStop W [] (OFail W (Z.to_N g)))
  /\ (g = -1 -> read_message c st bs = read_control c st h rest)
  /\ (g = 0 -> is_data_op (get_opcode (h_b0 h)) = true
               /\ ((h_len h <? 0) || (h_len h >? r_limit c))%Z = false
               /\ (get_rsv2 (h_b0 h) || get_rsv3 (h_b0 h) || (get_rsv1 (h_b0 h) && negb (r_pmd c))) = false
               /\ ((r_server c && negb (get_mask (h_b1 h))) || (negb (r_server c) && get_mask (h_b1 h))) = false
               /\ (r_pmd c && get_rsv1 (h_b0 h) && (negb (is_data_op (get_opcode (h_b0 h))) || (get_opcode (h_b0 h) =? 0)%N)) = false)
  /\ (g = 1009 \/ g = 1002 \/ g = -1 \/ g = 0).
Proof.
  intros Hp g. subst g. unfold gen_guards, gf_gws_Conn_readMessage, Reader.read_message. rewrite Hp.
  rewrite gen_checkMask_is, opcode_is_data. cbn [Z.eqb negb].
  change sc_too_large with 1009%N. change sc_protocol with 1002%N.
  destruct ((h_len h <? 0) || (h_len h >? r_limit c))%Z eqn:E1.
  { fin. }
  destruct (get_rsv2 (h_b0 h) || get_rsv3 (h_b0 h) || (get_rsv1 (h_b0 h) && negb (r_pmd c))) eqn:E2.
  { fin. }
  destruct ((r_server c && negb (get_mask (h_b1 h))) || (negb (r_server c) && get_mask (h_b1 h))) eqn:E3.
  { cbn [Z.eqb negb]. fin. }
  cbn [Z.eqb negb].
  replace (Z.of_N (get_opcode (h_b0 h)) =? 0)%Z with (get_opcode (h_b0 h) =? 0)%N by lia.
  destruct (r_pmd c && get_rsv1 (h_b0 h) && (negb (is_data_op (get_opcode (h_b0 h))) || (get_opcode (h_b0 h) =? 0)%N)) eqn:E4.
  { fin. }
  destruct (negb (is_data_op (get_opcode (h_b0 h)))) eqn:E5.
  { fin. }
  apply Bool.negb_false_iff in E5.
  fin.
Qed.

(* readControl's leading checks: not FIN or a length code above 125 -> 1002 *)
Theorem read_control_guards_from_source c st h rest :
  let g := gf_gws_Conn_readControl (get_fin (h_b0 h)) (Z.of_N (get_lencode (h_b1 h))) in
  (g = 1002 \/ g = 0) /\ (g = 1002 -> read_control c st h rest = SStop W [] (OFail W 1002%N)).
Proof.
  cbv zeta. unfold gf_gws_Conn_readControl, Reader.read_control. change sc_protocol with 1002%N.
  unfold thresholdV1. change (Z.to_N internal_ThresholdV1) with 125%N.
  destruct (get_fin (h_b0 h)); cbn [negb].
  - replace (Z.of_N (get_lencode (h_b1 h)) >? 125)%Z with (125 <? get_lencode (h_b1 h))%N by lia.
    destruct (125 <? get_lencode (h_b1 h))%N; split; auto; intro; try reflexivity; discriminate.
  - split; auto.
Qed.

(* ---- the rest of readMessage: after the payload has been read and unmasked, the model goes through the conditions of
   the source's remaining top-level `if` statements (#9 .. #14 of readMessage, regenerated as gf_..._cond9 .. cond14), in
   the source's order ---- *)
Notation emit_message := (Reader.emit_message utf8_valid inflate W wdict wwrite).

Definition reassemble_src (c : rcfg) (st : rstate W) (op : N) (fin compressed : bool) (p rest : list N) : step W :=
  if gf_gws_Conn_readMessage_cond9 (cf_init W st) (Z.of_N op) then SStop W [] (OFail W 1002%N) else
  if gf_gws_Conn_readMessage_cond10 fin (Z.of_N op) then emit_message c st op p compressed rest else
  let st1 := if gf_gws_Conn_readMessage_cond11 fin (Z.of_N op)
             then {| cf_init := true; cf_comp := compressed; cf_op := op; cf_buf := []; r_dps := r_dps W st |}
             else st in
  if gf_gws_Conn_readMessage_cond12 (cf_init W st1) then SStop W [] (OFail W 1002%N) else
  let buf := cf_buf W st1 ++ p in
  let st2 := {| cf_init := cf_init W st1; cf_comp := cf_comp W st1; cf_op := cf_op W st1; cf_buf := buf; r_dps := r_dps W st1 |} in
  if gf_gws_Conn_readMessage_cond13 (r_limit c) (Z.of_nat (length buf)) then SStop W [] (OFail W 1009%N) else
  if gf_gws_Conn_readMessage_cond14 fin then SCont W [] st2 rest else
  emit_message c (cf_reset W st2) (cf_op W st2) buf (cf_comp W st2) rest.

Lemma eqb0 op : (Z.of_N op =? 0)%Z = (op =? 0)%N.
Proof. lia. Qed.

Theorem read_message_tail_from_source c st bs h rest raw rest' p :
  parse_header bs = POk h rest -> gen_guards c h = 0 ->
  (Pool.pool_cap (h_len h + 9) <? h_len h)%Z = false ->
  read_n (Z.to_nat (h_len h)) rest = inl (Some (raw, rest')) ->
  unmask (get_mask (h_b1 h)) (h_key h) raw = Some p ->
  read_message c st bs
  = reassemble_src c st (get_opcode (h_b0 h)) (get_fin (h_b0 h)) (r_pmd c && get_rsv1 (h_b0 h)) p rest'.
Proof.
  intros Hp Hg Hpool Hread Hunmask.
  destruct (read_message_guards_from_source c st bs h rest Hp) as (_ & _ & G0 & _).
  destruct (G0 Hg) as (Hdata & H2 & H3 & H4 & H5).
  unfold Reader.read_message. rewrite Hp, H2, H3, H4, H5, Hdata. cbn [negb]. rewrite Hpool, Hread, Hunmask.
  unfold reassemble_src, gf_gws_Conn_readMessage_cond9, gf_gws_Conn_readMessage_cond10, gf_gws_Conn_readMessage_cond11,
    gf_gws_Conn_readMessage_cond12, gf_gws_Conn_readMessage_cond13, gf_gws_Conn_readMessage_cond14.
  rewrite eqb0. change sc_protocol with 1002%N. change sc_too_large with 1009%N. reflexivity.
Qed.

(* the conditions regenerated from the source are the ones the prefix ladder and the tail above use: 14 in all *)
Lemma read_message_conditions_counted : gf_gws_Conn_readMessage_nconds = 14%nat.
Proof. reflexivity. Qed.
End ReaderGuards.

(* ---- genFrame: the gates in front of the frame construction ---- *)
Lemma gen_genFrame_conditions_are opcode n limit threshold compress server check_ok :
  gf_gws_Conn_genFrame_nconds = 4%nat
  /\ gf_gws_Conn_genFrame_cond1 check_ok (Z.of_N opcode) = ((opcode =? 1)%N && negb check_ok)
  /\ gf_gws_Conn_genFrame_cond2 limit n = (n >? limit)%Z
  /\ gf_gws_Conn_genFrame_cond3 threshold compress n (Z.of_N opcode) = (compress && is_data opcode && (n >=? threshold)%Z)
  /\ gf_gws_Conn_genFrame_cond4 server = negb server.
Proof.
  unfold gf_gws_Conn_genFrame_cond1, gf_gws_Conn_genFrame_cond2, gf_gws_Conn_genFrame_cond3, gf_gws_Conn_genFrame_cond4.
  rewrite gen_isDataFrame_is. repeat split. f_equal. lia.
Qed.

(* ---- the write path: genFrame's gates, doWrite's closed test and window update, compressData's dictionary choice,
   writeClose's truncation, slideWindow.Write's branch conditions - each model follows the conditions regenerated from
   the source ---- *)
From Gws Require Import Model.Window.

Section WriterTies.
Variable utf8_valid : list N -> bool.
Variable deflate_raw : list N -> list N -> list N.
Variable W : Type.
Variable wdict : W -> list N.
Variable wwrite : W -> list N -> W.
Notation gen_frame := (Writer.gen_frame utf8_valid deflate_raw).
Notation do_write := (Writer.do_write utf8_valid deflate_raw W wdict wwrite).
Notation compress_data := (Writer.compress_data deflate_raw).

Theorem gen_frame_from_source c op slices fc key dict :
  let payload := concat slices in
  let n := Z.of_nat (length payload) in
  gen_frame c op slices fc key dict
  = if gf_gws_Conn_genFrame_cond1 (payload_check utf8_valid (fc_check fc) op slices) (Z.of_N op) then GErrEncoding
    else if gf_gws_Conn_genFrame_cond2 (w_wlimit c) n then GErrTooLarge
    else if gf_gws_Conn_genFrame_cond3 (w_threshold c) (fc_compress fc) n (Z.of_N op) then compress_data c op payload fc key dict
    else backfill (w_server c) (generate_header (w_server c) (fc_fin fc) false op n key) key (repeat 0%N header_size ++ payload).
Proof.
  cbv zeta. unfold Writer.gen_frame, gf_gws_Conn_genFrame_cond1, gf_gws_Conn_genFrame_cond2, gf_gws_Conn_genFrame_cond3.
  rewrite gen_isDataFrame_is. replace (Z.of_N op =? 1)%Z with (op =? 1)%N by lia. reflexivity.
Qed.

Theorem do_write_from_source c closed w op slices key :
  do_write c closed w op slices key
  = if gf_gws_Conn_doWrite_cond1 closed (Z.of_N op) then (None, w, WErrClosed) else
    match gen_frame c op slices {| fc_fin := true; fc_compress := w_pmd c; fc_broadcast := false; fc_check := w_utf8 c |} key (wdict w) with
    | GFrame fr => (Some fr, (if gf_gws_Conn_doWrite_cond3 (is_compressed_frame fr) then fold_left wwrite slices w else w), WOk)
    | GErrEncoding => (None, w, WErrEncoding)
    | GErrTooLarge => (None, w, WErrTooLarge)
    | GPanic => (None, w, WPanic)
    end.
Proof.
  unfold Writer.do_write, gf_gws_Conn_doWrite_cond1, gf_gws_Conn_doWrite_cond3.
  replace (Z.of_N op =? 8)%Z with (op =? 8)%N by lia. reflexivity.
Qed.

Lemma compress_dict_from_source c op payload fc key dict :
  compress_data c op payload fc key dict
  = compress_data c op payload fc key (if gf_gws_Conn_compressData_cond1 (fc_broadcast fc) then dict else [])
  /\ gf_gws_Conn_compressData_nconds = 3%nat.
Proof.
  split; [|reflexivity]. unfold Writer.compress_data, gf_gws_Conn_compressData_cond1.
  destruct (fc_broadcast fc); reflexivity.
Qed.
End WriterTies.

(* writeClose: `if len(reason) > ThresholdV1 { reason = reason[:ThresholdV1] }` *)
Lemma truncate_from_source (b : list N) :
  truncate_body b = (if gf_gws_Conn_writeClose_cond1 (Z.of_nat (length b)) then firstn 125 b else b)
  /\ gf_gws_Conn_writeClose_nconds = 1%nat.
Proof.
  split; [|reflexivity]. unfold truncate_body, gf_gws_Conn_writeClose_cond1. change (Z.to_nat internal_ThresholdV1) with 125%nat.
  destruct (Z.of_nat (length b) >? 125) eqn:E; [reflexivity|]. apply firstn_all2. lia.
Qed.

(* slideWindow.Write: the four branch conditions, in order *)
Lemma window_conditions_from_source (w : window) (p : list N) :
  let n := length p in let len := length (sw_dict w) in let m := (sw_size w - len)%nat in
  gf_gws_slideWindow_Write_nconds = 4%nat
  /\ gf_gws_slideWindow_Write_cond1 (sw_enabled w) = negb (sw_enabled w)
  /\ gf_gws_slideWindow_Write_cond2 (Z.of_nat (sw_size w)) (Z.of_nat len) (Z.of_nat n) = (n + len <=? sw_size w)%nat
  /\ (gf_gws_slideWindow_Write_cond3 (Z.of_nat (sw_size w) - Z.of_nat len) = (0 <? m)%nat)
  /\ forall n1 : nat, gf_gws_slideWindow_Write_cond4 (Z.of_nat (sw_size w)) (Z.of_nat n1) = (sw_size w <=? n1)%nat.
Proof.
  cbv zeta. unfold gf_gws_slideWindow_Write_cond1, gf_gws_slideWindow_Write_cond2, gf_gws_slideWindow_Write_cond3, gf_gws_slideWindow_Write_cond4.
  repeat split; try reflexivity; intros; lia.
Qed.

(* ---- loops: BinaryPow (the window capacity) and ToBinaryNumber (shard count, pool size) ---- *)
From Gws Require Import Model.ShardMap.

(* BinaryPow(n) = 2^n for every n a window can be created with (and 1 for n <= 0) *)
Lemma gen_BinaryPow_is n : 0 <= n <= 62 -> gf_internal_BinaryPow n = 2 ^ n.
Proof.
  intro H. apply Z.eqb_eq.
  assert (F : forall b, (b < 63)%N -> (fun b => gf_internal_BinaryPow (Z.of_N b) =? 2 ^ Z.of_N b) b = true)
    by (apply range_forall; vm_compute; reflexivity).
  specialize (F (Z.to_N n) ltac:(lia)). cbv beta in F. rewrite Z2N.id in F by lia. exact F.
Qed.

Lemma window_capacity_from_source bits : (bits <= 15)%nat ->
  Z.of_nat (sw_size (sw_init bits)) = gf_internal_BinaryPow (Z.of_nat bits).
Proof.
  intro H. rewrite gen_BinaryPow_is by lia. unfold sw_init, sw_make. cbn [sw_size].
  rewrite Nat2Z.inj_pow. reflexivity.
Qed.

(* ToBinaryNumber: the model's to_binary_number.  Both are fuelled doubling loops (200 rounds generated, 64 in the
   model); with the same fuel they agree step by step, and 64 rounds already suffice for every n <= 2^64. *)
Lemma tb_loop_same_fuel n : forall f x,
  gf_loop f (fun st => st <? Z.of_N n) (fun st => st * 2) (Z.of_N x) = Z.of_N (to_binary_from f x n).
Proof.
  induction f as [|f IH]; intro x; cbn [gf_loop to_binary_from]; [reflexivity|].
  replace (Z.of_N x <? Z.of_N n) with (x <? n)%N by (destruct (N.ltb_spec x n), (Z.ltb_spec (Z.of_N x) (Z.of_N n)); lia).
  destruct (x <? n)%N; [|reflexivity].
  replace (Z.of_N x * 2) with (Z.of_N (2 * x)) by lia. apply IH.
Qed.

Lemma tb_fuel_enough n : forall f k x, (n <= x * 2 ^ N.of_nat f)%N -> to_binary_from (f + k) x n = to_binary_from f x n.
Proof.
  induction f as [|f IH]; intros k x H.
  - cbn [Nat.add to_binary_from]. destruct k as [|k]; cbn [to_binary_from]; [reflexivity|].
    replace (x <? n)%N with false; [reflexivity|]. symmetry. apply N.ltb_ge. cbn in H. lia.
  - cbn [Nat.add to_binary_from]. destruct (x <? n)%N; [|reflexivity]. apply IH.
    replace (N.of_nat (S f)) with (N.succ (N.of_nat f)) in H by lia. rewrite N.pow_succ_r' in H. lia.
Qed.

Lemma gen_ToBinaryNumber_is n : (n <= 65536)%N -> gf_internal_ToBinaryNumber (Z.of_N n) = Z.of_N (to_binary_number n).
Proof.
  intro H. unfold gf_internal_ToBinaryNumber, to_binary_number. cbv zeta.
  change 1 with (Z.of_N 1).
  rewrite (tb_loop_same_fuel n 200 1). apply (f_equal Z.of_N).
  change 200%nat with (64 + 136)%nat. apply tb_fuel_enough.
  assert (2 ^ 16 <= 2 ^ N.of_nat 64)%N by (apply N.pow_le_mono_r; lia). change (2 ^ 16)%N with 65536%N in *. lia.
Qed.

(* ---- GenerateHeader: the first header byte (opcode, FIN = 128, RSV1 = 64) ---- *)
Lemma gen_header_b0_is server fin compress op len key : (op < 256)%N ->
  Z.of_N (hd 0%N (generate_header server fin compress op len key))
  = gf_gws_frameHeader_GenerateHeader_b0 server fin compress (Z.of_N op) len.
Proof.
  intro H. unfold generate_header, gf_gws_frameHeader_GenerateHeader_b0.
  destruct (set_length (u64_of_int len)) as [lc ext]. change (2 ^ 8)%N with 256%N.
  destruct server; cbn [app hd]; destruct fin, compress; cbn zeta; lia.
Qed.

(* ---- limitedReader.Read (compress.go): the accumulated count, the comparison with the limit, the error returned ---- *)
From Gws Require Import Model.LimitReader Model.Queue.

Lemma gen_limitedReader_Read_is cN cM n err p :
  gf_gws_limitedReader_Read cM cN err n p = lr_read cN cM n err.
Proof. reflexivity. Qed.

(* the copy loop of Decompress written with the regenerated Read *)
Fixpoint lr_copy_src (cN cM : Z) (reads : list (list N * Z)) (acc : list N) : option (list N) :=
  match reads with
  | [] => None
  | (p, err) :: r =>
      let '(n, e, cN') := gf_gws_limitedReader_Read cM cN err (Z.of_nat (length p)) 0 in
      let acc' := acc ++ p in
      if e =? 0 then lr_copy_src cN' cM r acc' else if e =? err_eof then Some acc' else None
  end.

Lemma limit_copy_from_source : forall reads cN cM acc, lr_copy_src cN cM reads acc = lr_copy cN cM reads acc.
Proof.
  induction reads as [|[p err] r IH]; intros cN cM acc; cbn [lr_copy_src lr_copy]; [reflexivity|].
  rewrite gen_limitedReader_Read_is. destruct (lr_read cN cM (Z.of_nat (length p)) err) as [[n e] cN'].
  rewrite IH. reflexivity.
Qed.

(* ---- workerQueue.getJob (task.go): the counter arithmetic and the order of the three tests.  Tasks are numbered from 0
   in the model; the Go value is a non-nil func, encoded as task + 1 (0 = nil). *)
Definition job_code (o : option nat) : Z := match o with Some j => Z.of_nat (S j) | None => 0 end.

Lemma gen_getJob_is st new delta :
  let q1 := match new with Some t => wq_q st ++ [t] | None => wq_q st end in
  gf_gws_workerQueue_getJob (wq_cur st) (wq_max st) (job_code (hd_error q1)) (job_code new) delta
  = (job_code (snd (get_job st new delta)), wq_cur (fst (get_job st new delta))).
Proof.
  unfold gf_gws_workerQueue_getJob, get_job. cbv zeta.
  assert (Hnz : forall o, (job_code o =? 0) = match o with Some _ => false | None => true end)
    by (intros [j|]; unfold job_code; [apply Z.eqb_neq; lia|reflexivity]).
  set (q1 := match new with Some t => wq_q st ++ [t] | None => wq_q st end).
  destruct (wq_cur st + delta >=? wq_max st); [reflexivity|].
  rewrite Hnz; destruct q1 as [|j q2]; reflexivity.
Qed.

(* ---- MaskXOR / MaskByByte (internal/utils.go): the 64-bit key, the key index of the byte loop, the loop thresholds ---- *)
From Gws Require Import Model.Mask Proofs.MaskProofs.

Lemma of_N_land a b : Z.of_N (N.land a b) = Z.land (Z.of_N a) (Z.of_N b).
Proof. apply Z.bits_inj'. intros n Hn. rewrite Z.land_spec, !Z.testbit_of_N' by lia. apply N.land_spec. Qed.

Lemma gen_key64_is m : (m < 2 ^ 32)%N -> gf_internal_MaskXOR_key64 (Z.of_N m) = Z.of_N (key64 m).
Proof.
  intro H. unfold gf_internal_MaskXOR_key64, key64.
  rewrite N2Z.inj_mod, N2Z.inj_add, N.shiftl_mul_pow2, N2Z.inj_mul, N2Z.inj_pow.
  rewrite Z.shiftl_mul_pow2 by lia.
  change (Z.of_N 2 ^ Z.of_N 64) with (2 ^ 64). change (Z.of_N 2 ^ Z.of_N 32) with (2 ^ 32).
  assert (Hm : 0 <= Z.of_N m < 2 ^ 32) by (split; [lia|]; change (2 ^ 32) with (Z.of_N (2 ^ 32)); lia).
  rewrite (Z.mod_small (Z.of_N m)) by lia.
  rewrite (Z.mod_small (Z.of_N m * 2 ^ 32)) by lia. reflexivity.
Qed.

Lemma gen_mask_idx_is i : gf_internal_MaskXOR_idx (Z.of_N i) = Z.of_N (N.land i 3)
                          /\ gf_internal_MaskByByte_idx (Z.of_N i) = Z.of_N (N.land i 3).
Proof. unfold gf_internal_MaskXOR_idx, gf_internal_MaskByByte_idx. rewrite of_N_land. split; reflexivity. Qed.

Lemma gen_mask_loops_are len i n :
  gf_internal_MaskXOR_loop1 (Z.of_N len) = (N.of_nat 64 <=? len)%N
  /\ gf_internal_MaskXOR_loop2 (Z.of_N len) = (N.of_nat 8 <=? len)%N
  /\ gf_internal_MaskXOR_loop3 (Z.of_N i) (Z.of_N n) = (i <? n)%N
  /\ gf_internal_MaskXOR_nloops = 3%nat /\ gf_internal_MaskXOR_nconds = 0%nat.
Proof.
  unfold gf_internal_MaskXOR_loop1, gf_internal_MaskXOR_loop2, gf_internal_MaskXOR_loop3.
  repeat split; try reflexivity; lia.
Qed.

(* the model written with the regenerated pieces: the word loops run while the regenerated conditions hold, the key is
   the regenerated expression, the byte loop indexes the key with the regenerated index *)
Fixpoint word_loop_src (cond : Z -> bool) (fuel blk : nat) (k64 : N) (len : N) (b : list N) : list N * (N * list N) :=
  match fuel with
  | O => ([], (len, b))
  | S f =>
      if cond (Z.of_N len) then
        let '(out, rest) := word_loop_src cond f blk k64 (len - N.of_nat blk) (skipn blk b) in
        (xor_words (blk / 8) k64 (firstn blk b) ++ out, rest)
      else ([], (len, b))
  end.

Fixpoint byte_loop_src (i : N) (key b : list N) : list N :=
  match b with
  | [] => []
  | x :: r => N.lxor x (nth (Z.to_nat (gf_internal_MaskXOR_idx (Z.of_N i))) key 0%N) :: byte_loop_src (i + 1) key r
  end.

Definition mask_impl_src (key b : list N) : option (list N) :=
  m <- key32 key ;;
  let k64 := Z.to_N (gf_internal_MaskXOR_key64 (Z.of_N m)) in
  let n := N.of_nat (length b) in
  let fuel := S (length b / 8) in
  let '(o1, (n1, b1)) := word_loop_src gf_internal_MaskXOR_loop1 fuel 64 k64 n b in
  let '(o2, (_, b2)) := word_loop_src gf_internal_MaskXOR_loop2 fuel 8 k64 n1 b1 in
  Some (o1 ++ o2 ++ byte_loop_src 0 key b2).

Lemma word_loop_src_is cond blk : (forall len, cond (Z.of_N len) = (N.of_nat blk <=? len)%N) ->
  forall fuel k64 len b, word_loop_src cond fuel blk k64 len b = word_loop fuel blk k64 len b.
Proof.
  intros Hc. induction fuel as [|f IH]; intros k64 len b; cbn [word_loop_src word_loop]; [reflexivity|].
  rewrite Hc. destruct (N.of_nat blk <=? len)%N; [|reflexivity]. rewrite IH. reflexivity.
Qed.

Lemma byte_loop_src_is : forall b i key, byte_loop_src i key b = byte_loop i key b.
Proof.
  induction b as [|x r IH]; intros i key; cbn [byte_loop_src byte_loop]; [reflexivity|].
  rewrite (proj1 (gen_mask_idx_is i)), IH.
  replace (Z.to_nat (Z.of_N (N.land i 3))) with (N.to_nat (N.land i 3)) by lia. reflexivity.
Qed.

Lemma le_load_bound : forall l, wf_bytes l -> (le_load l < 2 ^ (8 * N.of_nat (length l)))%N.
Proof.
  induction l as [|x l IH]; intro Hw; [cbn; lia|].
  inversion Hw as [|? ? Hx Hl]; subst. specialize (IH Hl). unfold byte_ok in Hx. cbn [le_load length].
  replace (8 * N.of_nat (S (length l)))%N with (8 + 8 * N.of_nat (length l))%N by lia.
  rewrite N.pow_add_r. change (2 ^ 8)%N with 256%N in *. nia.
Qed.

Lemma key32_bound key m : wf_bytes key -> key32 key = Some m -> (m < 2 ^ 32)%N.
Proof.
  unfold key32. intros Hw H. destruct (slice 0 4 key) as [w|] eqn:E; [|discriminate]. cbn [obind] in H. injection H as <-.
  unfold slice in E. destruct (_ && _); [|discriminate]. injection E as <-.
  set (w := firstn (4 - 0) (skipn 0 key)).
  assert (Hf : wf_bytes w) by (apply wf_firstn; exact Hw).
  assert (L : (length w <= 4)%nat) by (subst w; apply (firstn_le_length 4)).
  pose proof (le_load_bound w Hf) as B.
  eapply N.lt_le_trans; [exact B|]. apply N.pow_le_mono_r; lia.
Qed.

Theorem mask_from_source key b : wf_bytes key -> mask_impl_src key b = mask_impl key b.
Proof.
  intro Hw. unfold mask_impl_src, mask_impl. destruct (key32 key) as [m|] eqn:E; [|reflexivity]. cbn [obind].
  rewrite (gen_key64_is m (key32_bound key m Hw E)), N2Z.id.
  rewrite (word_loop_src_is _ 64 (fun len => proj1 (gen_mask_loops_are len 0 0))).
  destruct (word_loop _ 64 _ _ b) as [o1 [n1 b1]].
  rewrite (word_loop_src_is _ 8 (fun len => proj1 (proj2 (gen_mask_loops_are len 0 0)))).
  destruct (word_loop _ 8 _ _ b1) as [o2 [n2 b2]]. rewrite byte_loop_src_is. reflexivity.
Qed.

(* ---- ConcurrentMap.GetSharding: the shard index `hashCode & (c.num - 1)` ---- *)
Lemma gen_shard_index_is (hash : N -> N) num k : (1 <= num < 2 ^ 64)%N ->
  Z.to_nat (gf_gws_ConcurrentMap_GetSharding_index (Z.of_N num) (Z.of_N (hash k))) = cm_index hash num k.
Proof.
  intro H. unfold gf_gws_ConcurrentMap_GetSharding_index, cm_index.
  replace (Z.of_N num - 1) with (Z.of_N (num - 1)) by lia.
  rewrite Z.mod_small by (split; [lia|]; change (2 ^ 64) with (Z.of_N (2 ^ 64)); lia).
  rewrite <- of_N_land. lia.
Qed.

(* ---- option normalisation (option.go initServerOption / initClientOption): defaults of the limits, the window-bit range
   and its takeover-dependent default, threshold, level ---- *)
From Gws Require Import Model.Negotiate.

Definition opt_default (x d : Z) : Z := if x <=? 0 then d else x.

Lemma gen_init_server_is p hs pg rb rmax wb wmax pool ic vc :
  let '(_, rmax', pg', rb', wmax', wb', hs', s, c, th, lv, _) :=
    gf_gws_initServerOption hs pg (cct p) (cmwb p) (enabled p) (level p) pool (sct p) (smwb p) (threshold p) rb rmax wb wmax ic vc in
  mkPD (enabled p) (sct p) (cct p) s c th lv = norm_server p
  /\ rmax' = opt_default rmax gws_defaultReadMaxPayloadSize /\ wmax' = opt_default wmax gws_defaultWriteMaxPayloadSize
  /\ rb' = opt_default rb gws_defaultReadBufferSize /\ wb' = opt_default wb gws_defaultWriteBufferSize
  /\ pg' = opt_default pg gws_defaultParallelGolimit /\ hs' = opt_default hs gws_defaultHandshakeTimeout.
Proof.
  unfold gf_gws_initServerOption, norm_server, opt_default. destruct p as [en s0 c0 sm cm th lv]. cbn [enabled sct cct smwb cmwb threshold level].
  cbv zeta. destruct en; cbn [select_value];
    repeat match goal with |- context [if ?c then _ else _] => destruct c end; repeat split; reflexivity.
Qed.

Lemma gen_init_client_is p hs pg rb rmax wb wmax pool ic vc :
  let '(_, rmax', pg', rb', wmax', wb', hs', s, c, th, lv, pool') :=
    gf_gws_initClientOption hs pg (cmwb p) (enabled p) (level p) pool (smwb p) (threshold p) rb rmax wb wmax ic vc in
  mkPD (enabled p) (sct p) (cct p) s c th lv = norm_client p
  /\ (enabled p = true -> pool' = 1)
  /\ rmax' = opt_default rmax gws_defaultReadMaxPayloadSize /\ wmax' = opt_default wmax gws_defaultWriteMaxPayloadSize
  /\ rb' = opt_default rb gws_defaultReadBufferSize /\ wb' = opt_default wb gws_defaultWriteBufferSize
  /\ pg' = opt_default pg gws_defaultParallelGolimit /\ hs' = opt_default hs gws_defaultHandshakeTimeout.
Proof.
  unfold gf_gws_initClientOption, norm_client, opt_default. destruct p as [en s0 c0 sm cm th lv]. cbn [enabled sct cct smwb cmwb threshold level].
  cbv zeta. destruct en;
    repeat match goal with |- context [if ?c then _ else _] => destruct c end; repeat split; try reflexivity; try discriminate.
Qed.
