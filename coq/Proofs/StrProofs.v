(* Lemmas about the Go string functions of Model/Negotiate.v: Split / TrimSpace / Join / Atoi / Itoa. *)
From Gws Require Import Lib.Base Model.Negotiate.
Local Open Scope Z_scope.

Definition no_byte (x : N) (s : bstr) : bool := forallb (fun b => negb (N.eqb b x)) s.
Definition allsp (w : bstr) : bool := forallb is_space w.
(* first byte exists and is not white space *)
Definition edge_ok (t : bstr) : bool := match t with a :: _ => negb (is_space a) | [] => false end.
(* a token as internal.Split returns it: non-empty, no ';', no white space at either end *)
Definition tok_ok (t : bstr) : bool := edge_ok t && edge_ok (rev t) && no_byte b_semi t.

(* ---- strings.Split ---- *)

Lemma split_on_clean sep s : no_byte sep s = true -> split_on sep s = [s].
Proof.
  induction s as [|a s IH]; cbn; intro H; [reflexivity|].
  apply andb_true_iff in H as [H1 H2].
  destruct (N.eqb a sep); [discriminate|]. rewrite IH by assumption. reflexivity.
Qed.

Lemma split_on_app sep s r : no_byte sep s = true -> split_on sep (s ++ sep :: r) = s :: split_on sep r.
Proof.
  induction s as [|a s IH]; cbn; intro H.
  - rewrite N.eqb_refl. reflexivity.
  - apply andb_true_iff in H as [H1 H2].
    destruct (N.eqb a sep); [discriminate|]. rewrite IH by assumption. reflexivity.
Qed.

Lemma no_byte_app x a b : no_byte x (a ++ b) = no_byte x a && no_byte x b.
Proof. apply forallb_app. Qed.

(* ---- strings.Join ---- *)

Lemma join_cons sep x r : join sep (x :: r) = x ++ concat (map (fun u => sep ++ u) r).
Proof.
  revert x. induction r as [|y r IH]; intro x.
  - cbn. rewrite app_nil_r. reflexivity.
  - change (join sep (x :: y :: r)) with (x ++ sep ++ join sep (y :: r)).
    rewrite IH. cbn [map concat]. rewrite <- !app_assoc. reflexivity.
Qed.

Lemma split_concat x segs : forallb (no_byte b_semi) (x :: segs) = true ->
  split_on b_semi (x ++ concat (map (fun u => [b_semi] ++ u) segs)) = x :: segs.
Proof.
  revert x. induction segs as [|y segs IH]; intros x H; cbn [forallb] in H.
  - cbn. rewrite app_nil_r. apply split_on_clean. apply andb_true_iff in H as [H _]. exact H.
  - apply andb_true_iff in H as [Hx Hr].
    cbn [map concat app]. rewrite split_on_app by exact Hx. f_equal. apply IH. exact Hr.
Qed.

Lemma split_join segs : forallb (no_byte b_semi) segs = true ->
  split_on b_semi (join [b_semi] segs) = match segs with [] => [[]] | _ => segs end.
Proof.
  destruct segs as [|x segs]; intro H; [reflexivity|].
  rewrite join_cons. apply split_concat. exact H.
Qed.

(* ---- strings.TrimSpace ---- *)

Lemma forallb_rev {A} (f : A -> bool) l : forallb f (rev l) = forallb f l.
Proof.
  induction l as [|a l IH]; [reflexivity|]. cbn. rewrite forallb_app, IH. cbn. rewrite andb_true_r. apply andb_comm.
Qed.

Lemma trim_left_space w r : allsp w = true -> trim_left (w ++ r) = trim_left r.
Proof.
  induction w as [|a w IH]; cbn; intro H; [reflexivity|].
  apply andb_true_iff in H as [H1 H2]. rewrite H1. apply IH. exact H2.
Qed.

Lemma trim_left_edge t r : edge_ok t = true -> trim_left (t ++ r) = t ++ r.
Proof.
  destruct t as [|a t]; cbn; intro H; [discriminate|].
  apply negb_true_iff in H. rewrite H. reflexivity.
Qed.

Lemma trim_space_padded w1 t w2 :
  allsp w1 = true -> allsp w2 = true -> edge_ok t = true -> edge_ok (rev t) = true ->
  trim_space (w1 ++ t ++ w2) = t.
Proof.
  intros H1 H2 Ht Hr. unfold trim_space, trim_right.
  rewrite trim_left_space by exact H1. rewrite trim_left_edge by exact Ht.
  rewrite rev_app_distr. rewrite trim_left_space by (unfold allsp; rewrite forallb_rev; exact H2).
  rewrite <- (app_nil_r (rev t)). rewrite trim_left_edge by exact Hr.
  rewrite app_nil_r. apply rev_involutive.
Qed.

Lemma space_not_semi b : is_space b = true -> negb (N.eqb b b_semi) = true.
Proof. unfold is_space, b_semi. intro H. lia. Qed.

Lemma allsp_no_semi w : allsp w = true -> no_byte b_semi w = true.
Proof.
  unfold allsp, no_byte. rewrite !forallb_forall. intros H x Hx. apply space_not_semi. apply H. exact Hx.
Qed.

Lemma edge_ok_nonempty t : edge_ok t = true -> nonempty t = true.
Proof. destruct t; [discriminate|reflexivity]. Qed.

(* ---- internal.Split on a padded, ';'-separated list ---- *)

Lemma trim_left_allsp w : allsp w = true -> trim_left w = [].
Proof. intro H. rewrite <- (app_nil_r w). rewrite trim_left_space by exact H. reflexivity. Qed.

Lemma trim_space_allsp w : allsp w = true -> trim_space w = [].
Proof. intro H. unfold trim_space. rewrite trim_left_allsp by exact H. reflexivity. Qed.

(* (leading white space, token or nothing, trailing white space) *)
Definition triple := (bstr * bstr * bstr)%type.
Definition seg3 (x : triple) : bstr := let '(w1, t, w2) := x in w1 ++ t ++ w2.
Definition tok3 (x : triple) : bstr := snd (fst x).
Definition triple_ok (x : triple) : bool :=
  let '(w1, t, w2) := x in allsp w1 && (tok_ok t || negb (nonempty t)) && allsp w2.

Lemma triple_ok_inv w1 t w2 : triple_ok (w1, t, w2) = true ->
  allsp w1 = true /\ allsp w2 = true /\
  ((edge_ok t = true /\ edge_ok (rev t) = true /\ no_byte b_semi t = true) \/ t = []).
Proof.
  unfold triple_ok, tok_ok. rewrite !andb_true_iff, orb_true_iff, !andb_true_iff.
  intros [[A [B|B]] C]; repeat split; try assumption; [left; tauto|right]. destruct t; [reflexivity|discriminate].
Qed.

Lemma filter_trim_segs (l : list triple) : forallb triple_ok l = true ->
  filter nonempty (map trim_space (map seg3 l)) = filter nonempty (map tok3 l).
Proof.
  induction l as [|[[w1 t] w2] l IH]; intro H; [reflexivity|].
  cbn [forallb] in H. apply andb_true_iff in H as [Hx Hl].
  apply triple_ok_inv in Hx as (A & E & [(B & C & D)| ->]).
  - cbn [map filter seg3 tok3 fst snd]. rewrite trim_space_padded by assumption.
    rewrite (edge_ok_nonempty t) by assumption. f_equal. apply IH. exact Hl.
  - cbn [map filter seg3 tok3 fst snd app nonempty].
    rewrite trim_space_allsp by (unfold allsp in *; rewrite forallb_app, A, E; reflexivity).
    cbn [nonempty]. apply IH. exact Hl.
Qed.

Lemma utils_split_padded (l : list triple) : forallb triple_ok l = true ->
  utils_split (join [b_semi] (map seg3 l)) = filter nonempty (map tok3 l).
Proof.
  intro H. unfold utils_split.
  assert (Hs : forallb (no_byte b_semi) (map seg3 l) = true).
  { rewrite forallb_forall in H. apply forallb_forall. intros s Hin. apply in_map_iff in Hin as [[[w1 t] w2] [<- Hin]].
    apply H in Hin. apply triple_ok_inv in Hin as (A & E & [(B & C & D)| ->]);
      unfold seg3; rewrite !no_byte_app, (allsp_no_semi w1), (allsp_no_semi w2) by assumption; [rewrite D|]; reflexivity. }
  rewrite split_join by exact Hs.
  destruct l as [|x l]; [reflexivity|].
  apply (filter_trim_segs (x :: l)). exact H.
Qed.

(* ---- strings.SplitN(s, "=", 2) ---- *)

Lemma cut_eq_none k : no_byte b_eq k = true -> cut_eq k = (k, None).
Proof.
  induction k as [|a k IH]; cbn; intro H; [reflexivity|].
  apply andb_true_iff in H as [H1 H2]. destruct (N.eqb a b_eq); [discriminate|]. rewrite IH by exact H2. reflexivity.
Qed.

Lemma cut_eq_some k v : no_byte b_eq k = true -> cut_eq (k ++ b_eq :: v) = (k, Some v).
Proof.
  induction k as [|a k IH]; cbn; intro H; [reflexivity|].
  apply andb_true_iff in H as [H1 H2]. destruct (N.eqb a b_eq); [discriminate|]. rewrite IH by exact H2. reflexivity.
Qed.

(* ---- strconv.Atoi on digit strings ---- *)

Definition dval (acc : Z) (ds : bstr) : Z := fold_left (fun a d => a * 10 + Z.of_N (d - 48)) ds acc.

Lemma dval_mono ds : forall acc, 0 <= acc -> acc <= dval acc ds.
Proof.
  induction ds as [|d ds IH]; intros acc H; cbn; [lia|].
  specialize (IH (acc * 10 + Z.of_N (d - 48))). unfold dval in IH. lia.
Qed.

Lemma scan_digits_spec ds : forall acc, 0 <= acc -> forallb is_digit ds = true ->
  exists r, scan_digits ds acc = Some r /\
    ((r <= uint_max /\ r = dval acc ds) \/ (r > uint_max /\ dval acc ds > uint_max)).
Proof.
  induction ds as [|d ds IH]; intros acc Ha H; cbn [scan_digits].
  - exists acc. split; [reflexivity|]. cbn. lia.
  - cbn [forallb] in H. apply andb_true_iff in H as [Hd Hr]. rewrite Hd.
    set (acc' := acc * 10 + Z.of_N (d - 48)).
    destruct (acc' >? uint_max) eqn:E.
    + exists acc'. split; [reflexivity|]. right. split; [lia|].
      change (dval acc (d :: ds)) with (dval acc' ds).
      pose proof (dval_mono ds acc'). lia.
    + destruct (IH acc') as [r [Hs Hc]]; [lia|exact Hr|].
      exists r. split; [exact Hs|]. exact Hc.
Qed.

(* Atoi of a non-empty digit string: its value, saturated at 2^63-1 *)
Lemma atoi_digits v : v <> [] -> forallb is_digit v = true -> atoi v = Z.min (dval 0 v) int_max.
Proof.
  intros Hne Hd. destruct v as [|x v]; [congruence|].
  assert (Hx : is_digit x = true) by (cbn in Hd; apply andb_true_iff in Hd as [H _]; exact H).
  unfold atoi.
  assert (E1 : N.eqb x 43 = false) by (unfold is_digit in Hx; lia).
  assert (E2 : N.eqb x 45 = false) by (unfold is_digit in Hx; lia).
  rewrite E1, E2.
  destruct (scan_digits_spec (x :: v) 0) as [r [Hs Hc]]; [lia|exact Hd|].
  rewrite Hs. unfold int_max, uint_max in *.
  destruct Hc as [[H1 H2]|[H1 H2]]; subst; destruct (_ >=? _) eqn:E; lia.
Qed.

(* ---- strconv.Itoa on the window sizes that survive normalisation ---- *)
Lemma itoa_window n : 8 <= n <= 15 ->
  itoa n <> [] /\ forallb is_digit (itoa n) = true /\ dval 0 (itoa n) = n.
Proof.
  intro H.
  assert (C : n = 8 \/ n = 9 \/ n = 10 \/ n = 11 \/ n = 12 \/ n = 13 \/ n = 14 \/ n = 15) by lia.
  repeat (destruct C as [->|C]); try subst n; (split; [discriminate|split; reflexivity]).
Qed.

(* ---- strconv.Itoa in general, and Atoi (Itoa z) = z on the whole int64 range ---- *)

Lemma digit_byte n : 0 <= n -> is_digit (Z.to_N (48 + n mod 10)) = true
  /\ Z.of_N (Z.to_N (48 + n mod 10) - 48) = n mod 10.
Proof. intro H. pose proof (Z.mod_pos_bound n 10 ltac:(lia)). unfold is_digit. split; lia. Qed.

Lemma digits_fuel_digits f : forall n acc, 0 <= n -> forallb is_digit acc = true ->
  forallb is_digit (digits_fuel f n acc) = true.
Proof.
  induction f as [|f IH]; intros n acc Hn Ha; cbn [digits_fuel]; [exact Ha|].
  destruct (digit_byte n Hn) as [Hd _].
  destruct (n / 10 =? 0); [cbn [forallb]; rewrite Hd, Ha; reflexivity|].
  apply IH; [apply Z.div_pos; lia|cbn [forallb]; rewrite Hd, Ha; reflexivity].
Qed.

Lemma digits_fuel_nonempty f : forall n acc, acc <> [] -> digits_fuel f n acc <> [].
Proof.
  induction f as [|f IH]; intros n acc Ha; cbn [digits_fuel]; [exact Ha|].
  destruct (n / 10 =? 0); [discriminate|]. apply IH. discriminate.
Qed.

Lemma digits_fuel_val f : forall n acc, 0 <= n < 2 ^ Z.of_nat f -> dval 0 (digits_fuel f n acc) = dval n acc.
Proof.
  induction f as [|f IH]; intros n acc Hn; cbn [digits_fuel].
  - change (2 ^ Z.of_nat 0) with 1 in Hn. replace n with 0 by lia. reflexivity.
  - destruct (digit_byte n ltac:(lia)) as [_ Hv].
    pose proof (Z.div_mod n 10 ltac:(lia)) as DM. pose proof (Z.mod_pos_bound n 10 ltac:(lia)) as MB.
    destruct (n / 10 =? 0) eqn:E.
    + cbn [dval fold_left]. fold (dval (0 * 10 + Z.of_N (Z.to_N (48 + n mod 10) - 48)) acc).
      rewrite Hv. f_equal. lia.
    + rewrite IH.
      * cbn [dval fold_left]. fold (dval (n / 10 * 10 + Z.of_N (Z.to_N (48 + n mod 10) - 48)) acc).
        rewrite Hv. f_equal. lia.
      * rewrite Nat2Z.inj_succ, Z.pow_succ_r in Hn by lia. split; [apply Z.div_pos; lia|].
        apply Z.div_lt_upper_bound; lia.
Qed.

Lemma digits_spec n : 0 <= n ->
  digits n <> [] /\ forallb is_digit (digits n) = true /\ dval 0 (digits n) = n.
Proof.
  intro H. unfold digits. repeat split.
  - cbn [digits_fuel]. destruct (n / 10 =? 0); [discriminate|]. apply digits_fuel_nonempty. discriminate.
  - apply digits_fuel_digits; [exact H|reflexivity].
  - rewrite digits_fuel_val; [reflexivity|]. split; [exact H|].
    rewrite Nat2Z.inj_succ, Z2Nat.id by apply Z.log2_nonneg.
    destruct (Z.eq_dec n 0) as [->|Hz]; [reflexivity|]. apply Z.log2_spec. lia.
Qed.

Lemma atoi_itoa z : int_min <= z <= int_max -> atoi (itoa z) = z.
Proof.
  unfold int_min, int_max. intro H. unfold itoa. destruct (z <? 0) eqn:E.
  - destruct (digits_spec (- z) ltac:(lia)) as (A & B & C).
    unfold atoi. change (N.eqb 45 43) with false. change (N.eqb 45 45) with true. cbv iota beta.
    destruct (digits (- z)) as [|d ds] eqn:D; [congruence|].
    destruct (scan_digits_spec (d :: ds) 0 ltac:(lia) B) as [r [Hs Hc]].
    rewrite Hs. unfold uint_max, int_min in *. fold (dval 0 (d :: ds)) in C.
    destruct Hc as [[H1 H2]|[H1 H2]]; destruct (r >? 2 ^ 63) eqn:F; lia.
  - destruct (digits_spec z ltac:(lia)) as (A & B & C).
    rewrite atoi_digits by assumption. rewrite C. unfold int_max. lia.
Qed.
