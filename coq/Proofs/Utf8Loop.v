(* C16 lemmas, part 1: Go's table-driven utf8.Valid loop (Model/Utf8.v: first table, acceptRanges, fuel,
   8-byte ASCII fast path) computes the structurally recursive, range-based validator valid_s. *)
From Gws Require Import Lib.Base Model.Utf8.
Local Open Scope N_scope.

(* ---------------------------------------------------------------------------------------------- *)
(* decide comparisons in the goal by lia *)
Ltac bdec_step :=
  match goal with
  | |- context [N.eqb ?a ?b] =>
      first [ rewrite (proj2 (N.eqb_eq a b)) by lia | rewrite (proj2 (N.eqb_neq a b)) by lia
            | destruct (N.eqb_spec a b) ]
  | |- context [N.ltb ?a ?b] =>
      first [ rewrite (proj2 (N.ltb_lt a b)) by lia | rewrite (proj2 (N.ltb_ge a b)) by lia
            | destruct (N.ltb_spec a b) ]
  | |- context [N.leb ?a ?b] =>
      first [ rewrite (proj2 (N.leb_le a b)) by lia | rewrite (proj2 (N.leb_gt a b)) by lia
            | destruct (N.leb_spec a b) ]
  end.
Ltac bdec := cbn [andb orb negb]; repeat (bdec_step; cbn [andb orb negb]).

(* a boolean predicate that holds on 0..255 (checked by computation) holds on every byte *)
Lemma byte_forall (P : N -> bool) :
  forallb P (map N.of_nat (seq 0 256)) = true -> forall b, b < 256 -> P b = true.
Proof.
  intros H b Hb. rewrite forallb_forall in H. apply H. apply in_map_iff.
  exists (N.to_nat b). split; [lia|]. apply in_seq. lia.
Qed.

(* ---------------------------------------------------------------------------------------------- *)
(* the `first` table, as ranges *)
Definition first_ranges (b : N) : N :=
  if b <? 0x80 then as_ else if b <? 0xC2 then xx else if b <? 0xE0 then s1
  else if b =? 0xE0 then s2 else if b <? 0xED then s3 else if b =? 0xED then s4
  else if b <? 0xF0 then s3 else if b =? 0xF0 then s5 else if b <? 0xF4 then s6
  else if b =? 0xF4 then s7 else xx.

Lemma first_eq b : first b = first_ranges b.
Proof.
  destruct (N.lt_ge_cases b 256) as [Hb|Hb].
  - apply N.eqb_eq. revert b Hb. apply byte_forall. vm_compute. reflexivity.
  - unfold first. rewrite nth_overflow by (change (length first_table) with 256%nat; lia).
    unfold first_ranges. bdec; reflexivity.
Qed.

(* ---------------------------------------------------------------------------------------------- *)
(* a structurally recursive reading of the loop *)
Definition in_rng (lo hi c : N) : bool := (lo <=? c) && (c <=? hi).
Definition cont (c : N) : bool := in_rng 0x80 0xBF c.

Fixpoint valid_s (p : list N) : bool :=
  match p with
  | [] => true
  | b0 :: r =>
      if b0 <? 0x80 then valid_s r
      else if in_rng 0xC2 0xDF b0 then
        match r with
        | c1 :: r1 => cont c1 && valid_s r1
        | _ => false
        end
      else if in_rng 0xE0 0xEF b0 then
        match r with
        | c1 :: c2 :: r2 =>
            in_rng (if b0 =? 0xE0 then 0xA0 else 0x80) (if b0 =? 0xED then 0x9F else 0xBF) c1
            && cont c2 && valid_s r2
        | _ => false
        end
      else if in_rng 0xF0 0xF4 b0 then
        match r with
        | c1 :: c2 :: c3 :: r3 =>
            in_rng (if b0 =? 0xF0 then 0x90 else 0x80) (if b0 =? 0xF4 then 0x8F else 0xBF) c1
            && cont c2 && cont c3 && valid_s r3
        | _ => false
        end
      else false
  end.

Lemma valid_loop_step f pi r :
  valid_loop (S f) (pi :: r) =
    if pi <? RuneSelf then valid_loop f r
    else
      let x := first pi in
      if x =? xx then Some false
      else
        let size := N.to_nat (N.land x 7) in
        if negb (len_ge size (pi :: r)) then Some false
        else
          accept <- nth_error accept_ranges (N.to_nat (N.shiftr x 4)) ;;
          c1 <- nth_error (pi :: r) 1 ;;
          if (c1 <? fst accept) || (snd accept <? c1) then Some false
          else if (size =? 2)%nat then valid_loop f (skipn size (pi :: r))
          else
            c2 <- nth_error (pi :: r) 2 ;;
            if (c2 <? locb) || (hicb <? c2) then Some false
            else if (size =? 3)%nat then valid_loop f (skipn size (pi :: r))
            else
              c3 <- nth_error (pi :: r) 3 ;;
              if (c3 <? locb) || (hicb <? c3) then Some false
              else valid_loop f (skipn size (pi :: r)).
Proof. reflexivity. Qed.


Lemma first_class pi : 0x80 <= pi ->
  (first pi = xx /\ (pi < 0xC2 \/ 0xF4 < pi)) \/
  (first pi = s1 /\ 0xC2 <= pi <= 0xDF) \/
  (first pi = s2 /\ pi = 0xE0) \/
  (first pi = s3 /\ 0xE1 <= pi <= 0xEF /\ pi <> 0xED) \/
  (first pi = s4 /\ pi = 0xED) \/
  (first pi = s5 /\ pi = 0xF0) \/
  (first pi = s6 /\ 0xF1 <= pi <= 0xF3) \/
  (first pi = s7 /\ pi = 0xF4).
Proof.
  intro H. rewrite first_eq. unfold first_ranges. bdec; lia.
Qed.

(* one iteration of the loop for a lead byte of each table class, continuation tests spelled out *)
Definition out_rng (lo hi c : N) : bool := (c <? lo) || (hi <? c).

Definition loop2 (f : nat) (lo hi : N) (r : list N) : option bool :=
  match r with
  | c1 :: r1 => if out_rng lo hi c1 then Some false else valid_loop f r1
  | _ => Some false
  end.
Definition loop3 (f : nat) (lo hi : N) (r : list N) : option bool :=
  match r with
  | c1 :: c2 :: r2 =>
      if out_rng lo hi c1 then Some false else if out_rng 0x80 0xBF c2 then Some false else valid_loop f r2
  | _ => Some false
  end.
Definition loop4 (f : nat) (lo hi : N) (r : list N) : option bool :=
  match r with
  | c1 :: c2 :: c3 :: r3 =>
      if out_rng lo hi c1 then Some false else if out_rng 0x80 0xBF c2 then Some false
      else if out_rng 0x80 0xBF c3 then Some false else valid_loop f r3
  | _ => Some false
  end.

Ltac loop_class H0 H1 :=
  rewrite valid_loop_step; unfold RuneSelf;
  rewrite (proj2 (N.ltb_ge _ _)) by exact H0; rewrite H1;
  repeat match goal with |- context [match ?r with [] => _ | _ :: _ => _ end] => is_var r; destruct r end;
  reflexivity.

Lemma loop_xx f pi r : 0x80 <= pi -> first pi = xx -> valid_loop (S f) (pi :: r) = Some false.
Proof. intros H0 H1. rewrite valid_loop_step; unfold RuneSelf. rewrite (proj2 (N.ltb_ge _ _)) by exact H0. rewrite H1. reflexivity. Qed.
Lemma loop_s1 f pi r : 0x80 <= pi -> first pi = s1 -> valid_loop (S f) (pi :: r) = loop2 f 0x80 0xBF r.
Proof. intros H0 H1. unfold loop2. loop_class H0 H1. Qed.
Lemma loop_s2 f pi r : 0x80 <= pi -> first pi = s2 -> valid_loop (S f) (pi :: r) = loop3 f 0xA0 0xBF r.
Proof. intros H0 H1. unfold loop3. loop_class H0 H1. Qed.
Lemma loop_s3 f pi r : 0x80 <= pi -> first pi = s3 -> valid_loop (S f) (pi :: r) = loop3 f 0x80 0xBF r.
Proof. intros H0 H1. unfold loop3. loop_class H0 H1. Qed.
Lemma loop_s4 f pi r : 0x80 <= pi -> first pi = s4 -> valid_loop (S f) (pi :: r) = loop3 f 0x80 0x9F r.
Proof. intros H0 H1. unfold loop3. loop_class H0 H1. Qed.
Lemma loop_s5 f pi r : 0x80 <= pi -> first pi = s5 -> valid_loop (S f) (pi :: r) = loop4 f 0x90 0xBF r.
Proof. intros H0 H1. unfold loop4. loop_class H0 H1. Qed.
Lemma loop_s6 f pi r : 0x80 <= pi -> first pi = s6 -> valid_loop (S f) (pi :: r) = loop4 f 0x80 0xBF r.
Proof. intros H0 H1. unfold loop4. loop_class H0 H1. Qed.
Lemma loop_s7 f pi r : 0x80 <= pi -> first pi = s7 -> valid_loop (S f) (pi :: r) = loop4 f 0x80 0x8F r.
Proof. intros H0 H1. unfold loop4. loop_class H0 H1. Qed.

Lemma valid_loop_s : forall fuel p, (length p < fuel)%nat -> valid_loop fuel p = Some (valid_s p).
Proof.
  induction fuel as [|f IH]; intros p Hl; [lia|].
  destruct p as [|pi r]; [reflexivity|].
  destruct (N.lt_ge_cases pi 0x80) as [Hlt|Hge].
  { rewrite valid_loop_step. unfold RuneSelf. cbn [valid_s length] in *.
    rewrite (proj2 (N.ltb_lt _ _)) by exact Hlt. apply IH; lia. }
  destruct (first_class pi Hge) as [[Hf Hr]|[[Hf Hr]|[[Hf Hr]|[[Hf Hr]|[[Hf Hr]|[[Hf Hr]|[[Hf Hr]|[Hf Hr]]]]]]]].
  - rewrite loop_xx by assumption. cbn [valid_s]. unfold in_rng. bdec; reflexivity.
  - rewrite loop_s1 by assumption. unfold loop2. cbn [valid_s]. unfold in_rng, cont, out_rng.
    destruct r as [|c1 r1]; [bdec; reflexivity|]. rewrite IH by (cbn [length] in *; lia).
    unfold in_rng. bdec; reflexivity.
  - rewrite loop_s2 by assumption. unfold loop3. cbn [valid_s]. unfold in_rng, cont, out_rng.
    destruct r as [|c1 [|c2 r2]]; [bdec; reflexivity..|]. rewrite IH by (cbn [length] in *; lia).
    unfold in_rng. bdec; reflexivity.
  - rewrite loop_s3 by assumption. unfold loop3. cbn [valid_s]. unfold in_rng, cont, out_rng.
    destruct r as [|c1 [|c2 r2]]; [bdec; reflexivity..|]. rewrite IH by (cbn [length] in *; lia).
    unfold in_rng. bdec; reflexivity.
  - rewrite loop_s4 by assumption. unfold loop3. cbn [valid_s]. unfold in_rng, cont, out_rng.
    destruct r as [|c1 [|c2 r2]]; [bdec; reflexivity..|]. rewrite IH by (cbn [length] in *; lia).
    unfold in_rng. bdec; reflexivity.
  - rewrite loop_s5 by assumption. unfold loop4. cbn [valid_s]. unfold in_rng, cont, out_rng.
    destruct r as [|c1 [|c2 [|c3 r3]]]; [bdec; reflexivity..|]. rewrite IH by (cbn [length] in *; lia).
    unfold in_rng. bdec; reflexivity.
  - rewrite loop_s6 by assumption. unfold loop4. cbn [valid_s]. unfold in_rng, cont, out_rng.
    destruct r as [|c1 [|c2 [|c3 r3]]]; [bdec; reflexivity..|]. rewrite IH by (cbn [length] in *; lia).
    unfold in_rng. bdec; reflexivity.
  - rewrite loop_s7 by assumption. unfold loop4. cbn [valid_s]. unfold in_rng, cont, out_rng.
    destruct r as [|c1 [|c2 [|c3 r3]]]; [bdec; reflexivity..|]. rewrite IH by (cbn [length] in *; lia).
    unfold in_rng. bdec; reflexivity.
Qed.

(* ---------------------------------------------------------------------------------------------- *)
(* the ASCII fast path changes nothing (on bytes) *)
Lemma high_bit_byte b : b < 256 -> negb (N.land b 0x80 =? 0) = negb (b <? 0x80).
Proof.
  intro Hb. apply (byte_forall (fun b => Bool.eqb (negb (N.land b 0x80 =? 0)) (negb (b <? 0x80)))) in Hb.
  - apply eqb_prop in Hb. exact Hb.
  - vm_compute. reflexivity.
Qed.

Lemma has_high_bit_false : forall w, wf_bytes w -> has_high_bit w = false ->
  forallb (fun b => b <? 0x80) w = true.
Proof.
  induction w as [|b w IH]; intros Hw H; [reflexivity|].
  inversion Hw as [|? ? Hb Hw']; subst. cbn [has_high_bit existsb forallb] in *.
  apply orb_false_iff in H as [H1 H2]. rewrite high_bit_byte in H1 by exact Hb.
  apply negb_false_iff in H1. rewrite H1. cbn [andb]. apply IH; assumption.
Qed.

Lemma valid_s_skip_ascii : forall k p,
  forallb (fun b => b <? 0x80) (firstn k p) = true -> valid_s p = valid_s (skipn k p).
Proof.
  induction k as [|k IH]; intros p H; [reflexivity|].
  destruct p as [|b p]; [reflexivity|].
  cbn [firstn forallb skipn valid_s] in *. apply andb_true_iff in H as [H1 H2].
  rewrite H1. apply IH. exact H2.
Qed.

Lemma skip_ascii8_valid : forall fuel p, wf_bytes p -> valid_s (skip_ascii8 fuel p) = valid_s p.
Proof.
  induction fuel as [|f IH]; intros p Hw; [reflexivity|].
  cbn [skip_ascii8]. destruct (len_ge 8 p); [|reflexivity].
  destruct (has_high_bit (firstn 8 p)) eqn:Hh; [reflexivity|].
  rewrite IH by (apply Forall_skipn; exact Hw).
  symmetry. apply valid_s_skip_ascii. apply has_high_bit_false; [|exact Hh].
  apply Forall_firstn. exact Hw.
Qed.

(* the model never runs out of fuel and never indexes out of range *)
Lemma utf8_valid_opt_s p : wf_bytes p -> utf8_valid_opt p = Some (valid_s p).
Proof.
  intro Hw. unfold utf8_valid_opt. cbv zeta. rewrite valid_loop_s by lia.
  rewrite skip_ascii8_valid by exact Hw. reflexivity.
Qed.

Lemma utf8_valid_s p : wf_bytes p -> utf8_valid p = valid_s p.
Proof. intro Hw. unfold utf8_valid. rewrite utf8_valid_opt_s by exact Hw. reflexivity. Qed.

Lemma utf8_valid_slow_s p : utf8_valid_slow p = valid_s p.
Proof. unfold utf8_valid_slow. rewrite valid_loop_s by lia. reflexivity. Qed.

