(* C20, part 3: every API method of the model preserves `repr` and performs the plain-sequence operation
   of Spec/PlainSeq.v; the one-step refinement; the fold over call sequences; the observers. *)
From Gws Require Import Lib.Base Model.Deque Spec.PlainSeq Proofs.DequeSeg Proofs.DequeInv.

Section DequeProofs.
Context {V : Type} (zero : V).

Notation elem := (elem V).
Notation dq := (dq V).
Notation seq := (seq V).
Notation template := (template zero).
Notation repr := (repr zero).
Notation inv := (inv zero).

Ltac dsimpl := unfold rd, wr, with_elems, with_head, with_tail, with_len, with_stack in *;
               cbn [elems head tail dlen stack] in *.

Ltac ds := cbn [obind eaddr enext eprev evalue elems head tail dlen stack].
Ltac rd_a := rewrite ?upd_ne by auto; erewrite upd_eq by eauto; ds.

(* ---------------------------------------------------------------- the list operations at a split point *)

Lemma handles_split (l : seq) a : In a (handles l) -> exists l1 v l2, l = l1 ++ (a, v) :: l2.
Proof.
  intro H. apply in_map_iff in H as ([a' v] & E & Hin). cbn in E. subst a'.
  apply in_split in Hin as (l1 & l2 & ->). eauto.
Qed.

Lemma nodup_split (l1 : seq) a v (l2 : seq) : NoDup (handles (l1 ++ (a, v) :: l2)) ->
  ~ In a (handles l1) /\ ~ In a (handles l2).
Proof.
  rewrite handles_app. intro H. apply NoDup_app_iff in H as (_ & H2 & Hdis). cbn in H2.
  inversion H2; subst. split; auto. intro Hin. apply (Hdis _ Hin). left. reflexivity.
Qed.

Lemma lookup_notin a (l : seq) : ~ In a (handles l) -> lookup a l = None.
Proof.
  induction l as [|x r IH]; [reflexivity|]. cbn. intro H.
  destruct (Nat.eqb_spec (fst x) a); [tauto | apply IH; tauto].
Qed.

Lemma lookup_split (l1 : seq) a v (l2 : seq) : ~ In a (handles l1) -> lookup a (l1 ++ (a, v) :: l2) = Some v.
Proof.
  induction l1 as [|x r IH]; cbn; intro H.
  - rewrite Nat.eqb_refl. reflexivity.
  - destruct (Nat.eqb_spec (fst x) a); [tauto | apply IH; tauto].
Qed.

Lemma remove_notin a (l : seq) : ~ In a (handles l) -> remove a l = l.
Proof.
  induction l as [|x r IH]; [reflexivity|]. cbn. intro H.
  destruct (Nat.eqb_spec (fst x) a); [tauto|]. cbn. f_equal. apply IH. tauto.
Qed.

Lemma remove_split (l1 : seq) a v (l2 : seq) : ~ In a (handles l1) -> ~ In a (handles l2) ->
  remove a (l1 ++ (a, v) :: l2) = l1 ++ l2.
Proof.
  intros H1 H2. unfold remove. rewrite filter_app. cbn. rewrite Nat.eqb_refl. cbn.
  fold (remove a l1). fold (remove a l2). rewrite !remove_notin by auto. reflexivity.
Qed.

Lemma update_notin a w (l : seq) : ~ In a (handles l) -> update a w l = l.
Proof.
  induction l as [|x r IH]; [reflexivity|]. cbn. intro H.
  destruct (Nat.eqb_spec (fst x) a); [tauto|]. f_equal. apply IH. tauto.
Qed.

Lemma update_split (l1 : seq) a v w (l2 : seq) : ~ In a (handles l1) -> ~ In a (handles l2) ->
  update a w (l1 ++ (a, v) :: l2) = l1 ++ (a, w) :: l2.
Proof.
  intros H1 H2. unfold update. rewrite map_app. cbn. rewrite Nat.eqb_refl.
  fold (update a w l1). fold (update a w l2). rewrite !update_notin by auto. reflexivity.
Qed.

Lemma ins_after_split h w (l1 : seq) a v (l2 : seq) : ~ In a (handles l1) ->
  ins_after h w a (l1 ++ (a, v) :: l2) = l1 ++ (a, v) :: (h, w) :: l2.
Proof.
  induction l1 as [|x r IH]; cbn; intro H.
  - rewrite Nat.eqb_refl. reflexivity.
  - destruct (Nat.eqb_spec (fst x) a); [tauto|]. f_equal. apply IH. tauto.
Qed.

Lemma ins_before_split h w (l1 : seq) a v (l2 : seq) : ~ In a (handles l1) ->
  ins_before h w a (l1 ++ (a, v) :: l2) = l1 ++ (h, w) :: (a, v) :: l2.
Proof.
  induction l1 as [|x r IH]; cbn; intro H.
  - rewrite Nat.eqb_refl. reflexivity.
  - destruct (Nat.eqb_spec (fst x) a); [tauto|]. f_equal. apply IH. tauto.
Qed.

(* ---------------------------------------------------------------- basic consequences of repr *)

Lemma inv_with_len d l out n : inv d l out -> inv (with_len d n) l out.
Proof. intros []. split; auto. Qed.

Lemma repr_zero_notin d l : repr d l -> ~ In 0 (handles l).
Proof. intros [H _] Hin. destruct (inv_live_bound _ _ _ _ _ H Hin). congruence. Qed.

Lemma repr_slot d l a v : repr d l -> In (a, v) l ->
  get d a = Some (Some a) /\ exists q m, rd d a = Some (Elem q a m v).
Proof.
  intros [H _] Hin. pose proof (i_lseg _ _ _ _ H) as Hl.
  assert (Ha : In a (handles l)) by (apply in_map_iff; exists (a, v); auto).
  destruct (inv_live_bound _ _ _ _ _ H Ha). split; [apply get_live; auto|].
  unfold rd. eapply lseg_lookup; eauto.
Qed.

Definition handle_of (d : dq) (p : option nat) : option nat :=
  match p with None => Some 0 | Some i => e <- rd d i ;; Some (eaddr e) end.

Lemma repr_handle_of d l a : repr d l -> In a (handles l) -> handle_of d (Some a) = Some a.
Proof.
  intros [H _] Ha. destruct (lseg_addr _ _ _ _ _ (i_lseg _ _ _ _ H) Ha) as (e & He & Hea).
  unfold handle_of, rd. rewrite He. cbn. rewrite Hea. reflexivity.
Qed.

Lemma inv_fresh d l a : inv d l [a] -> fresh l a.
Proof. intro H. destruct (i_out _ _ _ _ H a (or_introl eq_refl)) as (? & _ & _ & ?). split; auto. Qed.

(* ---------------------------------------------------------------- New, zero value, Reset *)

Lemma new_repr n d : dq_new zero n = Some d -> repr d [].
Proof.
  unfold dq_new. destruct (n <? 0)%Z; [discriminate|]. intro E. inversion E; subst. clear E.
  split; [|reflexivity].
  split; cbn [elems head tail dlen stack]; try solve [constructor | reflexivity | intros ? []].
  cbn. intros a Ha. lia.
Qed.

Lemma new_ok n : (0 <= n)%Z -> exists d, dq_new zero n = Some d.
Proof. intro H. unfold dq_new. destruct (Z.ltb_spec n 0); [lia | eauto]. Qed.

Lemma zero_repr : repr dq_zero [].
Proof.
  split; [|reflexivity].
  split; cbn [elems head tail dlen stack]; try solve [constructor | reflexivity | intros ? []].
  cbn. intros a Ha. lia.
Qed.

Lemma reset_repr (d : dq) : repr (dq_reset d) [].
Proof. destruct (auto_reset_spec zero d). split; auto. Qed.

(* ---------------------------------------------------------------- PushBack / PushFront *)

Lemma push_back_repr d l v : repr d l ->
  exists d' a, dq_push_back zero d v = Some (d', a) /\ repr d' (l ++ [(a, v)]) /\ fresh l a.
Proof.
  intros [H Hn]. destruct (get_element_spec zero d l H) as (d1 & a & Hg & H1 & Hs1 & Hn1).
  pose proof (inv_wr_out zero d1 l a (set_value v) H1) as H2.
  assert (Hs2 : nth_error (elems (wr d1 a (set_value v))) a = Some (Elem 0 a 0 v)).
  { dsimpl. erewrite upd_eq by eauto. reflexivity. }
  destruct (do_push_back_spec zero _ _ _ _ H2 Hs2) as (d' & Hp & H' & Hn').
  unfold dq_push_back. rewrite Hg. cbn [obind]. rewrite Hp. cbn [obind].
  eexists _, a. split; [reflexivity|]. split; [|eapply inv_fresh; eauto].
  split; [exact H'|]. rewrite Hn', app_length. dsimpl. cbn. lia.
Qed.

Lemma push_front_repr d l v : repr d l ->
  exists d' a, dq_push_front zero d v = Some (d', a) /\ repr d' ((a, v) :: l) /\ fresh l a.
Proof.
  intros [H Hn]. destruct (get_element_spec zero d l H) as (d1 & a & Hg & H1 & Hs1 & Hn1).
  pose proof (inv_wr_out zero d1 l a (set_value v) H1) as H2.
  assert (Hs2 : nth_error (elems (wr d1 a (set_value v))) a = Some (Elem 0 a 0 v)).
  { dsimpl. erewrite upd_eq by eauto. reflexivity. }
  destruct (do_push_front_spec zero _ _ _ _ H2 Hs2) as (d' & Hp & H' & Hn').
  unfold dq_push_front. rewrite Hg. cbn [obind]. rewrite Hp. cbn [obind].
  eexists _, a. split; [reflexivity|]. split; [|eapply inv_fresh; eauto].
  split; [exact H'|]. rewrite Hn'. dsimpl. cbn [length]. lia.
Qed.

(* ---------------------------------------------------------------- doRemove + putElement + autoReset *)

Lemma remove_put_repr d (l1 : seq) a v (l2 : seq) : repr d (l1 ++ (a, v) :: l2) ->
  exists d', remove_put zero d a = Some d' /\ repr d' (l1 ++ l2).
Proof.
  intros [H Hn]. destruct (do_remove_spec zero _ _ _ _ _ H) as (d1 & p & n & Hr & H1 & Hs1 & Hn1).
  destruct (put_element_spec zero _ _ _ _ H1 Hs1 eq_refl) as (d2 & Hp & H2 & Hn2).
  unfold remove_put. rewrite Hr. cbn [obind]. rewrite Hp. cbn [obind].
  eexists. split; [reflexivity|].
  assert (Hlen : dlen d2 = Z.of_nat (length (l1 ++ l2))).
  { rewrite Hn2, Hn1, Hn, !app_length. cbn [length]. lia. }
  destruct (Z.eqb_spec (dlen d2) 0) as [E|E].
  - assert (l1 ++ l2 = []) as -> by (destruct (l1 ++ l2); [reflexivity | cbn in Hlen; lia]).
    destruct (auto_reset_spec zero d2). split; auto.
  - split; auto.
Qed.

Lemma pop_front_repr d l : repr d l ->
  exists d', dq_pop_front zero d = Some (d', front_value zero l) /\ repr d' (tl l).
Proof.
  intros Hr. pose proof Hr as [H Hn]. unfold dq_pop_front, dq_front. rewrite (i_head _ _ _ _ H).
  destruct l as [|[a v] l2].
  - cbn [hd_or]. rewrite get_nil. cbn [obind]. eexists. split; [reflexivity | exact Hr].
  - cbn [hd_or fst]. destruct (repr_slot _ _ a v Hr (or_introl eq_refl)) as (Hg & q & m & Hs).
    rewrite Hg. cbn [obind]. rewrite Hs. cbn [obind evalue].
    destruct (remove_put_repr d [] a v l2 Hr) as (d' & Hrp & Hr'). rewrite Hrp. cbn [obind].
    eexists. split; [reflexivity | exact Hr'].
Qed.

Lemma pop_back_repr d l : repr d l ->
  exists d', dq_pop_back zero d = Some (d', back_value zero l) /\ repr d' (removelast l).
Proof.
  intros Hr. pose proof Hr as [H Hn]. unfold dq_pop_back, dq_back. rewrite (i_tail _ _ _ _ H).
  destruct (list_eq_nil_dec' l) as [->|Hne].
  - change (last_or 0 []) with 0. rewrite get_nil. cbn [obind]. eexists. split; [reflexivity | exact Hr].
  - destruct (exists_last' l Hne) as (l1 & [a v] & ->). rewrite last_or_snoc. cbn [fst].
    destruct (repr_slot _ _ a v Hr) as (Hg & q & m & Hs); [apply in_or_app; right; left; reflexivity|].
    rewrite Hg. cbn [obind]. rewrite Hs. cbn [obind evalue].
    destruct (remove_put_repr d l1 a v [] Hr) as (d' & Hrp & Hr'). rewrite Hrp. cbn [obind].
    rewrite app_nil_r in Hr'. rewrite removelast_last.
    unfold back_value, values. rewrite map_app. cbn [map snd]. rewrite last_last.
    eexists. split; [reflexivity | exact Hr'].
Qed.

Lemma remove_repr d l a : repr d l -> a = 0 \/ In a (handles l) ->
  exists d', dq_remove zero d a = Some d' /\ repr d' (remove a l).
Proof.
  intros Hr [->|Ha]; unfold dq_remove.
  - rewrite get_nil. cbn [obind]. rewrite remove_notin by (eapply repr_zero_notin; eauto). eauto.
  - destruct (handles_split l a Ha) as (l1 & v & l2 & ->).
    destruct (nodup_split _ _ _ _ (i_nodup _ _ _ _ (proj1 Hr))) as [N1 N2].
    destruct (repr_slot _ _ a v Hr) as (Hg & _); [apply in_or_app; right; left; reflexivity|].
    rewrite Hg. cbn [obind]. rewrite remove_split by auto. exact (remove_put_repr d l1 a v l2 Hr).
Qed.

(* ---------------------------------------------------------------- MoveToBack / MoveToFront *)

Lemma move_to_back_repr d l a : repr d l -> a = 0 \/ In a (handles l) ->
  exists d', dq_move_to_back d a = Some d' /\ repr d' (move_to_back a l).
Proof.
  intros Hr [->|Ha]; unfold dq_move_to_back, move_to_back.
  - rewrite get_nil. cbn [obind]. rewrite lookup_notin by (eapply repr_zero_notin; eauto). eauto.
  - destruct (handles_split l a Ha) as (l1 & v & l2 & ->). pose proof Hr as [H Hn].
    destruct (nodup_split _ _ _ _ (i_nodup _ _ _ _ H)) as [N1 N2].
    destruct (repr_slot _ _ a v Hr) as (Hg & _); [apply in_or_app; right; left; reflexivity|].
    rewrite Hg. cbn [obind]. rewrite lookup_split, remove_split by auto.
    destruct (do_remove_spec zero _ _ _ _ _ H) as (d1 & p & n & Hrm & H1 & Hs1 & Hn1).
    rewrite Hrm. cbn [obind].
    pose proof (inv_wr_out zero d1 _ a (fun e => Elem 0 (eaddr e) 0 (evalue e)) H1) as H2.
    assert (Hs2 : nth_error (elems (wr d1 a (fun e => Elem 0 (eaddr e) 0 (evalue e)))) a = Some (Elem 0 a 0 v)).
    { dsimpl. erewrite upd_eq by eauto. reflexivity. }
    destruct (do_push_back_spec zero _ _ _ _ H2 Hs2) as (d' & Hp & H' & Hn').
    rewrite Hp. eexists. split; [reflexivity|]. split; [exact H'|].
    rewrite Hn'. dsimpl. rewrite Hn1, Hn, !app_length. cbn [length]. lia.
Qed.

Lemma move_to_front_repr d l a : repr d l -> a = 0 \/ In a (handles l) ->
  exists d', dq_move_to_front d a = Some d' /\ repr d' (move_to_front a l).
Proof.
  intros Hr [->|Ha]; unfold dq_move_to_front, move_to_front.
  - rewrite get_nil. cbn [obind]. rewrite lookup_notin by (eapply repr_zero_notin; eauto). eauto.
  - destruct (handles_split l a Ha) as (l1 & v & l2 & ->). pose proof Hr as [H Hn].
    destruct (nodup_split _ _ _ _ (i_nodup _ _ _ _ H)) as [N1 N2].
    destruct (repr_slot _ _ a v Hr) as (Hg & _); [apply in_or_app; right; left; reflexivity|].
    rewrite Hg. cbn [obind]. rewrite lookup_split, remove_split by auto.
    destruct (do_remove_spec zero _ _ _ _ _ H) as (d1 & p & n & Hrm & H1 & Hs1 & Hn1).
    rewrite Hrm. cbn [obind].
    pose proof (inv_wr_out zero d1 _ a (fun e => Elem 0 (eaddr e) 0 (evalue e)) H1) as H2.
    assert (Hs2 : nth_error (elems (wr d1 a (fun e => Elem 0 (eaddr e) 0 (evalue e)))) a = Some (Elem 0 a 0 v)).
    { dsimpl. erewrite upd_eq by eauto. reflexivity. }
    destruct (do_push_front_spec zero _ _ _ _ H2 Hs2) as (d' & Hp & H' & Hn').
    rewrite Hp. eexists. split; [reflexivity|]. split; [exact H'|].
    rewrite Hn'. dsimpl. rewrite Hn1, Hn, !app_length. cbn [length]. rewrite app_length. lia.
Qed.

(* ---------------------------------------------------------------- Update *)

Lemma update_repr d l a w : repr d l -> a = 0 \/ In a (handles l) ->
  exists d', dq_update d a w = Some d' /\ repr d' (update a w l).
Proof.
  intros Hr [->|Ha]; unfold dq_update.
  - rewrite get_nil. cbn [obind]. rewrite update_notin by (eapply repr_zero_notin; eauto). eauto.
  - destruct (handles_split l a Ha) as (l1 & v & l2 & ->). pose proof Hr as [H Hn].
    pose proof H as [Hnd Hl Hh Ht Hfn Hfb Hdj Hout Hcv].
    destruct (nodup_split _ _ _ _ Hnd) as [N1 N2].
    destruct (repr_slot _ _ a v Hr) as (Hg & _); [apply in_or_app; right; left; reflexivity|].
    rewrite Hg. cbn [obind]. rewrite update_split by auto.
    eexists. split; [reflexivity|]. destruct d as [h t n st es]. dsimpl.
    assert (Hsame : handles (l1 ++ (a, w) :: l2) = handles (l1 ++ (a, v) :: l2))
      by (rewrite !handles_app; reflexivity).
    split.
    + apply (inv_change zero _ _ _ _ _ _ _ _ [] H); cbn [elems stack]; auto.
      * apply upd_length.
      * intros b Hb. apply upd_ne. intro; subst. apply (Hdj _ Hb). exact Ha.
      * rewrite Hsame. exact Hnd.
      * apply lseg_set_value with (v := v); auto.
      * rewrite Hh, !hd_or_app. reflexivity.
      * rewrite Ht. unfold last_or. rewrite Hsame. reflexivity.
      * intro b. rewrite Hsame. tauto.
    + rewrite Hn, !app_length. reflexivity.
Qed.

(* ---------------------------------------------------------------- InsertAfter / InsertBefore *)

Lemma cons_snoc_app {A} (l1 : list A) x l2 : l1 ++ x :: l2 = (l1 ++ [x]) ++ l2.
Proof. rewrite <- app_assoc. reflexivity. Qed.

Lemma nodup_insert (l1 : seq) x (l2 : seq) a v :
  NoDup (handles (l1 ++ x :: l2)) -> ~ In a (handles (l1 ++ x :: l2)) ->
  NoDup (handles (l1 ++ x :: (a, v) :: l2)) /\ NoDup (handles (l1 ++ (a, v) :: x :: l2)).
Proof.
  intros Hnd Ha. split.
  - rewrite (cons_snoc_app l1 x). rewrite cons_snoc_app in Hnd, Ha.
    rewrite handles_app in *. cbn [handles map fst]. apply NoDup_app_iff in Hnd as (H1 & H2 & H3).
    rewrite in_app_iff in Ha. apply NoDup_app_iff. repeat split; auto.
    + constructor; tauto.
    + intros y Hy [<-|Hy2]; [tauto | exact (H3 _ Hy Hy2)].
  - rewrite handles_app in *. cbn [handles map fst] in *. apply NoDup_app_iff in Hnd as (H1 & H2 & H3).
    rewrite in_app_iff in Ha. apply NoDup_app_iff. repeat split; auto.
    + constructor; [cbn in *; tauto | exact H2].
    + intros y Hy [<-|Hy2]; [tauto | exact (H3 _ Hy Hy2)].
Qed.

Lemma lseg_cons es p x (r : seq) n :
  lseg es p (x :: r) n <->
  fst x <> 0 /\ nth_error es (fst x) = Some (Elem p (fst x) (hd_or n r) (snd x)) /\ lseg es (fst x) r n.
Proof. reflexivity. Qed.

Lemma insert_after_repr d l m v : repr d l -> In m (handles l) ->
  exists d' a, dq_insert_after zero d v m = Some (d', Some a) /\ repr d' (ins_after a v m l) /\ fresh l a.
Proof.
  intros Hr Hm. destruct (handles_split l m Hm) as (l1 & w & l2 & ->). pose proof Hr as [H Hn].
  destruct (nodup_split _ _ _ _ (i_nodup _ _ _ _ H)) as [N1 N2].
  assert (Hm0 : m <> 0) by (intro; subst; eapply repr_zero_notin; eauto).
  unfold dq_insert_after. destruct (Nat.eqb_spec m 0) as [|_]; [contradiction|].
  destruct (get_element_spec zero _ _ (inv_with_len _ _ _ (dlen d + 1)%Z H)) as (d1 & a & Hg & H1 & Hs1 & Hn1).
  rewrite Hg. cbn [obind].
  pose proof H1 as [Hnd Hl Hh Ht Hfn Hfb Hdj Hout Hcv].
  destruct (Hout a (or_introl eq_refl)) as (Ha0 & Halt & Hans & Hanl).
  destruct (unlink_facts _ _ _ _ _ Hnd Hl) as (Hms & _).
  destruct (inv_live_bound _ _ _ _ _ H1 Hm) as [_ Hmlt].
  destruct (nodup_insert l1 (m, w) l2 a v Hnd Hanl) as [Hnd' _].
  assert (Hma : m <> a) by (intro; subst; auto).
  assert (HaL : ~ In a (handles (l1 ++ [(m, w)]))).
  { intro Hin. apply Hanl. rewrite cons_snoc_app, handles_app, in_app_iff. auto. }
  assert (Hlen' : dlen d1 = Z.of_nat (length (l1 ++ (m, w) :: (a, v) :: l2))).
  { rewrite Hn1. dsimpl. rewrite Hn, !app_length. cbn [length]. lia. }
  rewrite get_live by auto. cbn [obind]. dsimpl. rewrite Hms. ds.
  destruct l2 as [|y r2].
  - (* mark is the last element: tail moves *)
    cbn [hd_or get Nat.ltb Nat.leb obind]. change (get d1 0) with (@Some (option nat) None).
    ds. erewrite upd_eq by eauto. ds.
    rd_a. cbn [Nat.eqb].
    eexists _, a. split; [reflexivity|]. split; [|eapply inv_fresh; eauto]. rewrite ins_after_split by auto. split; [|exact Hlen'].
    apply (inv_change zero _ _ _ _ _ _ _ _ [] H1); cbn [elems stack]; auto.
    + rewrite !upd_length. reflexivity.
    + intros b Hb. rewrite !upd_ne; auto; intro; subst; auto. apply (Hdj _ Hb). exact Hm.
    + rewrite (cons_snoc_app l1 (m, w)). apply lseg_app. split.
      * cbn [hd_or fst]. replace m with (last_or 0 (l1 ++ [(m, w)])) at 1 by apply last_or_snoc.
        apply lseg_retarget with (n := 0).
        { destruct l1; discriminate. }
        { rewrite cons_snoc_app in Hnd'. rewrite handles_app in Hnd'. apply NoDup_app_iff in Hnd'. tauto. }
        apply lseg_frame; auto.
      * rewrite last_or_snoc. cbn [lseg fst snd hd_or]. repeat split; auto.
        rewrite upd_ne by auto. erewrite upd_eq by eauto. reflexivity.
    + rewrite Hh, !hd_or_app. reflexivity.
    + rewrite (cons_snoc_app l1 (m, w)), last_or_app. reflexivity.
    + intro b. rewrite !handles_app, !in_app_iff. cbn. tauto.
  - (* mark has a successor n *)
    set (n := fst y).
    assert (Hyin : In n (handles (l1 ++ (m, w) :: y :: r2))).
    { rewrite handles_app, in_app_iff. right. right. left. reflexivity. }
    destruct (inv_live_bound _ _ _ _ _ H1 Hyin) as [Hn0 Hnlt].
    assert (Hna : n <> a) by (intro E; apply Hanl; rewrite <- E; exact Hyin).
    assert (Hnm : n <> m) by (intro E; apply N2; rewrite <- E; left; reflexivity).
    assert (HnL : ~ In n (handles (l1 ++ [(m, w)]))).
    { rewrite cons_snoc_app, handles_app in Hnd. apply NoDup_app_iff in Hnd as (_ & _ & Hdis).
      intro Hin. apply (Hdis _ Hin). left. reflexivity. }
    cbn [hd_or]. fold n. rewrite get_live by auto. ds.
    rd_a. rd_a. rd_a. destruct (Nat.eqb_spec n 0) as [|_]; [contradiction|].
    eexists _, a. split; [reflexivity|]. split; [|eapply inv_fresh; eauto]. rewrite ins_after_split by auto. split; [|exact Hlen'].
    rewrite cons_snoc_app in Hl. apply lseg_app in Hl as [HlA HlB]. rewrite last_or_snoc in HlB.
    cbn [hd_or fst] in HlA. fold n in HlA.
    apply (inv_change zero _ _ _ _ _ _ _ _ [] H1); cbn [elems stack]; auto.
    + rewrite !upd_length. reflexivity.
    + intros b Hb. rewrite !upd_ne; auto; intro; subst; auto; apply (Hdj _ Hb); auto.
    + rewrite (cons_snoc_app l1 (m, w)). apply lseg_app. split.
      * cbn [hd_or fst]. replace m with (last_or 0 (l1 ++ [(m, w)])) at 1 by apply last_or_snoc.
        apply lseg_retarget with (n := n).
        { destruct l1; discriminate. }
        { rewrite cons_snoc_app in Hnd'. rewrite handles_app in Hnd'. apply NoDup_app_iff in Hnd'. tauto. }
        apply lseg_frame; auto. apply lseg_frame; auto.
      * rewrite last_or_snoc. apply lseg_cons. cbn [fst snd hd_or]. fold n. split; [auto|]. split.
        { rewrite !upd_ne by auto. erewrite upd_eq by eauto. reflexivity. }
        apply lseg_frame; [exact N2|].
        apply (lseg_resource _ m (y :: r2) 0 a); [discriminate | |].
        { rewrite handles_app in Hnd. apply NoDup_app_iff in Hnd as (_ & Hnd2 & _). inversion Hnd2; auto. }
        apply lseg_frame; [|exact HlB]. intro Hin. apply Hanl. rewrite handles_app, in_app_iff. right. right. exact Hin.
    + rewrite Hh, !hd_or_app. reflexivity.
    + rewrite Ht, !last_or_app, !last_or_cons. reflexivity.
    + intro b. rewrite !handles_app, !in_app_iff. cbn. tauto.
Qed.

Lemma insert_before_repr d l m v : repr d l -> In m (handles l) ->
  exists d' a, dq_insert_before zero d v m = Some (d', Some a) /\ repr d' (ins_before a v m l) /\ fresh l a.
Proof.
  intros Hr Hm. destruct (handles_split l m Hm) as (l1 & w & l2 & ->). pose proof Hr as [H Hn].
  destruct (nodup_split _ _ _ _ (i_nodup _ _ _ _ H)) as [N1 N2].
  assert (Hm0 : m <> 0) by (intro; subst; eapply repr_zero_notin; eauto).
  unfold dq_insert_before. destruct (Nat.eqb_spec m 0) as [|_]; [contradiction|].
  destruct (get_element_spec zero _ _ (inv_with_len _ _ _ (dlen d + 1)%Z H)) as (d1 & a & Hg & H1 & Hs1 & Hn1).
  rewrite Hg. cbn [obind].
  pose proof H1 as [Hnd Hl Hh Ht Hfn Hfb Hdj Hout Hcv].
  destruct (Hout a (or_introl eq_refl)) as (Ha0 & Halt & Hans & Hanl).
  destruct (unlink_facts _ _ _ _ _ Hnd Hl) as (Hms & _).
  destruct (inv_live_bound _ _ _ _ _ H1 Hm) as [_ Hmlt].
  destruct (nodup_insert l1 (m, w) l2 a v Hnd Hanl) as [_ Hnd'].
  assert (Hma : m <> a) by (intro; subst; auto).
  assert (Hal1 : ~ In a (handles l1)).
  { intro Hin. apply Hanl. rewrite handles_app, in_app_iff. auto. }
  assert (Hal2 : ~ In a (handles ((m, w) :: l2))).
  { intro Hin. apply Hanl. rewrite handles_app, in_app_iff. auto. }
  assert (Hnd2 : NoDup (handles ((m, w) :: l2))).
  { rewrite handles_app in Hnd. apply NoDup_app_iff in Hnd. tauto. }
  assert (Hlen' : dlen d1 = Z.of_nat (length (l1 ++ (a, v) :: (m, w) :: l2))).
  { rewrite Hn1. dsimpl. rewrite Hn, !app_length. cbn [length]. lia. }
  rewrite get_live by auto. cbn [obind]. dsimpl. rewrite Hms. ds.
  apply lseg_app in Hl as [HlA HlB]. cbn [hd_or fst] in HlA.
  destruct (list_eq_nil_dec' l1) as [->|Hne].
  - (* mark is the first element: head moves *)
    change (last_or 0 []) with 0 in *. change (get d1 0) with (@Some (option nat) None).
    ds. rd_a. rd_a. cbn [Nat.eqb].
    eexists _, a. split; [reflexivity|]. split; [|eapply inv_fresh; eauto].
    rewrite ins_before_split by auto. split; [|exact Hlen'].
    apply (inv_change zero _ _ _ _ _ _ _ _ [] H1); cbn [elems stack app]; auto.
    + rewrite !upd_length. reflexivity.
    + intros b Hb. rewrite !upd_ne; auto; intro; subst; auto. apply (Hdj _ Hb). exact Hm.
    + apply lseg_cons. cbn [fst snd hd_or]. split; [auto|]. split.
      { rewrite upd_ne by auto. erewrite upd_eq by eauto. reflexivity. }
      apply (lseg_resource _ 0 ((m, w) :: l2) 0 a); [discriminate | exact Hnd2 |].
      apply lseg_frame; auto.
    + intro b. cbn. tauto.
  - (* mark has a predecessor p *)
    set (p := last_or 0 l1) in *.
    assert (Hp0 : p <> 0) by (eapply lseg_last_ne; eauto).
    assert (Hpin1 : In p (handles l1)) by (apply last_or_in; auto).
    assert (Hpin : In p (handles (l1 ++ (m, w) :: l2))) by (rewrite handles_app, in_app_iff; auto).
    destruct (inv_live_bound _ _ _ _ _ H1 Hpin) as [_ Hplt].
    assert (Hpa : p <> a) by (intro E; apply Hanl; rewrite <- E; exact Hpin).
    assert (Hpm : p <> m) by (intro E; apply N1; rewrite <- E; exact Hpin1).
    assert (Hp2 : ~ In p (handles ((m, w) :: l2))).
    { rewrite handles_app in Hnd. apply NoDup_app_iff in Hnd as (_ & _ & Hdis). apply Hdis. exact Hpin1. }
    rewrite get_live by auto. ds. rd_a. rd_a. rd_a.
    destruct (Nat.eqb_spec p 0) as [|_]; [contradiction|].
    eexists _, a. split; [reflexivity|]. split; [|eapply inv_fresh; eauto].
    rewrite ins_before_split by auto. split; [|exact Hlen'].
    apply (inv_change zero _ _ _ _ _ _ _ _ [] H1); cbn [elems stack]; auto.
    + rewrite !upd_length. reflexivity.
    + intros b Hb. rewrite !upd_ne; auto; intro; subst; auto; apply (Hdj _ Hb); auto.
    + apply lseg_app. split.
      * cbn [hd_or fst]. apply lseg_frame; [exact N1|].
        apply lseg_retarget with (n := m); auto.
        { rewrite handles_app in Hnd. apply NoDup_app_iff in Hnd. tauto. }
        apply lseg_frame; auto.
      * fold p. apply lseg_cons. cbn [fst snd hd_or]. split; [auto|]. split.
        { rewrite !upd_ne by auto. erewrite upd_eq by eauto. reflexivity. }
        apply (lseg_resource _ p ((m, w) :: l2) 0 a); [discriminate | exact Hnd2 |].
        apply lseg_frame; [exact Hp2|]. apply lseg_frame; auto.
    + rewrite Hh, !hd_or_app. apply hd_or_indep. exact Hne.
    + rewrite Ht, !last_or_app, !last_or_cons. reflexivity.
    + intro b. rewrite !handles_app, !in_app_iff. cbn. tauto.
Qed.

(* ---------------------------------------------------------------- one call = one list operation *)

(* the API as the caller sees it: the handle of an element is its Addr() *)
Definition dq_step (d : dq) (o : op V) : option (dq * result V) :=
  match o with
  | OPushFront v => pr <- dq_push_front zero d v ;; h <- handle_of (fst pr) (Some (snd pr)) ;; Some (fst pr, RHandle h)
  | OPushBack v => pr <- dq_push_back zero d v ;; h <- handle_of (fst pr) (Some (snd pr)) ;; Some (fst pr, RHandle h)
  | OPopFront => pr <- dq_pop_front zero d ;; Some (fst pr, RValue (snd pr))
  | OPopBack => pr <- dq_pop_back zero d ;; Some (fst pr, RValue (snd pr))
  | OInsertAfter v m => pr <- dq_insert_after zero d v m ;; h <- handle_of (fst pr) (snd pr) ;; Some (fst pr, RHandle h)
  | OInsertBefore v m => pr <- dq_insert_before zero d v m ;; h <- handle_of (fst pr) (snd pr) ;; Some (fst pr, RHandle h)
  | OMoveToBack a => d' <- dq_move_to_back d a ;; Some (d', RUnit)
  | OMoveToFront a => d' <- dq_move_to_front d a ;; Some (d', RUnit)
  | OUpdate a v => d' <- dq_update d a v ;; Some (d', RUnit)
  | ORemove a => d' <- dq_remove zero d a ;; Some (d', RUnit)
  | OReset => Some (dq_reset d, RUnit)
  end.

Theorem step_refines d l o : repr d l -> seq_pre l o ->
  exists d' r l', dq_step d o = Some (d', r) /\ seq_step zero l o r l' /\ repr d' l'.
Proof.
  intros Hr Hpre. destruct o as [v|v| | |v m|v m|a|a|a v|a|]; cbn [dq_step seq_pre] in *.
  - destruct (push_front_repr d l v Hr) as (d' & a & E & Hr' & Hf). rewrite E. cbn [obind fst snd].
    rewrite (repr_handle_of _ _ a Hr') by (left; reflexivity). cbn [obind].
    eexists _, _, _. split; [reflexivity|]. split; [constructor; exact Hf | exact Hr'].
  - destruct (push_back_repr d l v Hr) as (d' & a & E & Hr' & Hf). rewrite E. cbn [obind fst snd].
    rewrite (repr_handle_of _ _ a Hr') by (rewrite handles_app; apply in_or_app; right; left; reflexivity).
    cbn [obind]. eexists _, _, _. split; [reflexivity|]. split; [constructor; exact Hf | exact Hr'].
  - destruct (pop_front_repr d l Hr) as (d' & E & Hr'). rewrite E. cbn [obind fst snd].
    eexists _, _, _. split; [reflexivity|]. split; [constructor | exact Hr'].
  - destruct (pop_back_repr d l Hr) as (d' & E & Hr'). rewrite E. cbn [obind fst snd].
    eexists _, _, _. split; [reflexivity|]. split; [constructor | exact Hr'].
  - destruct Hpre as [->|Hm].
    + cbn. eexists _, _, _. split; [reflexivity|]. split; [constructor | exact Hr].
    + assert (Hm0 : m <> 0) by (intro; subst; eapply repr_zero_notin; eauto).
      destruct (insert_after_repr d l m v Hr Hm) as (d' & a & E & Hr' & Hf). rewrite E. cbn [obind fst snd].
      destruct (handles_split l m Hm) as (l1 & w & l2 & El).
      assert (N1 : ~ In m (handles l1)).
      { subst l. destruct (nodup_split _ _ _ _ (i_nodup _ _ _ _ (proj1 Hr))). auto. }
      rewrite (repr_handle_of _ _ a Hr').
      2:{ subst l. rewrite ins_after_split by auto. rewrite handles_app. apply in_or_app. right. right. left. reflexivity. }
      cbn [obind]. eexists _, _, _. split; [reflexivity|]. split; [constructor; auto | exact Hr'].
  - destruct Hpre as [->|Hm].
    + cbn. eexists _, _, _. split; [reflexivity|]. split; [constructor | exact Hr].
    + assert (Hm0 : m <> 0) by (intro; subst; eapply repr_zero_notin; eauto).
      destruct (insert_before_repr d l m v Hr Hm) as (d' & a & E & Hr' & Hf). rewrite E. cbn [obind fst snd].
      destruct (handles_split l m Hm) as (l1 & w & l2 & El).
      assert (N1 : ~ In m (handles l1)).
      { subst l. destruct (nodup_split _ _ _ _ (i_nodup _ _ _ _ (proj1 Hr))). auto. }
      rewrite (repr_handle_of _ _ a Hr').
      2:{ subst l. rewrite ins_before_split by auto. rewrite handles_app. apply in_or_app. right. left. reflexivity. }
      cbn [obind]. eexists _, _, _. split; [reflexivity|]. split; [constructor; auto | exact Hr'].
  - destruct (move_to_back_repr d l a Hr Hpre) as (d' & E & Hr'). rewrite E. cbn [obind].
    eexists _, _, _. split; [reflexivity|]. split; [constructor | exact Hr'].
  - destruct (move_to_front_repr d l a Hr Hpre) as (d' & E & Hr'). rewrite E. cbn [obind].
    eexists _, _, _. split; [reflexivity|]. split; [constructor | exact Hr'].
  - destruct (update_repr d l a v Hr Hpre) as (d' & E & Hr'). rewrite E. cbn [obind].
    eexists _, _, _. split; [reflexivity|]. split; [constructor | exact Hr'].
  - destruct (remove_repr d l a Hr Hpre) as (d' & E & Hr'). rewrite E. cbn [obind].
    eexists _, _, _. split; [reflexivity|]. split; [constructor | exact Hr'].
  - eexists _, _, _. split; [reflexivity|]. split; [constructor | apply reset_repr].
Qed.

(* ---------------------------------------------------------------- call sequences *)

(* Along the call sequence ops, as long as the caller passes Nil or live handles (seq_pre, judged on the
   plain sequence), no call panics, every result is one the plain sequence allows, and the deque
   represents the plain sequence after every call. *)
Fixpoint refines (d : dq) (l : seq) (ops : list (op V)) : Prop :=
  repr d l /\
  match ops with
  | [] => True
  | o :: rest =>
      seq_pre l o ->
      exists d' r l', dq_step d o = Some (d', r) /\ seq_step zero l o r l' /\ refines d' l' rest
  end.

Theorem run_refines ops : forall d l, repr d l -> refines d l ops.
Proof.
  induction ops as [|o rest IH]; intros d l Hr; cbn [refines]; split; auto.
  intro Hpre. destruct (step_refines d l o Hr Hpre) as (d' & r & l' & E & Hs & Hr').
  eexists _, _, _. split; [exact E|]. split; [exact Hs | apply IH; exact Hr'].
Qed.

(* ---------------------------------------------------------------- observers *)

Lemma repr_len d l : repr d l -> dq_len d = Z.of_nat (length l).
Proof. intros [_ H]. exact H. Qed.

Lemma repr_front d l : repr d l ->
  dq_front d = Some (match l with [] => None | x :: _ => Some (fst x) end).
Proof.
  intros Hr. pose proof Hr as [H _]. unfold dq_front. rewrite (i_head _ _ _ _ H).
  destruct l as [|[a v] r]; [reflexivity|]. cbn [hd_or fst].
  destruct (repr_slot _ _ a v Hr (or_introl eq_refl)) as (Hg & _). exact Hg.
Qed.

Lemma repr_back d l : repr d l ->
  dq_back d = Some (match l with [] => None | _ => Some (last (handles l) 0) end).
Proof.
  intros Hr. pose proof Hr as [H _]. unfold dq_back. rewrite (i_tail _ _ _ _ H).
  destruct (list_eq_nil_dec' l) as [->|Hne]; [reflexivity|].
  destruct (exists_last' l Hne) as (l1 & [a v] & ->). rewrite last_or_snoc. cbn [fst].
  destruct (repr_slot _ _ a v Hr) as (Hg & _); [apply in_or_app; right; left; reflexivity|].
  rewrite Hg. unfold handles. rewrite map_app. cbn [map fst]. rewrite last_last. destruct l1; reflexivity.
Qed.

Definition proj (e : elem) : nat * V := (eaddr e, evalue e).

Lemma range_loop_lseg f : forall (l : seq) fuel d p,
  lseg (elems d) p l 0 -> length l <= fuel ->
  exists es k, range_loop fuel d f (hd_or 0 l) = RangeOk es /\ map proj es = firstn k l /\
               (f = (fun _ => true) -> map proj es = l).
Proof.
  induction l as [|[a v] r IH]; intros fuel d p Hl Hf.
  - exists [], 0. cbn [hd_or]. destruct fuel; cbn; auto.
  - destruct Hl as (Ha0 & He & Hr). cbn [fst snd] in *. cbn [hd_or fst].
    destruct fuel as [|fuel]; [cbn in Hf; lia|]. cbn [range_loop].
    rewrite get_live by (auto; eapply nth_error_lt; eauto). unfold rd. rewrite He.
    destruct (f _) eqn:Ef.
    + cbn [enext]. destruct (IH fuel d a Hr) as (es & k & E & Hk & Hall); [cbn in Hf; lia|].
      rewrite E. eexists (_ :: es), (S k). split; [reflexivity|]. split.
      * cbn [map firstn]. rewrite Hk. reflexivity.
      * intro F. cbn [map]. rewrite Hall by exact F. reflexivity.
    + eexists [_], 1. split; [reflexivity|]. split; [reflexivity|].
      intro F. rewrite F in Ef. discriminate.
Qed.

Lemma repr_live_count d l : repr d l -> length l <= length (elems d).
Proof.
  intros [H _]. rewrite <- (map_length fst l). fold (handles l).
  rewrite <- (seq_length (length (elems d)) 0).
  apply NoDup_incl_length; [apply (i_nodup _ _ _ _ H)|].
  intros a Ha. apply in_seq. destruct (inv_live_bound _ _ _ _ _ H Ha). lia.
Qed.

Lemma repr_range d l : repr d l ->
  exists es, dq_range d (fun _ => true) = RangeOk es /\ map proj es = l.
Proof.
  intros Hr. pose proof Hr as [H _]. unfold dq_range. rewrite (i_head _ _ _ _ H).
  destruct (range_loop_lseg (fun _ => true) l (length (elems d)) d 0 (i_lseg _ _ _ _ H) (repr_live_count _ _ Hr))
    as (es & k & E & _ & Hall).
  exists es. split; [exact E | apply Hall; reflexivity].
Qed.

(* Range with a callback that may stop early visits a prefix of the sequence, never panics, never runs out of fuel *)
Lemma repr_range_prefix d l f : repr d l ->
  exists es k, dq_range d f = RangeOk es /\ map proj es = firstn k l.
Proof.
  intros Hr. pose proof Hr as [H _]. unfold dq_range. rewrite (i_head _ _ _ _ H).
  destruct (range_loop_lseg f l (length (elems d)) d 0 (i_lseg _ _ _ _ H) (repr_live_count _ _ Hr))
    as (es & k & E & Hk & _).
  eauto.
Qed.

Lemma clone_repr d l : repr d l -> dq_clone d = d /\ repr (dq_clone d) l.
Proof. intro H. assert (E : dq_clone d = d) by (destruct d; reflexivity). rewrite E. auto. Qed.

(* ---------------------------------------------------------------- handles stay valid *)

Lemma lookup_in (l : seq) a v : NoDup (handles l) -> In (a, v) l -> lookup a l = Some v.
Proof.
  intros Hnd Hin. apply in_split in Hin as (l1 & l2 & ->).
  destruct (nodup_split _ _ _ _ Hnd). apply lookup_split. auto.
Qed.

Lemma ins_after_in h w m (l : seq) x : In x l -> In x (ins_after h w m l).
Proof.
  induction l as [|y r IH]; [auto|]. cbn. destruct (fst y =? m); cbn; intros [->|H]; auto.
Qed.

Lemma ins_before_in h w m (l : seq) x : In x l -> In x (ins_before h w m l).
Proof.
  induction l as [|y r IH]; [auto|]. cbn. destruct (fst y =? m); cbn; intros [->|H]; auto.
Qed.

Lemma remove_in (l : seq) b a v : a <> b -> In (a, v) l -> In (a, v) (remove b l).
Proof.
  intros Hne Hin. apply filter_In. split; [exact Hin|]. cbn. destruct (Nat.eqb_spec a b); [contradiction | reflexivity].
Qed.

Lemma value_after_in l o r l' a v v' :
  seq_step zero l o r l' -> NoDup (handles l) -> In (a, v) l ->
  value_after l o a v = Some v' -> In (a, v') l'.
Proof.
  intros Hs Hnd Hin Hv. destruct Hs; cbn [value_after] in Hv.
  - inversion Hv; subst. right. exact Hin.
  - inversion Hv; subst. apply in_or_app. left. exact Hin.
  - destruct l as [|x r]; [destruct Hin|]. cbn [tl]. destruct (Nat.eqb_spec (fst x) a); [discriminate|].
    inversion Hv; subst. destruct Hin as [->|Hin]; [cbn in *; congruence | exact Hin].
  - destruct (list_eq_nil_dec' l) as [->|Hne]; [destruct Hin|].
    destruct (exists_last' l Hne) as (l1 & x & ->). rewrite removelast_last.
    unfold handles in Hv. rewrite map_app in Hv. cbn [map fst] in Hv. rewrite last_last in Hv.
    destruct (Nat.eqb_spec (fst x) a); [discriminate|]. inversion Hv; subst.
    apply in_app_or in Hin as [Hin|[->|[]]]; [exact Hin | cbn in *; congruence].
  - inversion Hv; subst. exact Hin.
  - inversion Hv; subst. apply ins_after_in. exact Hin.
  - inversion Hv; subst. exact Hin.
  - inversion Hv; subst. apply ins_before_in. exact Hin.
  - inversion Hv; subst. unfold move_to_back. destruct (lookup a0 l) as [w|] eqn:El; [|exact Hin].
    destruct (Nat.eq_dec a a0) as [->|Hne].
    + rewrite (lookup_in l a0 v' Hnd Hin) in El. inversion El; subst. apply in_or_app. right. left. reflexivity.
    + apply in_or_app. left. apply remove_in; auto.
  - inversion Hv; subst. unfold move_to_front. destruct (lookup a0 l) as [w|] eqn:El; [|exact Hin].
    destruct (Nat.eq_dec a a0) as [->|Hne].
    + rewrite (lookup_in l a0 v' Hnd Hin) in El. inversion El; subst. left. reflexivity.
    + right. apply remove_in; auto.
  - unfold update. apply in_map_iff. exists (a, v). split; [|exact Hin]. cbn [fst].
    destruct (Nat.eqb_spec a0 a) as [->|Hne].
    + inversion Hv; subst. rewrite Nat.eqb_refl. reflexivity.
    + inversion Hv; subst. destruct (Nat.eqb_spec a a0); [congruence | reflexivity].
  - destruct (Nat.eqb_spec a0 a); [discriminate|]. inversion Hv; subst. apply remove_in; auto.
  - discriminate.
Qed.

Theorem handles_stable d l o d' r a v v' :
  repr d l -> seq_pre l o -> dq_step d o = Some (d', r) ->
  In (a, v) l -> value_after l o a v = Some v' ->
  get d' a = Some (Some a) /\ exists q m, rd d' a = Some (Elem q a m v').
Proof.
  intros Hr Hpre E Hin Hv. destruct (step_refines d l o Hr Hpre) as (d2 & r2 & l' & E2 & Hs & Hr').
  rewrite E in E2. inversion E2; subst.
  apply (repr_slot d2 l' a v' Hr'). eapply value_after_in; eauto. apply (i_nodup _ _ _ _ (proj1 Hr)).
Qed.

(* ---------------------------------------------------------------- executable runs and their traces *)

Fixpoint dq_run (d : dq) (ops : list (op V)) : option (dq * list (result V)) :=
  match ops with
  | [] => Some (d, [])
  | o :: rest => pr <- dq_step d o ;; pr2 <- dq_run (fst pr) rest ;; Some (fst pr2, snd pr :: snd pr2)
  end.

(* the plain sequence after call o returned r (seq_step is deterministic once the result is known) *)
Definition seq_next (l : seq) (o : op V) (r : result V) : seq :=
  match o, r with
  | OPushFront v, RHandle h => (h, v) :: l
  | OPushBack v, RHandle h => l ++ [(h, v)]
  | OPopFront, _ => tl l
  | OPopBack, _ => removelast l
  | OInsertAfter v m, RHandle h => if (m =? 0)%nat then l else ins_after h v m l
  | OInsertBefore v m, RHandle h => if (m =? 0)%nat then l else ins_before h v m l
  | OMoveToBack a, _ => move_to_back a l
  | OMoveToFront a, _ => move_to_front a l
  | OUpdate a v, _ => update a v l
  | ORemove a, _ => remove a l
  | OReset, _ => []
  | _, _ => l
  end.

Lemma seq_step_next l o r l' : seq_step zero l o r l' -> l' = seq_next l o r.
Proof.
  intros []; cbn [seq_next]; try reflexivity.
  - destruct (Nat.eqb_spec m 0); [contradiction | reflexivity].
  - destruct (Nat.eqb_spec m 0); [contradiction | reflexivity].
Qed.

Fixpoint seq_fold (l : seq) (ops : list (op V)) (rs : list (result V)) : seq :=
  match ops, rs with
  | o :: ops', r :: rs' => seq_fold (seq_next l o r) ops' rs'
  | _, _ => l
  end.

(* every call is allowed by the plain sequence, with the results the deque produced *)
Fixpoint seq_trace (l : seq) (ops : list (op V)) (rs : list (result V)) : Prop :=
  match ops, rs with
  | [], [] => True
  | o :: ops', r :: rs' => seq_step zero l o r (seq_next l o r) /\ seq_trace (seq_next l o r) ops' rs'
  | _, _ => False
  end.

(* the caller's side: every handle argument is Nil or live at the time of its call *)
Fixpoint live_trace (l : seq) (ops : list (op V)) (rs : list (result V)) : Prop :=
  match ops, rs with
  | o :: ops', r :: rs' => seq_pre l o /\ live_trace (seq_next l o r) ops' rs'
  | _, _ => True
  end.

Theorem run_trace ops : forall d l d' rs,
  repr d l -> dq_run d ops = Some (d', rs) -> live_trace l ops rs ->
  seq_trace l ops rs /\ repr d' (seq_fold l ops rs).
Proof.
  induction ops as [|o rest IH]; intros d l d' rs Hr E Hlive; cbn [dq_run] in E.
  - inversion E; subst. cbn. auto.
  - destruct (dq_step d o) as [[d1 r1]|] eqn:E1; [|discriminate]. cbn [obind fst snd] in E.
    destruct (dq_run d1 rest) as [[d2 rs2]|] eqn:E2; [|discriminate]. cbn [obind fst snd] in E.
    inversion E; subst. clear E. destruct Hlive as [Hpre Hlive].
    destruct (step_refines d l o Hr Hpre) as (d1' & r1' & l1 & E1' & Hs & Hr1).
    rewrite E1 in E1'. inversion E1'; subst. pose proof (seq_step_next _ _ _ _ Hs) as El. subst l1.
    destruct (IH _ _ _ _ Hr1 E2 Hlive) as [Ht Hr2]. cbn [seq_trace seq_fold]. auto.
Qed.


End DequeProofs.
