(* every target of the function translator was inside its subset on this run *)
From Gws Require Import Lib.Base Gen.Funcs.

Lemma funcs_all_translated : funcs_unsupported = [].
Proof. reflexivity. Qed.
