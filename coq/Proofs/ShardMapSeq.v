(* C19, sequential layer: the sharded structure refines one map.
   abs(shards) = union (concatenation) of the shards, read as a map; invariant: key k is only ever in
   shard ix k, no shard holds a key twice. *)
From Gws Require Import Lib.Base Model.ShardMap Spec.AtomicMap.
From Coq Require Import Sorting.Permutation.

Definition keys (m : amap) : list N := map fst m.

(* ---- association lists ---- *)
Lemma keys_app a b : keys (a ++ b) = keys a ++ keys b.
Proof. apply map_app. Qed.

Lemma a_load_none k m : a_load k m = None <-> ~ In k (keys m).
Proof.
  induction m as [|[k' v] m IH]; cbn; [tauto|].
  destruct (N.eqb_spec k k') as [->|Hne].
  - split; [discriminate|]. intro H. exfalso. apply H. auto.
  - rewrite IH. split; intros H; [intros [E|E]; [congruence|tauto]|tauto].
Qed.

Lemma a_load_in k v m : a_load k m = Some v -> In (k, v) m.
Proof.
  induction m as [|[k' v'] m IH]; cbn; [discriminate|].
  destruct (N.eqb_spec k k') as [->|Hne]; intro H; [inversion H; auto|auto].
Qed.

Lemma in_keys k v (m : amap) : In (k, v) m -> In k (keys m).
Proof. intro H. apply in_map_iff. exists (k, v). auto. Qed.

Lemma in_a_load k v m : NoDup (keys m) -> In (k, v) m -> a_load k m = Some v.
Proof.
  induction m as [|[k' v'] m IH]; cbn; [tauto|]. intros Hn [H|H].
  - inversion H; subst. rewrite N.eqb_refl. reflexivity.
  - inversion Hn; subst. destruct (N.eqb_spec k k') as [->|Hne]; [|auto].
    exfalso. apply H2. eapply in_keys; eauto.
Qed.

Lemma a_mem_in k m : a_mem k m = true <-> In k (keys m).
Proof.
  unfold a_mem. destruct (a_load k m) eqn:E.
  - split; auto. intros _. apply a_load_in in E. eapply in_keys; eauto.
  - split; [discriminate|]. intro H. apply a_load_none in E. tauto.
Qed.

Lemma a_load_app k a b : a_load k (a ++ b) = match a_load k a with Some v => Some v | None => a_load k b end.
Proof.
  induction a as [|[k' v] a IH]; cbn; auto. destruct (N.eqb k k'); auto.
Qed.

Lemma a_delete_load k k' m : a_load k' (a_delete k m) = if N.eqb k' k then None else a_load k' m.
Proof.
  induction m as [|[k2 v] m IH]; cbn.
  - destruct (N.eqb k' k); reflexivity.
  - destruct (N.eqb_spec k k2) as [->|Hne].
    + rewrite IH. destruct (N.eqb_spec k' k2); reflexivity.
    + cbn. rewrite IH. destruct (N.eqb_spec k' k2) as [->|Hne2]; [|reflexivity].
      destruct (N.eqb_spec k2 k); congruence.
Qed.

Lemma a_delete_keys k m k' : In k' (keys (a_delete k m)) <-> In k' (keys m) /\ k' <> k.
Proof.
  induction m as [|[k2 v] m IH]; cbn; [tauto|].
  destruct (N.eqb_spec k k2) as [->|Hne]; cbn; rewrite IH; intuition congruence.
Qed.

Lemma a_delete_nodup k m : NoDup (keys m) -> NoDup (keys (a_delete k m)).
Proof.
  induction m as [|[k2 v] m IH]; cbn; auto. intro Hn. inversion Hn; subst.
  destruct (N.eqb_spec k k2) as [->|Hne]; cbn; auto.
  constructor; auto. rewrite a_delete_keys. tauto.
Qed.

Lemma a_delete_notin k m : ~ In k (keys m) -> a_delete k m = m.
Proof.
  induction m as [|[k2 v] m IH]; cbn; auto. intro H.
  destruct (N.eqb_spec k k2) as [->|Hne]; [tauto|]. f_equal. apply IH. tauto.
Qed.

Lemma a_delete_length k m : NoDup (keys m) ->
  length (a_delete k m) + (if a_mem k m then 1 else 0) = length m.
Proof.
  induction m as [|[k2 v] m IH]; cbn; auto. intro Hn. inversion Hn; subst.
  unfold a_mem in *. cbn. destruct (N.eqb_spec k k2) as [->|Hne].
  - rewrite a_delete_notin by auto. lia.
  - cbn. specialize (IH H2). lia.
Qed.

Lemma a_store_load k v k' m : a_load k' (a_store k v m) = if N.eqb k' k then Some v else a_load k' m.
Proof.
  unfold a_store. cbn. destruct (N.eqb_spec k' k); auto. rewrite a_delete_load.
  destruct (N.eqb_spec k' k); congruence.
Qed.

Lemma a_store_keys k v m k' : In k' (keys (a_store k v m)) <-> k' = k \/ In k' (keys m).
Proof.
  unfold a_store. cbn. rewrite a_delete_keys. destruct (N.eq_dec k' k); intuition congruence.
Qed.

Lemma a_store_nodup k v m : NoDup (keys m) -> NoDup (keys (a_store k v m)).
Proof.
  intro Hn. unfold a_store. cbn. constructor; [|apply a_delete_nodup; auto].
  rewrite a_delete_keys. tauto.
Qed.

Lemma a_store_length k v m : NoDup (keys m) ->
  length (a_store k v m) = length m + (if a_mem k m then 0 else 1).
Proof.
  intro Hn. unfold a_store. cbn [length]. pose proof (a_delete_length k m Hn).
  destruct (a_mem k m); lia.
Qed.

Lemma NoDup_app_intro {A} (a b : list A) :
  NoDup a -> NoDup b -> (forall x, In x a -> ~ In x b) -> NoDup (a ++ b).
Proof.
  induction a as [|x a IH]; cbn; auto. intros Ha Hb Hd. inversion Ha; subst. constructor.
  - rewrite in_app_iff. intros [H|H]; [tauto|]. eapply Hd; eauto.
  - apply IH; auto.
Qed.

(* ---- upd / nth ---- *)
Lemma upd_length {A} i (f : A -> A) l : length (upd i f l) = length l.
Proof. revert i. induction l as [|x l IH]; intros [|i]; cbn; auto. Qed.

Lemma nth_upd {A} (d : A) i j (f : A -> A) l :
  nth i (upd j f l) d = if (i =? j) && (j <? length l) then f (nth j l d) else nth i l d.
Proof.
  revert i j. induction l as [|x l IH]; intros i j; cbn.
  - destruct i, j; cbn; rewrite ?andb_false_r; reflexivity.
  - destruct j as [|j]; destruct i as [|i]; cbn; auto.
    rewrite IH. reflexivity.
Qed.

Section Seq.
Variable ix : N -> nat.
Variable n : nat.
Hypothesis ix_lt : forall k, ix k < n.

Definition shard_ok (i : nat) (s : amap) : Prop := NoDup (keys s) /\ forall k, In k (keys s) -> ix k = i.
Definition shards_from (b : nat) (M : list amap) : Prop := forall i, shard_ok (b + i) (nth i M []).
(* THE INVARIANT: n shards; key k only ever in shard ix k; no duplicate keys *)
Definition shard_inv (M : list amap) : Prop := length M = n /\ shards_from 0 M.

(* abs = the union of the shards, read as a map *)
Definition abs (M : list amap) (k : N) : option N := a_load k (concat M).

Lemma shards_from_cons b s M : shards_from b (s :: M) <-> shard_ok b s /\ shards_from (S b) M.
Proof.
  unfold shards_from. split.
  - intro H. split.
    + specialize (H 0). rewrite Nat.add_0_r in H. exact H.
    + intro i. specialize (H (S i)). rewrite Nat.add_succ_r in H. exact H.
  - intros [H0 H] [|i]; cbn.
    + rewrite Nat.add_0_r. exact H0.
    + rewrite Nat.add_succ_r. apply H.
Qed.

Lemma concat_keys_ge b M k : shards_from b M -> In k (keys (concat M)) -> b <= ix k.
Proof.
  revert b. induction M as [|s M IH]; intros b H Hin; cbn in *; [tauto|].
  apply shards_from_cons in H as [[_ H0] H]. rewrite keys_app, in_app_iff in Hin. destruct Hin as [Hin|Hin].
  - apply H0 in Hin. lia.
  - apply (IH (S b) H) in Hin. lia.
Qed.

Lemma abs_from b M k : shards_from b M ->
  a_load k (concat M) = if b <=? ix k then a_load k (nth (ix k - b) M []) else None.
Proof.
  revert b. induction M as [|s M IH]; intros b H; cbn [concat].
  - cbn. destruct (ix k - b); destruct (b <=? ix k); reflexivity.
  - apply shards_from_cons in H as [[Hn H0] H]. rewrite a_load_app, (IH _ H).
    destruct (Nat.leb_spec b (ix k)) as [Hle|Hgt].
    + destruct (Nat.eq_dec (ix k) b) as [E|E].
      * rewrite E, Nat.sub_diag. cbn [nth].
        replace (S b <=? b) with false by (symmetry; apply Nat.leb_gt; lia).
        destruct (a_load k s); reflexivity.
      * replace (S b <=? ix k) with true by (symmetry; apply Nat.leb_le; lia).
        replace (ix k - b) with (S (ix k - S b)) by lia. cbn [nth].
        replace (a_load k s) with (@None N); [reflexivity|].
        symmetry. apply a_load_none. intro Hin. apply H0 in Hin. lia.
    + replace (S b <=? ix k) with false by (symmetry; apply Nat.leb_gt; lia).
      replace (a_load k s) with (@None N); [reflexivity|].
      symmetry. apply a_load_none. intro Hin. apply H0 in Hin. lia.
Qed.

(* Load on the sharded structure = Load on abs *)
Lemma cm_load_abs M k : shard_inv M -> cm_load ix M k = abs M k.
Proof.
  intros [_ H]. unfold abs, cm_load, shard. rewrite (abs_from 0 M k H). cbn. rewrite Nat.sub_0_r. reflexivity.
Qed.

Lemma concat_nodup b M : shards_from b M -> NoDup (keys (concat M)).
Proof.
  revert b. induction M as [|s M IH]; intros b H; cbn; [constructor|].
  apply shards_from_cons in H as [[Hn H0] H]. rewrite keys_app. apply NoDup_app_intro; eauto.
  intros k Hk Hk'. apply H0 in Hk. apply (concat_keys_ge _ _ _ H) in Hk'. lia.
Qed.

Lemma cm_len_concat M : cm_len M = length (concat M).
Proof. induction M as [|s M IH]; cbn; auto. rewrite app_length, IH. reflexivity. Qed.

(* Len = number of keys of abs *)
Lemma cm_len_size M : shard_inv M -> has_size (abs M) (cm_len M).
Proof.
  intros [_ H]. exists (keys (concat M)). split; [eapply concat_nodup; eauto|]. split.
  - intro k. unfold abs. pose proof (a_load_none k (concat M)) as Hn.
    destruct (in_dec N.eq_dec k (keys (concat M))) as [Hi|Hi].
    + split; auto. intros _ E. apply Hn in E. tauto.
    + split; [tauto|]. intro E. exfalso. apply E. apply Hn. exact Hi.
  - unfold keys. rewrite map_length. symmetry. apply cm_len_concat.
Qed.

Lemma shard_inv_new : shard_inv (cm_new n).
Proof.
  assert (E : forall m i, nth i (repeat (@nil (N * N)) m) [] = [])
    by (induction m as [|m IH]; intros [|i]; cbn; auto).
  split; [apply repeat_length|]. intro i. unfold cm_new. rewrite E.
  split; [constructor|intros k []].
Qed.

Lemma shard_inv_upd M k (f : amap -> amap) :
  (forall s, shard_ok (ix k) s -> shard_ok (ix k) (f s)) -> shard_inv M -> shard_inv (upd (ix k) f M).
Proof.
  intros Hf [Hl H]. split; [rewrite upd_length; auto|]. intro i. rewrite nth_upd.
  destruct (Nat.eqb_spec i (ix k)) as [->|Hne]; cbn [andb]; [|apply H].
  destruct (ix k <? length M); [|apply H]. apply Hf. apply (H (ix k)).
Qed.

Lemma shard_inv_store M k v : shard_inv M -> shard_inv (cm_store ix M k v).
Proof.
  apply shard_inv_upd. intros s [Hn H]. split; [apply a_store_nodup; auto|].
  intros k' Hin. apply a_store_keys in Hin as [->|Hin]; auto.
Qed.

Lemma shard_inv_delete M k : shard_inv M -> shard_inv (cm_delete ix M k).
Proof.
  apply shard_inv_upd. intros s [Hn H]. split; [apply a_delete_nodup; auto|].
  intros k' Hin. apply a_delete_keys in Hin as [Hin _]; auto.
Qed.

Lemma cm_load_upd M k (f : amap -> amap) k' : length M = n ->
  cm_load ix (upd (ix k) f M) k' = if ix k' =? ix k then a_load k' (f (shard (ix k) M)) else cm_load ix M k'.
Proof.
  intro Hl. unfold cm_load, shard. rewrite nth_upd.
  replace (ix k <? length M) with true by (symmetry; apply Nat.ltb_lt; rewrite Hl; apply ix_lt).
  rewrite andb_true_r. destruct (ix k' =? ix k); reflexivity.
Qed.

(* Store / Delete commute with abs *)
Lemma cm_store_abs M k v k' : shard_inv M ->
  abs (cm_store ix M k v) k' = if N.eqb k' k then Some v else abs M k'.
Proof.
  intro H. rewrite <- !cm_load_abs by (auto using shard_inv_store). unfold cm_store.
  rewrite cm_load_upd by apply H. rewrite a_store_load.
  destruct (N.eqb_spec k' k) as [->|Hne].
  - rewrite Nat.eqb_refl. reflexivity.
  - destruct (Nat.eqb_spec (ix k') (ix k)) as [E|E]; [|reflexivity].
    unfold cm_load. rewrite E. reflexivity.
Qed.

Lemma cm_delete_abs M k k' : shard_inv M ->
  abs (cm_delete ix M k) k' = if N.eqb k' k then None else abs M k'.
Proof.
  intro H. rewrite <- !cm_load_abs by (auto using shard_inv_delete). unfold cm_delete.
  rewrite cm_load_upd by apply H. rewrite a_delete_load.
  destruct (N.eqb_spec k' k) as [->|Hne].
  - rewrite Nat.eqb_refl. reflexivity.
  - destruct (Nat.eqb_spec (ix k') (ix k)) as [E|E]; [|reflexivity].
    unfold cm_load. rewrite E. reflexivity.
Qed.

(* ---- whole sequential programs ---- *)
Definition q_of (o : sop) : qop :=
  match o with SLoad k => QOp (MLoad k) | SStore k v => QOp (MStore k v) | SDelete k => QOp (MDelete k) | SLen => QLen end.
Definition qres_of (r : sres) : qres :=
  match r with SRVal v => QRes (MRVal v) | SRUnit => QRes MRUnit | SRLen c => QSize c end.

Lemma has_size_ext s s' c : (forall k, s k = s' k) -> has_size s' c -> has_size s c.
Proof. intros E (ks & H1 & H2 & H3). exists ks. repeat split; auto; intro; rewrite ?E; apply H2; rewrite <- ?E; auto. Qed.

Lemma refines_from ops : forall M s, shard_inv M -> (forall k, s k = abs M k) ->
  shard_inv (fst (cm_run ix M ops)) /\
  exists s', spec_run s (map q_of ops) (map qres_of (snd (cm_run ix M ops))) s' /\
             forall k, s' k = abs (fst (cm_run ix M ops)) k.
Proof.
  induction ops as [|o ops IH]; intros M s Hinv Hs; cbn [cm_run].
  - cbn. split; auto. exists s. split; [constructor|auto].
  - destruct o as [k|k v|k|]; cbn [cm_step].
    + destruct (cm_run ix M ops) as [M2 xs] eqn:E. cbn.
      destruct (IH M s Hinv Hs) as (I1 & s' & I2 & I3). rewrite E in *. cbn in *.
      split; auto. exists s'. split; auto.
      replace (cm_load ix M k) with (s k) by (rewrite Hs; symmetry; apply cm_load_abs; auto).
      apply (sr_op s (MLoad k)). exact I2.
    + destruct (cm_run ix (cm_store ix M k v) ops) as [M2 xs] eqn:E. cbn.
      destruct (IH (cm_store ix M k v) (fst (m_apply s (MStore k v))) (shard_inv_store _ _ _ Hinv)) as (I1 & s' & I2 & I3).
      { intro k'. cbn. rewrite cm_store_abs by auto. rewrite Hs. reflexivity. }
      rewrite E in *. cbn [fst snd] in *. split; auto. exists s'. split; auto.
      apply (sr_op s (MStore k v)). exact I2.
    + destruct (cm_run ix (cm_delete ix M k) ops) as [M2 xs] eqn:E. cbn.
      destruct (IH (cm_delete ix M k) (fst (m_apply s (MDelete k))) (shard_inv_delete _ _ Hinv)) as (I1 & s' & I2 & I3).
      { intro k'. cbn. rewrite cm_delete_abs by auto. rewrite Hs. reflexivity. }
      rewrite E in *. cbn [fst snd] in *. split; auto. exists s'. split; auto.
      apply (sr_op s (MDelete k)). exact I2.
    + destruct (cm_run ix M ops) as [M2 xs] eqn:E. cbn.
      destruct (IH M s Hinv Hs) as (I1 & s' & I2 & I3). rewrite E in *. cbn in *.
      split; auto. exists s'. split; auto. constructor; auto.
      eapply has_size_ext; [exact Hs|]. apply cm_len_size. exact Hinv.
Qed.

Lemma abs_new k : abs (cm_new n) k = None.
Proof. unfold abs, cm_new. clear. induction n; cbn; auto. Qed.

Lemma refines_step M : shard_inv M ->
  (forall k, cm_load ix M k = abs M k) /\
  (forall k v, shard_inv (cm_store ix M k v) /\
               forall k', abs (cm_store ix M k v) k' = fst (m_apply (abs M) (MStore k v)) k') /\
  (forall k, shard_inv (cm_delete ix M k) /\
             forall k', abs (cm_delete ix M k) k' = fst (m_apply (abs M) (MDelete k)) k') /\
  has_size (abs M) (cm_len M).
Proof.
  intro H. split; [intro; apply cm_load_abs; auto|].
  split; [intros k v; split; [apply shard_inv_store; auto|intro k'; apply cm_store_abs; auto]|].
  split; [intros k; split; [apply shard_inv_delete; auto|intro k'; apply cm_delete_abs; auto]|].
  apply cm_len_size; auto.
Qed.

Lemma refines_new ops :
  shard_inv (fst (cm_run ix (cm_new n) ops)) /\
  exists s', spec_run m_empty (map q_of ops) (map qres_of (snd (cm_run ix (cm_new n) ops))) s' /\
             forall k, s' k = abs (fst (cm_run ix (cm_new n) ops)) k.
Proof. apply refines_from; [apply shard_inv_new|]. intro k. rewrite abs_new. reflexivity. Qed.

(* ---- sequential Range ---- *)
Lemma visit_true f vis es : (forall l, f l = true) -> visit f vis es = (vis ++ es, true).
Proof.
  intro Hf. revert vis. induction es as [|e es IH]; intro vis; cbn.
  - rewrite app_nil_r. reflexivity.
  - rewrite Hf, IH, <- app_assoc. reflexivity.
Qed.

Lemma range_run_true f ess vis : (forall l, f l = true) -> range_run f ess vis = vis ++ concat ess.
Proof.
  intro Hf. revert vis. induction ess as [|es ess IH]; intro vis; cbn.
  - rewrite app_nil_r. reflexivity.
  - rewrite visit_true by auto. rewrite IH, <- app_assoc. reflexivity.
Qed.

Lemma visit_prefix f es : forall vis, exists pre post, es = pre ++ post /\ fst (visit f vis es) = vis ++ pre /\
  (snd (visit f vis es) = true -> post = []).
Proof.
  induction es as [|e es IH]; intro vis; cbn.
  - exists [], []. cbn. rewrite app_nil_r. auto.
  - destruct (f (vis ++ [e])).
    + destruct (IH (vis ++ [e])) as (pre & post & -> & H2 & H3). exists (e :: pre), post.
      rewrite H2, <- app_assoc. auto.
    + exists [e], es. cbn. repeat split; auto. discriminate.
Qed.

(* whatever the callback, Range's output is a prefix of the full traversal *)
Lemma range_run_prefix f ess : forall vis, exists rest, vis ++ concat ess = range_run f ess vis ++ rest.
Proof.
  induction ess as [|es ess IH]; intro vis; cbn.
  - exists []. reflexivity.
  - destruct (visit f vis es) as [vis' nx] eqn:E.
    destruct (visit_prefix f es vis) as (pre & post & -> & H2 & H3). rewrite E in *. cbn in *. subst vis'.
    destruct nx.
    + rewrite (H3 eq_refl), app_nil_r. destruct (IH (vis ++ pre)) as (rest & Hr). exists rest.
      rewrite <- Hr, <- !app_assoc. reflexivity.
    + exists (post ++ concat ess). rewrite <- !app_assoc. reflexivity.
Qed.

Lemma perm_concat ess M : perm_of ess M -> Permutation (concat ess) (concat M).
Proof. induction 1; cbn; auto. apply Permutation_app; auto. Qed.

(* with a callback that never stops, Range visits exactly the entries of abs, each key once *)
Lemma cm_range_once f ess M : shard_inv M -> perm_of ess M -> (forall l, f l = true) ->
  NoDup (keys (cm_range f ess)) /\ forall k v, In (k, v) (cm_range f ess) <-> abs M k = Some v.
Proof.
  intros [Hl H] Hp Hf. unfold cm_range. rewrite range_run_true by auto. cbn [app].
  pose proof (perm_concat _ _ Hp) as HP. pose proof (concat_nodup _ _ H) as Hn. split.
  - eapply Permutation_NoDup; [|exact Hn]. unfold keys. apply Permutation_map. symmetry. exact HP.
  - intros k v. unfold abs. split.
    + intro Hin. apply in_a_load; auto. eapply Permutation_in; eauto.
    + intro Hv. apply a_load_in in Hv. eapply Permutation_in; [symmetry|]; eauto.
Qed.

End Seq.

(* ---- the Go index function ---- *)
Lemma cm_index_pow2 hash p k : cm_index hash (2 ^ p) k = N.to_nat (hash k mod 2 ^ p).
Proof. unfold cm_index. rewrite <- N.pred_sub, <- N.ones_equiv, N.land_ones. reflexivity. Qed.

Lemma cm_index_lt hash p k : cm_index hash (2 ^ p) k < N.to_nat (2 ^ p).
Proof.
  rewrite cm_index_pow2. pose proof (N.mod_lt (hash k) (2 ^ p)).
  assert (2 ^ p <> 0)%N by (apply N.pow_nonzero; discriminate). lia.
Qed.

Lemma mod_index_lt hash n k : 0 < n -> mod_index hash n k < n.
Proof. intro H. unfold mod_index. pose proof (N.mod_lt (hash k) (N.of_nat n)). lia. Qed.
