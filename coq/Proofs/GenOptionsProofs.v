(* option normalisation (option.go) *)
From Gws Require Import Lib.Base Spec.Rfc6455 Gen.Consts Gen.Funcs Proofs.GenBase.
From Coq Require Import ZifyN ZifyNat ZifyBool.
Local Open Scope Z_scope.
(* ---- option normalisation (option.go initServerOption / initClientOption): defaults of the limits, the window-bit range
   and its takeover-dependent default, threshold, level ---- *)
From Gws Require Import Model.Negotiate.

Definition opt_default (x d : Z) : Z := if x <=? 0 then d else x.

Lemma gen_init_server_is p hs pg rb rmax wb wmax pool ic vc :
  let '(_, rmax', pg', rb', wmax', wb', hs', s, c, th, lv, _) :=
    gf_gws_initServerOption hs pg (cct p) (cmwb p) (enabled p) (level p) pool (sct p) (smwb p) (threshold p) rb rmax wb wmax ic vc in
  mkPD (enabled p) (sct p) (cct p) s c th lv = norm_server p
  /\ rmax' = opt_default rmax gws_defaultReadMaxPayloadSize /\ wmax' = opt_default wmax gws_defaultWriteMaxPayloadSize
  /\ rb' = opt_default rb gws_defaultReadBufferSize /\ wb' = opt_default wb gws_defaultWriteBufferSize
  /\ pg' = opt_default pg gws_defaultParallelGolimit /\ hs' = opt_default hs gws_defaultHandshakeTimeout.
Proof.
  unfold gf_gws_initServerOption, norm_server, opt_default. destruct p as [en s0 c0 sm cm th lv]. cbn [enabled sct cct smwb cmwb threshold level].
  cbv zeta. destruct en; cbn [select_value];
    repeat match goal with |- context [if ?c then _ else _] => destruct c end; repeat split; reflexivity.
Qed.

Lemma gen_init_client_is p hs pg rb rmax wb wmax pool ic vc :
  let '(_, rmax', pg', rb', wmax', wb', hs', s, c, th, lv, pool') :=
    gf_gws_initClientOption hs pg (cmwb p) (enabled p) (level p) pool (smwb p) (threshold p) rb rmax wb wmax ic vc in
  mkPD (enabled p) (sct p) (cct p) s c th lv = norm_client p
  /\ (enabled p = true -> pool' = 1)
  /\ rmax' = opt_default rmax gws_defaultReadMaxPayloadSize /\ wmax' = opt_default wmax gws_defaultWriteMaxPayloadSize
  /\ rb' = opt_default rb gws_defaultReadBufferSize /\ wb' = opt_default wb gws_defaultWriteBufferSize
  /\ pg' = opt_default pg gws_defaultParallelGolimit /\ hs' = opt_default hs gws_defaultHandshakeTimeout.
Proof.
  unfold gf_gws_initClientOption, norm_client, opt_default. destruct p as [en s0 c0 sm cm th lv]. cbn [enabled sct cct smwb cmwb threshold level].
  cbv zeta. destruct en;
    repeat match goal with |- context [if ?c then _ else _] => destruct c end; repeat split; try reflexivity; try discriminate.
Qed.
