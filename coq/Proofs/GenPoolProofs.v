(* Min / Max and binaryCeil: the size class of the buffer pool (internal/pool.go, internal/utils.go) *)
From Gws Require Import Lib.Base Spec.Rfc6455 Gen.Consts Gen.Funcs Proofs.GenBase.
From Coq Require Import ZifyN ZifyNat ZifyBool.
Local Open Scope Z_scope.
From Gws Require Import Model.Pool.

(* ---- Min / Max ---- *)
Lemma gen_Min_is a b : gf_internal_Min a b = Z.min a b.
Proof. unfold gf_internal_Min. destruct (a <? b) eqn:E; lia. Qed.
Lemma gen_Max_is a b : gf_internal_Max a b = Z.max a b.
Proof. unfold gf_internal_Max. destruct (a >? b) eqn:E; lia. Qed.

(* ---- binaryCeil (uint32): the same sequence of operations, in Z and in N ---- *)


Lemma gen_binaryCeil_is v : (v < 2 ^ 32)%N -> gf_internal_binaryCeil (Z.of_N v) = Z.of_N (binary_ceil v).
Proof.
  intro H. unfold gf_internal_binaryCeil, binary_ceil. cbv zeta.
  assert (E0 : (Z.of_N v - 1) mod 2 ^ 32 = Z.of_N ((v + (2 ^ 32 - 1)) mod 2 ^ 32)%N).
  { rewrite N2Z.inj_mod, N2Z.inj_add. change (Z.of_N (2 ^ 32 - 1)) with (2 ^ 32 - 1). change (Z.of_N (2 ^ 32)) with (2 ^ 32).
    replace (Z.of_N v + (2 ^ 32 - 1)) with (Z.of_N v - 1 + 1 * 2 ^ 32) by lia. rewrite Z.mod_add by lia. reflexivity. }
  rewrite E0. set (a := ((v + (2 ^ 32 - 1)) mod 2 ^ 32)%N).
  assert (S : forall x (k : Z) (kn : N), k = Z.of_N kn -> Z.lor (Z.of_N x) (Z.shiftr (Z.of_N x) k) = Z.of_N (N.lor x (N.shiftr x kn))).
  { intros x k kn ->. rewrite of_N_lor, of_N_shiftr. reflexivity. }
  rewrite (S a 1 1%N eq_refl). rewrite (S _ 2 2%N eq_refl). rewrite (S _ 4 4%N eq_refl).
  rewrite (S _ 8 8%N eq_refl). rewrite (S _ 16 16%N eq_refl).
  rewrite N2Z.inj_mod, N2Z.inj_add. reflexivity.
Qed.

(* the translator understood every target *)

Theorem pool_rounding_from_source v : (v < 2 ^ 32)%N ->
  gf_internal_binaryCeil (Z.of_N v) = Z.of_N (binary_ceil v).
Proof. exact (gen_binaryCeil_is v). Qed.
