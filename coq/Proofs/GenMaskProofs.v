(* MaskXOR / MaskByByte (internal/utils.go) *)
From Gws Require Import Lib.Base Spec.Rfc6455 Gen.Consts Gen.Funcs Proofs.GenBase.
From Coq Require Import ZifyN ZifyNat ZifyBool.
Local Open Scope Z_scope.
(* ---- MaskXOR / MaskByByte (internal/utils.go): the 64-bit key, the key index of the byte loop, the loop thresholds ---- *)
From Gws Require Import Model.Mask Proofs.MaskProofs.


Lemma gen_key64_is m : (m < 2 ^ 32)%N -> gf_internal_MaskXOR_key64 (Z.of_N m) = Z.of_N (key64 m).
Proof.
  intro H. unfold gf_internal_MaskXOR_key64, key64.
  rewrite N2Z.inj_mod, N2Z.inj_add, N.shiftl_mul_pow2, N2Z.inj_mul, N2Z.inj_pow.
  rewrite Z.shiftl_mul_pow2 by lia.
  change (Z.of_N 2 ^ Z.of_N 64) with (2 ^ 64). change (Z.of_N 2 ^ Z.of_N 32) with (2 ^ 32).
  assert (Hm : 0 <= Z.of_N m < 2 ^ 32) by (split; [lia|]; change (2 ^ 32) with (Z.of_N (2 ^ 32)); lia).
  rewrite (Z.mod_small (Z.of_N m)) by lia.
  rewrite (Z.mod_small (Z.of_N m * 2 ^ 32)) by lia. reflexivity.
Qed.

Lemma gen_mask_idx_is i : gf_internal_MaskXOR_idx (Z.of_N i) = Z.of_N (N.land i 3)
                          /\ gf_internal_MaskByByte_idx (Z.of_N i) = Z.of_N (N.land i 3).
Proof. unfold gf_internal_MaskXOR_idx, gf_internal_MaskByByte_idx. rewrite of_N_land. split; reflexivity. Qed.

Lemma gen_mask_loops_are len i n :
  gf_internal_MaskXOR_loop1 (Z.of_N len) = (N.of_nat 64 <=? len)%N
  /\ gf_internal_MaskXOR_loop2 (Z.of_N len) = (N.of_nat 8 <=? len)%N
  /\ gf_internal_MaskXOR_loop3 (Z.of_N i) (Z.of_N n) = (i <? n)%N
  /\ gf_internal_MaskXOR_nloops = 3%nat /\ gf_internal_MaskXOR_nconds = 0%nat.
Proof.
  unfold gf_internal_MaskXOR_loop1, gf_internal_MaskXOR_loop2, gf_internal_MaskXOR_loop3.
  repeat split; try reflexivity; lia.
Qed.

(* the model written with the regenerated pieces: the word loops run while the regenerated conditions hold, the key is
   the regenerated expression, the byte loop indexes the key with the regenerated index *)
Fixpoint word_loop_src (cond : Z -> bool) (fuel blk : nat) (k64 : N) (len : N) (b : list N) : list N * (N * list N) :=
  match fuel with
  | O => ([], (len, b))
  | S f =>
      if cond (Z.of_N len) then
        let '(out, rest) := word_loop_src cond f blk k64 (len - N.of_nat blk) (skipn blk b) in
        (xor_words (blk / 8) k64 (firstn blk b) ++ out, rest)
      else ([], (len, b))
  end.

Fixpoint byte_loop_src (i : N) (key b : list N) : list N :=
  match b with
  | [] => []
  | x :: r => N.lxor x (nth (Z.to_nat (gf_internal_MaskXOR_idx (Z.of_N i))) key 0%N) :: byte_loop_src (i + 1) key r
  end.

Definition mask_impl_src (key b : list N) : option (list N) :=
  m <- key32 key ;;
  let k64 := Z.to_N (gf_internal_MaskXOR_key64 (Z.of_N m)) in
  let n := N.of_nat (length b) in
  let fuel := S (length b / 8) in
  let '(o1, (n1, b1)) := word_loop_src gf_internal_MaskXOR_loop1 fuel 64 k64 n b in
  let '(o2, (_, b2)) := word_loop_src gf_internal_MaskXOR_loop2 fuel 8 k64 n1 b1 in
  Some (o1 ++ o2 ++ byte_loop_src 0 key b2).

Lemma word_loop_src_is cond blk : (forall len, cond (Z.of_N len) = (N.of_nat blk <=? len)%N) ->
  forall fuel k64 len b, word_loop_src cond fuel blk k64 len b = word_loop fuel blk k64 len b.
Proof.
  intros Hc. induction fuel as [|f IH]; intros k64 len b; cbn [word_loop_src word_loop]; [reflexivity|].
  rewrite Hc. destruct (N.of_nat blk <=? len)%N; [|reflexivity]. rewrite IH. reflexivity.
Qed.

Lemma byte_loop_src_is : forall b i key, byte_loop_src i key b = byte_loop i key b.
Proof.
  induction b as [|x r IH]; intros i key; cbn [byte_loop_src byte_loop]; [reflexivity|].
  rewrite (proj1 (gen_mask_idx_is i)), IH.
  replace (Z.to_nat (Z.of_N (N.land i 3))) with (N.to_nat (N.land i 3)) by lia. reflexivity.
Qed.

Lemma le_load_bound : forall l, wf_bytes l -> (le_load l < 2 ^ (8 * N.of_nat (length l)))%N.
Proof.
  induction l as [|x l IH]; intro Hw; [cbn; lia|].
  inversion Hw as [|? ? Hx Hl]; subst. specialize (IH Hl). unfold byte_ok in Hx. cbn [le_load length].
  replace (8 * N.of_nat (S (length l)))%N with (8 + 8 * N.of_nat (length l))%N by lia.
  rewrite N.pow_add_r. change (2 ^ 8)%N with 256%N in *. nia.
Qed.

Lemma key32_bound key m : wf_bytes key -> key32 key = Some m -> (m < 2 ^ 32)%N.
Proof.
  unfold key32. intros Hw H. destruct (slice 0 4 key) as [w|] eqn:E; [|discriminate]. cbn [obind] in H. injection H as <-.
  unfold slice in E. destruct (_ && _); [|discriminate]. injection E as <-.
  set (w := firstn (4 - 0) (skipn 0 key)).
  assert (Hf : wf_bytes w) by (apply wf_firstn; exact Hw).
  assert (L : (length w <= 4)%nat) by (subst w; apply (firstn_le_length 4)).
  pose proof (le_load_bound w Hf) as B.
  eapply N.lt_le_trans; [exact B|]. apply N.pow_le_mono_r; lia.
Qed.

Theorem mask_from_source key b : wf_bytes key -> mask_impl_src key b = mask_impl key b.
Proof.
  intro Hw. unfold mask_impl_src, mask_impl. destruct (key32 key) as [m|] eqn:E; [|reflexivity]. cbn [obind].
  rewrite (gen_key64_is m (key32_bound key m Hw E)), N2Z.id.
  rewrite (word_loop_src_is _ 64 (fun len => proj1 (gen_mask_loops_are len 0 0))).
  destruct (word_loop _ 64 _ _ b) as [o1 [n1 b1]].
  rewrite (word_loop_src_is _ 8 (fun len => proj1 (proj2 (gen_mask_loops_are len 0 0)))).
  destruct (word_loop _ 8 _ _ b1) as [o2 [n2 b2]]. rewrite byte_loop_src_is. reflexivity.
Qed.
