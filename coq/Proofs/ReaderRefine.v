(* C03: the reader model refines the RFC 6455/7692 receive automaton of Spec/Rfc6455Recv.v, frame by frame and
   over whole frame sequences, for every frame a peer can encode (any flag/opcode/mask combination, any length
   form, any payload). *)
From Gws Require Import Lib.Base Spec.MaskSpec Spec.Rfc6455 Spec.Rfc6455Recv Model.Mask Model.Header Model.Pool
  Model.CloseCode Model.Reader Gen.Consts Proofs.MaskProofs Proofs.FrameProofs Proofs.ReaderProofs.
Local Open Scope N_scope.
Ltac Zify.zify_post_hook ::= Z.div_mod_to_equations.

Definition wire_payload (f : frame) : list N :=
  if f_masked f then mask_spec (f_key f) (f_payload f) else f_payload f.

Definition hdr_b0 (f : frame) : N :=
  128 * b2n (f_fin f) + 64 * b2n (f_rsv1 f) + 32 * b2n (f_rsv2 f) + 16 * b2n (f_rsv3 f) + f_op f.

Lemma hdr_b0_lt f : f_op f < 16 -> hdr_b0 f < 256.
Proof. intro H. unfold hdr_b0. destruct (f_fin f), (f_rsv1 f), (f_rsv2 f), (f_rsv3 f); cbn [b2n]; lia. Qed.

Lemma int_of_u64_small n : n < 2 ^ 63 -> int_of_u64 n = Z.of_N n.
Proof. intro H. unfold int_of_u64. replace (n <? 2 ^ 63) with true by (symmetry; apply N.ltb_lt; exact H). reflexivity. Qed.

Lemma len_field_cases lf n : lenform_ok lf n ->
  exists lc ext, len_field lf n = (lc, ext) /\ lc < 128 /\
    ((lc <= 125 /\ ext = [] /\ lc = n /\ minimal_of lf n = true)
     \/ (lc = 126 /\ ext = be_store 2 n /\ n <= 65535 /\ minimal_of lf n = (125 <? n))
     \/ (lc = 127 /\ ext = be_store 8 n /\ minimal_of lf n = (65535 <? n))).
Proof.
  intro Hlf. destruct lf; cbn [len_field minimal_of lenform_ok] in *.
  - destruct (N.leb_spec n 125).
    + exists n, []. split; [reflexivity|]. split; [lia|]. left. repeat split; lia.
    + destruct (N.leb_spec n 65535).
      * exists 126, (be_store 2 n). split; [reflexivity|]. split; [lia|]. right; left. repeat split; lia.
      * exists 127, (be_store 8 n). split; [reflexivity|]. split; [lia|]. right; right. repeat split; lia.
  - exists 126, (be_store 2 n). split; [reflexivity|]. split; [lia|]. right; left. repeat split; lia.
  - exists 127, (be_store 8 n). split; [reflexivity|]. split; [lia|]. right; right. repeat split.
Qed.

(* Parse on the encoding of a frame: the header fields, and the rest of the stream starts with the (masked) payload *)
Lemma parse_encode lf f rest :
  frame_wf f -> lenform_ok lf (N.of_nat (length (f_payload f))) -> N.of_nat (length (f_payload f)) < 2 ^ 63 ->
  exists b1, parse_header (encode_frame lf f ++ rest)
             = POk {| h_b0 := hdr_b0 f; h_b1 := b1; h_len := Z.of_nat (length (f_payload f)); h_key := f_key f |}
                   (wire_payload f ++ rest)
    /\ b1 < 256 /\ (128 <=? b1) = f_masked f
    /\ (b1 mod 128 <= 125 -> b1 mod 128 = N.of_nat (length (f_payload f)) /\ minimal_of lf (N.of_nat (length (f_payload f))) = true)
    /\ (125 < b1 mod 128 -> minimal_of lf (N.of_nat (length (f_payload f))) = false \/ 125 < N.of_nat (length (f_payload f))).
Proof.
  intros (Hop & Hp & Hk) Hlf Hn.
  set (n := N.of_nat (length (f_payload f))) in *.
  destruct (len_field_cases lf n Hlf) as (lc & ext & Elf & Hlc & Hcases).
  exists (128 * b2n (f_masked f) + lc).
  assert (Hb1lt : 128 * b2n (f_masked f) + lc < 256) by (destruct (f_masked f); cbn [b2n]; lia).
  assert (Hb1m : (128 * b2n (f_masked f) + lc) mod 128 = lc) by (destruct (f_masked f); cbn [b2n]; lia).
  assert (Hb1k : (128 <=? 128 * b2n (f_masked f) + lc) = f_masked f) by (destruct (f_masked f); cbn [b2n]; lia).
  split; [|split; [exact Hb1lt|split; [exact Hb1k|]]].
  - unfold encode_frame. fold n. rewrite Elf. fold (hdr_b0 f). fold (wire_payload f).
    unfold parse_header. cbn [app].
    assert (R2 : forall tl, read_n 2 (hdr_b0 f :: 128 * b2n (f_masked f) + lc :: tl) = inl (Some ([hdr_b0 f; 128 * b2n (f_masked f) + lc], tl))).
    { intro tl. change (hdr_b0 f :: 128 * b2n (f_masked f) + lc :: tl) with ([hdr_b0 f; 128 * b2n (f_masked f) + lc] ++ tl).
      apply read_n_app. reflexivity. }
    rewrite R2.
    destruct (acc_b1 _ Hb1lt) as (Hgm & Hgl). rewrite Hgm, Hgl, Hb1m, Hb1k.
    assert (Hkeypart : forall plen,
      (if f_masked f then
         match read_n 4 ((if f_masked f then f_key f ++ mask_spec (f_key f) (f_payload f) else f_payload f) ++ rest) with
         | inl (Some (k, r2)) => POk {| h_b0 := hdr_b0 f; h_b1 := 128 * b2n (f_masked f) + lc; h_len := plen; h_key := k |} r2
         | inl None => PEof true | inr p => PEof p end
       else POk {| h_b0 := hdr_b0 f; h_b1 := 128 * b2n (f_masked f) + lc; h_len := plen; h_key := [] |}
                ((if f_masked f then f_key f ++ mask_spec (f_key f) (f_payload f) else f_payload f) ++ rest))
      = POk {| h_b0 := hdr_b0 f; h_b1 := 128 * b2n (f_masked f) + lc; h_len := plen; h_key := f_key f |} (wire_payload f ++ rest)).
    { intro plen. unfold wire_payload. destruct (f_masked f).
      - destruct Hk as (Hkl & _). rewrite <- app_assoc. rewrite (read_n_app (f_key f)) by (symmetry; exact Hkl). reflexivity.
      - rewrite Hk. reflexivity. }
    destruct Hcases as [(Hle & -> & Hlcn & Hmin) | [(-> & -> & Hle & Hmin) | (-> & -> & Hmin)]].
    + replace (lc =? 126) with false by (symmetry; apply N.eqb_neq; lia).
      replace (lc =? 127) with false by (symmetry; apply N.eqb_neq; lia).
      cbn [app]. rewrite Hkeypart. rewrite Hlcn. subst n. rewrite nat_N_Z. reflexivity.
    + cbn [N.eqb Pos.eqb]. rewrite <- app_assoc.
      rewrite (read_n_app (be_store 2 n)) by (rewrite be_store_length; reflexivity).
      rewrite be_load_store by (cbn; lia). rewrite Hkeypart. subst n. rewrite nat_N_Z. reflexivity.
    + cbn [N.eqb Pos.eqb]. rewrite <- app_assoc.
      rewrite (read_n_app (be_store 8 n)) by (rewrite be_store_length; reflexivity).
      rewrite be_load_store by (cbn; lia). rewrite int_of_u64_small by exact Hn. rewrite Hkeypart. subst n. rewrite nat_N_Z. reflexivity.
  - rewrite Hb1m. split.
    + intro Hle. destruct Hcases as [(_ & _ & Hlcn & Hmin) | [(-> & _) | (-> & _)]]; [auto|lia|lia].
    + intro Hgt. destruct Hcases as [(Hle & _) | [(-> & _ & _ & Hm) | (-> & _ & Hm)]]; [lia| |].
      * rewrite Hm. destruct (125 <? n) eqn:E; [right; lia|left; reflexivity].
      * rewrite Hm. destruct (65535 <? n) eqn:E; [right; lia|left; reflexivity].
Qed.

Lemma acc_hdr f : f_op f < 16 ->
  get_fin (hdr_b0 f) = f_fin f /\ get_rsv1 (hdr_b0 f) = f_rsv1 f /\ get_rsv2 (hdr_b0 f) = f_rsv2 f
  /\ get_rsv3 (hdr_b0 f) = f_rsv3 f /\ get_opcode (hdr_b0 f) = f_op f.
Proof.
  intro Hop. destruct (acc_b0 _ (hdr_b0_lt f Hop)) as (A1 & A2 & A3 & A4 & A5).
  destruct (header_bits (f_fin f) (f_rsv1 f) (f_rsv2 f) (f_rsv3 f) (f_op f) Hop) as (B1 & B2 & B3 & B4 & B5).
  fold (hdr_b0 f) in B1, B2, B3, B4, B5. repeat split; congruence.
Qed.

Section Refine.
Variable utf8_valid : list N -> bool.
Variable inflate : list N -> list N -> Z -> option (list N).
Variable W : Type.
Variable wdict : W -> list N.
Variable wwrite : W -> list N -> W.

Notation read_message := (Reader.read_message utf8_valid inflate W wdict wwrite).
Notation read_stream := (Reader.read_stream utf8_valid inflate W wdict wwrite).
Notation recv_frame := (Rfc6455Recv.recv_frame utf8_valid inflate W wdict wwrite).
Notation recv_frames := (Rfc6455Recv.recv_frames utf8_valid inflate W wdict wwrite).

Definition scfg_of (c : rcfg) : scfg :=
  {| s_server := r_server c; s_pmd := r_pmd c; s_limit := r_limit c; s_utf8 := r_utf8 c |}.

Definition abs (st : rstate W) : sstate W :=
  {| s_cur := if cf_init _ st then Some (cf_op _ st, cf_comp _ st, cf_buf _ st) else None; s_hist := r_dps _ st |}.

Definition st_ok (st : rstate W) : Prop := cf_init _ st = true -> (cf_op _ st = 1 \/ cf_op _ st = 2).

Definition ev_map (e : sevent) : event :=
  match e with SMsg op p => EvMsg op p | SPing p => EvPing p | SPong p => EvPong p end.

Lemma recv_fail c sst f m s :
  In s (violations W c sst f m) -> recv_frame c sst f m = RFail W (violations W c sst f m).
Proof. unfold Rfc6455Recv.recv_frame. destruct (violations W c sst f m); [intros []|reflexivity]. Qed.

Definition close_outcome (c : rcfg) (body : list N) : outcome W :=
  let '(code, reason, reply) := emit_close utf8_valid (r_utf8 c) body in OPeerClose W code reason reply.

Definition refines_step (c : rcfg) (rest : list N) (sp : sres W) (s : step W) : Prop :=
  match sp with
  | RFail _ vs => exists x, s = SStop W [] (OFail W x) /\ In x vs
  | RNext _ evs sst' => exists st', s = SCont W (map ev_map evs) st' rest /\ abs st' = sst' /\ st_ok st'
  | RClose _ body => s = SStop W [] (close_outcome c body)
  end.

(* emitMessage vs the spec's `complete` *)
Lemma emit_message_refines c st h op data comp rest :
  h = r_dps _ st -> (op = 1 \/ op = 2) -> cf_init _ st = false ->
  refines_step c rest (complete utf8_valid inflate W wdict wwrite (scfg_of c) h op comp data)
               (emit_message utf8_valid inflate W wdict wwrite c st op data comp rest).
Proof.
  intros -> Hop Hst. unfold complete, emit_message. cbn [s_limit s_utf8 scfg_of].
  unfold inflate_tail, flate_tail9.
  destruct comp.
  - destruct (inflate _ _ _) as [out|].
    + unfold check_enc. replace (op =? 8) with false by (destruct Hop; subst; reflexivity). rewrite Bool.orb_false_r.
      destruct (r_utf8 c && (op =? 1)) eqn:E; cbn [andb negb].
      * destruct (utf8_valid out); cbn [negb].
        -- eexists. split; [reflexivity|]. unfold abs, st_ok. cbn. rewrite Hst. split; [reflexivity|discriminate].
        -- exists sc_unsupported_data. split; [reflexivity|]. left. reflexivity.
      * eexists. split; [reflexivity|]. unfold abs, st_ok. cbn. rewrite Hst. split; [reflexivity|discriminate].
    + exists sc_internal. split; [reflexivity|]. right; left. reflexivity.
  - unfold check_enc. replace (op =? 8) with false by (destruct Hop; subst; reflexivity). rewrite Bool.orb_false_r.
    destruct (r_utf8 c && (op =? 1)) eqn:E; cbn [andb negb].
    * destruct (utf8_valid data); cbn [negb].
      -- eexists. split; [reflexivity|]. unfold abs, st_ok. cbn. rewrite Hst. split; [reflexivity|discriminate].
      -- exists sc_unsupported_data. split; [reflexivity|]. left. reflexivity.
    * eexists. split; [reflexivity|]. unfold abs, st_ok. cbn. rewrite Hst. split; [reflexivity|discriminate].
Qed.

(* membership in the violation list: H says which rule fires *)
Ltac pick H :=
  unfold violations;
  cbn [f_fin f_rsv1 f_rsv2 f_rsv3 f_op f_masked f_key f_payload s_server s_pmd s_limit s_utf8 scfg_of];
  repeat first [ apply in_or_app; left; rewrite H; left; reflexivity | apply in_or_app; right ];
  rewrite H; left; reflexivity.

Ltac fail_with code H :=
  let HI := fresh "HI" in
  match goal with |- refines_step _ _ (recv_frame ?c ?sst ?f ?m) _ =>
    assert (HI : In code (violations W c sst f m)) by (pick H);
    rewrite (recv_fail _ _ _ _ _ HI); exists code; split; [reflexivity|exact HI]
  end.

Lemma viol_nil c (sst : sstate W) f m :
  let n := Z.of_nat (length (f_payload f)) in
  let inprog := match s_cur W sst with Some _ => true | None => false end in
  let acc := match s_cur W sst with Some (_, _, b) => Z.of_nat (length b) | None => 0%Z end in
  Bool.eqb (f_masked f) (s_server c) = true ->
  (f_rsv2 f || f_rsv3 f || (f_rsv1 f && negb (s_pmd c))) = false ->
  (f_rsv1 f && s_pmd c && (is_control (f_op f) || (f_op f =? 0))) = false ->
  op_known (f_op f) = true ->
  (is_control (f_op f) && (negb (f_fin f) || (125 <? n)%Z)) = false ->
  (is_control (f_op f) && negb m) = false ->
  ((f_op f =? 0) && negb inprog) = false ->
  (((f_op f =? 1) || (f_op f =? 2)) && inprog) = false ->
  (s_limit c <? n)%Z = false ->
  ((f_op f =? 0) && inprog && (s_limit c <? acc + n)%Z) = false ->
  violations W c sst f m = [].
Proof.
  intros n inprog acc H1 H2 H3 H4 H5 H6 H7 H8 H9 H10. unfold violations.
  fold n. fold inprog. fold acc. rewrite H1, H2, H3, H4, H5, H6, H7, H8, H9, H10. reflexivity.
Qed.

Lemma unmask_wire f : frame_wf f -> unmask (f_masked f) (f_key f) (wire_payload f) = Some (f_payload f).
Proof.
  intros (_ & Hp & Hk). unfold unmask, wire_payload. destruct (f_masked f); [|reflexivity].
  destruct Hk as (Hkl & Hkw).
  rewrite mask_impl_eq_spec; auto.
  - rewrite mask_spec_involutive. reflexivity.
  - unfold mask_spec. apply mask_from_wf; assumption.
Qed.

Lemma wire_payload_length f : length (wire_payload f) = length (f_payload f).
Proof. unfold wire_payload. destruct (f_masked f); [apply mask_spec_length|reflexivity]. Qed.

Theorem read_message_refines c st lf f rest :
  frame_wf f -> lenform_ok lf (N.of_nat (length (f_payload f))) -> N.of_nat (length (f_payload f)) < 2 ^ 63 ->
  limit_ok c -> st_ok st ->
  refines_step c rest
    (recv_frame (scfg_of c) (abs st) f (minimal_of lf (N.of_nat (length (f_payload f)))))
    (read_message c st (encode_frame lf f ++ rest)).
Proof.
  intros Hwf Hlf Hn (Hl0 & Hl1) Hst.
  destruct (parse_encode lf f rest Hwf Hlf Hn) as (b1 & Hparse & Hb1 & Hmask & Hlc & Hlcbig).
  destruct Hwf as (Hop & Hpw & Hk).
  destruct (acc_hdr f Hop) as (A1 & A2 & A3 & A4 & A5).
  destruct (acc_b1 _ Hb1) as (Hgm & Hgl).
  unfold Reader.read_message. rewrite Hparse. cbn [h_b0 h_b1 h_len h_key].
  rewrite A1, A2, A3, A4, A5, Hgm, Hmask.
  replace (Z.of_nat (length (f_payload f)) <? 0)%Z with false by lia. cbn [orb].

  (* 1: frame size *)
  destruct (Z.of_nat (length (f_payload f)) >? r_limit c)%Z eqn:Esz.
  { assert (H : (r_limit c <? Z.of_nat (length (f_payload f)))%Z = true) by lia. change sc_too_large with 1009. fail_with 1009 H. }
  (* 2: reserved bits *)
  destruct (f_rsv2 f || f_rsv3 f || (f_rsv1 f && negb (r_pmd c))) eqn:Ersv.
  { change sc_protocol with 1002. fail_with 1002 Ersv. }
  (* 3: mask *)
  destruct ((r_server c && negb (f_masked f)) || (negb (r_server c) && f_masked f)) eqn:Emk.
  { assert (H : Bool.eqb (f_masked f) (r_server c) = false) by (destruct (f_masked f), (r_server c); cbn in *; congruence).
    change sc_protocol with 1002. fail_with 1002 H. }
  (* 4: RSV1 placement *)
  unfold is_data_op. change (Z.to_N gws_OpcodeBinary) with 2.
  destruct (r_pmd c && f_rsv1 f && (negb (f_op f <=? 2) || (f_op f =? 0))) eqn:Ec1.
  { destruct (op_known (f_op f)) eqn:Eknown.
    - assert (H : (f_rsv1 f && r_pmd c && (is_control (f_op f) || (f_op f =? 0))) = true).
      { unfold is_control, op_known in *. destruct (f_rsv1 f), (r_pmd c); cbn in *; try discriminate; lia. }
      change sc_protocol with 1002. fail_with 1002 H.
    - change sc_protocol with 1002. fail_with 1002 Eknown. }
  (* facts shared by the remaining branches *)
  assert (Hmeq : Bool.eqb (f_masked f) (r_server c) = true) by (destruct (f_masked f), (r_server c); cbn in *; congruence).
  assert (Hszf : (r_limit c <? Z.of_nat (length (f_payload f)))%Z = false) by lia.
  assert (Hrsv1 : f_rsv1 f = true -> r_pmd c = true) by (destruct (f_rsv1 f), (r_pmd c), (f_rsv2 f), (f_rsv3 f); cbn in *; congruence).
  pose proof (unmask_wire f (conj Hop (conj Hpw Hk))) as Hunm.
  pose proof (wire_payload_length f) as Hwl.
  destruct (negb (f_op f <=? 2)) eqn:Ectl.
  { (* ---------------- control frames *)
    unfold Reader.read_control. cbn [h_b0 h_b1 h_key]. rewrite A1, A5, Hgl, Hgm, Hmask.
    destruct (op_known (f_op f)) eqn:Eknown.
    2:{ (* reserved opcode: whichever check fires first, 1002 is in the list *)
      assert (HI : In 1002 (violations W (scfg_of c) (abs st) f (minimal_of lf (N.of_nat (length (f_payload f)))))) by (pick Eknown).
      rewrite (recv_fail _ _ _ _ _ HI).
      destruct (negb (f_fin f)); [exists 1002; split; [reflexivity|exact HI]|].
      change thresholdV1 with 125.
      destruct (125 <? b1 mod 128) eqn:Elc; [exists 1002; split; [reflexivity|exact HI]|].
      apply N.ltb_ge in Elc. destruct (Hlc Elc) as (Hlcn & Hmin).
      assert (Hrd : (if 0 <? b1 mod 128 then read_n (N.to_nat (b1 mod 128)) (wire_payload f ++ rest) else inl (Some ([], wire_payload f ++ rest)))
                    = inl (Some (wire_payload f, rest))).
      { destruct (0 <? b1 mod 128) eqn:E0.
        - apply read_n_app. rewrite Hwl. lia.
        - assert (Hz : length (wire_payload f) = 0%nat) by lia. destruct (wire_payload f); [reflexivity|discriminate]. }
      rewrite Hrd.
      assert (Hun2 : (if 0 <? b1 mod 128 then unmask (f_masked f) (f_key f) (wire_payload f) else Some (wire_payload f)) = Some (f_payload f)).
      { destruct (0 <? b1 mod 128) eqn:E0; [exact Hunm|].
        assert (Hz : length (f_payload f) = 0%nat) by lia.
        assert (Hz' : length (wire_payload f) = 0%nat) by lia.
        destruct (f_payload f); [|discriminate]. destruct (wire_payload f); [reflexivity|discriminate]. }
      rewrite Hun2.
      change (Z.to_N gws_OpcodePing) with 9. change (Z.to_N gws_OpcodePong) with 10. change (Z.to_N gws_OpcodeCloseConnection) with 8.
      destruct (f_op f =? 9) eqn:E9; [exfalso; unfold op_known in Eknown; lia|].
      destruct (f_op f =? 10) eqn:E10; [exfalso; unfold op_known in Eknown; lia|].
      destruct (f_op f =? 8) eqn:E8; [exfalso; unfold op_known in Eknown; lia|].
      exists 1002. split; [reflexivity|exact HI]. }
    assert (Hisctl : is_control (f_op f) = true) by (unfold is_control, op_known in *; lia).
    destruct (negb (f_fin f)) eqn:Efin.
    { assert (H : (is_control (f_op f) && (negb (f_fin f) || (125 <? Z.of_nat (length (f_payload f)))%Z)) = true) by (rewrite Hisctl, Efin; reflexivity).
      change sc_protocol with 1002. fail_with 1002 H. }
    change thresholdV1 with 125.
    destruct (125 <? b1 mod 128) eqn:Elc.
    { apply N.ltb_lt in Elc. destruct (Hlcbig Elc) as [Hnm|Hbig].
      - assert (H : (is_control (f_op f) && negb (minimal_of lf (N.of_nat (length (f_payload f))))) = true) by (rewrite Hisctl, Hnm; reflexivity).
        change sc_protocol with 1002. fail_with 1002 H.
      - assert (H : (is_control (f_op f) && (negb (f_fin f) || (125 <? Z.of_nat (length (f_payload f)))%Z)) = true).
        { rewrite Hisctl, Efin. cbn. lia. }
        change sc_protocol with 1002. fail_with 1002 H. }
    apply N.ltb_ge in Elc. destruct (Hlc Elc) as (Hlcn & Hmin).
    (* the payload is read and unmasked *)
    assert (Hrd : (if 0 <? b1 mod 128 then read_n (N.to_nat (b1 mod 128)) (wire_payload f ++ rest) else inl (Some ([], wire_payload f ++ rest)))
                  = inl (Some (wire_payload f, rest))).
    { destruct (0 <? b1 mod 128) eqn:E0.
      - apply read_n_app. rewrite Hwl. lia.
      - assert (Hz : length (wire_payload f) = 0%nat) by lia. destruct (wire_payload f); [reflexivity|discriminate]. }
    rewrite Hrd.
    assert (Hun2 : (if 0 <? b1 mod 128 then unmask (f_masked f) (f_key f) (wire_payload f) else Some (wire_payload f)) = Some (f_payload f)).
    { destruct (0 <? b1 mod 128) eqn:E0; [exact Hunm|].
      assert (Hz : length (f_payload f) = 0%nat) by lia.
      assert (Hz' : length (wire_payload f) = 0%nat) by lia.
      destruct (f_payload f); [|discriminate]. destruct (wire_payload f); [reflexivity|discriminate]. }
    rewrite Hun2.
    (* no violation in this frame *)
    assert (Hnil : violations W (scfg_of c) (abs st) f (minimal_of lf (N.of_nat (length (f_payload f)))) = []).
    { apply viol_nil; cbn [scfg_of s_server s_pmd s_limit s_utf8]; try assumption.
      - destruct (f_rsv1 f) eqn:Er1; [|reflexivity]. exfalso. rewrite (Hrsv1 eq_refl) in Ec1. cbn in Ec1. discriminate.
      - rewrite Hisctl, Efin. cbn. lia.
      - rewrite Hisctl, Hmin. reflexivity.
      - replace (f_op f =? 0) with false by (unfold is_control in Hisctl; lia). reflexivity.
      - replace (f_op f =? 1) with false by (unfold is_control in Hisctl; lia).
        replace (f_op f =? 2) with false by (unfold is_control in Hisctl; lia). reflexivity.
      - replace (f_op f =? 0) with false by (unfold is_control in Hisctl; lia). reflexivity. }
    unfold Rfc6455Recv.recv_frame. rewrite Hnil.
    change (Z.to_N gws_OpcodePing) with 9. change (Z.to_N gws_OpcodePong) with 10. change (Z.to_N gws_OpcodeCloseConnection) with 8.
    destruct (f_op f =? 9) eqn:E9.
    { exists st. split; [reflexivity|]. split; [reflexivity|exact Hst]. }
    destruct (f_op f =? 10) eqn:E10.
    { exists st. split; [reflexivity|]. split; [reflexivity|exact Hst]. }
    destruct (f_op f =? 8) eqn:E8.
    { cbn [refines_step]. unfold close_outcome. destruct (emit_close utf8_valid (r_utf8 c) (f_payload f)) as [[code reason] reply]. reflexivity. }
    exfalso. unfold op_known, is_control in *. lia. }
  (* ---------------- data frames: opcode 0, 1 or 2 *)
  assert (Hop2 : f_op f <= 2) by lia.
  assert (Hknown : op_known (f_op f) = true) by (unfold op_known; lia).
  assert (Hnctl : is_control (f_op f) = false) by (unfold is_control; lia).
  assert (Hinprog : match s_cur W (abs st) with Some _ => true | None => false end = cf_init W st)
    by (unfold abs; cbn [s_cur]; destruct (cf_init W st); reflexivity).
  assert (Hacc : match s_cur W (abs st) with Some (_, _, b) => Z.of_nat (length b) | None => 0%Z end
                 = if cf_init W st then Z.of_nat (length (cf_buf W st)) else 0%Z)
    by (unfold abs; cbn [s_cur]; destruct (cf_init W st); reflexivity).
  replace (pool_cap (Z.of_nat (length (f_payload f)) + 9) <? Z.of_nat (length (f_payload f)))%Z with false
    by (symmetry; apply Z.ltb_ge; pose proof (pool_cap_ge (Z.of_nat (length (f_payload f)) + 9)); lia).
  rewrite Nat2Z.id. rewrite (read_n_app (wire_payload f)) by (rewrite Hwl; reflexivity).
  rewrite Hunm.
  assert (Hrsvctl : (f_rsv1 f && r_pmd c && (is_control (f_op f) || (f_op f =? 0))) = false).
  { rewrite Hnctl. cbn [orb]. destruct (f_rsv1 f) eqn:Er1; [|reflexivity]. rewrite (Hrsv1 eq_refl) in *. cbn in Ec1 |- *.
    destruct (f_op f =? 0); [discriminate|reflexivity]. }
  assert (Hcomp : (r_pmd c && f_rsv1 f) = f_rsv1 f) by (destruct (f_rsv1 f) eqn:Er1; [rewrite (Hrsv1 eq_refl); reflexivity|apply Bool.andb_false_r]).
  rewrite Hcomp.
  (* common tail for the no-violation cases *)
  assert (Hnil : ((f_op f =? 0) && negb (cf_init W st)) = false ->
                 (((f_op f =? 1) || (f_op f =? 2)) && cf_init W st) = false ->
                 ((f_op f =? 0) && cf_init W st && (r_limit c <? (if cf_init W st then Z.of_nat (length (cf_buf W st)) else 0) + Z.of_nat (length (f_payload f)))%Z) = false ->
                 violations W (scfg_of c) (abs st) f (minimal_of lf (N.of_nat (length (f_payload f)))) = []).
  { intros V1 V2 V3. apply viol_nil; cbn [scfg_of s_server s_pmd s_limit s_utf8]; rewrite ?Hinprog, ?Hacc; try assumption.
    - rewrite Hnctl. reflexivity.
    - rewrite Hnctl. reflexivity. }
  destruct (negb (f_op f =? 0) && cf_init W st) eqn:Enew.
  { assert (H : (((f_op f =? 1) || (f_op f =? 2)) && match s_cur W (abs st) with Some _ => true | None => false end) = true).
    { rewrite Hinprog. destruct (cf_init W st); [|rewrite Bool.andb_false_r in Enew; discriminate]. lia. }
    change sc_protocol with 1002. fail_with 1002 H. }
  destruct (f_fin f && negb (f_op f =? 0)) eqn:Esingle.
  { (* unfragmented message *)
    assert (Hop12 : f_op f = 1 \/ f_op f = 2) by lia.
    assert (Hinit : cf_init W st = false) by (destruct (cf_init W st); [|reflexivity]; exfalso; lia).
    unfold Rfc6455Recv.recv_frame. rewrite Hnil by (rewrite ?Hinit; lia).
    replace (f_op f =? 9) with false by lia. replace (f_op f =? 10) with false by lia.
    replace (f_op f =? 8) with false by lia. replace (f_op f =? 0) with false by lia.
    replace (f_fin f) with true by (destruct (f_fin f); [reflexivity|discriminate]).
    apply emit_message_refines; [reflexivity|assumption|assumption]. }
  destruct (f_op f =? 0) eqn:E0.
  - (* continuation frame *)
    cbn [negb andb]. rewrite Bool.andb_false_r.
    destruct (cf_init W st) eqn:Einit; cbn [negb].
    2:{ assert (H : ((f_op f =? 0) && negb match s_cur W (abs st) with Some _ => true | None => false end) = true)
          by (rewrite Hinprog, E0; reflexivity).
        change sc_protocol with 1002. fail_with 1002 H. }
    cbn [cf_buf cf_init cf_op cf_comp r_dps].
    destruct (Z.of_nat (length (cf_buf W st ++ f_payload f)) >? r_limit c)%Z eqn:Efs.
    { assert (H : ((f_op f =? 0) && match s_cur W (abs st) with Some _ => true | None => false end
                   && (r_limit c <? match s_cur W (abs st) with Some (_, _, b) => Z.of_nat (length b) | None => 0%Z end
                                    + Z.of_nat (length (f_payload f)))%Z) = true).
      { rewrite Hinprog, Hacc, E0. cbn [andb]. rewrite app_length in Efs. lia. }
      change sc_too_large with 1009. fail_with 1009 H. }
    unfold Rfc6455Recv.recv_frame. rewrite Hnil by (rewrite ?E0; cbn [andb negb orb]; try reflexivity; rewrite app_length in Efs; lia).
    replace (f_op f =? 9) with false by lia. replace (f_op f =? 10) with false by lia.
    replace (f_op f =? 8) with false by lia. rewrite E0.
    unfold abs at 1. rewrite Einit. cbn [s_cur s_hist].
    destruct (f_fin f) eqn:Efin; cbn [negb].
    + apply emit_message_refines; [reflexivity|apply Hst; exact Einit|reflexivity].
    + eexists. split; [reflexivity|]. split.
      * unfold abs. cbn. reflexivity.
      * unfold st_ok. cbn. intros _. apply Hst. exact Einit.
  - (* first frame of a fragmented message *)
    assert (Hfin : f_fin f = false) by (destruct (f_fin f); [cbn in Esingle; discriminate|reflexivity]).
    assert (Hinit : cf_init W st = false) by (destruct (cf_init W st); [cbn in Enew; discriminate|reflexivity]).
    rewrite Hfin. cbn [negb andb cf_init cf_buf cf_op cf_comp r_dps app].
    replace (Z.of_nat (length (f_payload f)) >? r_limit c)%Z with false by lia.
    unfold Rfc6455Recv.recv_frame. rewrite Hnil by (rewrite ?E0, ?Hinit; cbn [andb negb orb]; try reflexivity; lia).
    replace (f_op f =? 9) with false by lia. replace (f_op f =? 10) with false by lia.
    replace (f_op f =? 8) with false by lia. rewrite E0, Hfin.
    eexists. split; [reflexivity|]. split.
    + unfold abs. cbn. reflexivity.
    + unfold st_ok. cbn. intros _. lia.
Qed.

(* ---- whole frame sequences *)
Definition enc_stream (fs : list (lenform * frame)) : list N := concat (map (fun x => encode_frame (fst x) (snd x)) fs).

Definition spec_frames (fs : list (lenform * frame)) : list (frame * bool) :=
  map (fun x => (snd x, minimal_of (fst x) (N.of_nat (length (f_payload (snd x)))))) fs.

Definition sendable (x : lenform * frame) : Prop :=
  frame_wf (snd x) /\ lenform_ok (fst x) (N.of_nat (length (f_payload (snd x)))) /\ N.of_nat (length (f_payload (snd x))) < 2 ^ 63.

Definition refines_run (c : rcfg) (sp : list sevent * send W) (r : list event * outcome W) : Prop :=
  fst r = map ev_map (fst sp) /\
  match snd sp with
  | EndOfFrames _ sst => exists st', snd r = OMore W st' false /\ abs st' = sst
  | EndFail _ vs => exists x, snd r = OFail W x /\ In x vs
  | EndClose _ body => snd r = close_outcome c body
  end.

Lemma encode_frame_length lf f : (2 <= length (encode_frame lf f))%nat.
Proof. unfold encode_frame. destruct (len_field lf _) as [lc ext]. cbn [app length]. lia. Qed.

Theorem read_stream_refines c : limit_ok c -> forall fs fuel st,
  Forall sendable fs -> st_ok st -> (length (enc_stream fs) < fuel)%nat ->
  refines_run c (recv_frames (scfg_of c) (abs st) (spec_frames fs)) (read_stream fuel c st (enc_stream fs)).
Proof.
  intros Hc. induction fs as [|[lf f] fs IH]; intros fuel st Hs Hst Hf.
  - destruct fuel as [|fuel]; [cbn in Hf; lia|]. cbn. split; [reflexivity|]. exists st. split; reflexivity.
  - destruct fuel as [|fuel]; [lia|].
    inversion Hs as [|? ? (Hwf & Hlf & Hn) Hs']; subst. cbn [fst snd] in *.
    unfold enc_stream in *. cbn [map concat fst snd] in *.
    cbn [Reader.read_stream spec_frames map fst snd Rfc6455Recv.recv_frames].
    pose proof (read_message_refines c st lf f (concat (map (fun x => encode_frame (fst x) (snd x)) fs)) Hwf Hlf Hn Hc Hst) as Hstep.
    destruct (recv_frame (scfg_of c) (abs st) f (minimal_of lf (N.of_nat (length (f_payload f))))) as [vs|evs sst'|body]; cbn [refines_step] in Hstep.
    + destruct Hstep as (x & -> & Hin). cbn. split; [reflexivity|]. exists x. split; [reflexivity|exact Hin].
    + destruct Hstep as (st' & -> & Habs & Hst').
      rewrite app_length in Hf. pose proof (encode_frame_length lf f).
      specialize (IH fuel st' Hs' Hst' ltac:(lia)). rewrite Habs in IH.
      fold (spec_frames fs).
      destruct (recv_frames (scfg_of c) sst' (spec_frames fs)) as [evs' e].
      destruct (read_stream fuel c st' _) as [mevs mo]. destruct IH as (IH1 & IH2). cbn [fst snd] in *.
      unfold refines_run. cbn [fst snd]. split; [rewrite map_app, IH1; reflexivity|exact IH2].
    + rewrite Hstep. cbn. split; reflexivity.
Qed.
End Refine.

Section Delivered.
Variable utf8_valid : list N -> bool.
Variable inflate : list N -> list N -> Z -> option (list N).
Variable W : Type.
Variable wdict : W -> list N.
Variable wwrite : W -> list N -> W.
Theorem within_limit_delivered : forall c st lf f rest,
  frame_wf f -> lenform_ok lf (N.of_nat (length (f_payload f))) -> N.of_nat (length (f_payload f)) < 2 ^ 63 ->
  limit_ok c -> cf_init W st = false ->
  (f_op f = 1 \/ f_op f = 2) -> f_fin f = true -> f_rsv1 f = false -> f_rsv2 f = false -> f_rsv3 f = false ->
  f_masked f = r_server c -> (Z.of_nat (length (f_payload f)) <= r_limit c)%Z ->
  (r_utf8 c && (f_op f =? 1) && negb (utf8_valid (f_payload f))) = false ->
  exists st', read_message utf8_valid inflate W wdict wwrite c st (encode_frame lf f ++ rest)
              = SCont W [EvMsg (f_op f) (f_payload f)] st' rest.
Proof.
  intros c st lf f rest Hwf Hlf Hn Hc Hinit Hop Hfin H1 H2 H3 Hm Hsz Hu.
  assert (Hst : st_ok W st) by (unfold st_ok; rewrite Hinit; discriminate).
  pose proof (read_message_refines utf8_valid inflate W wdict wwrite c st lf f rest Hwf Hlf Hn Hc Hst) as R.
  assert (Hcur : s_cur W (abs W st) = None) by (unfold abs; cbn; rewrite Hinit; reflexivity).
  assert (Hnil : violations W (scfg_of c) (abs W st) f (minimal_of lf (N.of_nat (length (f_payload f)))) = []).
  { unfold violations. rewrite Hcur, H1, H2, H3, Hm. cbn [scfg_of s_server s_pmd s_limit].
    rewrite Bool.eqb_reflx. cbn [orb andb].
    assert (Hk : op_known (f_op f) = true) by (destruct Hop as [-> | ->]; reflexivity).
    assert (Hnc : is_control (f_op f) = false) by (destruct Hop as [-> | ->]; reflexivity).
    rewrite Hk, Hnc. cbn [andb].
    replace (f_op f =? 0) with false by (destruct Hop as [-> | ->]; reflexivity). cbn [andb].
    rewrite Bool.andb_false_r.
    replace (r_limit c <? Z.of_nat (length (f_payload f)))%Z with false by lia. reflexivity. }
  unfold Rfc6455Recv.recv_frame in R. rewrite Hnil in R.
  replace (f_op f =? 9) with false in R by (destruct Hop as [-> | ->]; reflexivity).
  replace (f_op f =? 10) with false in R by (destruct Hop as [-> | ->]; reflexivity).
  replace (f_op f =? 8) with false in R by (destruct Hop as [-> | ->]; reflexivity).
  replace (f_op f =? 0) with false in R by (destruct Hop as [-> | ->]; reflexivity).
  rewrite Hfin, H1 in R. unfold complete in R. cbn [scfg_of s_utf8] in R. rewrite Hu in R.
  cbn [refines_step] in R. destruct R as (st' & Hr & _). exists st'. exact Hr.
Qed.
End Delivered.
