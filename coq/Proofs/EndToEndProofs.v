(* C02 / C01: the sender's compression window is exactly the history of compressed payloads, the receiver's window
   stays equal to it, and every message sent is delivered once, intact and in order. *)
From Gws Require Import Lib.Base Spec.MaskSpec Spec.Rfc6455 Spec.Rfc6455Recv Spec.Suffix Model.Mask Model.Header Model.Pool
  Model.Writer Model.Reader Model.Window Model.CloseCode Model.EndToEnd
  Proofs.MaskProofs Proofs.FrameProofs Proofs.WriterProofs Proofs.WindowProofs Proofs.ReaderProofs Proofs.ReaderRefine.
Local Open Scope N_scope.
Ltac Zify.zify_post_hook ::= Z.div_mod_to_equations.

(* ---- windows *)
(* w holds the last sw_size bytes of hist when enabled; a disabled window is empty *)
Definition win_inv (w : window) (hist : list N) : Prop :=
  if sw_enabled w then sw_dict w = lastn (sw_size w) hist else sw_dict w = [].

Lemma wwrite_total_inv w hist p : win_inv w hist ->
  win_inv (wwrite_total w p) (hist ++ p) /\ sw_enabled (wwrite_total w p) = sw_enabled w /\ sw_size (wwrite_total w p) = sw_size w.
Proof.
  unfold win_inv, wwrite_total. destruct (sw_enabled w) eqn:E; intro H.
  - destruct (sw_write_good w hist p (conj E H)) as (w' & -> & (He & Hd) & Hs).
    rewrite He. rewrite Hd, Hs. repeat split; auto.
  - rewrite (sw_write_disabled w p E). rewrite E. auto.
Qed.

Lemma fold_wwrite_inv : forall slices w hist, win_inv w hist ->
  win_inv (fold_left wwrite_total slices w) (hist ++ concat slices)
  /\ sw_enabled (fold_left wwrite_total slices w) = sw_enabled w /\ sw_size (fold_left wwrite_total slices w) = sw_size w.
Proof.
  induction slices as [|p r IH]; intros w hist H; cbn [fold_left concat].
  - rewrite app_nil_r. auto.
  - destruct (wwrite_total_inv w hist p H) as (H1 & H2 & H3).
    destruct (IH _ _ H1) as (I1 & I2 & I3). rewrite app_assoc. rewrite I2, I3, H2, H3. auto.
Qed.

(* writing the slices one after the other = writing their concatenation (C17_compose) *)
Lemma fold_wwrite_concat : forall slices w hist, win_inv w hist ->
  fold_left wwrite_total slices w = wwrite_total w (concat slices).
Proof.
  intros slices w hist H.
  destruct (sw_enabled w) eqn:E.
  - (* both sides are Good for the same history with the same size: equal records *)
    destruct (fold_wwrite_inv slices w hist H) as (I1 & I2 & I3).
    destruct (wwrite_total_inv w hist (concat slices) H) as (J1 & J2 & J3).
    unfold win_inv in I1, J1. rewrite I2, E in I1. rewrite J2, E in J1.
    destruct (fold_left wwrite_total slices w) as [e1 d1 s1]. destruct (wwrite_total w (concat slices)) as [e2 d2 s2].
    cbn in *. subst. reflexivity.
  - assert (F : forall l w0, sw_enabled w0 = false -> fold_left wwrite_total l w0 = w0).
    { induction l as [|x l IH]; intros w0 E0; cbn; [reflexivity|].
      unfold wwrite_total at 2. rewrite (sw_write_disabled w0 x E0). apply IH. exact E0. }
    rewrite (F _ _ E). unfold wwrite_total. rewrite (sw_write_disabled w _ E). reflexivity.
Qed.

(* ---- the RSV1 bit of an encoded frame *)
Lemma is_compressed_encode lf server fin rsv1 op key p : op < 16 ->
  is_compressed_frame (encode_frame lf (out_frame server fin rsv1 op key p)) = rsv1.
Proof.
  intro Hop. unfold encode_frame, out_frame. cbn [f_fin f_rsv1 f_rsv2 f_rsv3 f_op f_masked f_key f_payload].
  destruct (len_field lf _) as [lc ext]. cbn [app is_compressed_frame].
  assert (F : forallb (fun x => Bool.eqb (negb (N.land x 64 =? 0)) (N.testbit x 6)) (map N.of_nat (seq 0 256)) = true) by (vm_compute; reflexivity).
  rewrite forallb_forall in F.
  set (b0 := 128 * b2n fin + 64 * b2n rsv1 + 32 * b2n false + 16 * b2n false + op).
  assert (Hb : b0 < 256) by (subst b0; destruct fin, rsv1; cbn [b2n]; lia).
  specialize (F b0 ltac:(apply in_map_iff; exists (N.to_nat b0); split; [lia|apply in_seq; lia])).
  apply Bool.eqb_prop in F. rewrite F. subst b0. rewrite N.testbit_eqb. change (2 ^ 6) with 64.
  destruct fin, rsv1; cbn [b2n]; lia.
Qed.

Lemma enc_len lf f : (2 <= length (encode_frame lf f))%nat.
Proof. unfold encode_frame. destruct (len_field lf _) as [lc ext]. cbn [app length]. lia. Qed.

Lemma strip_tail_len b : (length (strip_tail b) <= length b)%nat.
Proof. unfold strip_tail. destruct (_ && _); [rewrite firstn_length|]; lia. Qed.

Section E2E.
Variable utf8_valid : list N -> bool.
Variable deflate_raw : list N -> list N -> list N.
Variable inflate : list N -> list N -> Z -> option (list N).
Hypothesis deflate_wf : forall d p, wf_bytes (deflate_raw d p).
Hypothesis deflate_small : forall d p, (Z.of_nat (length (deflate_raw d p)) < 2 ^ 63)%Z.
(* RFC 7692 7.2: with the same LZ77 history on both sides, appending the sync-flush tail and inflating gives the payload back *)
Hypothesis H_flate : forall d p lim, (Z.of_nat (length p) <= lim)%Z ->
  inflate d (strip_tail (deflate_raw d p) ++ flate_tail9) lim = Some p.

Notation send_one := (send_one utf8_valid deflate_raw).
Notation send_all := (send_all utf8_valid deflate_raw).
Notation compressed_history := (compressed_history utf8_valid deflate_raw).

(* what one successful send puts on the wire and does to the window *)
Lemma send_one_shape c w op slices key fr w' :
  op < 16 -> length key = 4%nat -> wf_bytes key -> wf_bytes (concat slices) ->
  (Z.of_nat (length (concat slices)) < 2 ^ 63)%Z ->
  send_one c w op slices key = (Some fr, w', WOk) ->
  exists rsv1 payload,
    fr = encode_frame LShortest (out_frame (w_server c) true rsv1 op key payload)
    /\ is_compressed_frame fr = rsv1 /\ wf_bytes payload
    /\ (rsv1 = false -> payload = concat slices /\ w' = w)
    /\ (rsv1 = true -> w_pmd c = true /\ is_data op = true
                       /\ payload = strip_tail (deflate_raw (sw_dict w) (concat slices))
                       /\ w' = fold_left wwrite_total slices w).
Proof.
  intros Hop Hk Hkw Hp Hn H. unfold EndToEnd.send_one, do_write in H. cbn [andb] in H.
  rewrite Bool.andb_false_r in H.
  destruct (gen_frame _ _ _ _ _ _ _ _) as [b| | |] eqn:E; try discriminate.
  injection H as <- <-.
  destruct (gen_frame_encodes utf8_valid deflate_raw deflate_wf deflate_small _ _ _ _ _ _ _ Hop Hk Hkw Hp Hn E)
    as (rsv1 & payload & -> & Hpw & _ & H0 & H1).
  cbn [fc_fin fc_compress fc_broadcast] in *.
  exists rsv1, payload. rewrite is_compressed_encode by exact Hop.
  split; [reflexivity|]. split; [reflexivity|]. split; [exact Hpw|]. split.
  - intros ->. split; [apply H0; reflexivity|reflexivity].
  - intros ->. destruct (H1 eq_refl) as (Hc & Hd & Hpl). repeat split; auto.
Qed.

(* C02: after ANY history of sends the window holds exactly the last sw_size bytes of the payloads that were sent
   compressed (and nothing of the control frames and uncompressed messages in between); a disabled window stays empty.
   Hence the dictionary handed to the compressor for the next message is that suffix. *)
Theorem dict_is_history c : forall ops w0 h0 bs w,
  Forall (fun o : sop => let '(op, slices, key) := o in
            op < 16 /\ length key = 4%nat /\ wf_bytes key /\ wf_bytes (concat slices) /\ (Z.of_nat (length (concat slices)) < 2 ^ 63)%Z) ops ->
  win_inv w0 h0 -> send_all c w0 ops = Some (bs, w) ->
  win_inv w (h0 ++ compressed_history c w0 ops) /\ sw_enabled w = sw_enabled w0 /\ sw_size w = sw_size w0.
Proof.
  induction ops as [|[[op slices] key] r IH]; intros w0 h0 bs w Hall Hinv H; cbn [EndToEnd.send_all EndToEnd.compressed_history] in *.
  - injection H as <- <-. rewrite app_nil_r. auto.
  - inversion Hall as [|? ? Hhd Hall']; subst. cbn in Hhd. destruct Hhd as (Hop & Hk & Hkw & Hp & Hn).
    destruct (send_one c w0 op slices key) as [[[fr|] w1] res] eqn:E; try discriminate.
    destruct res; try discriminate.
    destruct (send_all c w1 r) as [[bs' w2]|] eqn:E2; [|discriminate]. injection H as <- <-.
    destruct (send_one_shape c w0 op slices key fr w1 Hop Hk Hkw Hp Hn E) as (rsv1 & payload & _ & Hcf & _ & H0 & H1).
    rewrite Hcf. destruct rsv1.
    + destruct (H1 eq_refl) as (_ & _ & _ & ->).
      destruct (fold_wwrite_inv slices w0 h0 Hinv) as (I1 & I2 & I3).
      destruct (IH _ _ _ _ Hall' I1 E2) as (J1 & J2 & J3).
      rewrite <- app_assoc in J1. rewrite J2, J3, I2, I3. auto.
    + destruct (H0 eq_refl) as (_ & ->). cbn [app]. exact (IH _ _ _ _ Hall' Hinv E2).
Qed.

(* ---- the receiving side *)
Notation read_message := (Reader.read_message utf8_valid inflate window sw_dict wwrite_total).
Notation read_stream := (Reader.read_stream utf8_valid inflate window sw_dict wwrite_total).
Notation recv_frame := (Rfc6455Recv.recv_frame utf8_valid inflate window sw_dict wwrite_total).

(* a sent data frame (possibly compressed) is accepted by a peer whose configuration matches: delivered once, intact,
   and the peer's window is updated with the inflated payload iff the frame was compressed *)
Lemma recv_sent_data rc st server rsv1 op key wirep payload rest :
  (op = 1 \/ op = 2) -> length key = 4%nat -> wf_bytes key -> wf_bytes wirep ->
  N.of_nat (length wirep) < 2 ^ 63 -> limit_ok rc -> cf_init _ st = false ->
  r_server rc = negb server -> (rsv1 = true -> r_pmd rc = true) ->
  (Z.of_nat (length wirep) <= r_limit rc)%Z ->
  (if rsv1 then inflate (sw_dict (r_dps _ st)) (wirep ++ flate_tail9) (r_limit rc) = Some payload else wirep = payload) ->
  (r_utf8 rc && (op =? 1) && negb (utf8_valid payload)) = false ->
  exists st', read_message rc st (encode_frame LShortest (out_frame server true rsv1 op key wirep) ++ rest)
              = SCont _ [EvMsg op payload] st' rest
    /\ cf_init _ st' = false
    /\ r_dps _ st' = (if rsv1 then wwrite_total (r_dps _ st) payload else r_dps _ st).
Proof.
  intros Hop Hk Hkw Hpw Hn Hc Hinit Hrole Hpmd Hsz Hinf Hu.
  set (f := out_frame server true rsv1 op key wirep).
  assert (Hwf : frame_wf f).
  { apply out_frame_wf; try assumption. destruct Hop; subst; lia. }
  assert (Hst : st_ok window st) by (unfold st_ok; rewrite Hinit; discriminate).
  pose proof (read_message_refines utf8_valid inflate window sw_dict wwrite_total rc st LShortest f rest Hwf I Hn Hc Hst) as R.
  assert (Hcur : s_cur window (abs window st) = None) by (unfold abs; cbn; rewrite Hinit; reflexivity).
  assert (Hnil : violations window (scfg_of rc) (abs window st) f (minimal_of LShortest (N.of_nat (length (f_payload f)))) = []).
  { unfold violations. rewrite Hcur. subst f. unfold out_frame. cbn [f_masked f_rsv1 f_rsv2 f_rsv3 f_op f_fin f_payload scfg_of s_server s_pmd s_limit minimal_of].
    rewrite Hrole. rewrite Bool.eqb_reflx. cbn [orb andb negb].
    assert (Hk0 : op_known op = true) by (destruct Hop as [-> | ->]; reflexivity).
    assert (Hnc : is_control op = false) by (destruct Hop as [-> | ->]; reflexivity).
    rewrite Hk0, Hnc. cbn [andb orb].
    replace (op =? 0) with false by (destruct Hop as [-> | ->]; reflexivity). cbn [andb orb].
    rewrite !Bool.andb_false_r.
    replace (r_limit rc <? Z.of_nat (length wirep))%Z with false by lia.
    destruct rsv1; [rewrite (Hpmd eq_refl)|]; reflexivity. }
  unfold Rfc6455Recv.recv_frame in R. rewrite Hnil in R. subst f. unfold out_frame in R. cbn [f_op f_fin f_rsv1 f_payload] in R.
  replace (op =? 9) with false in R by (destruct Hop as [-> | ->]; reflexivity).
  replace (op =? 10) with false in R by (destruct Hop as [-> | ->]; reflexivity).
  replace (op =? 8) with false in R by (destruct Hop as [-> | ->]; reflexivity).
  replace (op =? 0) with false in R by (destruct Hop as [-> | ->]; reflexivity).
  unfold complete in R. cbn [scfg_of s_limit s_utf8] in R.
  change (s_hist window (abs window st)) with (r_dps window st) in R.
  change inflate_tail with flate_tail9 in R.
  destruct rsv1.
  - rewrite Hinf in R. rewrite Hu in R. cbn [refines_step] in R.
    destruct R as (st' & Hr & Habs & _). exists st'. split; [exact Hr|].
    unfold abs in Habs. destruct (cf_init window st') eqn:E; [discriminate|]. injection Habs as Hd. auto.
  - subst wirep. rewrite Hu in R. cbn [refines_step] in R.
    destruct R as (st' & Hr & Habs & _). exists st'. split; [exact Hr|].
    unfold abs in Habs. destruct (cf_init window st') eqn:E; [discriminate|]. injection Habs as Hd. auto.
Qed.

(* a sent ping / pong (never compressed, at most 125 bytes) is delivered to the matching callback and leaves the
   receiver's reassembly state and window exactly as they were *)
Lemma recv_sent_ctl rc st server op key payload rest :
  (op = 9 \/ op = 10) -> length key = 4%nat -> wf_bytes key -> wf_bytes payload ->
  (length payload <= 125)%nat -> limit_ok rc -> st_ok window st ->
  r_server rc = negb server -> (Z.of_nat (length payload) <= r_limit rc)%Z ->
  exists st', read_message rc st (encode_frame LShortest (out_frame server true false op key payload) ++ rest)
              = SCont _ [if op =? 9 then EvPing payload else EvPong payload] st' rest
    /\ abs window st' = abs window st /\ st_ok window st'.
Proof.
  intros Hop Hk Hkw Hpw Hsmall Hc Hst Hrole Hsz.
  set (f := out_frame server true false op key payload).
  assert (Hwf : frame_wf f) by (apply out_frame_wf; try assumption; destruct Hop; subst; lia).
  assert (Hn : N.of_nat (length (f_payload f)) < 2 ^ 63) by (subst f; cbn; lia).
  pose proof (read_message_refines utf8_valid inflate window sw_dict wwrite_total rc st LShortest f rest Hwf I Hn Hc Hst) as R.
  assert (Hnil : violations window (scfg_of rc) (abs window st) f (minimal_of LShortest (N.of_nat (length (f_payload f)))) = []).
  { unfold violations. subst f. unfold out_frame. cbn [f_masked f_rsv1 f_rsv2 f_rsv3 f_op f_fin f_payload scfg_of s_server s_pmd s_limit minimal_of].
    rewrite Hrole. rewrite Bool.eqb_reflx. cbn [orb andb negb].
    assert (Hk0 : op_known op = true) by (destruct Hop as [-> | ->]; reflexivity).
    assert (Hctl : is_control op = true) by (destruct Hop as [-> | ->]; reflexivity).
    rewrite Hk0, Hctl. cbn [andb orb negb].
    replace (op =? 0) with false by (destruct Hop as [-> | ->]; reflexivity).
    replace (op =? 1) with false by (destruct Hop as [-> | ->]; reflexivity).
    replace (op =? 2) with false by (destruct Hop as [-> | ->]; reflexivity). cbn [andb orb].
    replace (125 <? Z.of_nat (length payload))%Z with false by lia.
    replace (r_limit rc <? Z.of_nat (length payload))%Z with false by lia. reflexivity. }
  unfold Rfc6455Recv.recv_frame in R. rewrite Hnil in R. subst f. unfold out_frame in R. cbn [f_op f_payload] in R.
  destruct Hop as [-> | ->]; cbn in R; destruct R as (st' & Hr & Habs & Hok); exists st'; auto.
Qed.

(* ---- C01: end-to-end fidelity for one direction *)
Definition msg_ok (rc : rcfg) (o : sop) : Prop :=
  let '(op, slices, key) := o in
  length key = 4%nat /\ wf_bytes key /\ wf_bytes (concat slices)
  /\ (Z.of_nat (length (concat slices)) <= r_limit rc)%Z                                              (* the message fits the receiver's limit *)
  /\ (((op = 1 \/ op = 2)
       /\ (forall d, (Z.of_nat (length (strip_tail (deflate_raw d (concat slices)))) <= r_limit rc)%Z)   (* ... also on the wire if compressed *)
       /\ (r_utf8 rc && (op =? 1) && negb (utf8_valid (concat slices))) = false)                        (* text accepted by the receiver's check *)
      \/ ((op = 9 \/ op = 10) /\ (length (concat slices) <= 125)%nat)).                                 (* ping / pong within the control-frame limit *)

Definition delivered (ops : list sop) : list event :=
  map (fun o : sop => let '(op, slices, _) := o in
         if op =? 9 then EvPing (concat slices) else if op =? 10 then EvPong (concat slices) else EvMsg op (concat slices)) ops.

(* one send through a buffered API, seen by the matching peer: delivered once and intact, reassembly state idle again,
   the peer's window equal to the sender's new window (which still is a history suffix) *)
Definition event_of (op : N) (payload : list N) : event :=
  if op =? 9 then EvPing payload else if op =? 10 then EvPong payload else EvMsg op payload.

Lemma direct_step c rc :
  r_server rc = negb (w_server c) -> r_pmd rc = w_pmd c -> limit_ok rc ->
  forall op slices key hist st fr w1 rest,
  msg_ok rc (op, slices, key) -> win_inv (r_dps _ st) hist -> cf_init _ st = false ->
  send_one c (r_dps _ st) op slices key = (Some fr, w1, WOk) ->
  exists st1, read_message rc st (fr ++ rest) = SCont _ [event_of op (concat slices)] st1 rest
              /\ cf_init _ st1 = false /\ r_dps _ st1 = w1 /\ (exists h1, win_inv w1 h1) /\ (2 <= length fr)%nat.
Proof.
  intros Hrole Hpmd Hc op slices key hist st fr w1 bs' Hhd Hinv Hinit E.
  cbn in Hhd. destruct Hhd as (Hk & Hkw & Hp & Hlim & Hkind).
  assert (Hop16 : op < 16) by (destruct Hkind as [([-> | ->] & _) | ([-> | ->] & _)]; lia).
  assert (Hn : (Z.of_nat (length (concat slices)) < 2 ^ 63)%Z) by (destruct Hc as (_ & Hc1); lia).
  destruct (send_one_shape c _ op slices key fr w1 Hop16 Hk Hkw Hp Hn E) as (rsv1 & payload & -> & _ & Hpw & H0 & H1).
  assert (Hmsg : exists st1, read_message rc st (encode_frame LShortest (out_frame (w_server c) true rsv1 op key payload) ++ bs')
                             = SCont _ [event_of op (concat slices)] st1 bs'
                             /\ cf_init _ st1 = false /\ r_dps _ st1 = w1).
  { unfold event_of. destruct Hkind as [(Hop & Hwire & Hu) | (Hop & Hsmall)].
    - (* data message *)
      replace (op =? 9) with false by (destruct Hop; subst; reflexivity).
      replace (op =? 10) with false by (destruct Hop; subst; reflexivity).
      destruct rsv1.
      + destruct (H1 eq_refl) as (Hcp & _ & -> & ->).
        set (z := strip_tail (deflate_raw (sw_dict (r_dps window st)) (concat slices))) in *.
        assert (A1 : wf_bytes z) by (apply strip_tail_wf; apply deflate_wf).
        assert (A2 : N.of_nat (length z) < 2 ^ 63).
        { pose proof (strip_tail_len (deflate_raw (sw_dict (r_dps window st)) (concat slices))).
          specialize (deflate_small (sw_dict (r_dps window st)) (concat slices)). subst z. lia. }
        assert (A3 : true = true -> r_pmd rc = true) by (intros _; rewrite Hpmd; exact Hcp).
        assert (A4 : (Z.of_nat (length z) <= r_limit rc)%Z) by apply Hwire.
        assert (A5 : inflate (sw_dict (r_dps window st)) (z ++ flate_tail9) (r_limit rc) = Some (concat slices)) by (apply H_flate; exact Hlim).
        destruct (recv_sent_data rc st (w_server c) true op key z (concat slices) bs' Hop Hk Hkw A1 A2 Hc Hinit Hrole A3 A4 A5 Hu)
          as (st1 & Hr & Hi & Hd).
        exists st1. split; [exact Hr|]. split; [exact Hi|]. rewrite Hd.
        symmetry. apply (fold_wwrite_concat slices (r_dps window st) hist). exact Hinv.
      + destruct (H0 eq_refl) as (-> & ->).
        assert (A2 : N.of_nat (length (concat slices)) < 2 ^ 63) by lia.
        assert (A3 : false = true -> r_pmd rc = true) by discriminate.
        destruct (recv_sent_data rc st (w_server c) false op key (concat slices) (concat slices) bs' Hop Hk Hkw Hp A2 Hc Hinit Hrole A3 Hlim eq_refl Hu)
          as (st1 & Hr & Hi & Hd).
        exists st1. auto.
    - (* ping / pong: never compressed *)
      destruct rsv1.
      + destruct (H1 eq_refl) as (_ & Hd & _). exfalso. unfold is_data in Hd. destruct Hop; subst; discriminate.
      + destruct (H0 eq_refl) as (-> & ->).
        assert (Hst : st_ok window st) by (unfold st_ok; rewrite Hinit; discriminate).
        destruct (recv_sent_ctl rc st (w_server c) op key (concat slices) bs' Hop Hk Hkw Hp Hsmall Hc Hst Hrole Hlim) as (st1 & Hr & Habs & _).
        exists st1. split; [rewrite Hr; destruct Hop as [-> | ->]; reflexivity|].
        unfold abs in Habs. rewrite Hinit in Habs. destruct (cf_init window st1) eqn:E1; [discriminate|].
        injection Habs as Hd. auto. }
  destruct Hmsg as (st1 & Hr & Hi1 & Hd1). exists st1. repeat split; auto.
  - destruct rsv1.
    + destruct (H1 eq_refl) as (_ & _ & _ & ->). eexists. exact (proj1 (fold_wwrite_inv slices _ hist Hinv)).
    + destruct (H0 eq_refl) as (_ & ->). exists hist. exact Hinv.
  - apply enc_len.
Qed.

Lemma delivered_event_of ops :
  delivered ops = map (fun o : sop => let '(op, slices, _) := o in event_of op (concat slices)) ops.
Proof. reflexivity. Qed.

Theorem fidelity c rc :
  r_server rc = negb (w_server c) -> r_pmd rc = w_pmd c -> limit_ok rc ->
  forall ops ws hist st bs w fuel,
  Forall (msg_ok rc) ops -> win_inv ws hist ->
  r_dps _ st = ws -> cf_init _ st = false ->
  send_all c ws ops = Some (bs, w) -> (length bs < fuel)%nat ->
  exists st', read_stream fuel rc st bs = (delivered ops, OMore _ st' false)
              /\ r_dps _ st' = w /\ cf_init _ st' = false.
Proof.
  intros Hrole Hpmd Hc.
  induction ops as [|[[op slices] key] r IH]; intros ws hist st bs w fuel Hall Hinv Hdps Hinit H Hf;
    cbn [EndToEnd.send_all delivered map] in *.
  - injection H as <- <-. destruct fuel as [|fuel]; [cbn in Hf; lia|]. cbn.
    exists st. repeat split; auto.
  - inversion Hall as [|? ? Hhd Hall']; subst.
    destruct (send_one c (r_dps window st) op slices key) as [[[fr|] w1] res] eqn:E; try discriminate.
    destruct res; try discriminate.
    destruct (send_all c w1 r) as [[bs' w2]|] eqn:E2; [|discriminate]. injection H as <- <-.
    destruct (direct_step c rc Hrole Hpmd Hc op slices key hist st fr w1 bs' Hhd Hinv Hinit E)
      as (st1 & Hr & Hi1 & Hd1 & (h1 & Hinv1) & Hlen).
    destruct fuel as [|fuel]; [cbn in Hf; lia|]. cbn [Reader.read_stream].
    rewrite Hr. rewrite app_length in Hf.
    destruct (IH w1 h1 st1 bs' w2 fuel Hall' Hinv1 Hd1 Hi1 E2 ltac:(lia)) as (st' & -> & Hd' & Hi').
    exists st'. cbn [app]. auto.
Qed.

(* ---- Broadcaster: the frame is built once (no dictionary, the generating connection's settings) and the same bytes
   are written on every subscribed connection of its compression class; the connection's window still takes the
   payload when the frame is compressed.  The peer inflates it with ITS history as dictionary, which is harmless only
   because a stream produced without a dictionary holds no reference into one: that fact about DEFLATE is the extra
   oracle assumption H_flate_nodict. *)
Hypothesis H_flate_nodict : forall d p lim, (Z.of_nat (length p) <= lim)%Z ->
  inflate d (strip_tail (deflate_raw [] p) ++ flate_tail9) lim = Some p.

Notation send_bcast := (EndToEnd.send_bcast utf8_valid deflate_raw).
Notation send_mixed := (EndToEnd.send_mixed utf8_valid deflate_raw).

Lemma bcast_step cg c rc :
  w_server cg = w_server c -> w_pmd cg = w_pmd c ->
  r_server rc = negb (w_server c) -> r_pmd rc = w_pmd c -> limit_ok rc ->
  forall op payload key hist st fr w1 rest,
  msg_ok rc (op, [payload], key) -> (op = 1 \/ op = 2) -> win_inv (r_dps _ st) hist -> cf_init _ st = false ->
  send_bcast cg (r_dps _ st) op payload key = (Some fr, w1, WOk) ->
  exists st1, read_message rc st (fr ++ rest) = SCont _ [EvMsg op payload] st1 rest
              /\ cf_init _ st1 = false /\ r_dps _ st1 = w1 /\ (exists h1, win_inv w1 h1) /\ (2 <= length fr)%nat.
Proof.
  intros Hsrv Hcls Hrole Hpmd Hc op payload key hist st fr w1 rest Hhd Hop Hinv Hinit E.
  cbn in Hhd. rewrite app_nil_r in Hhd. destruct Hhd as (Hk & Hkw & Hp & Hlim & Hkind).
  destruct Hkind as [(_ & Hwire & Hu) | (Hbad & _)]; [|exfalso; destruct Hop, Hbad; subst; discriminate].
  assert (Hop16 : op < 16) by (destruct Hop; subst; lia).
  assert (Hn : (Z.of_nat (length (concat [payload])) < 2 ^ 63)%Z) by (cbn [concat]; rewrite app_nil_r; destruct Hc as (_ & Hc1); lia).
  assert (Hp' : wf_bytes (concat [payload])) by (cbn [concat]; rewrite app_nil_r; exact Hp).
  unfold EndToEnd.send_bcast, broadcast_frame in E.
  destruct (gen_frame _ _ _ _ _ _ _ _) as [b| | |] eqn:G; try discriminate.
  unfold broadcast_write in E. injection E as <- <-.
  destruct (gen_frame_encodes utf8_valid deflate_raw deflate_wf deflate_small _ _ _ _ _ _ _ Hop16 Hk Hkw Hp' Hn G)
    as (rsv1 & wirep & -> & Hpw & _ & H0 & H1).
  cbn [fc_fin fc_compress fc_broadcast concat] in *. rewrite app_nil_r in *.
  rewrite is_compressed_encode by exact Hop16. rewrite Hsrv.
  destruct rsv1.
  - destruct (H1 eq_refl) as (Hcp & _ & ->).
    set (z := strip_tail (deflate_raw [] payload)) in *.
    assert (A2 : N.of_nat (length z) < 2 ^ 63).
    { pose proof (strip_tail_len (deflate_raw [] payload)). specialize (deflate_small [] payload). subst z. lia. }
    assert (A3 : true = true -> r_pmd rc = true) by (intros _; rewrite Hpmd, <- Hcls; exact Hcp).
    assert (A4 : (Z.of_nat (length z) <= r_limit rc)%Z) by apply Hwire.
    assert (A5 : inflate (sw_dict (r_dps window st)) (z ++ flate_tail9) (r_limit rc) = Some payload) by (apply H_flate_nodict; exact Hlim).
    destruct (recv_sent_data rc st (w_server c) true op key z payload rest Hop Hk Hkw Hpw A2 Hc Hinit Hrole A3 A4 A5 Hu)
      as (st1 & Hr & Hi & Hd).
    exists st1. repeat split; auto.
    + eexists. exact (proj1 (wwrite_total_inv _ hist payload Hinv)).
    + apply enc_len.
  - rewrite (H0 eq_refl) in *.
    assert (A2 : N.of_nat (length payload) < 2 ^ 63) by lia.
    assert (A3 : false = true -> r_pmd rc = true) by discriminate.
    destruct (recv_sent_data rc st (w_server c) false op key payload payload rest Hop Hk Hkw Hp A2 Hc Hinit Hrole A3 Hlim eq_refl Hu)
      as (st1 & Hr & Hi & Hd).
    exists st1. repeat split; auto.
    + exists hist. exact Hinv.
    + apply enc_len.
Qed.

(* C01 over ANY interleaving of direct sends and broadcasts on one connection *)
Definition send_ok (c : wcfg) (rc : rcfg) (s : send) : Prop :=
  match s with
  | SDirect o => msg_ok rc o
  | SBroadcast cg op payload key =>
      w_server cg = w_server c /\ w_pmd cg = w_pmd c /\ (op = 1 \/ op = 2) /\ msg_ok rc (op, [payload], key)
  end.

Definition delivered_mixed (l : list send) : list event :=
  map (fun s => match s with
                | SDirect (op, slices, _) => event_of op (concat slices)
                | SBroadcast _ op payload _ => EvMsg op payload
                end) l.

Theorem fidelity_mixed c rc :
  r_server rc = negb (w_server c) -> r_pmd rc = w_pmd c -> limit_ok rc ->
  forall l ws hist st bs w fuel,
  Forall (send_ok c rc) l -> win_inv ws hist ->
  r_dps _ st = ws -> cf_init _ st = false ->
  send_mixed c ws l = Some (bs, w) -> (length bs < fuel)%nat ->
  exists st', read_stream fuel rc st bs = (delivered_mixed l, OMore _ st' false)
              /\ r_dps _ st' = w /\ cf_init _ st' = false.
Proof.
  intros Hrole Hpmd Hc.
  induction l as [|s r IH]; intros ws hist st bs w fuel Hall Hinv Hdps Hinit H Hf;
    cbn [EndToEnd.send_mixed delivered_mixed map] in *.
  - injection H as <- <-. destruct fuel as [|fuel]; [cbn in Hf; lia|]. cbn.
    exists st. repeat split; auto.
  - inversion Hall as [|? ? Hhd Hall']; subst.
    destruct fuel as [|fuel]; [cbn in Hf; lia|].
    destruct s as [[[op slices] key] | cg op payload key].
    + destruct (send_one c (r_dps window st) op slices key) as [[[fr|] w1] res] eqn:E; try discriminate.
      destruct res; try discriminate.
      destruct (send_mixed c w1 r) as [[bs' w2]|] eqn:E2; [|discriminate]. injection H as <- <-.
      destruct (direct_step c rc Hrole Hpmd Hc op slices key hist st fr w1 bs' Hhd Hinv Hinit E)
        as (st1 & Hr & Hi1 & Hd1 & (h1 & Hinv1) & Hlen).
      cbn [Reader.read_stream]. rewrite Hr. rewrite app_length in Hf.
      destruct (IH w1 h1 st1 bs' w2 fuel Hall' Hinv1 Hd1 Hi1 E2 ltac:(lia)) as (st' & -> & Hd' & Hi').
      exists st'. cbn [app]. auto.
    + destruct Hhd as (Hsrv & Hcls & Hop & Hok).
      destruct (send_bcast cg (r_dps window st) op payload key) as [[[fr|] w1] res] eqn:E; try discriminate.
      destruct res; try discriminate.
      destruct (send_mixed c w1 r) as [[bs' w2]|] eqn:E2; [|discriminate]. injection H as <- <-.
      destruct (bcast_step cg c rc Hsrv Hcls Hrole Hpmd Hc op payload key hist st fr w1 bs' Hok Hop Hinv Hinit E)
        as (st1 & Hr & Hi1 & Hd1 & (h1 & Hinv1) & Hlen).
      cbn [Reader.read_stream]. rewrite Hr. rewrite app_length in Hf.
      destruct (IH w1 h1 st1 bs' w2 fuel Hall' Hinv1 Hd1 Hi1 E2 ltac:(lia)) as (st' & -> & Hd' & Hi').
      exists st'. cbn [app]. auto.
Qed.
(* C02 over mixed histories: the window is the suffix of the payloads that went out compressed, broadcasts included *)
Definition send_wf (s : send) : Prop :=
  let '(op, p, key) := match s with SDirect (op, slices, key) => (op, concat slices, key) | SBroadcast _ op payload key => (op, payload, key) end in
  op < 16 /\ length key = 4%nat /\ wf_bytes key /\ wf_bytes p /\ (Z.of_nat (length p) < 2 ^ 63)%Z.

Theorem dict_is_history_mixed c : forall l w0 h0 bs w,
  Forall send_wf l -> win_inv w0 h0 -> send_mixed c w0 l = Some (bs, w) ->
  win_inv w (h0 ++ EndToEnd.compressed_history_mixed utf8_valid deflate_raw c w0 l) /\ sw_enabled w = sw_enabled w0 /\ sw_size w = sw_size w0.
Proof.
  induction l as [|s r IH]; intros w0 h0 bs w Hall Hinv H; cbn [EndToEnd.send_mixed EndToEnd.compressed_history_mixed] in *.
  - injection H as <- <-. rewrite app_nil_r. auto.
  - inversion Hall as [|? ? Hhd Hall']; subst.
    destruct s as [[[op slices] key] | cg op payload key]; cbn in Hhd; destruct Hhd as (Hop & Hk & Hkw & Hp & Hn).
    + destruct (send_one c w0 op slices key) as [[[fr|] w1] res] eqn:E; try discriminate.
      destruct res; try discriminate.
      destruct (send_mixed c w1 r) as [[bs' w2]|] eqn:E2; [|discriminate]. injection H as <- <-.
      destruct (send_one_shape c w0 op slices key fr w1 Hop Hk Hkw Hp Hn E) as (rsv1 & payload & _ & Hcf & _ & H0 & H1).
      rewrite Hcf. destruct rsv1.
      * destruct (H1 eq_refl) as (_ & _ & _ & ->).
        destruct (fold_wwrite_inv slices w0 h0 Hinv) as (I1 & I2 & I3).
        destruct (IH _ _ _ _ Hall' I1 E2) as (J1 & J2 & J3).
        rewrite <- app_assoc in J1. rewrite J2, J3, I2, I3. auto.
      * destruct (H0 eq_refl) as (_ & ->). cbn [app]. exact (IH _ _ _ _ Hall' Hinv E2).
    + destruct (send_bcast cg w0 op payload key) as [[[fr|] w1] res] eqn:E; try discriminate.
      destruct res; try discriminate.
      destruct (send_mixed c w1 r) as [[bs' w2]|] eqn:E2; [|discriminate]. injection H as <- <-.
      unfold EndToEnd.send_bcast in E. destruct (broadcast_frame _ _ _ _ _ _) as [b| | |]; try discriminate.
      unfold broadcast_write in E. injection E as <- <-.
      destruct (is_compressed_frame b).
      * destruct (wwrite_total_inv w0 h0 payload Hinv) as (I1 & I2 & I3).
        destruct (IH _ _ _ _ Hall' I1 E2) as (J1 & J2 & J3).
        rewrite <- app_assoc in J1. rewrite J2, J3, I2, I3. auto.
      * cbn [app]. exact (IH _ _ _ _ Hall' Hinv E2).
Qed.
End E2E.
