(* Proofs for C17: slideWindow.Write never panics and keeps dict = suffix of everything written. *)
From Gws Require Import Lib.Base Model.Window Spec.Suffix.

(* the invariant: the window is enabled and holds the last sw_size bytes of the history *)
Definition Good (w : window) (hist : list N) : Prop :=
  sw_enabled w = true /\ sw_dict w = lastn (sw_size w) hist.

Lemma window_eta w e d s : sw_enabled w = e -> sw_dict w = d -> sw_size w = s -> w = mkWindow e d s.
Proof. destruct w; cbn; intros; subst; reflexivity. Qed.

(* the main step: Write never panics and keeps "dict = suffix of history" *)
Lemma sw_write_good w hist p : Good w hist ->
  exists w', sw_write w p = Some w' /\ Good w' (hist ++ p) /\ sw_size w' = sw_size w.
Proof.
  intros [He Hd]. unfold sw_write. rewrite He. cbn [negb].
  assert (Hlen : length (sw_dict w) = Nat.min (sw_size w) (length hist)) by (rewrite Hd; apply lastn_length).
  destruct (Nat.leb_spec (length p + length (sw_dict w)) (sw_size w)) as [Hfit|Hover].
  - eexists. split; [reflexivity|]. split; [|reflexivity]. split; [reflexivity|]. cbn [sw_dict sw_size].
    rewrite Hd. rewrite <- lastn_app_lastn. apply eq_sym, lastn_all.
    rewrite app_length. rewrite <- Hd. lia.
  - (* overflow *)
    set (m := sw_size w - length (sw_dict w)).
    assert (Hstep1 : exists d1 p1,
      (if 0 <? m then hd <- slice 0 m p ;; tl <- slice m (length p) p ;; Some (sw_dict w ++ hd, tl)
       else Some (sw_dict w, p)) = Some (d1, p1)
      /\ d1 ++ p1 = sw_dict w ++ p /\ length d1 = sw_size w).
    { destruct (Nat.ltb_spec 0 m) as [Hm|Hm].
      - rewrite !slice_ok by lia. cbn [obind]. eexists _, _. split; [reflexivity|].
        rewrite Nat.sub_0_r. cbn [skipn]. split.
        + rewrite <- app_assoc. f_equal. rewrite (firstn_all2 (skipn m p)) by (rewrite skipn_length; lia).
          apply firstn_skipn.
        + rewrite app_length, firstn_length. lia.
      - eexists _, _. split; [reflexivity|]. split; [reflexivity|]. lia. }
    destruct Hstep1 as [d1 [p1 [-> [Happ Hl1]]]]. cbn [obind].
    assert (Hgoal : lastn (sw_size w) (hist ++ p) = lastn (sw_size w) (d1 ++ p1))
      by (rewrite Happ, Hd; symmetry; apply lastn_app_lastn).
    destruct (Nat.leb_spec (sw_size w) (length p1)) as [Hbig|Hsmall].
    + rewrite slice_ok by lia. cbn [obind]. eexists. split; [reflexivity|]. split; [|reflexivity].
      split; [reflexivity|]. cbn [sw_dict sw_size]. rewrite Hgoal. unfold copy, lastn.
      rewrite firstn_length, skipn_length.
      rewrite (skipn_all2 d1) by lia. rewrite app_nil_r.
      rewrite firstn_all2 by (rewrite firstn_length, skipn_length; lia).
      rewrite firstn_all2 by (rewrite skipn_length; lia).
      rewrite app_length, skipn_app_ge by lia. f_equal. lia.
    + rewrite (slice_ok (length p1) (length d1) d1) by lia. cbn [obind].
      set (src1 := firstn (length d1 - length p1) (skipn (length p1) d1)).
      assert (Hs1 : src1 = skipn (length p1) d1)
        by (unfold src1; apply firstn_all2; rewrite skipn_length; lia).
      assert (Hc1 : copy d1 src1 = skipn (length p1) d1 ++ skipn (length d1 - length p1) d1).
      { unfold copy. rewrite Hs1, skipn_length. f_equal.
        apply firstn_all2. rewrite skipn_length. lia. }
      assert (Hl2 : length (copy d1 src1) = sw_size w).
      { rewrite Hc1, app_length, !skipn_length. lia. }
      rewrite slice_ok by lia. cbn [obind].
      eexists. split; [reflexivity|]. split; [|reflexivity]. split; [reflexivity|]. cbn [sw_dict sw_size].
      rewrite Hgoal. unfold lastn. rewrite app_length.
      rewrite skipn_app_le by lia. replace (length d1 + length p1 - sw_size w) with (length p1) by lia.
      rewrite Hl2, Hc1.
      rewrite firstn_app. rewrite skipn_length.
      replace (sw_size w - length p1 - (length d1 - length p1)) with 0 by lia. cbn [firstn]. rewrite app_nil_r.
      rewrite firstn_all2 by (rewrite skipn_length; lia).
      f_equal.
      apply copy_full. rewrite firstn_length, skipn_length, app_length, !skipn_length. lia.
Qed.

Lemma sw_writes_good : forall ps w hist, Good w hist ->
  exists w', sw_writes w ps = Some w' /\ Good w' (hist ++ concat ps) /\ sw_size w' = sw_size w.
Proof.
  induction ps as [|p ps IH]; intros w hist HG; cbn [sw_writes concat].
  - exists w. split; [reflexivity|]. rewrite app_nil_r. split; [exact HG|reflexivity].
  - destruct (sw_write_good w hist p HG) as [w' [-> [HG' Hs]]]. cbn [obind].
    destruct (IH w' (hist ++ p) HG') as [w'' [Hw [Hd Hs']]]. exists w''. split; [exact Hw|].
    rewrite app_assoc. split; [exact Hd|congruence].
Qed.

Lemma sw_make_good cap : Good (sw_make cap) [].
Proof. split; reflexivity. Qed.

Lemma sw_suffix cap ps :
  exists w, sw_writes (sw_make cap) ps = Some w
            /\ sw_dict w = window_spec cap ps /\ sw_size w = cap /\ sw_enabled w = true.
Proof.
  destruct (sw_writes_good ps (sw_make cap) [] (sw_make_good cap)) as [w [Hw [[He Hd] Hs]]].
  cbn [sw_make sw_size app] in Hs, Hd. exists w. unfold window_spec.
  split; [exact Hw|]. split; [congruence|]. split; assumption.
Qed.

(* a disabled window ignores every write *)
Lemma sw_write_disabled w p : sw_enabled w = false -> sw_write w p = Some w.
Proof. intro H. unfold sw_write. rewrite H. reflexivity. Qed.

Lemma sw_writes_disabled : forall ps w, sw_enabled w = false -> sw_writes w ps = Some w.
Proof.
  induction ps as [|p ps IH]; intros w H; cbn [sw_writes]; [reflexivity|].
  rewrite sw_write_disabled by exact H. cbn [obind]. apply IH, H.
Qed.

(* any window whose dict fits its capacity is Good for the history "its own contents" *)
Lemma fits_good w : sw_enabled w = true -> length (sw_dict w) <= sw_size w -> Good w (sw_dict w).
Proof. intros He Hl. split; [exact He|]. symmetry. apply lastn_all, Hl. Qed.

(* the result of a write on a fitting window, in closed form *)
Lemma sw_write_closed w p : sw_enabled w = true -> length (sw_dict w) <= sw_size w ->
  sw_write w p = Some (mkWindow true (lastn (sw_size w) (sw_dict w ++ p)) (sw_size w)).
Proof.
  intros He Hl. destruct (sw_write_good w _ p (fits_good w He Hl)) as [w' [-> [[He' Hd'] Hs']]].
  f_equal. apply window_eta; congruence.
Qed.

(* writing a then b is the same as writing a ++ b - the whole resulting state, not only the dict *)
Lemma sw_write_app w a b : length (sw_dict w) <= sw_size w ->
  (w' <- sw_write w a ;; sw_write w' b) = sw_write w (a ++ b).
Proof.
  intro Hl. destruct (sw_enabled w) eqn:He.
  - rewrite (sw_write_closed w a He Hl), (sw_write_closed w (a ++ b) He Hl). cbn [obind].
    rewrite sw_write_closed; cbn [sw_enabled sw_dict sw_size]; [|reflexivity|rewrite lastn_length; lia].
    rewrite lastn_app_lastn, app_assoc. reflexivity.
  - rewrite !sw_write_disabled by exact He. cbn [obind]. apply sw_write_disabled, He.
Qed.

Lemma sw_length_bounded cap ps w : sw_writes (sw_make cap) ps = Some w -> length (sw_dict w) <= cap.
Proof.
  intro H. destruct (sw_suffix cap ps) as [w' [Hw [Hd _]]]. rewrite H in Hw. inversion Hw; subst w'.
  rewrite Hd. unfold window_spec. rewrite lastn_length. lia.
Qed.

(* what the specification means: a suffix of the concatenation, of length min(cap, total) *)
Lemma window_spec_meaning cap ps :
  exists pre, concat ps = pre ++ window_spec cap ps
              /\ length (window_spec cap ps) = Nat.min cap (length (concat ps)).
Proof.
  exists (firstn (length (concat ps) - cap) (concat ps)). unfold window_spec. split.
  - unfold lastn. symmetry. apply firstn_skipn.
  - apply lastn_length.
Qed.
