(* Lemmas relating Model/Handshake.v to Spec/UpgradeRule.v. *)
From Coq Require Import Strings.String.
From Gws Require Import Lib.Base Lib.Hex Lib.Text Gen.Consts Model.Sha1 Model.Base64 Model.Handshake
  Spec.UpgradeRule Proofs.TextProofs.
Local Open Scope string_scope.
Local Open Scope list_scope.
Local Open Scope N_scope.

(* ------------------------------------------------------------------------------------------ *)
(* header-key canonicalisation                                                                   *)

Lemma lower_upper c : lower (upper c) = lower c.
Proof.
  unfold lower, upper, is_upper, is_lower.
  destruct ((97 <=? c) && (c <=? 122)) eqn:E1.
  - destruct ((65 <=? c - 32) && (c - 32 <=? 90)) eqn:E2; destruct ((65 <=? c) && (c <=? 90)) eqn:E3; lia.
  - reflexivity.
Qed.

Lemma token_char_nocase c d : lower c = lower d -> token_char c = token_char d.
Proof.
  intro H. destruct (lower_eq_cases c d H) as [->|[[Hu ->]|[Hu ->]]]; [reflexivity| |].
  - unfold token_char. rewrite Hu. cbn [orb].
    replace (is_lower (c + 32)) with true; [rewrite orb_true_r; reflexivity|].
    unfold is_lower, is_upper in *. lia.
  - unfold token_char. rewrite Hu. cbn [orb].
    replace (is_lower (d + 32)) with true; [rewrite orb_true_r; reflexivity|].
    unfold is_lower, is_upper in *. lia.
Qed.

Lemma forallb_token_nocase : forall a b, lower_s a = lower_s b -> forallb token_char a = forallb token_char b.
Proof.
  induction a as [|c a IH]; intros [|d b] H; cbn in H; try discriminate; [reflexivity|].
  inversion H. cbn [forallb]. rewrite (token_char_nocase c d), (IH b); auto.
Qed.

Lemma canon_go_nocase : forall a b up, lower_s a = lower_s b -> canon_go up a = canon_go up b.
Proof.
  induction a as [|c a IH]; intros [|d b] up H; cbn in H; try discriminate; [reflexivity|].
  inversion H as [[Hc Hr]]. cbn [canon_go].
  assert (E : (if up then upper c else lower c) = (if up then upper d else lower d)).
  { destruct up; [apply upper_of_lower_eq|]; assumption. }
  rewrite E. f_equal. apply IH. exact Hr.
Qed.

Lemma canon_nocase a b : forallb token_char b = true -> lower_s a = lower_s b -> canon a = canon b.
Proof.
  intros Hb H. unfold canon. rewrite (forallb_token_nocase a b H), Hb. apply canon_go_nocase. exact H.
Qed.

Lemma lower_canon_go : forall s up, lower_s (canon_go up s) = lower_s s.
Proof.
  induction s as [|c s IH]; intro up; [reflexivity|]. cbn [canon_go lower_s map].
  fold (lower_s (canon_go ((if up then upper c else lower c) =? 45) s)). rewrite IH.
  destruct up; [rewrite lower_upper|rewrite lower_idem]; reflexivity.
Qed.

Lemma lower_canon s : lower_s (canon s) = lower_s s.
Proof. unfold canon. destruct (forallb token_char s); [apply lower_canon_go|reflexivity]. Qed.

Definition canonical_keys (h : headers) : Prop := Forall (fun kv => canon (fst kv) = fst kv) h.

(* on a map with canonical keys, Header.Get(name) is the spec's case-insensitive first-line lookup *)
Lemma hget_field h name : canonical_keys h -> forallb token_char name = true -> hget h name = field name h.
Proof.
  intros Hc Hn. unfold hget. induction Hc as [|[k v] r Hk Hr IH]; [reflexivity|].
  cbn [lookup field fst] in *.
  assert (E : bytes_eqb k (canon name) = eq_nocase k name).
  { destruct (eq_nocase k name) eqn:En.
    - apply eq_nocase_spec in En. apply bytes_eqb_eq. rewrite <- Hk. apply canon_nocase; assumption.
    - apply bytes_eqb_neq. intro Ek. apply not_true_iff_false in En. apply En, eq_nocase_spec.
      rewrite Ek. apply lower_canon. }
  rewrite E. destruct (eq_nocase k name); [reflexivity|exact IH].
Qed.

(* ------------------------------------------------------------------------------------------ *)
(* EqualFold                                                                                      *)

Lemma equal_fold_ascii : forall pat s, is_ascii s = true -> equal_fold s pat = eq_nocase s pat.
Proof.
  induction pat as [|p pat IH]; intros s Ha.
  - destruct s; reflexivity.
  - destruct s as [|c s]; [reflexivity|]. cbn [is_ascii forallb] in Ha. apply andb_true_iff in Ha as [Hc Hs].
    cbn [equal_fold]. rewrite Hc. rewrite IH by exact Hs. reflexivity.
Qed.

Lemma lower_digit c d : (48 <=? d) && (d <=? 57) = true -> lower c = d -> c = d.
Proof. unfold lower, is_upper. destruct ((65 <=? c) && (c <=? 90)) eqn:E; lia. Qed.

Lemma equal_fold_13 v : equal_fold v V_version = true <-> v = str "13".
Proof.
  change V_version with [49; 51]. change (str "13") with [49; 51]. split.
  - destruct v as [|a [|b [|c r]]]; cbn; try discriminate;
    repeat match goal with |- context [?x <? 128] => destruct (x <? 128); cbn end;
    rewrite ?andb_false_r, ?andb_true_r; try discriminate.
    rewrite andb_true_iff, !N.eqb_eq. intros [Ha Hb].
    apply lower_digit in Ha; [|reflexivity]. apply lower_digit in Hb; [|reflexivity]. congruence.
  - intros ->. reflexivity.
Qed.

(* ------------------------------------------------------------------------------------------ *)
(* Connection: substring matching = token matching outside the don't-care region                 *)

Lemma lower_comma c : lower c = 44 <-> c = 44.
Proof. unfold lower, is_upper. destruct ((65 <=? c) && (c <=? 90)) eqn:E; lia. Qed.

Lemma is_ows_lower c : is_ows (lower c) = is_ows c.
Proof. unfold is_ows, lower, is_upper. destruct ((65 <=? c) && (c <=? 90)) eqn:E; lia. Qed.

Lemma tokens_lower v : tokens (lower_s v) = map lower_s (tokens v).
Proof.
  unfold tokens, lower_s. rewrite split_on_map by apply lower_comma. rewrite !map_map.
  apply map_ext. intro p. apply trim_by_map, is_ows_lower.
Qed.

Definition UPG : bytes := str "upgrade".

Lemma contains_tokens w : (forall t, In t (tokens w) -> contains t UPG = true -> t = UPG) ->
  (contains w UPG = true <-> In UPG (tokens w)).
Proof.
  intro Hdc. split.
  - intro Hc. apply contains_spec in Hc as [a [b ->]].
    destruct (split_on_occurrence 44 UPG) with (a := a) (b := b) as [p [a' [b' [Hin Hp]]]].
    { cbv. intuition discriminate. }
    destruct (trim_by_occ is_ows UPG) with (a := a') (b := b') as [a'' [b'' Ht]]; try reflexivity; try discriminate.
    assert (Hin' : In (trim_by is_ows p) (tokens (a ++ UPG ++ b))) by (apply in_map; exact Hin).
    rewrite <- (Hdc _ Hin') at 1; [exact Hin'|].
    apply contains_spec. exists a'', b''. rewrite Hp. exact Ht.
  - intro Hin. unfold tokens in Hin. apply in_map_iff in Hin as [p [Ht Hin]].
    destruct (split_on_piece_sub _ _ _ Hin) as [a [b ->]].
    destruct (trim_by_sub is_ows p) as [w1 [w2 Hp]]. rewrite Ht in Hp.
    apply contains_spec. exists (a ++ w1), (w2 ++ b). rewrite Hp, <- !app_assoc. reflexivity.
Qed.

Lemma header_contains_token v : connection_unambiguous v ->
  (header_contains v V_connection = true <-> has_token v (str "upgrade")).
Proof.
  intro Hu. unfold header_contains. change (lower_s V_connection) with UPG.
  rewrite contains_tokens.
  - rewrite tokens_lower, in_map_iff. unfold has_token. change (lower_s (str "upgrade")) with UPG.
    split; intros [t [H1 H2]]; exists t; auto.
  - intros t Hin Hc. rewrite tokens_lower in Hin. apply in_map_iff in Hin as [t0 [<- Hin0]].
    apply (Hu t0 Hin0 Hc).
Qed.

(* ------------------------------------------------------------------------------------------ *)
(* subprotocols                                                                                   *)

Lemma gws_split_offers v t : In t (gws_split v) <-> offers v t.
Proof.
  unfold gws_split, offers. rewrite filter_In, in_map_iff, negb_true_iff, is_nil_false.
  split; [intros [[p [H1 H2]] H3]|intros [H3 [p [H1 H2]]]]; eauto.
Qed.

Lemma gws_split_nonempty v t : In t (gws_split v) -> t <> [].
Proof. intro H. apply gws_split_offers in H. apply H. Qed.

Lemma intersection_elem_spec b : (forall y, In y b -> y <> []) -> forall a,
  (intersection_elem a b = [] /\ forall x, In x a -> ~ In x b)
  \/ (exists pre post, a = pre ++ intersection_elem a b :: post /\ In (intersection_elem a b) b
                       /\ forall x, In x pre -> ~ In x b).
Proof.
  intros Hb. induction a as [|x a IH]; cbn [intersection_elem].
  - left. split; [reflexivity|]. intros x [].
  - destruct (mem x b) eqn:Em.
    + right. apply mem_spec in Em. exists [], a. split; [reflexivity|]. split; [exact Em|]. intros y [].
    + assert (Hx : ~ In x b) by (intro Hin; apply mem_spec in Hin; congruence).
      destruct IH as [[E Hn]|[pre [post [E [Hin Hn]]]]].
      * left. split; [exact E|]. intros y [<-|Hy]; auto.
      * right. exists (x :: pre), post. split; [cbn; congruence|]. split; [exact Hin|].
        intros y [<-|Hy]; auto.
Qed.

Lemma intersection_elem_nil_iff a b : (forall y, In y b -> y <> []) ->
  (intersection_elem a b = [] <-> forall x, In x a -> ~ In x b).
Proof.
  intro Hb. destruct (intersection_elem_spec b Hb a) as [[E Hn]|[pre [post [E [Hin Hn]]]]].
  - tauto.
  - split.
    + intro E0. rewrite E0 in Hin. exfalso. exact (Hb _ Hin eq_refl).
    + intro Hall. exfalso. apply (Hall (intersection_elem a b)); [|exact Hin].
      rewrite E at 2. apply in_or_app. right. left. reflexivity.
Qed.

(* ------------------------------------------------------------------------------------------ *)
(* C10: decision                                                                                  *)

Section Decision.
  Variable authorize : request -> bool.
  Variable pmd_response : bytes -> bytes.

  Definition sub_of (o : server_opts) (r : request) : bytes :=
    if is_nil (so_subprotocols o) then []
    else intersection_elem (so_subprotocols o) (gws_split (hget (r_headers r) K_protocol)).

  (* the cascade of doUpgradeFromConn as one boolean *)
  Definition upgrade_ok (o : server_opts) (r : request) : bool :=
    let h := r_headers r in
    authorize r && bytes_eqb (r_method r) (str "GET") && equal_fold (hget h K_version) V_version
    && header_contains (hget h K_connection) V_connection && equal_fold (hget h K_upgrade) V_upgrade
    && negb (is_nil (hget h K_key))
    && negb (negb (is_nil (so_subprotocols o)) && is_nil (sub_of o r)).

  Lemma do_upgrade_ok o r :
    (exists u, do_upgrade authorize pmd_response o r = Upgraded u) <-> upgrade_ok o r = true.
  Proof.
    unfold do_upgrade, upgrade_ok, sub_of. change (B "GET") with (str "GET").
    destruct (authorize r); cbn [negb andb]; [|split; [intros [u Hu]; discriminate|discriminate]].
    destruct (bytes_eqb (r_method r) (str "GET")); cbn [negb andb]; [|split; [intros [u Hu]; discriminate|discriminate]].
    destruct (equal_fold (hget (r_headers r) K_version) V_version); cbn [negb andb]; [|split; [intros [u Hu]; discriminate|discriminate]].
    destruct (header_contains (hget (r_headers r) K_connection) V_connection); cbn [negb andb]; [|split; [intros [u Hu]; discriminate|discriminate]].
    destruct (equal_fold (hget (r_headers r) K_upgrade) V_upgrade); cbn [negb andb]; [|split; [intros [u Hu]; discriminate|discriminate]].
    destruct (is_nil (hget (r_headers r) K_key)); cbn [negb andb]; [split; [intros [u Hu]; discriminate|discriminate]|].
    cbv zeta.
    set (c := negb (is_nil (so_subprotocols o)) && is_nil _).
    destruct c; cbn [negb]; split; try discriminate; try (intros [u Hu]; discriminate); eauto.
  Qed.
End Decision.

Lemma key_tokens_ok :
  forallb token_char K_version = true /\ forallb token_char K_connection = true /\ forallb token_char K_upgrade = true
  /\ forallb token_char K_key = true /\ forallb token_char K_protocol = true /\ forallb token_char K_extensions = true
  /\ forallb token_char K_accept = true.
Proof. repeat split; reflexivity. Qed.

Lemma sub_ok_iff subs v :
  negb (negb (is_nil subs) && is_nil (if is_nil subs then [] else intersection_elem subs (gws_split v))) = true
  <-> (subs = [] \/ common subs v).
Proof.
  destruct subs as [|s0 subs']; cbn [is_nil negb andb]; [split; auto|].
  set (subs := s0 :: subs').
  destruct (intersection_elem_spec (gws_split v) (gws_split_nonempty v) subs) as [[E Hn]|[pre [post [E [Hin Hn]]]]].
  - rewrite E. cbn. split; [discriminate|]. intros [H|[s [Hs Ho]]]; [discriminate|].
    exfalso. apply (Hn s Hs). apply gws_split_offers. exact Ho.
  - assert (Hne : intersection_elem subs (gws_split v) <> []) by (apply (gws_split_nonempty v); exact Hin).
    apply is_nil_false in Hne. rewrite Hne. cbn. split; [|reflexivity]. intros _. right.
    exists (intersection_elem subs (gws_split v)). split.
    + rewrite E at 2. apply in_or_app. right. left. reflexivity.
    + apply gws_split_offers. exact Hin.
Qed.

Lemma upgrade_iff authorize pmd_response o r :
  canonical_keys (r_headers r) ->
  is_ascii (field (str "Upgrade") (r_headers r)) = true ->
  connection_unambiguous (field (str "Connection") (r_headers r)) ->
  ((exists u, do_upgrade authorize pmd_response o r = Upgraded u) <->
   should_upgrade (authorize r) (so_subprotocols o) (r_method r) (r_headers r)).
Proof.
  intros Hc Ha Hu. rewrite do_upgrade_ok. unfold upgrade_ok, sub_of, should_upgrade.
  destruct key_tokens_ok as [T1 [T2 [T3 [T4 [T5 _]]]]].
  rewrite !hget_field by assumption.
  change K_version with (str "Sec-WebSocket-Version"). change K_connection with (str "Connection").
  change K_upgrade with (str "Upgrade"). change K_key with (str "Sec-WebSocket-Key").
  change K_protocol with (str "Sec-WebSocket-Protocol").
  rewrite !andb_true_iff, bytes_eqb_eq, equal_fold_13, (header_contains_token _ Hu),
    (equal_fold_ascii _ _ Ha), eq_nocase_spec, negb_true_iff, is_nil_false, sub_ok_iff.
  change (lower_s V_upgrade) with (str "websocket"). tauto.
Qed.

(* ------------------------------------------------------------------------------------------ *)
(* C10: response fields                                                                           *)

Lemma magic_is_rfc_guid : str internal_MagicNumber = RFC_GUID.
Proof. reflexivity. Qed.

Lemma compute_accept_key_spec key : compute_accept_key key = accept_for key.
Proof. reflexivity. Qed.

Lemma first_common_of_intersection subs v :
  subs <> [] -> intersection_elem subs (gws_split v) <> [] -> first_common subs v (intersection_elem subs (gws_split v)).
Proof.
  intros _ Hne.
  destruct (intersection_elem_spec (gws_split v) (gws_split_nonempty v) subs) as [[E Hn]|[pre [post [E [Hin Hn]]]]];
    [contradiction|].
  exists pre, post. split; [exact E|]. split; [apply gws_split_offers; exact Hin|].
  intros x Hx Ho. apply (Hn x Hx). apply gws_split_offers. exact Ho.
Qed.

(* extra headers: whatever the spelling of the configured keys, a line whose name is a protected one
   (ignoring case) carries the empty value; with canonical keys no such line exists *)
Lemma hdel_lookup_same h k : lookup (canon k) (hdel h k) = None.
Proof.
  unfold hdel. induction h as [|[k' v] r IH]; [reflexivity|]. cbn [filter fst].
  destruct (bytes_eqb k' (canon k)) eqn:E; cbn [negb]; [exact IH|]. cbn [lookup]. rewrite E. exact IH.
Qed.

Lemma hdel_lookup_other h k x : lookup x (hdel h k) = None -> forall k2, lookup x (hdel (hdel h k) k2) = None.
Proof.
  intros H k2. unfold hdel at 1. induction (hdel h k) as [|[k' v] r IH]; [reflexivity|].
  cbn [lookup] in H. cbn [filter fst]. destruct (bytes_eqb k' x) eqn:E; [discriminate|].
  destruct (negb (bytes_eqb k' (canon k2))); cbn [lookup]; rewrite ?E; apply IH; exact H.
Qed.

Lemma lookup_hdel_none h k x : lookup x h = None -> lookup x (hdel h k) = None.
Proof.
  unfold hdel. induction h as [|[k' v] r IH]; [reflexivity|]. cbn [lookup filter fst].
  destruct (bytes_eqb k' x) eqn:E; [discriminate|]. intro H.
  destruct (negb (bytes_eqb k' (canon k))); cbn [lookup]; rewrite ?E; apply IH; exact H.
Qed.

Lemma delete_protected_lookup h p : In p protected_names -> lookup (canon p) (delete_protected h) = None.
Proof.
  unfold delete_protected, protected_names. cbn [fold_left].
  intros [<-|[<-|[<-|[<-|[<-|[]]]]]];
    repeat first [apply hdel_lookup_same | apply lookup_hdel_none].
Qed.

Lemma hdel_subset h k kv : In kv (hdel h k) -> In kv h.
Proof. unfold hdel. rewrite filter_In. tauto. Qed.

Lemma delete_protected_subset h kv : In kv (delete_protected h) -> In kv h.
Proof.
  unfold delete_protected, protected_names. cbn [fold_left]. intro H.
  repeat apply hdel_subset in H. exact H.
Qed.

Lemma protected_name_model k : protected_name k <-> exists p, In p protected_names /\ lower_s k = lower_s p.
Proof. reflexivity. Qed.

Lemma protected_tokens p : In p protected_names -> forallb token_char p = true.
Proof. intros [<-|[<-|[<-|[<-|[<-|[]]]]]]; reflexivity. Qed.

Lemma extra_protected_empty extra k v :
  In (k, v) (with_extra_header (delete_protected extra)) -> protected_name k -> v = [].
Proof.
  unfold with_extra_header. rewrite in_map_iff. intros [[k0 v0] [E Hin]] Hp. cbn [fst] in E. inversion E; subst.
  apply protected_name_model in Hp as [p [Hp Hl]].
  unfold hget. rewrite (canon_nocase k p (protected_tokens p Hp) Hl), (delete_protected_lookup _ p Hp). reflexivity.
Qed.

Lemma hdel_no_key h k kv : In kv (hdel h k) -> fst kv <> canon k.
Proof. unfold hdel. rewrite filter_In, negb_true_iff, bytes_eqb_neq. tauto. Qed.

Lemma lookup_none_not_in (h : headers) x : lookup x h = None -> forall kv, In kv h -> fst kv <> x.
Proof.
  induction h as [|[k' v'] r IH]; intros H kv []; cbn [lookup] in H; destruct (bytes_eqb k' x) eqn:E; try discriminate.
  - subst. cbn. apply bytes_eqb_neq. exact E.
  - apply IH; assumption.
Qed.

Lemma extra_canonical_no_protected extra k v : canonical_keys extra ->
  In (k, v) (with_extra_header (delete_protected extra)) -> ~ protected_name k.
Proof.
  intros Hc Hin Hp. unfold with_extra_header in Hin. apply in_map_iff in Hin as [[k0 v0] [E Hin]].
  cbn [fst] in E. inversion E; subst k. clear E.
  apply protected_name_model in Hp as [p [Hp Hl]].
  assert (Hk : canon k0 = k0).
  { apply delete_protected_subset in Hin. unfold canonical_keys in Hc. rewrite Forall_forall in Hc. apply (Hc _ Hin). }
  apply (lookup_none_not_in _ _ (delete_protected_lookup extra p Hp) _ Hin). cbn [fst].
  rewrite <- Hk. apply canon_nocase; [apply protected_tokens; exact Hp|exact Hl].
Qed.

Section Fields.
  Variable authorize : request -> bool.
  Variable pmd_response : bytes -> bytes.

  Definition pd_enabled_of (o : server_opts) (r : request) : bool :=
    so_pmd o && contains (hget (r_headers r) K_extensions) (str internal_PermessageDeflate).

  Lemma do_upgrade_inv o r u : do_upgrade authorize pmd_response o r = Upgraded u ->
    let h := r_headers r in
    let sub := sub_of o r in
    (negb (is_nil (so_subprotocols o)) && is_nil sub = false)
    /\ u = {| u_fixed :=
                [(K_upgrade, V_upgrade); (K_connection, V_connection)]
                ++ (if pd_enabled_of o r then [(K_extensions, pmd_response (hget h K_extensions))] else [])
                ++ [(K_accept, compute_accept_key (hget h K_key))]
                ++ (if is_nil (so_subprotocols o) then [] else [(K_protocol, sub)]);
              u_extra := with_extra_header (delete_protected (so_extra o));
              u_subprotocol := sub;
              u_pmd := pd_enabled_of o r |}.
  Proof.
    unfold do_upgrade, sub_of, pd_enabled_of. cbv zeta.
    change (str internal_PermessageDeflate) with (B internal_PermessageDeflate).
    destruct (authorize r); cbn [negb]; [|discriminate].
    destruct (bytes_eqb (r_method r) _); cbn [negb]; [|discriminate].
    destruct (equal_fold (hget (r_headers r) K_version) V_version); cbn [negb]; [|discriminate].
    destruct (header_contains (hget (r_headers r) K_connection) V_connection); cbn [negb]; [|discriminate].
    destruct (equal_fold (hget (r_headers r) K_upgrade) V_upgrade); cbn [negb]; [|discriminate].
    destruct (is_nil (hget (r_headers r) K_key)); [discriminate|].
    set (c := negb (is_nil (so_subprotocols o)) && is_nil _).
    destruct c eqn:Ec; [discriminate|]. intro H. injection H as <-. split; [reflexivity|].
    subst c. f_equal.
    destruct (is_nil (so_subprotocols o)) eqn:En; cbn [negb andb];
    match goal with |- context [so_pmd o && ?x] => destruct (so_pmd o && x) end;
      cbn [app]; rewrite ?app_nil_r; reflexivity.
  Qed.
End Fields.

Lemma response_fields_spec authorize pmd_response o r u :
  canonical_keys (r_headers r) ->
  do_upgrade authorize pmd_response o r = Upgraded u ->
  let h := r_headers r in
  let ext := field (str "Sec-WebSocket-Extensions") h in
  let offer := field (str "Sec-WebSocket-Protocol") h in
  u_fixed u = response_fields (if u_pmd u then Some (pmd_response ext) else None)
                              (field (str "Sec-WebSocket-Key") h)
                              (if is_nil (so_subprotocols o) then None else Some (u_subprotocol u))
  /\ (u_pmd u = true <-> so_pmd o = true /\ offers_pmd ext)
  /\ (so_subprotocols o = [] -> u_subprotocol u = [])
  /\ (so_subprotocols o <> [] -> first_common (so_subprotocols o) offer (u_subprotocol u))
  /\ (forall k v, In (k, v) (u_extra u) -> protected_name k -> v = [])
  /\ (canonical_keys (so_extra o) -> forall k v, In (k, v) (u_extra u) -> ~ protected_name k).
Proof.
  intros Hc Hu. cbv zeta. apply do_upgrade_inv in Hu as [Hs ->]. cbn [u_fixed u_extra u_subprotocol u_pmd].
  destruct key_tokens_ok as [T1 [T2 [T3 [T4 [T5 [T6 T7]]]]]].
  unfold pd_enabled_of, sub_of in *. rewrite !hget_field in * by assumption.
  change K_extensions with (str "Sec-WebSocket-Extensions") in *. change K_key with (str "Sec-WebSocket-Key") in *.
  change K_protocol with (str "Sec-WebSocket-Protocol") in *.
  split; [|split; [|split; [|split; [|split]]]].
  - unfold response_fields. rewrite compute_accept_key_spec.
    destruct (so_pmd o && contains _ _); destruct (is_nil (so_subprotocols o)); reflexivity.
  - unfold offers_pmd. rewrite andb_true_iff. reflexivity.
  - intros ->. reflexivity.
  - intro Hne. apply is_nil_false in Hne. rewrite Hne in *. cbn [negb andb] in Hs.
    apply first_common_of_intersection; [apply is_nil_false; exact Hne|apply is_nil_false; exact Hs].
  - intros k v. apply extra_protected_empty.
  - intros Hce k v. apply extra_canonical_no_protected. exact Hce.
Qed.

(* ------------------------------------------------------------------------------------------ *)
(* C10: reject path                                                                               *)

Lemma reject_outcome authorize pmd_response date o r e :
  do_upgrade authorize pmd_response o r = Rejected e ->
  let out := upgrade_from_conn authorize pmd_response date o r in
  o_conn out = None /\ o_closed out = true
  /\ (exists rest, o_written out = str "HTTP/1.1 400 Bad Request" ++ [13; 10] ++ rest)
  /\ prefixb (str "HTTP/1.1 101") (o_written out) = false.
Proof.
  intro H. cbv zeta. unfold upgrade_from_conn. rewrite H. cbn [o_conn o_closed o_written].
  split; [reflexivity|]. split; [reflexivity|]. split.
  - unfold reject_bytes. eexists. reflexivity.
  - reflexivity.
Qed.

Lemma upgraded_outcome authorize pmd_response date o r u :
  do_upgrade authorize pmd_response o r = Upgraded u ->
  let out := upgrade_from_conn authorize pmd_response date o r in
  o_conn out = Some u /\ o_closed out = false /\ o_written out = response_bytes u.
Proof. intro H. cbv zeta. unfold upgrade_from_conn. rewrite H. auto. Qed.
