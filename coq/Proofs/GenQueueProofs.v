(* workerQueue.getJob (task.go) *)
From Gws Require Import Lib.Base Spec.Rfc6455 Gen.Consts Gen.Funcs Proofs.GenBase.
From Coq Require Import ZifyN ZifyNat ZifyBool.
Local Open Scope Z_scope.
From Gws Require Import Model.Queue.

(* ---- workerQueue.getJob (task.go): the counter arithmetic and the order of the three tests.  Tasks are numbered from 0
   in the model; the Go value is a non-nil func, encoded as task + 1 (0 = nil). *)
Definition job_code (o : option nat) : Z := match o with Some j => Z.of_nat (S j) | None => 0 end.

Lemma gen_getJob_is st new delta :
  let q1 := match new with Some t => wq_q st ++ [t] | None => wq_q st end in
  gf_gws_workerQueue_getJob (wq_cur st) (wq_max st) (job_code (hd_error q1)) (job_code new) delta
  = (job_code (snd (get_job st new delta)), wq_cur (fst (get_job st new delta))).
Proof.
  unfold gf_gws_workerQueue_getJob, get_job. cbv zeta.
  assert (Hnz : forall o, (job_code o =? 0) = match o with Some _ => false | None => true end)
    by (intros [j|]; unfold job_code; [apply Z.eqb_neq; lia|reflexivity]).
  set (q1 := match new with Some t => wq_q st ++ [t] | None => wq_q st end).
  destruct (wq_cur st + delta >=? wq_max st); [reflexivity|].
  rewrite Hnz; destruct q1 as [|j q2]; reflexivity.
Qed.
