(* base64: decoding an encoding gives the bytes back (all lengths, all byte values). *)
From Gws Require Import Lib.Base Lib.Text Model.Base64 Model.Sha1.
Local Open Scope N_scope.

#[local] Ltac Zify.zify_post_hook ::= Z.to_euclidean_division_equations.

Lemma b64_val_char s : s < 64 -> b64_val (b64_char s) = Some s.
Proof.
  intro H. unfold b64_char.
  destruct (s <? 26) eqn:E1; [|destruct (s <? 52) eqn:E2; [|destruct (s <? 62) eqn:E3; [|destruct (s =? 62) eqn:E4]]].
  - unfold b64_val. replace ((65 <=? 65 + s) && (65 + s <=? 90)) with true by lia. f_equal. lia.
  - unfold b64_val. replace ((65 <=? 71 + s) && (71 + s <=? 90)) with false by lia.
    replace ((97 <=? 71 + s) && (71 + s <=? 122)) with true by lia. f_equal. lia.
  - unfold b64_val. replace ((65 <=? s - 4) && (s - 4 <=? 90)) with false by lia.
    replace ((97 <=? s - 4) && (s - 4 <=? 122)) with false by lia.
    replace ((48 <=? s - 4) && (s - 4 <=? 57)) with true by lia. f_equal. lia.
  - assert (s = 62) by lia. subst. reflexivity.
  - assert (s = 63) by lia. subst. reflexivity.
Qed.

Lemma b64_char_not_pad s : (b64_char s =? 61) = false.
Proof.
  unfold b64_char.
  destruct (s <? 26) eqn:E1; [|destruct (s <? 52) eqn:E2; [|destruct (s <? 62) eqn:E3; [|destruct (s =? 62) eqn:E4]]]; lia.
Qed.

Lemma list_ind3 {A} (P : list A -> Prop) :
  P [] -> (forall a, P [a]) -> (forall a b, P [a; b]) -> (forall a b c r, P r -> P (a :: b :: c :: r)) ->
  forall l, P l.
Proof.
  intros H0 H1 H2 H3.
  assert (H : forall l, P l /\ (forall a, P (a :: l)) /\ (forall a b, P (a :: b :: l))).
  { induction l as [|x l [IH0 [IH1 IH2]]]; [auto|]. split; [apply IH1|]. split; [intro a; apply IH2|].
    intros a b. apply H3. exact IH0. }
  intro l. apply H.
Qed.

Lemma b64_roundtrip : forall l, wf_bytes l -> b64_decode (b64_encode l) = Some l.
Proof.
  induction l as [|a|a b|a b c r IH] using list_ind3; intro Hwf.
  - reflexivity.
  - inversion Hwf as [|? ? Ha _]; subst. unfold byte_ok in Ha. change (2 ^ 8) with 256 in Ha.
    cbn [b64_encode b64_decode]. rewrite !b64_val_char by lia. cbn [obind N.eqb Pos.eqb andb is_nil].
    f_equal. f_equal. lia.
  - inversion Hwf as [|? ? Ha Hwf']; subst. inversion Hwf' as [|? ? Hb _]; subst.
    unfold byte_ok in *. change (2 ^ 8) with 256 in *.
    cbn [b64_encode b64_decode]. rewrite !b64_val_char by lia. cbn [obind].
    rewrite b64_char_not_pad. cbn [andb N.eqb Pos.eqb is_nil]. f_equal. f_equal; [lia|]. f_equal. lia.
  - inversion Hwf as [|? ? Ha Hwf1]; subst. inversion Hwf1 as [|? ? Hb Hwf2]; subst. inversion Hwf2 as [|? ? Hc Hwf3]; subst.
    unfold byte_ok in *. change (2 ^ 8) with 256 in *.
    cbn [b64_encode b64_decode]. rewrite !b64_val_char by lia. cbn [obind].
    rewrite !b64_char_not_pad. cbn [andb]. rewrite (IH Hwf3). cbn [obind].
    f_equal. f_equal; [lia|]. f_equal; [lia|]. f_equal. lia.
Qed.

Lemma b64_encode_length : forall l, length (b64_encode l) = (4 * ((length l + 2) / 3))%nat.
Proof.
  induction l as [|a|a b|a b c r IH] using list_ind3; try reflexivity.
  cbn [b64_encode length]. rewrite IH.
  replace (S (S (S (length r))) + 2)%nat with (1 * 3 + (length r + 2))%nat by lia.
  rewrite Nat.div_add_l by lia. lia.
Qed.

Lemma be_bytes_length n x : length (be_bytes n x) = n.
Proof. induction n; cbn [be_bytes length]; congruence. Qed.

Lemma be_bytes_wf n x : wf_bytes (be_bytes n x).
Proof.
  induction n; cbn [be_bytes]; constructor; auto. unfold byte_ok.
  change 255 with (N.ones 8). rewrite N.land_ones. apply N.mod_lt. discriminate.
Qed.

(* the n big-endian bytes of x determine x mod 2^(8n) *)
Fixpoint be_value (l : list N) : N := match l with [] => 0 | b :: r => b * 2 ^ (8 * N.of_nat (length r)) + be_value r end.

Lemma be_bytes_value n x : be_value (be_bytes n x) = x mod 2 ^ (8 * N.of_nat n).
Proof.
  induction n as [|n IH].
  - cbn. rewrite N.mod_1_r. reflexivity.
  - cbn [be_bytes be_value]. rewrite be_bytes_length, IH.
    change 255 with (N.ones 8). rewrite N.land_ones, N.shiftr_div_pow2.
    replace (8 * N.of_nat (S n)) with (8 * N.of_nat n + 8) by lia.
    rewrite N.pow_add_r. set (m := 2 ^ (8 * N.of_nat n)). assert (Hm : m <> 0) by (apply N.pow_nonzero; discriminate).
    change (2 ^ 8) with 256.
    rewrite (N.mod_mul_r x m 256) by (auto; discriminate). lia.
Qed.
