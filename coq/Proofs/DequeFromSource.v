(* Tie A for the deque (C20): the head / tail / length bookkeeping of doRemove, doPushBack and doPushFront as REGENERATED
   from internal/deque.go (Gen/Funcs.v: the `state` counter of doRemove, its four cases, the nil tests, the simultaneous
   assignment of head and tail for the first element) gives, on the values the model reads through its element pointers,
   exactly the head, tail and length of the model's result.  (The stores into neighbouring elements are the model's.) *)
From Gws Require Import Lib.Base Model.Deque Gen.Funcs Proofs.DequeSeg.
From Coq Require Import ZifyNat ZifyBool.
Local Open Scope Z_scope.

Section DequeFromSource.
Context {V : Type} (zero : V).
Notation dq := (@dq V).
Notation elem := (@elem V).

(* the addr field found through Get(k) (0 for nil / an index outside the arena) *)
Definition addr_at (d : dq) (k : nat) : Z :=
  match nth_error (elems d) k with Some x => Z.of_nat (eaddr x) | None => 0 end.

Lemma rd_wr_same (d : dq) n f x : rd d n = Some x -> rd (wr d n f) n = Some (f x).
Proof. unfold rd, wr. cbn [elems with_elems]. apply upd_eq. Qed.

Lemma nat_eqb_Z a : (Z.of_nat a =? 0) = (a =? 0)%nat.
Proof. destruct (Nat.eqb_spec a 0), (Z.eqb_spec (Z.of_nat a) 0); lia. Qed.

Lemma gen_doRemove_is (d d' : dq) i (e : elem) ip inx ve :
  rd d i = Some e -> do_remove d i = Some d' ->
  gf_internal_Deque_doRemove (Z.of_nat (head d)) (dlen d) (Z.of_nat (tail d)) inx ip
    (Z.of_nat (enext e)) (Z.of_nat (eprev e)) (addr_at d (enext e)) (addr_at d (eprev e)) ve
  = (0, Z.of_nat (head d'), Z.of_nat (tail d'), dlen d').
Proof.
  intros Hrd H. unfold do_remove in H. rewrite Hrd in H. cbn [obind] in H.
  unfold gf_internal_Deque_doRemove, gf_internal_Pointer_IsNil. rewrite !nat_eqb_Z. cbv zeta.
  unfold get in H.
  destruct (eprev e =? 0)%nat eqn:Ep; destruct (enext e =? 0)%nat eqn:En; cbn [negb] in *.
  - (* default *) cbn [obind] in H. injection H as <-. reflexivity.
  - (* case 2 *)
    replace (0 <? enext e)%nat with true in H by (apply Nat.eqb_neq in En; symmetry; apply Nat.ltb_lt; lia).
    destruct (enext e <? length (elems d))%nat eqn:Eb; [|cbn in H; discriminate]. cbn [obind] in H.
    destruct (rd (wr (with_len d (dlen d - 1)) (enext e) (set_prev 0%nat)) (enext e)) as [ne|] eqn:Er; [|cbn in H; discriminate].
    cbn [obind] in H. injection H as <-. cbn [head tail dlen with_head with_len wr with_elems].
    assert (exists x, rd d (enext e) = Some x) as [x Hx].
    { unfold rd. destruct (nth_error (elems d) (enext e)) eqn:E; [eauto|]. apply nth_error_None in E. apply Nat.ltb_lt in Eb. lia. }
    assert (Hne : ne = set_prev 0%nat x).
    { assert (Hx' : rd (with_len d (dlen d - 1)) (enext e) = Some x) by exact Hx.
      rewrite (rd_wr_same _ _ _ _ Hx') in Er. congruence. }
    unfold addr_at. unfold rd in Hx. rewrite Hx. subst ne. reflexivity.
  - (* case 1 *)
    replace (0 <? eprev e)%nat with true in H by (apply Nat.eqb_neq in Ep; symmetry; apply Nat.ltb_lt; lia).
    destruct (eprev e <? length (elems d))%nat eqn:Eb; [|cbn in H; discriminate]. cbn [obind] in H.
    destruct (rd (wr (with_len d (dlen d - 1)) (eprev e) (set_next 0%nat)) (eprev e)) as [pe|] eqn:Er; [|cbn in H; discriminate].
    cbn [obind] in H. injection H as <-. cbn [head tail dlen with_tail with_len wr with_elems].
    assert (exists x, rd d (eprev e) = Some x) as [x Hx].
    { unfold rd. destruct (nth_error (elems d) (eprev e)) eqn:E; [eauto|]. apply nth_error_None in E. apply Nat.ltb_lt in Eb. lia. }
    assert (Hpe : pe = set_next 0%nat x).
    { assert (Hx' : rd (with_len d (dlen d - 1)) (eprev e) = Some x) by exact Hx.
      rewrite (rd_wr_same _ _ _ _ Hx') in Er. congruence. }
    unfold addr_at. unfold rd in Hx. rewrite Hx. subst pe. reflexivity.
  - (* case 3: head and tail stay *)
    replace (0 <? eprev e)%nat with true in H by (apply Nat.eqb_neq in Ep; symmetry; apply Nat.ltb_lt; lia).
    destruct (eprev e <? length (elems d))%nat; [|cbn in H; discriminate]. cbn [obind] in H.
    replace (0 <? enext e)%nat with true in H by (apply Nat.eqb_neq in En; symmetry; apply Nat.ltb_lt; lia).
    destruct (enext e <? length (elems d))%nat; [|cbn in H; discriminate]. cbn [obind] in H.
    destruct (rd (with_len d (dlen d - 1)) (enext e)) as [ne|]; [|cbn in H; discriminate]. cbn [obind] in H.
    destruct (rd _ (eprev e)) as [pe|]; [|cbn in H; discriminate]. cbn [obind] in H.
    injection H as <-. reflexivity.
Qed.

Lemma gen_doPushBack_is (d d' : dq) i (e : elem) it ve :
  rd d i = Some e -> do_push_back d i = Some d' ->
  gf_internal_Deque_doPushBack (Z.of_nat (head d)) (dlen d) (Z.of_nat (tail d)) it (Z.of_nat (eaddr e)) ve
  = (0, Z.of_nat (head d'), Z.of_nat (tail d'), dlen d').
Proof.
  intros Hrd H. unfold do_push_back in H. cbn [tail with_len] in H.
  unfold gf_internal_Deque_doPushBack, gf_internal_Pointer_IsNil. rewrite nat_eqb_Z. cbv zeta.
  destruct (tail d =? 0)%nat eqn:Et.
  - assert (Hr : rd (with_len d (dlen d + 1)) i = Some e) by exact Hrd. rewrite Hr in H. cbn [obind] in H.
    injection H as <-. reflexivity.
  - unfold get in H. cbn [tail with_len elems] in H.
    replace (0 <? tail d)%nat with true in H by (apply Nat.eqb_neq in Et; symmetry; apply Nat.ltb_lt; lia).
    destruct (tail d <? length (elems d))%nat; [|cbn in H; discriminate]. cbn [obind] in H.
    assert (Hr : rd (with_len d (dlen d + 1)) i = Some e) by exact Hrd. rewrite Hr in H. cbn [obind] in H.
    destruct (rd (wr _ (tail d) _) (tail d)) as [tl|]; [|cbn in H; discriminate]. cbn [obind] in H.
    destruct (rd (wr (wr _ (tail d) _) i _) i) as [e2|] eqn:E2; [|cbn in H; discriminate]. cbn [obind] in H.
    injection H as <-. cbn [head tail dlen with_tail with_len wr with_elems].
    (* the element read back is e with prev set (and, if i = tail, next set): its addr is e's *)
    assert (Ha : eaddr e2 = eaddr e).
    { unfold rd, wr in E2. cbn [elems with_elems with_len] in E2.
      destruct (Nat.eq_dec (tail d) i) as [Heq|Hne].
      - subst i. unfold rd in Hrd. erewrite upd_eq in E2; [|erewrite upd_eq; [reflexivity|exact Hrd]].
        injection E2 as <-. reflexivity.
      - erewrite upd_eq in E2; [|rewrite upd_ne by exact Hne; exact Hrd]. injection E2 as <-. reflexivity. }
    rewrite Ha. reflexivity.
Qed.

Lemma gen_doPushFront_is (d d' : dq) i (e : elem) ih ve :
  rd d i = Some e -> do_push_front d i = Some d' ->
  gf_internal_Deque_doPushFront (Z.of_nat (head d)) (dlen d) (Z.of_nat (tail d)) ih (Z.of_nat (eaddr e)) ve
  = (0, Z.of_nat (head d'), Z.of_nat (tail d'), dlen d').
Proof.
  intros Hrd H. unfold do_push_front in H. cbn [head with_len] in H.
  unfold gf_internal_Deque_doPushFront, gf_internal_Pointer_IsNil. rewrite nat_eqb_Z. cbv zeta.
  destruct (head d =? 0)%nat eqn:Et.
  - assert (Hr : rd (with_len d (dlen d + 1)) i = Some e) by exact Hrd. rewrite Hr in H. cbn [obind] in H.
    injection H as <-. reflexivity.
  - unfold get in H. cbn [head with_len elems] in H.
    replace (0 <? head d)%nat with true in H by (apply Nat.eqb_neq in Et; symmetry; apply Nat.ltb_lt; lia).
    destruct (head d <? length (elems d))%nat; [|cbn in H; discriminate]. cbn [obind] in H.
    assert (Hr : rd (with_len d (dlen d + 1)) i = Some e) by exact Hrd. rewrite Hr in H. cbn [obind] in H.
    destruct (rd (wr _ (head d) _) (head d)) as [hd|]; [|cbn in H; discriminate]. cbn [obind] in H.
    destruct (rd (wr (wr _ (head d) _) i _) i) as [e2|] eqn:E2; [|cbn in H; discriminate]. cbn [obind] in H.
    injection H as <-. cbn [head tail dlen with_head with_len wr with_elems].
    assert (Ha : eaddr e2 = eaddr e).
    { unfold rd, wr in E2. cbn [elems with_elems with_len] in E2.
      destruct (Nat.eq_dec (head d) i) as [Heq|Hne].
      - subst i. unfold rd in Hrd. erewrite upd_eq in E2; [|erewrite upd_eq; [reflexivity|exact Hrd]].
        injection E2 as <-. reflexivity.
      - erewrite upd_eq in E2; [|rewrite upd_ne by exact Hne; exact Hrd]. injection E2 as <-. reflexivity. }
    rewrite Ha. reflexivity.
Qed.
End DequeFromSource.
