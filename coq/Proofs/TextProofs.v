(* Lemmas about the byte-string vocabulary of Lib/Text.v. *)
From Gws Require Import Lib.Base Lib.Hex Lib.Text.
Local Open Scope N_scope.

Lemma bytes_eqb_refl a : bytes_eqb a a = true.
Proof. apply bytes_eqb_eq. reflexivity. Qed.

Lemma bytes_eqb_neq a b : bytes_eqb a b = false <-> a <> b.
Proof.
  split; intro H.
  - intro E. apply bytes_eqb_eq in E. congruence.
  - destruct (bytes_eqb a b) eqn:E; auto. apply bytes_eqb_eq in E. contradiction.
Qed.

Lemma is_nil_true {A} (l : list A) : is_nil l = true <-> l = [].
Proof. destruct l; cbn; split; congruence. Qed.

Lemma is_nil_false {A} (l : list A) : is_nil l = false <-> l <> [].
Proof. destruct l; cbn; split; congruence. Qed.

(* ---- prefix / substring ---- *)

Lemma prefixb_spec p : forall s, prefixb p s = true <-> exists b, s = p ++ b.
Proof.
  induction p as [|x p IH]; intro s; cbn.
  - split; eauto.
  - destruct s as [|y s]; cbn.
    + split; [discriminate|]. intros [b Hb]. discriminate.
    + rewrite andb_true_iff, N.eqb_eq, IH. split.
      * intros [-> [b ->]]. eauto.
      * intros [b Hb]. inversion Hb; subst. eauto.
Qed.

Lemma contains_spec pat : forall s, contains s pat = true <-> exists a b, s = a ++ pat ++ b.
Proof.
  induction s as [|c s IH].
  - cbn [contains]. rewrite orb_false_r, prefixb_spec. split.
    + intros [b Hb]. exists [], b. exact Hb.
    + intros [a [b Hab]]. destruct a; [eauto|discriminate].
  - cbn [contains]. rewrite orb_true_iff, prefixb_spec, IH. split.
    + intros [[b Hb]|[a [b Hab]]].
      * exists [], b. exact Hb.
      * exists (c :: a), b. cbn. congruence.
    + intros [a [b Hab]]. destruct a as [|x a]; cbn in Hab.
      * left. eauto.
      * right. inversion Hab; subst. eauto.
Qed.

(* ---- splitting ---- *)

Lemma split_on_cons sep s : exists h t, split_on sep s = h :: t.
Proof.
  induction s as [|c s [h [t IH]]]; cbn; eauto.
  destruct (c =? sep); eauto. rewrite IH. eauto.
Qed.

Lemma join_cons2 sep p q r : join sep (p :: q :: r) = p ++ sep :: join sep (q :: r).
Proof. reflexivity. Qed.

Lemma split_on_join sep s : join sep (split_on sep s) = s.
Proof.
  induction s as [|c s IH]; [reflexivity|]. cbn [split_on].
  destruct (split_on_cons sep s) as [h [t E]]. rewrite E in *.
  destruct (N.eqb_spec c sep) as [->|Hne].
  - rewrite join_cons2, IH. reflexivity.
  - destruct t as [|q r].
    + cbn [join] in *. congruence.
    + rewrite join_cons2 in *. rewrite <- IH. reflexivity.
Qed.

Lemma split_on_nosep sep s : Forall (fun p => ~ In sep p) (split_on sep s).
Proof.
  induction s as [|c s IH]; cbn [split_on].
  - constructor; auto.
  - destruct (split_on_cons sep s) as [h [t E]]. rewrite E in *. inversion IH; subst.
    destruct (N.eqb_spec c sep) as [->|Hne].
    + constructor; auto.
    + constructor; auto. intros [Hc|Hin]; auto.
Qed.

Lemma split_on_hd_prefix sep : forall s h t, split_on sep s = h :: t -> exists b, s = h ++ b.
Proof.
  induction s as [|d s IHs]; intros h t E; cbn [split_on] in E.
  - inversion E; subst. exists []. reflexivity.
  - destruct (split_on_cons sep s) as [h' [t' E']]. rewrite E' in E.
    destruct (d =? sep); inversion E; subst.
    + exists (d :: s). reflexivity.
    + destruct (IHs _ _ E') as [b ->]. exists b. reflexivity.
Qed.

Lemma split_on_piece_sub sep s : forall p, In p (split_on sep s) -> exists a b, s = a ++ p ++ b.
Proof.
  induction s as [|c s IH]; intros p Hin; cbn [split_on] in Hin.
  - destruct Hin as [<-|[]]. exists [], []. reflexivity.
  - destruct (split_on_cons sep s) as [h [t E]]. rewrite E in *.
    destruct (c =? sep).
    + destruct Hin as [<-|Hin].
      * exists [], (c :: s). reflexivity.
      * destruct (IH p Hin) as [a [b ->]]. exists (c :: a), b. reflexivity.
    + destruct Hin as [<-|Hin].
      * destruct (split_on_hd_prefix sep s h t E) as [b ->]. exists [], b. reflexivity.
      * destruct (IH p (or_intror Hin)) as [a [b ->]]. exists (c :: a), b. reflexivity.
Qed.

Lemma split_on_app_nosep sep p : ~ In sep p -> forall b,
  split_on sep (p ++ b) = (p ++ hd [] (split_on sep b)) :: tl (split_on sep b).
Proof.
  induction p as [|c p IH]; intros Hn b.
  - cbn [app]. destruct (split_on_cons sep b) as [h [t ->]]. reflexivity.
  - cbn [app split_on]. rewrite IH by (intro; apply Hn; right; assumption).
    destruct (N.eqb_spec c sep) as [->|_]; [exfalso; apply Hn; left; reflexivity|]. reflexivity.
Qed.

(* an occurrence of a separator-free pattern lies inside one piece *)
Lemma split_on_occurrence sep pat : ~ In sep pat -> forall a b,
  exists p a' b', In p (split_on sep (a ++ pat ++ b)) /\ p = a' ++ pat ++ b'.
Proof.
  intros Hn a. induction a as [|c a IH]; intro b.
  - cbn [app]. rewrite split_on_app_nosep by assumption.
    exists (pat ++ hd [] (split_on sep b)), [], (hd [] (split_on sep b)). split; [left|]; reflexivity.
  - destruct (IH b) as [p [a' [b' [Hin Hp]]]]. cbn [app split_on].
    destruct (split_on_cons sep (a ++ pat ++ b)) as [h [t E]]. rewrite E in *.
    destruct (c =? sep).
    + exists p, a', b'. split; [right; assumption|assumption].
    + destruct Hin as [<-|Hin].
      * exists (c :: h), (c :: a'), b'. split; [left; reflexivity|]. rewrite Hp. reflexivity.
      * exists p, a', b'. split; [right; assumption|assumption].
Qed.

Lemma split_on_map (f : N -> N) sep : (forall c, f c = sep <-> c = sep) -> forall s,
  split_on sep (map f s) = map (map f) (split_on sep s).
Proof.
  intros Hf. induction s as [|c s IH]; [reflexivity|]. cbn [map split_on]. rewrite IH.
  destruct (split_on_cons sep s) as [h [t ->]]. cbn [map].
  destruct (N.eqb_spec c sep) as [->|Hne].
  - replace (f sep =? sep) with true by (symmetry; apply N.eqb_eq, Hf; reflexivity). reflexivity.
  - replace (f c =? sep) with false; [reflexivity|]. symmetry. apply N.eqb_neq. intro E. destruct (Hf c) as [H1 _]. apply Hne, H1, E.
Qed.

(* ---- trimming ---- *)

Lemma trim_left_by_sub sp s : exists w, s = w ++ trim_left_by sp s /\ forallb sp w = true.
Proof.
  induction s as [|c s [w [Hw Hf]]]; cbn [trim_left_by].
  - exists []. split; reflexivity.
  - destruct (sp c) eqn:E.
    + exists (c :: w). cbn. rewrite E, Hf. split; [congruence|reflexivity].
    + exists []. split; reflexivity.
Qed.

Lemma trim_by_sub sp s : exists w1 w2, s = w1 ++ trim_by sp s ++ w2.
Proof.
  unfold trim_by. destruct (trim_left_by_sub sp s) as [w1 [H1 _]].
  destruct (trim_left_by_sub sp (rev (trim_left_by sp s))) as [w2 [H2 _]].
  exists w1, (rev w2). rewrite <- rev_app_distr, <- H2, rev_involutive. exact H1.
Qed.

Lemma trim_left_by_occ sp c pat : sp c = false -> forall a b,
  exists a', trim_left_by sp (a ++ (c :: pat) ++ b) = a' ++ (c :: pat) ++ b.
Proof.
  intros Hc a. induction a as [|x a IH]; intro b.
  - exists []. cbn. rewrite Hc. reflexivity.
  - cbn [app trim_left_by]. destruct (sp x).
    + apply IH.
    + exists (x :: a). reflexivity.
Qed.

(* an occurrence of a pattern whose first and last bytes are not trimmed survives trimming *)
Lemma trim_by_occ sp pat : pat <> [] -> sp (hd 0 pat) = false -> sp (last pat 0) = false -> forall a b,
  exists a' b', trim_by sp (a ++ pat ++ b) = a' ++ pat ++ b'.
Proof.
  intros Hne Hh Hl a b. destruct pat as [|c pat]; [contradiction|]. cbn [hd] in Hh.
  unfold trim_by. destruct (trim_left_by_occ sp c pat Hh a b) as [a' ->].
  rewrite !rev_app_distr.
  assert (Hr : exists d q, rev (c :: pat) = d :: q /\ sp d = false).
  { destruct (rev (c :: pat)) as [|d q] eqn:E.
    - apply (f_equal (@length N)) in E. rewrite rev_length in E. discriminate.
    - exists d, q. split; [reflexivity|].
      assert (E' : c :: pat = rev q ++ [d]) by (rewrite <- (rev_involutive (c :: pat)), E; reflexivity).
      rewrite E' in Hl. rewrite last_last in Hl. exact Hl. }
  destruct Hr as [d [q [Er Hd]]]. rewrite <- app_assoc, Er.
  destruct (trim_left_by_occ sp d q Hd (rev b) (rev a')) as [b' ->].
  exists a', (rev b'). rewrite !rev_app_distr, rev_involutive, <- Er, rev_involutive, <- app_assoc. reflexivity.
Qed.

Lemma trim_left_by_map (f : N -> N) sp : (forall c, sp (f c) = sp c) -> forall s,
  trim_left_by sp (map f s) = map f (trim_left_by sp s).
Proof.
  intros Hf. induction s as [|c s IH]; [reflexivity|]. cbn [map trim_left_by]. rewrite Hf.
  destruct (sp c); [exact IH|reflexivity].
Qed.

Lemma trim_by_map (f : N -> N) sp : (forall c, sp (f c) = sp c) -> forall s,
  trim_by sp (map f s) = map f (trim_by sp s).
Proof.
  intros Hf s. unfold trim_by. rewrite trim_left_by_map, <- map_rev, trim_left_by_map, map_rev by assumption. reflexivity.
Qed.

(* trimmed strings neither begin nor end with a trimmed byte *)
Lemma trim_left_by_hd sp s : match trim_left_by sp s with [] => True | c :: _ => sp c = false end.
Proof. induction s as [|c s IH]; cbn; auto. destruct (sp c) eqn:E; auto. Qed.

(* ---- letter case ---- *)

Lemma lower_idem c : lower (lower c) = lower c.
Proof. unfold lower, is_upper. destruct ((65 <=? c) && (c <=? 90)) eqn:E; [|rewrite E; reflexivity].
  destruct ((65 <=? c + 32) && (c + 32 <=? 90)) eqn:E2; [lia|reflexivity]. Qed.

Lemma lower_s_idem s : lower_s (lower_s s) = lower_s s.
Proof. unfold lower_s. rewrite map_map. apply map_ext, lower_idem. Qed.

Lemma lower_s_app a b : lower_s (a ++ b) = lower_s a ++ lower_s b.
Proof. apply map_app. Qed.

Lemma lower_eq_cases c d : lower c = lower d -> c = d \/ (is_upper c = true /\ d = c + 32) \/ (is_upper d = true /\ c = d + 32).
Proof. unfold lower, is_upper. destruct ((65 <=? c) && (c <=? 90)) eqn:E1, ((65 <=? d) && (d <=? 90)) eqn:E2; lia. Qed.

Lemma upper_of_lower_eq c d : lower c = lower d -> upper c = upper d.
Proof.
  intro H. destruct (lower_eq_cases c d H) as [->|[[Hu ->]|[Hu ->]]]; auto;
  unfold upper, is_lower, is_upper in *;
  [destruct ((97 <=? c) && (c <=? 122)) eqn:E1, ((97 <=? c + 32) && (c + 32 <=? 122)) eqn:E2
  |destruct ((97 <=? d) && (d <=? 122)) eqn:E1, ((97 <=? d + 32) && (d + 32 <=? 122)) eqn:E2]; lia.
Qed.

Lemma eq_nocase_spec a b : eq_nocase a b = true <-> lower_s a = lower_s b.
Proof. unfold eq_nocase. apply bytes_eqb_eq. Qed.

Lemma mem_spec x l : mem x l = true <-> In x l.
Proof.
  unfold mem. rewrite existsb_exists. split.
  - intros [y [Hin E]]. apply bytes_eqb_eq in E. subst. assumption.
  - intro H. exists x. split; [assumption|apply bytes_eqb_refl].
Qed.
