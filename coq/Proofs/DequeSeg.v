(* C20, part 1: list facts and the list-segment predicate (after design-spikes/SpikeDequeRepr.v).

   The proofs for C20 are split over three files:
   - Proofs/DequeSeg.v    `lseg es p l n`: the slots named by l form a doubly linked segment entered from p
                          and left towards n; splitting (lseg_app), framing, retargeting either end;
   - Proofs/DequeInv.v    `inv d l out`: l is linked from head to tail, the free stack holds distinct blank
                          slots disjoint from l, `out` are slots that are allocated but neither live nor free
                          (an element between getElement and its linking, or between doRemove and
                          putElement), and live + free + out cover every non-sentinel slot;
                          `repr d l := inv d l [] /\ dlen d = length l`; one lemma per primitive
                          (getElement, doPushBack, doPushFront, doRemove, putElement, autoReset);
   - Proofs/DequeProofs.v one lemma per API method, the one-step refinement `step_refines`, the folds
                          `run_refines` / `run_trace`, the observers and `handles_stable`. *)
From Gws Require Import Lib.Base Model.Deque Spec.PlainSeq.

Section DequeSeg.
Context {V : Type} (zero : V).

Notation elem := (elem V).
Notation dq := (dq V).
Notation seq := (seq V).
Notation template := (template zero).

(* ------------------------------------------------------------------ lists *)

Lemma NoDup_app_iff {A} (l1 l2 : list A) :
  NoDup (l1 ++ l2) <-> NoDup l1 /\ NoDup l2 /\ (forall x, In x l1 -> ~ In x l2).
Proof.
  induction l1 as [|a l1 IH]; simpl.
  - split; [intro H; repeat split; auto; constructor | tauto].
  - split.
    + intro H. inversion H as [|? ? Hn Hd]; subst. apply IH in Hd as (H1 & H2 & H3).
      rewrite in_app_iff in Hn. repeat split; auto.
      * constructor; tauto.
      * intros x [->|Hx]; [tauto | auto].
    + intros (H1 & H2 & H3). inversion H1 as [|? ? Hn Hd]; subst. constructor.
      * rewrite in_app_iff. intros [?|?]; [tauto | eapply H3; eauto].
      * apply IH. repeat split; auto.
Qed.

Lemma upd_length (es : list elem) i f : length (upd es i f) = length es.
Proof. revert i. induction es as [|e r IH]; intros [|i]; simpl; auto. Qed.

Lemma upd_eq (es : list elem) i f e :
  nth_error es i = Some e -> nth_error (upd es i f) i = Some (f e).
Proof. revert i. induction es as [|x r IH]; intros [|i]; simpl; try discriminate; auto. congruence. Qed.

Lemma upd_ne (es : list elem) i j f : i <> j -> nth_error (upd es i f) j = nth_error es j.
Proof.
  revert i j. induction es as [|x r IH]; intros [|i] [|j] H; simpl; auto; try congruence.
Qed.

Lemma nth_error_lt {A} (l : list A) i x : nth_error l i = Some x -> i < length l.
Proof. intro H. apply nth_error_Some. congruence. Qed.

Lemma nth_error_app_l {A} (l1 l2 : list A) i x : nth_error l1 i = Some x -> nth_error (l1 ++ l2) i = Some x.
Proof. intro H. rewrite nth_error_app1; [auto | eapply nth_error_lt; eauto]. Qed.

Lemma nth_error_snoc {A} (l : list A) x : nth_error (l ++ [x]) (length l) = Some x.
Proof. rewrite nth_error_app2 by lia. rewrite Nat.sub_diag. reflexivity. Qed.

(* ------------------------------------------------------------------ segments *)

Definition hd_or (n : nat) (l : seq) : nat := match l with [] => n | x :: _ => fst x end.
Definition last_or (p : nat) (l : seq) : nat := last (handles l) p.

Fixpoint lseg (es : list elem) (p : nat) (l : seq) (n : nat) : Prop :=
  match l with
  | [] => True
  | x :: r => fst x <> 0 /\ nth_error es (fst x) = Some (Elem p (fst x) (hd_or n r) (snd x)) /\ lseg es (fst x) r n
  end.

Lemma handles_app (l1 l2 : seq) : handles (l1 ++ l2) = handles l1 ++ handles l2.
Proof. apply map_app. Qed.

Lemma hd_or_app n (l1 l2 : seq) : hd_or n (l1 ++ l2) = hd_or (hd_or n l2) l1.
Proof. destruct l1; reflexivity. Qed.

Lemma last_or_cons p x (l : seq) : last_or p (x :: l) = last_or (fst x) l.
Proof.
  unfold last_or. simpl. destruct l as [|y r]; [reflexivity|]. simpl.
  generalize (fst y). revert p. generalize (fst x).
  induction r as [|z r IH]; intros; simpl; auto.
Qed.

Lemma last_or_snoc p (l : seq) x : last_or p (l ++ [x]) = fst x.
Proof. unfold last_or. rewrite handles_app. simpl. apply last_last. Qed.

Lemma last_or_app p (l1 l2 : seq) : last_or p (l1 ++ l2) = last_or (last_or p l1) l2.
Proof.
  revert p. induction l1 as [|x r IH]; intro p; [reflexivity|].
  rewrite <- app_comm_cons, !last_or_cons. apply IH.
Qed.

Lemma lseg_app es p (l1 l2 : seq) n :
  lseg es p (l1 ++ l2) n <-> lseg es p l1 (hd_or n l2) /\ lseg es (last_or p l1) l2 n.
Proof.
  revert p. induction l1 as [|x r IH]; intro p.
  - simpl. unfold last_or. simpl. tauto.
  - rewrite <- app_comm_cons. cbn [lseg]. rewrite hd_or_app, last_or_cons, IH. tauto.
Qed.

Lemma lseg_frame es p (l : seq) n a f :
  ~ In a (handles l) -> lseg es p l n -> lseg (upd es a f) p l n.
Proof.
  revert p. induction l as [|x r IH]; intros p Hn Hl; [exact I|].
  simpl in Hn. destruct Hl as (Hb & He & Hr). cbn [lseg]. repeat split; auto.
  rewrite upd_ne by (intro; subst; tauto). exact He.
Qed.

Lemma lseg_grow es p (l : seq) n es' : lseg es p l n -> lseg (es ++ es') p l n.
Proof.
  revert p. induction l as [|x r IH]; intros p Hl; [exact I|].
  destruct Hl as (Hb & He & Hr). cbn [lseg]. repeat split; auto. apply nth_error_app_l. exact He.
Qed.

Lemma lseg_bound es p (l : seq) n a : lseg es p l n -> In a (handles l) -> a <> 0 /\ a < length es.
Proof.
  revert p. induction l as [|x r IH]; intros p Hl Ha; [destruct Ha|].
  destruct Hl as (Hb & He & Hr). destruct Ha as [<-|Ha].
  - split; [auto | eapply nth_error_lt; eauto].
  - eapply IH; eauto.
Qed.

Lemma lseg_hd_ne es p (l : seq) n : lseg es p l n -> l <> [] -> hd_or n l <> 0.
Proof. destruct l as [|x r]; [congruence|]. intros (Hb & _) _. exact Hb. Qed.

Lemma exists_last' (l : seq) : l <> [] -> exists l' x, l = l' ++ [x].
Proof. intro H. destruct (exists_last H) as (l' & x & ->). eauto. Qed.

Lemma lseg_last_ne es p (l : seq) n : lseg es p l n -> l <> [] -> last_or p l <> 0.
Proof.
  intros Hl Hne. destruct (exists_last' l Hne) as (l' & x & ->). rewrite last_or_snoc.
  apply lseg_app in Hl as [_ Hl]. destruct Hl as (Hb & _). exact Hb.
Qed.

Lemma hd_or_in n (l : seq) : l <> [] -> In (hd_or n l) (handles l).
Proof. destruct l; [congruence|]. intros _. left. reflexivity. Qed.

Lemma last_or_in p (l : seq) : l <> [] -> In (last_or p l) (handles l).
Proof.
  intro Hne. destruct (exists_last' l Hne) as (l' & x & ->). rewrite last_or_snoc, handles_app.
  apply in_or_app. right. left. reflexivity.
Qed.

(* the slot of the last element of a non-empty segment *)
Lemma lseg_last_slot es p (l : seq) n : lseg es p l n -> l <> [] ->
  exists q v, nth_error es (last_or p l) = Some (Elem q (last_or p l) n v).
Proof.
  intros Hl Hne. destruct (exists_last' l Hne) as (l' & x & ->). rewrite last_or_snoc.
  apply lseg_app in Hl as [_ Hl]. destruct Hl as (_ & He & _). simpl in He. eauto.
Qed.

(* change where the segment's last element points *)
Lemma lseg_retarget es p (l : seq) n n' :
  l <> [] -> NoDup (handles l) -> lseg es p l n ->
  lseg (upd es (last_or p l) (set_next n')) p l n'.
Proof.
  intros Hne Hnd Hl. destruct (exists_last' l Hne) as (l' & x & ->).
  rewrite last_or_snoc. rewrite handles_app in Hnd. apply NoDup_app_iff in Hnd as (_ & _ & Hdis).
  apply lseg_app in Hl as [H1 H2]. destruct H2 as (Hb & He & _).
  apply lseg_app. split.
  - apply lseg_frame; [|exact H1]. intro Hin. apply (Hdis _ Hin). left. reflexivity.
  - cbn [lseg]. repeat split; auto. erewrite upd_eq by eauto. reflexivity.
Qed.

(* change where the segment is entered from *)
Lemma lseg_resource es p (l : seq) n p' :
  l <> [] -> NoDup (handles l) -> lseg es p l n ->
  lseg (upd es (hd_or n l) (set_prev p')) p' l n.
Proof.
  intros Hne Hnd Hl. destruct l as [|x r]; [congruence|]. simpl in Hnd.
  inversion Hnd as [|? ? Hxr _]; subst. destruct Hl as (Hb & He & Hr).
  cbn [lseg hd_or]. repeat split; auto.
  - erewrite upd_eq by eauto. reflexivity.
  - apply lseg_frame; auto.
Qed.

(* the value of one element changes *)
Lemma lseg_set_value es p (l1 l2 : seq) a v w n :
  NoDup (handles (l1 ++ (a, v) :: l2)) -> lseg es p (l1 ++ (a, v) :: l2) n ->
  lseg (upd es a (set_value w)) p (l1 ++ (a, w) :: l2) n.
Proof.
  intros Hnd Hl. rewrite handles_app in Hnd. apply NoDup_app_iff in Hnd as (_ & Hnd2 & Hdis).
  simpl in Hnd2. inversion Hnd2 as [|? ? Ha2 _]; subst.
  apply lseg_app in Hl as [H1 H2]. destruct H2 as (Hb & He & H2). simpl in Hb, He, H2.
  apply lseg_app. split.
  - apply lseg_frame; [|exact H1]. intro Hin. apply (Hdis _ Hin). left. reflexivity.
  - cbn [lseg]. simpl. repeat split; auto.
    + erewrite upd_eq by eauto. reflexivity.
    + apply lseg_frame; auto.
Qed.

Lemma lseg_lookup es p (l : seq) n a v : lseg es p l n -> In (a, v) l ->
  exists q m, nth_error es a = Some (Elem q a m v).
Proof.
  revert p. induction l as [|x r IH]; intros p Hl Hin; [destruct Hin|].
  destruct Hl as (Hb & He & Hr). destruct Hin as [->|Hin]; simpl in *; eauto.
Qed.

End DequeSeg.
