(* C06 (data clauses): the close-status logic of Model/CloseCode.v meets the reply table of Spec/CloseReply.v
   for every status code and every reason. *)
From Gws Require Import Lib.Base Model.CloseCode Spec.CloseReply Gen.Consts.
Local Open Scope N_scope.
Ltac Zify.zify_post_hook ::= Z.div_mod_to_equations.

Lemma status_bytes_be16 c : 0 < c -> c < 2 ^ 16 -> status_bytes c = be16 c.
Proof.
  intros H0 H1. unfold status_bytes, be16.
  replace (c =? 0) with false by lia.
  rewrite !N.shiftr_div_pow2, N.shiftl_mul_pow2.
  change (2 ^ 8) with 256 in *. change (2 ^ 16) with 65536 in *.
  f_equal; [|f_equal]; lia.
Qed.

Lemma status_bytes_0 : status_bytes 0 = [].
Proof. reflexivity. Qed.

Section Close.
Variable utf8_valid : list N -> bool.

Theorem close_reply_correct utf8_on body :
  wf_bytes body ->
  reply_ok utf8_on utf8_valid body (close_reply_body utf8_valid utf8_on body)
  /\ (let '(code, reason, _) := emit_close utf8_valid utf8_on body in (code, reason)) = peer_code_reason body.
Proof.
  intro Hw. unfold close_reply_body.
  destruct body as [|b0 [|b1 reason]].
  - cbn. split; reflexivity.
  - cbn [emit_close reply_ok peer_code_reason]. split; [|reflexivity].
    change sc_protocol with 1002. apply status_bytes_be16; cbn; lia.
  - inversion Hw as [|? ? Hb0 Hw']; subst. inversion Hw' as [|? ? Hb1 _]; subst. unfold byte_ok in *.
    change (2 ^ 8) with 256 in *.
    cbn [emit_close reply_ok peer_code_reason]. change (2 ^ 8) with 256.
    set (code := b0 * 256 + b1).
    assert (Hc : code < 65536) by (subst code; lia).
    split; [|reflexivity].
    unfold check_encoding8, forbidden_code, close_class.
    change sc_protocol with 1002. change sc_normal with 1000. change sc_unsupported_data with 1007.
    destruct utf8_on; cbn [andb negb].
    + destruct (utf8_valid reason); cbn [negb].
      * destruct ((code =? 1004) || (code =? 1005) || (code =? 1006) || (code =? 1015)) eqn:E1.
        -- left. split; [lia|]. apply status_bytes_be16; cbn; lia.
        -- destruct ((code <? 1000) || (5000 <=? code) || ((1016 <=? code) && (code <? 3000))) eqn:E2.
           ++ left. split; [lia|]. apply status_bytes_be16; cbn; lia.
           ++ right; right. split; [lia|]. split; [reflexivity|].
              destruct (code <? 1016) eqn:E3.
              ** replace ((3000 <=? code) && (code <=? 4999)) with false by lia. apply status_bytes_be16; cbn; lia.
              ** replace ((3000 <=? code) && (code <=? 4999)) with true by lia. apply status_bytes_be16; [lia|exact Hc].
      * right; left. split; [reflexivity|]. apply status_bytes_be16; cbn; lia.
    + destruct ((code =? 1004) || (code =? 1005) || (code =? 1006) || (code =? 1015)) eqn:E1.
      * left. split; [lia|]. apply status_bytes_be16; cbn; lia.
      * destruct ((code <? 1000) || (5000 <=? code) || ((1016 <=? code) && (code <? 3000))) eqn:E2.
        -- left. split; [lia|]. apply status_bytes_be16; cbn; lia.
        -- right; right. split; [lia|]. split; [reflexivity|].
           destruct (code <? 1016) eqn:E3.
           ++ replace ((3000 <=? code) && (code <=? 4999)) with false by lia. apply status_bytes_be16; cbn; lia.
           ++ replace ((3000 <=? code) && (code <=? 4999)) with true by lia. apply status_bytes_be16; [lia|exact Hc].
Qed.
End Close.

(* a locally requested close: the caller's status (at least 1000) and the reason cut to 123 bytes; at most 125 bytes *)
Theorem local_close_correct code reason : code < 2 ^ 16 ->
  local_close_body code reason = local_close_spec code reason /\ (length (local_close_body code reason) <= 125)%nat.
Proof.
  intro Hc. unfold local_close_body, local_close_spec, truncate_body.
  change (Z.to_nat internal_ThresholdV1) with 125%nat.
  assert (E : status_bytes (if code <? 1000 then 1000 else code) = be16 (N.max code 1000)).
  { destruct (code <? 1000) eqn:E.
    - replace (N.max code 1000) with 1000 by lia. reflexivity.
    - replace (N.max code 1000) with code by lia. apply status_bytes_be16; lia. }
  rewrite E. unfold be16. cbn [app].
  change (firstn 125 (N.max code 1000 / 256 :: N.max code 1000 mod 256 :: reason))
    with (N.max code 1000 / 256 :: N.max code 1000 mod 256 :: firstn 123 reason).
  split; [reflexivity|].
  cbn [length]. pose proof (firstn_le_length 123 reason). lia.
Qed.

(* a close caused by an error: the status the error class maps to (never 0, so two bytes), then the error text, at most
   125 bytes in all - whatever the length of the text *)
Theorem error_close_correct reading e text :
  let st := emit_error_status reading e in
  0 < st < 2 ^ 16 ->
  error_close_body reading e text = error_close_spec st text /\ (length (error_close_body reading e text) <= 125)%nat.
Proof.
  intros st Hst. unfold error_close_body, error_close_spec, truncate_body. fold st.
  change (Z.to_nat internal_ThresholdV1) with 125%nat.
  rewrite (status_bytes_be16 st) by lia. unfold be16. cbn [app].
  change (firstn 125 (st / 256 :: st mod 256 :: text)) with (st / 256 :: st mod 256 :: firstn 123 text).
  split; [reflexivity|].
  cbn [length]. pose proof (firstn_le_length 123 text). lia.
Qed.

(* the statuses emitError can choose for the errors gws itself raises are all in range *)
Lemma emit_error_status_range reading e :
  (match e with EStatus c | ECoded c => 0 < c < 2 ^ 16 | EOther => True end) ->
  0 < emit_error_status reading e < 2 ^ 16.
Proof.
  intro H. unfold emit_error_status. destruct reading.
  - destruct e; try exact H. vm_compute. split; reflexivity.
  - vm_compute. split; reflexivity.
Qed.
