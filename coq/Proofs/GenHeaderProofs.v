(* frameHeader accessors, SetLength, GenerateHeader, Opcode.isDataFrame (types.go) *)
From Gws Require Import Lib.Base Spec.Rfc6455 Gen.Consts Gen.Funcs Proofs.GenBase.
From Coq Require Import ZifyN ZifyNat ZifyBool.
Local Open Scope Z_scope.
From Gws Require Import Model.Header Model.Writer.

(* ---- frameHeader accessors (types.go) on a header byte ---- *)
Lemma gen_GetFIN_is b : (b < 256)%N -> gf_gws_frameHeader_GetFIN (Z.of_N b) = get_fin b.
Proof. intro H. apply Bool.eqb_prop. revert b H. apply (range_forall (fun b => Bool.eqb (gf_gws_frameHeader_GetFIN (Z.of_N b)) (get_fin b)) 256). vm_compute. reflexivity. Qed.

Lemma gen_GetRSV1_is b : (b < 256)%N -> gf_gws_frameHeader_GetRSV1 (Z.of_N b) = get_rsv1 b.
Proof. intro H. apply Bool.eqb_prop. revert b H. apply (range_forall (fun b => Bool.eqb (gf_gws_frameHeader_GetRSV1 (Z.of_N b)) (get_rsv1 b)) 256). vm_compute. reflexivity. Qed.

Lemma gen_GetRSV2_is b : (b < 256)%N -> gf_gws_frameHeader_GetRSV2 (Z.of_N b) = get_rsv2 b.
Proof. intro H. apply Bool.eqb_prop. revert b H. apply (range_forall (fun b => Bool.eqb (gf_gws_frameHeader_GetRSV2 (Z.of_N b)) (get_rsv2 b)) 256). vm_compute. reflexivity. Qed.

Lemma gen_GetRSV3_is b : (b < 256)%N -> gf_gws_frameHeader_GetRSV3 (Z.of_N b) = get_rsv3 b.
Proof. intro H. apply Bool.eqb_prop. revert b H. apply (range_forall (fun b => Bool.eqb (gf_gws_frameHeader_GetRSV3 (Z.of_N b)) (get_rsv3 b)) 256). vm_compute. reflexivity. Qed.

Lemma gen_GetMask_is b : (b < 256)%N -> gf_gws_frameHeader_GetMask (Z.of_N b) = get_mask b.
Proof. intro H. apply Bool.eqb_prop. revert b H. apply (range_forall (fun b => Bool.eqb (gf_gws_frameHeader_GetMask (Z.of_N b)) (get_mask b)) 256). vm_compute. reflexivity. Qed.

Lemma gen_GetOpcode_is b : (b < 256)%N -> gf_gws_frameHeader_GetOpcode (Z.of_N b) = Z.of_N (get_opcode b).
Proof. intro H. apply Z.eqb_eq. revert b H. apply (range_forall (fun b => gf_gws_frameHeader_GetOpcode (Z.of_N b) =? Z.of_N (get_opcode b)) 256). vm_compute. reflexivity. Qed.

Lemma gen_GetLengthCode_is b : (b < 256)%N -> gf_gws_frameHeader_GetLengthCode (Z.of_N b) = Z.of_N (get_lencode b).
Proof. intro H. apply Z.eqb_eq. revert b H. apply (range_forall (fun b => gf_gws_frameHeader_GetLengthCode (Z.of_N b) =? Z.of_N (get_lencode b)) 256). vm_compute. reflexivity. Qed.

(* ---- SetLength: the branch structure (thresholds, comparison operators) and the offsets returned ---- *)
Lemma be_store_length k v : length (be_store k v) = k.
Proof. revert v. induction k as [|k IH]; intro v; [reflexivity|]. cbn [be_store]. rewrite app_length, IH. cbn. lia. Qed.

Lemma gen_SetLength_is n : gf_gws_frameHeader_SetLength (Z.of_N n) = Z.of_nat (length (snd (set_length n))).
Proof.
  unfold gf_gws_frameHeader_SetLength, set_length, thresholdV1, thresholdV2.
  change (Z.to_N internal_ThresholdV1) with 125%N. change (Z.to_N internal_ThresholdV2) with 65535%N.
  destruct (n <=? 125)%N eqn:E1.
  - replace (Z.of_N n <=? 125) with true by lia. reflexivity.
  - replace (Z.of_N n <=? 125) with false by lia. destruct (n <=? 65535)%N eqn:E2.
    + replace (Z.of_N n <=? 65535) with true by lia. cbn [snd]. rewrite be_store_length. reflexivity.
    + replace (Z.of_N n <=? 65535) with false by lia. cbn [snd]. rewrite be_store_length. reflexivity.
Qed.

(* the length code that goes with each branch (the Go code adds it to byte 1 next to the return) is the model's *)
Lemma set_length_code n : (n < 2 ^ 64)%N ->
  fst (set_length n) = (if (n <=? 125)%N then n else if (n <=? 65535)%N then 126 else 127)%N.
Proof.
  intro H. unfold set_length, thresholdV1, thresholdV2.
  change (Z.to_N internal_ThresholdV1) with 125%N. change (Z.to_N internal_ThresholdV2) with 65535%N.
  destruct (n <=? 125)%N eqn:E1; [cbn [fst]; apply N.mod_small; change (2 ^ 8)%N with 256%N; lia|].
  destruct (n <=? 65535)%N; reflexivity.
Qed.

(* ---- Opcode.isDataFrame ---- *)
Lemma gen_isDataFrame_is op : gf_gws_Opcode_isDataFrame (Z.of_N op) = is_data op.
Proof. unfold gf_gws_Opcode_isDataFrame, is_data. lia. Qed.

(* ---- GenerateHeader: the first header byte (opcode, FIN = 128, RSV1 = 64) ---- *)
Lemma gen_header_b0_is server fin compress op len key : (op < 256)%N ->
  Z.of_N (hd 0%N (generate_header server fin compress op len key))
  = gf_gws_frameHeader_GenerateHeader_b0 server fin compress (Z.of_N op) len.
Proof.
  intro H. unfold generate_header, gf_gws_frameHeader_GenerateHeader_b0.
  destruct (set_length (u64_of_int len)) as [lc ext]. change (2 ^ 8)%N with 256%N.
  destruct server; cbn [app hd]; destruct fin, compress; cbn zeta; lia.
Qed.

Theorem header_accessors_from_source b : (b < 256)%N ->
  gf_gws_frameHeader_GetFIN (Z.of_N b) = get_fin b /\ gf_gws_frameHeader_GetRSV1 (Z.of_N b) = get_rsv1 b
  /\ gf_gws_frameHeader_GetRSV2 (Z.of_N b) = get_rsv2 b /\ gf_gws_frameHeader_GetRSV3 (Z.of_N b) = get_rsv3 b
  /\ gf_gws_frameHeader_GetOpcode (Z.of_N b) = Z.of_N (get_opcode b)
  /\ gf_gws_frameHeader_GetMask (Z.of_N b) = get_mask b /\ gf_gws_frameHeader_GetLengthCode (Z.of_N b) = Z.of_N (get_lencode b).
Proof.
  intro H. repeat split; [apply gen_GetFIN_is|apply gen_GetRSV1_is|apply gen_GetRSV2_is|apply gen_GetRSV3_is|apply gen_GetOpcode_is
                         |apply gen_GetMask_is|apply gen_GetLengthCode_is]; exact H.
Qed.

Theorem header_writer_from_source n op :
  gf_gws_frameHeader_SetLength (Z.of_N n) = Z.of_nat (length (snd (set_length n)))
  /\ gf_gws_Opcode_isDataFrame (Z.of_N op) = is_data op.
Proof. split; [apply gen_SetLength_is|apply gen_isDataFrame_is]. Qed.
