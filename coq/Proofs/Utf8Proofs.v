(* C16 lemmas, part 4: the characterisation of Model.utf8_valid by RFC 3629, and the gates built on it
   (CheckEncoding, Bytes/Buffers.CheckEncoding, genFrame, emitMessage, emitClose). *)
From Gws Require Import Lib.Base Model.Utf8 Spec.Rfc3629 Proofs.Utf8Loop Proofs.Utf8Digits Proofs.Utf8Encode Proofs.Utf8Decode.
Local Open Scope N_scope.

(* ---- the validator is RFC 3629 ---- *)
Lemma valid_s_iff_rfc3629 b :
  valid_s b = true <-> exists cps, Forall scalar cps /\ b = concat (map utf8_encode cps).
Proof.
  split.
  - apply (valid_s_decode (length b)). lia.
  - intros (cps & Hs & ->). apply valid_s_encode_all. exact Hs.
Qed.

Lemma utf8_valid_iff_rfc3629 b : wf_bytes b ->
  (utf8_valid b = true <-> exists cps, Forall scalar cps /\ b = concat (map utf8_encode cps)).
Proof. intro Hw. rewrite utf8_valid_s by exact Hw. apply valid_s_iff_rfc3629. Qed.

Lemma utf8_valid_total b : wf_bytes b -> utf8_valid_opt b = Some (utf8_valid b).
Proof. intro Hw. unfold utf8_valid. rewrite utf8_valid_opt_s by exact Hw. reflexivity. Qed.

(* the fast path is an optimisation only *)
Lemma utf8_valid_fast_path b : wf_bytes b -> utf8_valid b = utf8_valid_slow b.
Proof. intro Hw. rewrite utf8_valid_s by exact Hw. rewrite utf8_valid_slow_s. reflexivity. Qed.

(* encodings are byte strings; so every RFC-well-formed string is within the theorem's hypothesis *)
Lemma utf8_encode_wf cp : scalar cp -> wf_bytes (utf8_encode cp).
Proof.
  intros [Hmax _]. unfold utf8_encode, wf_bytes, byte_ok.
  destruct (N.leb_spec cp 0x7F); [repeat constructor; lia|].
  destruct (N.leb_spec cp 0x7FF).
  { destruct (split2 cp) as (a & b & Hb & E). subst cp.
    destruct (digits2 a b Hb) as [Ea Eb]. cbv zeta in Ea, Eb. rewrite Ea, Eb. repeat constructor; lia. }
  destruct (N.leb_spec cp 0xFFFF).
  { destruct (split3 cp) as (a & b & c & Hb & Hc & E). subst cp.
    destruct (digits3 a b c Hb Hc) as (Ea & Eb & Ec). cbv zeta in Ea, Eb, Ec. rewrite Ea, Eb, Ec.
    repeat constructor; lia. }
  destruct (split4 cp) as (a & b & c & d & Hb & Hc & Hd & E). subst cp.
  destruct (digits4 a b c d Hb Hc Hd) as (Ea & Eb & Ec & Ed). cbv zeta in Ea, Eb, Ec, Ed.
  rewrite Ea, Eb, Ec, Ed. repeat constructor; lia.
Qed.

Lemma encode_all_wf cps : Forall scalar cps -> wf_bytes (concat (map utf8_encode cps)).
Proof.
  induction cps as [|cp cps IH]; intro H; [constructor|]. inversion H; subst.
  cbn [map concat]. apply Forall_app. split; [apply utf8_encode_wf; assumption|apply IH; assumption].
Qed.

(* well-formedness is closed under concatenation, and (being a grammar of self-delimiting sequences)
   validity of a concatenation of valid pieces *)
Lemma valid_s_app a b : valid_s a = true -> valid_s b = true -> valid_s (a ++ b) = true.
Proof.
  intros Ha Hb. apply valid_s_iff_rfc3629 in Ha as (ca & Hsa & ->). apply valid_s_iff_rfc3629 in Hb as (cb & Hsb & ->).
  apply valid_s_iff_rfc3629. exists (ca ++ cb). split; [apply Forall_app; split; assumption|].
  rewrite map_app, concat_app. reflexivity.
Qed.

(* ---- CheckEncoding and the slice forms ---- *)
Lemma check_encoding_gate enabled op p :
  check_encoding enabled op p = true <-> (enabled = false \/ (op <> 1 /\ op <> 8) \/ utf8_valid p = true).
Proof.
  unfold check_encoding. destruct enabled; cbn [andb].
  - destruct (N.eqb_spec op 1) as [E1|E1]; cbn [orb].
    + split; [intro H; right; right; exact H|intros [H|[[H _]|H]]; [discriminate|contradiction|exact H]].
    + destruct (N.eqb_spec op 8) as [E8|E8].
      * split; [intro H; right; right; exact H|intros [H|[[_ H]|H]]; [discriminate|contradiction|exact H]].
      * split; [intros _; right; left; split; assumption|reflexivity].
  - split; [intros _; left; reflexivity|reflexivity].
Qed.

Lemma buffers_check_whole enabled op slices :
  buffers_check enabled op slices = check_encoding enabled op (concat slices).
Proof.
  unfold buffers_check, check_encoding.
  destruct slices as [|x [|y r]]; try reflexivity.
  cbn [concat]. rewrite app_nil_r. reflexivity.
Qed.

Lemma buffers_check_text slices : buffers_check true 1 slices = utf8_valid (concat slices).
Proof. rewrite buffers_check_whole. reflexivity. Qed.

Lemma write_gate_buffers_iff enabled op slices :
  write_gate_buffers enabled op slices = true <->
  (enabled = false \/ op <> 1 \/ utf8_valid (concat slices) = true).
Proof.
  unfold write_gate_buffers. rewrite buffers_check_whole.
  destruct (N.eqb_spec op 1) as [E|E]; cbn [andb negb].
  - rewrite negb_involutive, check_encoding_gate. subst op.
    split; [intros [H|[[H _]|H]]; [left; exact H|contradiction|right; right; exact H]
           |intros [H|[H|H]]; [left; exact H|contradiction|right; right; exact H]].
  - split; [intros _; right; left; exact E|reflexivity].
Qed.

Lemma write_gate_bytes_buffers enabled op p : write_gate_bytes enabled op p = write_gate_buffers enabled op [p].
Proof. reflexivity. Qed.

Lemma read_gate_iff enabled op p :
  (read_gate enabled op p = None <-> (enabled = false \/ (op <> 1 /\ op <> 8) \/ utf8_valid p = true))
  /\ (read_gate enabled op p <> None -> read_gate enabled op p = Some 1007).
Proof.
  unfold read_gate. rewrite <- check_encoding_gate.
  destruct (check_encoding enabled op p).
  - split; [split; reflexivity|intro H; contradiction].
  - split; [split; intro; discriminate|intro; reflexivity].
Qed.

Lemma close_response_1007_iff enabled code reason :
  close_response_code enabled code reason = 1007 <-> (enabled = true /\ utf8_valid reason = false).
Proof.
  unfold close_response_code, check_encoding, CloseUnsupportedData.
  destruct enabled; cbn [andb orb N.eqb Pos.eqb negb].
  - destruct (utf8_valid reason); cbn [negb].
    + split; [|intros [_ H]; discriminate]. bdec; intro; lia.
    + split; [intros _; split; reflexivity|reflexivity].
  - split; [|intros [H _]; discriminate]. bdec; intro; lia.
Qed.

(* the pre-fix rule: sound (every accepted slicing is valid as a whole) but it rejects valid messages *)
Lemma prefix_rule_sound slices : Forall wf_bytes slices ->
  buffers_check_prefix true 1 slices = true -> utf8_valid (concat slices) = true.
Proof.
  intros Hw H. rewrite utf8_valid_s by (apply Forall_concat; exact Hw).
  induction slices as [|x r IH]; [reflexivity|].
  inversion Hw; subst. cbn [buffers_check_prefix forallb] in H. apply andb_true_iff in H as [Hx Hr].
  cbn [concat]. apply valid_s_app.
  - unfold check_encoding in Hx. cbn in Hx. rewrite <- utf8_valid_s by assumption. exact Hx.
  - apply IH; assumption.
Qed.
