(* Spec-level facts about RFC 6455 framing: big-endian fields, decode (encode f ++ rest) = f. *)
From Gws Require Import Lib.Base Spec.MaskSpec Spec.Rfc6455.
Local Open Scope N_scope.
Ltac Zify.zify_post_hook ::= Z.div_mod_to_equations.

Lemma be_load_app a b : be_load (a ++ [b]) = be_load a * 2 ^ 8 + b.
Proof. unfold be_load. rewrite fold_left_app. reflexivity. Qed.

Lemma be_store_length k : forall v, length (be_store k v) = k.
Proof. induction k as [|k IH]; intro v; cbn [be_store]; [reflexivity|]. rewrite app_length, IH. cbn. lia. Qed.

Lemma be_store_wf k : forall v, wf_bytes (be_store k v).
Proof.
  induction k as [|k IH]; intro v; cbn [be_store]; [constructor|].
  apply Forall_app; split; [apply IH|]. constructor; [|constructor].
  unfold byte_ok. apply N.mod_lt. discriminate.
Qed.

Lemma be_load_store k : forall v, v < 2 ^ (8 * N.of_nat k) -> be_load (be_store k v) = v.
Proof.
  induction k as [|k IH]; intros v Hv; cbn [be_store].
  - cbn in Hv. unfold be_load. cbn. lia.
  - rewrite be_load_app, IH.
    + pose proof (N.div_mod v (2 ^ 8)). lia.
    + replace (8 * N.of_nat (S k)) with (8 + 8 * N.of_nat k) in Hv by lia.
      rewrite N.pow_add_r in Hv. apply N.div_lt_upper_bound; [discriminate|]. exact Hv.
Qed.

Definition frame_wf (f : frame) : Prop :=
  f_op f < 16 /\ wf_bytes (f_payload f) /\
  (if f_masked f then length (f_key f) = 4%nat /\ wf_bytes (f_key f) else f_key f = []).

Definition lenform_ok (lf : lenform) (n : N) : Prop :=
  match lf with LShortest => True | L16 => n <= 65535 | L64 => True end.

Definition minimal_of (lf : lenform) (n : N) : bool :=
  match lf with LShortest => true | L16 => 125 <? n | L64 => 65535 <? n end.

Lemma firstn_app_exact {A} (a b : list A) n : n = length a -> firstn n (a ++ b) = a.
Proof. intros ->. rewrite firstn_app, Nat.sub_diag, firstn_all. cbn. apply app_nil_r. Qed.

Lemma skipn_app_exact {A} (a b : list A) n : n = length a -> skipn n (a ++ b) = b.
Proof. intros ->. rewrite skipn_app, Nat.sub_diag, skipn_all. reflexivity. Qed.

Lemma mask_spec_involutive key b : mask_spec key (mask_spec key b) = b.
Proof.
  unfold mask_spec. generalize 0 as i. induction b as [|x b IH]; intro i; cbn [mask_from]; [reflexivity|].
  rewrite IH. f_equal. rewrite N.lxor_assoc, N.lxor_nilpotent, N.lxor_0_r. reflexivity.
Qed.

Lemma mask_spec_length key b : length (mask_spec key b) = length b.
Proof. unfold mask_spec. generalize 0 as i. induction b as [|x b IH]; intro i; cbn [mask_from length]; auto. Qed.

Lemma header_bits fin r1 r2 r3 op :
  op < 16 ->
  let b0 := 128 * b2n fin + 64 * b2n r1 + 32 * b2n r2 + 16 * b2n r3 + op in
  (128 <=? b0) = fin /\ N.testbit b0 6 = r1 /\ N.testbit b0 5 = r2 /\ N.testbit b0 4 = r3 /\ b0 mod 16 = op.
Proof.
  intros Hop b0. subst b0. rewrite !N.testbit_eqb.
  change (2 ^ 6) with 64. change (2 ^ 5) with 32. change (2 ^ 4) with 16.
  destruct fin, r1, r2, r3; cbn [b2n]; repeat split; lia.
Qed.

Theorem decode_encode lf f rest :
  frame_wf f -> lenform_ok lf (N.of_nat (length (f_payload f))) ->
  N.of_nat (length (f_payload f)) < 2 ^ 63 ->
  decode_frame (encode_frame lf f ++ rest) = DFrame f (minimal_of lf (N.of_nat (length (f_payload f)))) rest.
Proof.
  intros (Hop & Hp & Hk) Hlf Hn.
  set (n := N.of_nat (length (f_payload f))) in *.
  destruct f as [fin r1 r2 r3 op masked key payload]. cbn [f_fin f_rsv1 f_rsv2 f_rsv3 f_op f_masked f_key f_payload] in *.
  unfold encode_frame. cbn [f_fin f_rsv1 f_rsv2 f_rsv3 f_op f_masked f_key f_payload]. fold n.
  destruct (header_bits fin r1 r2 r3 op Hop) as (Hfin & H1 & H2 & H3 & Hopm).
  (* the three length classes *)
  assert (Hlen : exists lc ext,
     len_field lf n = (lc, ext) /\ lc < 128 /\
     ((lc <= 125 /\ ext = [] /\ lc = n /\ minimal_of lf n = true)
      \/ (lc = 126 /\ ext = be_store 2 n /\ n <= 65535 /\ minimal_of lf n = (125 <? n))
      \/ (lc = 127 /\ ext = be_store 8 n /\ minimal_of lf n = (65535 <? n)))).
  { destruct lf; cbn [len_field minimal_of lenform_ok] in *.
    - destruct (N.leb_spec n 125).
      + exists n, []. split; [reflexivity|]. split; [lia|]. left. repeat split; lia.
      + destruct (N.leb_spec n 65535).
        * exists 126, (be_store 2 n). split; [reflexivity|]. split; [lia|]. right; left. repeat split; lia.
        * exists 127, (be_store 8 n). split; [reflexivity|]. split; [lia|]. right; right. repeat split; lia.
    - exists 126, (be_store 2 n). split; [reflexivity|]. split; [lia|]. right; left. repeat split; lia.
    - exists 127, (be_store 8 n). split; [reflexivity|]. split; [lia|]. right; right. repeat split. }
  destruct Hlen as (lc & ext & -> & Hlc & Hcases).
  cbn [app]. unfold decode_frame.
  set (b0 := 128 * b2n fin + 64 * b2n r1 + 32 * b2n r2 + 16 * b2n r3 + op) in *.
  assert (Hb1m : (128 * b2n masked + lc) mod 128 = lc) by (destruct masked; cbn [b2n]; lia).
  assert (Hb1k : (128 <=? 128 * b2n masked + lc) = masked) by (destruct masked; cbn [b2n]; lia).
  rewrite Hb1m, Hb1k, Hfin, H1, H2, H3, Hopm.
  (* body after the length extension *)
  assert (Hbody : forall r1', 
     (if 2 ^ 63 <=? n then DBad else
      match (if masked then (if (4 <=? length r1')%nat then Some (firstn 4 r1', skipn 4 r1') else None) else Some ([], r1')) with
      | None => DNeedMore
      | Some (key0, r2') =>
          if N.of_nat (length r2') <? n then DNeedMore else
          DFrame {| f_fin := fin; f_rsv1 := r1; f_rsv2 := r2; f_rsv3 := r3; f_op := op; f_masked := masked; f_key := key0;
                    f_payload := if masked then mask_spec key0 (firstn (N.to_nat n) r2') else firstn (N.to_nat n) r2' |}
                 (minimal_of lf n) (skipn (N.to_nat n) r2')
      end) = DFrame {| f_fin := fin; f_rsv1 := r1; f_rsv2 := r2; f_rsv3 := r3; f_op := op; f_masked := masked; f_key := key; f_payload := payload |} (minimal_of lf n) rest ->
     True) by auto.
  clear Hbody.
  assert (Hfinal : forall m,
     (if 2 ^ 63 <=? n then DBad else
      match (if masked then (if (4 <=? length ((if masked then key ++ mask_spec key payload else payload) ++ rest))%nat
                             then Some (firstn 4 ((if masked then key ++ mask_spec key payload else payload) ++ rest),
                                        skipn 4 ((if masked then key ++ mask_spec key payload else payload) ++ rest)) else None)
             else Some ([], (if masked then key ++ mask_spec key payload else payload) ++ rest)) with
      | None => DNeedMore
      | Some (key0, r2') =>
          if N.of_nat (length r2') <? n then DNeedMore else
          DFrame {| f_fin := fin; f_rsv1 := r1; f_rsv2 := r2; f_rsv3 := r3; f_op := op; f_masked := masked; f_key := key0;
                    f_payload := if masked then mask_spec key0 (firstn (N.to_nat n) r2') else firstn (N.to_nat n) r2' |}
                 m (skipn (N.to_nat n) r2')
      end) = DFrame {| f_fin := fin; f_rsv1 := r1; f_rsv2 := r2; f_rsv3 := r3; f_op := op; f_masked := masked; f_key := key; f_payload := payload |} m rest).
  { intro m. replace (2 ^ 63 <=? n) with false by (symmetry; apply N.leb_gt; exact Hn).
    assert (Hnn : N.to_nat n = length payload) by (subst n; lia).
    destruct masked.
    - destruct Hk as (Hkl & Hkw).
      rewrite <- app_assoc.
      replace (4 <=? length (key ++ mask_spec key payload ++ rest))%nat with true
        by (symmetry; apply Nat.leb_le; rewrite app_length; lia).
      rewrite firstn_app_exact, skipn_app_exact by (symmetry; exact Hkl).
      replace (N.of_nat (length (mask_spec key payload ++ rest)) <? n) with false
        by (symmetry; apply N.ltb_ge; rewrite app_length, mask_spec_length; subst n; lia).
      rewrite Hnn. rewrite firstn_app_exact, skipn_app_exact by (rewrite mask_spec_length; reflexivity).
      rewrite mask_spec_involutive. reflexivity.
    - subst key.
      replace (N.of_nat (length (payload ++ rest)) <? n) with false
        by (symmetry; apply N.ltb_ge; rewrite app_length; subst n; lia).
      rewrite Hnn. rewrite firstn_app_exact, skipn_app_exact by reflexivity. reflexivity. }
  destruct Hcases as [(Hle & -> & Hlcn & Hmin) | [(-> & -> & Hle & Hmin) | (-> & -> & Hmin)]].
  - (* 7-bit *)
    replace (lc =? 126) with false by (symmetry; apply N.eqb_neq; lia).
    replace (lc =? 127) with false by (symmetry; apply N.eqb_neq; lia).
    cbn [app]. rewrite Hlcn, Hmin. apply Hfinal.
  - (* 16-bit *)
    cbn [N.eqb Pos.eqb].
    rewrite <- app_assoc.
    replace (2 <=? length (be_store 2 n ++ (if masked then key ++ mask_spec key payload else payload) ++ rest))%nat with true
      by (symmetry; apply Nat.leb_le; rewrite app_length, be_store_length; lia).
    rewrite firstn_app_exact, skipn_app_exact by (rewrite be_store_length; reflexivity).
    rewrite be_load_store by (cbn; lia). rewrite Hmin. apply Hfinal.
  - (* 64-bit *)
    cbn [N.eqb Pos.eqb].
    rewrite <- app_assoc.
    replace (8 <=? length (be_store 8 n ++ (if masked then key ++ mask_spec key payload else payload) ++ rest))%nat with true
      by (symmetry; apply Nat.leb_le; rewrite app_length, be_store_length; lia).
    rewrite firstn_app_exact, skipn_app_exact by (rewrite be_store_length; reflexivity).
    rewrite be_load_store by (cbn; lia). rewrite Hmin. apply Hfinal.
Qed.
