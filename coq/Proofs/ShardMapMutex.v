(* C19, concurrent layer: lock discipline of the model.  A thread is inside the critical section of
   shard i only while it owns lock i; two threads are never inside the same shard at once. *)
From Gws Require Import Lib.Base Model.ShardMap Proofs.ShardMapConc.

Definition holds (ts : tstate) (i : nat) : Prop :=
  match ts with Run fr => f_shard fr = i /\ f_stage fr <> WantLock | _ => False end.

Section Mutex.
Variable ix : N -> nat.
Variable n : nat.
Variable progs : nat -> list op.

Definition mutex_inv (st : state) : Prop :=
  forall t i, holds (t_st (threads st t)) i -> locks st i = Some t.

Lemma after_unlock_not_holds id o i a j : ~ holds (after_unlock n id o i a) j.
Proof.
  unfold after_unlock. destruct o; cbn [holds]; try tauto.
  - destruct (S i <? n); cbn [holds f_stage]; tauto.
  - destruct a; cbn [holds]; try tauto. destruct next; cbn [holds]; try tauto.
    destruct (S i <? n); cbn [holds f_stage]; tauto.
Qed.

Lemma step_mutex st st' : mutex_inv st -> step ix n st st' -> mutex_inv st'.
Proof.
  intros HI Hs. inversion Hs; subst; unfold mutex_inv in *; cbn [shards trace threads locks] in *;
    intros t' j Hh; destruct (Nat.eq_dec t' t) as [->|Hne];
    try (rewrite set_eq in Hh; cbn in Hh); try (rewrite set_neq in Hh by auto).
  - destruct Hh as [_ Hh]. congruence.
  - auto.
  - destruct Hh as [<- _]. apply set_eq.
  - destruct (Nat.eq_dec j i) as [->|Hj]; [|rewrite set_neq by auto; auto].
    apply HI in Hh. congruence.
  - destruct Hh as [<- _]. apply HI. rewrite H. cbn. split; [reflexivity|discriminate].
  - auto.
  - exfalso. eapply after_unlock_not_holds; eauto.
  - destruct (Nat.eq_dec j i) as [->|Hj]; [|rewrite set_neq by auto; auto].
    apply HI in Hh. assert (Ht : L i = Some t) by (apply HI; rewrite H; cbn; split; [reflexivity|discriminate]).
    congruence.
  - tauto.
  - auto.
Qed.

Lemma reach_mutex st : reach ix n progs st -> mutex_inv st.
Proof.
  induction 1; [|eapply step_mutex; eauto]. intros t i Hh. cbn in Hh. tauto.
Qed.

Theorem runs_mutex st t t' i : reach ix n progs st ->
  holds (t_st (threads st t)) i -> holds (t_st (threads st t')) i -> t = t'.
Proof.
  intros Hr H1 H2. apply reach_mutex in Hr. apply Hr in H1. apply Hr in H2. congruence.
Qed.

End Mutex.
