(* Model of session_storage.go: Map (one Go map + embedded mutex), ConcurrentMap (num = power-of-two
   shard count, GetSharding = hash(key) & (num-1)) and smap (a single mutex-guarded map = the 1-shard
   instance).  Keys and values are N.  The hash (dolthub/maphash, randomly seeded per map) is NOT
   modelled: it is a parameter of every definition.

   Layer 1 (sequential): shards = list of association lists; Range's iteration order inside one shard
   is a parameter (Go map iteration order is unspecified).
   Layer 2 (concurrent): small-step interleaving semantics as a step RELATION.  Every operation is
   Lock(i) . body . Unlock(i) per shard it touches, exactly as the Go methods:
     Load/Store/Delete : b := GetSharding(key); b.Lock(); b.<op>(key); b.Unlock()
     Len               : for _, b := range shardings { b.Lock(); length += b.Len(); b.Unlock() }
     Range             : for i := 0; i < num && next; i++ { b.Lock(); b.Range(cb); b.Unlock() }
   No proofs in this file. *)
From Gws Require Import Lib.Base.
From Coq Require Import Sorting.Permutation.

(* ------------------------------------------------------------------------------------------- *)
(* Map[K,V]: one Go map                                                                         *)

Definition amap := list (N * N).

Fixpoint a_load (k : N) (m : amap) : option N :=
  match m with
  | [] => None
  | (k', v) :: r => if N.eqb k k' then Some v else a_load k r
  end.

Fixpoint a_delete (k : N) (m : amap) : amap :=
  match m with
  | [] => []
  | (k', v) :: r => if N.eqb k k' then a_delete k r else (k', v) :: a_delete k r
  end.

(* c.m[key] = value *)
Definition a_store (k v : N) (m : amap) : amap := (k, v) :: a_delete k m.

Definition a_mem (k : N) (m : amap) : bool := match a_load k m with Some _ => true | None => false end.

(* ------------------------------------------------------------------------------------------- *)
(* Range callbacks.  A (deterministic, possibly stateful) callback is modelled by what it answers
   given the entries it has been called with so far, the current one last.                       *)

Definition callback := list (N * N) -> bool.

(* Map.Range: for k, v := range c.m { if !f(k, v) { return } }   over the entries in the order es;
   returns the visited entries and whether the last callback (if any) asked to go on. *)
Fixpoint visit (f : callback) (vis : list (N * N)) (es : list (N * N)) : list (N * N) * bool :=
  match es with
  | [] => (vis, true)
  | e :: r => let vis' := vis ++ [e] in if f vis' then visit f vis' r else (vis', false)
  end.

(* ------------------------------------------------------------------------------------------- *)
(* ConcurrentMap, sequential layer                                                              *)

Fixpoint upd {A} (i : nat) (f : A -> A) (l : list A) : list A :=
  match l, i with
  | [], _ => []
  | x :: r, O => f x :: r
  | x :: r, S j => x :: upd j f r
  end.

(* GetSharding: index = hashCode & (num - 1) *)
Definition cm_index (hash : N -> N) (num : N) (k : N) : nat := N.to_nat (N.land (hash k) (num - 1)).
(* the general form the theorems also cover: hash mod n for any n > 0 *)
Definition mod_index (hash : N -> N) (n : nat) (k : N) : nat := N.to_nat (hash k mod N.of_nat n).

Section Sharded.
Variable ix : N -> nat.            (* shard index of a key *)

Definition shard (i : nat) (M : list amap) : amap := nth i M [].

Definition cm_new (n : nat) : list amap := repeat [] n.
Definition cm_load (M : list amap) (k : N) : option N := a_load k (shard (ix k) M).
Definition cm_store (M : list amap) (k v : N) : list amap := upd (ix k) (a_store k v) M.
Definition cm_delete (M : list amap) (k : N) : list amap := upd (ix k) (a_delete k) M.
Fixpoint cm_len (M : list amap) : nat :=
  match M with [] => 0 | s :: r => length s + cm_len r end.

(* Range over the shards in index order; ess = the order in which each shard's entries come out of
   the Go map iteration (a permutation of the shard, see perm_of); stops as soon as next = false. *)
Fixpoint range_run (f : callback) (ess : list (list (N * N))) (vis : list (N * N)) : list (N * N) :=
  match ess with
  | [] => vis
  | es :: r => let '(vis', next) := visit f vis es in if next then range_run f r vis' else vis'
  end.
Definition perm_of (ess : list (list (N * N))) (M : list amap) : Prop := Forall2 (@Permutation _) ess M.
Definition cm_range (f : callback) (ess : list (list (N * N))) : list (N * N) := range_run f ess [].

(* sequential programs, for the refinement statement and the correspondence runner *)
Inductive sop := SLoad (k : N) | SStore (k v : N) | SDelete (k : N) | SLen.
Inductive sres := SRVal (v : option N) | SRUnit | SRLen (c : nat).

Definition cm_step (M : list amap) (o : sop) : list amap * sres :=
  match o with
  | SLoad k => (M, SRVal (cm_load M k))
  | SStore k v => (cm_store M k v, SRUnit)
  | SDelete k => (cm_delete M k, SRUnit)
  | SLen => (M, SRLen (cm_len M))
  end.

Fixpoint cm_run (M : list amap) (ops : list sop) : list amap * list sres :=
  match ops with
  | [] => (M, [])
  | o :: r => let '(S1, x) := cm_step M o in let '(S2, xs) := cm_run S1 r in (S2, x :: xs)
  end.

(* ------------------------------------------------------------------------------------------- *)
(* concurrent layer                                                                             *)

Inductive op := OLoad (k : N) | OStore (k v : N) | ODelete (k : N) | OLen | ORange (f : callback).
(* results, also used as the partial result of an operation in progress *)
Inductive res := RLoad (v : option N) | RUnit | RLen (c : nat) | RRange (vis : list (N * N)) (next : bool).

Inductive stage := WantLock | Locked | Done.     (* Done: body executed, lock still held *)

Record frame := Frame { f_id : nat; f_op : op; f_shard : nat; f_stage : stage; f_acc : res }.

Inductive tstate :=
| Idle                                   (* between two operations *)
| Run (fr : frame)                       (* inside an operation *)
| Ret (id : nat) (o : op) (r : res).     (* all locks released, about to return r *)

Record thread := Thread { t_prog : list op; t_st : tstate }.

(* ghost marks: what the run records.  The id of an operation is the position of its invocation
   mark in the trace.  MPt is the instant at which a single-key operation's body executes, tagged
   with its effect on the number of entries. *)
Inductive eff := ENone | EIns | EDel.
Inductive mark :=
| MInv (id : nat) (t : nat) (o : op)
| MPt (id : nat) (o : op) (e : eff)
| MRes (id : nat) (o : op) (r : res).

Record state := State {
  shards : list amap;
  locks : nat -> option nat;             (* shard index -> owner *)
  threads : nat -> thread;               (* any number of threads *)
  trace : list mark }.

Definition set {A} (g : nat -> A) (i : nat) (x : A) : nat -> A := fun j => if Nat.eqb j i then x else g j.

Definition first_shard (o : op) : nat :=
  match o with OLoad k | OStore k _ | ODelete k => ix k | OLen | ORange _ => 0 end.

Definition init_acc (o : op) : res :=
  match o with
  | OLoad _ => RLoad None | OStore _ _ | ODelete _ => RUnit | OLen => RLen 0 | ORange _ => RRange [] true
  end.

(* the critical section of operation o on shard i *)
Inductive body : op -> nat -> list amap -> res -> list amap -> res -> Prop :=
| b_load k i M a : body (OLoad k) i M a M (RLoad (a_load k (shard i M)))
| b_store k v i M a : body (OStore k v) i M a (upd i (a_store k v) M) RUnit
| b_delete k i M a : body (ODelete k) i M a (upd i (a_delete k) M) RUnit
| b_len i M c : body OLen i M (RLen c) M (RLen (c + length (shard i M)))
| b_range f i M vis nx es : Permutation es (shard i M) ->
    body (ORange f) i M (RRange vis nx) M (RRange (fst (visit f vis es)) (snd (visit f vis es))).

Definition pt_marks (id : nat) (o : op) (i : nat) (M : list amap) : list mark :=
  match o with
  | OLoad k => [MPt id o ENone]
  | OStore k v => [MPt id o (if a_mem k (shard i M) then ENone else EIns)]
  | ODelete k => [MPt id o (if a_mem k (shard i M) then EDel else ENone)]
  | OLen | ORange _ => []
  end.

(* after Unlock(i): return, or go on to shard i+1 (Len: always; Range: while next) *)
Definition after_unlock (n : nat) (id : nat) (o : op) (i : nat) (a : res) : tstate :=
  match o with
  | OLen => if S i <? n then Run (Frame id o (S i) WantLock a) else Ret id o a
  | ORange _ =>
      match a with
      | RRange _ true => if S i <? n then Run (Frame id o (S i) WantLock a) else Ret id o a
      | _ => Ret id o a
      end
  | _ => Ret id o a
  end.

Inductive step (n : nat) : state -> state -> Prop :=
| s_invoke M L T tr t o prog :
    T t = Thread (o :: prog) Idle ->
    step n (State M L T tr)
           (State M L (set T t (Thread prog (Run (Frame (length tr) o (first_shard o) WantLock (init_acc o)))))
                  (tr ++ [MInv (length tr) t o]))
| s_lock M L T tr t prog id o i a :
    T t = Thread prog (Run (Frame id o i WantLock a)) -> L i = None ->
    step n (State M L T tr)
           (State M (set L i (Some t)) (set T t (Thread prog (Run (Frame id o i Locked a)))) tr)
| s_body M L T tr t prog id o i a M' a' :
    T t = Thread prog (Run (Frame id o i Locked a)) -> body o i M a M' a' ->
    step n (State M L T tr)
           (State M' L (set T t (Thread prog (Run (Frame id o i Done a')))) (tr ++ pt_marks id o i M))
| s_unlock M L T tr t prog id o i a :
    T t = Thread prog (Run (Frame id o i Done a)) ->
    step n (State M L T tr)
           (State M (set L i None) (set T t (Thread prog (after_unlock n id o i a))) tr)
| s_return M L T tr t prog id o r :
    T t = Thread prog (Ret id o r) ->
    step n (State M L T tr)
           (State M L (set T t (Thread prog Idle)) (tr ++ [MRes id o r])).

Definition init_state (n : nat) (progs : nat -> list op) : state :=
  State (cm_new n) (fun _ => None) (fun t => Thread (progs t) Idle) [].

(* every run: reflexive-transitive closure, extended on the right *)
Inductive reach (n : nat) (progs : nat -> list op) : state -> Prop :=
| reach_init : reach n progs (init_state n progs)
| reach_step st st' : reach n progs st -> step n st st' -> reach n progs st'.

End Sharded.

(* NewConcurrentMap: num = internal.ToBinaryNumber(num <= 0 ? 16 : num)  (x := 1; for x < n { x *= 2 }) *)
Fixpoint to_binary_from (fuel : nat) (x n : N) : N :=
  match fuel with
  | O => x
  | S f => if (x <? n)%N then to_binary_from f (2 * x)%N n else x
  end.
Definition to_binary_number (n : N) : N := to_binary_from 64 1%N n.
Definition cm_num (req : N) : N := to_binary_number (if (req =? 0)%N then 16%N else req).
