(* Model of /repo/internal/deque.go (Deque[T], Element[T], Stack[T]) - branch for branch.  No proofs here.

   Representation choices (all others are literal):
   - `elements []Element[T]` is a list of slots; `Pointer` (uint32 index) is nat (the truncation
     Pointer(len(c.elements)) for an arena of 2^32 slots is NOT modelled);
   - `*Element[T]` is `option nat`: None = nil, Some i = &c.elements[i].  This is exact because no
     method keeps an element pointer across an `append` (getElement takes its pointer after the
     appends; every caller takes its other pointers after getElement), so a pointer never refers
     to a stale backing array;
   - `c.elements[addr]` with addr out of range, a field access through nil, Stack.Pop on an empty
     stack and make([]T, 1, cap) with cap < 1 are the panics: every function that can reach one
     returns option, None = runtime panic.  Field reads through a non-nil pointer go through
     nth_error as well (None there is unreachable in Go, and proved unreachable in the model);
   - `stack Stack[Pointer]` is a list with the TOP FIRST (the Go slice has the top last);
   - `length int` is Z;  `template` is never assigned, so it is the zero Element;
   - capacity is not observable and not kept (it only decides when append reallocates);
   - Range's loop runs on fuel = number of slots (enough for any acyclic chain); running out of fuel (a cyclic next chain, on which
     the Go loop does not terminate) is reported separately from a panic. *)
From Gws Require Import Lib.Base.
Local Open Scope Z_scope.

Section Deque.
Context {V : Type} (zero : V).

Record elem := Elem { eprev : nat; eaddr : nat; enext : nat; evalue : V }.
Record dq := Dq { head : nat; tail : nat; dlen : Z; stack : list nat; elems : list elem }.

Definition template : elem := Elem 0 0 0 zero.

Definition set_prev (p : nat) (e : elem) := Elem p (eaddr e) (enext e) (evalue e).
Definition set_next (n : nat) (e : elem) := Elem (eprev e) (eaddr e) n (evalue e).
Definition set_addr (a : nat) (e : elem) := Elem (eprev e) a (enext e) (evalue e).
Definition set_value (v : V) (e : elem) := Elem (eprev e) (eaddr e) (enext e) v.

Definition with_head (d : dq) (h : nat) := Dq h (tail d) (dlen d) (stack d) (elems d).
Definition with_tail (d : dq) (t : nat) := Dq (head d) t (dlen d) (stack d) (elems d).
Definition with_len (d : dq) (n : Z) := Dq (head d) (tail d) n (stack d) (elems d).
Definition with_stack (d : dq) (s : list nat) := Dq (head d) (tail d) (dlen d) s (elems d).
Definition with_elems (d : dq) (es : list elem) := Dq (head d) (tail d) (dlen d) (stack d) es.

(* write through a (valid) element pointer: slot i becomes f (slot i) *)
Fixpoint upd (es : list elem) (i : nat) (f : elem -> elem) : list elem :=
  match es, i with
  | [], _ => []
  | e :: r, O => f e :: r
  | e :: r, S j => e :: upd r j f
  end.
Definition wr (d : dq) (i : nat) (f : elem -> elem) : dq := with_elems d (upd (elems d) i f).
(* read through a (valid) element pointer *)
Definition rd (d : dq) (i : nat) : option elem := nth_error (elems d) i.

(* New(capacity): make([]Element[T], 1, 1+capacity) *)
Definition dq_new (capacity : Z) : option dq :=
  if capacity <? 0 then None else Some (Dq 0 0 0 [] [template]).
(* the zero value: var d Deque[T] *)
Definition dq_zero : dq := Dq 0 0 0 [] [].

(* Get(addr): outer None = index-out-of-range panic; Some None = nil *)
Definition get (d : dq) (addr : nat) : option (option nat) :=
  if (0 <? addr)%nat then
    (if (addr <? length (elems d))%nat then Some (Some addr) else None)
  else Some None.

(* Stack.Pop *)
Definition stack_pop (s : list nat) : option (nat * list nat) :=
  match s with [] => None | a :: r => Some (a, r) end.

(* getElement: returns the deque and the (non-nil) pointer *)
Definition get_element (d : dq) : option (dq * nat) :=
  let d := if (length (elems d) =? 0)%nat then with_elems d (elems d ++ [template]) else d in
  if (0 <? length (stack d))%nat then
    pr <- stack_pop (stack d) ;;
    let '(addr, st) := pr in
    let d := with_stack d st in
    p <- get d addr ;;
    match p with
    | None => None                                  (* v.addr = addr through nil *)
    | Some i => Some (wr d i (set_addr addr), i)
    end
  else
    let addr := length (elems d) in
    let d := with_elems d (elems d ++ [template]) in
    p <- get d addr ;;
    match p with
    | None => None
    | Some i => Some (wr d i (set_addr addr), i)
    end.

(* putElement(ele) *)
Definition put_element (d : dq) (i : nat) : option dq :=
  e <- rd d i ;;
  let d := with_stack d (eaddr e :: stack d) in
  Some (wr d i (fun _ => template)).

(* autoReset *)
Definition auto_reset (d : dq) : dq :=
  Dq 0 0 0 [] (if (1 <? length (elems d))%nat then firstn 1 (elems d) else elems d).
Definition dq_reset (d : dq) : dq := auto_reset d.

Definition dq_len (d : dq) : Z := dlen d.
Definition dq_front (d : dq) : option (option nat) := get d (head d).
Definition dq_back (d : dq) : option (option nat) := get d (tail d).

(* doPushFront(ele) *)
Definition do_push_front (d : dq) (i : nat) : option dq :=
  let d := with_len d (dlen d + 1) in
  if (head d =? 0)%nat then
    e <- rd d i ;; Some (with_tail (with_head d (eaddr e)) (eaddr e))
  else
    p <- get d (head d) ;;
    match p with
    | None => None
    | Some h =>
        e <- rd d i ;; let d := wr d h (set_prev (eaddr e)) in        (* head.prev = ele.addr *)
        hd <- rd d h ;; let d := wr d i (set_next (eaddr hd)) in      (* ele.next = head.addr *)
        e <- rd d i ;; Some (with_head d (eaddr e))                   (* c.head = ele.addr *)
    end.

(* doPushBack(ele) *)
Definition do_push_back (d : dq) (i : nat) : option dq :=
  let d := with_len d (dlen d + 1) in
  if (tail d =? 0)%nat then
    e <- rd d i ;; Some (with_tail (with_head d (eaddr e)) (eaddr e))
  else
    p <- get d (tail d) ;;
    match p with
    | None => None
    | Some t =>
        e <- rd d i ;; let d := wr d t (set_next (eaddr e)) in        (* tail.next = ele.addr *)
        tl <- rd d t ;; let d := wr d i (set_prev (eaddr tl)) in      (* ele.prev = tail.addr *)
        e <- rd d i ;; Some (with_tail d (eaddr e))                   (* c.tail = ele.addr *)
    end.

(* PushFront(value) / PushBack(value): the deque and the returned element pointer *)
Definition dq_push_front (d : dq) (v : V) : option (dq * nat) :=
  pr <- get_element d ;; let '(d, i) := pr in
  let d := wr d i (set_value v) in
  d <- do_push_front d i ;; Some (d, i).
Definition dq_push_back (d : dq) (v : V) : option (dq * nat) :=
  pr <- get_element d ;; let '(d, i) := pr in
  let d := wr d i (set_value v) in
  d <- do_push_back d i ;; Some (d, i).

(* doRemove(ele) *)
Definition do_remove (d : dq) (i : nat) : option dq :=
  e <- rd d i ;;
  pp <- (if negb (eprev e =? 0)%nat then get d (eprev e) else Some None) ;;
  e <- rd d i ;;
  np <- (if negb (enext e =? 0)%nat then get d (enext e) else Some None) ;;
  let d := with_len d (dlen d - 1) in
  match pp, np with
  | Some p, Some n =>                                                  (* case 3 *)
      ne <- rd d n ;; let d := wr d p (set_next (eaddr ne)) in
      pe <- rd d p ;; Some (wr d n (set_prev (eaddr pe)))
  | None, Some n =>                                                    (* case 2 *)
      let d := wr d n (set_prev 0%nat) in
      ne <- rd d n ;; Some (with_head d (eaddr ne))
  | Some p, None =>                                                    (* case 1 *)
      let d := wr d p (set_next 0%nat) in
      pe <- rd d p ;; Some (with_tail d (eaddr pe))
  | None, None => Some (with_tail (with_head d 0%nat) 0%nat)           (* default *)
  end.

(* the common body of PopFront/PopBack/Remove once ele != nil *)
Definition remove_put (d : dq) (i : nat) : option dq :=
  d <- do_remove d i ;;
  d <- put_element d i ;;
  Some (if dlen d =? 0 then auto_reset d else d).

Definition dq_pop_front (d : dq) : option (dq * V) :=
  p <- dq_front d ;;
  match p with
  | None => Some (d, zero)
  | Some i => e <- rd d i ;; d <- remove_put d i ;; Some (d, evalue e)
  end.
Definition dq_pop_back (d : dq) : option (dq * V) :=
  p <- dq_back d ;;
  match p with
  | None => Some (d, zero)
  | Some i => e <- rd d i ;; d <- remove_put d i ;; Some (d, evalue e)
  end.

(* InsertAfter(value, mark): the returned pointer is nil when mark is Nil *)
Definition dq_insert_after (d : dq) (v : V) (mark : nat) : option (dq * option nat) :=
  if (mark =? 0)%nat then Some (d, None) else
  let d := with_len d (dlen d + 1) in
  pr <- get_element d ;; let '(d, e1) := pr in
  p0 <- get d mark ;;
  match p0 with
  | None => None
  | Some e0 =>
      x0 <- rd d e0 ;;
      p2 <- get d (enext x0) ;;
      x0 <- rd d e0 ;;
      let d := wr d e1 (fun e => Elem (eaddr x0) (eaddr e) (enext x0) v) in   (* e1.prev, e1.next, e1.value = ... *)
      d <- match p2 with
           | Some e2 => x1 <- rd d e1 ;; Some (wr d e2 (set_prev (eaddr x1)))
           | None => Some d
           end ;;
      x1 <- rd d e1 ;;
      let d := wr d e0 (set_next (eaddr x1)) in
      x1 <- rd d e1 ;;
      Some (if (enext x1 =? 0)%nat then with_tail d (eaddr x1) else d, Some e1)
  end.

(* InsertBefore(value, mark) *)
Definition dq_insert_before (d : dq) (v : V) (mark : nat) : option (dq * option nat) :=
  if (mark =? 0)%nat then Some (d, None) else
  let d := with_len d (dlen d + 1) in
  pr <- get_element d ;; let '(d, e1) := pr in
  p2 <- get d mark ;;
  match p2 with
  | None => None
  | Some e2 =>
      x2 <- rd d e2 ;;
      p0 <- get d (eprev x2) ;;
      x2 <- rd d e2 ;;
      let d := wr d e1 (fun e => Elem (eprev x2) (eaddr e) (eaddr x2) v) in
      d <- match p0 with
           | Some e0 => x1 <- rd d e1 ;; Some (wr d e0 (set_next (eaddr x1)))
           | None => Some d
           end ;;
      x1 <- rd d e1 ;;
      let d := wr d e2 (set_prev (eaddr x1)) in
      x1 <- rd d e1 ;;
      Some (if (eprev x1 =? 0)%nat then with_head d (eaddr x1) else d, Some e1)
  end.

Definition dq_move_to_back (d : dq) (addr : nat) : option dq :=
  p <- get d addr ;;
  match p with
  | None => Some d
  | Some i =>
      d <- do_remove d i ;;
      let d := wr d i (fun e => Elem 0 (eaddr e) 0 (evalue e)) in
      do_push_back d i
  end.
Definition dq_move_to_front (d : dq) (addr : nat) : option dq :=
  p <- get d addr ;;
  match p with
  | None => Some d
  | Some i =>
      d <- do_remove d i ;;
      let d := wr d i (fun e => Elem 0 (eaddr e) 0 (evalue e)) in
      do_push_front d i
  end.

Definition dq_update (d : dq) (addr : nat) (v : V) : option dq :=
  p <- get d addr ;;
  match p with
  | None => Some d
  | Some i => Some (wr d i (set_value v))
  end.

Definition dq_remove (d : dq) (addr : nat) : option dq :=
  p <- get d addr ;;
  match p with
  | None => Some d
  | Some i => remove_put d i
  end.

(* Range(f): the elements f was called on, in order *)
Inductive range_res := RangeOk (visited : list elem) | RangePanic | RangeNoFuel.
Fixpoint range_loop (fuel : nat) (d : dq) (f : elem -> bool) (addr : nat) : range_res :=
  match get d addr with
  | None => RangePanic
  | Some None => RangeOk []
  | Some (Some i) =>
      match fuel with
      | O => RangeNoFuel
      | S fuel' =>
          match rd d i with
          | None => RangePanic
          | Some e =>
              if f e then
                match range_loop fuel' d f (enext e) with
                | RangeOk l => RangeOk (e :: l)
                | r => r
                end
              else RangeOk [e]
          end
      end
  end.
Definition dq_range (d : dq) (f : elem -> bool) : range_res :=
  range_loop (length (elems d)) d f (head d).

(* Clone(): a fresh elements slice and a fresh stack with the same contents; in a pure model that is the
   same value (independence of the copy is what the harness checks on the implementation) *)
Definition dq_clone (d : dq) : dq :=
  Dq (head d) (tail d) (dlen d) (stack d) (elems d).

(* Element accessors through a pointer returned by Get/Front/Back/Push*/Insert* *)
Definition elem_at (d : dq) (p : option nat) : option elem :=
  match p with None => None | Some i => rd d i end.

End Deque.

Arguments elem V : clear implicits.
Arguments dq V : clear implicits.
Arguments Elem {V}.
Arguments Dq {V}.
Arguments range_res V : clear implicits.
Arguments RangeOk {V}.
Arguments RangePanic {V}.
Arguments RangeNoFuel {V}.
Arguments dq_zero {V}.
Arguments get {V}.
Arguments rd {V}.
Arguments wr {V}.
Arguments upd {V}.
Arguments dq_len {V}.
Arguments dq_front {V}.
Arguments dq_back {V}.
Arguments dq_range {V}.
Arguments range_loop {V}.
Arguments dq_clone {V}.
Arguments elem_at {V}.
Arguments do_remove {V}.
Arguments do_push_back {V}.
Arguments do_push_front {V}.
Arguments dq_update {V}.
Arguments dq_move_to_back {V}.
Arguments dq_move_to_front {V}.
Arguments with_head {V}.
Arguments with_tail {V}.
Arguments with_len {V}.
Arguments with_stack {V}.
Arguments with_elems {V}.
Arguments set_prev {V}.
Arguments set_next {V}.
Arguments set_addr {V}.
Arguments set_value {V}.
