(* Model of the inflated-size limit (compress.go): limitedReader.Read and the copy loop that drives it in
   deflater.Decompress - io.CopyBuffer(c.dpsBuffer, limitReader(c.dpsReader, c.limit), c.buf), which for a *bytes.Buffer
   destination is bytes.Buffer.ReadFrom: append what Read returned, THEN look at the error (io.EOF ends the copy with
   success, any other error fails it and Decompress returns nil).  What the flate reader returns per Read call - chunk
   contents, chunk sizes, where it stops - is arbitrary.  No proofs here. *)
From Gws Require Import Lib.Base.
Local Open Scope Z_scope.

(* errors as integers: 0 = nil *)
Definition err_eof : Z := -1.
Definition err_too_large : Z := 1009.   (* internal.CloseMessageTooLarge *)

(* func (c *limitedReader) Read(p []byte) (n int, err error): the underlying Read returned (n, err); result (n, err, c.N) *)
Definition lr_read (cN cM n err : Z) : Z * Z * Z :=
  let cN' := cN + n in
  if cN' >? cM then (n, err_too_large, cN') else (n, err, cN').

(* the copy loop over the successive results of the underlying reader; [] = the reader was never finished (cannot
   happen with a flate reader on a finite buffer; counted as failure) *)
Fixpoint lr_copy (cN cM : Z) (reads : list (list N * Z)) (acc : list N) : option (list N) :=
  match reads with
  | [] => None
  | (p, err) :: r =>
      let '(n, e, cN') := lr_read cN cM (Z.of_nat (length p)) err in
      let acc' := acc ++ p in
      if e =? 0 then lr_copy cN' cM r acc'
      else if e =? err_eof then Some acc'
      else None
  end.

(* deflater.Decompress seen as the `inflate` parameter of Model/Reader.v: flate_reads dict src = what the flate reader
   hands out per Read call for this input *)
Definition inflate_via_limit (flate_reads : list N -> list N -> list (list N * Z)) (dict src : list N) (limit : Z) : option (list N) :=
  lr_copy 0 limit (flate_reads dict src) [].
