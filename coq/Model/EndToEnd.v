(* Composition sender -> wire -> receiver for one direction of a connection: the write path of Model/Writer.v
   (doWrite, Broadcaster.writeFrame) with the real window model of Model/Window.v on the sending side, the reader of
   Model/Reader.v with its own window on the receiving side.  No proofs here. *)
From Gws Require Import Lib.Base Spec.Rfc6455 Model.Header Model.Writer Model.Reader Model.Window Model.CloseCode.
Local Open Scope N_scope.

(* slideWindow.Write as a total function (it never panics: C17) *)
Definition wwrite_total (w : window) (p : list N) : window :=
  match sw_write w p with Some w' => w' | None => w end.

Section E2E.
Variable utf8_valid : list N -> bool.
Variable deflate_raw : list N -> list N -> list N.
Variable inflate : list N -> list N -> Z -> option (list N).

(* one send through a buffered API (WriteMessage / Writev / WriteString / Write*Async / ping / pong) on an open connection *)
Definition send_one (c : wcfg) (w : window) (op : N) (slices : list (list N)) (key : list N) :=
  do_write utf8_valid deflate_raw window sw_dict wwrite_total c false w op slices key.

(* a history of sends on one connection: (opcode, slices, mask key) *)
Definition sop := (N * list (list N) * list N)%type.

Fixpoint send_all (c : wcfg) (w : window) (ops : list sop) : option (list N * window) :=
  match ops with
  | [] => Some ([], w)
  | (op, slices, key) :: r =>
      match send_one c w op slices key with
      | (Some fr, w', WOk) => match send_all c w' r with Some (bs, w'') => Some (fr ++ bs, w'') | None => None end
      | _ => None
      end
  end.

(* the payloads that entered the sender's LZ77 history: those of the messages whose frame carries RSV1 *)
Fixpoint compressed_history (c : wcfg) (w : window) (ops : list sop) : list N :=
  match ops with
  | [] => []
  | (op, slices, key) :: r =>
      match send_one c w op slices key with
      | (Some fr, w', WOk) => (if is_compressed_frame fr then concat slices else []) ++ compressed_history c w' r
      | _ => []
      end
  end.

Definition recv_all (rc : rcfg) (w : window) (bs : list N) :=
  read_stream utf8_valid inflate window sw_dict wwrite_total (S (length bs)) rc (r_init window w) bs.

Definition data_events (ops : list sop) : list event :=
  flat_map (fun o => let '(op, slices, _) := o in
                     if op =? 9 then [EvPing (concat slices)] else if op =? 10 then [EvPong (concat slices)]
                     else [EvMsg op (concat slices)]) ops.
End E2E.
