(* Model of internal.BufferPool.Get's size arithmetic (internal/pool.go): binaryCeil in uint32,
   shards for the powers of two 128 .. bufferThreshold.  pool_cap n = capacity of the buffer Get(n) returns. *)
From Gws Require Import Lib.Base Gen.Consts.
Local Open Scope N_scope.

Definition u32_of_int (z : Z) : N := Z.to_N (z mod 2 ^ 32)%Z.

Definition binary_ceil (v0 : N) : N :=
  let v := (v0 + (2 ^ 32 - 1)) mod 2 ^ 32 in          (* v-- *)
  let v := N.lor v (N.shiftr v 1) in
  let v := N.lor v (N.shiftr v 2) in
  let v := N.lor v (N.shiftr v 4) in
  let v := N.lor v (N.shiftr v 8) in
  let v := N.lor v (N.shiftr v 16) in
  (v + 1) mod 2 ^ 32.                                 (* v++ *)

Definition pool_begin : Z := 128.                     (* NewBufferPool(128, bufferThreshold) in init.go *)
Definition pool_end : Z := gws_var_bufferThreshold.

Definition pool_cap (n : Z) : Z :=
  let size := Z.max (Z.of_N (binary_ceil (u32_of_int n))) pool_begin in
  if (size <=? pool_end)%Z then size else n.
