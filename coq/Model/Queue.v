(* Model of workerQueue (task.go): getJob as ONE atomic step (it runs under c.mu from the first to the
   last statement; that atomicity is the lock discipline's business, not this file's), the worker loop
   `do` and `Push`, as an event system over any number of submitters and workers.
   Tasks are identified by their submission index.  No proofs here. *)
From Gws Require Import Lib.Base.
Local Open Scope Z_scope.

Notation task := nat (only parsing).

(* q, curConcurrency, maxConcurrency (int32 in Go; |cur| <= max, no overflow) *)
Record wqueue : Type := mkWq { wq_q : list task; wq_cur : Z; wq_max : Z }.

(* func (c *workerQueue) getJob(newJob asyncJob, delta int32) asyncJob *)
Definition get_job (st : wqueue) (new : option task) (delta : Z) : wqueue * option task :=
  let q1 := match new with Some t => wq_q st ++ [t] | None => wq_q st end in  (* if newJob != nil { c.q.PushBack(newJob) } *)
  let cur1 := wq_cur st + delta in                                            (* c.curConcurrency += delta *)
  if cur1 >=? wq_max st                                                       (* if c.curConcurrency >= c.maxConcurrency *)
  then (mkWq q1 cur1 (wq_max st), None)                                       (*   return nil *)
  else match q1 with                                                          (* job = c.q.PopFront() *)
       | [] => (mkWq [] cur1 (wq_max st), None)                               (* if job == nil { return nil } *)
       | j :: q2 => (mkWq q2 (cur1 + 1) (wq_max st), Some j)                  (* c.curConcurrency++; return job *)
       end.

(* a live worker goroutine (one `do` loop) is either inside job() or between job() returning and
   its next getJob(nil, -1) *)
Inductive wstate : Type := WRun (t : task) | WFetch.
Inductive logent : Type := LStart (t : task) | LEnd (t : task).

Record sys : Type := mkSys {
  s_wq : wqueue;
  s_workers : list (nat * wstate);   (* live workers *)
  s_started : list task;             (* in order of start *)
  s_submitted : list task;           (* in order of the Push linearisation points *)
  s_log : list logent;               (* start/end events in order: what the harness observes *)
  s_nextw : nat                      (* fresh worker ids *)
}.

Definition q_init (maxc : Z) : sys := mkSys (mkWq [] 0 maxc) [] [] [] [] 0.

(*  Submit    : some goroutine executes Push(job) - the new task gets the next submission index;
    TaskEnd w : worker w's current job() returns;
    Fetch w   : worker w executes getJob(nil, -1) and continues with the job or exits. *)
Inductive event : Type := Submit | TaskEnd (w : nat) | Fetch (w : nat).

Fixpoint w_lookup (w : nat) (ws : list (nat * wstate)) : option wstate :=
  match ws with
  | [] => None
  | (w', st) :: r => if Nat.eqb w w' then Some st else w_lookup w r
  end.

(* replace / remove the first entry of worker w *)
Fixpoint w_set (w : nat) (st : wstate) (ws : list (nat * wstate)) : list (nat * wstate) :=
  match ws with
  | [] => []
  | (w', st') :: r => if Nat.eqb w w' then (w', st) :: r else (w', st') :: w_set w st r
  end.

Fixpoint w_remove (w : nat) (ws : list (nat * wstate)) : list (nat * wstate) :=
  match ws with
  | [] => []
  | (w', st') :: r => if Nat.eqb w w' then r else (w', st') :: w_remove w r
  end.

(* None = the event is not enabled in this state *)
Definition q_step (s : sys) (e : event) : option sys :=
  match e with
  | Submit =>
      let t := length (s_submitted s) in
      match get_job (s_wq s) (Some t) 0 with                      (* if nextJob := c.getJob(job, 0); nextJob != nil *)
      | (wq', Some j) =>                                          (*   go c.do(nextJob) *)
          Some (mkSys wq' (s_workers s ++ [(s_nextw s, WRun j)]) (s_started s ++ [j])
                      (s_submitted s ++ [t]) (s_log s ++ [LStart j]) (S (s_nextw s)))
      | (wq', None) =>
          Some (mkSys wq' (s_workers s) (s_started s) (s_submitted s ++ [t]) (s_log s) (s_nextw s))
      end
  | TaskEnd w =>
      match w_lookup w (s_workers s) with
      | Some (WRun t) =>
          Some (mkSys (s_wq s) (w_set w WFetch (s_workers s)) (s_started s) (s_submitted s)
                      (s_log s ++ [LEnd t]) (s_nextw s))
      | _ => None
      end
  | Fetch w =>
      match w_lookup w (s_workers s) with
      | Some WFetch =>
          match get_job (s_wq s) None (-1) with                   (* job = c.getJob(nil, -1) *)
          | (wq', Some j) =>                                      (* for job != nil { job() ... *)
              Some (mkSys wq' (w_set w (WRun j) (s_workers s)) (s_started s ++ [j]) (s_submitted s)
                          (s_log s ++ [LStart j]) (s_nextw s))
          | (wq', None) =>                                        (* loop ends, goroutine exits *)
              Some (mkSys wq' (w_remove w (s_workers s)) (s_started s) (s_submitted s) (s_log s) (s_nextw s))
          end
      | _ => None
      end
  end.

Fixpoint q_runs (s : sys) (evs : list event) : option sys :=
  match evs with
  | [] => Some s
  | e :: r => s' <- q_step s e ;; q_runs s' r
  end.

(* tasks currently inside job() *)
Fixpoint running_tasks (ws : list (nat * wstate)) : list task :=
  match ws with
  | [] => []
  | (_, WRun t) :: r => t :: running_tasks r
  | (_, WFetch) :: r => running_tasks r
  end.
