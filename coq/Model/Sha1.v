(* Executable SHA-1 (FIPS 180-4) over byte lists: what crypto/sha1 computes for internal.ComputeAcceptKey.
   32-bit words are N, every operation reduced mod 2^32 explicitly.  No proofs here; the RFC / FIPS
   test vectors are Examples in Properties/C10.v and every (key, accept) pair the harness observes is
   replayed on this function. *)
From Gws Require Import Lib.Base Lib.Text.
Local Open Scope N_scope.

Definition mask32 : N := 4294967295.
Definition add32 (x y : N) : N := N.land (x + y) mask32.
Definition rotl (n x : N) : N := N.lor (N.land (N.shiftl x n) mask32) (N.shiftr x (32 - n)).

(* n bytes, big-endian, of x *)
Fixpoint be_bytes (n : nat) (x : N) : bytes :=
  match n with
  | O => []
  | S k => N.land (N.shiftr x (8 * N.of_nat k)) 255 :: be_bytes k x
  end.

Fixpoint be_words (l : bytes) : list N :=
  match l with
  | a :: b :: c :: d :: r => (a * 16777216 + b * 65536 + c * 256 + d) :: be_words r
  | _ => []
  end.

(* message ++ 0x80 ++ zeros ++ 64-bit big-endian bit length; total length = 0 mod 64 *)
Definition sha1_pad (m : bytes) : bytes :=
  let len := N.of_nat (length m) in
  m ++ 128 :: repeat 0 (N.to_nat ((119 - len mod 64) mod 64)) ++ be_bytes 8 (8 * len).

(* message schedule, most recent word first: w[t] = rotl 1 (w[t-3] xor w[t-8] xor w[t-14] xor w[t-16]) *)
Fixpoint extend (n : nat) (ws : list N) : list N :=
  match n with
  | O => ws
  | S k =>
    let w := rotl 1 (N.lxor (N.lxor (nth 2 ws 0) (nth 7 ws 0)) (N.lxor (nth 13 ws 0) (nth 15 ws 0))) in
    extend k (w :: ws)
  end.
Definition schedule (block : bytes) : list N := rev (extend 64 (rev (be_words block))).

Definition st : Type := (N * N * N * N * N)%type.

Definition sha1_f (t : nat) (b c d : N) : N :=
  if (t <? 20)%nat then N.lxor d (N.land b (N.lxor c d))                       (* Ch *)
  else if (t <? 40)%nat then N.lxor b (N.lxor c d)                              (* Parity *)
  else if (t <? 60)%nat then N.lor (N.land b c) (N.land d (N.lor b c))          (* Maj *)
  else N.lxor b (N.lxor c d).
Definition sha1_k (t : nat) : N :=
  if (t <? 20)%nat then 1518500249 else if (t <? 40)%nat then 1859775393
  else if (t <? 60)%nat then 2400959708 else 3395469782.

Fixpoint rounds (t : nat) (ws : list N) (s : st) : st :=
  match ws with
  | [] => s
  | w :: ws' =>
    let '(a, b, c, d, e) := s in
    let tmp := add32 (add32 (add32 (add32 (rotl 5 a) (sha1_f t b c d)) e) w) (sha1_k t) in
    rounds (S t) ws' (tmp, a, rotl 30 b, c, d)
  end.

Definition compress (h : st) (block : bytes) : st :=
  let '(h0, h1, h2, h3, h4) := h in
  let '(a, b, c, d, e) := rounds 0 (schedule block) h in
  (add32 h0 a, add32 h1 b, add32 h2 c, add32 h3 d, add32 h4 e).

Fixpoint sha1_blocks (fuel : nat) (l : bytes) (h : st) : st :=
  match fuel with
  | O => h
  | S f => match l with
           | [] => h
           | _ => sha1_blocks f (skipn 64 l) (compress h (firstn 64 l))
           end
  end.

Definition sha1_init : st := (1732584193, 4023233417, 2562383102, 271733878, 3285377520).

Definition sha1 (m : bytes) : bytes :=
  let p := sha1_pad m in
  let '(h0, h1, h2, h3, h4) := sha1_blocks (length p) p sha1_init in
  be_bytes 4 h0 ++ be_bytes 4 h1 ++ be_bytes 4 h2 ++ be_bytes 4 h3 ++ be_bytes 4 h4.
