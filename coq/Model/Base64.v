(* base64.StdEncoding (RFC 4648 section 4, '=' padding) over byte lists.  Definitions only. *)
From Gws Require Import Lib.Base Lib.Text.
Local Open Scope N_scope.

(* sextet -> alphabet character *)
Definition b64_char (s : N) : N :=
  if s <? 26 then 65 + s            (* A-Z *)
  else if s <? 52 then 71 + s       (* a-z : 97 + (s - 26) *)
  else if s <? 62 then s - 4        (* 0-9 : 48 + (s - 52) *)
  else if s =? 62 then 43           (* + *)
  else 47.                          (* / *)

(* alphabet character -> sextet *)
Definition b64_val (c : N) : option N :=
  if (65 <=? c) && (c <=? 90) then Some (c - 65)
  else if (97 <=? c) && (c <=? 122) then Some (c - 71)
  else if (48 <=? c) && (c <=? 57) then Some (c + 4)
  else if c =? 43 then Some 62
  else if c =? 47 then Some 63
  else None.

Fixpoint b64_encode (l : bytes) : bytes :=
  match l with
  | a :: b :: c :: r =>
    b64_char (a / 4) :: b64_char ((a mod 4) * 16 + b / 16) :: b64_char ((b mod 16) * 4 + c / 64)
    :: b64_char (c mod 64) :: b64_encode r
  | [a; b] => [b64_char (a / 4); b64_char ((a mod 4) * 16 + b / 16); b64_char ((b mod 16) * 4); 61]
  | [a] => [b64_char (a / 4); b64_char ((a mod 4) * 16); 61; 61]
  | [] => []
  end.

(* decoder used to state that the encoding loses nothing (canonical padding only) *)
Fixpoint b64_decode (l : bytes) : option bytes :=
  match l with
  | [] => Some []
  | c0 :: c1 :: c2 :: c3 :: r =>
    v0 <- b64_val c0 ;; v1 <- b64_val c1 ;;
    if (c2 =? 61) && (c3 =? 61) && is_nil r then Some [v0 * 4 + v1 / 16]
    else v2 <- b64_val c2 ;;
      if (c3 =? 61) && is_nil r then Some [v0 * 4 + v1 / 16; (v1 mod 16) * 16 + v2 / 4]
      else v3 <- b64_val c3 ;; rest <- b64_decode r ;;
        Some ((v0 * 4 + v1 / 16) :: ((v1 mod 16) * 16 + v2 / 4) :: ((v2 mod 4) * 64 + v3) :: rest)
  | _ => None
  end.
