(* Model of the write path: internal.Payload (Bytes / Buffers), genFrame, compressData, doWrite,
   Broadcaster.writeFrame, doWriteFile (splitReader, flateWriter aggregation, readerWrapper).
   The deflate encoder, the UTF-8 validator and the sliding window are parameters (Section variables):
   they are modelled / specified elsewhere (Model/Utf8.v, Model/Window.v) or assumed (klauspost flate).
   No proofs here. *)
From Gws Require Import Lib.Base Spec.Rfc6455 Model.Mask Model.Header Model.Pool Gen.Consts.
Local Open Scope N_scope.

Definition is_data (op : N) : bool := op <=? 2.           (* Opcode.isDataFrame *)
Definition segment_size : nat := Z.to_nat gws_segmentSize.
Definition flate_tail4 : list N := [0; 0; 255; 255].

(* strip the 00 00 ff ff produced by a sync flush, as deflater.Compress / flateWriter.Flush do *)
Definition strip_tail (b : list N) : list N :=
  let n := length b in
  if (4 <=? n)%nat && bytes_eqb (skipn (n - 4) b) flate_tail4 then firstn (n - 4) b else b.

Section Writer.
Variable utf8_valid : list N -> bool.
(* raw output of flate.Writer after ResetDict(dict), Write(payload), Flush() *)
Variable deflate_raw : list N -> list N -> list N.
(* the sliding window (Model/Window.v): abstract here *)
Variable W : Type.
Variable wdict : W -> list N.
Variable wwrite : W -> list N -> W.

Record wcfg := { w_server : bool; w_pmd : bool; w_threshold : Z; w_wlimit : Z; w_utf8 : bool }.
Record fcfg := { fc_fin : bool; fc_compress : bool; fc_broadcast : bool; fc_check : bool }.

(* internal.CheckEncoding *)
Definition check_encoding (enabled : bool) (op : N) (p : list N) : bool :=
  if enabled && ((op =? 1) || (op =? 8)) then utf8_valid p else true.

(* Payload.CheckEncoding for Bytes (one slice) and Buffers (after fix ad94fcf: whole payload) *)
Definition payload_check (enabled : bool) (op : N) (slices : list (list N)) : bool :=
  match slices with
  | [s] => check_encoding enabled op s
  | _ => if enabled && ((op =? 1) || (op =? 8)) then utf8_valid (concat slices) else true
  end.

Inductive gres := GFrame (bytes : list N) | GErrEncoding | GErrTooLarge | GPanic.

(* back-fill of the header into the 14-byte padding in front of the payload, then buf.Next(m) *)
Definition backfill (server : bool) (hdr key : list N) (contents : list N) : gres :=
  let hl := length hdr in
  match (if server then Some (skipn header_size contents) else mask_impl key (skipn header_size contents)) with
  | None => GPanic
  | Some body =>
      let contents1 := firstn header_size contents ++ body in
      if (hl <=? header_size)%nat then
        let m := (header_size - hl)%nat in
        let contents2 := firstn m contents1 ++ copy (skipn m contents1) hdr in
        GFrame (skipn m contents2)
      else GPanic
  end.

Definition compress_data (c : wcfg) (op : N) (payload : list N) (fc : fcfg) (key dict : list N) : gres :=
  let d := if fc_broadcast fc then [] else dict in
  let out := strip_tail (deflate_raw d payload) in
  let contents := repeat 0 header_size ++ out in
  let hdr := generate_header (w_server c) (fc_fin fc) true op (Z.of_nat (length out)) key in
  backfill (w_server c) hdr key contents.

Definition gen_frame (c : wcfg) (op : N) (slices : list (list N)) (fc : fcfg) (key dict : list N) : gres :=
  let payload := concat slices in
  let n := Z.of_nat (length payload) in
  if (op =? 1) && negb (payload_check (fc_check fc) op slices) then GErrEncoding
  else if (n >? w_wlimit c)%Z then GErrTooLarge
  else if fc_compress fc && is_data op && (n >=? w_threshold c)%Z then compress_data c op payload fc key dict
  else
    let hdr := generate_header (w_server c) (fc_fin fc) false op n key in
    backfill (w_server c) hdr key (repeat 0 header_size ++ payload).

(* isCompressedFrame *)
Definition is_compressed_frame (frame : list N) : bool :=
  match frame with b0 :: _ => negb (N.land b0 64 =? 0) | [] => false end.

Inductive wres := WOk | WErrClosed | WErrEncoding | WErrTooLarge | WPanic.

(* doWrite: returns (bytes handed to the transport in ONE Write call, new window, result).
   `closed` is the value of the flag read under the lock. *)
Definition do_write (c : wcfg) (closed : bool) (w : W) (op : N) (slices : list (list N)) (key : list N)
  : option (list N) * W * wres :=
  if negb (op =? 8) && closed then (None, w, WErrClosed) else
  match gen_frame c op slices {| fc_fin := true; fc_compress := w_pmd c; fc_broadcast := false; fc_check := w_utf8 c |} key (wdict w) with
  | GFrame fr =>
      let w' := if is_compressed_frame fr then fold_left wwrite slices w else w in
      (Some fr, w', WOk)
  | GErrEncoding => (None, w, WErrEncoding)
  | GErrTooLarge => (None, w, WErrTooLarge)
  | GPanic => (None, w, WPanic)
  end.

(* Broadcaster: the frame is generated once per (pd.Enabled) class by the first connection that needs it,
   with ITS configuration and no dictionary; writeFrame then sends the shared bytes on each connection. *)
Definition broadcast_frame (c : wcfg) (op : N) (payload key : list N) : gres :=
  gen_frame c op [payload] {| fc_fin := true; fc_compress := w_pmd c; fc_broadcast := true; fc_check := w_utf8 c |} key [].

Definition broadcast_write (closed : bool) (w : W) (frame payload : list N) : option (list N) * W * wres :=
  if closed then (None, w, WErrClosed)
  else (Some frame, (if is_compressed_frame frame then wwrite w payload else w), WOk).

(* ---- WriteFile, uncompressed: splitReader + cb.  `reads` = what successive r.Read calls return:
        (bytes, eof);  the list ends at the first eof, or without one when the reader failed. *)
Definition set_rsv1 (fr : list N) : list N :=
  match fr with b0 :: r => N.lor b0 64 :: r | [] => [] end.

Definition file_cb (c : wcfg) (closed : bool) (op : N) (index : nat) (eof : bool) (p key : list N) : option (list N) * wres :=
  let op' := if (0 <? index)%nat then 0 else op in
  match gen_frame c op' [p] {| fc_fin := eof; fc_compress := false; fc_broadcast := false; fc_check := false |} key [] with
  | GFrame fr =>
      let fr' := if w_pmd c && (index =? 0)%nat then set_rsv1 fr else fr in
      if closed then (None, WErrClosed) else (Some fr', WOk)
  | GErrEncoding => (None, WErrEncoding)
  | GErrTooLarge => (None, WErrTooLarge)
  | GPanic => (None, WPanic)
  end.

Inductive fres := FOk | FReaderErr | FErr (e : wres).

Fixpoint split_reader (c : wcfg) (op : N) (index : nat) (reads : list (list N * bool)) (keys : list (list N))
  : list (list N) * fres :=
  match reads with
  | [] => ([], FReaderErr)
  | (p, eof) :: rest =>
      let key := hd [] keys in
      match file_cb c false op index eof p key with
      | (Some fr, _) =>
          if eof then ([fr], FOk)
          else let '(frs, r) := split_reader c op (S index) rest (tl keys) in (fr :: frs, r)
      | (None, e) => ([], FErr e)
      end
  end.

(* ---- WriteFile, compressed: flateWriter.  `writes` = the successive Write(p) calls the flate library
        performs on it (their concatenation is the raw deflate stream); buffers hold at most
        cap - 14 bytes each, cap = pool capacity for max(segmentSize, len p). *)
Record fw_state := { fw_index : nat; fw_buffers : list (list N * nat) (* contents, capacity *) }.

Definition pool_cap (n : nat) : nat := Z.to_nat (Pool.pool_cap (Z.of_nat n)).

Definition fw_should_call (s : fw_state) : bool :=
  match fw_buffers s with
  | _ :: rest => (1 <=? length rest)%nat && (4 <=? fold_left (fun a b => a + length (fst b)) rest 0)%nat
  | [] => false
  end.

Definition fw_write_buf (s : fw_state) (p : list N) : fw_state :=
  let size := Nat.max segment_size (length p) in
  let bufs := match fw_buffers s with [] => [([], pool_cap size)] | b => b end in
  let '(tail, tcap) := last bufs ([], 0%nat) in
  if (tcap <? length tail + length p + header_size)%nat
  then {| fw_index := fw_index s; fw_buffers := bufs ++ [(p, pool_cap size)] |}
  else {| fw_index := fw_index s; fw_buffers := removelast bufs ++ [(tail ++ p, tcap)] |}.

(* Write: returns the segment handed to cb (if any) *)
Definition fw_write (s : fw_state) (p : list N) : fw_state * option (nat * list N) :=
  let s1 := fw_write_buf s p in
  if fw_should_call s1 then
    match fw_buffers s1 with
    | (b0, _) :: rest => ({| fw_index := S (fw_index s1); fw_buffers := rest |}, Some (fw_index s1, b0))
    | [] => (s1, None)
    end
  else (s1, None).

(* Flush: None = index-out-of-range panic when nothing was ever written *)
Definition fw_flush (s : fw_state) : option (nat * list N) :=
  match fw_buffers s with
  | [] => None
  | (b0, _) :: rest => Some (fw_index s, strip_tail (b0 ++ concat (map fst rest)))
  end.

(* the segments (index, eof, bytes) a sequence of library writes followed by Flush hands to cb *)
Fixpoint fw_run (s : fw_state) (writes : list (list N)) : option (list (nat * bool * list N)) :=
  match writes with
  | [] => match fw_flush s with Some (i, b) => Some [(i, true, b)] | None => None end
  | p :: rest =>
      let '(s', seg) := fw_write s p in
      match fw_run s' rest with
      | Some l => Some (match seg with Some (i, b) => (i, false, b) :: l | None => l end)
      | None => None
      end
  end.

End Writer.
