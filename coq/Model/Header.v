(* Model of frameHeader (types.go): the Get* accessors with Go's uint8 shifts, SetLength,
   GenerateHeader, Parse (over a byte stream), int(uint64) conversion.  No proofs here. *)
From Gws Require Import Lib.Base Spec.Rfc6455 Gen.Consts.
Local Open Scope N_scope.

(* uint8 shift left / right *)
Definition shl8 (x k : N) : N := (N.shiftl x k) mod 2 ^ 8.
Definition shr8 (x k : N) : N := N.shiftr x k.

Definition get_fin (b0 : N) : bool := shr8 b0 7 =? 1.
Definition get_rsv1 (b0 : N) : bool := shr8 (shl8 b0 1) 7 =? 1.
Definition get_rsv2 (b0 : N) : bool := shr8 (shl8 b0 2) 7 =? 1.
Definition get_rsv3 (b0 : N) : bool := shr8 (shl8 b0 3) 7 =? 1.
Definition get_opcode (b0 : N) : N := shr8 (shl8 b0 4) 4.
Definition get_mask (b1 : N) : bool := shr8 b1 7 =? 1.
Definition get_lencode (b1 : N) : N := shr8 (shl8 b1 1) 1.

(* Go: int(x) for x uint64 on a 64-bit platform *)
Definition int_of_u64 (v : N) : Z := if v <? 2 ^ 63 then Z.of_N v else (Z.of_N v - 2 ^ 64)%Z.
(* Go: uint64(x) for x int *)
Definition u64_of_int (z : Z) : N := Z.to_N (z mod 2 ^ 64)%Z.

Definition thresholdV1 : N := Z.to_N internal_ThresholdV1.
Definition thresholdV2 : N := Z.to_N internal_ThresholdV2.
Definition header_size : nat := Z.to_nat gws_frameHeaderSize.

(* SetLength on a header whose byte 1 is still 0: (value of byte 1, extension bytes) *)
Definition set_length (n : N) : N * list N :=
  if n <=? thresholdV1 then (n mod 2 ^ 8, [])
  else if n <=? thresholdV2 then (126, be_store 2 (n mod 2 ^ 16))
  else (127, be_store 8 (n mod 2 ^ 64)).

(* GenerateHeader: header[:headerLength]; `key` = the four bytes PutUint32 stores for the drawn mask number *)
Definition generate_header (server fin compress : bool) (op : N) (len : Z) (key : list N) : list N :=
  let b0 := (op + (if fin then 128 else 0) + (if compress then 64 else 0)) mod 2 ^ 8 in
  let '(lc, ext) := set_length (u64_of_int len) in
  if server then [b0; lc] ++ ext else [b0; N.lor lc 128] ++ ext ++ key.

(* Parse: reads 2 bytes, then 2 or 8 length bytes, then 4 key bytes; io.ReadFull semantics on a finite
   stream: PEof partial = the stream ended (partial = some bytes of this read had arrived) *)
Record pheader := { h_b0 : N; h_b1 : N; h_len : Z; h_key : list N }.
Inductive pres := POk (h : pheader) (rest : list N) | PEof (partial : bool).

Definition read_n (k : nat) (bs : list N) : option (list N * list N) + bool :=
  if (k <=? length bs)%nat then inl (Some (firstn k bs, skipn k bs))
  else inr (negb (length bs =? 0)%nat).

Definition parse_header (bs : list N) : pres :=
  match read_n 2 bs with
  | inl (Some ([b0; b1], r)) =>
      let lc := get_lencode b1 in
      let lenres : option (Z * list N) + bool :=
        if lc =? 126 then
          match read_n 2 r with inl (Some (l, r')) => inl (Some (Z.of_N (be_load l), r')) | inl None => inr true | inr p => inr p end
        else if lc =? 127 then
          match read_n 8 r with inl (Some (l, r')) => inl (Some (int_of_u64 (be_load l), r')) | inl None => inr true | inr p => inr p end
        else inl (Some (Z.of_N lc, r)) in
      match lenres with
      | inl (Some (plen, r1)) =>
          if get_mask b1 then
            match read_n 4 r1 with
            | inl (Some (k, r2)) => POk {| h_b0 := b0; h_b1 := b1; h_len := plen; h_key := k |} r2
            | inl None => PEof true
            | inr p => PEof p
            end
          else POk {| h_b0 := b0; h_b1 := b1; h_len := plen; h_key := [] |} r1
      | inl None => PEof true
      | inr p => PEof p
      end
  | inl _ => PEof true
  | inr p => PEof p
  end.
