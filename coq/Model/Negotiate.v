(* Model of the permessage-deflate negotiation of lxzan/gws at STRING level (C12, reused by C02).

   Go code mirrored (current /repo tree), branch for branch:
     compress.go   genRequestHeader, genResponseHeader, permessageNegotiation
     option.go     initServerOption / initClientOption (PermessageDeflate part), setThreshold
     upgrader.go   Upgrader.getPermessageDeflate, `if pd.Enabled { header(genResponseHeader) }`
     client.go     request(): `if option.PermessageDeflate.Enabled { header(genRequestHeader) }`,
                   connector.getPermessageDeflate, handshake(): extensions = resp.Header.Get(..)
     internal      Split, WithDefault, Min, SelectValue
     Go library    strings.Split (one-byte separator), strings.TrimSpace, strings.SplitN(s,"=",2),
                   strings.Contains, strings.Join, strconv.Itoa, strconv.Atoi

   Strings are byte lists (list N).  Go `int` is Z; the platform is 64-bit (int = int64):
   the saturation bounds of Atoi are 2^63-1 and -2^63, stated explicitly below.

   What the model does NOT cover (stated again next to the theorems):
   - strings.TrimSpace also trims non-ASCII Unicode white space (U+0085, U+00A0, U+1680, U+2000..,
     encoded as multi-byte UTF-8).  [is_space] knows the six ASCII white-space bytes only, so the
     model equals the code on header values whose bytes are all < 0x80.
   - PoolSize (not part of the negotiated parameters).
   - the HTTP layer: the header value is assumed to travel unchanged, an absent header reads as ""
     (http.Header.Get).  The harness validates this with real handshakes.
   No proofs in this file. *)
From Gws Require Import Lib.Base Lib.Hex Gen.Consts.
From Coq Require Import Strings.String.
Local Open Scope Z_scope.

Definition bstr := list N.

(* ---- constants, taken from the regenerated Gen/Consts.v (internal/others.go) ---- *)
Definition K_PMD  : bstr := Eval vm_compute in str internal_PermessageDeflate.
Definition K_SNCT : bstr := Eval vm_compute in str internal_ServerNoContextTakeover.
Definition K_CNCT : bstr := Eval vm_compute in str internal_ClientNoContextTakeover.
Definition K_SMWB : bstr := Eval vm_compute in str internal_ServerMaxWindowBits.
Definition K_CMWB : bstr := Eval vm_compute in str internal_ClientMaxWindowBits.
Definition K_EQ   : bstr := Eval vm_compute in str internal_EQ.
Definition SEP_JOIN : bstr := [59; 32]%N.          (* "; " in strings.Join(options, "; ") *)
Definition b_semi : N := 59%N.                     (* ";" in internal.Split(str, ";") *)
Definition b_eq : N := 61%N.                       (* "=" in strings.SplitN(s, "=", 2) *)

(* ---- Go library functions ---- *)

(* strings.Split(s, sep) for a one-byte separator: never empty, Split("", ";") = [""] *)
Fixpoint split_on (sep : N) (s : bstr) : list bstr :=
  match s with
  | [] => [[]]
  | x :: r =>
    if N.eqb x sep then [] :: split_on sep r
    else match split_on sep r with
         | h :: t => (x :: h) :: t
         | [] => [[x]]
         end
  end.

(* the ASCII white space of unicode.IsSpace: '\t' '\n' '\v' '\f' '\r' ' ' *)
Definition is_space (b : N) : bool := (N.eqb b 32 || (N.leb 9 b && N.leb b 13))%N.

Fixpoint trim_left (s : bstr) : bstr :=
  match s with
  | x :: r => if is_space x then trim_left r else s
  | [] => []
  end.
Definition trim_right (s : bstr) : bstr := rev (trim_left (rev s)).
(* strings.TrimSpace on ASCII input *)
Definition trim_space (s : bstr) : bstr := trim_right (trim_left s).

Definition nonempty (s : bstr) : bool := match s with [] => false | _ => true end.

(* internal.Split(s, ";"): split, trim every piece, drop the empty ones *)
Definition utils_split (s : bstr) : list bstr :=
  filter nonempty (map trim_space (split_on b_semi s)).

(* strings.SplitN(s, "=", 2): (pair[0], Some pair[1]) when len(pair) = 2, (s, None) otherwise *)
Fixpoint cut_eq (s : bstr) : bstr * option bstr :=
  match s with
  | [] => ([], None)
  | x :: r => if N.eqb x b_eq then ([], Some r)
              else let '(k, v) := cut_eq r in (x :: k, v)
  end.

Fixpoint prefixb (p s : bstr) : bool :=
  match p, s with
  | [], _ => true
  | a :: p', b :: s' => N.eqb a b && prefixb p' s'
  | _ :: _, [] => false
  end.
(* strings.Contains *)
Fixpoint contains (s sub : bstr) : bool :=
  prefixb sub s || match s with [] => false | _ :: r => contains r sub end.

(* strings.Join *)
Fixpoint join (sep : bstr) (l : list bstr) : bstr :=
  match l with
  | [] => []
  | [x] => x
  | x :: r => x ++ sep ++ join sep r
  end.

(* strconv.Itoa = FormatInt(int64(i), 10): decimal, '-' for negatives, no padding.
   Fuel = number of binary digits + 1 >= number of decimal digits; it never runs out
   (Proofs: digits_fuel_val). *)
Fixpoint digits_fuel (f : nat) (n : Z) (acc : bstr) : bstr :=
  match f with
  | O => acc
  | S f' => let acc' := Z.to_N (48 + n mod 10) :: acc in
            if n / 10 =? 0 then acc' else digits_fuel f' (n / 10) acc'
  end.
Definition digits (n : Z) : bstr := digits_fuel (S (Z.to_nat (Z.log2 n))) n [].
Definition itoa (z : Z) : bstr := if z <? 0 then 45%N :: digits (- z) else digits z.

(* strconv.Atoi on a 64-bit platform; the error is dropped by the caller (`x, _ := Atoi(..)`),
   so only the returned value is modelled:
     - optional single sign '+' / '-';
     - nothing after the sign, or a byte that is not 0..9 met BEFORE the running value leaves
       uint64: syntax error, value 0;
     - running value exceeds 2^64-1: ParseUint stops THERE with a range error (later bytes are
       not looked at) and ParseInt saturates to 2^63-1 / -2^63;
     - all digits, value un: +un if un < 2^63 else 2^63-1;  -un if un <= 2^63 else -2^63. *)
Definition is_digit (b : N) : bool := (N.leb 48 b && N.leb b 57)%N.
Definition int_max : Z := 2 ^ 63 - 1.
Definition int_min : Z := - 2 ^ 63.
Definition uint_max : Z := 2 ^ 64 - 1.

Fixpoint scan_digits (ds : bstr) (acc : Z) : option Z :=
  match ds with
  | [] => Some acc
  | d :: r =>
    if is_digit d then
      let acc' := acc * 10 + Z.of_N (d - 48) in
      if acc' >? uint_max then Some acc' else scan_digits r acc'
    else None
  end.

Definition atoi (s : bstr) : Z :=
  let '(neg, ds) := match s with
                    | x :: r => if N.eqb x 43 then (false, r) else if N.eqb x 45 then (true, r) else (false, s)
                    | [] => (false, s)
                    end in
  match ds with
  | [] => 0
  | _ => match scan_digits ds 0 with
         | None => 0
         | Some un => if neg then (if un >? 2 ^ 63 then int_min else - un)
                      else (if un >=? 2 ^ 63 then int_max else un)
         end
  end.

(* internal.WithDefault / Min / SelectValue on int *)
Definition with_default (x d : Z) : Z := if x =? 0 then d else x.
Definition go_min (a b : Z) : Z := if a <? b then a else b.
Definition select_value {A} (ok : bool) (a b : A) : A := if ok then a else b.

(* ---- gws ---- *)

(* type PermessageDeflate (option.go) without PoolSize *)
Record PD := mkPD {
  enabled : bool;
  sct : bool;          (* ServerContextTakeover *)
  cct : bool;          (* ClientContextTakeover *)
  smwb : Z;            (* ServerMaxWindowBits *)
  cmwb : Z;            (* ClientMaxWindowBits *)
  threshold : Z;
  level : Z
}.

(* option.go initServerOption, PermessageDeflate part *)
Definition norm_server (p : PD) : PD :=
  if enabled p then
    mkPD true (sct p) (cct p)
      (if (smwb p <? 8) || (smwb p >? 15) then select_value (sct p) 12 15 else smwb p)
      (if (cmwb p <? 8) || (cmwb p >? 15) then select_value (cct p) 12 15 else cmwb p)
      (if threshold p <=? 0 then gws_defaultCompressThreshold else threshold p)
      (if level p =? 0 then gws_defaultCompressLevel else level p)
  else p.

(* option.go initClientOption, PermessageDeflate part *)
Definition norm_client (p : PD) : PD :=
  if enabled p then
    mkPD true (sct p) (cct p)
      (if (smwb p <? 8) || (smwb p >? 15) then 15 else smwb p)
      (if (cmwb p <? 8) || (cmwb p >? 15) then 15 else cmwb p)
      (if threshold p <=? 0 then gws_defaultCompressThreshold else threshold p)
      (if level p =? 0 then gws_defaultCompressLevel else level p)
  else p.

(* option.go setThreshold *)
Definition set_threshold (is_server : bool) (p : PD) : PD :=
  if (is_server && sct p) || (negb is_server && cct p)
  then mkPD (enabled p) (sct p) (cct p) (smwb p) (cmwb p) 0 (level p)
  else p.

Definition opt_if (b : bool) (x : bstr) : list bstr := if b then [x] else [].

(* compress.go genRequestHeader *)
Definition gen_request_options (c : PD) : list bstr :=
  [K_PMD]
  ++ opt_if (negb (sct c)) K_SNCT
  ++ opt_if (negb (cct c)) K_CNCT
  ++ opt_if (negb (smwb c =? 15)) (K_SMWB ++ K_EQ ++ itoa (smwb c))
  ++ (if negb (cmwb c =? 15) then [K_CMWB ++ K_EQ ++ itoa (cmwb c)]
      else if cct c then [K_CMWB] else []).
Definition gen_request_header (c : PD) : bstr := join SEP_JOIN (gen_request_options c).

(* compress.go genResponseHeader *)
Definition gen_response_options (c : PD) : list bstr :=
  [K_PMD]
  ++ opt_if (negb (sct c)) K_SNCT
  ++ opt_if (negb (cct c)) K_CNCT
  ++ opt_if (negb (smwb c =? 15)) (K_SMWB ++ K_EQ ++ itoa (smwb c))
  ++ opt_if (negb (cmwb c =? 15)) (K_CMWB ++ K_EQ ++ itoa (cmwb c)).
Definition gen_response_header (c : PD) : bstr := join SEP_JOIN (gen_response_options c).

(* compress.go permessageNegotiation: the loop body (one trimmed, non-empty piece) *)
Definition neg_step (o : PD) (s : bstr) : PD :=
  let '(k, v) := cut_eq s in
  if bytes_eqb k K_PMD then o
  else if bytes_eqb k K_SNCT then mkPD (enabled o) false (cct o) (smwb o) (cmwb o) (threshold o) (level o)
  else if bytes_eqb k K_CNCT then mkPD (enabled o) (sct o) false (smwb o) (cmwb o) (threshold o) (level o)
  else if bytes_eqb k K_SMWB then
    match v with
    | Some v => let x := with_default (atoi v) 15 in
                mkPD (enabled o) (sct o) (cct o) (go_min (smwb o) x) (cmwb o) (threshold o) (level o)
    | None => o
    end
  else if bytes_eqb k K_CMWB then
    match v with
    | Some v => let x := with_default (atoi v) 15 in
                mkPD (enabled o) (sct o) (cct o) (smwb o) (go_min (cmwb o) x) (threshold o) (level o)
    | None => o
    end
  else o.

Definition neg_init : PD := mkPD false true true 15 15 0 0.

Definition neg_clamp (o : PD) : PD :=
  mkPD (enabled o) (sct o) (cct o)
    (select_value (smwb o <? 8) 8 (smwb o))
    (select_value (cmwb o <? 8) 8 (cmwb o))
    (threshold o) (level o).

Definition permessage_negotiation (s : bstr) : PD :=
  neg_clamp (fold_left neg_step (utils_split s) neg_init).

(* upgrader.go Upgrader.getPermessageDeflate; serverPD = the normalised option *)
Definition server_get_pd (serverPD : PD) (extensions : bstr) : PD :=
  let clientPD := permessage_negotiation extensions in
  set_threshold true
    (mkPD (enabled serverPD && contains extensions K_PMD)
          (sct clientPD && sct serverPD)
          (cct clientPD && cct serverPD)
          (smwb serverPD) (cmwb serverPD)
          (threshold serverPD) (level serverPD)).

(* client.go connector.getPermessageDeflate; clientPD = the normalised option *)
Definition client_get_pd (clientPD : PD) (extensions : bstr) : PD :=
  let serverPD := permessage_negotiation extensions in
  set_threshold false
    (mkPD (enabled clientPD && contains extensions K_PMD)
          (sct serverPD) (cct serverPD) (smwb serverPD) (cmwb serverPD)
          (threshold clientPD) (level clientPD)).

(* ---- one gws-to-gws handshake: s = server settings, c = client settings (raw, any integers) ---- *)

(* client.go request(): Sec-WebSocket-Extensions is set iff the (normalised) option is enabled;
   an absent header reads as "" on the other side *)
Definition offer_header (c : PD) : bstr :=
  let c' := norm_client c in if enabled c' then gen_request_header c' else [].

Definition server_view (s c : PD) : PD := server_get_pd (norm_server s) (offer_header c).

(* upgrader.go doUpgradeFromConn: the response carries the header iff the negotiated pd is enabled *)
Definition response_header (s c : PD) : bstr :=
  let sv := server_view s c in if enabled sv then gen_response_header sv else [].

Definition client_view (s c : PD) : PD := client_get_pd (norm_client c) (response_header s c).
