(* Model of the close-status logic: StatusCode.Bytes, emitClose's classification (conn.go), WriteClose /
   writeClose body building and truncation (writer.go), emitError's status mapping (conn.go). No proofs here. *)
From Gws Require Import Lib.Base Gen.Consts.
Local Open Scope N_scope.

Definition sc_normal : N := Z.to_N internal_CloseNormalClosure.
Definition sc_going_away : N := Z.to_N internal_CloseGoingAway.
Definition sc_protocol : N := Z.to_N internal_CloseProtocolError.
Definition sc_unsupported_data : N := Z.to_N internal_CloseUnsupportedData.
Definition sc_too_large : N := Z.to_N internal_CloseMessageTooLarge.
Definition sc_internal : N := Z.to_N internal_CloseInternalErr.

(* StatusCode.Bytes on a uint16: {} for 0, else {uint8(c >> 8), uint8(c << 8 >> 8)} *)
Definition status_bytes (c : N) : list N :=
  if c =? 0 then [] else [(N.shiftr c 8) mod 2 ^ 8; (N.shiftr ((N.shiftl c 8) mod 2 ^ 16) 8) mod 2 ^ 8].

(* the reply-status table of emitClose: `switch realCode {...}` on a two-byte status *)
Definition close_class (real : N) : N :=
  if (real =? 1004) || (real =? 1005) || (real =? 1006) || (real =? 1015) then sc_protocol
  else if (real <? 1000) || (5000 <=? real) || ((1016 <=? real) && (real <? 3000)) then sc_protocol
  else if real <? 1016 then sc_normal
  else real.

Section Close.
Variable utf8_valid : list N -> bool.

Definition check_encoding8 (enabled : bool) (p : list N) : bool := if enabled then utf8_valid p else true.

(* emitClose on the payload of a received Close frame: (code reported to OnClose, reason reported, reply status) *)
Definition emit_close (utf8_on : bool) (body : list N) : N * list N * N :=
  match body with
  | [] => (0, [], 0)
  | [b] => (b, [], sc_protocol)
  | b0 :: b1 :: reason =>
      let real := b0 * 2 ^ 8 + b1 in       (* binary.BigEndian.Uint16 *)
      let resp := close_class real in
      let resp := if check_encoding8 utf8_on reason then resp else sc_unsupported_data in
      (real, reason, resp)
  end.

(* payload of the Close frame written in reply *)
Definition close_reply_body (utf8_on : bool) (body : list N) : list N :=
  let '(_, _, resp) := emit_close utf8_on body in status_bytes resp.

(* writeClose: the body is cut to ThresholdV1 bytes *)
Definition truncate_body (b : list N) : list N := firstn (Z.to_nat internal_ThresholdV1) b.

(* WriteClose(code uint16, reason): body of the Close frame a local close puts on the wire *)
Definition local_close_body (code : N) (reason : list N) : list N :=
  let code' := if code <? 1000 then 1000 else code in
  truncate_body (status_bytes code' ++ reason).

(* emitError: which status the Close frame carries.  err classes: a bare StatusCode, *internal.Error with a code,
   any other error; reading = the error came from the read loop *)
Inductive err_class := EStatus (c : N) | ECoded (c : N) | EOther.
Definition emit_error_status (reading : bool) (e : err_class) : N :=
  if reading then match e with EStatus c => c | ECoded c => c | EOther => sc_normal end
  else sc_going_away.

(* emitError: reason = append(sendCode.Bytes(), sendErr.Error()...), handed to writeClose, which cuts it *)
Definition error_close_body (reading : bool) (e : err_class) (text : list N) : list N :=
  truncate_body (status_bytes (emit_error_status reading e) ++ text).

End Close.
