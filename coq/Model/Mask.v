(* Model of internal.MaskXOR (internal/utils.go) and internal.MaskByByte.
   Mirrors the Go: key32 := LittleEndian.Uint32(key); key64 := key32<<32 + key32;
   a loop over 64-byte blocks (8 little-endian 64-bit words each), a loop over 8-byte words,
   a byte loop over the tail with key[i&3].  None = Go runtime panic. *)
From Gws Require Import Lib.Base.
Local Open Scope N_scope.

Fixpoint le_load (bs : list N) : N :=
  match bs with [] => 0 | b :: r => b + 2 ^ 8 * le_load r end.

Fixpoint le_store (k : nat) (v : N) : list N :=
  match k with O => [] | S k' => (v mod 2 ^ 8) :: le_store k' (v / 2 ^ 8) end.

Fixpoint xor_list (a b : list N) : list N :=
  match a, b with x :: a', y :: b' => N.lxor x y :: xor_list a' b' | _, _ => [] end.

(* binary.LittleEndian.Uint32(key): index out of range unless len(key) >= 4 *)
Definition key32 (key : list N) : option N := w <- slice 0 4 key ;; Some (le_load w).

(* uint64(maskKey)<<32 + uint64(maskKey), in uint64 arithmetic *)
Definition key64 (m : N) : N := (N.shiftl m 32 + m) mod 2 ^ 64.

(* v := Uint64(b[0:8]); PutUint64(b[0:8], v ^ key64) *)
Definition xor_word8 (k64 : N) (w : list N) : list N := le_store 8 (N.lxor (le_load w) k64).

Fixpoint xor_words (n : nat) (k64 : N) (b : list N) : list N :=
  match n with
  | O => []
  | S n' => xor_word8 k64 (firstn 8 b) ++ xor_words n' k64 (skipn 8 b)
  end.

(* for len(b) >= blk { <blk/8 words> ; b = b[blk:] } ; returns (processed, remaining length, remaining) *)
Fixpoint word_loop (fuel : nat) (blk : nat) (k64 : N) (len : N) (b : list N) : list N * (N * list N) :=
  match fuel with
  | O => ([], (len, b))
  | S f =>
      if N.of_nat blk <=? len then
        let '(out, rest) := word_loop f blk k64 (len - N.of_nat blk) (skipn blk b) in
        (xor_words (blk / 8) k64 (firstn blk b) ++ out, rest)
      else ([], (len, b))
  end.

(* for i := 0; i < n; i++ { b[i] ^= key[i&3] } *)
Fixpoint byte_loop (i : N) (key b : list N) : list N :=
  match b with
  | [] => []
  | x :: r => N.lxor x (nth (N.to_nat (N.land i 3)) key 0) :: byte_loop (i + 1) key r
  end.

Definition mask_impl (key b : list N) : option (list N) :=
  m <- key32 key ;;
  let k64 := key64 m in
  let n := N.of_nat (length b) in
  let fuel := S (length b / 8) in
  let '(o1, (n1, b1)) := word_loop fuel 64 k64 n b in
  let '(o2, (_, b2)) := word_loop fuel 8 k64 n1 b1 in
  Some (o1 ++ o2 ++ byte_loop 0 key b2).

(* MaskByByte *)
Definition mask_by_byte (key b : list N) : list N := byte_loop 0 key b.
