(* Model of slideWindow (compress.go): initialize and Write, branch for branch.
   Go slices are lists; every slice expression is checked (None = runtime panic);
   append never panics; copy is Go's memmove-style copy (Lib/Base.v).
   The capacity is an arbitrary nat in the model; the code only ever builds 2^bits
   (internal.BinaryPow), see sw_init.  No proofs here. *)
From Gws Require Import Lib.Base.

Record window : Type := mkWindow { sw_enabled : bool; sw_dict : list N; sw_size : nat }.

(* the zero value of slideWindow: what a connection without context takeover carries *)
Definition sw_disabled : window := {| sw_enabled := false; sw_dict := []; sw_size := 0 |}.

(* slideWindow.initialize with c.size = cap: enabled, empty dict (make([]byte, 0, size) or pool.Get()[:0]) *)
Definition sw_make (cap : nat) : window := {| sw_enabled := true; sw_dict := []; sw_size := cap |}.

(* internal.BinaryPow(bits) = 1 << bits for the window-bit range (no int overflow below 63) *)
Definition sw_init (bits : nat) : window := sw_make (2 ^ bits).

(* slideWindow.Write(p); the (int, error) result is always (len p, nil) and is not modelled *)
Definition sw_write (w : window) (p : list N) : option window :=
  if negb (sw_enabled w) then Some w else                      (* if !c.enabled { return 0, nil } *)
  let n := length p in
  let len := length (sw_dict w) in
  if n + len <=? sw_size w                                     (* if n+length <= c.size *)
  then Some {| sw_enabled := true; sw_dict := sw_dict w ++ p; sw_size := sw_size w |}
  else
    let m := sw_size w - len in
    st <- (if 0 <? m                                           (* if m := c.size - length; m > 0 *)
           then hd <- slice 0 m p ;;                           (*   c.dict = append(c.dict, p[:m]...) *)
                tl <- slice m (length p) p ;;                  (*   p = p[m:]; n = len(p) *)
                Some (sw_dict w ++ hd, tl)
           else Some (sw_dict w, p)) ;;
    let '(d1, p1) := st in
    let n1 := length p1 in
    if sw_size w <=? n1                                        (* if n >= c.size *)
    then src <- slice (n1 - sw_size w) n1 p1 ;;                (*   copy(c.dict, p[n-c.size:]) *)
         Some {| sw_enabled := true; sw_dict := copy d1 src; sw_size := sw_size w |}
    else
      src1 <- slice n1 (length d1) d1 ;;                       (* copy(c.dict, c.dict[n:]) *)
      let d2 := copy d1 src1 in
      dst2 <- slice (sw_size w - n1) (length d2) d2 ;;         (* copy(c.dict[c.size-n:], p) *)
      Some {| sw_enabled := true;
              sw_dict := firstn (sw_size w - n1) d2 ++ copy dst2 p1;
              sw_size := sw_size w |}.

(* a history of writes; None as soon as one of them panics *)
Fixpoint sw_writes (w : window) (ps : list (list N)) : option window :=
  match ps with
  | [] => Some w
  | p :: r => w' <- sw_write w p ;; sw_writes w' r
  end.
