(* Sequential model of the opening handshake of lxzan/gws, starting at the PARSED HTTP message
   (net/http's parser and serialiser are trusted, not modelled).

   Server: upgrader.go  responseWriter{Init,WithHeader,WithExtraHeader,WithSubProtocol,Write},
           Upgrader.{UpgradeFromConn,doUpgradeFromConn,writeErr}; option.go deleteProtectedHeaders.
   Client: client.go    connector.{request,handshake,checkHeaders,getSubProtocol}.
   Helpers: internal/utils.go ComputeAcceptKey, InCollection, GetIntersectionElem, Split,
           HttpHeaderContains; net/textproto.CanonicalMIMEHeaderKey, http.Header.{Get,Set,Del};
           strings.EqualFold against an ASCII constant.
   Branch for branch, checks in the order of the Go code.  No proofs in this file. *)
From Coq Require Import Strings.String.
From Gws Require Import Lib.Base Lib.Hex Lib.Text Gen.Consts Model.Sha1 Model.Base64.
Local Open Scope string_scope.
Local Open Scope list_scope.
Local Open Scope N_scope.

(* byte-string literal, evaluated at definition time (so that extraction never sees Coq's string type) *)
Notation "'B' s" := (ltac:(let v := eval vm_compute in (str s) in exact v)) (at level 0, s at level 0, only parsing).

(* ------------------------------------------------------------------------------------------ *)
(* net/textproto + http.Header                                                                  *)

(* textproto.validHeaderFieldByte: RFC 7230 token characters *)
Definition token_char (c : N) : bool :=
  is_upper c || is_lower c || ((48 <=? c) && (c <=? 57)) || mem [c] (map (fun x => [x]) (B "!#$%&'*+-.^_`|~")).

(* the canonicalisation loop: first letter and letters after '-' upper case, the others lower case *)
Fixpoint canon_go (up : bool) (s : bytes) : bytes :=
  match s with
  | [] => []
  | c :: r => let c' := if up then upper c else lower c in c' :: canon_go (c' =? 45) r
  end.
(* CanonicalMIMEHeaderKey: keys containing a byte that is not a token character are left unchanged *)
Definition canon (k : bytes) : bytes := if forallb token_char k then canon_go true k else k.

(* a header map as an association list  key |-> first value  (a missing key reads as "") *)
Definition headers : Type := list (bytes * bytes).
Definition hget (h : headers) (k : bytes) : bytes :=               (* Header.Get *)
  match lookup (canon k) h with Some v => v | None => [] end.
Definition hdel (h : headers) (k : bytes) : headers :=             (* Header.Del *)
  filter (fun kv => negb (bytes_eqb (fst kv) (canon k))) h.
Definition hset (h : headers) (k v : bytes) : headers :=           (* Header.Set *)
  (canon k, v) :: hdel h k.

(* ------------------------------------------------------------------------------------------ *)
(* strings / internal helpers                                                                   *)

(* strings.EqualFold(s, pat) for an ASCII pat, on arbitrary bytes s.  Unicode simple folding adds
   exactly two non-ASCII partners of ASCII letters: U+212A KELVIN SIGN (e2 84 aa) ~ k and
   U+017F LATIN SMALL LETTER LONG S (c5 bf) ~ s.  Any other non-ASCII rune, and the RuneError of an
   invalid sequence, folds to no ASCII letter. *)
Fixpoint equal_fold (s pat : bytes) : bool :=
  match pat with
  | [] => is_nil s
  | p :: pat' =>
    match s with
    | [] => false
    | c :: s' =>
      if c <? 128 then (lower c =? lower p) && equal_fold s' pat'
      else if lower p =? 107 then
        match s with 226 :: 132 :: 170 :: s'' => equal_fold s'' pat' | _ => false end
      else if lower p =? 115 then
        match s with 197 :: 191 :: s'' => equal_fold s'' pat' | _ => false end
      else false
    end
  end.

(* internal.HttpHeaderContains(a, b) = strings.Contains(ToLower a, ToLower b), b an ASCII constant
   without k or i (the only ASCII letters some non-ASCII rune lower-cases to) *)
Definition header_contains (a b : bytes) : bool := contains (lower_s a) (lower_s b).

(* internal.Split(s, ","): strings.Split, TrimSpace each piece, drop the empty ones *)
Definition gws_split (s : bytes) : list bytes :=
  filter (fun p => negb (is_nil p)) (map trim (split_on 44 s)).

(* internal.InCollection / GetIntersectionElem: first element of a that occurs in b, else "" *)
Fixpoint intersection_elem (a b : list bytes) : bytes :=
  match a with
  | [] => []
  | x :: a' => if mem x b then x else intersection_elem a' b
  end.

(* internal.ComputeAcceptKey *)
Definition compute_accept_key (key : bytes) : bytes :=
  b64_encode (sha1 (key ++ B internal_MagicNumber)).

(* header names and values of internal/others.go (vars, hence not in Gen/Consts.v; the
   correspondence runner compares the bytes actually written) *)
Definition K_version    := B "Sec-WebSocket-Version".
Definition K_key        := B "Sec-WebSocket-Key".
Definition K_extensions := B "Sec-WebSocket-Extensions".
Definition K_connection := B "Connection".
Definition K_upgrade    := B "Upgrade".
Definition K_accept     := B "Sec-WebSocket-Accept".
Definition K_protocol   := B "Sec-WebSocket-Protocol".
Definition V_version    := B "13".
Definition V_connection := B "Upgrade".
Definition V_upgrade    := B "websocket".

(* ------------------------------------------------------------------------------------------ *)
(* server                                                                                       *)

Record request := { r_method : bytes; r_headers : headers }.

(* ServerOption as the application fills it in (before initServerOption) *)
Record server_opts := {
  so_subprotocols : list bytes;
  so_pmd : bool;                      (* PermessageDeflate.Enabled *)
  so_extra : headers                  (* ResponseHeader *)
}.

Definition protected_names : list bytes := [K_upgrade; K_connection; K_accept; K_extensions; K_protocol].

(* option.go deleteProtectedHeaders, run once by initServerOption *)
Definition delete_protected (h : headers) : headers := fold_left hdel protected_names h.

Inductive herr := EUnauthorized | EHandshake | EVersion | ESubprotocol.

Definition err_text (e : herr) : bytes :=
  match e with
  | EUnauthorized => B "unauthorized"
  | EHandshake => B "handshake error"
  | EVersion => B "gws: websocket version not supported"
  | ESubprotocol => B "sub-protocol negotiation failed"
  end.

(* what a successful upgrade produces: the header lines written after the status line
   (u_fixed by Init/WithHeader/WithSubProtocol, then u_extra by WithExtraHeader), and the two
   fields stored in the Conn *)
Record upgraded := {
  u_fixed : headers;
  u_extra : headers;
  u_subprotocol : bytes;             (* Conn.subprotocol *)
  u_pmd : bool                       (* Conn.pd.Enabled *)
}.

Inductive result := Upgraded (u : upgraded) | Rejected (e : herr).

(* responseWriter.WithExtraHeader: for k := range h { WithHeader(k, h.Get(k)) } *)
Definition with_extra_header (h : headers) : headers := map (fun kv => (fst kv, hget h (fst kv))) h.

Section Server.
  Variable authorize : request -> bool.        (* ServerOption.Authorize, session argument abstracted *)
  Variable pmd_response : bytes -> bytes.       (* pd.genResponseHeader() as a function of the offer *)

  (* Upgrader.doUpgradeFromConn *)
  Definition do_upgrade (o : server_opts) (r : request) : result :=
    let h := r_headers r in
    if negb (authorize r) then Rejected EUnauthorized else
    if negb (bytes_eqb (r_method r) (B "GET")) then Rejected EHandshake else
    if negb (equal_fold (hget h K_version) V_version) then Rejected EVersion else
    if negb (header_contains (hget h K_connection) V_connection) then Rejected EHandshake else
    if negb (equal_fold (hget h K_upgrade) V_upgrade) then Rejected EHandshake else
    (* rw.Init() *)
    let rw0 := [(K_upgrade, V_upgrade); (K_connection, V_connection)] in
    let extensions := hget h K_extensions in
    let pd_enabled := so_pmd o && contains extensions (B internal_PermessageDeflate) in
    let rw1 := if pd_enabled then rw0 ++ [(K_extensions, pmd_response extensions)] else rw0 in
    let key := hget h K_key in
    if is_nil key then Rejected EHandshake else
    let rw2 := rw1 ++ [(K_accept, compute_accept_key key)] in
    (* rw.WithSubProtocol: the error is remembered and returned by rw.Write *)
    let sub := if is_nil (so_subprotocols o) then []
               else intersection_elem (so_subprotocols o) (gws_split (hget h K_protocol)) in
    let sub_err := negb (is_nil (so_subprotocols o)) && is_nil sub in
    let rw3 := if negb (is_nil (so_subprotocols o)) && negb sub_err then rw2 ++ [(K_protocol, sub)] else rw2 in
    let extra := with_extra_header (delete_protected (so_extra o)) in
    if sub_err then Rejected ESubprotocol else
    Upgraded {| u_fixed := rw3; u_extra := extra; u_subprotocol := sub; u_pmd := pd_enabled |}.

  Definition crlf : bytes := [13; 10].
  Definition render_line (kv : bytes * bytes) : bytes := fst kv ++ B ": " ++ snd kv ++ crlf.

  (* bytes of the 101 response: Init's status line, the header lines, Write's blank line *)
  Definition response_bytes (u : upgraded) : bytes :=
    B "HTTP/1.1 101 Switching Protocols" ++ crlf
    ++ concat (map render_line (u_fixed u ++ u_extra u)) ++ crlf.

  (* Upgrader.writeErr; date = time.Now().Format(time.RFC1123), an input *)
  Definition reject_bytes (date : bytes) (e : herr) : bytes :=
    B "HTTP/1.1 400 Bad Request" ++ crlf
    ++ B "Date: " ++ date ++ crlf
    ++ B "Content-Length: " ++ itoa (N.of_nat (length (err_text e))) ++ crlf
    ++ B "Content-Type: text/plain; charset=utf-8" ++ crlf
    ++ crlf ++ err_text e.

  (* Upgrader.UpgradeFromConn on a transport that accepts every write *)
  Record outcome := {
    o_conn : option upgraded;          (* returned *Conn (nil = None); err != nil iff None *)
    o_written : bytes;                 (* everything written to the transport *)
    o_closed : bool                    (* conn.Close() called *)
  }.

  Definition upgrade_from_conn (date : bytes) (o : server_opts) (r : request) : outcome :=
    match do_upgrade o r with
    | Upgraded u => {| o_conn := Some u; o_written := response_bytes u; o_closed := false |}
    | Rejected e => {| o_conn := None; o_written := reject_bytes date e; o_closed := true |}
    end.
End Server.

(* ------------------------------------------------------------------------------------------ *)
(* client                                                                                       *)

(* the 16 key bytes: two Uint64 draws written big-endian; then base64 *)
Definition key_bytes (x y : N) : bytes := be_bytes 8 x ++ be_bytes 8 y.
Definition gen_key (x y : N) : bytes := b64_encode (key_bytes x y).

(* connector.request: the header map handed to http.Request.Write.
   request_header = ClientOption.RequestHeader copied key by key (spelling kept);
   pmd_request = Some (genRequestHeader()) when PermessageDeflate.Enabled *)
Definition client_request (request_header : headers) (pmd_request : option bytes) (x y : N) : headers :=
  let h1 := hset request_header K_connection V_connection in
  let h2 := hset h1 K_upgrade V_upgrade in
  let h3 := hset h2 K_version V_version in
  let h4 := match pmd_request with Some e => hset h3 K_extensions e | None => h3 end in
  hset h4 K_key (gen_key x y).

Record response := { rs_status : N; rs_headers : headers }.

Inductive cerr := CStatus | CConnection | CUpgrade | CAccept | CSubprotocol.
Inductive cresult := CAccepted (subprotocol : bytes) | CRejected (e : cerr).

(* connector.checkHeaders *)
Definition check_headers (key : bytes) (rs : response) : option cerr :=
  let h := rs_headers rs in
  if negb (rs_status rs =? 101) then Some CStatus else
  if negb (header_contains (hget h K_connection) V_connection) then Some CConnection else
  if negb (equal_fold (hget h K_upgrade) V_upgrade) then Some CUpgrade else
  if negb (bytes_eqb (hget h K_accept) (compute_accept_key key)) then Some CAccept else
  None.

(* connector.getSubProtocol (after 7af9453): Get, then the first spelling equal under folding.
   Go iterates the map in random order; the list order stands for it (the harness never configures
   two spellings of this key at once). *)
Definition requested_protocols (request_header : headers) : bytes :=
  fold_left (fun req kv => if is_nil req && equal_fold (fst kv) K_protocol then snd kv else req)
            request_header (hget request_header K_protocol).

Definition get_subprotocol (request_header : headers) (rs : response) : cresult :=
  let a := gws_split (requested_protocols request_header) in
  let b := gws_split (hget (rs_headers rs) K_protocol) in
  let sub := intersection_elem a b in
  if negb (is_nil a) && is_nil sub then CRejected CSubprotocol else CAccepted sub.

(* connector.handshake after request() returned a parsed response; on CRejected the callers
   NewClient / NewClientFromConn close the transport and return (nil, resp, err) *)
Definition client_handshake (key : bytes) (request_header : headers) (rs : response) : cresult :=
  match check_headers key rs with
  | Some e => CRejected e
  | None => get_subprotocol request_header rs
  end.
