(* Model of the UTF-8 gate of gws (property C16).

   1. Go's unicode/utf8.Valid (go1.23, src/unicode/utf8/utf8.go), transcribed as the table/range
      driven algorithm it is: the 256-entry `first` table (high nibble = index into acceptRanges,
      low three bits = sequence length; xx = 0xF1 illegal starter, as = 0xF0 ASCII), the 16-entry
      acceptRanges array for the SECOND byte, locb..hicb for the later ones, "i+size > n" = short.
      The 8-bytes-at-a-time ASCII fast path in front of the loop is modelled too (skip_ascii8:
      while len(p) >= 8 and none of p[0..7] has bit 7 set, p = p[8:]); the two 32-bit loads
      first32|second32 & 0x80808080 are modelled as "some of the eight bytes has bit 0x80 set".
      The main loop walks the remaining slice (the model keeps p[i:] instead of the index i) with
      explicit fuel; None = out of fuel or an index expression out of range (a Go panic).
   2. internal.CheckEncoding, Bytes.CheckEncoding, Buffers.CheckEncoding (internal/io.go, after
      commit ad94fcf) and the pre-fix Buffers.CheckEncoding (slice by slice, defect D6).
   3. The three call sites: genFrame's write gate (writer.go), emitMessage's read gate (reader.go,
      on the reassembled and inflated payload), emitClose's reason check (conn.go).
   No proofs here. *)
From Gws Require Import Lib.Base.
Local Open Scope N_scope.

(* ---- unicode/utf8 constants ---- *)
Definition RuneSelf : N := 0x80.
Definition locb : N := 0x80.
Definition hicb : N := 0xBF.
Definition xx : N := 0xF1.   (* invalid: size 1 *)
Definition as_ : N := 0xF0.  (* ASCII: size 1 *)
Definition s1 : N := 0x02.   (* accept 0, size 2 *)
Definition s2 : N := 0x13.   (* accept 1, size 3 *)
Definition s3 : N := 0x03.   (* accept 0, size 3 *)
Definition s4 : N := 0x23.   (* accept 2, size 3 *)
Definition s5 : N := 0x34.   (* accept 3, size 4 *)
Definition s6 : N := 0x04.   (* accept 0, size 4 *)
Definition s7 : N := 0x44.   (* accept 4, size 4 *)

(* var first = [256]uint8{...}, row by row as in the Go source *)
Definition first_table : list N :=
  [ as_; as_; as_; as_; as_; as_; as_; as_; as_; as_; as_; as_; as_; as_; as_; as_;   (* 0x00-0x0F *)
    as_; as_; as_; as_; as_; as_; as_; as_; as_; as_; as_; as_; as_; as_; as_; as_;   (* 0x10-0x1F *)
    as_; as_; as_; as_; as_; as_; as_; as_; as_; as_; as_; as_; as_; as_; as_; as_;   (* 0x20-0x2F *)
    as_; as_; as_; as_; as_; as_; as_; as_; as_; as_; as_; as_; as_; as_; as_; as_;   (* 0x30-0x3F *)
    as_; as_; as_; as_; as_; as_; as_; as_; as_; as_; as_; as_; as_; as_; as_; as_;   (* 0x40-0x4F *)
    as_; as_; as_; as_; as_; as_; as_; as_; as_; as_; as_; as_; as_; as_; as_; as_;   (* 0x50-0x5F *)
    as_; as_; as_; as_; as_; as_; as_; as_; as_; as_; as_; as_; as_; as_; as_; as_;   (* 0x60-0x6F *)
    as_; as_; as_; as_; as_; as_; as_; as_; as_; as_; as_; as_; as_; as_; as_; as_;   (* 0x70-0x7F *)
    xx; xx; xx; xx; xx; xx; xx; xx; xx; xx; xx; xx; xx; xx; xx; xx;                   (* 0x80-0x8F *)
    xx; xx; xx; xx; xx; xx; xx; xx; xx; xx; xx; xx; xx; xx; xx; xx;                   (* 0x90-0x9F *)
    xx; xx; xx; xx; xx; xx; xx; xx; xx; xx; xx; xx; xx; xx; xx; xx;                   (* 0xA0-0xAF *)
    xx; xx; xx; xx; xx; xx; xx; xx; xx; xx; xx; xx; xx; xx; xx; xx;                   (* 0xB0-0xBF *)
    xx; xx; s1; s1; s1; s1; s1; s1; s1; s1; s1; s1; s1; s1; s1; s1;                   (* 0xC0-0xCF *)
    s1; s1; s1; s1; s1; s1; s1; s1; s1; s1; s1; s1; s1; s1; s1; s1;                   (* 0xD0-0xDF *)
    s2; s3; s3; s3; s3; s3; s3; s3; s3; s3; s3; s3; s3; s4; s3; s3;                   (* 0xE0-0xEF *)
    s5; s6; s6; s6; s7; xx; xx; xx; xx; xx; xx; xx; xx; xx; xx; xx ].                 (* 0xF0-0xFF *)

(* first[b] for a uint8 b; a value that is not a byte has no table entry (xx) *)
Definition first (b : N) : N := nth (N.to_nat b) first_table xx.

(* var acceptRanges = [16]acceptRange{0: {locb, hicb}, 1: {0xA0, hicb}, 2: {locb, 0x9F}, 3: {0x90, hicb}, 4: {locb, 0x8F}} *)
Definition accept_ranges : list (N * N) :=
  [ (locb, hicb); (0xA0, hicb); (locb, 0x9F); (0x90, hicb); (locb, 0x8F);
    (0, 0); (0, 0); (0, 0); (0, 0); (0, 0); (0, 0); (0, 0); (0, 0); (0, 0); (0, 0); (0, 0) ].

(* ---- utf8.Valid ---- *)

(* len(p) >= n, without walking the whole list (the model is also run on 70 kB payloads) *)
Fixpoint len_ge (n : nat) (p : list N) : bool :=
  match n with
  | O => true
  | S n' => match p with [] => false | _ :: r => len_ge n' r end
  end.

(* (first32|second32)&0x80808080 != 0 over p[0..7] *)
Definition has_high_bit (w : list N) : bool := existsb (fun b => negb (N.land b 0x80 =? 0)) w.

(* for len(p) >= 8 { if <non ASCII among p[0..7]> { break }; p = p[8:] } *)
Fixpoint skip_ascii8 (fuel : nat) (p : list N) : list N :=
  match fuel with
  | O => p
  | S f =>
      if len_ge 8 p then
        if has_high_bit (firstn 8 p) then p else skip_ascii8 f (skipn 8 p)
      else p
  end.

(* n := len(p); for i := 0; i < n; { ... }      -- the argument is p[i:] *)
Fixpoint valid_loop (fuel : nat) (p : list N) : option bool :=
  match fuel with
  | O => None
  | S f =>
      match p with
      | [] => Some true                                   (* i >= n: return true *)
      | pi :: _ =>
          if pi <? RuneSelf then valid_loop f (skipn 1 p) (* i++; continue *)
          else
            let x := first pi in
            if x =? xx then Some false                    (* illegal starter byte *)
            else
              let size := N.to_nat (N.land x 7) in
              if negb (len_ge size p) then Some false     (* i+size > n: short *)
              else
                accept <- nth_error accept_ranges (N.to_nat (N.shiftr x 4)) ;;
                c1 <- nth_error p 1 ;;                    (* p[i+1] *)
                if (c1 <? fst accept) || (snd accept <? c1) then Some false
                else if (size =? 2)%nat then valid_loop f (skipn size p)
                else
                  c2 <- nth_error p 2 ;;                  (* p[i+2] *)
                  if (c2 <? locb) || (hicb <? c2) then Some false
                  else if (size =? 3)%nat then valid_loop f (skipn size p)
                  else
                    c3 <- nth_error p 3 ;;                (* p[i+3] *)
                    if (c3 <? locb) || (hicb <? c3) then Some false
                    else valid_loop f (skipn size p)      (* i += size *)
      end
  end.

(* None = the model ran out of fuel or indexed out of range; Proofs/Utf8Proofs.v shows it never happens *)
Definition utf8_valid_opt (p : list N) : option bool :=
  let p' := skip_ascii8 (length p) p in
  valid_loop (S (length p')) p'.

Definition utf8_valid (p : list N) : bool :=
  match utf8_valid_opt p with Some b => b | None => false end.

(* the plain per-byte loop without the fast path (what utf8.ValidString's tail and the loop above do) *)
Definition utf8_valid_slow (p : list N) : bool :=
  match valid_loop (S (length p)) p with Some b => b | None => false end.

(* ---- internal/io.go ---- *)

(* func CheckEncoding(enabled bool, opcode uint8, payload []byte) bool *)
Definition check_encoding (enabled : bool) (opcode : N) (payload : list N) : bool :=
  if enabled && ((opcode =? 1) || (opcode =? 8)) then utf8_valid payload else true.

(* func (b Bytes) CheckEncoding(enabled bool, opcode uint8) bool *)
Definition bytes_check (enabled : bool) (opcode : N) (b : list N) : bool :=
  check_encoding enabled opcode b.

(* func (b Buffers) CheckEncoding(enabled bool, opcode uint8) bool   -- current code (ad94fcf) *)
Definition buffers_check (enabled : bool) (opcode : N) (b : list (list N)) : bool :=
  match b with
  | [x] => check_encoding enabled opcode x                           (* len(b) == 1 *)
  | _ => if enabled && ((opcode =? 1) || (opcode =? 8))
         then utf8_valid (concat b)                                  (* bytes.Join(b, nil) *)
         else true
  end.

(* the code before ad94fcf: for i := range b { if !CheckEncoding(enabled, opcode, b[i]) { return false } }; return true *)
Definition buffers_check_prefix (enabled : bool) (opcode : N) (b : list (list N)) : bool :=
  forallb (check_encoding enabled opcode) b.

(* ---- call sites ---- *)

(* writer.go genFrame: if opcode == OpcodeText && !payload.CheckEncoding(cfg.checkEncoding, uint8(opcode)) { return nil, ErrTextEncoding }
   true = the call goes on to build and write the frame; cfg.checkEncoding = Config.CheckUtf8Enabled in doWrite *)
Definition write_gate_bytes (check_utf8 : bool) (opcode : N) (payload : list N) : bool :=
  negb ((opcode =? 1) && negb (bytes_check check_utf8 opcode payload)).
Definition write_gate_buffers (check_utf8 : bool) (opcode : N) (slices : list (list N)) : bool :=
  negb ((opcode =? 1) && negb (buffers_check check_utf8 opcode slices)).

(* reader.go emitMessage, after reassembly (continuationFrame.buffer) and inflation:
   if !internal.CheckEncoding(c.config.CheckUtf8Enabled, uint8(msg.Opcode), msg.Bytes()) { return NewError(CloseUnsupportedData, ErrTextEncoding) }
   None = delivered to OnMessage; Some 1007 = the read loop fails the connection with that status *)
Definition CloseUnsupportedData : N := 1007.
Definition read_gate (check_utf8 : bool) (opcode : N) (payload : list N) : option N :=
  if check_encoding check_utf8 opcode payload then None else Some CloseUnsupportedData.

(* conn.go emitClose, `default:` arm (Close body of two bytes or more): the status echoed for the peer's
   code, overridden by 1007 when the reason fails the encoding check with opcode 8 *)
Definition close_response_code (check_utf8 : bool) (real_code : N) (reason : list N) : N :=
  let by_code :=
    if (real_code =? 1004) || (real_code =? 1005) || (real_code =? 1006) || (real_code =? 1015) then 1002
    else if (real_code <? 1000) || (5000 <=? real_code) || ((1016 <=? real_code) && (real_code <? 3000)) then 1002
    else if real_code <? 1016 then 1000
    else real_code in
  if negb (check_encoding check_utf8 8 reason) then CloseUnsupportedData else by_code.
