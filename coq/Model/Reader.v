(* Model of the inbound path: Conn.readMessage, readControl, checkMask, emitMessage (reader.go), the
   reassembly state (types.go continuationFrame), emitClose (via Model/CloseCode.v), on a finite byte stream.
   Statement by statement, in the order of the Go code (the order decides which status wins when two
   violations co-occur).  Parameters: UTF-8 validator, inflater (klauspost, with the output limit), window.
   No proofs here. *)
From Gws Require Import Lib.Base Spec.Rfc6455 Model.Mask Model.Header Model.Pool Model.CloseCode Gen.Consts.
Local Open Scope N_scope.

(* var flateTail = 9 bytes: 00 00 ff ff 01 00 00 ff ff (compress.go) *)
Definition flate_tail9 : list N := [0; 0; 255; 255; 1; 0; 0; 255; 255].

Section Reader.
Variable utf8_valid : list N -> bool.
(* deflater.Decompress: inflate `src` (compressed ++ tail) with preset dictionary `dict`, output limited to `limit`
   bytes (limitReader): None = corrupt input or limit exceeded *)
Variable inflate : list N -> list N -> Z -> option (list N).
Variable W : Type.
Variable wdict : W -> list N.
Variable wwrite : W -> list N -> W.

Record rcfg := { r_server : bool; r_pmd : bool; r_limit : Z; r_utf8 : bool }.

Record rstate := { cf_init : bool; cf_comp : bool; cf_op : N; cf_buf : list N; r_dps : W }.

Definition cf_reset (st : rstate) : rstate :=
  {| cf_init := false; cf_comp := false; cf_op := 0; cf_buf := []; r_dps := r_dps st |}.

Inductive event := EvMsg (op : N) (p : list N) | EvPing (p : list N) | EvPong (p : list N).

Inductive outcome :=
| OMore (st : rstate) (partial : bool)   (* the stream ended: at a read boundary (io.EOF) or inside a read (unexpected EOF) *)
| OFail (status : N)                     (* gws fails the connection with this close status *)
| OPeerClose (code : N) (reason : list N) (reply : N)
| OPanic                                 (* the Go code would panic (slice bounds) *)
| OFuel.

Inductive step :=
| SCont (evs : list event) (st : rstate) (rest : list N)
| SStop (evs : list event) (o : outcome).

Definition check_enc (enabled : bool) (op : N) (p : list N) : bool :=
  if enabled && ((op =? 1) || (op =? 8)) then utf8_valid p else true.

Definition emit_message (c : rcfg) (st : rstate) (op : N) (data : list N) (compressed : bool) (rest : list N) : step :=
  let res : option (list N * rstate) :=
    if compressed then
      match inflate (wdict (r_dps st)) (data ++ flate_tail9) (r_limit c) with
      | None => None
      | Some out => Some (out, {| cf_init := cf_init st; cf_comp := cf_comp st; cf_op := cf_op st; cf_buf := cf_buf st;
                                  r_dps := wwrite (r_dps st) out |})
      end
    else Some (data, st) in
  match res with
  | None => SStop [] (OFail sc_internal)
  | Some (d, st') =>
      if check_enc (r_utf8 c) op d then SCont [EvMsg op d] st' rest
      else SStop [] (OFail sc_unsupported_data)
  end.

Definition unmask (masked : bool) (key p : list N) : option (list N) :=
  if masked then mask_impl key p else Some p.

Definition read_control (c : rcfg) (st : rstate) (h : pheader) (rest : list N) : step :=
  let b0 := h_b0 h in let b1 := h_b1 h in
  if negb (get_fin b0) then SStop [] (OFail sc_protocol) else
  let n := get_lencode b1 in
  if thresholdV1 <? n then SStop [] (OFail sc_protocol) else
  let rd : option (list N * list N) + bool :=
    if 0 <? n then read_n (N.to_nat n) rest else inl (Some ([], rest)) in
  match rd with
  | inr partial => SStop [] (OMore st partial)
  | inl None => SStop [] OPanic
  | inl (Some (raw, rest')) =>
      match (if 0 <? n then unmask (get_mask b1) (h_key h) raw else Some raw) with
      | None => SStop [] OPanic
      | Some payload =>
          let op := get_opcode b0 in
          if op =? Z.to_N gws_OpcodePing then SCont [EvPing payload] st rest'
          else if op =? Z.to_N gws_OpcodePong then SCont [EvPong payload] st rest'
          else if op =? Z.to_N gws_OpcodeCloseConnection then
            let '(code, reason, reply) := emit_close utf8_valid (r_utf8 c) payload in
            SStop [] (OPeerClose code reason reply)
          else SStop [] (OFail sc_protocol)
      end
  end.

Definition is_data_op (op : N) : bool := op <=? Z.to_N gws_OpcodeBinary.

Definition read_message (c : rcfg) (st : rstate) (bs : list N) : step :=
  match parse_header bs with
  | PEof partial => SStop [] (OMore st partial)
  | POk h rest =>
      let b0 := h_b0 h in let b1 := h_b1 h in let plen := h_len h in
      if (plen <? 0)%Z || (plen >? r_limit c)%Z then SStop [] (OFail sc_too_large) else
      if get_rsv2 b0 || get_rsv3 b0 || (get_rsv1 b0 && negb (r_pmd c)) then SStop [] (OFail sc_protocol) else
      let masked := get_mask b1 in
      if (r_server c && negb masked) || (negb (r_server c) && masked) then SStop [] (OFail sc_protocol) else
      let op := get_opcode b0 in
      let compressed := r_pmd c && get_rsv1 b0 in
      if compressed && (negb (is_data_op op) || (op =? 0)) then SStop [] (OFail sc_protocol) else
      if negb (is_data_op op) then read_control c st h rest else
      let fin := get_fin b0 in
      (* binaryPool.Get(contentLength + len(flateTail)); buf.Bytes()[:contentLength] *)
      if (pool_cap (plen + 9) <? plen)%Z then SStop [] OPanic else
      match read_n (Z.to_nat plen) rest with
      | inr partial => SStop [] (OMore st partial)
      | inl None => SStop [] OPanic
      | inl (Some (raw, rest')) =>
          match unmask masked (h_key h) raw with
          | None => SStop [] OPanic
          | Some p =>
              if negb (op =? 0) && cf_init st then SStop [] (OFail sc_protocol) else
              if fin && negb (op =? 0) then emit_message c st op p compressed rest' else
              let st1 := if negb fin && negb (op =? 0)
                         then {| cf_init := true; cf_comp := compressed; cf_op := op; cf_buf := []; r_dps := r_dps st |}
                         else st in
              if negb (cf_init st1) then SStop [] (OFail sc_protocol) else
              let buf := cf_buf st1 ++ p in
              let st2 := {| cf_init := cf_init st1; cf_comp := cf_comp st1; cf_op := cf_op st1; cf_buf := buf; r_dps := r_dps st1 |} in
              if (Z.of_nat (length buf) >? r_limit c)%Z then SStop [] (OFail sc_too_large) else
              if negb fin then SCont [] st2 rest' else
              emit_message c (cf_reset st2) (cf_op st2) buf (cf_comp st2) rest'
          end
      end
  end.

(* ReadLoop's `for { readMessage }` on a finite stream *)
Fixpoint read_stream (fuel : nat) (c : rcfg) (st : rstate) (bs : list N) : list event * outcome :=
  match fuel with
  | O => ([], OFuel)
  | S f =>
      match read_message c st bs with
      | SStop evs o => (evs, o)
      | SCont evs st' rest => let '(evs', o) := read_stream f c st' rest in (evs ++ evs', o)
      end
  end.

Definition r_init (w : W) : rstate := {| cf_init := false; cf_comp := false; cf_op := 0; cf_buf := []; r_dps := w |}.

End Reader.
