(* RFC 6455 5.3: transformed-octet-i = original-octet-i XOR masking-key-octet-(i MOD 4).
   Written without reference to the implementation. *)
From Gws Require Import Lib.Base.
Local Open Scope N_scope.

Fixpoint mask_from (i : N) (key b : list N) : list N :=
  match b with
  | [] => []
  | x :: r => N.lxor x (nth (N.to_nat (i mod 4)) key 0) :: mask_from (i + 1) key r
  end.

Definition mask_spec (key b : list N) : list N := mask_from 0 key b.

(* masking a region [off, off+len) of a backing array, leaving the rest untouched *)
Definition mask_region (off len : nat) (key arr : list N) : list N :=
  firstn off arr ++ mask_spec key (firstn len (skipn off arr)) ++ skipn (off + len) arr.
