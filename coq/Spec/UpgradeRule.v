(* The opening-handshake rules of properties C10 and C11, written from the property statements and
   RFC 6455 sections 4.1 / 4.2, over a parsed HTTP message = (method or status, list of (name, value)
   header lines; names compare case-insensitively and the first line of a name counts).
   Shares only Lib/ with the model, plus the SHA-1 / base64 functions (Model/Sha1.v, Model/Base64.v,
   validated on the FIPS / RFC vectors in Properties/C10.v) - the GUID below is the RFC's literal, the
   model takes it from the constant generated out of /repo. *)
From Coq Require Import Strings.String.
From Gws Require Import Lib.Base Lib.Hex Lib.Text Model.Sha1 Model.Base64.
Local Open Scope string_scope.
Local Open Scope list_scope.
Local Open Scope N_scope.

Definition message_headers : Type := list (bytes * bytes).

(* value of the first header line named `name` (any letter case); "" when there is none *)
Fixpoint field (name : bytes) (h : message_headers) : bytes :=
  match h with
  | [] => []
  | (k, v) :: r => if eq_nocase k name then v else field name r
  end.

(* RFC 7230 list syntax: comma-separated elements, optional white space (SP / HTAB) around them *)
Definition is_ows (b : N) : bool := (b =? 32) || (b =? 9).
Definition tokens (v : bytes) : list bytes := map (trim_by is_ows) (split_on 44 v).
Definition has_token (v tok : bytes) : Prop := exists t, In t (tokens v) /\ lower_s t = lower_s tok.

(* the don't-care region of C10/C11: a Connection value in which some list element merely CONTAINS
   "upgrade" without being it (gws matches substrings and its own unit test asserts that) *)
Definition connection_unambiguous (v : bytes) : Prop :=
  forall t, In t (tokens v) -> contains (lower_s t) (str "upgrade") = true -> lower_s t = str "upgrade".

(* the subprotocols a Sec-WebSocket-Protocol value offers / selects: non-empty, white space trimmed *)
Definition offers (v : bytes) (t : bytes) : Prop :=
  t <> [] /\ exists p, In p (split_on 44 v) /\ trim p = t.

Definition common (server : list bytes) (v : bytes) : Prop := exists s, In s server /\ offers v s.

(* s is the first entry of the server's preference list that the client offers *)
Definition first_common (server : list bytes) (v : bytes) (s : bytes) : Prop :=
  exists pre post, server = pre ++ s :: post /\ offers v s /\ forall x, In x pre -> ~ offers v x.

Definition offers_pmd (v : bytes) : Prop := contains v (str "permessage-deflate") = true.

Definition RFC_GUID : bytes := str "258EAFA5-E914-47DA-95CA-C5AB0DC85B11".
Definition accept_for (key : bytes) : bytes := b64_encode (sha1 (key ++ RFC_GUID)).

(* ---- C10: the server upgrades exactly these requests ---- *)
Definition should_upgrade (authorised : bool) (server_subprotocols : list bytes)
                          (method : bytes) (h : message_headers) : Prop :=
  method = str "GET"
  /\ field (str "Sec-WebSocket-Version") h = str "13"
  /\ lower_s (field (str "Upgrade") h) = str "websocket"
  /\ has_token (field (str "Connection") h) (str "upgrade")
  /\ field (str "Sec-WebSocket-Key") h <> []
  /\ authorised = true
  /\ (server_subprotocols = [] \/ common server_subprotocols (field (str "Sec-WebSocket-Protocol") h)).

(* the header lines of the 101 response that the server itself writes, in order *)
Definition response_fields (pmd : option bytes) (key : bytes) (subprotocol : option bytes) : message_headers :=
  [(str "Upgrade", str "websocket"); (str "Connection", str "Upgrade")]
  ++ match pmd with Some e => [(str "Sec-WebSocket-Extensions", e)] | None => [] end
  ++ [(str "Sec-WebSocket-Accept", accept_for key)]
  ++ match subprotocol with Some s => [(str "Sec-WebSocket-Protocol", s)] | None => [] end.

Definition protected_name (k : bytes) : Prop :=
  exists p, In p [str "Upgrade"; str "Connection"; str "Sec-WebSocket-Accept"; str "Sec-WebSocket-Extensions";
                  str "Sec-WebSocket-Protocol"] /\ lower_s k = lower_s p.

(* ---- C11: the client accepts exactly these responses ---- *)
Definition should_accept (key requested : bytes) (status : N) (h : message_headers) : Prop :=
  status = 101
  /\ lower_s (field (str "Upgrade") h) = str "websocket"
  /\ has_token (field (str "Connection") h) (str "upgrade")
  /\ field (str "Sec-WebSocket-Accept") h = accept_for key
  /\ ((forall t, ~ offers requested t)
      \/ exists s, offers requested s /\ offers (field (str "Sec-WebSocket-Protocol") h) s).
