(* Specification side of C12, written from the property statement and RFC 7692 section 7.1.
   Shares nothing with Model/ (only Lib/ and the regenerated constants).

   Part 1: what "both endpoints hold the same parameters" demands of the two connections.
   Part 2: the vocabulary "parameter list", its rendering with arbitrary order / ASCII white space
           around the ';'-separated parameters, and what a list MEANS. *)
From Gws Require Import Lib.Base Lib.Hex Gen.Consts.
From Coq Require Import Strings.String.
Local Open Scope Z_scope.

(* ---- Part 1 : agreement ---- *)

(* one side's configuration as far as the statement talks about it *)
Record side := mkSide {
  want_compression : bool;
  allow_server_takeover : bool;
  allow_client_takeover : bool
}.

(* what a connection holds after the handshake *)
Record held := mkHeld {
  on : bool;
  server_takeover : bool;
  client_takeover : bool;
  server_bits : Z;
  client_bits : Z
}.

Definition window_ok (b : Z) : Prop := 8 <= b <= 15.

(* "both endpoints agree on whether compression is on, which directions keep context and both window
    sizes; compression is on iff both sides enabled it, a direction keeps context iff neither side
    declined it, and window sizes lie in 8..15" *)
Definition negotiation_ok (s c : side) (sv cl : held) : Prop :=
  on sv = (want_compression s && want_compression c) /\
  on cl = (want_compression s && want_compression c) /\
  (on sv = true ->
     server_takeover sv = (allow_server_takeover s && allow_server_takeover c) /\
     server_takeover cl = (allow_server_takeover s && allow_server_takeover c) /\
     client_takeover sv = (allow_client_takeover s && allow_client_takeover c) /\
     client_takeover cl = (allow_client_takeover s && allow_client_takeover c) /\
     server_bits sv = server_bits cl /\ client_bits sv = client_bits cl /\
     window_ok (server_bits sv) /\ window_ok (client_bits sv)).

(* ---- Part 2 : parameter lists ---- *)

Definition name_ext  : list N := Eval vm_compute in str internal_PermessageDeflate.
Definition name_snct : list N := Eval vm_compute in str internal_ServerNoContextTakeover.
Definition name_cnct : list N := Eval vm_compute in str internal_ClientNoContextTakeover.
Definition name_smwb : list N := Eval vm_compute in str internal_ServerMaxWindowBits.
Definition name_cmwb : list N := Eval vm_compute in str internal_ClientMaxWindowBits.

(* A parameter of the extension.  Window-bit values are decimal digit strings (RFC 7692: 1*DIGIT
   without leading zeros, 8..15; the statement here admits ANY non-empty digit string, leading
   zeros and absurd magnitudes included).  [PClientMaxWindowBits None] is the value-less form a
   client may offer.  [POther k v] is a parameter this library does not know (k, or k=v). *)
Inductive param :=
| PName
| PServerNoContextTakeover
| PClientNoContextTakeover
| PServerMaxWindowBits (v : list N)
| PClientMaxWindowBits (v : option (list N))
| POther (k : list N) (v : option (list N)).

(* ASCII white space: space, \t, \n, \v, \f, \r *)
Definition ascii_space (b : N) : bool := (N.eqb b 32 || N.eqb b 9 || N.eqb b 10 || N.eqb b 11 || N.eqb b 12 || N.eqb b 13)%N.
Definition all_space (w : list N) : Prop := forallb ascii_space w = true.

Definition digitb (b : N) : bool := (N.leb 48 b && N.leb b 57)%N.
Definition wf_value (v : list N) : Prop := v <> [] /\ forallb digitb v = true.

Definition lacks (x : N) (s : list N) : bool := forallb (fun b => negb (N.eqb b x)) s.
(* non-empty and not starting with white space *)
Definition starts_clean (t : list N) : bool := match t with a :: _ => negb (ascii_space a) | [] => false end.
Definition known_names : list (list N) := [name_ext; name_snct; name_cnct; name_smwb; name_cmwb].
(* an unknown parameter: its name is none of the five, has no ';' or '=' and no white space at its ends;
   its value (if any) has no ';' and does not end in white space (it may be empty or contain '=') *)
Definition wf_other (k : list N) (v : option (list N)) : Prop :=
  starts_clean k = true /\ starts_clean (rev k) = true /\ lacks 59 k = true /\ lacks 61 k = true
  /\ ~ In k known_names
  /\ match v with
     | None => True
     | Some v => lacks 59 v = true /\ (v = [] \/ starts_clean (rev v) = true)
     end.

Definition wf_param (p : param) : Prop :=
  match p with
  | PServerMaxWindowBits v => wf_value v
  | PClientMaxWindowBits (Some v) => wf_value v
  | POther k v => wf_other k v
  | _ => True
  end.

Definition render_param (p : param) : list N :=
  match p with
  | PName => name_ext
  | PServerNoContextTakeover => name_snct
  | PClientNoContextTakeover => name_cnct
  | PServerMaxWindowBits v => name_smwb ++ [61%N] ++ v
  | PClientMaxWindowBits (Some v) => name_cmwb ++ [61%N] ++ v
  | PClientMaxWindowBits None => name_cmwb
  | POther k (Some v) => k ++ [61%N] ++ v
  | POther k None => k
  end.

Fixpoint sep_concat (sep : list N) (l : list (list N)) : list N :=
  match l with
  | [] => []
  | [x] => x
  | x :: r => x ++ sep ++ sep_concat sep r
  end.

(* the canonical spelling: parameters separated by "; " *)
Definition render (ps : list param) : list N := sep_concat [59; 32]%N (map render_param ps).

(* a padded spelling: segments separated by ";"; a segment is a parameter surrounded by arbitrary ASCII
   white space, or white space only (an empty segment, as in "a;;b" or a trailing ";") *)
Definition padded := (list N * option param * list N)%type.
Definition pad_ok (x : padded) : Prop :=
  let '(w1, p, w2) := x in
  all_space w1 /\ all_space w2 /\ match p with Some p => wf_param p | None => True end.
Definition render_segment (x : padded) : list N :=
  let '(w1, p, w2) := x in w1 ++ match p with Some p => render_param p | None => [] end ++ w2.
Definition render_padded (l : list padded) : list N := sep_concat [59%N] (map render_segment l).
Definition params_of (l : list padded) : list param :=
  flat_map (fun x : padded => match snd (fst x) with Some p => [p] | None => [] end) l.

(* value of a digit string *)
Definition dec_value (v : list N) : Z := fold_left (fun a d => a * 10 + Z.of_N (d - 48)) v 0.

(* What a parameter list means to this library.  For an RFC-valid list (each parameter at most once,
   values 8..15) this is the RFC meaning: a direction keeps context unless its no_context_takeover
   parameter is present, a window size is the stated value, 15 when absent.  The documented leniencies
   beyond the RFC: a value of 0 counts as absent (15), values above 15 have no effect, the smallest of
   repeated values wins, anything below 8 is raised to 8. *)
Definition eff (n : Z) : Z := if n =? 0 then 15 else n.
Definition server_vals (ps : list param) : list Z :=
  flat_map (fun p => match p with PServerMaxWindowBits v => [eff (dec_value v)] | _ => [] end) ps.
Definition client_vals (ps : list param) : list Z :=
  flat_map (fun p => match p with PClientMaxWindowBits (Some v) => [eff (dec_value v)] | _ => [] end) ps.
Definition bits_meaning (vals : list Z) : Z := Z.max 8 (fold_right Z.min 15 vals).

Definition is_snct (p : param) : bool := match p with PServerNoContextTakeover => true | _ => false end.
Definition is_cnct (p : param) : bool := match p with PClientNoContextTakeover => true | _ => false end.

Record reading := mkReading {
  r_server_takeover : bool;
  r_client_takeover : bool;
  r_server_bits : Z;
  r_client_bits : Z
}.

Definition meaning (ps : list param) : reading :=
  mkReading (negb (existsb is_snct ps)) (negb (existsb is_cnct ps))
            (bits_meaning (server_vals ps)) (bits_meaning (client_vals ps)).
