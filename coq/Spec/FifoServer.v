(* Specification for C15, from the property text alone.  Tasks are numbered by submission order
   (the n tasks submitted so far are 0 .. n-1).  A FIFO single server's start/end history at any
   moment is: tasks 0 .. k-1 each started and ended, one after the other in that order, and possibly
   task k started and not yet ended.  This one shape says "each exactly once", "never two at a time"
   and "in submission order" at once.  It is parametric in the event constructors so that it shares
   nothing with the model. *)
From Gws Require Import Lib.Base.

Definition serial_log {E : Type} (st en : nat -> E) (k : nat) (running : bool) : list E :=
  flat_map (fun t => [st t; en t]) (seq 0 k) ++ (if running then [st k] else []).

(* what the queue may hold: exactly the submitted-but-not-started tasks, oldest first *)
Definition pending (nstarted nsubmitted : nat) : list nat := seq nstarted (nsubmitted - nstarted).
