(* RFC 6455 section 5.2 base framing, written from the RFC and independent of the gws models:
   the frame grammar, an encoder with a free choice of length form (to describe every frame a peer
   can send) and a decoder that reports whether the shortest length form was used. *)
From Gws Require Import Lib.Base Spec.MaskSpec.
Local Open Scope N_scope.

Record frame := {
  f_fin : bool; f_rsv1 : bool; f_rsv2 : bool; f_rsv3 : bool;
  f_op : N;                 (* 4 bits *)
  f_masked : bool;
  f_key : list N;           (* 4 bytes when masked, [] otherwise *)
  f_payload : list N        (* application data, unmasked *)
}.

(* network byte order *)
Fixpoint be_store (k : nat) (v : N) : list N :=
  match k with O => [] | S k' => be_store k' (v / 2 ^ 8) ++ [v mod 2 ^ 8] end.

Definition be_load (bs : list N) : N := fold_left (fun acc b => acc * 2 ^ 8 + b) bs 0.

Definition b2n (b : bool) : N := if b then 1 else 0.

Inductive lenform := LShortest | L16 | L64.

Definition len_field (lf : lenform) (n : N) : N * list N :=
  match lf with
  | LShortest => if n <=? 125 then (n, []) else if n <=? 65535 then (126, be_store 2 n) else (127, be_store 8 n)
  | L16 => (126, be_store 2 n)
  | L64 => (127, be_store 8 n)
  end.

(* what a peer puts on the wire for frame f *)
Definition encode_frame (lf : lenform) (f : frame) : list N :=
  let n := N.of_nat (length (f_payload f)) in
  let '(lc, ext) := len_field lf n in
  [128 * b2n (f_fin f) + 64 * b2n (f_rsv1 f) + 32 * b2n (f_rsv2 f) + 16 * b2n (f_rsv3 f) + f_op f;
   128 * b2n (f_masked f) + lc]
  ++ ext
  ++ (if f_masked f then f_key f ++ mask_spec (f_key f) (f_payload f) else f_payload f).

Inductive dres :=
| DFrame (f : frame) (minimal : bool) (rest : list N)
| DNeedMore
| DBad.                      (* 64-bit length with the most significant bit set *)

Definition decode_frame (bs : list N) : dres :=
  match bs with
  | b0 :: b1 :: r =>
      let lc := b1 mod 128 in
      let masked := 128 <=? b1 in
      let lenres : option (N * bool * list N) :=   (* Some (len, minimal, rest) | None = need more *)
        if lc =? 126 then
          if (2 <=? length r)%nat then let n := be_load (firstn 2 r) in Some (n, 125 <? n, skipn 2 r) else None
        else if lc =? 127 then
          if (8 <=? length r)%nat then let n := be_load (firstn 8 r) in Some (n, 65535 <? n, skipn 8 r) else None
        else Some (lc, true, r) in
      match lenres with
      | None => DNeedMore
      | Some (n, minimal, r1) =>
          if 2 ^ 63 <=? n then DBad else
          let keyres : option (list N * list N) :=
            if masked then (if (4 <=? length r1)%nat then Some (firstn 4 r1, skipn 4 r1) else None)
            else Some ([], r1) in
          match keyres with
          | None => DNeedMore
          | Some (key, r2) =>
              if N.of_nat (length r2) <? n then DNeedMore else
              let raw := firstn (N.to_nat n) r2 in
              DFrame {| f_fin := 128 <=? b0; f_rsv1 := N.testbit b0 6; f_rsv2 := N.testbit b0 5;
                        f_rsv3 := N.testbit b0 4; f_op := b0 mod 16; f_masked := masked; f_key := key;
                        f_payload := if masked then mask_spec key raw else raw |}
                     minimal (skipn (N.to_nat n) r2)
          end
      end
  | _ => DNeedMore
  end.

(* opcode classes *)
Definition is_control (op : N) : bool := 8 <=? op.
Definition op_known (op : N) : bool := (op <=? 2) || ((8 <=? op) && (op <=? 10)).

(* C05: what every frame gws emits must satisfy, for the role of the sender *)
Definition outbound_wf (server : bool) (f : frame) (minimal : bool) : bool :=
  minimal && Bool.eqb (f_masked f) (negb server) && negb (f_rsv2 f) && negb (f_rsv3 f) && op_known (f_op f)
  && (if is_control (f_op f) then f_fin f && negb (f_rsv1 f) && (length (f_payload f) <=? 125)%nat else true)
  && (if f_masked f then (length (f_key f) =? 4)%nat else true).

(* decode a whole byte string into frames (fuel = length suffices: every frame has >= 2 bytes) *)
Fixpoint decode_all (fuel : nat) (bs : list N) : option (list (frame * bool)) :=
  match bs with
  | [] => Some []
  | _ =>
    match fuel with
    | O => None
    | S fuel' =>
        match decode_frame bs with
        | DFrame f m rest => match decode_all fuel' rest with Some l => Some ((f, m) :: l) | None => None end
        | _ => None
        end
    end
  end.

(* message grammar of section 5.4 on a frame list: (control | first cont* last)*; returns the data
   messages as (opcode, rsv1 of first frame, concatenated payload, number of frames) and control frames in place *)
Inductive wire_msg := WData (op : N) (compressed : bool) (payload : list N) (nframes : nat) | WControl (op : N) (payload : list N).

Fixpoint group_messages (cur : option (N * bool * list N * nat)) (fs : list frame) : option (list wire_msg) :=
  match fs with
  | [] => match cur with None => Some [] | Some _ => None end
  | f :: r =>
      if is_control (f_op f) then
        match group_messages cur r with Some l => Some (WControl (f_op f) (f_payload f) :: l) | None => None end
      else
        let cur' : option (N * bool * list N * nat) :=
          if f_op f =? 0 then
            match cur with
            | Some (op, c, p, k) => if f_rsv1 f then None else Some (op, c, p ++ f_payload f, S k)
            | None => None
            end
          else match cur with None => Some (f_op f, f_rsv1 f, f_payload f, 1%nat) | Some _ => None end in
        match cur' with
        | None => None
        | Some (op, c, p, k) =>
            if f_fin f then
              match group_messages None r with Some l => Some (WData op c p k :: l) | None => None end
            else group_messages cur' r
        end
  end.
