(* Specification side of C19: ONE atomic map (key -> option value) with the obvious sequential
   semantics, the definition of linearizability of a history with respect to a sequential object,
   and the notion "every operation takes effect atomically at one instant inside its interval"
   (instrumented traces).  Shares nothing with Model/. *)
From Gws Require Import Lib.Base.

(* ------------------------------------------------------------------------------------------- *)
(* the atomic map                                                                               *)

Definition mmap := N -> option N.
Definition m_empty : mmap := fun _ => None.

Inductive mop := MLoad (k : N) | MStore (k v : N) | MDelete (k : N).
Inductive mres := MRVal (v : option N) | MRUnit.

Definition m_apply (s : mmap) (o : mop) : mmap * mres :=
  match o with
  | MLoad k => (s, MRVal (s k))
  | MStore k v => (fun k' => if N.eqb k' k then Some v else s k', MRUnit)
  | MDelete k => (fun k' => if N.eqb k' k then None else s k', MRUnit)
  end.

(* the map has exactly c keys *)
Definition has_size (s : mmap) (c : nat) : Prop :=
  exists keys : list N, NoDup keys /\ (forall k, In k keys <-> s k <> None) /\ length keys = c.

(* sequential programs including Len; relational because the size of a function-map is not computable *)
Inductive qop := QOp (o : mop) | QLen.
Inductive qres := QRes (r : mres) | QSize (c : nat).

Inductive spec_run : mmap -> list qop -> list qres -> mmap -> Prop :=
| sr_nil s : spec_run s [] [] s
| sr_op s o ops rs s' : spec_run (fst (m_apply s o)) ops rs s' ->
    spec_run s (QOp o :: ops) (QRes (snd (m_apply s o)) :: rs) s'
| sr_len s c ops rs s' : has_size s c -> spec_run s ops rs s' ->
    spec_run s (QLen :: ops) (QSize c :: rs) s'.

(* ------------------------------------------------------------------------------------------- *)
(* linearizability (Herlihy & Wing) with respect to a deterministic sequential object           *)

Section Lin.
Variables (Op Res St : Type).
Variable apply : St -> Op -> St * Res.
Variable init : St.

(* a history: invocation and response events; id identifies the operation, t the calling thread *)
Inductive event := EInv (id : nat) (t : nat) (o : Op) | ERes (id : nat) (r : Res).

Definition lop : Type := nat * Op * Res.          (* an operation placed in the linear order *)
Definition lid (x : lop) : nat := fst (fst x).

Fixpoint seq_legal (s : St) (l : list lop) : Prop :=
  match l with
  | [] => True
  | (_, o, r) :: l' => snd (apply s o) = r /\ seq_legal (fst (apply s o)) l'
  end.

Definition precedes {A} (a b : A) (l : list A) : Prop := exists l1 l2 l3, l = l1 ++ a :: l2 ++ b :: l3.

(* well-formed history: operation ids are unique, a response follows its invocation, at most one
   response per operation *)
Definition hist_wf (h : list event) : Prop :=
  (forall h1 h2 id t o, h = h1 ++ EInv id t o :: h2 ->
      (forall t' o', ~ In (EInv id t' o') h1) /\ (forall t' o', ~ In (EInv id t' o') h2) /\ (forall r, ~ In (ERes id r) h1)) /\
  (forall h1 h2 id r, h = h1 ++ ERes id r :: h2 ->
      (exists t o, In (EInv id t o) h1) /\ (forall r', ~ In (ERes id r') h1) /\ (forall r', ~ In (ERes id r') h2)).

(* There is a total order `lin` of operations such that
   - it contains every completed operation with its observed result (and possibly some pending
     operations - those that took effect - with some result),
   - it contains only invoked operations, never contradicting an observed result, each once,
   - it is a legal sequential execution from `init`,
   - it respects real time: if op1's response precedes op2's invocation in h, op1 is before op2. *)
Definition linearizable (h : list event) : Prop :=
  exists lin : list lop,
    NoDup (map lid lin) /\
    (forall id t o r, In (EInv id t o) h -> In (ERes id r) h -> In (id, o, r) lin) /\
    (forall id o r, In (id, o, r) lin ->
        (exists t, In (EInv id t o) h) /\ (forall r', In (ERes id r') h -> r' = r)) /\
    seq_legal init lin /\
    (forall id1 r1 id2 t2 o2 x1 x2, precedes (ERes id1 r1) (EInv id2 t2 o2) h ->
        In x1 lin -> lid x1 = id1 -> In x2 lin -> lid x2 = id2 -> precedes x1 x2 lin).

(* Instrumented traces: a history with one extra mark IPt id at the instant operation id takes
   effect.  `atomic_points tr s m` accepts tr iff every invocation uses a fresh id, every IPt id
   comes after IInv id (once), applies the operation to the CURRENT state of the sequential object,
   and every IRes id r comes after IPt id (once) and returns the result computed at that instant.
   s = state of the object after tr, m = status of every operation id. *)
Inductive imark := IInv (id : nat) (t : nat) (o : Op) | IPt (id : nat) | IRes (id : nat) (r : Res).
Inductive ost := Pend (o : Op) | Lind (o : Op) (r : Res) | Retd (o : Op) (r : Res).

Definition mset {A} (m : nat -> A) (i : nat) (x : A) : nat -> A := fun j => if Nat.eqb j i then x else m j.

Inductive atomic_points : list imark -> St -> (nat -> option ost) -> Prop :=
| ap_nil : atomic_points [] init (fun _ => None)
| ap_inv tr s m id t o : atomic_points tr s m -> m id = None ->
    atomic_points (tr ++ [IInv id t o]) s (mset m id (Some (Pend o)))
| ap_pt tr s m id o : atomic_points tr s m -> m id = Some (Pend o) ->
    atomic_points (tr ++ [IPt id]) (fst (apply s o)) (mset m id (Some (Lind o (snd (apply s o)))))
| ap_res tr s m id o r : atomic_points tr s m -> m id = Some (Lind o r) ->
    atomic_points (tr ++ [IRes id r]) s (mset m id (Some (Retd o r))).

Fixpoint erase (tr : list imark) : list event :=
  match tr with
  | [] => []
  | IInv id t o :: r => EInv id t o :: erase r
  | IPt _ :: r => erase r
  | IRes id x :: r => ERes id x :: erase r
  end.

End Lin.

Arguments EInv {Op Res}. Arguments ERes {Op Res}.
Arguments IInv {Op Res}. Arguments IPt {Op Res}. Arguments IRes {Op Res}.
Arguments Pend {Op Res}. Arguments Lind {Op Res}. Arguments Retd {Op Res}.
Arguments erase {Op Res}.
Arguments precedes {A}.

Definition map_linearizable := linearizable mop mres mmap m_apply m_empty.
