(* Specification side of C20: a deque IS a plain sequence of (handle, value) pairs and every API call
   is the obvious list operation.  Written from the property text; shares nothing with Model/.

   Handles: 0 is Nil and never names an element.  HOW the implementation chooses the handle of a new
   element is not part of the specification: a push/insert may return ANY handle that is fresh
   (non-Nil and different from every live handle). *)
From Gws Require Import Lib.Base.

Section PlainSeq.
Context {V : Type} (zero : V).      (* zero: what Pop returns on an empty sequence (Go's zero value of T) *)

Definition seq := list (nat * V).
Definition handles (l : seq) : list nat := map fst l.
Definition values (l : seq) : list V := map snd l.
Definition fresh (l : seq) (h : nat) : Prop := h <> 0 /\ ~ In h (handles l).

Inductive op :=
| OPushFront (v : V) | OPushBack (v : V) | OPopFront | OPopBack
| OInsertAfter (v : V) (mark : nat) | OInsertBefore (v : V) (mark : nat)
| OMoveToBack (a : nat) | OMoveToFront (a : nat)
| OUpdate (a : nat) (v : V) | ORemove (a : nat) | OReset.

Inductive result := RHandle (h : nat) | RValue (v : V) | RUnit.

Fixpoint lookup (a : nat) (l : seq) : option V :=
  match l with
  | [] => None
  | x :: r => if fst x =? a then Some (snd x) else lookup a r
  end.
Definition remove (a : nat) (l : seq) : seq := filter (fun x => negb (fst x =? a)) l.
Fixpoint ins_after (h : nat) (v : V) (m : nat) (l : seq) : seq :=
  match l with
  | [] => []
  | x :: r => if fst x =? m then x :: (h, v) :: r else x :: ins_after h v m r
  end.
Fixpoint ins_before (h : nat) (v : V) (m : nat) (l : seq) : seq :=
  match l with
  | [] => []
  | x :: r => if fst x =? m then (h, v) :: x :: r else x :: ins_before h v m r
  end.
Definition move_to_back (a : nat) (l : seq) : seq :=
  match lookup a l with Some v => remove a l ++ [(a, v)] | None => l end.
Definition move_to_front (a : nat) (l : seq) : seq :=
  match lookup a l with Some v => (a, v) :: remove a l | None => l end.
Definition update (a : nat) (v : V) (l : seq) : seq :=
  map (fun x => if fst x =? a then (a, v) else x) l.
Definition front_value (l : seq) : V := match l with [] => zero | x :: _ => snd x end.
Definition back_value (l : seq) : V := last (values l) zero.

(* what the caller owes: a handle argument is Nil or live *)
Definition seq_pre (l : seq) (o : op) : Prop :=
  match o with
  | OInsertAfter _ m | OInsertBefore _ m => m = 0 \/ In m (handles l)
  | OMoveToBack a | OMoveToFront a | OUpdate a _ | ORemove a => a = 0 \/ In a (handles l)
  | _ => True
  end.

(* seq_step l o r l' : call o on sequence l may return r and leaves l' *)
Inductive seq_step (l : seq) : op -> result -> seq -> Prop :=
| SPushFront v h : fresh l h -> seq_step l (OPushFront v) (RHandle h) ((h, v) :: l)
| SPushBack v h : fresh l h -> seq_step l (OPushBack v) (RHandle h) (l ++ [(h, v)])
| SPopFront : seq_step l OPopFront (RValue (front_value l)) (tl l)
| SPopBack : seq_step l OPopBack (RValue (back_value l)) (removelast l)
| SInsertAfterNil v : seq_step l (OInsertAfter v 0) (RHandle 0) l
| SInsertAfter v m h : m <> 0 -> fresh l h -> seq_step l (OInsertAfter v m) (RHandle h) (ins_after h v m l)
| SInsertBeforeNil v : seq_step l (OInsertBefore v 0) (RHandle 0) l
| SInsertBefore v m h : m <> 0 -> fresh l h -> seq_step l (OInsertBefore v m) (RHandle h) (ins_before h v m l)
| SMoveToBack a : seq_step l (OMoveToBack a) RUnit (move_to_back a l)
| SMoveToFront a : seq_step l (OMoveToFront a) RUnit (move_to_front a l)
| SUpdate a v : seq_step l (OUpdate a v) RUnit (update a v l)
| SRemove a : seq_step l (ORemove a) RUnit (remove a l)
| SReset : seq_step l OReset RUnit [].

(* what happens to the element with handle a and value v of l under call o:
   None = it leaves the sequence, Some v' = it stays, with value v' *)
Definition value_after (l : seq) (o : op) (a : nat) (v : V) : option V :=
  match o with
  | OPopFront => match l with x :: _ => if fst x =? a then None else Some v | [] => Some v end
  | OPopBack => if last (handles l) 0 =? a then None else Some v
  | OUpdate b w => if b =? a then Some w else Some v
  | ORemove b => if b =? a then None else Some v
  | OReset => None
  | _ => Some v
  end.

End PlainSeq.

Arguments op V : clear implicits.
Arguments result V : clear implicits.
Arguments seq V : clear implicits.
