(* C06, the reply rule as the property states it.  Independent of the model.  Where two rules apply to one
   frame (a forbidden code AND an invalid reason) either answer is acceptable: the spec is a predicate. *)
From Gws Require Import Lib.Base.
Local Open Scope N_scope.

(* status codes RFC 6455 7.4 forbids on the wire, as listed in the property *)
Definition forbidden_code (c : N) : bool :=
  (c <? 1000) || ((1004 <=? c) && (c <=? 1006)) || (c =? 1015) || ((1016 <=? c) && (c <=? 2999)) || (5000 <=? c).

Definition be16 (c : N) : list N := [c / 256; c mod 256].

(* acceptable reply bodies for a received Close body, given whether UTF-8 checking is on and whether the reason is valid *)
Definition reply_ok (utf8_on : bool) (reason_valid : list N -> bool) (body reply : list N) : Prop :=
  match body with
  | [] => reply = []
  | [_] => reply = be16 1002
  | b0 :: b1 :: reason =>
      let code := b0 * 256 + b1 in
      let bad_utf8 := utf8_on && negb (reason_valid reason) in
      (forbidden_code code = true /\ reply = be16 1002)
      \/ (bad_utf8 = true /\ reply = be16 1007)
      \/ (forbidden_code code = false /\ bad_utf8 = false /\
          reply = be16 (if (3000 <=? code) && (code <=? 4999) then code else 1000))
  end.

(* what must be reported to the application: the peer's code and reason *)
Definition peer_code_reason (body : list N) : N * list N :=
  match body with
  | [] => (0, [])
  | [b] => (b, [])      (* a one-byte body carries no status code; gws reports the byte, reason empty *)
  | b0 :: b1 :: reason => (b0 * 256 + b1, reason)
  end.

(* a close caused by an error (transport fault, protocol violation by the peer): a valid status followed by the error
   text, the whole cut to the 125 bytes a control frame may carry *)
Definition error_close_spec (status : N) (text : list N) : list N :=
  be16 status ++ firstn 123 text.

(* local close: the caller's status (at least 1000) and the reason cut to 123 bytes *)
Definition local_close_spec (code : N) (reason : list N) : list N :=
  be16 (N.max code 1000) ++ firstn 123 reason.
