(* Specification for C17, from the property text alone: after any history of writes the window of
   capacity cap holds the last min(total, cap) bytes of everything written, in order. *)
From Gws Require Import Lib.Base.

Definition window_spec (cap : nat) (chunks : list (list N)) : list N := lastn cap (concat chunks).
