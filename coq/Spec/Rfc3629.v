(* RFC 3629 (UTF-8, a transformation format of ISO 10646), written from the RFC text only.
   Shares nothing with Model/Utf8.v.

   Section 3:  "The definition of UTF-8 prohibits encoding character numbers between U+D800 and
                U+DFFF";  characters are taken from the range U+0000..U+10FFFF.
      Char. number range  |        UTF-8 octet sequence
         (hexadecimal)    |              (binary)
      --------------------+---------------------------------------------
      0000 0000-0000 007F | 0xxxxxxx
      0000 0080-0000 07FF | 110xxxxx 10xxxxxx
      0000 0800-0000 FFFF | 1110xxxx 10xxxxxx 10xxxxxx
      0001 0000-0010 FFFF | 11110xxx 10xxxxxx 10xxxxxx 10xxxxxx
   "Determine the number of octets required from the character number and the first column of the
    table above" - so the encoding of a character is the shortest one by construction, and a byte
    string is well-formed UTF-8 iff it is the concatenation of the encodings of a sequence of
    Unicode scalar values. *)
From Gws Require Import Lib.Base.
Local Open Scope N_scope.

(* Unicode scalar value: a code point that is not a surrogate *)
Definition scalar (cp : N) : Prop := cp <= 0x10FFFF /\ ~ (0xD800 <= cp /\ cp <= 0xDFFF).
Definition scalarb (cp : N) : bool := (cp <=? 0x10FFFF) && negb ((0xD800 <=? cp) && (cp <=? 0xDFFF)).

(* the x bits are filled "starting with the lower-order bits of the character number in the
   lowest-order positions of the last octet": six bits per trailing octet *)
Definition utf8_encode (cp : N) : list N :=
  if cp <=? 0x7F then [cp]
  else if cp <=? 0x7FF then [0xC0 + cp / 64; 0x80 + cp mod 64]
  else if cp <=? 0xFFFF then [0xE0 + cp / 4096; 0x80 + (cp / 64) mod 64; 0x80 + cp mod 64]
  else [0xF0 + cp / 262144; 0x80 + (cp / 4096) mod 64; 0x80 + (cp / 64) mod 64; 0x80 + cp mod 64].

Definition encode_all (cps : list N) : list N := concat (map utf8_encode cps).

Definition well_formed_utf8 (b : list N) : Prop :=
  exists cps, Forall scalar cps /\ b = concat (map utf8_encode cps).
