(* The RFC 6455 (5.2, 5.4, 5.5) + RFC 7692 (6) receive automaton on DECODED frames, written from the RFCs and
   the text of property C03/C13, independent of the reader model.  For a frame that violates the protocol it
   yields the LIST of close statuses that are acceptable answers (one per violation present in that frame);
   for an acceptable frame it says deterministically what happens. *)
From Gws Require Import Lib.Base Spec.Rfc6455.
Local Open Scope N_scope.

Section Recv.
Variable utf8_valid : list N -> bool.
(* RFC 7692 7.2.2: append 00 00 ff ff (and an empty final block), inflate with the LZ77 history as dictionary;
   None = not inflatable, or inflated size above the limit *)
Variable inflate : list N -> list N -> Z -> option (list N).
Variable W : Type.                       (* the receiver's LZ77 history *)
Variable wdict : W -> list N.
Variable wwrite : W -> list N -> W.

Record scfg := { s_server : bool; s_pmd : bool; s_limit : Z; s_utf8 : bool }.

(* message in progress: opcode, compressed, payload accumulated so far *)
Record sstate := { s_cur : option (N * bool * list N); s_hist : W }.

Inductive sevent := SMsg (op : N) (p : list N) | SPing (p : list N) | SPong (p : list N).

Definition inflate_tail : list N := [0; 0; 255; 255; 1; 0; 0; 255; 255].

(* every protocol violation present in frame f (minimal = its length was encoded in the shortest form), given whether
   a fragmented message is in progress and how many payload bytes it has accumulated: the acceptable close statuses.
   A data frame with a non-minimal length encoding is tolerated (gws accepts it; the property does not list it). *)
Definition violations (c : scfg) (st : sstate) (f : frame) (minimal : bool) : list N :=
  let n := Z.of_nat (length (f_payload f)) in
  let op := f_op f in
  let inprog := match s_cur st with Some _ => true | None => false end in
  let acc := match s_cur st with Some (_, _, b) => Z.of_nat (length b) | None => 0%Z end in
  (if Bool.eqb (f_masked f) (s_server c) then [] else [1002])                         (* 5.1: client frames masked, server frames not *)
  ++ (if f_rsv2 f || f_rsv3 f || (f_rsv1 f && negb (s_pmd c)) then [1002] else [])     (* 5.2: reserved bits without negotiated meaning *)
  ++ (if f_rsv1 f && s_pmd c && (is_control op || (op =? 0)) then [1002] else [])      (* RFC 7692 6: RSV1 only on the first frame of a data message *)
  ++ (if op_known op then [] else [1002])                                               (* 5.2: reserved opcodes *)
  ++ (if is_control op && (negb (f_fin f) || (125 <? n)%Z) then [1002] else [])         (* 5.5: control frames <= 125 bytes, not fragmented *)
  ++ (if is_control op && negb minimal then [1002] else [])                            (* 5.2: a control frame whose length is not in the 7-bit form *)
  ++ (if (op =? 0) && negb inprog then [1002] else [])                                  (* 5.4: continuation without a message *)
  ++ (if ((op =? 1) || (op =? 2)) && inprog then [1002] else [])                        (* 5.4: new message inside an unfinished one *)
  ++ (if (s_limit c <? n)%Z then [1009] else [])                                        (* C13: frame above the read limit *)
  ++ (if (op =? 0) && inprog && (s_limit c <? acc + n)%Z then [1009] else []).          (* C13: fragments above the read limit *)

Inductive sres :=
| RFail (acceptable : list N)                      (* fail the connection with one of these statuses; nothing delivered *)
| RNext (evs : list sevent) (st : sstate)          (* frame consumed *)
| RClose (body : list N).                          (* Close frame received: the close handshake (C06) takes over *)

(* a complete message: inflate if compressed, validate text, deliver *)
Definition complete (c : scfg) (hist : W) (op : N) (comp : bool) (data : list N) : sres :=
  let r : option (list N * W) :=
    if comp then match inflate (wdict hist) (data ++ inflate_tail) (s_limit c) with
                 | Some out => Some (out, wwrite hist out)
                 | None => None
                 end
    else Some (data, hist) in
  match r with
  | None => RFail [1009; 1011; 1007]                 (* undecodable or oversize compressed data *)
  | Some (d, h') =>
      if s_utf8 c && (op =? 1) && negb (utf8_valid d) then RFail [1007]
      else RNext [SMsg op d] {| s_cur := None; s_hist := h' |}
  end.

Definition recv_frame (c : scfg) (st : sstate) (f : frame) (minimal : bool) : sres :=
  match violations c st f minimal with
  | (_ :: _) as vs => RFail vs
  | [] =>
      let op := f_op f in
      if op =? 9 then RNext [SPing (f_payload f)] st
      else if op =? 10 then RNext [SPong (f_payload f)] st
      else if op =? 8 then RClose (f_payload f)
      else if op =? 0 then
        match s_cur st with
        | Some (mop, comp, b) =>
            if f_fin f then complete c (s_hist st) mop comp (b ++ f_payload f)
            else RNext [] {| s_cur := Some (mop, comp, b ++ f_payload f); s_hist := s_hist st |}
        | None => RFail [1002]
        end
      else
        if f_fin f then complete c (s_hist st) op (f_rsv1 f) (f_payload f)
        else RNext [] {| s_cur := Some (op, f_rsv1 f, f_payload f); s_hist := s_hist st |}
  end.

Inductive send := EndOfFrames (st : sstate) | EndFail (acceptable : list N) | EndClose (body : list N).

Fixpoint recv_frames (c : scfg) (st : sstate) (fs : list (frame * bool)) : list sevent * send :=
  match fs with
  | [] => ([], EndOfFrames st)
  | (f, minimal) :: r =>
      match recv_frame c st f minimal with
      | RFail vs => ([], EndFail vs)
      | RClose body => ([], EndClose body)
      | RNext evs st' => let '(evs', e) := recv_frames c st' r in (evs ++ evs', e)
      end
  end.

End Recv.
