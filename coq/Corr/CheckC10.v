(* Correspondence runners for C10 (server handshake).
   check_c10: the parsed request, the server options and the implementation's observables
     (returned *Conn or nil, every byte written, transport closed, Conn.SubProtocol, pd.Enabled)
     against Model/Handshake.v.
   check_c10_accept: an observed (key, Sec-WebSocket-Accept) pair against Sha1/Base64. *)
From Gws Require Import Lib.Base Lib.Val Lib.Text Model.Handshake.

Definition vpairs (v : val) : headers := map (fun p => (vb (vget 0 p), vb (vget 1 p))) (vl v).

(* case = VL [method; req headers; authorize; subprotocols; pmd enabled; extra headers (in the map order
              the implementation used); observed extension response value; observed Date value;
              upgraded?; bytes written; closed?; Conn.SubProtocol(); Conn pd.Enabled] *)
Definition check_c10 (c : val) : bool :=
  let req := {| r_method := vb (vget 0 c); r_headers := vpairs (vget 1 c) |} in
  let auth := vbool (vget 2 c) in
  let opts := {| so_subprotocols := map vb (vl (vget 3 c)); so_pmd := vbool (vget 4 c);
                 so_extra := vpairs (vget 5 c) |} in
  let pmd_resp := vb (vget 6 c) in
  let date := vb (vget 7 c) in
  let upg := vbool (vget 8 c) in
  let written := vb (vget 9 c) in
  let closed := vbool (vget 10 c) in
  let out := upgrade_from_conn (fun _ => auth) (fun _ => pmd_resp) date opts req in
  bytes_eqb (o_written out) written && Bool.eqb (o_closed out) closed &&
  match o_conn out with
  | Some u => upg && bytes_eqb (u_subprotocol u) (vb (vget 11 c)) && Bool.eqb (u_pmd u) (vbool (vget 12 c))
  | None => negb upg
  end.

(* case = VL [key; accept] *)
Definition check_c10_accept (c : val) : bool :=
  bytes_eqb (compute_accept_key (vb (vget 0 c))) (vb (vget 1 c)).
