(* Correspondence runner for C19 (sequential layer): re-runs Model.ShardMap on a recorded operation
   sequence and compares every observable with what gws.ConcurrentMap / the default session storage
   returned.  The hash is not modelled: the case ships the observed (key -> shard index) table.

   case = VL [VN kind; VN requested_shards; VN observed_shards; VL table; VL ops]
          kind 0 = gws.NewConcurrentMap(requested_shards), kind 1 = the single-mutex smap (1 shard)
   op   = VL [VN 0; VN k; VN found; VN v]          Load  -> (v, found)
        | VL [VN 1; VN k; VN v]                    Store
        | VL [VN 2; VN k]                          Delete
        | VL [VN 3; VN c]                          Len   -> c
        | VL [VN 4; VN stop; VL [VL [VN k; VN v]...]]   Range whose callback returns false at its
                                                   stop-th call (0 = never) -> visited entries in order
   *)
From Gws Require Import Lib.Base Lib.Val Model.ShardMap.
Local Open Scope N_scope.

Definition tbl_hash (tbl : list val) (k : N) : N := vn (nth (N.to_nat k) tbl (VN 0)).

(* callback that answers false exactly at its stop-th call *)
Definition stop_cb (stop : nat) : callback := fun vis => negb (Nat.eqb (length vis) stop).

Definition entry_of (v : val) : N * N := (vn (vget 0 v), vn (vget 1 v)).

Fixpoint nodup_keys (l : list (N * N)) : bool :=
  match l with [] => true | (k, _) :: r => negb (a_mem k r) && nodup_keys r end.

(* es is a permutation of the duplicate-free association list s *)
Definition perm_ok (es s : list (N * N)) : bool :=
  Nat.eqb (length es) (length s) && nodup_keys es
  && forallb (fun e => match a_load (fst e) s with Some v => N.eqb v (snd e) | None => false end) es.

(* the per-shard iteration orders that explain the observation: what was seen, in the order seen,
   then what was not reached *)
Definition orders_of (ix : N -> nat) (M : list amap) (obs : list (N * N)) : list (list (N * N)) :=
  map (fun is => let '(i, s) := is in
         filter (fun e => Nat.eqb (ix (fst e)) i) obs ++ filter (fun e => negb (a_mem (fst e) obs)) s)
      (combine (seq 0 (length M)) M).

Definition entry_eqb (a b : N * N) : bool := N.eqb (fst a) (fst b) && N.eqb (snd a) (snd b).

Definition check_range (ix : N -> nat) (M : list amap) (stop : nat) (obs : list (N * N)) : bool :=
  let ess := orders_of ix M obs in
  forallb (fun p => perm_ok (fst p) (snd p)) (combine ess M)
  && list_eqb entry_eqb (cm_range (stop_cb stop) ess) obs.

Fixpoint check_ops (ix : N -> nat) (M : list amap) (ops : list val) : bool :=
  match ops with
  | [] => true
  | o :: r =>
      let code := vn (vget 0 o) in
      if code =? 0 then
        let k := vn (vget 1 o) in
        match cm_load ix M k with
        | Some v => vbool (vget 2 o) && (vn (vget 3 o) =? v)
        | None => negb (vbool (vget 2 o))
        end && check_ops ix M r
      else if code =? 1 then check_ops ix (cm_store ix M (vn (vget 1 o)) (vn (vget 2 o))) r
      else if code =? 2 then check_ops ix (cm_delete ix M (vn (vget 1 o))) r
      else if code =? 3 then Nat.eqb (cm_len M) (vnat (vget 1 o)) && check_ops ix M r
      else if code =? 4 then
        check_range ix M (vnat (vget 1 o)) (map entry_of (vl (vget 2 o))) && check_ops ix M r
      else false
  end.

Definition check_c19_seq (c : val) : bool :=
  let kind := vn (vget 0 c) in
  let req := vn (vget 1 c) in let num := vn (vget 2 c) in let tbl := vl (vget 3 c) in
  let num_ok := if kind =? 0 then num =? cm_num req else num =? 1 in
  num_ok && check_ops (cm_index (tbl_hash tbl) num) (cm_new (N.to_nat num)) (vl (vget 4 c)).
