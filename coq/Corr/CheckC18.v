(* Correspondence runner for C18: the implementation's output on (key, backing array, off, len)
   must equal the model's masking of that region, guards intact. *)
From Gws Require Import Lib.Base Lib.Val Model.Mask.

(* case = VL [key; arr_before; off; len; arr_after] *)
Definition check_c18 (c : val) : bool :=
  let key := vb (vget 0 c) in let arr := vb (vget 1 c) in
  let off := vnat (vget 2 c) in let len := vnat (vget 3 c) in let o := vb (vget 4 c) in
  match mask_impl key (firstn len (skipn off arr)) with
  | Some m => bytes_eqb o (firstn off arr ++ m ++ skipn (off + len) arr)
  | None => false
  end.
