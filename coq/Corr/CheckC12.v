(* Correspondence runners for C12: re-run Model/Negotiate.v on the recorded inputs and compare with
   what the implementation returned (through the Verif* accessors or a real handshake). *)
From Gws Require Import Lib.Base Lib.Val Model.Negotiate.
Local Open Scope Z_scope.

(* a PermessageDeflate value = VL [enabled; sct; cct; smwb; cmwb; threshold; level] *)
Definition pd_of (v : val) : PD :=
  mkPD (vbool (vget 0 v)) (vbool (vget 1 v)) (vbool (vget 2 v))
       (vz (vget 3 v)) (vz (vget 4 v)) (vz (vget 5 v)) (vz (vget 6 v)).

Definition pd_eqb (a b : PD) : bool :=
  Bool.eqb (enabled a) (enabled b) && Bool.eqb (sct a) (sct b) && Bool.eqb (cct a) (cct b)
  && (smwb a =? smwb b) && (cmwb a =? cmwb b) && (threshold a =? threshold b) && (level a =? level b).

(* C12parse: VL [str; pd] - permessageNegotiation(str) = pd *)
Definition check_c12_parse (c : val) : bool :=
  pd_eqb (permessage_negotiation (vb (vget 0 c))) (pd_of (vget 1 c)).

(* C12gen: VL [pd; request header; response header] *)
Definition check_c12_gen (c : val) : bool :=
  let p := pd_of (vget 0 c) in
  bytes_eqb (gen_request_header p) (vb (vget 1 c)) && bytes_eqb (gen_response_header p) (vb (vget 2 c)).

(* C12pair: VL [s; c; norm s; server conn pd; norm c; client conn pd; offer header; response header]
   (an absent header is recorded as the empty string) *)
Definition check_c12_pair (v : val) : bool :=
  let s := pd_of (vget 0 v) in let c := pd_of (vget 1 v) in
  pd_eqb (norm_server s) (pd_of (vget 2 v))
  && pd_eqb (server_view s c) (pd_of (vget 3 v))
  && pd_eqb (norm_client c) (pd_of (vget 4 v))
  && pd_eqb (client_view s c) (pd_of (vget 5 v))
  && bytes_eqb (offer_header c) (vb (vget 6 v))
  && bytes_eqb (response_header s c) (vb (vget 7 v)).

(* C12side: VL [is_server; option; extensions; normalised; negotiated] - one side alone, on an
   arbitrary extensions string (VerifServerPD / VerifClientPD) *)
Definition check_c12_side (v : val) : bool :=
  let o := pd_of (vget 1 v) in let ext := vb (vget 2 v) in
  if vbool (vget 0 v)
  then pd_eqb (norm_server o) (pd_of (vget 3 v)) && pd_eqb (server_get_pd (norm_server o) ext) (pd_of (vget 4 v))
  else pd_eqb (norm_client o) (pd_of (vget 3 v)) && pd_eqb (client_get_pd (norm_client o) ext) (pd_of (vget 4 v)).
