(* Correspondence runners for C16: the verdicts recorded from the implementation (Go's utf8.Valid through
   internal.CheckEncoding; Write*/Writev on real connections; ReadLoop on crafted inbound streams) must equal
   what the model computes on the same inputs. *)
From Gws Require Import Lib.Base Lib.Val Model.Utf8.
Local Open Scope N_scope.

Definition nz (n : N) : bool := negb (n =? 0).

(* "C16lib": VL [VB s; VN go_valid]   -- utf8.Valid(s); the model must terminate normally with the same verdict *)
Definition check_c16_lib (c : val) : bool :=
  let s := vb (vget 0 c) in let v := vbool (vget 1 c) in
  match utf8_valid_opt s with Some b => Bool.eqb b v | None => false end.

(* "C16libx": VL [VB prefix; VB verdicts]  -- verdicts[i] = utf8.Valid(prefix ++ [i]) for i = 0..255 *)
Fixpoint lib_ext (prefix : list N) (i : N) (vs : list N) : bool :=
  match vs with
  | [] => true
  | v :: r =>
      match utf8_valid_opt (prefix ++ [i]) with
      | Some b => Bool.eqb b (nz v) && lib_ext prefix (i + 1) r
      | None => false
      end
  end.
Definition check_c16_libx (c : val) : bool :=
  let prefix := vb (vget 0 c) in let vs := vb (vget 1 c) in
  (length vs =? 256)%nat && lib_ext prefix 0 vs.

(* "C16ce": VL [VN enabled; VN opcode; VB payload; VN result]  -- internal.CheckEncoding *)
Definition check_c16_ce (c : val) : bool :=
  Bool.eqb (check_encoding (vbool (vget 0 c)) (vn (vget 1 c)) (vb (vget 2 c))) (vbool (vget 3 c)).

(* "C16w": VL [VN enabled; VN opcode; VL slices; VN accepted; VN api]
   api 0: WriteMessage / WriteString / WriteAsync (internal.Bytes, exactly one slice); api 1: Writev / WritevAsync (internal.Buffers) *)
Definition check_c16_w (c : val) : bool :=
  let enabled := vbool (vget 0 c) in let op := vn (vget 1 c) in
  let slices := map vb (vl (vget 2 c)) in let accepted := vbool (vget 3 c) in
  match vn (vget 4 c), slices with
  | 0, [p] => Bool.eqb (write_gate_bytes enabled op p) accepted
  | 0, _ => false
  | _, _ => Bool.eqb (write_gate_buffers enabled op slices) accepted
  end.

(* "C16r": VL [VN enabled; VN opcode; VL frags; VN delivered; VN status]
   frags = the (uncompressed) payloads of the frames of one inbound message; status = the status of the Close
   frame gws wrote when it did not deliver *)
Definition check_c16_r (c : val) : bool :=
  let enabled := vbool (vget 0 c) in let op := vn (vget 1 c) in
  let frags := map vb (vl (vget 2 c)) in let delivered := vbool (vget 3 c) in let status := vn (vget 4 c) in
  match read_gate enabled op (concat frags) with
  | None => delivered
  | Some st => negb delivered && (status =? st)
  end.

(* "C16c": VL [VN enabled; VN code; VB reason; VN reply_status]  -- inbound Close frame code||reason *)
Definition check_c16_c (c : val) : bool :=
  close_response_code (vbool (vget 0 c)) (vn (vget 1 c)) (vb (vget 2 c)) =? vn (vget 3 c).
