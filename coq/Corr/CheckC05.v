(* Correspondence runners for the write path (C05, also used by C01/C02/C08):
   the implementation's wire bytes, return value and compression window must equal the model's.
   The deflate encoder is instantiated by the compressed bytes observed on the wire (DESIGN 5 C01);
   the UTF-8 verdict by Model/Utf8 once available (here: shipped with the case and cross-checked there). *)
From Gws Require Import Lib.Base Lib.Val Spec.Rfc6455 Model.Header Model.Writer Model.Utf8.
Local Open Scope N_scope.

Definition win_write (cap : nat) (w p : list N) : list N := if (cap =? 0)%nat then [] else lastn cap (w ++ p).

Definition mk_wcfg (v : val) : wcfg :=
  {| w_server := vbool (vget 0 v); w_pmd := vbool (vget 1 v); w_threshold := vz (vget 2 v);
     w_wlimit := vz (vget 3 v); w_utf8 := vbool (vget 4 v) |}.

Definition wres_code (r : wres) : N :=
  match r with WOk => 0 | WErrClosed => 1 | WErrEncoding => 2 | WErrTooLarge => 3 | WPanic => 9 end.

Definition opt_bytes_eqb (o : option (list N)) (b : list N) : bool :=
  match o with Some x => bytes_eqb x b | None => match b with [] => true | _ => false end end.

(* every frame in the wire bytes is a complete, well-formed outbound frame for the role *)
Definition wire_wf (server : bool) (wire : list N) : bool :=
  match decode_all (S (length wire)) wire with
  | Some fs => forallb (fun fm => outbound_wf server (fst fm) (snd fm)) fs
  | None => false
  end.

(* case = VL [cfg; closed; cap; win_before; op; slices; key; utf8ok; deflate_out; result; wire; win_after] *)
Definition check_c05w (c : val) : bool :=
  let cfg := mk_wcfg (vget 0 c) in
  let closed := vbool (vget 1 c) in let cap := vnat (vget 2 c) in let w := vb (vget 3 c) in
  let op := vn (vget 4 c) in let slices := map vb (vl (vget 5 c)) in let key := vb (vget 6 c) in
  let uok := vbool (vget 7 c) in let dout := vb (vget 8 c) in
  let res := vn (vget 9 c) in let wire := vb (vget 10 c) in let w_after := vb (vget 11 c) in
  let '(fr, w', r) := do_write Utf8.utf8_valid (fun _ _ => dout ++ flate_tail4) (list N) (fun x => x) (win_write cap)
                               cfg closed w op slices key in
  (wres_code r =? res) && opt_bytes_eqb fr wire && bytes_eqb w' w_after && wire_wf (w_server cfg) wire.

(* broadcast: case = VL [cfg_of_generating_conn; op; payload; key; utf8ok; deflate_out; gen_result(0 ok,2,3); frame;
                          VL [ VL [closed; cap; win_before; result; wire; win_after] ... ] ] *)
Definition check_c05bc (c : val) : bool :=
  let cfg := mk_wcfg (vget 0 c) in
  let op := vn (vget 1 c) in let payload := vb (vget 2 c) in let key := vb (vget 3 c) in
  let uok := vbool (vget 4 c) in let dout := vb (vget 5 c) in let gres0 := vn (vget 6 c) in let frame := vb (vget 7 c) in
  match broadcast_frame Utf8.utf8_valid (fun _ _ => dout ++ flate_tail4) cfg op payload key with
  | GFrame fr =>
      (gres0 =? 0) && bytes_eqb fr frame &&
      forallb (fun t =>
        let closed := vbool (vget 0 t) in let cap := vnat (vget 1 t) in let w := vb (vget 2 t) in
        let '(o, w', r) := broadcast_write (list N) (win_write cap) closed w fr payload in
        (wres_code r =? vn (vget 3 t)) && opt_bytes_eqb o (vb (vget 4 t)) && bytes_eqb w' (vb (vget 5 t))) (vl (vget 8 c))
  | GErrEncoding => gres0 =? 2
  | GErrTooLarge => gres0 =? 3
  | GPanic => false
  end.

Definition fres_code (r : fres) : N :=
  match r with FOk => 0 | FReaderErr => 7 | FErr e => wres_code e end.

(* uncompressed WriteFile: case = VL [cfg; op; VL [ VL [bytes; eof] ...]; VL keys; result; wire] *)
Definition check_c05file (c : val) : bool :=
  let cfg := mk_wcfg (vget 0 c) in
  let op := vn (vget 1 c) in
  let reads := map (fun r => (vb (vget 0 r), vbool (vget 1 r))) (vl (vget 2 c)) in
  let keys := map vb (vl (vget 3 c)) in
  let '(frs, r) := split_reader (fun _ => true) (fun _ _ => []) cfg op 0 reads keys in
  (fres_code r =? vn (vget 4 c)) && bytes_eqb (concat frs) (vb (vget 5 c)) && wire_wf (w_server cfg) (vb (vget 5 c)).

(* compressed WriteFile (flateWriter): the library's write partition is not observable, so the case is checked
   against the conclusion of the fw_run theorems: one message, first frame carries the opcode and RSV1, the rest are
   continuations, FIN only on the last, payload = observed compressed stream, window = suffix.
   case = VL [cfg; op; data; cap; win_before; wire; win_after; result] *)
Definition check_c05filez (c : val) : bool :=
  let cfg := mk_wcfg (vget 0 c) in
  let op := vn (vget 1 c) in let data := vb (vget 2 c) in let cap := vnat (vget 3 c) in
  let w := vb (vget 4 c) in let wire := vb (vget 5 c) in let w_after := vb (vget 6 c) in
  if negb (vn (vget 7 c) =? 0) then wire_wf (w_server cfg) wire else
  match decode_all (S (length wire)) wire with
  | Some fs =>
      forallb (fun fm => outbound_wf (w_server cfg) (fst fm) (snd fm)) fs &&
      match group_messages None (map fst fs) with
      | Some [WData op' true _ _] => op' =? op
      | _ => false
      end && bytes_eqb (win_write cap w data) w_after
  | None => false
  end.
