(* Correspondence runner for C20: replays a recorded operation sequence on Model/Deque.v and compares,
   after EVERY call, the call's result and the observations of both deques (Len, Front/Back address,
   (address, value) of every element in Range order, Get(address).Value for each of them) with what the
   implementation (internal.Deque[int] through gws.VerifDeque) produced - including the addresses the
   implementation handed out.

   case = VL [VZ capacity (negative = zero-value deque); VL steps]
   step = VL [VN which; VN opcode; VN handle; VZ value; VZ result; obs0; obs1]
     which  : 0/1 = the deque the call is made on (deque 1 exists after the first Clone)
     opcode : 0 PushFront 1 PushBack 2 PopFront 3 PopBack 4 InsertAfter 5 InsertBefore 6 MoveToBack
              7 MoveToFront 8 Update 9 Remove 10 Reset 11 Clone (the OTHER deque becomes a clone of `which`)
     result : address of the returned element (0 = nil) for 0,1,4,5; popped value for 2,3; otherwise 0
   obs  = VL [VN present; VZ len; VN front; VN back; VL [VN addr; VZ value; ...]] *)
From Gws Require Import Lib.Base Lib.Val Model.Deque.
Local Open Scope Z_scope.

Definition dz := dq Z.

Definition addr_of (d : dz) (p : option nat) : option nat :=
  match p with
  | None => Some 0%nat
  | Some i => match rd d i with Some e => Some (eaddr e) | None => None end
  end.

(* apply one call; None = the model panics *)
Definition apply_op (d : dz) (opc : nat) (h : nat) (v : Z) : option (dz * Z) :=
  match opc with
  | 0%nat => pr <- dq_push_front 0 d v ;; a <- addr_of (fst pr) (Some (snd pr)) ;; Some (fst pr, Z.of_nat a)
  | 1%nat => pr <- dq_push_back 0 d v ;; a <- addr_of (fst pr) (Some (snd pr)) ;; Some (fst pr, Z.of_nat a)
  | 2%nat => dq_pop_front 0 d
  | 3%nat => dq_pop_back 0 d
  | 4%nat => pr <- dq_insert_after 0 d v h ;; a <- addr_of (fst pr) (snd pr) ;; Some (fst pr, Z.of_nat a)
  | 5%nat => pr <- dq_insert_before 0 d v h ;; a <- addr_of (fst pr) (snd pr) ;; Some (fst pr, Z.of_nat a)
  | 6%nat => d' <- dq_move_to_back d h ;; Some (d', 0)
  | 7%nat => d' <- dq_move_to_front d h ;; Some (d', 0)
  | 8%nat => d' <- dq_update d h v ;; Some (d', 0)
  | 9%nat => d' <- dq_remove 0 d h ;; Some (d', 0)
  | 10%nat => Some (dq_reset d, 0)
  | _ => None
  end.

Fixpoint items_eqb (d : dz) (l : list (elem Z)) (o : list val) : bool :=
  match l, o with
  | [], [] => true
  | e :: l', a :: v :: o' =>
      Nat.eqb (eaddr e) (vnat a) && Z.eqb (evalue e) (vz v)
      && match get d (eaddr e) with                       (* Get(addr).Value() *)
         | Some (Some i) => match rd d i with Some e' => Z.eqb (evalue e') (vz v) | None => false end
         | _ => false
         end
      && items_eqb d l' o'
  | _, _ => false
  end.

Definition obs_ok (d : option dz) (o : val) : bool :=
  match d with
  | None => negb (vbool (vget 0 o))
  | Some d =>
      vbool (vget 0 o)
      && Z.eqb (dq_len d) (vz (vget 1 o))
      && match f <- dq_front d ;; addr_of d f with Some a => Nat.eqb a (vnat (vget 2 o)) | None => false end
      && match b <- dq_back d ;; addr_of d b with Some a => Nat.eqb a (vnat (vget 3 o)) | None => false end
      && match dq_range d (fun _ => true) with
         | RangeOk l => items_eqb d l (vl (vget 4 o))
         | _ => false
         end
  end.

Fixpoint replay (d0 : option dz) (d1 : option dz) (steps : list val) : bool :=
  match steps with
  | [] => true
  | s :: rest =>
      let which := vnat (vget 0 s) in let opc := vnat (vget 1 s) in
      let h := vnat (vget 2 s) in let v := vz (vget 3 s) in let r := vz (vget 4 s) in
      let tgt := if Nat.eqb which 0 then d0 else d1 in
      match tgt with
      | None => false
      | Some d =>
          if Nat.eqb opc 11 then
            let c := Some (dq_clone d) in
            let d0' := if Nat.eqb which 0 then d0 else c in
            let d1' := if Nat.eqb which 0 then c else d1 in
            Z.eqb r 0 && obs_ok d0' (vget 5 s) && obs_ok d1' (vget 6 s) && replay d0' d1' rest
          else
            match apply_op d opc h v with
            | None => false
            | Some (d', r') =>
                let d0' := if Nat.eqb which 0 then Some d' else d0 in
                let d1' := if Nat.eqb which 0 then d1 else Some d' in
                Z.eqb r r' && obs_ok d0' (vget 5 s) && obs_ok d1' (vget 6 s) && replay d0' d1' rest
            end
      end
  end.

Definition check_c20 (c : val) : bool :=
  let cap := vz (vget 0 c) in
  match (if cap <? 0 then Some dq_zero else dq_new 0 cap) with
  | None => false
  | Some d => replay (Some d) None (vl (vget 1 c))
  end.
