(* Correspondence runners for C15: the start/end log observed on a real Conn.Async queue must be the
   log of the model run on the same event sequence. *)
From Gws Require Import Lib.Base Lib.Val Model.Queue.

(* log entries as the harness writes them: start t = 2t, end t = 2t+1 *)
Definition enc_log (l : list logent) : list N :=
  map (fun e => match e with LStart t => N.of_nat (2 * t) | LEnd t => N.of_nat (2 * t + 1) end) l.

Fixpoint first_running (ws : list (nat * wstate)) : option nat :=
  match ws with
  | [] => None
  | (w, WRun _) :: _ => Some w
  | _ :: r => first_running r
  end.

(* harness events: 0 = submit (Conn.Async); 1 = complete = release the running task, i.e. its job()
   returns and the same worker performs its next fetch *)
Definition h_step (s : sys) (e : N) : option sys :=
  if N.eqb e 0 then q_step s Submit
  else w <- first_running (s_workers s) ;; s1 <- q_step s (TaskEnd w) ;; q_step s1 (Fetch w).

(* run the events, recording the log length after each *)
Fixpoint h_run (s : sys) (evs : list val) : option (sys * list N) :=
  match evs with
  | [] => Some (s, [])
  | e :: r => s1 <- h_step s (vn e) ;; x <- h_run s1 r ;;
              Some (fst x, N.of_nat (length (s_log s1)) :: snd x)
  end.

(* case = VL [maxc; VL events; VL observed log; VL observed log length after each event] *)
Definition check_c15 (c : val) : bool :=
  match h_run (q_init (vz (vget 0 c))) (vl (vget 1 c)) with
  | Some (s, lens) =>
      list_eqb N.eqb (enc_log (s_log s)) (map vn (vl (vget 2 c)))
      && list_eqb N.eqb lens (map vn (vl (vget 3 c)))
  | None => false     (* an event the harness performed is not enabled in the model *)
  end.

(* concurrent submitters: the harness cannot observe the linearisation order of the Pushes other than
   through the start order, so tasks are renumbered by first start; whatever the interleaving was, the
   model's log for n tasks on a single server is the same: all n, one after the other.
   case = VL [n; VL observed log (renumbered)] *)
Definition check_c15_conc (c : val) : bool :=
  let n := vnat (vget 0 c) in
  let evs := repeat (VN 0%N) n ++ repeat (VN 1%N) n in
  match h_run (q_init 1) evs with
  | Some (s, _) => list_eqb N.eqb (enc_log (s_log s)) (map vn (vl (vget 1 c)))
  | None => false
  end.
