(* Correspondence runner for the inbound path (C03, C04, C13, read side of C16/C06):
   the events delivered, the way the read loop ended and the close status must equal the model's. *)
From Gws Require Import Lib.Base Lib.Val Spec.Rfc6455 Model.Header Model.CloseCode Model.Reader Model.Utf8.
Local Open Scope N_scope.

Definition win_write (cap : nat) (w p : list N) : list N := if (cap =? 0)%nat then [] else lastn cap (w ++ p).

(* inflate table shipped with the case: VL [ VL [dict; src; VN ok; out] ... ] *)
Fixpoint lookup_inflate (tbl : list val) (dict src : list N) : option (list N) :=
  match tbl with
  | [] => None
  | e :: r =>
      if bytes_eqb (vb (vget 0 e)) dict && bytes_eqb (vb (vget 1 e)) src
      then (if vbool (vget 2 e) then Some (vb (vget 3 e)) else None)
      else lookup_inflate r dict src
  end.

(* utf8 verdict table (legacy field of the case format; the runner now uses Model/Utf8.utf8_valid itself) *)
Fixpoint lookup_utf8 (tbl : list val) (p : list N) : bool :=
  match tbl with
  | [] => true
  | e :: r => if bytes_eqb (vb (vget 0 e)) p then vbool (vget 1 e) else lookup_utf8 r p
  end.

Definition ev_eqb (e : event) (v : val) : bool :=
  match e with
  | EvMsg op p => (vn (vget 0 v) =? 0) && (vn (vget 1 v) =? op) && bytes_eqb (vb (vget 2 v)) p
  | EvPing p => (vn (vget 0 v) =? 1) && bytes_eqb (vb (vget 2 v)) p
  | EvPong p => (vn (vget 0 v) =? 2) && bytes_eqb (vb (vget 2 v)) p
  end.

Fixpoint evs_eqb (es : list event) (vs : list val) : bool :=
  match es, vs with
  | [], [] => true
  | e :: es', v :: vs' => ev_eqb e v && evs_eqb es' vs'
  | _, _ => false
  end.

(* observed end of the read loop: VL [kind; a; b; c]
     kind 0 = stream ended (a = 1 if "unexpected EOF", 0 if "EOF"; close status written b)
     kind 1 = failed by gws with close status a
     kind 2 = peer close: reported code a, reason b (bytes), reply status c (0 = empty body)
     kind 9 = panic *)
Definition outcome_eqb (W : Type) (o : outcome W) (v : val) : bool :=
  let k := vn (vget 0 v) in
  match o with
  | OMore _ _ partial => (k =? 0) && (vn (vget 1 v) =? (if partial then 1 else 0)) && (vn (vget 2 v) =? sc_normal)
  | OFail _ s => (k =? 1) && (vn (vget 1 v) =? s)
  | OPeerClose _ code reason reply => (k =? 2) && (vn (vget 1 v) =? code) && bytes_eqb (vb (vget 2 v)) reason && (vn (vget 3 v) =? reply)
  | OPanic _ => k =? 9
  | OFuel _ => false
  end.

(* case = VL [ VL [server; pmd; limit; utf8]; cap; stream; inflate_table; utf8_table; events; outcome ] *)
Definition check_c03 (c : val) : bool :=
  let cv := vget 0 c in
  let cfg := {| r_server := vbool (vget 0 cv); r_pmd := vbool (vget 1 cv); r_limit := vz (vget 2 cv); r_utf8 := vbool (vget 3 cv) |} in
  let cap := vnat (vget 1 c) in
  let stream := vb (vget 2 c) in
  let itbl := vl (vget 3 c) in let utbl := vl (vget 4 c) in
  let '(evs, o) := read_stream Utf8.utf8_valid (fun d s _ => lookup_inflate itbl d s) (list N) (fun x => x) (win_write cap)
                               (S (length stream)) cfg (r_init (list N) []) stream in
  evs_eqb evs (vl (vget 5 c)) && outcome_eqb (list N) o (vget 6 c).
