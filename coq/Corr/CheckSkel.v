(* Correspondence for the skeleton: case = VL [VB entry-point name (ASCII); VL [VN obs ...]] *)
From Gws Require Import Lib.Base Lib.Val Skel.IR Skel.Accept Gen.Skel.
Local Open Scope N_scope.

Fixpoint find_ep (name : list N) (l : list (list N * stmt)) : option stmt :=
  match l with
  | [] => None
  | (n, s) :: r => if bytes_eqb n name then Some s else find_ep name r
  end.

Definition check_skeltrace (c : val) : bool :=
  match find_ep (vb (vget 0 c)) entry_points_b with
  | Some s => accepted (map vnat (vl (vget 1 c))) s
  | None => false
  end.
